import Dashu.Model.NT.Log2
import Dashu.Model.NT.Log
/-
  C19 clause (2) — `EstimatedLog2::log2_bounds` in the two feature configurations.

  * std build: `Dashu.Model.NT.log2BoundsPrim / log2BoundsNat` (C12's replica of the `f32::log2` code).
  * no_std build (this file): the table-driven code of base/src/math/log.rs under
    `#[cfg(not(feature = "std"))]` — `impl EstimatedLog2 for u8`, `for u16`,
    `impl_log2_bounds_for_uint!(u32 u64 u128 usize)` — on top of C12's `log2Fp8` / `ceilLog2Fp8`
    (the functions of the table theorem), with Lean's compiled `Float32` for the `as f32 / 256.0`,
    `lb / 4.`, `+ shift as f32` steps (IEEE single operations, exactly rounded: the same bits).

  Not used in theorems (the kernel cannot evaluate `Float32`); the driver checks the enclosure of
  every pair of bounds exactly (`enclosureMark`).  Core Lean only.
-/
namespace Dashu.Model.Serde
open Dashu.Model.NT

def f32 (n : Nat) : Float32 := Float32.ofNat n

/-- `impl EstimatedLog2 for u8` (no_std), `x ≤ 255` -/
def log2BoundsU8NoStd (x : Nat) : Float32 × Float32 :=
  if x = 0 then (negInf, negInf)
  else if x = 1 then (f32 0, f32 0)
  else if isPow2 x then (f32 (bitLen x - 1), f32 (bitLen x - 1))
  else if x = 3 then (Float32.ofBits 0x3fcae00d, Float32.ofBits 0x3fcae00e)
  else if x < 16 then
    let pow := x ^ 4
    (f32 (log2Fp8 pow) / f32 256 / f32 4, f32 (ceilLog2Fp8 pow) / f32 256 / f32 4)
  else
    let pow := x ^ 2
    (f32 (log2Fp8 pow) / f32 256 / f32 2, f32 (ceilLog2Fp8 pow) / f32 256 / f32 2)

/-- `impl EstimatedLog2 for u16` and `impl_log2_bounds_for_uint!` (no_std): the same function of
    the value for every unsigned primitive type that holds `x` -/
def log2BoundsPrimNoStd (x : Nat) : Float32 × Float32 :=
  if x ≤ 0xff then log2BoundsU8NoStd x
  else if isPow2 x then (f32 (bitLen x - 1), f32 (bitLen x - 1))
  else
    let bits := bitLen x
    if bits ≤ 16 then (f32 (log2Fp8 x) / f32 256, f32 (ceilLog2Fp8 x) / f32 256)
    else
      let shift := bits - 16
      let hi := x >>> shift
      let lb := f32 (log2Fp8 hi) / f32 256
      let ub := f32 (if hi = 2 ^ 15 then 15 * 256 + 1 else ceilLog2Fp8 hi) / f32 256
      (nextDown (lb + f32 shift), nextUp (ub + f32 shift))

def log2BoundsPrimCfg (std : Bool) (x : Nat) : Float32 × Float32 :=
  if std then log2BoundsPrim x else log2BoundsPrimNoStd x

/-- `TypedReprRef::log2_bounds`: inline values through the `DoubleWord` impl, heap values through
    `log2_bounds_large` (top double word + number of remaining bits, widened by `2·EPSILON`) -/
def log2BoundsNatCfg (std : Bool) (W : Nat) (x : Nat) : Float32 × Float32 :=
  if x < 2 ^ (2 * W) then log2BoundsPrimCfg std x
  else
    let len := wordLen W x
    let hi := x >>> (W * (len - 2))
    let remBits := f32 ((len - 2) * W)
    let (hlb, hub) := log2BoundsPrimCfg std hi
    let adjust : Float32 := Float32.ofBits 0x34800000
    ((hlb + remBits) * ((1 : Float32) - adjust), (hub + remBits) * ((1 : Float32) + adjust))

end Dashu.Model.Serde
