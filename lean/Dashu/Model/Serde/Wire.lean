/-
  C19 clause (3) — the two serialization media, as far as dashu's serde impls use them
  (core Lean only; byte strings are `List Nat`, a byte is a `Nat < 256`).

  * binary medium = `postcard` 1.1 on a 64-bit-`usize` host: `serialize_bytes` = varint(len) ++ bytes;
    `isize` = zig-zag varint (as `i64`); `usize` = varint (as `u64`); a struct = its fields in
    order (`deserialize_struct` = `deserialize_tuple(fields.len())`).
    Source read: postcard-1.1.3 `src/de/deserializer.rs` (`try_take_varint_u64`, `deserialize_bytes`,
    `deserialize_i64`, `deserialize_struct`), `src/varint.rs`.
  * human-readable medium = `serde_json`: `collect_str` writes one JSON string; `deserialize_str`
    on the whole input accepts exactly one JSON string surrounded by JSON white space.
  * `leBytes` / `ofLeBytes`: minimal little-endian bytes of a natural number — the byte format of
    `words_to_le_bytes::<false>` / `UBig::from_le_bytes` as a function of the *value* (no word size
    occurs in the definition).
-/
namespace Dashu.Model.Serde

abbrev Bytes := List Nat

-- ---------------------------------------------------------------- little-endian bytes of a value

/-- minimal little-endian bytes, `0 ↦ []` (`UBig::to_le_bytes`, `words_to_le_bytes::<false>`) -/
def leBytes (n : Nat) : Bytes :=
  if h : n = 0 then [] else n % 256 :: leBytes (n / 256)
termination_by n
decreasing_by exact Nat.div_lt_self (by omega) (by omega)

/-- value of little-endian bytes (`UBig::from_le_bytes`): any length, leading zero bytes allowed -/
def ofLeBytes : Bytes → Nat
  | [] => 0
  | b :: bs => b + 256 * ofLeBytes bs

def isBytes (bs : Bytes) : Prop := ∀ b ∈ bs, b < 256

-- ---------------------------------------------------------------- postcard varints

/-- `postcard::varint::varint_u64`: 7 bits per byte, least significant group first,
    bit 7 = continuation -/
def varintEnc (n : Nat) : Bytes :=
  if h : n < 128 then [n] else (n % 128 + 128) :: varintEnc (n / 128)
termination_by n
decreasing_by exact Nat.div_lt_self (by omega) (by omega)

/-- `try_take_varint_u64`: at most `fuel` more bytes (10 for a `u64`), `i` = index of the next
    byte, `out` = the groups read so far.  The last (10th) byte may only be 0 or 1.
    `none` = `DeserializeUnexpectedEnd` or `DeserializeBadVarint`. -/
def varintDecAux : Nat → Nat → Nat → Bytes → Option (Nat × Bytes)
  | 0, _, _, _ => none
  | _ + 1, _, _, [] => none
  | fuel + 1, i, out, b :: rest =>
    let out' := out + (b % 128) * 2 ^ (7 * i)
    if b < 128 then
      if fuel = 0 ∧ b > 1 then none else some (out', rest)
    else varintDecAux fuel (i + 1) out' rest

def varintDec (bs : Bytes) : Option (Nat × Bytes) := varintDecAux 10 0 0 bs

/-- zig-zag of an `i64` -/
def zigzag (z : Int) : Nat := if z < 0 then (2 * (-z) - 1).toNat else (2 * z).toNat

def unzigzag (v : Nat) : Int := if v % 2 = 0 then ((v / 2 : Nat) : Int) else -(((v + 1) / 2 : Nat) : Int)

def inI64 (z : Int) : Prop := -(2 : Int) ^ 63 ≤ z ∧ z < (2 : Int) ^ 63
instance (z : Int) : Decidable (inI64 z) := by unfold inI64; exact inferInstance

/-- `serialize_bytes` -/
def pcBytes (bs : Bytes) : Bytes := varintEnc bs.length ++ bs

/-- `deserialize_bytes`: length prefix, then exactly that many bytes (`try_take_n`) -/
def pcTakeBytes (s : Bytes) : Option (Bytes × Bytes) :=
  match varintDec s with
  | none => none
  | some (n, rest) => if rest.length < n then none else some (rest.take n, rest.drop n)

def pcI64 (z : Int) : Bytes := varintEnc (zigzag z)
def pcTakeI64 (s : Bytes) : Option (Int × Bytes) := (varintDec s).map fun (v, r) => (unzigzag v, r)
def pcU64 (n : Nat) : Bytes := varintEnc n
def pcTakeU64 (s : Bytes) : Option (Nat × Bytes) := varintDec s

-- ---------------------------------------------------------------- JSON strings

def hexDigitVal (c : Nat) : Option Nat :=
  if 48 ≤ c ∧ c ≤ 57 then some (c - 48)
  else if 97 ≤ c ∧ c ≤ 102 then some (c - 87)
  else if 65 ≤ c ∧ c ≤ 70 then some (c - 55)
  else none

def hex4 (a b c d : Nat) : Option Nat := do
  let x ← hexDigitVal a; let y ← hexDigitVal b; let z ← hexDigitVal c; let w ← hexDigitVal d
  pure (((x * 16 + y) * 16 + z) * 16 + w)

/-- UTF-8 bytes of a code point, reversed (for the accumulator) -/
def utf8Rev (cp : Nat) : Bytes :=
  if cp < 128 then [cp]
  else if cp < 2048 then [128 + cp % 64, 192 + cp / 64]
  else if cp < 65536 then [128 + cp % 64, 128 + cp / 64 % 64, 224 + cp / 4096]
  else [128 + cp % 64, 128 + cp / 64 % 64, 128 + cp / 4096 % 64, 240 + cp / 262144]

/-- body of a JSON string after the opening quote (serde_json `parse_str`): returns the decoded
    bytes and what follows the closing quote.  Control characters, bad escapes, lone surrogates
    and an unterminated string are errors. -/
def jsonStrBody : Bytes → Bytes → Option (Bytes × Bytes)
  | [], _ => none
  | 34 :: rest, acc => some (acc.reverse, rest)
  | 92 :: 34 :: r, acc => jsonStrBody r (34 :: acc)
  | 92 :: 92 :: r, acc => jsonStrBody r (92 :: acc)
  | 92 :: 47 :: r, acc => jsonStrBody r (47 :: acc)
  | 92 :: 98 :: r, acc => jsonStrBody r (8 :: acc)
  | 92 :: 102 :: r, acc => jsonStrBody r (12 :: acc)
  | 92 :: 110 :: r, acc => jsonStrBody r (10 :: acc)
  | 92 :: 114 :: r, acc => jsonStrBody r (13 :: acc)
  | 92 :: 116 :: r, acc => jsonStrBody r (9 :: acc)
  | 92 :: 117 :: a :: b :: c :: d :: r, acc =>
    match hex4 a b c d with
    | none => none
    | some cp =>
      if 0xDC00 ≤ cp ∧ cp ≤ 0xDFFF then none
      else if 0xD800 ≤ cp ∧ cp ≤ 0xDBFF then
        match r with
        | 92 :: 117 :: a2 :: b2 :: c2 :: d2 :: r2 =>
          match hex4 a2 b2 c2 d2 with
          | none => none
          | some lo =>
            if 0xDC00 ≤ lo ∧ lo ≤ 0xDFFF then
              jsonStrBody r2 (utf8Rev (0x10000 + (cp - 0xD800) * 1024 + (lo - 0xDC00)) ++ acc)
            else none
        | _ => none
      else jsonStrBody r (utf8Rev cp ++ acc)
  | 92 :: _, _ => none
  | c :: rest, acc => if c < 32 then none else jsonStrBody rest (c :: acc)

def jsonWs (c : Nat) : Bool := c == 32 || c == 9 || c == 10 || c == 13

/-- `serde_json::from_slice::<T>` where `T` asks for `deserialize_str`: the decoded string, or
    `none` for anything that is not exactly one JSON string -/
def jsonUnquote (s : Bytes) : Option Bytes :=
  match s.dropWhile jsonWs with
  | 34 :: rest =>
    match jsonStrBody rest [] with
    | some (str, after) => if (after.dropWhile jsonWs).isEmpty then some str else none
    | none => none
  | _ => none

def jsonEscapeChar (c : Nat) : Bytes :=
  if c = 34 then [92, 34] else if c = 92 then [92, 92]
  else if c = 8 then [92, 98] else if c = 9 then [92, 116] else if c = 10 then [92, 110]
  else if c = 12 then [92, 102] else if c = 13 then [92, 114]
  else if c < 32 then [92, 117, 48, 48, (if c / 16 = 0 then 48 else 49), (if c % 16 < 10 then 48 + c % 16 else 87 + c % 16)]
  else [c]

/-- `serde_json::to_vec` of a string (`collect_str`) -/
def jsonQuote (s : Bytes) : Bytes := 34 :: s.flatMap jsonEscapeChar ++ [34]

/-- characters that dashu's `Display` impls produce: none of them needs an escape -/
def plainChar (c : Nat) : Prop := 32 ≤ c ∧ c ≠ 34 ∧ c ≠ 92

end Dashu.Model.Serde
