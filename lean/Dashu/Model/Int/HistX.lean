import Dashu.Model.Int.Hist
import Dashu.Model.NT.Lehmer
import Dashu.Model.NT.Root
import Dashu.Model.Text.Bytes
import Dashu.Model.Text.Parse
import Dashu.Model.Text.Spec
/-
  C05 histories, extended instruction set (round 4): the integer producers that were missing from `HOp`
  — `gcd` (C12: every kernel mirrored, `Model/NT/Lehmer.lean`), `sqrt`, `nth_root` (C12, `Model/NT/Root.lean`),
  `from_str_radix` (C07: the mirrored parser `Model/Text/Parse.lean`), `from_le_bytes` / `from_be_bytes` (unsigned
  and two's complement, C07 `Model/Text/Bytes.lean`) and the round trip `from_*_bytes(to_*_bytes(x))`.

  These models compute the VALUE of the result from the values of the operands (their word-level results are
  assembled by `Repr::from_buffer` / `from_word` / `from_dword`, i.e. `ofNat`, then the sign is applied by
  `IBig::from_parts`-style `with_sign`, i.e. `sOfInt`).  `HOpX.base` embeds the old instruction set, so every
  theorem about `hrunX` covers the old histories as well.
-/
namespace Dashu.Model

inductive HOpX where
  | base (op : HOp)
  /-- `Gcd::gcd` for `UBig`/`IBig` operands (the result is a `UBig`) -/
  | gcd (i j : Nat)
  /-- `SquareRoot::sqrt` (`UBig`; `IBig`: panics for a negative operand, result `UBig`) -/
  | sqrt (i : Nat)
  /-- `nth_root(n)` (`UBig`/`IBig`) -/
  | nthRoot (i n : Nat)
  /-- `UBig::from_str_radix` (`signed = false`) / `IBig::from_str_radix` on the given ASCII text -/
  | fromStr (signed : Bool) (radix : Nat) (text : List Nat)
  /-- `UBig::from_le_bytes` / `from_be_bytes` -/
  | fromLeBytes (bs : List Nat) | fromBeBytes (bs : List Nat)
  /-- `IBig::from_le_bytes` / `from_be_bytes` (two's complement) -/
  | fromSignedLeBytes (bs : List Nat) | fromSignedBeBytes (bs : List Nat)
  /-- `IBig::from_le_bytes(&x.to_le_bytes())` / the big-endian pair -/
  | viaLeBytes (i : Nat) | viaBeBytes (i : Nat)

/-- typing conditions: byte strings hold bytes; the byte and text codecs are written for a word of whole bytes
    (`8 ∣ W`, as on every target of the library); the root kernels for an even word size -/
def HOpX.Ok (W : Nat) : HOpX → Prop
  | .base op => op.Ok W
  | .gcd _ _ => True
  | .sqrt _ | .nthRoot _ _ => W % 2 = 0
  | .fromStr _ _ _ => 36 < 2 ^ W
  | .fromLeBytes _ | .fromBeBytes _ | .viaLeBytes _ | .viaBeBytes _ => 8 ∣ W ∧ 8 ≤ W
  | .fromSignedLeBytes bs | .fromSignedBeBytes bs => 8 ∣ W ∧ 8 ≤ W ∧ ∀ b ∈ bs, b < 256

def ofExceptNat (W : Nat) : Except PanicKind Nat → HRes SRepr
  | .ok n => .ok ⟨false, ofNat W n⟩
  | .error k => .panic k

def ofExceptInt (W : Nat) : Except PanicKind Int → HRes SRepr
  | .ok z => .ok (sOfInt W z)
  | .error k => .panic k

/-- execute one instruction on the representations -/
def hstepX (W : Nat) (env : List SRepr) : HOpX → HRes SRepr
  | .base op => hstep W env op
  | .gcd i j => match env[i]?, env[j]? with
    | some a, some b => ofExceptNat W (NT.gcdInt W (a.value W) (b.value W)) | _, _ => .bad
  | .sqrt i => match env[i]? with
    | some a => ofExceptNat W (NT.sqrtInt W (a.value W)) | none => .bad
  | .nthRoot i n => match env[i]? with
    | some a => ofExceptInt W (NT.nthRootInt W true (a.value W) n) | none => .bad
  | .fromStr signed radix text => match Text.parseRadix W signed text radix with
    | .ok z => .ok (sOfInt W z) | .error _ => .bad
  | .fromLeBytes bs => .ok ⟨false, ofNat W (Text.fromLeBytes W bs)⟩
  | .fromBeBytes bs => .ok ⟨false, ofNat W (Text.fromBeBytes W bs)⟩
  | .fromSignedLeBytes bs => .ok (sOfInt W (Text.fromSignedLeBytes W bs))
  | .fromSignedBeBytes bs => .ok (sOfInt W (Text.fromSignedBeBytes W bs))
  | .viaLeBytes i => match env[i]? with
    | some a => .ok (sOfInt W (Text.fromSignedLeBytes W (Text.ibigToLeBytes W (a.value W)))) | none => .bad
  | .viaBeBytes i => match env[i]? with
    | some a => .ok (sOfInt W (Text.fromSignedBeBytes W (Text.ibigToBeBytes W (a.value W)))) | none => .bad

/-- the same instruction on mathematical integers -/
def hspecX (W : Nat) (env : List Int) : HOpX → HRes Int
  | .base op => hspec W env op
  | .gcd i j => match env[i]?, env[j]? with
    | some a, some b => if a = 0 ∧ b = 0 then .panic .gcdZeroZero else .ok (Int.gcd a b : Nat) | _, _ => .bad
  | .sqrt i => match env[i]? with
    | some a => if a < 0 then .panic .rootNegative else .ok (Nat.sqrt a.toNat : Nat) | none => .bad
  | .nthRoot i n => match env[i]? with
    | some a =>
      if n = 0 then .panic .rootZeroth
      else if a < 0 ∧ n % 2 = 0 then .panic .rootNegative
      else .ok (if a < 0 then -(NT.iroot a.natAbs n : Int) else (NT.iroot a.natAbs n : Int))
    | none => .bad
  | .fromStr signed radix text => match Text.parseRadixSpec signed text radix with
    | .ok z => .ok z | .error _ => .bad
  | .fromLeBytes bs => .ok (Text.ofLeBytesSpec bs : Nat)
  | .fromBeBytes bs => .ok (Text.ofLeBytesSpec bs.reverse : Nat)
  | .fromSignedLeBytes bs => .ok (Text.ofSignedLeBytesSpec bs)
  | .fromSignedBeBytes bs => .ok (Text.ofSignedLeBytesSpec bs.reverse)
  | .viaLeBytes i => match env[i]? with | some a => .ok a | none => .bad
  | .viaBeBytes i => match env[i]? with | some a => .ok a | none => .bad

def hrunX (W : Nat) : List HOpX → List SRepr → List SRepr × Bool
  | [], env => (env, true)
  | op :: ops, env =>
    match hstepX W env op with
    | .ok r => hrunX W ops (env ++ [r])
    | _ => (env, false)

def hrunSpecX (W : Nat) : List HOpX → List Int → List Int × Bool
  | [], env => (env, true)
  | op :: ops, env =>
    match hspecX W env op with
    | .ok r => hrunSpecX W ops (env ++ [r])
    | _ => (env, false)

end Dashu.Model
