/-
  The word-multiplication primitives of `integer/src/math.rs` (`mul_add_carry`, `mul_add_2carry`,
  `mul_add_carry_dword`) as they are written: `split_dword(extend_word(a) * extend_word(b) + …)`, and the 2×2-word
  product assembled from four of them.  Used by `mul_dword_spilled`, `square_dword_spilled` (mul_ops.rs) and
  `pow_dword_base` (pow.rs).  Core Lean only; `Proofs/Int/MulPrim.lean` proves them exact for all inputs.
-/
namespace Dashu.Model

/-- `math::mul_add_carry(lhs, rhs, carry)`: `split_dword(extend_word(lhs) * extend_word(rhs) + extend_word(carry))` -/
def mulAddCarry (W lhs rhs carry : Nat) : Nat × Nat :=
  let v := lhs * rhs + carry
  (v % 2 ^ W, v / 2 ^ W)

/-- `math::mul_add_2carry(lhs, rhs, c0, c1)` -/
def mulAdd2Carry (W lhs rhs c0 c1 : Nat) : Nat × Nat :=
  let v := lhs * rhs + c0 + c1
  (v % 2 ^ W, v / 2 ^ W)

/-- `math::mul_add_carry_dword(lhs, rhs, carry)`: the 2×2-word product by four word multiplications; returns
    `(lo, hi)` double words -/
def mulAddCarryDword (W lhs rhs carry : Nat) : Nat × Nat :=
  let x0 := lhs % 2 ^ W; let x1 := lhs / 2 ^ W           -- split_dword(lhs)
  let y0 := rhs % 2 ^ W; let y1 := rhs / 2 ^ W           -- split_dword(rhs)
  let ic0 := carry % 2 ^ W; let ic1 := carry / 2 ^ W     -- split_dword(carry)
  let (z0, c0) := mulAddCarry W x0 y0 ic0
  let (z1, c1a) := mulAddCarry W x1 y0 c0
  let (z1, c1b) := mulAdd2Carry W x0 y1 z1 ic1
  let (z2, z3) := mulAdd2Carry W x1 y1 c1a c1b
  (z0 + 2 ^ W * z1, z2 + 2 ^ W * z3)                     -- double_word(z0, z1), double_word(z2, z3)

end Dashu.Model
