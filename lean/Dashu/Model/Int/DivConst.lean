import Dashu.Model.Int.Div
/-
  C02: the `const` constructors of `ConstDivisor` (integer/src/div_const.rs `ConstDivisor::from_word`,
  `ConstDivisor::from_dword`) mirrored directly — their own zero tests, `shrink_dword`, and the two
  constructor calls `ConstSingleDivisor::new` / `ConstDoubleDivisor::new` (each = num-modular's
  `PreMulInv2by1::new` / `PreMulInv3by2::new`: `shift = divisor.leading_zeros()`, divider of
  `divisor << shift`) with their `debug_assert!`s as error values.  `Props/C02` proves them equal to
  `ConstDivisor::new` of the same value.  Core Lean only.
-/
namespace Dashu.Model.Div
open Dashu.Model

/-- `ConstSingleDivisor::new(n)`: `debug_assert!(n != 0)`; `PreMulInv2by1::<Word>::new(n)` =
    `shift = n.leading_zeros()`, `Normalized2by1Divisor::new(n << shift)` -/
def constSingleNew (W n : Nat) : Except PanicKind ConstDiv :=
  if n = 0 then .error (assertErr "ConstSingleDivisor::new: n != 0")
  else do
    let shift := lz W n
    let d ← normNew W ((n * 2 ^ shift) % 2 ^ W)
    pure (.single d shift)

/-- `ConstDoubleDivisor::new(n)`: `debug_assert!(n > Word::MAX as DoubleWord)`;
    `PreMulInv3by2::<Word, DoubleWord>::new(n)` = `shift = n.leading_zeros()`,
    `Normalized3by2Divisor::new(n << shift)` -/
def constDoubleNew (W n : Nat) : Except PanicKind ConstDiv :=
  if n < 2 ^ W then .error (assertErr "ConstDoubleDivisor::new: n > Word::MAX")
  else do
    let shift := lz (2 * W) n
    let d ← normNew (2 * W) ((n * 2 ^ shift) % 2 ^ (2 * W))
    pure (.double d shift)

/-- `primitive::shrink_dword(dw)`: `let (lo, hi) = split_dword(dw); if hi == 0 { Some(lo) } else { None }` -/
def shrinkDword (W dw : Nat) : Option Nat :=
  if dw / 2 ^ W = 0 then some (dw % 2 ^ W) else none

/-- `ConstDivisor::from_word(word)`: `if word == 0 { panic_divide_by_0() }`, then
    `ConstDivisorRepr::Single(ConstSingleDivisor::new(word))` -/
def ConstDiv.fromWord (W word : Nat) : Except PanicKind ConstDiv :=
  if word = 0 then .error .divideByZero else constSingleNew W word

/-- `ConstDivisor::from_dword(dword)`: `if dword == 0 { panic_divide_by_0() }`, then
    `if let Some(word) = shrink_dword(dword) { Single(ConstSingleDivisor::new(word)) }
     else { Double(ConstDoubleDivisor::new(dword)) }` -/
def ConstDiv.fromDword (W dword : Nat) : Except PanicKind ConstDiv :=
  if dword = 0 then .error .divideByZero
  else match shrinkDword W dword with
    | some word => constSingleNew W word
    | none => constDoubleNew W dword

end Dashu.Model.Div
