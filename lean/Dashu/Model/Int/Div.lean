import Dashu.Model.Int.Repr
import Dashu.Model.Int.Mul
import Dashu.Gen.Misc
/-
  Division layer of the integer model (C02): mirrors `integer/src/div/mod.rs`, `div/simple.rs`,
  `shift.rs` (the loops division uses), `div_ops.rs` (`mod repr` dispatch and the sign tables) and
  `div_const.rs` (ConstDivisor), function by function.

  * `W` (word bits) is a parameter of every word-level definition; slices are little-endian
    `List Nat`; in-place mutation returns the new list.
  * Panics are values (`Except PanicKind`): `.divideByZero` where the code calls
    `panic_divide_by_0()`, `.undocumented site` for every `assert!`/`debug_assert!`/index the code
    can reach (the theorems show which of them are unreachable).
  * The `num-modular` primitives (`Normalized2by1Divisor`, `Normalized3by2Divisor`) are **contract
    parameters**: modelled as exact floor division guarded by the precondition the crate asserts
    (`a_hi < divisor`, "top bit set"); a violated precondition is an `.undocumented` error, never a
    silently wrong value.
  * Burnikel–Ziegler (`div/divide_conquer.rs`) is mirrored (`bzSameLen`, `bzSmallQuotient`,
    `bzOuter`); the multiplication it calls is C01's mirrored `addSignedMul`
    (`Dashu/Model/Int/Mul.lean`: schoolbook / Karatsuba / Toom-3 with chunk splitting).
  Core Lean only.
-/
namespace Dashu.Model.Div
open Dashu.Model

-- ------------------------------------------------------------------ std / num-modular contracts

/-- `x.leading_zeros()` of a `bits`-bit unsigned integer -/
def lz (bits x : Nat) : Nat := if x = 0 then bits else bits - 1 - Nat.log2 x

/-- `x.is_power_of_two()` -/
def isPow2 (n : Nat) : Bool := decide (n = 2 ^ Nat.log2 n)

def assertErr (site : String) : PanicKind := .undocumented site

/-- `Normalized2by1Divisor::new` / `Normalized3by2Divisor::new`: `assert!(divisor.leading_zeros() == 0)`;
    the divider is represented by its (normalised) divisor -/
def normNew (bits d : Nat) : Except PanicKind Nat :=
  if 2 ^ (bits - 1) ≤ d then .ok d else .error (assertErr "Normalized divisor: leading_zeros == 0")

/-- `div_rem_1by1` (the code: `if a < d {(0, a)} else {(1, a - d)}`) -/
def div1by1 (d a : Nat) : Nat × Nat := if a < d then (0, a) else (1, a - d)

/-- `div_rem_2by2` (same shape on double words) -/
def div2by2 (d a : Nat) : Nat × Nat := if a < d then (0, a) else (1, a - d)

/-- contract of `div_rem_2by1(a)`: exact floor division, requires `a_hi < divisor` -/
def div2by1 (W d a : Nat) : Except PanicKind (Nat × Nat) :=
  if a / 2 ^ W < d then .ok (a / d, a % d) else .error (assertErr "div_rem_2by1: a_hi < divisor")

/-- contract of `div_rem_3by2(a_lo, a_hi)` with a double-word divisor, requires `a_hi < divisor` -/
def div3by2 (W d aLo aHi : Nat) : Except PanicKind (Nat × Nat) :=
  if aHi < d then .ok ((aLo + 2 ^ W * aHi) / d, (aLo + 2 ^ W * aHi) % d)
  else .error (assertErr "div_rem_3by2: a_hi < divisor")

/-- contract of `div_rem_4by2(a_lo, a_hi)` (two chained 3by2 steps), requires `a_hi < divisor` -/
def div4by2 (W d aLo aHi : Nat) : Except PanicKind (Nat × Nat) :=
  if aHi < d then .ok ((aLo + 2 ^ (2 * W) * aHi) / d, (aLo + 2 ^ (2 * W) * aHi) % d)
  else .error (assertErr "div_rem_4by2: a_hi < divisor")

-- ------------------------------------------------------------------ shift.rs / math.rs

/-- loop of `shl_in_place` (`shift ≠ 0`), carry-in `c` -/
def shlLoop (W shift : Nat) : List Nat → Nat → List Nat × Nat
  | [], c => ([], c)
  | w :: ws, c =>
    let v := w * 2 ^ shift
    let (r, c') := shlLoop W shift ws (v / 2 ^ W)
    ((v % 2 ^ W ||| c) :: r, c')

/-- `shift::shl_in_place(words, shift)`, `shift < W`; returns (words, carry) -/
def shlInPlace (W : Nat) (ws : List Nat) (shift : Nat) : List Nat × Nat :=
  if shift = 0 then (ws, 0) else shlLoop W shift ws 0

/-- `math::shr_word(w, shift)` = (w >> shift, shifted-out bits in the high bits of a word) -/
def shrWord (W w shift : Nat) : Nat × Nat :=
  let v := (w * 2 ^ W) / 2 ^ shift
  (v / 2 ^ W, v % 2 ^ W)

/-- loop of `shr_in_place_with_carry` (`shift ≠ 0`): from the top word down -/
def shrLoop (W shift : Nat) : List Nat → Nat → List Nat × Nat
  | [], c => ([], c)
  | w :: ws, c =>
    let (r, c1) := shrLoop W shift ws c
    let (nw, nc) := shrWord W w shift
    ((nw ||| c1) :: r, nc)

/-- `shift::shr_in_place_with_carry` -/
def shrInPlaceWithCarry (W : Nat) (ws : List Nat) (shift carry : Nat) : List Nat × Nat :=
  if shift = 0 then (ws, 0) else shrLoop W shift ws carry

/-- `shift::shr_in_place_one_word` (non-empty slice) -/
def shrInPlaceOneWord : List Nat → List Nat × Nat
  | [] => ([], 0)
  | w :: ws => (ws ++ [0], w)

/-- `shift::shr_in_place(words, shift)`, `shift ≤ W`; returns (words, shifted-out bits, high-aligned) -/
def shrInPlace (W : Nat) (ws : List Nat) (shift : Nat) : List Nat × Nat :=
  if shift = W then shrInPlaceOneWord ws else shrInPlaceWithCarry W ws shift 0

/-- `math::shl_dword(dw, shift)`, `shift ≤ W`: (lo, mid, hi) -/
def shlDword (W dw shift : Nat) : Nat × Nat × Nat :=
  let lo := dw % 2 ^ W
  let hi := dw / 2 ^ W
  let a := lo * 2 ^ shift
  let n0 := a % 2 ^ W
  let carry := a / 2 ^ W
  let b := (hi * 2 ^ shift) ||| carry
  (n0, b % 2 ^ W, b / 2 ^ W)

-- ------------------------------------------------------------------ div/mod.rs: word divisor

/-- loop of `fast_div_by_word_in_place`: `for word in words.iter_mut().rev()` -/
def fastDivByWordLoop (W d : Nat) : List Nat → Nat → Except PanicKind (List Nat × Nat)
  | [], rem => .ok ([], rem)
  | w :: ws, rem => do
    let (qs, r) ← fastDivByWordLoop W d ws rem
    let (q, r') ← div2by1 W d (w + 2 ^ W * r)
    pure (q :: qs, r')

/-- `fast_div_by_word_in_place(words, shift, fast_div_rhs)`; `d` is the normalised divisor -/
def fastDivByWordInPlace (W : Nat) (ws : List Nat) (shift d : Nat) : Except PanicKind (List Nat × Nat) := do
  let (ws', c) := shlInPlace W ws shift
  let (qs, r) ← fastDivByWordLoop W d ws' c
  pure (qs, r / 2 ^ shift)

/-- `div_by_word_in_place(words, rhs)`: (quotient words, remainder) -/
def divByWordInPlace (W : Nat) (ws : List Nat) (rhs : Nat) : Except PanicKind (List Nat × Nat) :=
  if rhs = 1 then .ok (ws, 0)
  else if isPow2 rhs then
    let shift := Nat.log2 rhs            -- trailing_zeros of a power of two
    let (ws', rem) := shrInPlace W ws shift
    .ok (ws', rem / 2 ^ (W - shift))
  else do
    let shift := lz W rhs
    let d ← normNew W ((rhs * 2 ^ shift) % 2 ^ W)
    fastDivByWordInPlace W ws shift d

/-- `fast_rem_by_normalized_word`: highest word by `div_rem_1by1`, the rest by `div_rem_2by1` -/
def fastRemByNormalizedWord (W d : Nat) : List Nat → Except PanicKind Nat
  | [] => .error (assertErr "fast_rem_by_normalized_word: empty")
  | [w] => .ok (div1by1 d w).2
  | w :: ws => do
    let r ← fastRemByNormalizedWord W d ws
    let (_, r') ← div2by1 W d (w + 2 ^ W * r)
    pure r'

/-- `rem_by_word(words, rhs)` -/
def remByWord (W : Nat) (ws : List Nat) (rhs : Nat) : Except PanicKind Nat :=
  if isPow2 rhs then
    match ws with
    | [] => .error (assertErr "rem_by_word: empty")
    | w :: _ => .ok (w &&& (rhs - 1))
  else do
    let shift := lz W rhs
    let d ← normNew W ((rhs * 2 ^ shift) % 2 ^ W)
    let rem ← fastRemByNormalizedWord W d ws
    let (_, r) ← div2by1 W d (rem * 2 ^ shift)
    pure (r / 2 ^ shift)

-- ------------------------------------------------------------------ div/mod.rs: double-word divisor

/-- `rchunks_exact_mut(2)` loop of `fast_div_by_dword_in_place` over an even-length slice -/
def div4by2Loop (W d : Nat) : List Nat → Nat → Except PanicKind (List Nat × Nat)
  | a :: b :: rest, rem => do
    let (qs, r) ← div4by2Loop W d rest rem
    let (q, r') ← div4by2 W d (a + 2 ^ W * b) r
    pure (q % 2 ^ W :: q / 2 ^ W :: qs, r')
  | rest, rem => .ok (rest, rem)

/-- body of `fast_div_by_dword_in_place` after the shift: `ws'` = shifted words, `hi` = shift carry;
    returns (quotient words, remainder still shifted) -/
def fastDivByDwordCore (W d : Nat) (ws' : List Nat) (hi : Nat) : Except PanicKind (List Nat × Nat) :=
  let n := ws'.length
  match ws'.drop (n - 2) with
  | [topLo, topHi] => do
    let lo := ws'.take (n - 2)
    let (q, rem) ← div3by2 W d topLo (topHi + 2 ^ W * hi)
    if lo.length % 2 = 0 then
      let (qs, r) ← div4by2Loop W d lo rem
      pure (qs ++ [q, 0], r)
    else
      match lo with
      | x :: pairs =>
        let (qs, r) ← div4by2Loop W d pairs rem
        let (q0, r0) ← div3by2 W d x r
        pure (q0 :: qs ++ [q, 0], r0)
      | [] => .error (assertErr "unreachable")
  | _ => .error (assertErr "fast_div_by_dword_in_place: words.len() >= 2")

/-- `fast_div_by_dword_in_place(words, shift, fast_div_rhs)`; `d` is the normalised divisor -/
def fastDivByDwordInPlace (W : Nat) (ws : List Nat) (shift d : Nat) : Except PanicKind (List Nat × Nat) := do
  let (ws', hi) := shlInPlace W ws shift
  let (qs, r) ← fastDivByDwordCore W d ws' hi
  pure (qs, r / 2 ^ shift)

/-- `div_by_dword_in_place(words, rhs)`, `rhs ≥ 2^W` -/
def divByDwordInPlace (W : Nat) (ws : List Nat) (rhs : Nat) : Except PanicKind (List Nat × Nat) :=
  if isPow2 rhs then
    let (ws1, first) := shrInPlaceOneWord ws
    let shift := Nat.log2 rhs - W
    if shift = 0 then .ok (ws1, first)
    else
      let (ws2, n2) := shrInPlace W ws1 shift
      let (n1, n0) := shrWord W first shift
      .ok (ws2, (n0 + 2 ^ W * (n1 ||| n2)) / 2 ^ (W - shift))
  else do
    let shift := lz (2 * W) rhs
    let d ← normNew (2 * W) ((rhs * 2 ^ shift) % 2 ^ (2 * W))
    fastDivByDwordInPlace W ws shift d

/-- pairs part of `fast_rem_by_normalized_dword`: top pair by `div_rem_2by2`, lower pairs by 4by2 -/
def fastRemDwordPairs (W d : Nat) : List Nat → Except PanicKind Nat
  | [a, b] => .ok (div2by2 d (a + 2 ^ W * b)).2
  | a :: b :: rest => do
    let r ← fastRemDwordPairs W d rest
    let (_, r') ← div4by2 W d (a + 2 ^ W * b) r
    pure r'
  | _ => .error (assertErr "fast_rem_by_normalized_dword: words.len() >= 2")

/-- `fast_rem_by_normalized_dword(words, fast_div_rhs)` -/
def fastRemByNormalizedDword (W d : Nat) (ws : List Nat) : Except PanicKind Nat :=
  if ws.length % 2 = 0 then fastRemDwordPairs W d ws
  else
    match ws with
    | x :: rest => do
      let r ← fastRemDwordPairs W d rest
      let (_, r') ← div3by2 W d x r
      pure r'
    | [] => .error (assertErr "unreachable")

/-- `rem_by_dword(words, rhs)`, `rhs ≥ 2^W` -/
def remByDword (W : Nat) (ws : List Nat) (rhs : Nat) : Except PanicKind Nat :=
  if isPow2 rhs then
    match ws with
    | w0 :: w1 :: _ => .ok ((w0 + 2 ^ W * w1) &&& (rhs - 1))
    | _ => .error (assertErr "rem_by_dword: words.len() >= 2")
  else do
    let shift := lz (2 * W) rhs
    let d ← normNew (2 * W) ((rhs * 2 ^ shift) % 2 ^ (2 * W))
    let rem ← fastRemByNormalizedDword W d ws
    let (a0, a1, a2) := shlDword W rem shift
    let (_, r) ← div3by2 W d a0 (a1 + 2 ^ W * a2)
    pure (r / 2 ^ shift)

-- ------------------------------------------------------------------ div/simple.rs (Knuth D)

/-- `cmp::cmp_same_len`: lexicographic from the top word -/
def cmpSameLen : List Nat → List Nat → Ordering
  | a :: as, b :: bs =>
    match cmpSameLen as bs with
    | .eq => compare a b
    | o => o
  | _, _ => .eq

/-- loop of `mul::sub_mul_word_same_len_in_place` with the `carry_plus_max` representation -/
def subMulLoop (W mult : Nat) : List Nat → List Nat → Nat → List Nat × Nat
  | a :: as, b :: bs, cpm =>
    let v := a + cpm + (2 ^ W - 1) * (2 ^ W - 1) - mult * b
    let (r, c) := subMulLoop W mult as bs (v / 2 ^ W)
    (v % 2 ^ W :: r, c)
  | as, _, cpm => (as, cpm)

/-- `mul::sub_mul_word_same_len_in_place(words, mult, rhs)`: words -= mult·rhs, returns borrow -/
def subMulWordSameLen (W : Nat) (ws : List Nat) (mult : Nat) (rhs : List Nat) : List Nat × Nat :=
  if mult = 0 then (ws, 0)
  else
    let (r, cpm) := subMulLoop W mult ws rhs (2 ^ W - 1)
    (r, 2 ^ W - 1 - cpm)

/-- `highest_dword(words)`: the top two words as a double word -/
def highestDword (W : Nat) (ws : List Nat) : Nat :=
  ws.getD (ws.length - 2) 0 + 2 ^ W * ws.getD (ws.length - 1) 0

/-- first half of `div_rem_highest_word`: the quotient estimate
    `q = floor([lhs0, lhs1, lhs2] / [rhs0, rhs1])`, or `Word::MAX` when `lhs_top >= rhs_top` -/
def qEstimate (W : Nat) (lhsTop : Nat) (lhsLo rhs : List Nat) (dtop : Nat) : Except PanicKind Nat := do
  let rhsTop := rhs.getD (rhs.length - 1) 0
  let hd := highestDword W lhsLo
  let lhs2 := hd % 2 ^ W
  let lhs1 := hd / 2 ^ W
  let lhs01 := lhs1 + 2 ^ W * lhsTop
  if lhsTop < rhsTop then do
    let (q, _) ← div3by2 W dtop lhs2 lhs01
    pure q
  else pure (2 ^ W - 1)

/-- second half of `div_rem_highest_word`: subtract `q·rhs` from the top `n` words of `lhs_lo`,
    add `rhs` back once if the estimate was too large.  The two `debug_assert!`s are error
    branches. -/
def correctStep (W : Nat) (lhsTop : Nat) (lhsLo rhs : List Nat) (q : Nat) :
    Except PanicKind (Nat × List Nat) :=
  let n := rhs.length
  let len := lhsLo.length
  let lo := lhsLo.take (len - n)
  let win := lhsLo.drop (len - n)
  let (win1, borrow) := subMulWordSameLen W win q rhs
  if borrow > lhsTop then
    let (win2, carry) := addSameLen W win1 rhs 0
    if carry = 0 then .error (assertErr "div_rem_highest_word: debug_assert!(carry)")
    else if borrow - 1 ≠ lhsTop then .error (assertErr "div_rem_highest_word: borrow == lhs_top")
    else .ok (q - 1, lo ++ win2)
  else if borrow ≠ lhsTop then .error (assertErr "div_rem_highest_word: borrow == lhs_top")
  else .ok (q, lo ++ win1)

/-- `div_rem_highest_word(lhs_top, lhs_lo, rhs, fast_div_rhs_top)`: one quotient word; returns
    (q, new lhs_lo).  `dtop` = top two words of the normalised `rhs`. -/
def divRemHighestWord (W : Nat) (lhsTop : Nat) (lhsLo rhs : List Nat) (dtop : Nat) :
    Except PanicKind (Nat × List Nat) := do
  let q ← qEstimate W lhsTop lhsLo rhs dtop
  correctStep W lhsTop lhsLo rhs q

/-- the `while rem.len() > n` loop of `simple::div_rem_in_place`; `k` = number of quotient words
    still to produce, `lhs` = current remainder window of `n + k` words.  Returns
    remainder words ++ quotient words. -/
def simpleLoop (W : Nat) (rhs : List Nat) (dtop : Nat) : Nat → List Nat → Except PanicKind (List Nat)
  | 0, lhs => .ok lhs
  | k + 1, lhs => do
    let top := lhs.getD (lhs.length - 1) 0
    let lo := lhs.take (lhs.length - 1)
    let (q, lo') ← divRemHighestWord W top lo rhs dtop
    let rest ← simpleLoop W rhs dtop k lo'
    pure (rest ++ [q])

/-- `simple::div_rem_in_place(lhs, rhs, fast_div_rhs_top)`: returns ([lhs % rhs, lhs / rhs], carry) -/
def simpleDivRemInPlace (W : Nat) (lhs rhs : List Nat) (dtop : Nat) : Except PanicKind (List Nat × Nat) :=
  let n := rhs.length
  let m := lhs.length
  if n < 2 then .error (assertErr "simple::div_rem_in_place: n >= 2")
  else if m < n then .error (assertErr "simple::div_rem_in_place: lhs_len >= n")
  else
    let lo := lhs.take (m - n)
    let top := lhs.drop (m - n)
    let carry := cmpSameLen top rhs != .lt
    let top' := if carry then (subSameLen W top rhs 0).1 else top
    do
      let r ← simpleLoop W rhs dtop (m - n) (lo ++ top')
      pure (r, if carry then 1 else 0)

-- ------------------------------------------------------------------ div/mod.rs: multi-word divisor

/-- `THRESHOLD_SIMPLE` of integer/src/div/mod.rs (regenerated from source on every run) -/
def thresholdSimple : Nat := Dashu.Gen.div_THRESHOLD_SIMPLE

/-- exactly `n` little-endian words of `v` -/
def toWords (W : Nat) : Nat → Nat → List Nat
  | 0, _ => []
  | n + 1, v => v % 2 ^ W :: toWords W n (v / 2 ^ W)

/-- reference specification of an in-place division (not executed by the model any more; kept for
    the statement of what `bzDivRemInPlace` refines): [lhs % rhs (n words), lhs / rhs (m−n words)],
    quotient carry -/
def divRemInPlaceDCFrontier (W : Nat) (lhs rhs : List Nat) : List Nat × Nat :=
  let a := val W lhs
  let b := val W rhs
  let n := rhs.length
  let m := lhs.length
  (toWords W n (a % b) ++ toWords W (m - n) (a / b), (a / b) / 2 ^ (W * (m - n)))

-- ------------------------------------------------------------------ div/divide_conquer.rs

/-- the `while rem_overflow < 0` loop of `div_rem_in_place_small_quotient` (runs ≤ 2 times; the
    model gives it fuel and the theorem shows the fuel suffices) -/
def bzFix (W : Nat) (rhs : List Nat) : Nat → List Nat → List Nat → Int → Int →
    Except PanicKind (List Nat × List Nat × Int × Int)
  | 0, rem, q, ro, qo =>
    if ro < 0 then .error (assertErr "small_quotient: correction loop fuel") else .ok (rem, q, ro, qo)
  | f + 1, rem, q, ro, qo =>
    if ro < 0 then
      let (rem', c) := addSameLen W rem rhs 0
      let (q', bw) := subOne W q
      bzFix W rhs f rem' q' (ro + (c : Int)) (qo - (bw : Int))
    else .ok (rem, q, ro, qo)

mutual
/-- `div_rem_in_place_same_len(lhs, rhs)`: `lhs.len() == 2n`; two 3n/2n divisions -/
def bzSameLen (W dtop : Nat) : Nat → List Nat → List Nat → Except PanicKind (List Nat × Nat)
  | 0, _, _ => .error (assertErr "divide_conquer: recursion fuel")
  | fuel + 1, lhs, rhs =>
    let n := rhs.length
    let nLo := n / 2
    if ¬ (n > thresholdSimple ∧ lhs.length = 2 * n) then
      .error (assertErr "div_rem_in_place_same_len: n > THRESHOLD_SIMPLE && lhs.len() == 2 * n")
    else do
      let (hi', o) ← bzSmallQuotient W dtop fuel (lhs.drop nLo) rhs
      let lhs1 := lhs.take nLo ++ hi'
      let (lo', oLo) ← bzSmallQuotient W dtop fuel (lhs1.take (n + nLo)) rhs
      if oLo ≠ 0 then .error (assertErr "div_rem_in_place_same_len: debug_assert!(!overflow_lo)")
      else pure (lo' ++ lhs1.drop (n + nLo), o)

/-- `div_rem_in_place_small_quotient(lhs, rhs)`: quotient shorter than the divisor -/
def bzSmallQuotient (W dtop : Nat) : Nat → List Nat → List Nat → Except PanicKind (List Nat × Nat)
  | 0, _, _ => .error (assertErr "divide_conquer: recursion fuel")
  | fuel + 1, lhs, rhs =>
    let n := rhs.length
    if ¬ (n ≥ 2 ∧ lhs.length ≥ n) then
      .error (assertErr "div_rem_in_place_small_quotient: n >= 2 && lhs.len() >= n")
    else
      let m := lhs.length - n
      if ¬ (m < n) then .error (assertErr "div_rem_in_place_small_quotient: m < n")
      else if m ≤ thresholdSimple then simpleDivRemInPlace W lhs rhs dtop
      else do
        -- quotient approximation from the top m words of the divisor (a 2m / m division)
        let (top', qo) ← bzSameLen W dtop fuel (lhs.drop (n - m)) (rhs.drop (n - m))
        let lhs1 := lhs.take (n - m) ++ top'
        let rem := lhs1.take n
        let q := lhs1.drop n
        -- subtract q * (the rest of rhs) from rem
        let (rem1, ro1) := addSignedMul W rem.length rem true q (rhs.take (n - m))
        let (rem2, ro2) :=
          if qo ≠ 0 then
            let (t, bw) := subSameLen W (rem1.drop m) (rhs.take (n - m)) 0
            (rem1.take m ++ t, ro1 - (bw : Int))
          else (rem1, ro1)
        let (rem3, q3, ro3, qo3) ← bzFix W rhs 4 rem2 q ro2 (qo : Int)
        if ro3 ≠ 0 ∨ ¬ (0 ≤ qo3 ∧ qo3 ≤ 1) then
          .error (assertErr "div_rem_in_place_small_quotient: rem_overflow == 0 && q_overflow in 0..=1")
        else pure (rem3 ++ q3, if qo3 ≠ 0 then 1 else 0)
end

/-- the `while m >= 2 * n` loop of `divide_conquer::div_rem_in_place` followed by the final
    `small_quotient`; `t` = number of `same_len` blocks still to do on the prefix `lhs`.
    Only the first block may overflow (`debug_assert!(m == lhs.len())`). -/
def bzOuter (W dtop : Nat) (rhs : List Nat) (fuel : Nat) : Nat → List Nat → Except PanicKind (List Nat × Nat)
  | 0, lhs =>
    if lhs.length > rhs.length then bzSmallQuotient W dtop fuel lhs rhs else .ok (lhs, 0)
  | t + 1, lhs => do
    let n := rhs.length
    let m := lhs.length
    let (win', o) ← bzSameLen W dtop fuel (lhs.drop (m - 2 * n)) rhs
    let lhs1 := lhs.take (m - 2 * n) ++ win'
    let (rest, o2) ← bzOuter W dtop rhs fuel t (lhs1.take (m - n))
    if o2 ≠ 0 then .error (assertErr "divide_conquer::div_rem_in_place: debug_assert!(m == lhs.len())")
    else pure (rest ++ lhs1.drop (m - n), o)

/-- `divide_conquer::div_rem_in_place` (Burnikel–Ziegler) -/
def bzDivRemInPlace (W : Nat) (lhs rhs : List Nat) (dtop : Nat) : Except PanicKind (List Nat × Nat) :=
  let n := rhs.length
  if ¬ (lhs.length > n + thresholdSimple ∧ n > thresholdSimple) then
    .error (assertErr "divide_conquer::div_rem_in_place: lhs.len() > rhs.len() + THRESHOLD && rhs.len() > THRESHOLD")
  else bzOuter W dtop rhs (2 * n + 1) (lhs.length / n - 1) lhs

/-- `div::div_rem_in_place`: algorithm choice -/
def divRemInPlace (W : Nat) (lhs rhs : List Nat) (dtop : Nat) : Except PanicKind (List Nat × Nat) :=
  if rhs.length ≤ thresholdSimple ∨ lhs.length - rhs.length ≤ thresholdSimple then
    simpleDivRemInPlace W lhs rhs dtop
  else bzDivRemInPlace W lhs rhs dtop

/-- `div::normalize(words)`: (normalised words, shift, top double word);
    `debug_assert_zero!` on the shift carry and the `new` assertion are error branches -/
def normalize (W : Nat) (ws : List Nat) : Except PanicKind (List Nat × Nat × Nat) :=
  if ws.length = 0 then .error (assertErr "normalize: words.last().unwrap()")
  else
    let shift := lz W (ws.getD (ws.length - 1) 0)
    let (ws', c) := shlInPlace W ws shift
    if c ≠ 0 then .error (assertErr "normalize: debug_assert_zero!(shl carry)")
    else do
      let d ← normNew (2 * W) (highestDword W ws')
      pure (ws', shift, d)

/-- `div::div_rem_unshifted_in_place(lhs, rhs, shift, fast_div_rhs_top)`: returns
    ([rem << shift, quotient low words], q_top) -/
def divRemUnshiftedInPlace (W : Nat) (lhs rhs : List Nat) (shift dtop : Nat) :
    Except PanicKind (List Nat × Nat) := do
  let (lhs1, carry) := shlInPlace W lhs shift
  let (qTop, lhs2) ← if carry > 0 then divRemHighestWord W carry lhs1 rhs dtop else pure (0, lhs1)
  let (lhs3, overflow) ← divRemInPlace W lhs2 rhs dtop
  pure (lhs3, qTop + overflow)

-- ------------------------------------------------------------------ div_ops.rs `mod repr`

/-- `div_rem_in_lhs(lhs, rhs)`: (lhs buffer = [rem << shift, quotient incl. carry word],
    normalised rhs, shift) -/
def divRemInLhs (W : Nat) (lhs rhs : List Nat) : Except PanicKind (List Nat × List Nat × Nat) := do
  let (rhs', shift, dtop) ← normalize W rhs
  let (lhs', qc) ← divRemUnshiftedInPlace W lhs rhs' shift dtop
  pure (lhs' ++ [qc], rhs', shift)

/-- un-shift of the remainder with its `debug_assert_zero!` -/
def shrRemainder (W : Nat) (r : List Nat) (shift : Nat) : Except PanicKind (List Nat) :=
  let (r', c) := shrInPlace W r shift
  if c ≠ 0 then .error (assertErr "debug_assert_zero!(shr_in_place(rem, shift))") else .ok r'

/-- `div_rem_large(lhs, rhs)`, `lhs.len() ≥ rhs.len() ≥ 3` -/
def divRemLarge (W : Nat) (lhs rhs : List Nat) : Except PanicKind (TRepr × TRepr) := do
  let (buf, rhs', shift) ← divRemInLhs W lhs rhs
  let n := rhs'.length
  let r ← shrRemainder W (buf.take n) shift
  pure (fromBuffer W (buf.drop n), fromBuffer W r)

/-- `div_large(lhs, rhs)` -/
def divLarge (W : Nat) (lhs rhs : List Nat) : Except PanicKind TRepr := do
  let (buf, rhs', _) ← divRemInLhs W lhs rhs
  pure (fromBuffer W (buf.drop rhs'.length))

/-- `rem_large(lhs, rhs)` -/
def remLarge (W : Nat) (lhs rhs : List Nat) : Except PanicKind TRepr := do
  let (buf, rhs', shift) ← divRemInLhs W lhs rhs
  let r ← shrRemainder W (buf.take rhs'.length) shift
  pure (fromBuffer W r)

/-- `div_rem_dword` (`checked_div`) -/
def divRemDword (lhs rhs : Nat) : Except PanicKind (TRepr × TRepr) :=
  if rhs = 0 then .error .divideByZero else .ok (.small (lhs / rhs), .small (lhs % rhs))

/-- `div_rem_large_dword(buffer, rhs)` -/
def divRemLargeDword (W : Nat) (buffer : List Nat) (rhs : Nat) : Except PanicKind (TRepr × TRepr) :=
  if rhs = 0 then .error .divideByZero
  else if rhs < 2 ^ W then do                       -- shrink_dword(rhs) = Some(word)
    let (q, r) ← divByWordInPlace W buffer rhs
    pure (fromBuffer W q, .small r)
  else do
    let (q, r) ← divByDwordInPlace W buffer rhs
    pure (fromBuffer W q, .small r)

/-- `rem_large_dword(lhs, rhs)` — a different algorithm from the quotient path -/
def remLargeDword (W : Nat) (lhs : List Nat) (rhs : Nat) : Except PanicKind TRepr :=
  if rhs = 0 then .error .divideByZero
  else if rhs < 2 ^ W then do
    let r ← remByWord W lhs rhs
    pure (.small r)
  else do
    let r ← remByDword W lhs rhs
    pure (.small r)

/-- `DivRem for TypedRepr / TypedReprRef` (the four ownership impls differ only in buffer reuse) -/
def divRemRepr (W : Nat) (a b : TRepr) : Except PanicKind (TRepr × TRepr) :=
  match a, b with
  | .small x, .small y => divRemDword x y
  | .small x, .large _ => .ok (.small 0, .small x)
  | .large ws, .small y => divRemLargeDword W ws y
  | .large w0, .large w1 =>
    if w0.length ≥ w1.length then divRemLarge W w0 w1 else .ok (.small 0, fromBuffer W w0)

/-- `Div for TypedRepr / TypedReprRef` -/
def divRepr (W : Nat) (a b : TRepr) : Except PanicKind TRepr :=
  match a, b with
  | .small x, .small y => if y = 0 then .error .divideByZero else .ok (.small (x / y))
  | .small _, .large _ => .ok (.small 0)
  | .large ws, .small y => do
    let (q, _) ← divRemLargeDword W ws y
    pure q
  | .large w0, .large w1 =>
    if w0.length ≥ w1.length then divLarge W w0 w1 else .ok (.small 0)

/-- `Rem for TypedRepr / TypedReprRef` -/
def remRepr (W : Nat) (a b : TRepr) : Except PanicKind TRepr :=
  match a, b with
  | .small x, .small y => if y = 0 then .error .divideByZero else .ok (.small (x % y))
  | .small x, .large _ => .ok (.small x)
  | .large ws, .small y => remLargeDword W ws y
  | .large w0, .large w1 =>
    if w0.length ≥ w1.length then remLarge W w0 w1 else .ok (fromBuffer W w0)

/-- `TypedRepr::add_one` (add_ops.rs) -/
def addOneRepr (W : Nat) : TRepr → TRepr
  | .small d => addDword W d 1
  | .large ws =>
    let (r, c) := addOne W ws
    fromBuffer W (if c = 0 then r else r ++ [1])

-- ------------------------------------------------------------------ div_ops.rs sign tables

/-- `impl_ibig_div` (also IBig/UBig and UBig/IBig with the missing sign `Positive`) -/
def ibigDiv (W : Nat) (a b : SRepr) : Except PanicKind SRepr := do
  let q ← divRepr W a.mag b.mag
  pure (withSign q (a.neg != b.neg))

/-- `impl_ibig_rem` -/
def ibigRem (W : Nat) (a b : SRepr) : Except PanicKind SRepr := do
  let r ← remRepr W a.mag b.mag
  pure (withSign r a.neg)

/-- `impl_ibig_divrem` -/
def ibigDivRem (W : Nat) (a b : SRepr) : Except PanicKind (SRepr × SRepr) := do
  let (q, r) ← divRemRepr W a.mag b.mag
  pure (withSign q (a.neg != b.neg), withSign r a.neg)

/-- `impl_ibig_div_euclid` -/
def ibigDivEuclid (W : Nat) (a b : SRepr) : Except PanicKind SRepr := do
  let (q, r) ← divRemRepr W a.mag b.mag
  let q' := if !a.neg || r.isZero then q else addOneRepr W q
  pure (withSign q' (a.neg != b.neg))

/-- `impl_ibig_rem_euclid` → `UBig`; `refVal`: `mag1` is a reference (`TypedReprRef - TypedRepr`) -/
def ibigRemEuclid (W : Nat) (a b : SRepr) (refVal : Bool := false) : Except PanicKind TRepr :=
  if !a.neg then remRepr W a.mag b.mag
  else do
    let r ← remRepr W a.mag b.mag
    if r.isZero then pure r else b.mag.sub W r refVal

/-- `impl_ibig_divrem_euclid` → `(IBig, UBig)` -/
def ibigDivRemEuclid (W : Nat) (a b : SRepr) (refVal : Bool := false) :
    Except PanicKind (SRepr × TRepr) :=
  if !a.neg then do
    let (q, r) ← divRemRepr W a.mag b.mag
    pure (withSign q b.neg, r)
  else do
    let (q, r) ← divRemRepr W a.mag b.mag
    if r.isZero then pure (withSign q (!b.neg), r)
    else do
      let r' ← b.mag.sub W r refVal
      pure (withSign (addOneRepr W q) (!b.neg), r')

/-- `impl_ubig_ibig_rem` → `UBig` -/
def ubigIbigRem (W : Nat) (a : TRepr) (b : SRepr) : Except PanicKind TRepr := remRepr W a b.mag

/-- `impl_ubig_ibig_divrem` → `(IBig, UBig)` -/
def ubigIbigDivRem (W : Nat) (a : TRepr) (b : SRepr) : Except PanicKind (SRepr × TRepr) := do
  let (q, r) ← divRemRepr W a b.mag
  pure (withSign q b.neg, r)

/-- `UBig::is_multiple_of`: `(self % divisor).is_zero()` -/
def ubigIsMultipleOf (W : Nat) (a b : TRepr) : Except PanicKind Bool := do
  let r ← remRepr W a b
  pure r.isZero

/-- `IBig::is_multiple_of`: `(self % divisor).is_zero()` -/
def ibigIsMultipleOf (W : Nat) (a b : SRepr) : Except PanicKind Bool := do
  let r ← ibigRem W a b
  pure r.mag.isZero

/-- `TypedReprRef::is_multiple_of_dword(divisor)` (`is_multiple_of_const`, integer/src/div_ops.rs `mod repr`):
    `if divisor == 0 { panic_divide_by_0() }` first (since /repo c27ca7f; before that a zero divisor reached
    `dword % 0` resp. `debug_assert!(rhs != 0)`), then `shrink_dword(divisor)` selects the word / double-word
    remainder kernel -/
def isMultipleOfDword (W : Nat) (a : TRepr) (divisor : Nat) : Except PanicKind Bool :=
  if divisor = 0 then .error .divideByZero
  else if divisor < 2 ^ W then
    match a with
    | .small d => .ok (d % divisor = 0)
    | .large ws => do
      let r ← remByWord W ws divisor
      pure (r = 0)
  else
    match a with
    | .small d => .ok (d % divisor = 0)
    | .large ws => do
      let r ← remByDword W ws divisor
      pure (r = 0)

-- ------------------------------------------------------------------ div_const.rs

/-- `ConstDivisorRepr`: `d` is the *normalised* divisor (`divisor << shift`) -/
inductive ConstDiv where
  | single (d shift : Nat)
  | double (d shift : Nat)
  | large (nd : List Nat) (shift dtop : Nat)
  deriving Repr, DecidableEq

/-- `ConstDivisor::new(n)` -/
def ConstDiv.new (W : Nat) : TRepr → Except PanicKind ConstDiv
  | .small 0 => .error .divideByZero
  | .small dw =>
    if dw < 2 ^ W then do
      let shift := lz W dw
      let d ← normNew W ((dw * 2 ^ shift) % 2 ^ W)
      pure (.single d shift)
    else do
      let shift := lz (2 * W) dw
      let d ← normNew (2 * W) ((dw * 2 ^ shift) % 2 ^ (2 * W))
      pure (.double d shift)
  | .large ws => do
    let (nd, shift, dtop) ← normalize W ws
    pure (.large nd shift dtop)

/-- `ConstDivisor::value()` -/
def ConstDiv.value (W : Nat) : ConstDiv → Except PanicKind TRepr
  | .single d shift => .ok (.small (d / 2 ^ shift))
  | .double d shift => .ok (.small (d / 2 ^ shift))
  | .large nd shift _ => do
    let r ← shrRemainder W nd shift
    pure (fromBuffer W r)

/-- `div_rem_small_single(lhs, rhs)` -/
def divRemSmallSingle (W lhs d shift : Nat) : Except PanicKind (Nat × Nat) := do
  let (lo, mid, hi) := shlDword W lhs shift
  let (q1, r1) ← div2by1 W d (mid + 2 ^ W * hi)
  let (q0, r0) ← div2by1 W d (lo + 2 ^ W * r1)
  pure (q0 + 2 ^ W * q1, r0 / 2 ^ shift)

/-- `div_rem_small_double(lhs, rhs)` -/
def divRemSmallDouble (W lhs d shift : Nat) : Except PanicKind (Nat × Nat) := do
  let (lo, mid, hi) := shlDword W lhs shift
  let (q, r) ← div3by2 W d lo (mid + 2 ^ W * hi)
  pure (q, r / 2 ^ shift)

/-- `ConstSingleDivisor::rem_dword(dword)` = (dword << shift) % d.
    The `shift == 0` arm reduces the high word with `div_rem_1by1` first (since /repo commit
    2941615; before it `div_rem_2by1(dword)` was called outside its contract). -/
def singleRemDword (W d shift dword : Nat) : Except PanicKind Nat :=
  if shift = 0 then do
    let lo := dword % 2 ^ W
    let hi := dword / 2 ^ W
    let r1 := (div1by1 d hi).2
    let (_, r) ← div2by1 W d (lo + 2 ^ W * r1)
    pure r
  else do
    let (n0, n1, n2) := shlDword W dword shift
    let (_, r1) ← div2by1 W d (n1 + 2 ^ W * n2)
    let (_, r) ← div2by1 W d (n0 + 2 ^ W * r1)
    pure r

/-- `ConstSingleDivisor::rem_large(words)` = (words << shift) % d -/
def singleRemLarge (W d shift : Nat) (ws : List Nat) : Except PanicKind Nat := do
  let rem ← fastRemByNormalizedWord W d ws
  if shift ≠ 0 then
    let (_, r) ← div2by1 W d (rem * 2 ^ shift)
    pure r
  else pure rem

/-- `ConstDoubleDivisor::rem_dword(dword)` -/
def doubleRemDword (W d shift dword : Nat) : Except PanicKind Nat :=
  if shift = 0 then .ok (div2by2 d dword).2
  else do
    let (n0, n1, n2) := shlDword W dword shift
    let (_, r) ← div3by2 W d n0 (n1 + 2 ^ W * n2)
    pure r

/-- `ConstDoubleDivisor::rem_large(words)` -/
def doubleRemLarge (W d shift : Nat) (ws : List Nat) : Except PanicKind Nat := do
  let rem ← fastRemByNormalizedDword W d ws
  if shift ≠ 0 then
    let (r0, r1, r2) := shlDword W rem shift
    let (_, r) ← div3by2 W d r0 (r1 + 2 ^ W * r2)
    pure r
  else pure rem

/-- `DivRem<&ConstDivisorRepr> for TypedRepr` -/
def divRemConst (W : Nat) (a : TRepr) (c : ConstDiv) : Except PanicKind (TRepr × TRepr) :=
  match a, c with
  | .small dw, .single d shift => do
    let (q, r) ← divRemSmallSingle W dw d shift
    pure (.small q, .small r)
  | .small dw, .double d shift => do
    let (q, r) ← divRemSmallDouble W dw d shift
    pure (.small q, .small r)
  | .small dw, .large _ _ _ => .ok (.small 0, .small dw)
  | .large ws, .single d shift => do
    let (q, r) ← fastDivByWordInPlace W ws shift d
    pure (fromBuffer W q, .small r)
  | .large ws, .double d shift => do
    let (q, r) ← fastDivByDwordInPlace W ws shift d
    pure (fromBuffer W q, .small r)
  | .large ws, .large nd shift dtop =>
    let n := nd.length
    if ws.length < n then .ok (.small 0, fromBuffer W ws)
    else do
      let (buf, qTop) ← divRemUnshiftedInPlace W ws nd shift dtop
      let r ← shrRemainder W (buf.take n) shift
      pure (fromBuffer W (buf.drop n ++ [qTop]), fromBuffer W r)

/-- `Div<&ConstDivisorRepr> for TypedRepr` -/
def divConst (W : Nat) (a : TRepr) (c : ConstDiv) : Except PanicKind TRepr :=
  match a, c with
  | .small dw, .single d shift => do
    let (q, _) ← divRemSmallSingle W dw d shift
    pure (.small q)
  | .small dw, .double d shift => do
    let (q, _) ← divRemSmallDouble W dw d shift
    pure (.small q)
  | .small _, .large _ _ _ => .ok (.small 0)
  | .large ws, .single d shift => do
    let (q, _) ← fastDivByWordInPlace W ws shift d
    pure (fromBuffer W q)
  | .large ws, .double d shift => do
    let (q, _) ← fastDivByDwordInPlace W ws shift d
    pure (fromBuffer W q)
  | .large ws, .large nd shift dtop =>
    let n := nd.length
    if ws.length < n then .ok (.small 0)
    else do
      let (buf, qTop) ← divRemUnshiftedInPlace W ws nd shift dtop
      pure (fromBuffer W (buf.drop n ++ [qTop]))

/-- `Rem<&ConstDivisorRepr> for TypedRepr / TypedReprRef` -/
def remConst (W : Nat) (a : TRepr) (c : ConstDiv) : Except PanicKind TRepr :=
  match a, c with
  | .small dw, .single d shift => do
    let r ← singleRemDword W d shift dw
    pure (.small (r / 2 ^ shift))
  | .small dw, .double d shift => do
    let r ← doubleRemDword W d shift dw
    pure (.small (r / 2 ^ shift))
  | .small dw, .large _ _ _ => .ok (.small dw)
  | .large ws, .single d shift => do
    let r ← singleRemLarge W d shift ws
    pure (.small (r / 2 ^ shift))
  | .large ws, .double d shift => do
    let r ← doubleRemLarge W d shift ws
    pure (.small (r / 2 ^ shift))
  | .large ws, .large nd shift dtop =>
    let n := nd.length
    if ws.length < n then .ok (fromBuffer W ws)
    else do
      let (buf, _) ← divRemUnshiftedInPlace W ws nd shift dtop
      let r ← shrRemainder W (buf.take n) shift
      pure (fromBuffer W r)

/-- `Div/Rem/DivRem<&ConstDivisor> for IBig`: both results take the sign of the dividend -/
def ibigDivConst (W : Nat) (a : SRepr) (c : ConstDiv) : Except PanicKind SRepr := do
  let q ← divConst W a.mag c
  pure (withSign q a.neg)

def ibigRemConst (W : Nat) (a : SRepr) (c : ConstDiv) : Except PanicKind SRepr := do
  let r ← remConst W a.mag c
  pure (withSign r a.neg)

def ibigDivRemConst (W : Nat) (a : SRepr) (c : ConstDiv) : Except PanicKind (SRepr × SRepr) := do
  let (q, r) ← divRemConst W a.mag c
  pure (withSign q a.neg, withSign r a.neg)

end Dashu.Model.Div
