import Dashu.Model.Int.Repr
import Dashu.Model.Int.Mul
import Dashu.Model.Int.MulPrim
import Dashu.Gen.Misc
/-
  Operator layer for `UBig`/`IBig` ring arithmetic: the sign tables of `add_ops.rs`
  (`impl_ibig_add`, `impl_ibig_sub`), `mul_ops.rs` (`impl_ibig_mul`) composed with the dispatch
  layer.  An `IBig` is `(sign, magnitude)`; a `UBig` is a magnitude.  Core Lean only.
-/
namespace Dashu.Model

/-- split an `Int` into the (sign, magnitude) pair the code's `into_sign_repr` returns -/
def SRepr.ofInt (W : Nat) (i : Int) : SRepr := ⟨i < 0, ofNat W i.natAbs⟩

/-- `impl_ibig_add` -/
def ibigAdd (W : Nat) (a b : SRepr) (form : Nat := 0) : SRepr :=
  match a.neg, b.neg with
  | false, false => withSign (a.mag.add W b.mag form) false
  | false, true => a.mag.subSigned W b.mag form
  | true, false => b.mag.subSigned W a.mag (if form = 1 then 2 else if form = 2 then 1 else 0)
  | true, true => withSign (a.mag.add W b.mag form) true

/-- `impl_ibig_sub` -/
def ibigSub (W : Nat) (a b : SRepr) (form : Nat := 0) : SRepr :=
  match a.neg, b.neg with
  | false, false => a.mag.subSigned W b.mag form
  | false, true => withSign (a.mag.add W b.mag form) false
  | true, false => withSign (a.mag.add W b.mag form) true
  | true, true => b.mag.subSigned W a.mag (if form = 1 then 2 else if form = 2 then 1 else 0)

end Dashu.Model

namespace Dashu.Model

-- ---------------------------------------------------------------- multiplication

/-- `shl_in_place` by `shift < W` bits; returns the carry word -/
def shlInPlace (W : Nat) : List Nat → Nat → Nat → List Nat × Nat
  | [], _, c => ([], c)
  | a :: as, shift, c =>
    let v := a * 2 ^ shift
    let (r, c') := shlInPlace W as shift (v / 2 ^ W)
    (((v % 2 ^ W) ||| c) :: r, c')

/-- `mul_dword_in_place`: process two words at a time, a single leftover word separately;
    carry is a double word -/
def mulDwordInPlace (W : Nat) : List Nat → Nat → Nat → List Nat × Nat
  | lo :: hi :: rest, rhs, c =>
    let v := (lo + 2 ^ W * hi) * rhs + c
    let p := v % 2 ^ (2 * W)
    let (r, c') := mulDwordInPlace W rest rhs (v / 2 ^ (2 * W))
    (p % 2 ^ W :: p / 2 ^ W :: r, c')
  | [r0], rhs, c =>
    let mlo := rhs % 2 ^ W
    let mhi := rhs / 2 ^ W
    let clo := c % 2 ^ W
    let chi := c / 2 ^ W
    let v0 := r0 * mlo + clo
    let v1 := r0 * mhi + v0 / 2 ^ W + chi
    ([v0 % 2 ^ W], v1 % 2 ^ W + 2 ^ W * (v1 / 2 ^ W))
  | [], _, c => ([], c)

def isPow2 (n : Nat) : Bool := n ≠ 0 && n &&& (n - 1) = 0

/-- frontier kernel: `mul::multiply` / `sqr::sqr` on two ≥ 2-word operands — defined as its
    specification; tied to the code by correspondence only (DESIGN §2.2) -/
def mulLargeFrontier (W : Nat) (lhs rhs : List Nat) : TRepr :=
  ofNat W (val W lhs * val W rhs)

/-- `square_large(words)` (`mul_ops.rs mod repr`): zero-filled buffer of `2·len` words, `sqr::sqr`,
    `from_buffer` -/
def squareLarge (W : Nat) (ws : List Nat) : TRepr := fromBuffer W (sqrBuffer W ws)

/-- `mul_large(lhs, rhs)` (`mul_ops.rs mod repr`): equal operands go to `square_large`;
    otherwise a zero-filled buffer of `lhs.len() + rhs.len()` words is passed to `mul::multiply`, i.e.
    `mul::add_signed_mul(c, Positive, lhs, rhs)` (mirrored in `Model/Int/Mul.lean`: schoolbook,
    chunk splitting, Karatsuba; `toom_3::add_signed_mul_same_len` is the frontier kernel inside it),
    whose carry is asserted to be zero. -/
def mulLarge (W : Nat) (lhs rhs : List Nat) : TRepr :=
  if lhs = rhs then squareLarge W lhs
  else
    fromBuffer W (addSignedMul W (lhs.length + rhs.length)
      (List.replicate (lhs.length + rhs.length) 0) false lhs rhs).1

/-- `mul_dword`; the spilled arm is `mul_dword_spilled`: `(lo, hi) = math::mul_add_carry_dword(lhs, rhs, 0)` (mirrored
    in `Model/Int/MulPrim.lean`), the four words pushed into a 4-word buffer -/
def mulDword (W : Nat) (a b : Nat) : TRepr :=
  if a < 2 ^ W ∧ b < 2 ^ W then .small (a * b)
  else
    let p := mulAddCarryDword W a b 0
    fromBuffer W [p.1 % 2 ^ W, p.1 / 2 ^ W, p.2 % 2 ^ W, p.2 / 2 ^ W]

/-- `mul_large_dword` -/
def mulLargeDword (W : Nat) (buffer : List Nat) (rhs : Nat) : TRepr :=
  if rhs = 0 then .small 0
  else if rhs = 1 then fromBuffer W buffer
  else if rhs < 2 ^ W then
    let (r, carry) :=
      if isPow2 rhs then shlInPlace W buffer (Nat.log2 rhs) 0 else mulWordInPlace W buffer rhs 0
    fromBuffer W (r ++ [carry])
  else
    let (r, carry) := mulDwordInPlace W buffer rhs 0
    if carry = 0 then fromBuffer W r
    else fromBuffer W (r ++ [carry % 2 ^ W, carry / 2 ^ W])

/-- `TypedRepr * TypedRepr` -/
def TRepr.mul (W : Nat) (a b : TRepr) : TRepr :=
  match a, b with
  | .small x, .small y => mulDword W x y
  | .small x, .large ws => mulLargeDword W ws x
  | .large ws, .small y => mulLargeDword W ws y
  | .large w0, .large w1 => mulLarge W w0 w1

/-- `TypedReprRef::sqr` -/
def TRepr.sqr (W : Nat) : TRepr → TRepr
  | .small d =>
    if d < 2 ^ W then .small (d * d)
    else
      -- square_dword_spilled: `(lo, hi) = math::mul_add_carry_dword(dw, dw, 0)`
      let p := mulAddCarryDword W d d 0
      fromBuffer W [p.1 % 2 ^ W, p.1 / 2 ^ W, p.2 % 2 ^ W, p.2 / 2 ^ W]
  | .large ws => squareLarge W ws

/-- `impl_ibig_mul`: `IBig(mag0.mul(mag1).with_sign(sign0 * sign1))` -/
def ibigMul (W : Nat) (a b : SRepr) : SRepr :=
  withSign (a.mag.mul W b.mag) (a.neg != b.neg)

end Dashu.Model
