import Dashu.Model.Int.PowBuf
import Dashu.Model.Int.PowCompose
/-
  `TypedReprRef::pow`, `UBig::pow`, `IBig::pow` (integer/src/pow.rs) end to end with real buffers:
  `pow_word_base` / `pow_dword_base` run on word lists with their capacity assertions and scratch
  allocations (`Model/Int/PowBuf.lean`), the shifts and `trailing_zeros` are C09's mirrored kernels
  (`Model/Int/Bits.lean`).  This is what the driver executes.  Core Lean only.
-/
namespace Dashu.Model

/-- `pow_word_base(base, exp)` (`exp > 1`): the shortcut returns (`Repr::zero()`, `Repr::one()`, `set_bit`,
    `from_word(base.pow(exp))`, `from_dword(wbase · base.pow(exp − wexp))`) carry the values computed by
    `powWordBase`; otherwise the buffer loop and `Repr::from_buffer(res)` -/
def powWordBaseRepr (W base exp : Nat) : Except PanicKind TRepr :=
  if base = 0 ∨ base = 1 ∨ base = 2 ∨ isPow2 base = true ∨ exp < 2 * (maxExpInWord W base).1 then
    .ok (ofNat W (powWordBase W base exp))
  else do
    let b ← powWordBaseBuf W base exp
    .ok (fromBuffer W b.ws)

/-- `pow_dword_base(base, exp)`: buffer loop, then `Repr::from_buffer(res)` -/
def powDwordBaseRepr (W base exp : Nat) : Except PanicKind TRepr := do
  let b ← powDwordBaseBuf W base exp
  .ok (fromBuffer W b.ws)

/-- `TypedReprRef::pow` with real buffers -/
def TRepr.powBuf (W : Nat) (a : TRepr) (exp : Nat) : Except PanicKind TRepr :=
  if exp = 0 then .ok (.small 1)
  else if exp = 1 then .ok a
  else if exp = 2 then .ok (a.sqr W)
  else
    match a with
    | .small d => if d < 2 ^ W then powWordBaseRepr W d exp else powDwordBaseRepr W d exp
    | .large ws => .ok (powLargeBase W ws exp)

/-- `UBig::pow` (see `ubigPowKernels` for the order of the overflow test) -/
def ubigPowFull (W : Nat) (a : TRepr) (exp : Nat) : Except PanicKind TRepr := do
  let tz ← a.trailingZeros W
  let shift := tz.getD 0
  if shift ≠ 0 then
    if 2 ^ usizeBits ≤ exp * shift then .error .allocTooMuch
    else do
      let r ← (a.shr W shift true).powBuf W exp
      .ok (r.shl W (exp * shift))
  else a.powBuf W exp

/-- `IBig::pow` -/
def ibigPowFull (W : Nat) (a : SRepr) (exp : Nat) : Except PanicKind SRepr := do
  let r ← ubigPowFull W a.mag exp
  .ok (withSign r (a.neg && exp % 2 == 1))

end Dashu.Model
