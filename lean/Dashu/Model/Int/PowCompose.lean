import Dashu.Model.Int.Pow
import Dashu.Model.Int.Bits
/-
  `UBig::pow` / `IBig::pow` (integer/src/pow.rs) composed with the mirrored kernels of C09
  (`Model/Int/Bits.lean`): `trailing_zeros`, `TypedReprRef >> usize`, `TypedRepr << usize`, instead of
  the specification-level shifts used by `ubigPow` in `Model/Int/Pow.lean`.  `Proofs/Int/PowCompose.lean`
  proves that both formulations agree.  Core Lean only.
-/
namespace Dashu.Model

/-- `UBig::pow`:
    `let shift = self.trailing_zeros().unwrap_or(0);`
    `if shift != 0 { self.repr().shr(shift).as_typed().pow(exp).into_typed().shl(exp.checked_mul(shift)
       .unwrap_or_else(panic_allocate_too_much)) } else { self.repr().pow(exp) }`.
    (The checked product is an argument of `shl`, evaluated after the receiver `…pow(exp)`; the model
    tests it first — `TRepr.pow` cannot panic, so the result is the same and the driver never starts a
    computation whose result cannot exist.) -/
def ubigPowKernels (W : Nat) (a : TRepr) (exp : Nat) : Except PanicKind TRepr := do
  let tz ← a.trailingZeros W
  let shift := tz.getD 0
  if shift ≠ 0 then
    if 2 ^ usizeBits ≤ exp * shift then .error .allocTooMuch
    else .ok ((((a.shr W shift true).pow W exp)).shl W (exp * shift))
  else .ok (a.pow W exp)

/-- `IBig::pow` -/
def ibigPowKernels (W : Nat) (a : SRepr) (exp : Nat) : Except PanicKind SRepr := do
  let r ← ubigPowKernels W a.mag exp
  .ok (withSign r (a.neg && exp % 2 == 1))

end Dashu.Model
