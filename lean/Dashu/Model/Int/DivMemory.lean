import Dashu.Model.Int.Memory
import Dashu.Model.Int.Div
/-
  Scratch memory of division: mirrors `div::memory_requirement_exact`,
  `divide_conquer::memory_requirement_exact` and the way `divide_conquer::div_rem_in_place`,
  `div_rem_in_place_same_len` and `div_rem_in_place_small_quotient` hand the whole `memory` chunk down
  to `mul::add_signed_mul` (the only consumer; `simple::div_rem_in_place` takes no memory).
  Sizes only, in `Word`s, on top of C01's `memAddSignedMul` (Model/Int/Memory.lean).  The callers
  (`div_rem_in_lhs`, `Div/Rem/DivRem<&ConstDivisorRepr>`, `ConstLargeDivisor::rem_large`,
  gcd's `div_rem_in_place`) all allocate `memory_requirement_exact(lhs.len(), rhs.len())` for exactly
  the lengths they then pass to `div_rem_in_place`.  Core Lean only.
-/
namespace Dashu.Model.Div
open Dashu.Model

/-- `divide_conquer::memory_requirement_exact(lhs_len, rhs_len)` in words:
    `mul::memory_requirement_up_to(rhs_len, min(rhs_len / 2, lhs_len − rhs_len))` -/
def dcMemReq (lhsLen rhsLen : Nat) : Nat := mulMemReq (min (rhsLen / 2) (lhsLen - rhsLen))

/-- `div::memory_requirement_exact(lhs_len, rhs_len)` in words (`assert!(lhs_len >= rhs_len && rhs_len >= 2)`) -/
def divMemReq (lhsLen rhsLen : Nat) : Except PanicKind Nat :=
  if ¬ (lhsLen ≥ rhsLen ∧ rhsLen ≥ 2) then
    .error (assertErr "div::memory_requirement_exact: lhs_len >= rhs_len && rhs_len >= 2")
  else if rhsLen ≤ thresholdSimple ∨ lhsLen - rhsLen ≤ thresholdSimple then .ok 0
  else .ok (dcMemReq lhsLen rhsLen)

mutual
/-- memory behaviour of `div_rem_in_place_same_len` on a divisor of `n` words -/
def memBzSameLen : Nat → Nat → Nat → Except PanicKind Unit
  | 0, _, _ => .ok ()
  | fuel + 1, n, avail => do
    let nLo := n / 2
    memBzSmallQuotient fuel n (n - nLo) avail
    memBzSmallQuotient fuel n nLo avail

/-- memory behaviour of `div_rem_in_place_small_quotient` (divisor `n` words, quotient `m < n`) -/
def memBzSmallQuotient : Nat → Nat → Nat → Nat → Except PanicKind Unit
  | 0, _, _, _ => .ok ()
  | fuel + 1, n, m, avail =>
    if m ≤ thresholdSimple then .ok ()              -- simple::div_rem_in_place: no memory
    else do
      memBzSameLen fuel m avail
      -- mul::add_signed_mul(rem, Negative, q, &rhs[..n - m], memory)
      memAddSignedMul n m (n - m) avail
end

/-- memory behaviour of the block loop of `divide_conquer::div_rem_in_place` (`t` blocks, prefix of
    `len` words) -/
def memBzOuter (n fuel : Nat) : Nat → Nat → Nat → Except PanicKind Unit
  | 0, len, avail => if len > n then memBzSmallQuotient fuel n (len - n) avail else .ok ()
  | t + 1, len, avail => do
    memBzSameLen fuel n avail
    memBzOuter n fuel t (len - n) avail

/-- `div::div_rem_in_place(lhs, rhs, _, memory)` with `memory` = a chunk of `avail` words -/
def memDivRemInPlace (lhsLen rhsLen avail : Nat) : Except PanicKind Unit :=
  if rhsLen ≤ thresholdSimple ∨ lhsLen - rhsLen ≤ thresholdSimple then .ok ()
  else memBzOuter rhsLen (2 * rhsLen + 1) (lhsLen / rhsLen - 1) lhsLen avail

/-- what every caller does: allocate `memory_requirement_exact(lhs.len(), rhs.len())`, divide -/
def memDivide (lhsLen rhsLen : Nat) : Except PanicKind Unit := do
  let avail ← divMemReq lhsLen rhsLen
  memDivRemInPlace lhsLen rhsLen avail

end Dashu.Model.Div
