import Dashu.Model.Int.Word
/-
  Dispatch layer: mirrors `integer/src/repr.rs` (TypedRepr, from_buffer, from_dword) and the
  `mod repr` of `add_ops.rs`.  A magnitude is either inline (`small d`, a double word) or on the heap
  (`large ws`).  Sign handling lives in `Glue.lean`.  Core Lean only.
-/
namespace Dashu.Model

/-- `TypedRepr` / `TypedReprRef`: a magnitude without sign -/
inductive TRepr where
  | small (d : Nat)
  | large (ws : List Nat)
  deriving Repr, DecidableEq

/-- documented panic kinds (DESIGN §3); `undocumented` carries the site -/
inductive PanicKind where
  | divideByZero | negativeUBig | gcdZeroZero | rootZeroth | rootNegative | logInvalid
  | infinite | unlimitedPrecision | invalidRadix | allocTooMuch | differentRings
  | nonInvertible | powNegativeBase
  | undocumented (site : String)
  deriving Repr, DecidableEq

def PanicKind.name : PanicKind → String
  | .divideByZero => "DivideByZero" | .negativeUBig => "NegativeUBig"
  | .gcdZeroZero => "GcdZeroZero" | .rootZeroth => "RootZeroth" | .rootNegative => "RootNegative"
  | .logInvalid => "LogInvalid" | .infinite => "Infinite"
  | .unlimitedPrecision => "UnlimitedPrecision" | .invalidRadix => "InvalidRadix"
  | .allocTooMuch => "AllocTooMuch" | .differentRings => "DifferentRings"
  | .nonInvertible => "NonInvertible" | .powNegativeBase => "PowNegativeBase"
  | .undocumented s => "Undocumented(" ++ s ++ ")"

namespace TRepr

def value (W : Nat) : TRepr → Nat
  | small d => d
  | large ws => val W ws

/-- the canonical-form invariant of a magnitude (DESIGN §3 `Canon`, minus capacity which is C17):
    inline values fit a double word; heap values have ≥ 3 words, all of them words, top one ≠ 0 -/
def Canon (W : Nat) : TRepr → Prop
  | small d => d < 2 ^ (2 * W)
  | large ws => 3 ≤ ws.length ∧ IsWords W ws ∧ ws.getLast? ≠ some 0

instance (W : Nat) (r : TRepr) : Decidable (Canon W r) := by
  cases r <;> unfold Canon IsWords <;> infer_instance

end TRepr

/-- `Buffer::pop_zeros`: drop most-significant zero words -/
def popZeros (ws : List Nat) : List Nat := ws.take (trimLen ws)

/-- `Repr::from_buffer` (magnitude part): trim, then inline if ≤ 2 words -/
def fromBuffer (W : Nat) (ws : List Nat) : TRepr :=
  match popZeros ws with
  | [] => .small 0
  | [a] => .small a
  | [a, b] => .small (a + 2 ^ W * b)
  | l => .large l

/-- words of a typed repr as the code sees them through `as_sign_slice` (0, 1, 2 or ≥ 3 words) -/
def TRepr.words (W : Nat) : TRepr → List Nat
  | .small d => if d = 0 then [] else if d / 2 ^ W = 0 then [d] else [d % 2 ^ W, d / 2 ^ W]
  | .large ws => ws

/-- canonical TRepr of a natural number (used by the driver to build inputs; proved equal to
    `fromBuffer` of any word decomposition) -/
def natWords (W : Nat) (n : Nat) : List Nat :=
  if h : n = 0 then [] else
    have : 0 < n := Nat.pos_of_ne_zero h
    if hW : W = 0 then [n] else
    have : n / 2 ^ W < n := Nat.div_lt_self ‹0 < n› (Nat.one_lt_two_pow hW)
    n % 2 ^ W :: natWords W (n / 2 ^ W)

def ofNat (W : Nat) (n : Nat) : TRepr :=
  if n < 2 ^ (2 * W) then .small n else .large (natWords W n)

-- ---------------------------------------------------------------- add (add_ops.rs mod repr)

/-- `add_dword` -/
def addDword (W : Nat) (a b : Nat) : TRepr :=
  let s := a + b
  if s / 2 ^ (2 * W) = 0 then .small s
  else
    let r := s % 2 ^ (2 * W)
    fromBuffer W [r % 2 ^ W, r / 2 ^ W, 1]

/-- `add_dword_in_place` on a slice of ≥ 2 words -/
def addDwordInPlace (W : Nat) (ws : List Nat) (d : Nat) : List Nat × Nat :=
  match ws with
  | w0 :: w1 :: hi =>
    let b0 := d % 2 ^ W
    let b1 := d / 2 ^ W
    let s0 := w0 + b0
    let s1 := w1 + b1 + s0 / 2 ^ W
    if s1 / 2 ^ W = 0 then (s0 % 2 ^ W :: s1 % 2 ^ W :: hi, 0)
    else
      let (hi', c) := addOne W hi
      (s0 % 2 ^ W :: s1 % 2 ^ W :: hi', c)
  | _ => (ws, 0)

/-- `add_large_dword` -/
def addLargeDword (W : Nat) (buffer : List Nat) (rhs : Nat) : TRepr :=
  let (r, c) := addDwordInPlace W buffer rhs
  fromBuffer W (if c = 0 then r else r ++ [1])

/-- `add_large(buffer, rhs)` — note: the code is called with `buffer` the longer operand in the
    ref/ref and val/val forms but with *either* order in the ref/val form. -/
def addLarge (W : Nat) (buffer rhs : List Nat) : TRepr :=
  let n := min buffer.length rhs.length
  let (lo, overflow) := addSameLen W (buffer.take n) (rhs.take n) 0
  let hi := if rhs.length > n then rhs.drop n else buffer.drop n
  if overflow = 0 then fromBuffer W (lo ++ hi)
  else
    let (hi', c) := addOne W hi
    fromBuffer W (if c = 0 then lo ++ hi' else lo ++ hi' ++ [1])

/-- `TypedRepr + TypedRepr`; `form` selects the impl (they differ in the large/large arm):
    0 = ref,ref / val,val (longer operand first); 1 = ref,val (`add_large(buffer1, words0)`);
    2 = val,ref (`add_large(buffer0, words1)`) -/
def TRepr.add (W : Nat) (a b : TRepr) (form : Nat := 0) : TRepr :=
  match a, b with
  | .small x, .small y => addDword W x y
  | .small x, .large ws => addLargeDword W ws x
  | .large ws, .small y => addLargeDword W ws y
  | .large w0, .large w1 =>
    if form = 1 then addLarge W w1 w0
    else if form = 2 then addLarge W w0 w1
    else if w0.length ≥ w1.length then addLarge W w0 w1 else addLarge W w1 w0

-- ---------------------------------------------------------------- sub (unsigned, may panic)

/-- `sub_dword_in_place` on ≥ 2 words; returns borrow -/
def subDwordInPlace (W : Nat) (ws : List Nat) (d : Nat) : List Nat × Nat :=
  match ws with
  | w0 :: w1 :: hi =>
    let b0 := d % 2 ^ W
    let b1 := d / 2 ^ W
    let d0 := w0 + 2 ^ W - b0
    let c0 := 1 - d0 / 2 ^ W
    let d1 := w1 + 2 ^ W - b1 - c0
    if d1 / 2 ^ W = 1 then (d0 % 2 ^ W :: d1 % 2 ^ W :: hi, 0)
    else
      let (hi', c) := subOne W hi
      (d0 % 2 ^ W :: d1 % 2 ^ W :: hi', c)
  | _ => (ws, 0)

/-- `repr::sub_large_dword` (the debug assertion `!overflow` holds for ≥ 3-word canonical lhs) -/
def subLargeDword (W : Nat) (lhs : List Nat) (rhs : Nat) : TRepr :=
  fromBuffer W (subDwordInPlace W lhs rhs).1

/-- `repr::sub_large` -/
def subLarge (W : Nat) (lhs rhs : List Nat) : Except PanicKind TRepr :=
  if lhs.length < rhs.length then .error .negativeUBig
  else
    let (r, borrow) := subInPlace W lhs rhs
    if borrow ≠ 0 then .error .negativeUBig else .ok (fromBuffer W r)

/-- `repr::sub_large_ref_val(lhs, rhs)`: result computed in the rhs buffer -/
def subLargeRefVal (W : Nat) (lhs rhs : List Nat) : Except PanicKind TRepr :=
  let n := rhs.length
  if lhs.length < n then .error .negativeUBig
  else
    let (lo, borrow) := subSameLenSwap W (lhs.take n) rhs 0
    let hi := lhs.drop n
    if borrow = 0 then .ok (fromBuffer W (lo ++ hi))
    else
      let (hi', c) := subOne W hi
      if c ≠ 0 then .error .negativeUBig else .ok (fromBuffer W (lo ++ hi'))

/-- `TypedRepr - TypedRepr` for `UBig` -/
def TRepr.sub (W : Nat) (a b : TRepr) (refVal : Bool := false) : Except PanicKind TRepr :=
  match a, b with
  | .small x, .small y => if y ≤ x then .ok (.small (x - y)) else .error .negativeUBig
  | .small _, .large _ => .error .negativeUBig
  | .large ws, .small y => .ok (subLargeDword W ws y)
  | .large w0, .large w1 => if refVal then subLargeRefVal W w0 w1 else subLarge W w0 w1

-- ---------------------------------------------------------------- sub_signed (repr_signed)

/-- a signed result: magnitude + "is negative" (Repr::neg / with_sign never make zero negative) -/
structure SRepr where
  neg : Bool
  mag : TRepr
  deriving Repr, DecidableEq

def TRepr.isZero : TRepr → Bool
  | .small 0 => true
  | _ => false

/-- `Repr::with_sign` -/
def withSign (m : TRepr) (neg : Bool) : SRepr :=
  if m.isZero then ⟨false, m⟩ else ⟨neg, m⟩

/-- `Repr::neg` -/
def SRepr.negate (r : SRepr) : SRepr := withSign r.mag (!r.neg)

def SRepr.value (W : Nat) (r : SRepr) : Int :=
  if r.neg then - (r.mag.value W : Int) else (r.mag.value W : Int)

/-- `repr_signed::sub_dword` -/
def subDwordSigned (a b : Nat) : SRepr :=
  if b ≤ a then withSign (.small (a - b)) false else withSign (.small (b - a)) true

/-- `repr_signed::sub_large(lhs, rhs)` -/
def subLargeSigned (W : Nat) (lhs rhs : List Nat) : SRepr :=
  if lhs.length ≥ rhs.length then
    let (neg, r) := subInPlaceWithSign W lhs rhs
    withSign (fromBuffer W r) neg
  else
    match subLargeRefVal W rhs lhs with
    | .ok m => withSign m true
    | .error _ => withSign (.small 0) true   -- unreachable for canonical operands (proved)

/-- `SubSigned` for `TypedRepr`s; `form` selects which of the four impls (they differ in the
    large/large arm): 0 = ref,ref / val,val; 1 = ref,val; 2 = val,ref -/
def TRepr.subSigned (W : Nat) (a b : TRepr) (form : Nat := 0) : SRepr :=
  match a, b with
  | .small x, .small y => subDwordSigned x y
  | .small x, .large ws => (withSign (subLargeDword W ws x) false).negate
  | .large ws, .small y => withSign (subLargeDword W ws y) false
  | .large w0, .large w1 =>
    if form = 1 then (subLargeSigned W w1 w0).negate
    else if form = 2 then subLargeSigned W w0 w1
    else if w0.length ≥ w1.length then subLargeSigned W w0 w1
    else (subLargeSigned W w1 w0).negate

end Dashu.Model
