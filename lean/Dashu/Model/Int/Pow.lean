import Dashu.Model.Int.Ops
/-
  Exponentiation: mirrors `integer/src/pow.rs` (`UBig::pow`, `IBig::pow`, `mod repr`:
  `TypedReprRef::pow`, `pow_word_base`, `pow_dword_base`, `pow_large_base`) and
  `math::max_exp_in_word` / `math::bit_len`.

  The control flow (shortcuts, factor-2 removal, power-of-two bases, word lifting, the left-to-right
  binary loop) is mirrored; the buffers of `pow_word_base` / `pow_dword_base` are carried as their
  values (`res * wbase` is `mul_word_in_place` + push of the carry, refined in `Proofs/Int/Ops.lean`;
  `res * res` is `sqr::sqr`), `pow_large_base` runs on `TRepr` through `TRepr.mul` / `TRepr.sqr`.
  The shifts `repr.shr(shift)` / `.shl(exp * shift)` and `trailing_zeros` belong to C09 and are taken
  at their specification here.  Core Lean only.
-/
namespace Dashu.Model

/-- `math::bit_len` -/
def bitLen (n : Nat) : Nat := if n = 0 then 0 else Nat.log2 n + 1

/-- `trailing_zeros().unwrap_or(0)` -/
def trailingZeros (n : Nat) : Nat :=
  if h : n = 0 then 0
  else if n % 2 = 1 then 0
  else
    have : n / 2 < n := Nat.div_lt_self (Nat.pos_of_ne_zero h) (by decide)
    1 + trailingZeros (n / 2)

/-- the `while let Some(prod) = pow.checked_mul(base)` loop of `math::max_exp_in_word`
    (`fuel` bounds the iterations; `W` of them always suffice because `base > 2`) -/
def maxExpLoop (W base : Nat) : Nat → Nat → Nat → Nat × Nat
  | 0, exp, pow => (exp, pow)
  | fuel + 1, exp, pow =>
    if pow * base < 2 ^ W then maxExpLoop W base fuel (exp + 1) (pow * base) else (exp, pow)

/-- `math::max_exp_in_word(base)` for `base > 2`: `(k, base^k)` with `base^k ≤ Word::MAX` -/
def maxExpInWord (W base : Nat) : Nat × Nat :=
  if base > 2 ^ (W / 2) - 1 then (1, base)
  else
    let exp := W / bitLen base
    maxExpLoop W base W exp (base ^ exp)

/-- the left-to-right binary loop shared by `pow_word_base`, `pow_dword_base` and
    `pow_large_base`; `p` is the index of the exponent bit examined in this iteration
    (`if exp & (1 << p) != 0 { res *= base }; if p == 0 { break }; p -= 1; res = res²`) -/
def powLoop {α : Type} (mulBase sqr : α → α) (exp : Nat) : Nat → α → α
  | 0, res => if exp % 2 = 1 then mulBase res else res
  | p + 1, res =>
    let res := if exp / 2 ^ (p + 1) % 2 = 1 then mulBase res else res
    powLoop mulBase sqr exp p (sqr res)

/-- `pow_word_base(base, exp)` (`exp > 1`); the value of the returned `Repr` -/
def powWordBase (W base exp : Nat) : Nat :=
  if base = 0 then 0
  else if base = 1 then 1
  else if base = 2 then 2 ^ exp                              -- `set_bit(exp)` of zero
  else if isPow2 base then 2 ^ (exp * trailingZeros base)   -- `set_bit(exp * trailing_zeros)`
  else
    let (wexp, wbase) := maxExpInWord W base
    if exp < wexp then base ^ exp                            -- `base.pow(exp)` fits a word
    else if exp < 2 * wexp then wbase * base ^ (exp - wexp)  -- fits a double word
    else
      let e := exp / wexp
      let r := exp % wexp
      let res := powLoop (· * wbase) (fun x => x * x) e (bitLen e - 2) (wbase * wbase)
      res * base ^ r

/-- `pow_dword_base(base, exp)` (`exp > 1`, `base > Word::MAX`) -/
def powDwordBase (base exp : Nat) : Nat :=
  powLoop (· * base) (fun x => x * x) exp (bitLen exp - 2) (base * base)

/-- `pow_large_base(base, exp)` (`exp > 1`): `square_large` / `mul_large` on heap values -/
def powLargeBase (W : Nat) (base : List Nat) (exp : Nat) : TRepr :=
  powLoop (fun r => r.mul W (.large base)) (fun r => r.sqr W) exp (bitLen exp - 2)
    ((TRepr.large base).sqr W)

/-- `TypedReprRef::pow` -/
def TRepr.pow (W : Nat) (a : TRepr) (exp : Nat) : TRepr :=
  if exp = 0 then .small 1
  else if exp = 1 then a
  else if exp = 2 then a.sqr W
  else
    match a with
    | .small d =>
      if d < 2 ^ W then ofNat W (powWordBase W d exp) else ofNat W (powDwordBase d exp)
    | .large ws => powLargeBase W ws exp

/-- `UBig::pow`: remove the factor `2^shift`, power the odd part, shift back by `exp * shift` -/
def ubigPow (W : Nat) (a : TRepr) (exp : Nat) : TRepr :=
  let shift := trailingZeros (a.value W)
  if shift ≠ 0 then
    let odd := ofNat W (a.value W / 2 ^ shift)                       -- `repr.shr(shift)` (spec)
    ofNat W ((odd.pow W exp).value W * 2 ^ (exp * shift))            -- `.shl(exp * shift)` (spec)
  else a.pow W exp

/-- `IBig::pow`: negative iff the base is negative and the exponent is odd -/
def ibigPow (W : Nat) (a : SRepr) (exp : Nat) : SRepr :=
  withSign (ubigPow W a.mag exp) (a.neg && exp % 2 == 1)

/-- `exp * shift` is computed in `usize`; 64 bits on the targets the harness runs on -/
def usizeBits : Nat := 64

/-- `exp.checked_mul(shift)` fails: the product `exp * shift` does not fit `usize`.  The exact result
    then has at least `2^64` bits, more than any `Buffer` can hold (`MAX_CAPACITY · WORD_BITS < 2^64`),
    and `UBig::pow` / `IBig::pow` raise the documented allocation panic (`panic_allocate_too_much`).
    (Before `fix: 099d251` the product was unchecked: debug builds panicked with an arithmetic
    overflow and release builds wrapped, e.g. `4.pow(2^63) == 1`; witness
    `corpus/C01/pow_shift_overflow.case`.) -/
def powShiftOverflows (n exp : Nat) : Bool :=
  trailingZeros n != 0 && decide (2 ^ usizeBits ≤ exp * trailingZeros n)

/-- `UBig::pow` with its `usize` exponent arithmetic: `exp.checked_mul(shift)` or the allocation panic -/
def ubigPowChecked (W : Nat) (a : TRepr) (exp : Nat) : Except PanicKind TRepr :=
  if powShiftOverflows (a.value W) exp then .error .allocTooMuch else .ok (ubigPow W a exp)

/-- `IBig::pow` likewise -/
def ibigPowChecked (W : Nat) (a : SRepr) (exp : Nat) : Except PanicKind SRepr :=
  if powShiftOverflows (a.mag.value W) exp then .error .allocTooMuch else .ok (ibigPow W a exp)

end Dashu.Model
