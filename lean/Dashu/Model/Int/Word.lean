/-
  Word layer of the integer model: mirrors `integer/src/add.rs` loop by loop.

  A slice `&[Word]` is a `List Nat` (little-endian), every element `< 2^W`; `W` (the word size in
  bits) is a parameter of every definition.  In-place mutation becomes "returns the new list";
  carries/borrows are numbers (0 or 1), obtained with `/` and `%`, never Boolean `if`s
  (DESIGN §3).  Core Lean only.
-/
namespace Dashu.Model

/-- value of a little-endian word list in base `2^W` -/
def val (W : Nat) : List Nat → Nat
  | [] => 0
  | w :: ws => w + 2 ^ W * val W ws

/-- all elements are words -/
def IsWords (W : Nat) (ws : List Nat) : Prop := ∀ w ∈ ws, w < 2 ^ W

instance (W : Nat) (ws : List Nat) : Decidable (IsWords W ws) := by
  unfold IsWords; infer_instance

/-- `add_one_in_place`: returns (new words, overflow) -/
def addOne (W : Nat) : List Nat → List Nat × Nat
  | [] => ([], 1)
  | w :: ws =>
    let s := w + 1
    if s / 2 ^ W = 0 then (s :: ws, 0)
    else
      let (r, c) := addOne W ws
      (s % 2 ^ W :: r, c)

/-- `sub_one_in_place`: returns (new words, borrow) -/
def subOne (W : Nat) : List Nat → List Nat × Nat
  | [] => ([], 1)
  | w :: ws =>
    if w = 0 then
      let (r, c) := subOne W ws
      ((2 ^ W - 1) :: r, c)
    else ((w - 1) :: ws, 0)

/-- `add_word_in_place` (non-empty slice) -/
def addWord (W : Nat) : List Nat → Nat → List Nat × Nat
  | [], _ => ([], 0)   -- the code `unwrap()`s on an empty slice; callers never pass one
  | w :: ws, r =>
    let s := w + r
    if s / 2 ^ W = 0 then (s :: ws, 0)
    else
      let (t, c) := addOne W ws
      (s % 2 ^ W :: t, c)

/-- `sub_word_in_place` (non-empty slice) -/
def subWord (W : Nat) : List Nat → Nat → List Nat × Nat
  | [], _ => ([], 0)
  | w :: ws, r =>
    if r ≤ w then ((w - r) :: ws, 0)
    else
      let (t, c) := subOne W ws
      ((w + 2 ^ W - r) :: t, c)

/-- `add_same_len_in_place` with an explicit carry-in (the code starts with `false` = 0).
    Like Rust's `zip`, stops at the shorter list and leaves the rest of `a` untouched. -/
def addSameLen (W : Nat) : List Nat → List Nat → Nat → List Nat × Nat
  | a :: as, b :: bs, c =>
    let s := a + b + c
    let (r, c') := addSameLen W as bs (s / 2 ^ W)
    (s % 2 ^ W :: r, c')
  | as, _, c => (as, c)

/-- `sub_same_len_in_place` with borrow-in; digit = (a - b - c) mod 2^W, borrow-out as 0/1 -/
def subSameLen (W : Nat) : List Nat → List Nat → Nat → List Nat × Nat
  | a :: as, b :: bs, c =>
    let d := a + 2 ^ W - b - c          -- in [1, 2^(W+1))  for words a b and c ≤ 1
    let (r, c') := subSameLen W as bs (1 - d / 2 ^ W)
    (d % 2 ^ W :: r, c')
  | as, _, c => (as, c)

/-- `sub_same_len_in_place_swap`: rhs = lhs - rhs (result replaces the *second* list) -/
def subSameLenSwap (W : Nat) : List Nat → List Nat → Nat → List Nat × Nat
  | a :: as, b :: bs, c =>
    let d := a + 2 ^ W - b - c
    let (r, c') := subSameLenSwap W as bs (1 - d / 2 ^ W)
    (d % 2 ^ W :: r, c')
  | _, bs, c => (bs, c)

/-- `add_in_place`: lhs += rhs, `rhs.len() ≤ lhs.len()` -/
def addInPlace (W : Nat) (lhs rhs : List Nat) : List Nat × Nat :=
  let lo := lhs.take rhs.length
  let hi := lhs.drop rhs.length
  let (lo', c) := addSameLen W lo rhs 0
  if c = 0 then (lo' ++ hi, 0)
  else
    let (hi', c') := addOne W hi
    (lo' ++ hi', c')

/-- `sub_in_place`: lhs -= rhs, `rhs.len() ≤ lhs.len()` -/
def subInPlace (W : Nat) (lhs rhs : List Nat) : List Nat × Nat :=
  let lo := lhs.take rhs.length
  let hi := lhs.drop rhs.length
  let (lo', c) := subSameLen W lo rhs 0
  if c = 0 then (lo' ++ hi, 0)
  else
    let (hi', c') := subOne W hi
    (lo' ++ hi', c')

/-- length of a slice with trailing (most-significant) zero words removed -/
def trimLen : List Nat → Nat
  | [] => 0
  | w :: ws => let n := trimLen ws; if n = 0 then (if w = 0 then 0 else 1) else n + 1

/-- the `Equal` arm of `sub_in_place_with_sign`: scan from the top word down, zeroing equal
    top words; `n` words are still to be compared. Returns (sign is negative?, new lhs). -/
def subWithSignEq (W : Nat) (lhs rhs : List Nat) : Nat → Bool × List Nat
  | 0 => (false, lhs)
  | n + 1 =>
    let a := lhs.getD n 0
    let b := rhs.getD n 0
    if a > b then
      let (lo, _) := subSameLen W (lhs.take (n + 1)) (rhs.take (n + 1)) 0
      (false, lo ++ lhs.drop (n + 1))
    else if a < b then
      let (lo, _) := subSameLenSwap W (rhs.take (n + 1)) (lhs.take (n + 1)) 0
      (true, lo ++ lhs.drop (n + 1))
    else
      subWithSignEq W (lhs.set n 0) rhs n

/-- `sub_in_place_with_sign`: (sign, lhs) = lhs - rhs, `lhs.len() ≥ rhs.len()`.
    Returns (negative?, new lhs of the same length). -/
def subInPlaceWithSign (W : Nat) (lhs rhs : List Nat) : Bool × List Nat :=
  let ll := trimLen lhs
  let rl := trimLen rhs
  if ll > rl then
    let (lo, _) := subInPlace W (lhs.take ll) (rhs.take rl)
    (false, lo ++ lhs.drop ll)
  else if ll < rl then
    let (lo, borrow) := subSameLenSwap W (rhs.take ll) (lhs.take ll) 0
    let mid := (rhs.take rl).drop ll
    let mid' := if borrow = 0 then mid else (subOne W mid).1
    (true, lo ++ mid' ++ lhs.drop rl)
  else
    subWithSignEq W lhs rhs ll

end Dashu.Model
