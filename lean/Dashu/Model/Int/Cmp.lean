import Dashu.Model.Int.Bits
/-
  Equality, ordering and hashing (C05).

  Part 1 (integers) mirrors `integer/src/cmp.rs` (`cmp_same_len`, `cmp_in_place`,
  `Ord for TypedReprRef` with the `Small < Large` shortcut, `Ord for IBig`) and the `PartialEq` /
  `Hash` impls of `integer/src/repr.rs` (both go through `as_sign_slice`).
  Part 2 (floats) mirrors `float/src/cmp.rs` (`PartialEq for FBig`, `repr_cmp_same_base`) and
  `Repr::normalize` of `float/src/repr.rs`.
  Part 3 (rationals) mirrors `rational/src/cmp.rs` (`repr_eq`, `repr_cmp`, structural `RBig ==`).
  Core Lean only.
-/
namespace Dashu.Model

-- ================================================================== part 1: integers

/-- `cmp_same_len`: `lhs.iter().rev().cmp(rhs.iter().rev())` — lexicographic from the top word
    (`debug_assert!(lhs.len() == rhs.len())`) -/
def cmpSameLen : List Nat → List Nat → Ordering
  | a :: as, b :: bs => (cmpSameLen as bs).then (compare a b)
  | _, _ => .eq

/-- `cmp_in_place`: length first, then `cmp_same_len` -/
def cmpInPlace (a b : List Nat) : Ordering := (compare a.length b.length).then (cmpSameLen a b)

/-- `Ord for TypedReprRef`: note the `RefSmall < RefLarge` shortcut, sound only for canonical values -/
def TRepr.cmp : TRepr → TRepr → Ordering
  | .small x, .small y => compare x y
  | .small _, .large _ => .lt
  | .large _, .small _ => .gt
  | .large a, .large b => cmpInPlace a b

/-- `Ord for IBig` -/
def SRepr.cmp (a b : SRepr) : Ordering :=
  match a.neg, b.neg with
  | false, false => a.mag.cmp b.mag
  | false, true => .gt
  | true, false => .lt
  | true, true => b.mag.cmp a.mag

/-- `PartialEq for Repr`: `self.as_sign_slice() == other.as_sign_slice()` -/
def SRepr.beq (W : Nat) (a b : SRepr) : Bool := a.neg == b.neg && a.mag.words W == b.mag.words W

/-- what `Hash for Repr` feeds to the hasher: the sign, then the word slice (a length prefix and
    the words) -/
structure HashFeed where
  neg : Bool
  len : Nat
  words : List Nat
  deriving DecidableEq, Repr

def SRepr.hashFeed (W : Nat) (a : SRepr) : HashFeed :=
  ⟨a.neg, (a.mag.words W).length, a.mag.words W⟩

/-- little-endian bytes of a `bytes`-byte machine integer -/
def leBytes : Nat → Nat → List Nat
  | 0, _ => []
  | k + 1, n => n % 256 :: leBytes k (n / 256)

/-- the byte stream a `Hasher` sees on a 64-bit little-endian host: `Sign` discriminant as `isize`,
    `usize` length prefix, then the words -/
def HashFeed.bytes (W : Nat) (f : HashFeed) : List Nat :=
  leBytes 8 (if f.neg then 1 else 0) ++ leBytes 8 f.len ++ f.words.flatMap (leBytes (W / 8))

-- ================================================================== part 2: floats

/-- `float::Repr<B>`: `significand * B^exponent`; infinities are `0 * B^(±1)` -/
structure FRepr where
  signif : Int
  exp : Int
  deriving DecidableEq, Repr

def FRepr.isInfinite (r : FRepr) : Bool := r.signif == 0 && r.exp != 0
def FRepr.isZero (r : FRepr) : Bool := r.signif == 0 && r.exp == 0

/-- number of base-`B` digits of `n` (0 for 0), `B ≥ 2` -/
def digitsNat (B : Nat) (n : Nat) : Nat :=
  if h : n = 0 ∨ B < 2 then 0 else
    have : n / B < n := Nat.div_lt_self (by omega) (by omega)
    digitsNat B (n / B) + 1

/-- largest `k` with `B^k ∣ n` (`UBig::remove` / trailing-zero stripping), `n ≠ 0`, `B ≥ 2` -/
def removeAll (B : Nat) (n : Nat) : Nat × Nat :=
  if h : n = 0 ∨ B < 2 ∨ n % B ≠ 0 then (n, 0) else
    have : n / B < n := Nat.div_lt_self (by omega) (by omega)
    let (m, k) := removeAll B (n / B)
    (m, k + 1)

/-- `Repr::normalize`: significand not divisible by the base; zero significand ⇒ canonical zero -/
def FRepr.normalize (B : Nat) (r : FRepr) : FRepr :=
  if r.signif = 0 then ⟨0, 0⟩
  else
    let (m, k) := removeAll B r.signif.natAbs
    ⟨if r.signif < 0 then -(m : Int) else (m : Int), r.exp + k⟩

/-- `PartialEq<FBig<R2,B>> for FBig<R1,B>` -/
def fbigEq (a b : FRepr) : Bool :=
  if a.isInfinite && b.isInfinite then !((decide (a.exp ≥ 0)) ^^ (decide (b.exp ≥ 0)))
  else if !a.isInfinite && !b.isInfinite then a.signif == b.signif && a.exp == b.exp
  else false

/-- `Sign * Ordering` -/
def mulOrd (neg : Bool) (o : Ordering) : Ordering := if neg then o.swap else o

/-- `isize::MAX` of the 64-bit target (the clamp of case 4 since /repo ee43486) -/
def cmpIsizeMax : Nat := 2 ^ 63 - 1

/-- case 4 of `repr_cmp_same_base`: exponent against precision (only when both precisions are limited).
    Since /repo ee43486 each precision is clamped first (`lhs_prec.min(isize::MAX as usize) as isize`) and the
    sums saturate; over the model's unbounded `Int` a saturating sum is the exact sum. -/
def cmpCase4 (ln : Bool) (e1 e2 : Int) (prec : Option (Nat × Nat)) : Option Ordering :=
  match prec with
  | some (lp, rp) =>
    if lp ≠ 0 ∧ rp ≠ 0 then
      if e1 > e2 + (min rp cmpIsizeMax : Nat) then some (mulOrd ln .gt)
      else if e2 > e1 + (min lp cmpIsizeMax : Nat) then some (mulOrd ln .lt)
      else none
    else none
  | none => none

/-- case 6 of `repr_cmp_same_base`: exact comparison after aligning the exponents (`shl_digits`) -/
def cmpCase6 (B : Nat) (s1 e1 s2 e2 : Int) : Ordering :=
  if e1 = e2 then compare s1 s2
  else if e1 > e2 then compare (s1 * (B : Int) ^ (e1 - e2).toNat) s2
  else compare s1 (s2 * (B : Int) ^ (e2 - e1).toNat)

/-- cases 5 and 6: exponent against (estimated) digits, then the exact comparison -/
def cmpCase56 (B : Nat) (digitsUb : Int → Nat) (ln : Bool) (s1 e1 s2 e2 : Int) : Ordering :=
  if e1 > e2 + digitsUb s2 then mulOrd ln .gt
  else if e2 > e1 + digitsUb s1 then mulOrd ln .lt
  else cmpCase6 B s1 e1 s2 e2

/-- `repr_cmp_same_base::<B, false>(lhs, rhs, precision)`.  `digitsUb` is the `digits_ub` estimate
    (an `f32` computation in the code): a parameter, required by the theorems to be an upper bound
    of the true digit count. -/
def reprCmpSameBase (B : Nat) (digitsUb : Int → Nat) (lhs rhs : FRepr) (prec : Option (Nat × Nat)) :
    Ordering :=
  -- case 1: infinities
  if lhs.isInfinite && rhs.isInfinite then compare lhs.exp rhs.exp
  else if rhs.isInfinite then (if rhs.exp ≥ 0 then .lt else .gt)
  else if lhs.isInfinite then (if lhs.exp ≥ 0 then .gt else .lt)
  else
  -- case 2: signs (`IBig::sign` of zero is Positive)
  let ln := decide (lhs.signif < 0)
  let rn := decide (rhs.signif < 0)
  if !ln && rn then .gt
  else if ln && !rn then .lt
  else
  -- case 3: zeros
  if lhs.isZero && rhs.isZero then .eq
  else if lhs.isZero then .lt
  else if rhs.isZero then .gt
  else
  -- cases 4, 5, 6
  match cmpCase4 ln lhs.exp rhs.exp prec with
  | some o => o
  | none => cmpCase56 B digitsUb ln lhs.signif lhs.exp rhs.signif rhs.exp

/-- spec: the order of the values `signif * B^exp`, infinities at the ends -/
def specFCmp (B : Nat) (a b : FRepr) : Ordering :=
  if a.isInfinite && b.isInfinite then compare a.exp b.exp
  else if b.isInfinite then (if b.exp ≥ 0 then .lt else .gt)
  else if a.isInfinite then (if a.exp ≥ 0 then .gt else .lt)
  else
    let m := min a.exp b.exp
    compare (a.signif * (B : Int) ^ (a.exp - m).toNat) (b.signif * (B : Int) ^ (b.exp - m).toNat)

-- ================================================================== part 3: rationals

/-- `rational::Repr`: numerator / denominator, denominator > 0 (not necessarily reduced) -/
structure QRepr where
  num : Int
  den : Nat
  deriving DecidableEq, Repr

/-- `repr_eq::<false>` (Relaxed `==`) -/
def reprEq (a b : QRepr) : Bool :=
  if decide (a.num < 0) != decide (b.num < 0) then false
  else if a.num = 0 then decide (b.num = 0)
  else
    let n1d2 : Int := bitLenNat a.num.natAbs + bitLenNat b.den
    let n2d1 : Int := bitLenNat b.num.natAbs + bitLenNat a.den
    if (n1d2 - n2d1).natAbs > 1 then false
    else (a.num * b.den).natAbs == (b.num * a.den).natAbs

/-- `PartialEq for RBig`: structural -/
def rbigEq (a b : QRepr) : Bool := a.num == b.num && a.den == b.den

/-- `Hash for RBig`: `numerator.hash(state); denominator.hash(state)` — the integer feeds of the two
    components, in this order -/
def QRepr.hashFeed (W : Nat) (q : QRepr) : HashFeed × HashFeed :=
  ((sOfInt W q.num).hashFeed W, (SRepr.mk false (ofNat W q.den)).hashFeed W)

/-- `repr_cmp::<false>`.  Step 3's second test is written in the code as
    `rhs_bits < lhs_bits - 1`, which is the same condition as the first test, hence dead. -/
def reprCmp (a b : QRepr) : Ordering :=
  let an := decide (a.num < 0)
  let bn := decide (b.num < 0)
  if !an && bn then .gt
  else if an && !bn then .lt
  else
  if a.den = 1 ∧ b.den = 1 then compare a.num b.num
  else if a.num = 0 ∧ b.num = 0 then .eq
  else if a.num = 0 then .lt
  else if b.num = 0 then .gt
  else
    let lb : Int := (bitLenNat a.num.natAbs : Int) - bitLenNat a.den
    let rb : Int := (bitLenNat b.num.natAbs : Int) - bitLenNat b.den
    if lb > rb + 1 then (if an then .lt else .gt)
    else if rb < lb - 1 then (if an then .gt else .lt)
    else compare (a.num * b.den) (b.num * a.den)

/-- spec: cross multiplication (denominators positive) -/
def specQCmp (a b : QRepr) : Ordering := compare (a.num * b.den) (b.num * a.den)
def specQEq (a b : QRepr) : Bool := a.num * b.den == b.num * a.den

/-- `Repr::reduce`: divide by the gcd -/
def QRepr.reduce (a : QRepr) : QRepr :=
  let g := Nat.gcd a.num.natAbs a.den
  if g = 0 then a else ⟨a.num / g, a.den / g⟩

end Dashu.Model
