import Dashu.Model.Int.Bits
namespace Dashu.Model
end Dashu.Model
