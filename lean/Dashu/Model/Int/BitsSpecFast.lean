import Dashu.Model.Int.Bits
/-
  C09 — evaluation of the *specification* side for huge `usize` arguments.

  The specification of `>>`, `bit`, `clear_bit`, `clear_high_bits`, `split_bits` is written with
  `2 ^ n` (`x / 2^n`, `x % 2^n`, …).  The real operations take any `usize` (up to `2^64 - 1`) and are
  cheap for such arguments (the result is the operand, 0 or −1), so the generator drives them with
  shift counts / bit positions like `2^32`, `2^63`, `usize::MAX - k`; evaluating `2 ^ n` literally would
  need `2^61` bytes.  The functions below return the same values without forming `2 ^ n` when
  `|x| < 2^n` is already decided by the bit length; `Proofs/Int/BitsSpecFast.lean` proves each equal
  to the specification it stands for (for ALL `x`, `n`), so the driver still prints the specification.
  Core Lean only.
-/
namespace Dashu.Model

/-- `x < 2^n`, decided from the bit length (never forms `2^n`) -/
def ltPow2 (x n : Nat) : Bool := x == 0 || Nat.log2 x < n

/-- `x / 2^n` -/
def fastDivPow2 (x n : Nat) : Nat := if ltPow2 x n then 0 else x / 2 ^ n

/-- `x % 2^n` -/
def fastModPow2 (x n : Nat) : Nat := if ltPow2 x n then x else x % 2 ^ n

/-- `specShr x n` (floor division of an integer by `2^n`) -/
def fastSpecShr (x : Int) (n : Nat) : Int :=
  if ltPow2 x.natAbs n then (if x < 0 then -1 else 0) else specShr x n

/-- `specBit x n` -/
def fastSpecBit (x : Int) (n : Nat) : Bool :=
  if ltPow2 x.natAbs n then decide (x < 0) else specBit x n

/-- `natAndNot x (2^n)` (clear bit `n`) -/
def fastClearBit (x n : Nat) : Nat := if ltPow2 x n then x else natAndNot x (2 ^ n)

/-- a `usize` of the host that runs the harness (the protocol header says `#W 64`; `usize` is 64 bits
    there whatever word size the library was configured with) -/
def usizeMax : Nat := 2 ^ 64 - 1

end Dashu.Model
