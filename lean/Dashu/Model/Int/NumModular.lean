/-
  Mirror of the division primitives of the `num-modular` crate (0.6.x, `src/barrett.rs`) that
  dashu-int uses as `FastDivideNormalized` (= `Normalized2by1Divisor<Word>`) and
  `FastDivideNormalized2` (= `Normalized3by2Divisor<Word, DoubleWord>`): Möller–Granlund,
  "Improved division by invariant integers", Algorithms 4 (2-by-1), 5 (3-by-2) and 6 (reciprocal).

  Words are `Nat < 2^W`; `wrapping_add/sub/mul` are written with explicit `% 2^W`; double words
  likewise with `% 2^(2W)`.  The `debug_assert!`s of the crate are the hypotheses of the theorems
  in `Dashu/Proofs/Int/NumModular.lean`.  Core Lean only.
-/
namespace Dashu.Model.NumModular

/-- `Normalized2by1Divisor::invert_word(divisor)`: `split(D::MAX / divisor).0`
    (the crate `debug_assert!`s that the high word is 1) -/
def invertWord (W d : Nat) : Nat := ((2 ^ (2 * W) - 1) / d) % 2 ^ W

/-- `Normalized2by1Divisor::div_rem_2by1(a)` with divisor `d` and reciprocal `m` -/
def div2by1 (W d m a : Nat) : Nat × Nat :=
  let B := 2 ^ W
  let aLo := a % B
  let aHi := a / B
  -- (q0, q1) = split(wmul(m, a_hi) + a)
  let s := m * aHi + a
  let q0 := s % B
  let q1 := (s / B) % B
  -- q = q1 + 1 (mod B);  r = a_lo − q·d (mod B)
  let q := (q1 + 1) % B
  let r := (aLo + B - (q * d) % B) % B
  -- decrease = −1 if r > q0:  q −= 1, r += d  (both mod B)
  let q' := if r > q0 then (q + B - 1) % B else q
  let r' := if r > q0 then (r + d) % B else r
  -- unlikely fix step
  if r' ≥ d then (q' + 1, r' - d) else (q', r')

/-- first half of `invert_double_word`: from the reciprocal `v` of the high word `d1` to a `v` with
    `B² − d1 ≤ (B + v)·d1 + d0 < B²`; returns (v, p) -/
def invDwPhase1 (B d0 d1 v : Nat) : Nat × Nat :=
  -- (p, c) = d1.wrapping_mul(v).overflowing_add(d0)
  let s := (d1 * v) % B + d0
  let p := s % B
  let c := s / B
  if c ≠ 0 then
    let v := v - 1
    let (v, p) := if p ≥ d1 then (v - 1, p - d1) else (v, p)
    (v, (p + B - d1) % B)
  else (v, p)

/-- second half of `invert_double_word`: account for `v·d0` -/
def invDwPhase2 (B d d0 v p : Nat) : Nat :=
  -- (t0, t1) = split(v * d0);  (p, c) = p.overflowing_add(t1)
  let t := v * d0
  let t0 := t % B
  let t1 := t / B
  let s2 := p + t1
  let p2 := s2 % B
  let c2 := s2 / B
  if c2 ≠ 0 then
    let v := v - 1
    if t0 + B * p2 ≥ d then v - 1 else v
  else v

/-- `Normalized3by2Divisor::invert_double_word(divisor)` (Algorithm 6) -/
def invertDoubleWord (W d : Nat) : Nat :=
  let B := 2 ^ W
  let d0 := d % B
  let d1 := d / B
  let vp := invDwPhase1 B d0 d1 (invertWord W d1)
  invDwPhase2 B d d0 vp.1 vp.2

/-- `Normalized3by2Divisor::div_rem_3by2(a_lo, a_hi)` with divisor `d` and reciprocal `m` -/
def div3by2 (W d m aLo aHi : Nat) : Nat × Nat :=
  let B := 2 ^ W
  let a1 := aHi % B
  let a2 := aHi / B
  let d0 := d % B
  let d1 := d / B
  -- (q0, q1) = split(wmul(m, a2) + a_hi)
  let s := m * a2 + aHi
  let q0 := s % B
  let q1 := (s / B) % B
  -- r1 = a1 − q1·d1 (mod B);  r = ⟨r1, a_lo⟩ − d0·q1 − d (mod B²)
  let r1 := (a1 + B - (q1 * d1) % B) % B
  let t := d0 * q1
  let r := (aLo + B * r1 + 2 * (B * B) - t - d) % (B * B)
  -- decrease = −1 if (high word of r) < q0:  then q1 += 1, else r += d
  let rh := r / B
  let q1' := if rh < q0 then (q1 + 1) % B else q1
  let r' := if rh < q0 then r else (r + d) % (B * B)
  if r' ≥ d then (q1' + 1, r' - d) else (q1', r')

/-- `Normalized3by2Divisor::div_rem_4by2(a_lo, a_hi)`: two 3-by-2 steps -/
def div4by2 (W d m aLo aHi : Nat) : Nat × Nat :=
  let B := 2 ^ W
  let a0 := aLo % B
  let a1 := aLo / B
  let (q1, r1) := div3by2 W d m a1 aHi
  let (q0, r0) := div3by2 W d m a0 r1
  (q0 + B * q1, r0)

end Dashu.Model.NumModular
