import Dashu.Model.Int.Repr
/-
  Bit operations of `UBig`/`IBig` (C09): mirrors `integer/src/bits.rs` (mod repr, sign tables,
  `Not`), `integer/src/shift_ops.rs` (mod repr + `Shl/Shr for IBig`), `integer/src/shift.rs`,
  `integer/src/math.rs` (`ones_word/ones_dword/shl_dword/shr_word`) and `Repr::ones` of
  `integer/src/repr.rs`.  Core Lean only.

  Conventions as in `Word.lean`/`Repr.lean`: `W` = word size in bits (parameter), a slice is a
  little-endian `List Nat`; a `DoubleWord` is a `Nat < 2^(2W)`; machine bit operations are the
  `Nat` operations `&&& ||| ^^^`, `!w` on a word is `2^W - 1 - w`.

  Three functions were defective on the pinned snapshot ab05307 (trailing_ones_large,
  are_dword_low_bits_nonzero, Repr::ones) and have been repaired in /repo by the fix commits
  754b193, 94ebcdb, 283f2ad.  They take a flag `fx`: `fx = true` is the code AS IT IS NOW,
  `fx = false` is the separately kept model of the code as it was (used only by the
  `…_asis_counterexample` theorems that show why the repairs were needed).
  The *specification* side (section "spec" below) is independent of both.
-/
namespace Dashu.Model

-- ================================================================== machine-integer primitives

/-- `!w` on a `W`-bit word -/
def wnot (W w : Nat) : Nat := 2 ^ W - 1 - w

/-- `math::ones_word(n)` / `math::ones_dword(n)`: `n` one bits (`n ≤` the width) -/
def onesN (n : Nat) : Nat := 2 ^ n - 1

/-- `BITS - x.leading_zeros()` (`math::bit_len`) -/
def bitLenNat (n : Nat) : Nat := if n = 0 then 0 else Nat.log2 n + 1

/-- trailing zero bits of a non-zero number, looking at `fuel` bits at most -/
def tzAux : Nat → Nat → Nat
  | 0, _ => 0
  | f + 1, n => if n % 2 = 1 then 0 else tzAux f (n / 2) + 1

/-- `x.trailing_zeros()` of a `bits`-wide machine integer (`bits` for 0) -/
def tzWord (bits n : Nat) : Nat := if n = 0 then bits else tzAux bits n

/-- `x.trailing_ones()` of a `bits`-wide machine integer (`bits` for all ones) -/
def toWord : Nat → Nat → Nat
  | 0, _ => 0
  | f + 1, n => if n % 2 = 0 then 0 else toWord f (n / 2) + 1

/-- `x.count_ones()` of a `bits`-wide machine integer -/
def popWord : Nat → Nat → Nat
  | 0, _ => 0
  | f + 1, n => n % 2 + popWord f (n / 2)

/-- `x.is_power_of_two()` on a machine integer (`count_ones() == 1`) -/
def isPow2Nat (n : Nat) : Bool := n ≠ 0 && (n &&& (n - 1)) == 0

/-- `x.checked_next_power_of_two()` on a `bits`-wide machine integer -/
def checkedNextPow2 (bits n : Nat) : Option Nat :=
  let p := if n ≤ 1 then 1 else 2 ^ bitLenNat (n - 1)
  if p < 2 ^ bits then some p else none

/-- `primitive::lowest_dword` / `Buffer::lowest_dword` (slice of ≥ 2 words) -/
def lowestDword (W : Nat) (ws : List Nat) : Nat := ws.getD 0 0 + 2 ^ W * ws.getD 1 0

-- ================================================================== unsigned and / or / xor / and_not

/-- `bitand_large`: the buffer is truncated to the shorter length, then `&=` word by word -/
def zipAnd : List Nat → List Nat → List Nat
  | a :: as, b :: bs => (a &&& b) :: zipAnd as bs
  | _, _ => []

/-- `bitor_large`: `|=` over the common prefix, the longer tail is kept / appended -/
def zipOr : List Nat → List Nat → List Nat
  | a :: as, b :: bs => (a ||| b) :: zipOr as bs
  | as, [] => as
  | [], bs => bs

/-- `bitxor_large` -/
def zipXor : List Nat → List Nat → List Nat
  | a :: as, b :: bs => (a ^^^ b) :: zipXor as bs
  | as, [] => as
  | [], bs => bs

/-- `and_not_large(buffer, rhs)`: `x &= !y` over the common prefix, rest of `buffer` untouched,
    rest of `rhs` ignored -/
def zipAndNot (W : Nat) : List Nat → List Nat → List Nat
  | a :: as, b :: bs => (a &&& wnot W b) :: zipAndNot W as bs
  | as, _ => as

/-- `bitor_large_dword` / `bitxor_large_dword` / `and_not_large_dword`: `f` applied to the two
    lowest words and the two halves of the double word (`debug_assert!(buffer.len() >= 2)`) -/
def opLargeDword (W : Nat) (f : Nat → Nat → Nat) (ws : List Nat) (d : Nat) : List Nat :=
  match ws with
  | w0 :: w1 :: hi => f w0 (d % 2 ^ W) :: f w1 (d / 2 ^ W) :: hi
  | _ => ws

/-- `BitAnd for TypedRepr/TypedReprRef` (all four ownership variants compute this) -/
def TRepr.bitand (W : Nat) : TRepr → TRepr → TRepr
  | .small x, .small y => .small (x &&& y)
  | .small x, .large b => .small (x &&& lowestDword W b)
  | .large a, .small y => .small (lowestDword W a &&& y)
  | .large a, .large b => fromBuffer W (zipAnd a b)

/-- `BitOr for TypedRepr/TypedReprRef` -/
def TRepr.bitor (W : Nat) : TRepr → TRepr → TRepr
  | .small x, .small y => .small (x ||| y)
  | .small x, .large b => fromBuffer W (opLargeDword W (· ||| ·) b x)
  | .large a, .small y => fromBuffer W (opLargeDword W (· ||| ·) a y)
  | .large a, .large b => fromBuffer W (zipOr a b)

/-- `BitXor for TypedRepr/TypedReprRef` -/
def TRepr.bitxor (W : Nat) : TRepr → TRepr → TRepr
  | .small x, .small y => .small (x ^^^ y)
  | .small x, .large b => fromBuffer W (opLargeDword W (· ^^^ ·) b x)
  | .large a, .small y => fromBuffer W (opLargeDword W (· ^^^ ·) a y)
  | .large a, .large b => fromBuffer W (zipXor a b)

/-- `AndNot for TypedRepr/TypedReprRef`: `self & !rhs` -/
def TRepr.andNot (W : Nat) : TRepr → TRepr → TRepr
  | .small x, .small y => .small (x &&& (2 ^ (2 * W) - 1 - y))
  | .small x, .large b => .small (x &&& (2 ^ (2 * W) - 1 - lowestDword W b))
  | .large a, .small y => fromBuffer W (opLargeDword W (fun p q => p &&& wnot W q) a y)
  | .large a, .large b => fromBuffer W (zipAndNot W a b)

-- ================================================================== add_one / sub_one on magnitudes

/-- `TypedRepr::add_one` (`add_ops.rs`): `add_dword(dword, 1)` / `add_large_one` -/
def magAddOne (W : Nat) : TRepr → TRepr
  | .small d => addDword W d 1
  | .large ws =>
    let (r, c) := addOne W ws
    fromBuffer W (if c = 0 then r else r ++ [1])

/-- `TypedRepr::sub_one` (`add_ops.rs`): `from_dword(dword - 1)` / `sub_large_one`.
    `dword - 1` overflows (debug panic) for 0; the sign tables below call it only on the magnitude
    of a negative number, which is non-zero (`SCanon`), so that arm is unreachable there. -/
def magSubOne (W : Nat) : TRepr → TRepr
  | .small d => .small (d - 1)
  | .large ws => fromBuffer W (subOne W ws).1

-- ================================================================== IBig sign tables (bits.rs)

/-- `IBig(repr)` of an unsigned result -/
def posRepr (m : TRepr) : SRepr := ⟨false, m⟩

/-- `Not for IBig` -/
def ibigNot (W : Nat) (a : SRepr) : SRepr :=
  if a.neg then withSign (magSubOne W a.mag) false else withSign (magAddOne W a.mag) true

/-- `impl_ibig_bitand` -/
def ibigAnd (W : Nat) (a b : SRepr) : SRepr :=
  match a.neg, b.neg with
  | false, false => posRepr (a.mag.bitand W b.mag)
  | false, true => posRepr (a.mag.andNot W (magSubOne W b.mag))
  | true, false => posRepr (b.mag.andNot W (magSubOne W a.mag))
  | true, true => ibigNot W (posRepr ((magSubOne W a.mag).bitor W (magSubOne W b.mag)))

/-- `impl_ibig_bitor` -/
def ibigOr (W : Nat) (a b : SRepr) : SRepr :=
  match a.neg, b.neg with
  | false, false => posRepr (a.mag.bitor W b.mag)
  | false, true => ibigNot W (posRepr ((magSubOne W b.mag).andNot W a.mag))
  | true, false => ibigNot W (posRepr ((magSubOne W a.mag).andNot W b.mag))
  | true, true => ibigNot W (posRepr ((magSubOne W a.mag).bitand W (magSubOne W b.mag)))

/-- `impl_ibig_bitxor` -/
def ibigXor (W : Nat) (a b : SRepr) : SRepr :=
  match a.neg, b.neg with
  | false, false => posRepr (a.mag.bitxor W b.mag)
  | false, true => ibigNot W (posRepr (a.mag.bitxor W (magSubOne W b.mag)))
  | true, false => ibigNot W (posRepr ((magSubOne W a.mag).bitxor W b.mag))
  | true, true => posRepr ((magSubOne W a.mag).bitxor W (magSubOne W b.mag))

/-- `impl_ubig_ibig_bitand` (`UBig & IBig -> UBig`): first operand is the unsigned magnitude -/
def ubigIbigAnd (W : Nat) (a : TRepr) (b : SRepr) : TRepr :=
  if b.neg then a.andNot W (magSubOne W b.mag) else a.bitand W b.mag

/-- `impl_ibig_ubig_bitand` (`IBig & UBig -> UBig`): note the swapped operand order of the code -/
def ibigUbigAnd (W : Nat) (a : SRepr) (b : TRepr) : TRepr :=
  if a.neg then b.andNot W (magSubOne W a.mag) else b.bitand W a.mag

-- ================================================================== shifts (shift.rs, shift_ops.rs)

/-- `shift::shl_in_place` by `s < W` bits with carry-in `c` (the code starts with 0 and returns
    early for `s = 0`, which computes the same thing); returns (words, carry word) -/
def shlBits (W : Nat) : List Nat → Nat → Nat → List Nat × Nat
  | [], _, c => ([], c)
  | a :: as, s, c =>
    let v := a * 2 ^ s
    let (r, c') := shlBits W as s (v / 2 ^ W)
    (((v % 2 ^ W) ||| c) :: r, c')

/-- `shift::shr_in_place_with_carry(words, s, 0)`, `s < W`: the loop runs from the most significant
    word down; returns (words, bits shifted out of the lowest word, in the high bits of a word) -/
def shrBits (W s : Nat) : List Nat → List Nat × Nat
  | [] => ([], 0)
  | a :: as =>
    let (r, c) := shrBits W s as
    (((a / 2 ^ s) ||| c) :: r, (a % 2 ^ s) * 2 ^ (W - s))

/-- `math::shl_dword(dw, s)`, `s ≤ W`: (lo, mid, hi) words of `dw << s` -/
def mathShlDword (W d s : Nat) : Nat × Nat × Nat :=
  let lo := d % 2 ^ W
  let hi := d / 2 ^ W
  let v0 := lo * 2 ^ s
  let v1 := (hi * 2 ^ s) ||| (v0 / 2 ^ W)
  (v0 % 2 ^ W, v1 % 2 ^ W, v1 / 2 ^ W)

/-- `shl_dword` (+ `shl_one_spilled`, `shl_dword_spilled`) for a non-zero double word -/
def shlDword (W d n : Nat) : TRepr :=
  if n ≤ 2 * W - bitLenNat d then .small (d * 2 ^ n)
  else if d = 1 then fromBuffer W (List.replicate (n / W) 0 ++ [2 ^ (n % W)])
  else
    let (n0, n1, n2) := mathShlDword W d (n % W)
    fromBuffer W (List.replicate (n / W) 0 ++ [n0, n1, n2])

/-- `shl_large` / `shl_large_ref` (they differ only in which buffer is reused) -/
def shlLarge (W : Nat) (ws : List Nat) (n : Nat) : TRepr :=
  let (r, c) := shlBits W ws (n % W) 0
  fromBuffer W (List.replicate (n / W) 0 ++ r ++ [c])

/-- `Shl<usize> for TypedRepr/TypedReprRef` -/
def TRepr.shl (W : Nat) : TRepr → Nat → TRepr
  | .small d, n => if d = 0 then .small 0 else shlDword W d n
  | .large ws, n => shlLarge W ws n

/-- `shr_dword` -/
def shrDword (W d n : Nat) : TRepr := if n < 2 * W then .small (d / 2 ^ n) else .small 0

/-- `shr_large` (owned buffer) -/
def shrLarge (W : Nat) (ws : List Nat) (n : Nat) : TRepr :=
  if n / W ≥ ws.length then .small 0
  else fromBuffer W (shrBits W (n % W) (ws.drop (n / W))).1

/-- `shr_large_ref` (borrowed slice) -/
def shrLargeRef (W : Nat) (ws : List Nat) (n : Nat) : TRepr :=
  match ws.drop (min (n / W) ws.length) with
  | [] => .small 0
  | [w] => .small (w / 2 ^ (n % W))
  | [lo, hi] => .small ((lo + 2 ^ W * hi) / 2 ^ (n % W))
  | l => fromBuffer W (shrBits W (n % W) l).1

/-- `Shr<usize> for TypedRepr` (`byRef = false`) / `for TypedReprRef` (`byRef = true`) -/
def TRepr.shr (W : Nat) (m : TRepr) (n : Nat) (byRef : Bool := false) : TRepr :=
  match m with
  | .small d => shrDword W d n
  | .large ws => if byRef then shrLargeRef W ws n else shrLarge W ws n

/-- `are_dword_low_bits_nonzero`.  As it was (`fx = false`) the count was clamped to `WORD_BITS`;
    now (`fx = true`) to `DWORD_BITS`. -/
def areDwordLowBitsNonzero (W : Nat) (fx : Bool) (d n : Nat) : Bool :=
  (d &&& onesN (min n (if fx then 2 * W else W))) != 0

/-- `are_slice_low_bits_nonzero` -/
def areSliceLowBitsNonzero (W : Nat) (ws : List Nat) (n : Nat) : Bool :=
  if n / W ≥ ws.length then true
  else (ws.take (n / W)).any (· != 0) || (ws.getD (n / W) 0 &&& onesN (n % W)) != 0

/-- `TypedReprRef::are_low_bits_nonzero` -/
def TRepr.areLowBitsNonzero (W : Nat) (fx : Bool) : TRepr → Nat → Bool
  | .small d, n => areDwordLowBitsNonzero W fx d n
  | .large ws, n => areSliceLowBitsNonzero W ws n

/-- `Shl<usize> for IBig` -/
def ibigShl (W : Nat) (a : SRepr) (n : Nat) : SRepr := withSign (a.mag.shl W n) a.neg

/-- `Shr<usize> for IBig`, as a value: `Positive => mag >> n`,
    `Negative => -IBig(mag >> n) - IBig::from(b)` with `b = are_low_bits_nonzero(n)`; the final
    negation/subtraction are the `IBig` ring operations of C01. -/
def ibigShr (W : Nat) (fx : Bool) (a : SRepr) (n : Nat) (byRef : Bool := false) : Int :=
  if a.neg then
    - (((a.mag.shr W n byRef).value W : Nat) : Int) - (if a.mag.areLowBitsNonzero W fx n then 1 else 0)
  else (((a.mag.shr W n byRef).value W : Nat) : Int)

-- ================================================================== bit tests, scans, counts

/-- `TypedReprRef::bit` -/
def TRepr.bit (W : Nat) : TRepr → Nat → Bool
  | .small d, n => decide (n < 2 * W) && d.testBit n
  | .large ws, n => decide (n / W < ws.length) && (ws.getD (n / W) 0).testBit (n % W)

/-- `TypedReprRef::bit_len` -/
def TRepr.bitLen (W : Nat) : TRepr → Nat
  | .small d => bitLenNat d
  | .large ws => ws.length * W - (W - bitLenNat (ws.getLastD 0))

/-- `TypedReprRef::is_power_of_two` -/
def TRepr.isPow2 (_W : Nat) : TRepr → Bool
  | .small d => isPow2Nat d
  | .large ws => ws.dropLast.all (· == 0) && isPow2Nat (ws.getLastD 0)

def oob : PanicKind := .undocumented "index out of bounds"

/-- `trailing_zeros_large`: index panic if every word is zero (never for a canonical value) -/
def tzLarge (W : Nat) : List Nat → Except PanicKind Nat
  | [] => .error oob
  | w :: ws => if w ≠ 0 then .ok (tzWord W w) else (tzLarge W ws).map (· + W)

/-- the scan of the old `trailing_ones_large` from its start index: first word `≠ Word::MAX`, then
    `words[one_words].trailing_ones()`; index panic when every scanned word is `MAX` -/
def toScan (W : Nat) : List Nat → Except PanicKind Nat
  | [] => .error oob
  | w :: ws => if w ≠ 2 ^ W - 1 then .ok (toWord W w) else (toScan W ws).map (· + W)

/-- the scan of `trailing_ones_large` (as it is now): start at word 0, and `len·W` if all words are `MAX` -/
def toScanFixed (W : Nat) : List Nat → Nat
  | [] => 0
  | w :: ws => if w ≠ 2 ^ W - 1 then toWord W w else toScanFixed W ws + W

/-- `trailing_ones_large`.  As it was (`fx = false`) the scan started at word index 1 and indexed
    past the end when all scanned words were `MAX`. -/
def toLarge (W : Nat) (fx : Bool) (ws : List Nat) : Except PanicKind Nat :=
  if fx then .ok (toScanFixed W ws) else (toScan W (ws.drop 1)).map (· + W)

/-- `trailing_zeros_large_shifted_by_one` (`words[0]` is odd, `len ≥ 2`) -/
def tzLargeShiftedByOne (W : Nat) (ws : List Nat) : Except PanicKind Nat :=
  let zb := tzWord W (ws.getD 0 0 / 2)
  if zb < W - 1 then .ok zb
  else (tzLarge W (ws.drop 1)).map (fun t => t + zb - 1)

/-- `TypedReprRef::trailing_zeros` -/
def TRepr.trailingZeros (W : Nat) : TRepr → Except PanicKind (Option Nat)
  | .small d => if d = 0 then .ok none else .ok (some (tzWord (2 * W) d))
  | .large ws => (tzLarge W ws).map some

/-- `TypedReprRef::trailing_ones` -/
def TRepr.trailingOnes (W : Nat) (fx : Bool) : TRepr → Except PanicKind Nat
  | .small d => .ok (toWord (2 * W) d)
  | .large ws => toLarge W fx ws

/-- `TypedReprRef::trailing_ones_neg`: trailing ones of `-self` -/
def TRepr.trailingOnesNeg (W : Nat) : TRepr → Except PanicKind (Option Nat)
  | .small d =>
    if d = 0 then .ok (some 0)
    else if d = 1 then .ok none
    else .ok (some (toWord (2 * W) (2 ^ (2 * W) - d)))        -- `(!dword + 1).trailing_ones()`
  | .large ws =>
    if ws.getD 0 0 % 2 = 0 then .ok (some 0)
    else (tzLargeShiftedByOne W ws).map (fun t => some (t + 1))

/-- `IBig::trailing_ones` -/
def ibigTrailingOnes (W : Nat) (fx : Bool) (a : SRepr) : Except PanicKind (Option Nat) :=
  if a.neg then a.mag.trailingOnesNeg W else (a.mag.trailingOnes W fx).map some

/-- `BitTest::bit for IBig` -/
def ibigBit (W : Nat) (a : SRepr) (n : Nat) : Except PanicKind Bool :=
  if a.neg then
    match a.mag.trailingZeros W with
    | .ok (some zeros) =>
      .ok (if n = zeros then true else if n > zeros then !(a.mag.bit W n) else false)
    | .ok none => .error (.undocumented "called `Option::unwrap()` on a `None` value")
    | .error e => .error e
  else .ok (a.mag.bit W n)

/-- `TypedReprRef::count_ones` -/
def TRepr.countOnes (W : Nat) : TRepr → Nat
  | .small d => popWord (2 * W) d
  | .large ws => (ws.map (popWord W)).sum

/-- `TypedReprRef::count_zeros` -/
def TRepr.countZeros (W : Nat) : TRepr → Option Nat
  | .small d =>
    if d = 0 then none else some ((2 * W - popWord (2 * W) d) - (2 * W - bitLenNat d))
  | .large ws =>
    some ((ws.map (fun w => W - popWord W w)).sum - (W - bitLenNat (ws.getLastD 0)))

-- ================================================================== set / clear / split

/-- `TypedRepr::set_bit` (+ `with_bit_dword_spilled`, `with_bit_large`) -/
def TRepr.setBit (W : Nat) : TRepr → Nat → TRepr
  | .small d, n =>
    if n < 2 * W then .small (d ||| 2 ^ n)
    else fromBuffer W ([d % 2 ^ W, d / 2 ^ W] ++ List.replicate (n / W - 2) 0 ++ [2 ^ (n % W)])
  | .large ws, n =>
    if n / W < ws.length then fromBuffer W (ws.set (n / W) (ws.getD (n / W) 0 ||| 2 ^ (n % W)))
    else fromBuffer W (ws ++ List.replicate (n / W - ws.length) 0 ++ [2 ^ (n % W)])

/-- `TypedRepr::clear_bit` -/
def TRepr.clearBit (W : Nat) : TRepr → Nat → TRepr
  | .small d, n => if n < 2 * W then .small (d &&& (2 ^ (2 * W) - 1 - 2 ^ n)) else .small d
  | .large ws, n =>
    if n / W < ws.length then
      fromBuffer W (ws.set (n / W) (ws.getD (n / W) 0 &&& wnot W (2 ^ (n % W))))
    else fromBuffer W ws

/-- `math::ceil_div` -/
def ceilDiv (a b : Nat) : Nat := if a = 0 then 0 else (a - 1) / b + 1

/-- `clear_high_bits_large` -/
def clearHighBitsLarge (W : Nat) (ws : List Nat) (n : Nat) : TRepr :=
  let nw := ceilDiv n W
  if nw > ws.length then fromBuffer W ws
  else
    let t := ws.take nw
    if n % W ≠ 0 then fromBuffer W (t.dropLast ++ [t.getLastD 0 &&& onesN (n % W)])
    else fromBuffer W t

/-- `TypedRepr::clear_high_bits` -/
def TRepr.clearHighBits (W : Nat) : TRepr → Nat → TRepr
  | .small d, n => if n < 2 * W then .small (d &&& onesN n) else .small d
  | .large ws, n => clearHighBitsLarge W ws n

/-- `TypedRepr::split_bits`: (lo, hi) -/
def TRepr.splitBits (W : Nat) : TRepr → Nat → TRepr × TRepr
  | .small d, n => if n < 2 * W then (.small (d &&& onesN n), .small (d / 2 ^ n)) else (.small d, .small 0)
  | .large ws, n =>
    if n = 0 then (.small 0, fromBuffer W ws)
    else (clearHighBitsLarge W ws n, shrLargeRef W ws n)

/-- `next_power_of_two_large` -/
def nextPow2Large (W : Nat) (ws : List Nat) : TRepr :=
  let lows := ws.dropLast
  let carry := if lows.all (· == 0) then 0 else 1
  let zeros := List.replicate lows.length 0
  let last := ws.getLastD 0
  -- `last.checked_add(carry).and_then(|x| x.checked_next_power_of_two())`
  match (if last + carry < 2 ^ W then checkedNextPow2 W (last + carry) else none) with
  | some p => fromBuffer W (zeros ++ [p])
  | none => fromBuffer W (zeros ++ [0, 1])

/-- `TypedRepr::next_power_of_two` -/
def TRepr.nextPow2 (W : Nat) : TRepr → TRepr
  | .small d =>
    match checkedNextPow2 (2 * W) d with
    | some p => .small p
    | none => fromBuffer W [0, 0, 1]
  | .large ws => nextPow2Large W ws

/-- `Repr::ones(n)`.  As it was (`fx = false`) the inline/heap test was `n < DWORD_BITS`, so `n = 2W`
    built the 2-word *heap* value `[MAX, MAX]` (the result is transmuted, not passed through
    `from_buffer`); now (`fx = true`): `n <= DWORD_BITS`. -/
def reprOnes (W : Nat) (fx : Bool) (n : Nat) : TRepr :=
  if n < W then .small (onesN n)
  else if n < 2 * W ∨ (fx ∧ n = 2 * W) then .small (onesN n)
  else .large (List.replicate (n / W) (2 ^ W - 1) ++ (if n % W > 0 then [onesN (n % W)] else []))

-- ================================================================== spec (what C09 requires)

/-- bit `i` of `x` written in two's complement with infinitely many sign bits:
    floor-shift right by `i`, then parity -/
def specBit (x : Int) (i : Nat) : Bool := (x / (2 : Int) ^ i) % 2 = 1

/-- the complement `~x = -x - 1` -/
def compl (x : Int) : Int := -x - 1

/-- `a & !b` on naturals -/
def natAndNot (a b : Nat) : Nat := a ^^^ (a &&& b)

/-- bitwise AND of two integers, computed through the complement identities on naturals;
    `Proofs/Int/Bits.lean` shows `specBit (specAnd x y) i = (specBit x i && specBit y i)` and that
    an integer is determined by its bits, so this is *the* two's-complement AND. -/
def specAnd (x y : Int) : Int :=
  if 0 ≤ x then
    if 0 ≤ y then ((x.toNat &&& y.toNat : Nat) : Int)
    else ((natAndNot x.toNat (compl y).toNat : Nat) : Int)
  else
    if 0 ≤ y then ((natAndNot y.toNat (compl x).toNat : Nat) : Int)
    else compl (((compl x).toNat ||| (compl y).toNat : Nat) : Int)

def specOr (x y : Int) : Int :=
  if 0 ≤ x then
    if 0 ≤ y then ((x.toNat ||| y.toNat : Nat) : Int)
    else compl ((natAndNot (compl y).toNat x.toNat : Nat) : Int)
  else
    if 0 ≤ y then compl ((natAndNot (compl x).toNat y.toNat : Nat) : Int)
    else compl (((compl x).toNat &&& (compl y).toNat : Nat) : Int)

def specXor (x y : Int) : Int :=
  if 0 ≤ x then
    if 0 ≤ y then ((x.toNat ^^^ y.toNat : Nat) : Int)
    else compl ((x.toNat ^^^ (compl y).toNat : Nat) : Int)
  else
    if 0 ≤ y then compl (((compl x).toNat ^^^ y.toNat : Nat) : Int)
    else (((compl x).toNat ^^^ (compl y).toNat : Nat) : Int)

/-- `x << n` -/
def specShl (x : Int) (n : Nat) : Int := x * (2 : Int) ^ n
/-- `x >> n`: floor division by `2^n` -/
def specShr (x : Int) (n : Nat) : Int := x / (2 : Int) ^ n

/-- `k` is the number of trailing zeros of `n`: `2^k ∣ n` and `n / 2^k` is odd -/
def IsTz (n k : Nat) : Prop := n % 2 ^ k = 0 ∧ (n / 2 ^ k) % 2 = 1

instance (n k : Nat) : Decidable (IsTz n k) := by unfold IsTz; infer_instance

/-- trailing zeros of `n ≠ 0`: a candidate from the lowest-set-bit trick, *checked* against the
    defining relation `IsTz` (so the value returned is certified, however it was found) -/
def specTz (n : Nat) : Option Nat :=
  let k := Nat.log2 (n ^^^ (n - 1))
  if IsTz n k then some k else none

/-- trailing ones of the two's complement form of `x` (`none` for −1, which has infinitely many):
    trailing zeros of `x + 1` -/
def specTo (x : Int) : Option (Option Nat) :=
  if x = -1 then some none else (specTz (x + 1).natAbs).map some

/-- number of one bits of a natural number -/
def popNat (n : Nat) : Nat := popWord (bitLenNat n) n

/-- `∃ k, n = 2^k` in decidable form -/
def specIsPow2 (n : Nat) : Bool := n == 2 ^ Nat.log2 n

/-- least power of two `≥ n` -/
def specNextPow2 (n : Nat) : Nat := if n ≤ 1 then 1 else 2 ^ (Nat.log2 (n - 1) + 1)

/-- canonical signed representation of an integer (what `into_sign_repr` yields) -/
def sOfInt (W : Nat) (i : Int) : SRepr := ⟨i < 0, ofNat W i.natAbs⟩

/-- the canonical-form invariant of an `IBig`: canonical magnitude, zero is not negative -/
def SCanon (W : Nat) (r : SRepr) : Prop := r.mag.Canon W ∧ (r.neg = true → r.mag.value W ≠ 0)

instance (W : Nat) (r : SRepr) : Decidable (SCanon W r) := by unfold SCanon; infer_instance

-- ---------------------------------------------------------------- defect classes of the old code (`fx = false`)

/-- inputs on which the old `trailing_ones_large` differs from the specification: a heap value whose
    word 0 is not `MAX` (scan starts at word 1), or whose words 1.. are all `MAX` (index panic) -/
def toDefect (W : Nat) : TRepr → Bool
  | .small _ => false
  | .large ws => ws.getD 0 0 != 2 ^ W - 1 || (ws.drop 1).all (· == 2 ^ W - 1)

/-- inputs on which the old `IBig >> n` differs from floor division: negative inline value, `n > W`,
    low word zero, and some bit among bits `W .. min(n, 2W) - 1` set -/
def shrDefect (W : Nat) (a : SRepr) (n : Nat) : Bool :=
  match a.mag with
  | .small d => a.neg && decide (W < n) && d % 2 ^ W == 0 && d % 2 ^ (min n (2 * W)) != 0
  | .large _ => false

end Dashu.Model
