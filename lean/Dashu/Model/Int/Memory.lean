import Dashu.Model.Int.Pow
/-
  Scratch memory of the multiplication / squaring kernels: mirrors `integer/src/memory.rs`
  (`Memory::allocate_slice_*` → `try_find_memory_for_slice`) as a counter of free `Word`s, the
  `memory_requirement_*` functions of `mul/mod.rs`, `mul/karatsuba.rs`, `mul/toom_3.rs`, `sqr/mod.rs`,
  and the way `mul_ops::repr::mul_large` / `square_large` size their `MemoryAllocation`.

  Every slice allocated by these kernels is a `Word` slice carved from a `MemoryAllocation` whose layout
  is `array_layout::<Word>(n)`: the start is `Word`-aligned, so the padding computed by
  `try_find_memory_for_slice` is 0 and an allocation of `n` words consumes exactly `n` words.
  `let (slice, mut memory) = memory.allocate_slice_*(..)` shadows `memory` by the remainder until the
  end of the enclosing block; afterwards the outer chunk is whole again.  The functions below follow the
  allocation structure of the mirrored kernels (same recursion, sizes only) and return
  `.error (undocumented …)` exactly where `allocate_slice_initialize` would hit
  `expect("internal error: not enough memory allocated")`.  Core Lean only.
-/
namespace Dashu.Model

/-- `math::ceil_log2(x) = bit_len(x − 1)` -/
def ceilLog2 (n : Nat) : Nat := bitLen (n - 1)

/-- `karatsuba::memory_requirement_up_to(n)` in words: `2n + 2·ceil_log2 n` -/
def karatsubaMemReq (n : Nat) : Nat := 2 * n + 2 * ceilLog2 n

/-- `toom_3::memory_requirement_up_to(n)` in words: `4n + 13·ceil_log2 n` -/
def toom3MemReq (n : Nat) : Nat := 4 * n + 13 * ceilLog2 n

/-- `mul::memory_requirement_up_to(_, smaller_len)` = `memory_requirement_exact` in words -/
def mulMemReq (smaller : Nat) : Nat :=
  if smaller ≤ Dashu.Gen.mul_THRESHOLD_SIMPLE then 0
  else if smaller ≤ Dashu.Gen.mul_THRESHOLD_KARATSUBA then karatsubaMemReq smaller
  else toom3MemReq smaller

/-- `sqr::memory_requirement_exact(len)` in words -/
def sqrMemReq (len : Nat) : Nat :=
  if len ≤ sqrMaxLenSimple then 0 else mulMemReq len

/-- the panic of `Memory::allocate_slice_initialize` -/
def memPanic : PanicKind :=
  .undocumented "integer/src/memory.rs|internal error: not enough memory allocated"

/-- `Memory::allocate_slice_*::<Word>(n)` on a chunk with `avail` free words: the remaining chunk -/
def memAlloc (avail n : Nat) : Except PanicKind Nat :=
  if n ≤ avail then .ok (avail - n) else .error memPanic

/-- the allocation behaviour of a same-length kernel: operand length → free words → ok / panic -/
abbrev MemKernel := Nat → Nat → Except PanicKind Unit

/-- `karatsuba::add_signed_mul_same_len`: three blocks, each re-using the whole chunk -/
def memKaratsuba (rec : MemKernel) : MemKernel := fun n avail => do
  let mid := (n + 1) / 2
  -- { c_lo (2·mid words); recursive product on (a_lo, b_lo) }
  let m ← memAlloc avail (2 * mid)
  rec mid m
  -- { c_hi (2·(n−mid) words); recursive product on (a_hi, b_hi) }
  let m ← memAlloc avail (2 * (n - mid))
  rec (n - mid) m
  -- { a_diff, b_diff (mid words each); recursive product on the differences }
  let m ← memAlloc avail mid
  let m ← memAlloc m mid
  rec mid m

/-- `toom_3::add_signed_mul_same_len`: `t1`, `a_eval`, `b_eval`, `t2`, `c_eval` stay allocated to the
    end of the function; `c_eval` of the V(∞) block and `a02`, `b02` live in inner blocks -/
def memToom3 (rec : MemKernel) : MemKernel := fun n avail => do
  let n3 := (n + 2) / 3
  let n3s := n - 2 * n3
  let m ← memAlloc avail (2 * n3 + 2)            -- t1
  rec n3 m                                        -- V(0) into t1_short
  let m ← memAlloc m (n3 + 1)                     -- a_eval
  let m ← memAlloc m (n3 + 1)                     -- b_eval
  rec (n3 + 1) m                                  -- V(2) into t1
  let m' ← memAlloc m (2 * n3 + 2)                -- { c_eval
  rec n3s m'                                      --   V(inf) }
  let m ← memAlloc m (2 * n3 + 2)                 -- t2
  let m' ← memAlloc m (n3 + 1)                    -- { a02
  let m' ← memAlloc m' (n3 + 1)                   --   b02
  rec (n3 + 1) m'                                 --   V(1) into t2 }
  let m ← memAlloc m (2 * (n3 + 1))               -- c_eval
  rec (n3 + 1) m                                  -- V(-1) into c_eval

/-- `mul::add_signed_mul_same_len` (the simple kernel uses no scratch memory) -/
def memSameLen : Nat → MemKernel
  | 0 => fun _ _ => .ok ()
  | fuel + 1 => fun n avail =>
    if n ≤ Dashu.Gen.mul_THRESHOLD_SIMPLE then .ok ()
    else if n ≤ Dashu.Gen.mul_THRESHOLD_KARATSUBA then memKaratsuba (memSameLen fuel) n avail
    else memToom3 (memSameLen fuel) n avail

/-- the chunk loop of `helpers::add_signed_mul_split_into_chunks`: every chunk call gets the whole
    `memory`; `k` bounds the number of iterations -/
def memSplitLoop (chunkLen : Nat) (f : Nat → Except PanicKind Unit)
    (tail : Nat → Nat → Nat → Except PanicKind Unit) (b : Nat) : Nat → Nat → Nat → Except PanicKind Unit
  | 0, a, avail =>
    if a ≥ b then tail a b avail else if a ≠ 0 then tail b a avail else .ok ()
  | k + 1, a, avail =>
    if a ≥ chunkLen then do
      f avail
      memSplitLoop chunkLen f tail b k (a - chunkLen) avail
    else if a ≥ b then tail a b avail else if a ≠ 0 then tail b a avail else .ok ()

/-- `mul::add_signed_mul` on operands of `a0`, `b0` words -/
def memAddSignedMul : Nat → Nat → Nat → Nat → Except PanicKind Unit
  | 0, _, _, _ => .ok ()
  | fuel + 1, a0, b0, avail =>
    let a := if a0 < b0 then b0 else a0
    let b := if a0 < b0 then a0 else b0
    if b ≤ Dashu.Gen.mul_THRESHOLD_SIMPLE then
      if a ≤ Dashu.Gen.mul_simple_CHUNK_LEN then .ok ()
      else memSplitLoop Dashu.Gen.mul_simple_CHUNK_LEN (fun _ => .ok ()) (memAddSignedMul fuel) b a a avail
    else if b ≤ Dashu.Gen.mul_THRESHOLD_KARATSUBA then
      memSplitLoop b (memKaratsuba (memSameLen b) b) (memAddSignedMul fuel) b a a avail
    else
      memSplitLoop b (memToom3 (memSameLen b) b) (memAddSignedMul fuel) b a a avail

/-- `mul_large` for unequal operands: `MemoryAllocation::new(mul::memory_requirement_exact(res_len,
    min(lhs.len(), rhs.len())))`, then `mul::multiply` -/
def memMulLarge (l r : Nat) : Except PanicKind Unit :=
  memAddSignedMul (l + r) l r (mulMemReq (min l r))

/-- `square_large`: `MemoryAllocation::new(sqr::memory_requirement_exact(len))`, then `sqr::sqr` -/
def memSquareLarge (len : Nat) : Except PanicKind Unit :=
  if len ≤ sqrMaxLenSimple then .ok () else memSameLen len len (sqrMemReq len)

end Dashu.Model
