import Dashu.Model.Int.Cmp
import Dashu.Model.Int.Ops
import Dashu.Model.Int.Pow
import Dashu.Model.Int.Div
import Dashu.Model.Int.BitsPrim
/-
  C05, the "whichever constructor or operation produced the values" quantifier.

  A *history* is a finite program over a register file of `IBig` values (a `UBig` is a non-negative
  one).  Every instruction is one of the library's producers, in the executable model proved about
  elsewhere: constructors / decoders (`const`: the value enters through `from_buffer`/`from_dword`,
  i.e. `SRepr.ofInt`; the decoders themselves are C07, `from_buffer` on raw buffers C17), `clone`,
  the ring operations (C01: `ibigAdd/ibigSub/ibigMul`, `sqr`, `pow`), division (C02:
  `ibigDiv/ibigRem`), the bit operators and shifts (C09).  `run` executes the program and stops at
  the first panic.

  `history_canonical`: every register ever produced is canonical (`SCanon`).
  `history_values`   : every register holds the value the same program computes on `Int`.
  `history_eq_cmp_hash`: consequently `==`, `cmp` and the hash feed of ANY two registers ever
  produced follow their values.
-/
namespace Dashu.Model

/-- `Shr<usize> for IBig` at the representation level:
    `Positive => IBig(mag >> n)`, `Negative => -IBig(mag >> n) - IBig::from(b)` -/
def ibigShrRepr (W : Nat) (a : SRepr) (n : Nat) (byRef : Bool) : SRepr :=
  if a.neg then
    ibigSub W (SRepr.negate ⟨false, a.mag.shr W n byRef⟩)
      ⟨false, .small (if a.mag.areLowBitsNonzero W true n then 1 else 0)⟩
  else ⟨false, a.mag.shr W n byRef⟩

/-- one instruction of a history; operands are register indices -/
inductive HOp where
  | const (z : Int)
  | clone (i : Nat)
  | neg (i : Nat) | abs (i : Nat) | not (i : Nat) | sqr (i : Nat)
  | pow (i : Nat) (e : Nat)
  | shl (i : Nat) (n : Nat) | shr (i : Nat) (n : Nat) (byRef : Bool)
  | add (i j : Nat) (form : Nat) | sub (i j : Nat) (form : Nat) | mul (i j : Nat)
  | div (i j : Nat) | rem (i j : Nat)
  | divEuclid (i j : Nat) | remEuclid (i j : Nat) (refVal : Bool)
  | and (i j : Nat) | or (i j : Nat) | xor (i j : Nat)
  | ones (n : Nat)
  /-- any constructor that hands a raw word buffer to `Repr::from_buffer` and then applies a sign:
      `from_words`, `from_le/be_bytes` (`from_le_bytes_large`), `from_chunks`, the parsers,
      `IBig::from_parts` -/
  | fromWords (neg : Bool) (ws : List Nat)
  /-- `UBig::from(uN)` / `IBig::from(uN)` (`Repr::from_unsigned`) -/
  | fromUnsigned (v : Nat)
  /-- `IBig::from(iN)` (`IBig::from_signed`), `bits` = width of the primitive -/
  | fromSigned (bits : Nat) (v : Int)
  /-- `UBig`-only operations (the register must be non-negative, as the type system enforces) -/
  | setBit (i : Nat) (n : Nat) | clearBit (i : Nat) (n : Nat) | clearHigh (i : Nat) (n : Nat)
  | splitLo (i : Nat) (n : Nat) | splitHi (i : Nat) (n : Nat) | nextPow2 (i : Nat)

/-- typing conditions of an instruction: raw buffers hold machine words, a primitive lies in the
    range of its type -/
def HOp.Ok (W : Nat) : HOp → Prop
  | .fromWords _ ws => IsWords W ws
  | .fromSigned bits v => 1 ≤ bits ∧ -(2 ^ (bits - 1) : Int) ≤ v ∧ v ≤ 2 ^ (bits - 1) - 1
  | _ => True

inductive HRes (α : Type) where
  | ok (r : α) | panic (k : PanicKind) | bad
  deriving DecidableEq

def ofExcept {α} : Except PanicKind α → HRes α
  | .ok r => .ok r
  | .error k => .panic k

/-- execute one instruction on the representations -/
def hstep (W : Nat) (env : List SRepr) : HOp → HRes SRepr
  | .const z => .ok (SRepr.ofInt W z)
  | .ones n => .ok ⟨false, reprOnes W true n⟩
  | .fromWords neg ws => .ok (withSign (fromBuffer W ws) neg)
  | .fromUnsigned v => .ok ⟨false, Conv.fromUnsigned W v⟩
  | .fromSigned bits v => .ok (Conv.fromSigned W bits v)
  | .setBit i n => match env[i]? with
    | some a => if a.neg then .bad else .ok ⟨false, a.mag.setBit W n⟩ | none => .bad
  | .clearBit i n => match env[i]? with
    | some a => if a.neg then .bad else .ok ⟨false, a.mag.clearBit W n⟩ | none => .bad
  | .clearHigh i n => match env[i]? with
    | some a => if a.neg then .bad else .ok ⟨false, a.mag.clearHighBits W n⟩ | none => .bad
  | .splitLo i n => match env[i]? with
    | some a => if a.neg then .bad else .ok ⟨false, (a.mag.splitBits W n).1⟩ | none => .bad
  | .splitHi i n => match env[i]? with
    | some a => if a.neg then .bad else .ok ⟨false, (a.mag.splitBits W n).2⟩ | none => .bad
  | .nextPow2 i => match env[i]? with
    | some a => if a.neg then .bad else .ok ⟨false, a.mag.nextPow2 W⟩ | none => .bad
  | .clone i => match env[i]? with | some a => .ok a | none => .bad
  | .neg i => match env[i]? with | some a => .ok a.negate | none => .bad
  | .abs i => match env[i]? with | some a => .ok ⟨false, a.mag⟩ | none => .bad
  | .not i => match env[i]? with | some a => .ok (ibigNot W a) | none => .bad
  | .sqr i => match env[i]? with | some a => .ok ⟨false, a.mag.sqr W⟩ | none => .bad
  | .pow i e => match env[i]? with | some a => ofExcept (ibigPowChecked W a e) | none => .bad
  | .shl i n => match env[i]? with | some a => .ok (ibigShl W a n) | none => .bad
  | .shr i n r => match env[i]? with | some a => .ok (ibigShrRepr W a n r) | none => .bad
  | .add i j f => match env[i]?, env[j]? with | some a, some b => .ok (ibigAdd W a b f) | _, _ => .bad
  | .sub i j f => match env[i]?, env[j]? with | some a, some b => .ok (ibigSub W a b f) | _, _ => .bad
  | .mul i j => match env[i]?, env[j]? with | some a, some b => .ok (ibigMul W a b) | _, _ => .bad
  | .div i j => match env[i]?, env[j]? with | some a, some b => ofExcept (Div.ibigDiv W a b) | _, _ => .bad
  | .rem i j => match env[i]?, env[j]? with | some a, some b => ofExcept (Div.ibigRem W a b) | _, _ => .bad
  | .divEuclid i j => match env[i]?, env[j]? with
    | some a, some b => ofExcept (Div.ibigDivEuclid W a b) | _, _ => .bad
  | .remEuclid i j rv => match env[i]?, env[j]? with
    | some a, some b => ofExcept ((Div.ibigRemEuclid W a b rv).map fun r => (⟨false, r⟩ : SRepr)) | _, _ => .bad
  | .and i j => match env[i]?, env[j]? with | some a, some b => .ok (ibigAnd W a b) | _, _ => .bad
  | .or i j => match env[i]?, env[j]? with | some a, some b => .ok (ibigOr W a b) | _, _ => .bad
  | .xor i j => match env[i]?, env[j]? with | some a, some b => .ok (ibigXor W a b) | _, _ => .bad

/-- the same instruction on mathematical integers (`none` = the documented panic) -/
def hspec (W : Nat) (env : List Int) : HOp → HRes Int
  | .const z => .ok z
  | .ones n => .ok ((2 : Int) ^ n - 1)
  | .fromWords neg ws => .ok (if neg then -((val W ws : Nat) : Int) else ((val W ws : Nat) : Int))
  | .fromUnsigned v => .ok (v : Int)
  | .fromSigned _ v => .ok v
  | .setBit i n => match env[i]? with
    | some a => if a < 0 then .bad else .ok ((a.toNat ||| 2 ^ n : Nat) : Int) | none => .bad
  | .clearBit i n => match env[i]? with
    | some a => if a < 0 then .bad else .ok ((natAndNot a.toNat (2 ^ n) : Nat) : Int) | none => .bad
  | .clearHigh i n => match env[i]? with
    | some a => if a < 0 then .bad else .ok ((a.toNat % 2 ^ n : Nat) : Int) | none => .bad
  | .splitLo i n => match env[i]? with
    | some a => if a < 0 then .bad else .ok ((a.toNat % 2 ^ n : Nat) : Int) | none => .bad
  | .splitHi i n => match env[i]? with
    | some a => if a < 0 then .bad else .ok ((a.toNat / 2 ^ n : Nat) : Int) | none => .bad
  | .nextPow2 i => match env[i]? with
    | some a => if a < 0 then .bad else .ok ((specNextPow2 a.toNat : Nat) : Int) | none => .bad
  | .clone i => match env[i]? with | some a => .ok a | none => .bad
  | .neg i => match env[i]? with | some a => .ok (-a) | none => .bad
  | .abs i => match env[i]? with | some a => .ok (a.natAbs : Int) | none => .bad
  | .not i => match env[i]? with | some a => .ok (compl a) | none => .bad
  | .sqr i => match env[i]? with | some a => .ok (a * a) | none => .bad
  | .pow i e => match env[i]? with
    | some a => if powShiftOverflows a.natAbs e then .panic .allocTooMuch else .ok (a ^ e)
    | none => .bad
  | .shl i n => match env[i]? with | some a => .ok (a * (2 : Int) ^ n) | none => .bad
  | .shr i n _ => match env[i]? with | some a => .ok (a / (2 : Int) ^ n) | none => .bad
  | .add i j _ => match env[i]?, env[j]? with | some a, some b => .ok (a + b) | _, _ => .bad
  | .sub i j _ => match env[i]?, env[j]? with | some a, some b => .ok (a - b) | _, _ => .bad
  | .mul i j => match env[i]?, env[j]? with | some a, some b => .ok (a * b) | _, _ => .bad
  | .div i j => match env[i]?, env[j]? with
    | some a, some b => if b = 0 then .panic .divideByZero else .ok (Int.tdiv a b) | _, _ => .bad
  | .rem i j => match env[i]?, env[j]? with
    | some a, some b => if b = 0 then .panic .divideByZero else .ok (Int.tmod a b) | _, _ => .bad
  | .divEuclid i j => match env[i]?, env[j]? with
    | some a, some b => if b = 0 then .panic .divideByZero else .ok (a / b) | _, _ => .bad
  | .remEuclid i j _ => match env[i]?, env[j]? with
    | some a, some b => if b = 0 then .panic .divideByZero else .ok (a % b) | _, _ => .bad
  | .and i j => match env[i]?, env[j]? with | some a, some b => .ok (specAnd a b) | _, _ => .bad
  | .or i j => match env[i]?, env[j]? with | some a, some b => .ok (specOr a b) | _, _ => .bad
  | .xor i j => match env[i]?, env[j]? with | some a, some b => .ok (specXor a b) | _, _ => .bad

/-- run a history: each result is appended to the register file; stop at the first panic / bad index.
    Returns the register file and whether the program ran to the end. -/
def hrun (W : Nat) : List HOp → List SRepr → List SRepr × Bool
  | [], env => (env, true)
  | op :: ops, env =>
    match hstep W env op with
    | .ok r => hrun W ops (env ++ [r])
    | _ => (env, false)

def hrunSpec (W : Nat) : List HOp → List Int → List Int × Bool
  | [], env => (env, true)
  | op :: ops, env =>
    match hspec W env op with
    | .ok r => hrunSpec W ops (env ++ [r])
    | _ => (env, false)


end Dashu.Model
