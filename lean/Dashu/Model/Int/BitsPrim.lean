import Dashu.Model.Int.Bits
import Dashu.Model.Conv.Prim
/-
  Bit operators with a primitive operand (`impl_bit_ops_primitive_with_ubig`,
  `impl_bit_ops_unsigned_with_ibig`, `impl_bit_ops_signed_with_ibig` of integer/src/bits.rs, through
  `helper_macros::impl_binop_with_primitive / impl_commutative_binop_with_primitive /
  impl_binop_assign_with_primitive`): the primitive is converted with `UBig::from` / `IBig::from`
  (`Repr::from_unsigned`, `IBig::from_signed` — the conversion models of C06, `Model/Conv/Prim.lean`),
  the big-integer operator is applied, and for `& -> uN` the result is converted back with
  `try_into().unwrap()`.  Core Lean only.
-/
namespace Dashu.Model
open Dashu.Model.Conv

inductive BitOp where
  | and | or | xor
  deriving DecidableEq, Repr

def BitOp.onI (W : Nat) : BitOp → SRepr → SRepr → SRepr
  | .and => ibigAnd W | .or => ibigOr W | .xor => ibigXor W

def BitOp.onU (W : Nat) : BitOp → TRepr → TRepr → TRepr
  | .and => TRepr.bitand W | .or => TRepr.bitor W | .xor => TRepr.bitxor W

def BitOp.spec : BitOp → Int → Int → Int
  | .and => specAnd | .or => specOr | .xor => specXor

def unwrapConv {α} : Except ConvErr α → Except PanicKind α
  | .ok r => .ok r
  | .error e => .error (.undocumented ("called `Result::unwrap()` on an `Err` value: " ++ e.name))

/-- `UBig & uN -> uN` (`swap`: the form `uN & UBig`, operands in the other order) -/
def ubigAndPrim (W bits : Nat) (a : TRepr) (v : Nat) (swap : Bool := false) : Except PanicKind Nat :=
  let p := fromUnsigned W v
  unwrapConv (tryToUnsigned W bits (if swap then p.bitand W a else a.bitand W p))

/-- `UBig | uN`, `UBig ^ uN` (`-> UBig`) and the assign forms of all three -/
def ubigOpPrim (W : Nat) (o : BitOp) (a : TRepr) (v : Nat) (swap : Bool := false) : TRepr :=
  let p := fromUnsigned W v
  if swap then o.onU W p a else o.onU W a p

/-- `IBig & uN -> uN` -/
def ibigAndPrimU (W bits : Nat) (a : SRepr) (v : Nat) (swap : Bool := false) : Except PanicKind Nat :=
  let p : SRepr := ⟨false, fromUnsigned W v⟩
  unwrapConv (ibigTryToUnsigned W bits (if swap then ibigAnd W p a else ibigAnd W a p))

/-- `IBig | uN`, `IBig ^ uN`, and the assign forms (`-> IBig`) -/
def ibigOpPrimU (W : Nat) (o : BitOp) (a : SRepr) (v : Nat) (swap : Bool := false) : SRepr :=
  let p : SRepr := ⟨false, fromUnsigned W v⟩
  if swap then o.onI W p a else o.onI W a p

/-- `IBig & iN`, `IBig | iN`, `IBig ^ iN` (`-> IBig`) -/
def ibigOpPrimS (W bits : Nat) (o : BitOp) (a : SRepr) (v : Int) (swap : Bool := false) : SRepr :=
  let p := fromSigned W bits v
  if swap then o.onI W p a else o.onI W a p

end Dashu.Model
