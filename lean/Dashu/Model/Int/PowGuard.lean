import Dashu.Model.Int.PowFull
/-
  The allocation guard of the final `<<` of `UBig::pow` / `IBig::pow` (integer/src/pow.rs → shift_ops.rs
  `impl Shl<usize> for TypedRepr` → `Buffer::allocate`, buffer.rs): `Buffer::allocate(n)` raises the documented panic
  "try to allocate too much memory" when `n > Buffer::MAX_CAPACITY = usize::MAX / WORD_BITS`, before anything is
  allocated.  With it the model answers (instead of trying to build the number) on the extreme exponents for which
  the real code answers at once: `2.pow(usize::MAX)`, `4.pow(2^63 − 1)`, ….  This is what the driver executes for
  `u.pow` / `i.pow`.  Core Lean only.
-/
namespace Dashu.Model

/-- `Buffer::MAX_CAPACITY = usize::MAX / WORD_BITS_USIZE` (buffer.rs) -/
def bufMaxCapacity (W : Nat) : Nat := (2 ^ usizeBits - 1) / W

/-- the argument of the `Buffer::allocate` that `TypedRepr << n` reaches: `shl_one_spilled` allocates
    `n / WORD_BITS + 1` words, `shl_dword_spilled` `n / WORD_BITS + 3`, `shl_large_ref` `n / WORD_BITS + len + 1`;
    `none` when no buffer is allocated (`Small(0)`, a result that fits the double word).  For a heap value
    `shl_large` shifts in place only if `capacity ≥ len + n / WORD_BITS + 1`, and a capacity never exceeds
    `MAX_CAPACITY`, so comparing this number with `MAX_CAPACITY` decides the panic on either path. -/
def shlAllocateWords (W : Nat) (r : TRepr) (n : Nat) : Option Nat :=
  match r with
  | .small d =>
    if d = 0 then none
    else if n ≤ 2 * W - bitLenNat d then none
    else if d = 1 then some (n / W + 1)
    else some (n / W + 3)
  | .large ws => some (n / W + ws.length + 1)

/-- `TypedRepr << n` with the capacity check of `Buffer::allocate` -/
def TRepr.shlChecked (W : Nat) (r : TRepr) (n : Nat) : Except PanicKind TRepr :=
  match shlAllocateWords W r n with
  | some k => if bufMaxCapacity W < k then .error .allocTooMuch else .ok (r.shl W n)
  | none => .ok (r.shl W n)

/-- the result buffers of `pow_word_base` / `pow_dword_base` are allocated before the loop:
    `Buffer::allocate(exp.checked_add(1).unwrap_or_else(panic_allocate_too_much))` with `exp := exp / wexp` (word base,
    reached only past the shortcuts 0, 1, 2, 2^k, `exp < 2·wexp`), `Buffer::allocate(exp.checked_mul(2).unwrap_or_else(..))`
    (double-word base); either the checked arithmetic or `allocate`'s `num_words > MAX_CAPACITY` raises the documented
    allocation panic, i.e. exactly when the requested length exceeds `MAX_CAPACITY` (which is below `2^63`).
    `pow_large_base` allocates through `square_large` / `mul_large` as it goes (not decided up front). -/
def powBufAllocPanics (W : Nat) (x : TRepr) (exp : Nat) : Bool :=
  match x with
  | .small d =>
    !(decide (exp = 0 ∨ exp = 1 ∨ exp = 2)) &&
      (if d < 2 ^ W then
        !(decide (d = 0 ∨ d = 1 ∨ d = 2 ∨ isPow2 d = true ∨ exp < 2 * (maxExpInWord W d).1)) &&
          decide (bufMaxCapacity W < exp / (maxExpInWord W d).1 + 1)
       else decide (bufMaxCapacity W < 2 * exp))
  | .large _ => false

/-- `TypedReprRef::pow` with real buffers and the allocation check of its result buffer -/
def TRepr.powBufG (W : Nat) (x : TRepr) (exp : Nat) : Except PanicKind TRepr :=
  if powBufAllocPanics W x exp then .error .allocTooMuch else x.powBuf W exp

/-- `UBig::pow` as in `ubigPowFull`, with the allocation checks of the result buffer and of the final shift -/
def ubigPowGuarded (W : Nat) (a : TRepr) (exp : Nat) : Except PanicKind TRepr := do
  let tz ← a.trailingZeros W
  let shift := tz.getD 0
  if shift ≠ 0 then
    if 2 ^ usizeBits ≤ exp * shift then .error .allocTooMuch
    else do
      let r ← (a.shr W shift true).powBufG W exp
      r.shlChecked W (exp * shift)
  else a.powBufG W exp

/-- `IBig::pow` -/
def ibigPowGuarded (W : Nat) (a : SRepr) (exp : Nat) : Except PanicKind SRepr := do
  let r ← ubigPowGuarded W a.mag exp
  .ok (withSign r (a.neg && exp % 2 == 1))

/-- the driver's specification side of `pow`: `x ^ n`, evaluated in closed form for `|x| ≤ 1` so that the extreme
    `usize` exponents can be driven (`Props/C01Dispatch.spec_pow_eq` proves it equal to `x ^ n`) -/
def specPowInt (x : Int) (n : Nat) : Int :=
  if x = 0 then (if n = 0 then 1 else 0)
  else if x = 1 then 1
  else if x = -1 then (if n % 2 = 0 then 1 else -1)
  else x ^ n

def specPowNat (x n : Nat) : Nat :=
  if x = 0 then (if n = 0 then 1 else 0) else if x = 1 then 1 else x ^ n

end Dashu.Model
