import Dashu.Model.Int.Cmp
import Dashu.Model.NT.Modular
/-
  C05 (round 5): `FBig::from_parts_const` (float/src/fbig.rs) — the `const fn` constructor behind the `static_fbig!` /
  `static_dbig!` macros.  It does NOT call `Repr::normalize`: it carries its own normaliser on a double word (a
  power-of-two arm by `trailing_zeros`, otherwise a `while significand % B == 0` loop) and infers the precision by a
  `checked_mul` loop.  Mirrored here statement by statement; `W` = word bits (the significand is `< 2^(2W)`).
  Core Lean only.
-/
namespace Dashu.Model
open Dashu.Model.NT

/-- `while significand % (B as DoubleWord) == 0 { significand /= B; exponent += 1; }` (fuel: see
    `constStrip_eq_removeAll` — `2W` iterations always suffice) -/
def constStrip (B : Nat) : Nat → Nat → Int → Nat × Int
  | 0, s, e => (s, e)
  | fuel + 1, s, e => if s % B = 0 then constStrip B fuel (s / B) (e + 1) else (s, e)

/-- `while let Some(next) = pow.checked_mul(B) { digits += 1; if next > significand { break; } pow = next; }`
    (`lim = 2^(2W)`: `checked_mul` is `None` from there on) -/
def constDigits (B lim s : Nat) : Nat → Nat → Nat → Nat
  | 0, _, digits => digits
  | fuel + 1, pow, digits =>
    if pow * B ≥ lim then digits
    else if pow * B > s then digits + 1
    else constDigits B lim s fuel (pow * B) (digits + 1)

/-- `FBig::from_parts_const(sign, significand, exponent, min_precision)`: the representation and the precision -/
def fromPartsConst (W B : Nat) (neg : Bool) (s : Nat) (e : Int) (minPrec : Option Nat) : FRepr × Nat :=
  if s = 0 then (⟨0, 0⟩, 0)                                           -- `return Self::ZERO`
  else
    let (m, e', digits) :=
      if B = 2 ^ (bitLen B - 1) then                                  -- `B.is_power_of_two()`
        let baseBits := trailingZeros B
        let shift := trailingZeros s / baseBits
        let m := s / 2 ^ (shift * baseBits)
        (m, e + (shift : Int), (bitLen m + baseBits - 1) / baseBits)
      else
        let r := constStrip B (2 * W) s e
        (r.1, r.2, constDigits B (2 ^ (2 * W)) r.1 (2 * W + 1) 1 0)
    (⟨if neg then -(m : Int) else (m : Int), e'⟩,
     match minPrec with | some p => max p digits | none => digits)

end Dashu.Model
