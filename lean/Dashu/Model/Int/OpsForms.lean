import Dashu.Model.Int.Ops
import Dashu.Gen.IntDispatch
/-
  The four ownership forms (`TypedRepr` / `TypedReprRef` on either side) of the TypedRepr-level operators of
  `integer/src/add_ops.rs` (`mod repr`, `mod repr_signed`) and `integer/src/mul_ops.rs` (`mod repr`), and the public
  `sqr` / `cubic` methods, as the REGENERATED dispatch (`Dashu.Gen.IntDispatch`, rewritten from /repo on every run)
  applied to the mirrored kernels of `Model/Int/{Repr,Ops}.lean`.  This is what the driver executes for
  `u.add`, `u.sub`, `u.mul`, `u.sqr`, `u.cubic`, `i.sqr`, `i.cubic`.  Core Lean only.
-/
namespace Dashu.Model
open Dashu.Gen

/-- which `impl` of an operator trait: left operand / right operand by reference (`TypedReprRef`) or by value
    (`TypedRepr`) -/
inductive OwnForm
  | refRef | refVal | valRef | valVal
  deriving Repr, DecidableEq

def OwnForm.all : List OwnForm := [.refRef, .refVal, .valRef, .valVal]

def OwnForm.name : OwnForm → String
  | .refRef => "rr" | .refVal => "rv" | .valRef => "vr" | .valVal => "vv"

/-- `repr::sub_dword` (add_ops.rs): `a.checked_sub(b)`, `None` ⇒ `panic_negative_ubig()` -/
def subDwordU (a b : Nat) : Except PanicKind TRepr :=
  if b ≤ a then .ok (.small (a - b)) else .error .negativeUBig

/-- the callees of the `Add` impls: `add_dword`, `add_large_dword`, `add_large` -/
def addK (W : Nat) : IntDispatch.AddK TRepr where
  add_dword := addDword W
  add_large := addLarge W
  add_large_dword := addLargeDword W

/-- the callees of the `Sub` impls; `sub_large_dword` cannot panic (its `debug_assert!(!overflow)` is proved) -/
def subK (W : Nat) : IntDispatch.SubK (Except PanicKind TRepr) where
  panic_negative_ubig := .error .negativeUBig
  sub_dword := subDwordU
  sub_large := subLarge W
  sub_large_dword := fun lhs rhs => .ok (subLargeDword W lhs rhs)
  sub_large_ref_val := subLargeRefVal W

/-- the callees of the `SubSigned` impls (`repr_signed::sub_dword / sub_large_dword / sub_large`, `Repr::neg`) -/
def subSignedK (W : Nat) : IntDispatch.SubSignedK SRepr where
  sub_dword := subDwordSigned
  sub_large := subLargeSigned W
  sub_large_dword := fun lhs rhs => withSign (subLargeDword W lhs rhs) false
  neg := SRepr.negate

/-- the callees of the `Mul` impls: `mul_dword`, `mul_large_dword`, `mul_large` -/
def mulK (W : Nat) : IntDispatch.MulK TRepr where
  mul_dword := mulDword W
  mul_large := mulLarge W
  mul_large_dword := mulLargeDword W

/-- `TypedRepr[Ref] + TypedRepr[Ref]`, the impl selected by `f` -/
def TRepr.addF (W : Nat) (f : OwnForm) (a b : TRepr) : TRepr :=
  match f with
  | .refRef => IntDispatch.Add_ref_ref (addK W) a b
  | .refVal => IntDispatch.Add_ref_val (addK W) a b
  | .valRef => IntDispatch.Add_val_ref (addK W) a b
  | .valVal => IntDispatch.Add_val_val (addK W) a b

/-- `TypedRepr[Ref] - TypedRepr[Ref]` (UBig subtraction: may panic), the impl selected by `f` -/
def TRepr.subF (W : Nat) (f : OwnForm) (a b : TRepr) : Except PanicKind TRepr :=
  match f with
  | .refRef => IntDispatch.Sub_ref_ref (subK W) a b
  | .refVal => IntDispatch.Sub_ref_val (subK W) a b
  | .valRef => IntDispatch.Sub_val_ref (subK W) a b
  | .valVal => IntDispatch.Sub_val_val (subK W) a b

/-- `SubSigned::sub_signed`, the impl selected by `f` -/
def TRepr.subSignedF (W : Nat) (f : OwnForm) (a b : TRepr) : SRepr :=
  match f with
  | .refRef => IntDispatch.SubSigned_ref_ref (subSignedK W) a b
  | .refVal => IntDispatch.SubSigned_ref_val (subSignedK W) a b
  | .valRef => IntDispatch.SubSigned_val_ref (subSignedK W) a b
  | .valVal => IntDispatch.SubSigned_val_val (subSignedK W) a b

/-- `TypedRepr[Ref] * TypedRepr[Ref]`, the impl selected by `f` (`valRef` forwards to `refVal` with the operands
    exchanged, so `mul_large` sees them in the other order) -/
def TRepr.mulF (W : Nat) (f : OwnForm) (a b : TRepr) : TRepr :=
  match f with
  | .refRef => IntDispatch.Mul_ref_ref (mulK W) a b
  | .refVal => IntDispatch.Mul_ref_val (mulK W) a b
  | .valRef => IntDispatch.Mul_val_ref (mulK W) a b
  | .valVal => IntDispatch.Mul_val_val (mulK W) a b

/-- `UBig::sqr(&self)` = `UBig(self.repr().sqr())` -/
def ubigSqr (W : Nat) (a : TRepr) : TRepr := IntDispatch.UBig_sqr (TRepr.sqr W) a

/-- `UBig::cubic(&self)` = `self * self.sqr()` (`&UBig * UBig`: the `ref_val` impl of `Mul`) -/
def ubigCubic (W : Nat) (a : TRepr) : TRepr :=
  IntDispatch.UBig_cubic (ubigSqr W) (TRepr.mulF W .refVal) a

/-- `IBig::sqr(&self)` = `UBig(self.as_sign_repr().1.sqr())`: a `UBig` -/
def ibigSqr (W : Nat) (a : SRepr) : TRepr := IntDispatch.IBig_sqr (TRepr.sqr W) SRepr.mag a

/-- `&IBig * UBig` (`forward_ibig_ubig_binop_to_repr` with `impl_ibig_mul`): the UBig is a `Positive` magnitude,
    `sign0 * Positive`, magnitudes multiplied by the `ref_val` impl -/
def ibigMulUbigRefVal (W : Nat) (a : SRepr) (m : TRepr) : SRepr :=
  withSign (TRepr.mulF W .refVal a.mag m) (a.neg != false)

/-- `IBig::cubic(&self)` = `self * self.sqr()` (`&IBig * UBig`) -/
def ibigCubic (W : Nat) (a : SRepr) : SRepr :=
  IntDispatch.IBig_cubic (ibigSqr W) (ibigMulUbigRefVal W) a

end Dashu.Model
