import Dashu.Model.Int.Memory
/-
  `pow_word_base` / `pow_dword_base` (integer/src/pow.rs) with their buffers as word lists:
  the result `Buffer` (`Buffer::allocate(exp + 1)` resp. `allocate(2·exp)`, capacity
  `default_capacity`), its `push` / `push_resizing` / `push_zeros` capacity assertions, the scratch
  `MemoryAllocation` (`array_layout(exp/2 + 1)` resp. `array_layout(exp)` plus
  `sqr::memory_requirement_exact` of the same length) with the copy `tmp` of `res` taken before each
  squaring, and `sqr::sqr`'s own allocations.  Every capacity assertion / allocation that can panic is an
  `Except` here; `Proofs/Int/PowBuf.lean` proves that none does, that the comments "result is at most
  exp + 1 words" / "2 * exp words" and "actually never resize" hold, and that the buffer value is
  `base ^ exp`.  (`MAX_CAPACITY` clamping and the `checked_add`/`checked_mul` on `exp` are C17/C16.)
  Core Lean only.
-/
namespace Dashu.Model

/-- `Buffer::default_capacity` (without the `.min(MAX_CAPACITY)`) -/
def bufDefaultCapacity (n : Nat) : Nat := n + n / 8 + 2

/-- a `Buffer`: its words and its capacity -/
structure PowBuf where
  ws : List Nat
  cap : Nat

def bufPanic (msg : String) : PanicKind := .undocumented ("integer/src/buffer.rs|" ++ msg)

/-- `Buffer::push`: `assert!(self.len < self.capacity)` -/
def PowBuf.push (b : PowBuf) (w : Nat) : Except PanicKind PowBuf :=
  if b.ws.length < b.cap then .ok ⟨b.ws ++ [w], b.cap⟩
  else .error (bufPanic "assertion failed: self.len < self.capacity")

/-- `Buffer::push_resizing`: no-op for a zero word; otherwise `ensure_capacity(len + 1)` (reallocates to
    `default_capacity(len + 1)` if the buffer is full) and `push` -/
def PowBuf.pushResizing (b : PowBuf) (w : Nat) : Except PanicKind PowBuf :=
  if w = 0 then .ok b
  else
    let cap := if b.ws.length + 1 > b.cap ∧ b.ws.length + 1 > 2 then bufDefaultCapacity (b.ws.length + 1)
      else b.cap
    PowBuf.push ⟨b.ws, cap⟩ w

/-- the allocations of `sqr::sqr(b, a, memory)` for `a.len() = len` -/
def memSqr (len avail : Nat) : Except PanicKind Unit :=
  if len ≤ sqrMaxLenSimple then .ok () else memSameLen len len avail

/-- the squaring step of the pow loops:
    `let (tmp, mut memory) = memory.allocate_slice_copy(&res); res.fill(0); res.push_zeros(res.len());`
    `sqr::sqr(&mut res, tmp, &mut memory);`  (`memWords` = size of the whole scratch allocation) -/
def PowBuf.square (W memWords : Nat) (b : PowBuf) : Except PanicKind PowBuf := do
  let m ← memAlloc memWords b.ws.length
  if b.ws.length ≤ b.cap - b.ws.length then pure ()
  else throw (bufPanic "assertion failed: n <= self.capacity - self.len")
  memSqr b.ws.length m
  pure ⟨sqrBuffer W b.ws, b.cap⟩

/-- the binary loop of `Model/Int/Pow.lean` (`powLoop`) with steps that may panic -/
def powLoopE {α : Type} (mulBase sqr : α → Except PanicKind α) (exp : Nat) :
    Nat → α → Except PanicKind α
  | 0, res => if exp % 2 = 1 then mulBase res else .ok res
  | p + 1, res => do
    let res ← if exp / 2 ^ (p + 1) % 2 = 1 then mulBase res else .ok res
    let res ← sqr res
    powLoopE mulBase sqr exp p res

/-- `res *= wbase`: `let carry = mul_word_in_place(&mut res, wbase); res.push_resizing(carry)` -/
def PowBuf.mulWord (W m : Nat) (b : PowBuf) : Except PanicKind PowBuf :=
  let r := mulWordInPlace W b.ws m 0
  PowBuf.pushResizing ⟨r.1, b.cap⟩ r.2

/-- `res *= base` for a double-word base: `mul_dword_in_place`, then
    `if carry > 0 { res.push(c0); res.push_resizing(c1) }` -/
def PowBuf.mulDword (W m : Nat) (b : PowBuf) : Except PanicKind PowBuf := do
  let r := mulDwordInPlace W b.ws m 0
  if r.2 > 0 then
    let b1 ← PowBuf.push ⟨r.1, b.cap⟩ (r.2 % 2 ^ W)
    PowBuf.pushResizing b1 (r.2 / 2 ^ W)
  else .ok ⟨r.1, b.cap⟩

/-- the part of `pow_word_base(base, exp)` after the shortcuts (`exp ≥ 2·wexp`): the buffer handed to
    `Repr::from_buffer` -/
def powWordBaseBuf (W base exp : Nat) : Except PanicKind PowBuf := do
  let we := maxExpInWord W base
  let e := exp / we.1
  let r := exp % we.1
  let res : PowBuf := ⟨[], bufDefaultCapacity (e + 1)⟩
  let memWords := (e / 2 + 1) + sqrMemReq (e / 2 + 1)
  let p := we.2 * we.2
  let res ← res.push (p % 2 ^ W)
  let res ← res.push (p / 2 ^ W)
  let res ← powLoopE (PowBuf.mulWord W we.2) (PowBuf.square W memWords) e (bitLen e - 2) res
  PowBuf.mulWord W (base ^ r) res

/-- `pow_dword_base(base, exp)`: the buffer handed to `Repr::from_buffer` -/
def powDwordBaseBuf (W base exp : Nat) : Except PanicKind PowBuf := do
  let res : PowBuf := ⟨[], bufDefaultCapacity (2 * exp)⟩
  let memWords := exp + sqrMemReq exp
  let p := mulAddCarryDword W base base 0          -- `math::mul_add_carry_dword(base, base, 0)`
  let res ← res.push (p.1 % 2 ^ W)
  let res ← res.push (p.1 / 2 ^ W)
  let res ← res.push (p.2 % 2 ^ W)
  let res ← res.push (p.2 / 2 ^ W)
  powLoopE (PowBuf.mulDword W base) (PowBuf.square W memWords) exp (bitLen exp - 2) res

end Dashu.Model
