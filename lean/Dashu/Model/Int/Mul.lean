import Dashu.Model.Int.Word
import Dashu.Gen.Misc
/-
  Schoolbook multiplication kernels: mirrors `integer/src/mul/mod.rs`
  (`add_mul_word_same_len_in_place`, `add_mul_word_in_place`, `sub_mul_word_same_len_in_place`) and
  `integer/src/mul/simple.rs` (`add_mul_chunk`, `sub_mul_chunk`, `add_signed_mul_chunk`,
  `add_signed_mul`, `add_signed_mul_same_len`).  Slices are `List Nat`, in-place updates return the
  new list, carries are numbers.  Core Lean only.
-/
namespace Dashu.Model

/-- `mul_word_in_place_with_carry`: words = words * rhs + carry; returns carry word.
    (`rhs == 0` returns 0 *without touching the words*; callers never pass 0.) -/
def mulWordInPlace (W : Nat) : List Nat → Nat → Nat → List Nat × Nat
  | [], _, c => ([], c)
  | a :: as, rhs, c =>
    let v := a * rhs + c
    let (r, c') := mulWordInPlace W as rhs (v / 2 ^ W)
    (v % 2 ^ W :: r, c')


/-- loop of `add_mul_word_same_len_in_place`: `(v_lo, v_hi) = mul_add_2carry(mult, b, a, carry)` -/
def addMulWordLoop (W : Nat) : List Nat → Nat → List Nat → Nat → List Nat × Nat
  | a :: as, mult, b :: bs, c =>
    let v := mult * b + a + c
    let (r, c') := addMulWordLoop W as mult bs (v / 2 ^ W)
    (v % 2 ^ W :: r, c')
  | as, _, _, c => (as, c)

/-- `add_mul_word_same_len_in_place`: words += mult * rhs, returns the carry word
    (`mult == 0` returns 0 without touching the words) -/
def addMulWordSameLen (W : Nat) (words : List Nat) (mult : Nat) (rhs : List Nat) : List Nat × Nat :=
  if mult = 0 then (words, 0) else addMulWordLoop W words mult rhs 0

/-- `add_mul_word_in_place`: words += mult * rhs with `words.len() ≥ rhs.len()`; the carry of the
    low part is propagated into the high part by `add_word_in_place` -/
def addMulWordInPlace (W : Nat) (words : List Nat) (mult : Nat) (rhs : List Nat) : List Nat × Nat :=
  if mult = 0 then (words, 0)
  else
    let n := rhs.length
    let (lo, carry) := addMulWordSameLen W (words.take n) mult rhs
    if words.length > n then
      let (hi, c) := addWord W (words.drop n) carry
      (lo ++ hi, c)
    else (lo, carry)

/-- loop of `sub_mul_word_same_len_in_place`; the state is `carry_plus_max = carry + Word::MAX`
    with `carry ∈ −Word::MAX..=0`.
    `v = a + carry_plus_max + (double_word(0, MAX) − MAX) − mult·b` (never negative, fits a double
    word — both proved) -/
def subMulWordLoop (W : Nat) : List Nat → Nat → List Nat → Nat → List Nat × Nat
  | a :: as, mult, b :: bs, cpm =>
    let v := a + cpm + ((2 ^ W - 1) * 2 ^ W - (2 ^ W - 1)) - mult * b
    let (r, cpm') := subMulWordLoop W as mult bs (v / 2 ^ W)
    (v % 2 ^ W :: r, cpm')
  | as, _, _, cpm => (as, cpm)

/-- `sub_mul_word_same_len_in_place`: words -= mult * rhs, returns the borrow word -/
def subMulWordSameLen (W : Nat) (words : List Nat) (mult : Nat) (rhs : List Nat) : List Nat × Nat :=
  if mult = 0 then (words, 0)
  else
    let (r, cpm) := subMulWordLoop W words mult rhs (2 ^ W - 1)
    (r, 2 ^ W - 1 - cpm)

/-- `add_mul_chunk(c, a, b)`: c += a·b; `c` here is the suffix `c[i..]` still being updated, `bs` the
    multiplier words not yet used, `carry` the pending carry bit for `c[i + a.len()]`.
    Iteration `i`: `carry_word = add_mul_word_same_len_in_place(c[i..i+a.len()], b[i], a)`, then
    `c[i + a.len()] += carry_word + carry` with the new carry bit out. -/
def addMulChunk (W : Nat) (a : List Nat) : List Nat → List Nat → Nat → List Nat × Nat
  | c, [], carry => (c, carry)
  | c, m :: bs, carry =>
    let n := a.length
    let (win, cw) := addMulWordSameLen W (c.take n) m a
    let s := c.getD n 0 + cw + carry                 -- add_with_carry(c[i + n], carry_word, carry)
    match win ++ (s % 2 ^ W) :: c.drop (n + 1) with
    | [] => ([], s / 2 ^ W)
    | w0 :: rest =>
      let (r, carry') := addMulChunk W a rest bs (s / 2 ^ W)
      (w0 :: r, carry')

/-- `sub_mul_chunk(c, a, b)`: c -= a·b, returns the borrow bit -/
def subMulChunk (W : Nat) (a : List Nat) : List Nat → List Nat → Nat → List Nat × Nat
  | c, [], borrow => (c, borrow)
  | c, m :: bs, borrow =>
    let n := a.length
    let (win, bw) := subMulWordSameLen W (c.take n) m a
    let d := c.getD n 0 + 2 ^ W - bw - borrow          -- sub_with_borrow(c[i + n], borrow_word, borrow)
    match win ++ (d % 2 ^ W) :: c.drop (n + 1) with
    | [] => ([], 1 - d / 2 ^ W)
    | w0 :: rest =>
      let (r, borrow') := subMulChunk W a rest bs (1 - d / 2 ^ W)
      (w0 :: r, borrow')

/-- `simple::add_signed_mul_chunk`: c += sign·a·b; returns the signed carry (`0/1` or `0/−1`) -/
def addSignedMulChunk (W : Nat) (c : List Nat) (neg : Bool) (a b : List Nat) : List Nat × Int :=
  if neg then
    let (r, borrow) := subMulChunk W a c b 0
    (r, -(borrow : Int))
  else
    let (r, carry) := addMulChunk W a c b 0
    (r, (carry : Int))

-- ---------------------------------------------------------------- signed in-place helpers (add.rs)

/-- `add_signed_word_in_place`: words += rhs for a signed word `rhs`; returns the signed overflow -/
def addSignedWord (W : Nat) (ws : List Nat) (rhs : Int) : List Nat × Int :=
  if rhs = 0 ∨ ws = [] then (ws, rhs)
  else if 0 < rhs then
    let (r, c) := addWord W ws rhs.toNat
    (r, (c : Int))
  else
    let (r, c) := subWord W ws (-rhs).toNat
    (r, -(c : Int))

/-- `add_signed_same_len_in_place`: words += sign·rhs, same length -/
def addSignedSameLen (W : Nat) (ws : List Nat) (neg : Bool) (rhs : List Nat) : List Nat × Int :=
  if neg then
    let (r, c) := subSameLen W ws rhs 0
    (r, -(c : Int))
  else
    let (r, c) := addSameLen W ws rhs 0
    (r, (c : Int))

/-- `add_signed_in_place`: words += sign·rhs, `words.len() ≥ rhs.len()` -/
def addSignedInPlace (W : Nat) (ws : List Nat) (neg : Bool) (rhs : List Nat) : List Nat × Int :=
  if neg then
    let (r, c) := subInPlace W ws rhs
    (r, -(c : Int))
  else
    let (r, c) := addInPlace W ws rhs
    (r, (c : Int))

/-- the slice `c[i..j]` -/
def window (c : List Nat) (i j : Nat) : List Nat := (c.take j).drop i

/-- `c` with the slice starting at `i` replaced by `win` (same length) -/
def setWindow (c : List Nat) (i : Nat) (win : List Nat) : List Nat :=
  c.take i ++ win ++ c.drop (i + win.length)

/-- exactly `len` little-endian words of `n` (i.e. of `n mod B^len`) -/
def wordsOfLen (W : Nat) : Nat → Nat → List Nat
  | 0, _ => []
  | len + 1, n => n % 2 ^ W :: wordsOfLen W len (n / 2 ^ W)

/-- the type of every "c += sign·a·b, returns the signed carry" kernel -/
abbrev MulKernel := List Nat → Bool → List Nat → List Nat → List Nat × Int

/-- the specification of every signed-multiply kernel as an executable function (c += sign·a·b modulo
    `B^|c|`, the quotient is the carry); was the frontier stand-in for `toom_3::add_signed_mul_same_len`
    until that kernel was mirrored, kept for tests and statements -/
def addSignedMulFrontier (W : Nat) : MulKernel := fun c neg a b =>
  let t : Int := (val W c : Int) + (if neg then -1 else 1) * ((val W a * val W b : Nat) : Int)
  let m : Int := ((2 ^ (W * c.length) : Nat) : Int)
  (wordsOfLen W c.length (t % m).toNat, t / m)

-- ---------------------------------------------------------------- Karatsuba (mul/karatsuba.rs)

/-- `karatsuba::add_signed_mul_same_len` with the recursive callee `mul::add_signed_mul_same_len`
    passed as `rec`.  `n = a.len() = b.len()`, `c.len() = 2n`, `mid = (n+1)/2`.
      c_lo = a_lo·b_lo           → added (signed) at c[..2mid] and c[mid..3mid]
      c_hi = a_hi·b_hi           → added at c[2mid..] and (shorter, `add_signed_in_place`) at c[mid..3mid]
      (a_lo − a_hi)(b_lo − b_hi) → added with sign `−sign·diff_sign` at c[mid..3mid]
    carries: `carry_c0` leaves c[..2mid] (position 2mid), `carry_c1` leaves c[mid..3mid] (position
    3mid), `carry` leaves c. -/
def karatsubaSameLen (W : Nat) (rec : MulKernel) : MulKernel := fun c neg a b =>
  let n := a.length
  let mid := (n + 1) / 2
  let aLo := a.take mid
  let aHi := a.drop mid
  let bLo := b.take mid
  let bHi := b.drop mid
  -- c_lo = a_lo * b_lo  (scratch filled with zeros; the carry is asserted to be zero)
  let cLo := (rec (List.replicate (2 * mid) 0) false aLo bLo).1
  let (w0, k0) := addSignedSameLen W (window c 0 (2 * mid)) neg cLo
  let c := setWindow c 0 w0
  let carryC0 : Int := k0
  let (w1, k1) := addSignedSameLen W (window c mid (3 * mid)) neg cLo
  let c := setWindow c mid w1
  let carryC1 : Int := k1
  -- c_hi = a_hi * b_hi
  let cHi := (rec (List.replicate (2 * (n - mid)) 0) false aHi bHi).1
  let (w2, k2) := addSignedSameLen W (c.drop (2 * mid)) neg cHi
  let c := setWindow c (2 * mid) w2
  let carry : Int := k2
  let (w3, k3) := addSignedInPlace W (window c mid (3 * mid)) neg cHi
  let c := setWindow c mid w3
  let carryC1 := carryC1 + k3
  -- c_1 -= (a_lo - a_hi) * (b_lo - b_hi)
  let (sa, aDiff) := subInPlaceWithSign W aLo aHi
  let (sb, bDiff) := subInPlaceWithSign W bLo bHi
  let diffNeg := sa != sb                              -- diff_sign is Negative
  let (w4, k4) := rec (window c mid (3 * mid)) (!(neg != diffNeg)) aDiff bDiff   -- -sign * diff_sign
  let c := setWindow c mid w4
  let carryC1 := carryC1 + k4
  -- propagate carries
  let (w5, k5) := addSignedWord W (window c (2 * mid) (3 * mid)) carryC0
  let c := setWindow c (2 * mid) w5
  let carryC1 := carryC1 + k5
  let (w6, k6) := addSignedWord W (c.drop (3 * mid)) carryC1
  let c := setWindow c (3 * mid) w6
  (c, carry + k6)

-- ---------------------------------------------------------------- Toom-3 (mul/toom_3.rs)

/-- `a0 + 2·a1 + 4·a2` in `n3 + 1` words (Toom-3 evaluation at 2):
    `a_eval[n3] = add_mul_word_same_len_in_place(&mut a_eval[..n3], 2, a1);`
    `a_eval[n3] += add_mul_word_in_place(&mut a_eval[..n3], 4, a2);` -/
def toomEval2 (W : Nat) (a0 a1 a2 : List Nat) : List Nat :=
  let (e1, k1) := addMulWordSameLen W a0 2 a1
  let (e2, k2) := addMulWordInPlace W e1 4 a2
  e2 ++ [k1 + k2]

/-- `a02 = a0 + a2` in `n3 + 1` words: `a02[n3] = Word::from(add_in_place(&mut a02[..n3], a2))` -/
def toomEval02 (W : Nat) (a0 a2 : List Nat) : List Nat :=
  let (s, k) := addInPlace W a0 a2
  s ++ [k]

/-- `a_eval = a02; a_eval[n3] += Word::from(add_same_len_in_place(&mut a_eval[..n3], a1))` -/
def toomEval1 (W : Nat) (a02 a1 : List Nat) : List Nat :=
  let n3 := a1.length
  let (s, k) := addSameLen W (a02.take n3) a1 0
  s ++ [a02.getD n3 0 + k]

/-- the scratch buffers of `toom_3::add_signed_mul_same_len` that are added into `c`:
    `v0 = V(0)`, `vinf = V(∞)`, `t2a = V(1)`, and the interpolated `t1 = (3V(0)+2V(−1)+V(2))/6 − 2V(∞)`,
    `t2 = (V(1)+V(−1))/2` -/
structure ToomScratch where
  v0 : List Nat
  vinf : List Nat
  t2a : List Nat
  t1 : List Nat
  t2 : List Nat

/-- the scratch-buffer computations of `toom_3::add_signed_mul_same_len`, in source order (they never
    read `c`).  `rec` is `mul::add_signed_mul_same_len` (always called with `Positive` on a buffer whose
    carry-out is asserted zero), up to (not including) the final `t1 /= 6`, `t2 /= 2`. -/
def toomScratchPre (W : Nat) (rec : MulKernel) (a b : List Nat) : ToomScratch :=
  let n := a.length
  let n3 := (n + 2) / 3
  let n3s := n - 2 * n3
  let a0 := a.take n3
  let a1 := (a.drop n3).take n3
  let a2 := a.drop (2 * n3)
  let b0 := b.take n3
  let b1 := (b.drop n3).take n3
  let b2 := b.drop (2 * n3)
  -- V(0) = a0·b0;  t1 = 3·V(0)
  let v0 := (rec (List.replicate (2 * n3) 0) false a0 b0).1
  let t1m := mulWordInPlace W v0 3 0
  let t1 := t1m.1 ++ [t1m.2, 0]
  -- V(2) = (a0+2a1+4a2)(b0+2b1+4b2);  t1 += V(2)
  let t1 := (rec t1 false (toomEval2 W a0 a1 a2) (toomEval2 W b0 b1 b2)).1
  -- V(inf) = a2·b2;  t1 -= 12·V(inf)   ("3V(0) + V(2) - 12V(inf) is never negative")
  let vinf := (rec (List.replicate (2 * n3s) 0) false a2 b2).1
  let cm := mulWordInPlace W vinf 12 0
  let t1 := (subInPlace W t1 (cm.1 ++ [cm.2])).1
  -- V(1) = (a0+a1+a2)(b0+b1+b2);  t2 = V(1)
  let a02 := toomEval02 W a0 a2
  let b02 := toomEval02 W b0 b2
  let t2a := (rec (List.replicate (2 * n3 + 2) 0) false (toomEval1 W a02 a1) (toomEval1 W b02 b1)).1
  -- V(-1) = (a02-a1)(b02-b1);  t2 += V(-1);  t1 += 2·V(-1)
  let am := subInPlaceWithSign W a02 a1
  let bm := subInPlaceWithSign W b02 b1
  let vneg := am.1 != bm.1
  let cEval := (rec (List.replicate (2 * (n3 + 1)) 0) false am.2 bm.2).1
  let t2 := (addSignedSameLen W t2a vneg cEval).1
  let t1 := if vneg then (subMulWordSameLen W t1 2 cEval).1 else (addMulWordSameLen W t1 2 cEval).1
  ⟨v0, vinf, t2a, t1, t2⟩

/-- `toomScratchPre` followed by the two exact divisions `t1 /= 6` (`div_by_word_in_place(t1, 6)`) and
    `t2 /= 2` (`shr_in_place(t2, 1)`).  The quotients are written as the `2·n3 + 2` words of `val / 6` and
    `val / 2`; `Proofs/Int/MulCompose.lean` proves that these are exactly the outputs of the mirrored
    kernels `Div.divByWordInPlace` / `Div.shrInPlace` (which live downstream of this file because
    division calls multiplication) and that both remainders are zero (`assert_eq!(t1_rem, 0)`,
    `assert_eq!(t2_rem, 0)`). -/
def toomScratch (W : Nat) (rec : MulKernel) (a b : List Nat) : ToomScratch :=
  let p := toomScratchPre W rec a b
  let n3 := (a.length + 2) / 3
  ⟨p.v0, p.vinf, p.t2a, wordsOfLen W (2 * n3 + 2) (val W p.t1 / 6),
    wordsOfLen W (2 * n3 + 2) (val W p.t2 / 2)⟩

/-- the updates of `c` in `toom_3::add_signed_mul_same_len`, in source order; carries `carry_c0..c3`
    leave the windows at `2n3`, `3n3+2`, `4n3+2`, `5n3+2` and are applied at the end -/
def toomApply (W n3 : Nat) (c : List Nat) (neg : Bool) (v0 vinf t2a t1 t2 : List Nat) : List Nat × Int :=
  -- c_0 += V(0);  c_2 -= V(0)
  let (w, k) := addSignedSameLen W (window c 0 (2 * n3)) neg v0
  let c := setWindow c 0 w
  let carryC0 : Int := k
  let (w, k) := addSignedInPlace W (window c (2 * n3) (4 * n3 + 2)) (!neg) v0
  let c := setWindow c (2 * n3) w
  let carryC2 : Int := k
  -- c_2 -= V(inf);  c_4 += V(inf)
  let (w, k) := addSignedInPlace W (window c (2 * n3) (4 * n3 + 2)) (!neg) vinf
  let c := setWindow c (2 * n3) w
  let carryC2 := carryC2 + k
  let (w, k) := addSignedSameLen W (c.drop (4 * n3)) neg vinf
  let c := setWindow c (4 * n3) w
  let carry : Int := k
  -- c_1 += V(1)
  let (w, k) := addSignedInPlace W (window c n3 (3 * n3 + 2)) neg t2a
  let c := setWindow c n3 w
  let carryC1 : Int := k
  -- c_1 -= t1;  c_3 += t1;  c_2 += t2;  c_3 -= t2
  let (w, k) := addSignedSameLen W (window c n3 (3 * n3 + 2)) (!neg) t1
  let c := setWindow c n3 w
  let carryC1 := carryC1 + k
  let (w, k) := addSignedSameLen W (window c (3 * n3) (5 * n3 + 2)) neg t1
  let c := setWindow c (3 * n3) w
  let carryC3 : Int := k
  let (w, k) := addSignedSameLen W (window c (2 * n3) (4 * n3 + 2)) neg t2
  let c := setWindow c (2 * n3) w
  let carryC2 := carryC2 + k
  let (w, k) := addSignedSameLen W (window c (3 * n3) (5 * n3 + 2)) (!neg) t2
  let c := setWindow c (3 * n3) w
  let carryC3 := carryC3 + k
  -- apply carries
  let (w, k) := addSignedWord W (window c (2 * n3) (3 * n3 + 2)) carryC0
  let c := setWindow c (2 * n3) w
  let carryC1 := carryC1 + k
  let (w, k) := addSignedWord W (window c (3 * n3 + 2) (4 * n3 + 2)) carryC1
  let c := setWindow c (3 * n3 + 2) w
  let carryC2 := carryC2 + k
  let (w, k) := addSignedWord W (window c (4 * n3 + 2) (5 * n3 + 2)) carryC2
  let c := setWindow c (4 * n3 + 2) w
  let carryC3 := carryC3 + k
  let (w, k) := addSignedWord W (c.drop (5 * n3 + 2)) carryC3
  let c := setWindow c (5 * n3 + 2) w
  (c, carry + k)

/-- `toom_3::add_signed_mul_same_len` with the recursive callee passed as `rec` -/
def toom3SameLen (W : Nat) (rec : MulKernel) : MulKernel := fun c neg a b =>
  let s := toomScratch W rec a b
  toomApply W ((a.length + 2) / 3) c neg s.v0 s.vinf s.t2a s.t1 s.t2

/-- `mul::add_signed_mul_same_len`: dispatch on `n` (thresholds regenerated from source);
    `fuel` bounds the recursion depth (`a.length` always suffices; at 0 the exact schoolbook kernel is
    used, which has the same contract) -/
def addSignedMulSameLen (W : Nat) : Nat → MulKernel
  | 0 => fun c neg a b => addSignedMulChunk W c neg a b
  | fuel + 1 => fun c neg a b =>
    if a.length ≤ Dashu.Gen.mul_THRESHOLD_SIMPLE then addSignedMulChunk W c neg a b
    else if a.length ≤ Dashu.Gen.mul_THRESHOLD_KARATSUBA then
      karatsubaSameLen W (addSignedMulSameLen W fuel) c neg a b
    else toom3SameLen W (addSignedMulSameLen W fuel) c neg a b

-- ---------------------------------------------------------------- helpers::add_signed_mul_split_into_chunks

/-- the part of `add_signed_mul_split_into_chunks` after the loop: propagate `carry_n` into `c[n..]`,
    then one more `mul::add_signed_mul` (`tail`) on the remaining `a` (operands ordered by length) -/
def splitFinish (W : Nat) (tail : MulKernel) (c : List Nat) (neg : Bool) (a b : List Nat)
    (carryN : Int) : List Nat × Int :=
  let n := b.length
  let (w, carry0) := addSignedWord W (c.drop n) carryN
  let c := c.take n ++ w
  if a.length ≥ b.length then
    let (r, k) := tail c neg a b
    (r, carry0 + k)
  else if a ≠ [] then
    let (r, k) := tail c neg b a
    (r, carry0 + k)
  else (c, carry0)

/-- the `while a.len() >= chunk_len` loop of `add_signed_mul_split_into_chunks`; `c`, `a` are the
    not yet processed suffixes, `carryN` the pending signed carry at `c[n]` (`n = b.len()`) -/
def splitLoop (W chunkLen : Nat) (f tail : MulKernel) : Nat → List Nat → Bool → List Nat →
    List Nat → Int → List Nat × Int
  | 0, c, neg, a, b, carryN => splitFinish W tail c neg a b carryN
  | k + 1, c, neg, a, b, carryN =>
    if a.length ≥ chunkLen then
      let n := b.length
      -- carry_n = add_signed_word_in_place(&mut c[n..chunk_len + n], carry_n)
      let (w1, k1) := addSignedWord W (window c n (chunkLen + n)) carryN
      let c := setWindow c n w1
      -- carry_n += f(&mut c[..chunk_len + n], sign, a_lo, b)
      let (w2, k2) := f (c.take (chunkLen + n)) neg (a.take chunkLen) b
      let c := setWindow c 0 w2
      -- a = a_hi; c = &mut c[chunk_len..]
      let (r, carry) := splitLoop W chunkLen f tail k (c.drop chunkLen) neg (a.drop chunkLen) b (k1 + k2)
      (c.take chunkLen ++ r, carry)
    else splitFinish W tail c neg a b carryN

/-- `mul::add_signed_mul(c, sign, a, b)`: order the operands, dispatch on the shorter length:
    `simple::add_signed_mul` (one chunk, or chunks of `CHUNK_LEN` with `add_signed_mul_chunk`),
    `karatsuba::add_signed_mul` / `toom_3::add_signed_mul` (chunks of `b.len()` with the same-length
    kernel).  `fuel` bounds the recursion through the remainder call. -/
def addSignedMul (W : Nat) : Nat → MulKernel
  | 0 => fun c neg a b =>
    if a.length < b.length then addSignedMulChunk W c neg b a else addSignedMulChunk W c neg a b
  | fuel + 1 => fun c neg a0 b0 =>
    let a := if a0.length < b0.length then b0 else a0
    let b := if a0.length < b0.length then a0 else b0
    if b.length ≤ Dashu.Gen.mul_THRESHOLD_SIMPLE then
      if a.length ≤ Dashu.Gen.mul_simple_CHUNK_LEN then addSignedMulChunk W c neg a b
      else splitLoop W Dashu.Gen.mul_simple_CHUNK_LEN (addSignedMulChunk W) (addSignedMul W fuel)
        a.length c neg a b 0
    else if b.length ≤ Dashu.Gen.mul_THRESHOLD_KARATSUBA then
      splitLoop W b.length (karatsubaSameLen W (addSignedMulSameLen W b.length)) (addSignedMul W fuel)
        a.length c neg a b 0
    else
      splitLoop W b.length (toom3SameLen W (addSignedMulSameLen W b.length)) (addSignedMul W fuel)
        a.length c neg a b 0

-- ---------------------------------------------------------------- squaring (sqr/simple.rs, sqr/mod.rs)

/-- `MAX_LEN_SIMPLE` in integer/src/sqr/mod.rs (regenerated from source on every run) -/
def sqrMaxLenSimple : Nat := Dashu.Gen.sqr_MAX_LEN_SIMPLE

/-- first loop of `sqr::simple::square` (triangular part).  `s` is the suffix `b[2i..]` of the output,
    `m :: aRest = a[i..]`, `c0` the pending carry bit for `s[a_cur.len()]`.  In suffix coordinates
    `offset = 1`: `carry = add_mul_word_same_len_in_place(&mut b[offset..offset + l], m, a_cur)`, then
    `b[offset + l] += carry + c0` (`add_with_carry`), and the next row starts two words further. -/
def sqrTriLoop (W : Nat) : List Nat → List Nat → Nat → List Nat × Nat
  | s, [], c0 => (s, c0)
  | s, m :: aRest, c0 =>
    let l := aRest.length
    let (win, cw) := addMulWordSameLen W (window s 1 (1 + l)) m aRest
    let s := setWindow s 1 win
    let t := s.getD (1 + l) 0 + cw + c0
    let s := setWindow s (1 + l) [t % 2 ^ W]
    let (r, c0') := sqrTriLoop W (s.drop 2) aRest (t / 2 ^ W)
    (s.take 2 ++ r, c0')

/-- second loop of `sqr::simple::square` (diagonal part, fused with the doubling):
    `new [b0, b1] = m² + 2·[b0, b1] + c1 + c2` with the two overflow bits of the two
    `overflowing_add`s carried to the next pair -/
def sqrDiagLoop (W : Nat) : List Nat → List Nat → Nat → Nat → List Nat × (Nat × Nat)
  | b0 :: b1 :: rest, m :: as, c1, c2 =>
    let s := m * m + b0 + b0                       -- mul_add_2carry(m, m, b0, b0)
    let wb1 := b1 * 2 ^ W                           -- double_word(0, b1)
    let s1 := s + (wb1 + c1)
    let s2 := s1 % 2 ^ (2 * W) + (wb1 + c2)
    let o := s2 % 2 ^ (2 * W)
    let (r, cc) := sqrDiagLoop W rest as (s1 / 2 ^ (2 * W)) (s2 / 2 ^ (2 * W))
    (o % 2 ^ W :: o / 2 ^ W :: r, cc)
  | bs, _, c1, c2 => (bs, (c1, c2))

/-- `sqr::simple::square(b, a)` on a zero-filled `b` of `2·a.len()` words -/
def sqrSimple (W : Nat) (a : List Nat) : List Nat :=
  let b := List.replicate (2 * a.length) 0
  let (b, c0) := sqrTriLoop W b a 0
  let (b, cc) := sqrDiagLoop W b a 0 0
  -- *b.last_mut().unwrap() += c0 + c1 + c2
  b.dropLast ++ [b.getLastD 0 + c0 + cc.1 + cc.2]

/-- `sqr::sqr(b, a)` on a zero-filled `b`: `simple::square` up to `MAX_LEN_SIMPLE` words, otherwise
    `mul::add_signed_mul_same_len(b, Positive, a, a)` (carry asserted zero) -/
def sqrBuffer (W : Nat) (a : List Nat) : List Nat :=
  if a.length ≤ sqrMaxLenSimple then sqrSimple W a
  else (addSignedMulSameLen W a.length (List.replicate (2 * a.length) 0) false a a).1

end Dashu.Model
