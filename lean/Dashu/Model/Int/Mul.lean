import Dashu.Model.Int.Word
/-
  Schoolbook multiplication kernels: mirrors `integer/src/mul/mod.rs`
  (`add_mul_word_same_len_in_place`, `add_mul_word_in_place`, `sub_mul_word_same_len_in_place`) and
  `integer/src/mul/simple.rs` (`add_mul_chunk`, `sub_mul_chunk`, `add_signed_mul_chunk`,
  `add_signed_mul`, `add_signed_mul_same_len`).  Slices are `List Nat`, in-place updates return the
  new list, carries are numbers.  Core Lean only.
-/
namespace Dashu.Model

/-- loop of `add_mul_word_same_len_in_place`: `(v_lo, v_hi) = mul_add_2carry(mult, b, a, carry)` -/
def addMulWordLoop (W : Nat) : List Nat → Nat → List Nat → Nat → List Nat × Nat
  | a :: as, mult, b :: bs, c =>
    let v := mult * b + a + c
    let (r, c') := addMulWordLoop W as mult bs (v / 2 ^ W)
    (v % 2 ^ W :: r, c')
  | as, _, _, c => (as, c)

/-- `add_mul_word_same_len_in_place`: words += mult * rhs, returns the carry word
    (`mult == 0` returns 0 without touching the words) -/
def addMulWordSameLen (W : Nat) (words : List Nat) (mult : Nat) (rhs : List Nat) : List Nat × Nat :=
  if mult = 0 then (words, 0) else addMulWordLoop W words mult rhs 0

/-- `add_mul_word_in_place`: words += mult * rhs with `words.len() ≥ rhs.len()`; the carry of the
    low part is propagated into the high part by `add_word_in_place` -/
def addMulWordInPlace (W : Nat) (words : List Nat) (mult : Nat) (rhs : List Nat) : List Nat × Nat :=
  if mult = 0 then (words, 0)
  else
    let n := rhs.length
    let (lo, carry) := addMulWordSameLen W (words.take n) mult rhs
    if words.length > n then
      let (hi, c) := addWord W (words.drop n) carry
      (lo ++ hi, c)
    else (lo, carry)

/-- loop of `sub_mul_word_same_len_in_place`; the state is `carry_plus_max = carry + Word::MAX`
    with `carry ∈ −Word::MAX..=0`.
    `v = a + carry_plus_max + (double_word(0, MAX) − MAX) − mult·b` (never negative, fits a double
    word — both proved) -/
def subMulWordLoop (W : Nat) : List Nat → Nat → List Nat → Nat → List Nat × Nat
  | a :: as, mult, b :: bs, cpm =>
    let v := a + cpm + ((2 ^ W - 1) * 2 ^ W - (2 ^ W - 1)) - mult * b
    let (r, cpm') := subMulWordLoop W as mult bs (v / 2 ^ W)
    (v % 2 ^ W :: r, cpm')
  | as, _, _, cpm => (as, cpm)

/-- `sub_mul_word_same_len_in_place`: words -= mult * rhs, returns the borrow word -/
def subMulWordSameLen (W : Nat) (words : List Nat) (mult : Nat) (rhs : List Nat) : List Nat × Nat :=
  if mult = 0 then (words, 0)
  else
    let (r, cpm) := subMulWordLoop W words mult rhs (2 ^ W - 1)
    (r, 2 ^ W - 1 - cpm)

/-- `add_mul_chunk(c, a, b)`: c += a·b; `c` here is the suffix `c[i..]` still being updated, `bs` the
    multiplier words not yet used, `carry` the pending carry bit for `c[i + a.len()]`.
    Iteration `i`: `carry_word = add_mul_word_same_len_in_place(c[i..i+a.len()], b[i], a)`, then
    `c[i + a.len()] += carry_word + carry` with the new carry bit out. -/
def addMulChunk (W : Nat) (a : List Nat) : List Nat → List Nat → Nat → List Nat × Nat
  | c, [], carry => (c, carry)
  | c, m :: bs, carry =>
    let n := a.length
    let (win, cw) := addMulWordSameLen W (c.take n) m a
    let s := c.getD n 0 + cw + carry                 -- add_with_carry(c[i + n], carry_word, carry)
    match win ++ (s % 2 ^ W) :: c.drop (n + 1) with
    | [] => ([], s / 2 ^ W)
    | w0 :: rest =>
      let (r, carry') := addMulChunk W a rest bs (s / 2 ^ W)
      (w0 :: r, carry')

/-- `sub_mul_chunk(c, a, b)`: c -= a·b, returns the borrow bit -/
def subMulChunk (W : Nat) (a : List Nat) : List Nat → List Nat → Nat → List Nat × Nat
  | c, [], borrow => (c, borrow)
  | c, m :: bs, borrow =>
    let n := a.length
    let (win, bw) := subMulWordSameLen W (c.take n) m a
    let d := c.getD n 0 + 2 ^ W - bw - borrow          -- sub_with_borrow(c[i + n], borrow_word, borrow)
    match win ++ (d % 2 ^ W) :: c.drop (n + 1) with
    | [] => ([], 1 - d / 2 ^ W)
    | w0 :: rest =>
      let (r, borrow') := subMulChunk W a rest bs (1 - d / 2 ^ W)
      (w0 :: r, borrow')

/-- `simple::add_signed_mul_chunk`: c += sign·a·b; returns the signed carry (`0/1` or `0/−1`) -/
def addSignedMulChunk (W : Nat) (c : List Nat) (neg : Bool) (a b : List Nat) : List Nat × Int :=
  if neg then
    let (r, borrow) := subMulChunk W a c b 0
    (r, -(borrow : Int))
  else
    let (r, carry) := addMulChunk W a c b 0
    (r, (carry : Int))

end Dashu.Model
