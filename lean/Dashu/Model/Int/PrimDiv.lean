import Dashu.Model.Int.Repr
/-
  Primitive division kernels of `base/src/ring/div_rem.rs` (`impl_div_rem_ops_prim!` for
  `u8 … u128, usize, i8 … i128, isize`): `DivRem`, `DivRemAssign`, `DivEuclid`, `RemEuclid`,
  `DivRemEuclid`.  A machine integer type is (`bits`, `signed`); values are `Int`s in its range.
  Rust's `/` and `%` panic on a zero divisor and on `MIN / −1` (in every build profile); the
  `q − 1`, `q + 1`, `r + rhs`, `r − rhs` of `div_rem_euclid` are overflow-checked in debug builds —
  every such check is an error branch here (the theorems show they never fire).  Core Lean only.
-/
namespace Dashu.Model.PrimDiv
open Dashu.Model

structure PTy where
  bits : Nat
  signed : Bool
  deriving Repr, DecidableEq

/-- smallest value -/
def PTy.lo (t : PTy) : Int := if t.signed then -(2 ^ (t.bits - 1) : Nat) else 0
/-- one past the largest value -/
def PTy.hi (t : PTy) : Int := if t.signed then (2 ^ (t.bits - 1) : Nat) else (2 ^ t.bits : Nat)

def PTy.InRange (t : PTy) (x : Int) : Prop := t.lo ≤ x ∧ x < t.hi

instance (t : PTy) (x : Int) : Decidable (t.InRange x) := by unfold PTy.InRange; infer_instance

/-- "attempt to divide by zero" / "attempt to calculate the remainder with a divisor of zero" -/
def divZero : PanicKind := .undocumented "PrimDivideByZero"
/-- "attempt to divide with overflow" / "… remainder with overflow" / add-sub overflow -/
def overflow : PanicKind := .undocumented "PrimOverflow"

/-- Rust `a / b` on a primitive integer type -/
def pdiv (t : PTy) (a b : Int) : Except PanicKind Int :=
  if b = 0 then .error divZero
  else if t.signed ∧ a = t.lo ∧ b = -1 then .error overflow
  else .ok (Int.tdiv a b)

/-- Rust `a % b` on a primitive integer type -/
def prem (t : PTy) (a b : Int) : Except PanicKind Int :=
  if b = 0 then .error divZero
  else if t.signed ∧ a = t.lo ∧ b = -1 then .error overflow
  else .ok (Int.tmod a b)

/-- overflow-checked result of `+` / `−` -/
def chk (t : PTy) (x : Int) : Except PanicKind Int :=
  if t.lo ≤ x ∧ x < t.hi then .ok x else .error overflow

/-- `DivRem::div_rem`: `(self / rhs, self % rhs)` -/
def divRem (t : PTy) (a b : Int) : Except PanicKind (Int × Int) := do
  let q ← pdiv t a b
  let r ← prem t a b
  pure (q, r)

/-- `DivRemAssign::div_rem_assign`: `let r = *self % rhs; *self /= rhs; r` → (new self, r) -/
def divRemAssign (t : PTy) (a b : Int) : Except PanicKind (Int × Int) := do
  let r ← prem t a b
  let q ← pdiv t a b
  pure (q, r)

/-- CONTRACT of std `<T>::div_euclid` (what `DivEuclid::div_euclid` forwards to) -/
def divEuclid (t : PTy) (a b : Int) : Except PanicKind Int :=
  if b = 0 then .error divZero
  else if t.signed ∧ a = t.lo ∧ b = -1 then .error overflow
  else .ok (a / b)

/-- CONTRACT of std `<T>::rem_euclid` (it computes `self % rhs` first, so `MIN, −1` overflows) -/
def remEuclid (t : PTy) (a b : Int) : Except PanicKind Int :=
  if b = 0 then .error divZero
  else if t.signed ∧ a = t.lo ∧ b = -1 then .error overflow
  else .ok (a % b)

/-- `DivRemEuclid::div_rem_euclid`: truncating `(q, r)`, then the sign fix-up -/
def divRemEuclid (t : PTy) (a b : Int) : Except PanicKind (Int × Int) := do
  let q ← pdiv t a b
  let r ← prem t a b
  if r ≥ 0 then pure (q, r)
  else if b ≥ 0 then do
    let q' ← chk t (q - 1)
    let r' ← chk t (r + b)
    pure (q', r')
  else do
    let q' ← chk t (q + 1)
    let r' ← chk t (r - b)
    pure (q', r')

end Dashu.Model.PrimDiv
