import Dashu.Model.Float.Repr
import Dashu.Model.Trans.PowiNeg
/-
  C05, floats: "whichever constructor or operation produced the values".

  A float *history* is a finite program over a register file of `(Repr, precision)` pairs (an `FBig` = its
  representation + the precision of its context).  Every instruction is one of the producers of dashu-float in the
  executable model proved about by C03 / C11 (`Dashu/Model/Float/Repr.lean`, `Dashu/Model/Trans/Powi*.lean`):
  constructors (`from_parts`, `Context::convert_int`), `with_precision`, `neg`, `clone`, the `Context` methods
  `add sub mul sqr cubic div inv sqrt powi` at ANY precision `p ≥ 1` (the `FBig` operators are the same functions at
  `Context::max` of the operands — any `p` covers them), and the operator product `opMul`.  `frun` stops at the first
  panic (division by zero, root of a negative number) or bad register index.

  `Props/C05.float_history`: every register is normalised, finite, and has at most `precision + 1` digits, hence
  (`float_history_cmp`) `cmp` of ANY two registers is the order of their values and is `Equal` exactly when `==`.
-/
namespace Dashu.Model
open Dashu.Model.Float Dashu.Model.Trans

/-- a float value as the library holds it: representation and the precision of its context -/
structure FReg where
  r : Float.FRepr
  p : Nat

inductive FOp where
  /-- `FBig::from_parts(s, e)`: `Repr::new`, precision = `max(digits(s), 1)` -/
  | fromParts (s e : Int)
  /-- `FBig::<R, 2>::try_from(f32 / f64)` (float/src/convert.rs `impl_from_float_for_fbig!`; finite input decoded to
      `(man, exp)`): representation `Repr::new(man, exp)`, precision `man.unsigned_abs().bit_len()` — the digit count of
      the mantissa in the program's base (bits for `B = 2`); **0 = unlimited for ±0.0**.  Infinite inputs give the
      `INFINITY` constants (not registers of a history: `FFin`), NaN is an error. -/
  | fromFloat (man e : Int)
  /-- `Context::new(p).convert_int(n)` -/
  | convertInt (n : Int) (p : Nat)
  /-- `with_precision(p)` (`repr_round`; by reference `repr_round_ref` is the same function) -/
  | withPrecision (i p : Nat)
  | neg (i : Nat) | clone (i : Nat)
  /-- `Context::new(p).add / sub / mul / sqr / cubic / div / inv / sqrt` on the representations of the registers -/
  | add (i j p : Nat) | sub (i j p : Nat) | mul (i j p : Nat) | sqr (i p : Nat) | cubic (i p : Nat)
  | div (i j p : Nat) | inv (i p : Nat) | sqrt (i p : Nat)
  /-- the operator `&a * &b` at precision `p` (exact product, one rounding, no pre-shrink) -/
  | opMul (i j p : Nat)
  /-- `Context::new(p).powi(x, n)` for `n ≥ 2` given by its binary digits below the top bit, and `powi(x, -n)` -/
  | powi (i : Nat) (bs : List Bool) (p : Nat) | powiNeg (i n p : Nat)

/-- the precision an instruction runs at is limited (`≥ 1`; unlimited precision is not part of the comparison's
    precision shortcut at all) -/
def FOp.Ok : FOp → Prop
  | .fromParts _ _ | .fromFloat _ _ | .neg _ | .clone _ => True
  | .convertInt _ p | .withPrecision _ p | .add _ _ p | .sub _ _ p | .mul _ _ p | .sqr _ p | .cubic _ p
  | .div _ _ p | .inv _ p | .sqrt _ p | .opMul _ _ p | .powi _ _ p | .powiNeg _ _ p => 1 ≤ p

/-- the machine parameters of a float history: base, rounding mode, coarse rounding test, the digit estimators of
    `Context::div` / far-apart addition, the integer square-root kernel -/
structure FCfg where
  B : Nat
  m : Mode
  c : Coarse
  dub : Int → Nat
  dlb : Int → Nat
  sr : Nat → Nat × Nat

def ofExc (p : Nat) : Except FPanic (Rounded Float.FRepr) → Option FReg
  | .ok r => some ⟨r.1, p⟩
  | .error _ => none

def fstep (k : FCfg) (env : List FReg) : FOp → Option FReg
  | .fromParts s e => some ⟨Float.FRepr.new k.B s e, max (digitsI k.B s) 1⟩
  | .fromFloat man e => some ⟨Float.FRepr.new k.B man e, digitsI k.B man⟩
  | .convertInt n p => some ⟨(reprRound k.B k.m k.c p (Float.FRepr.new k.B n 0)).1, p⟩
  | .withPrecision i p => (env[i]?).map fun a => ⟨(reprRound k.B k.m k.c p a.r).1, p⟩
  | .neg i => (env[i]?).map fun a => ⟨a.r.neg, a.p⟩
  | .clone i => env[i]?
  | .add i j p => match env[i]?, env[j]? with
    | some a, some b => some ⟨(ctxAddSub k.B k.m k.c k.dub p a.r b.r 1).1, p⟩ | _, _ => none
  | .sub i j p => match env[i]?, env[j]? with
    | some a, some b => some ⟨(ctxAddSub k.B k.m k.c k.dub p a.r b.r (-1)).1, p⟩ | _, _ => none
  | .mul i j p => match env[i]?, env[j]? with
    | some a, some b => some ⟨(ctxMul false k.B k.m k.c p a.r b.r).1, p⟩ | _, _ => none
  | .opMul i j p => match env[i]?, env[j]? with
    | some a, some b => some ⟨(Float.opMul k.B k.m k.c p a.r b.r).1, p⟩ | _, _ => none
  | .sqr i p => (env[i]?).map fun a => ⟨(ctxSqr false k.B k.m k.c p a.r).1, p⟩
  | .cubic i p => (env[i]?).map fun a => ⟨(ctxCubic false k.B k.m k.c p a.r).1, p⟩
  | .div i j p => match env[i]?, env[j]? with
    | some a, some b => ofExc p (ctxDiv k.B k.m k.c k.dub k.dlb p a.r b.r) | _, _ => none
  | .inv i p => match env[i]? with
    | some a => ofExc p (ctxInv k.B k.m p a.r) | none => none
  | .sqrt i p => match env[i]? with
    | some a => ofExc p (ctxSqrt k.B k.m k.c k.sr p a.r) | none => none
  | .powi i bs p => (env[i]?).map fun a => ⟨(powiNonneg false k.B k.m k.c p a.r bs).2.1, p⟩
  | .powiNeg i n p => match env[i]? with
    | some a => (match powiNeg false k.B k.m k.c p a.r n with
      | .ok r => some ⟨r.2.2.1, p⟩ | .error _ => none)
    | none => none

/-- run a float history: results are appended to the register file; stop at the first panic / bad index -/
def frun (k : FCfg) : List FOp → List FReg → List FReg
  | [], env => env
  | op :: ops, env =>
    match fstep k env op with
    | some r => frun k ops (env ++ [r])
    | none => env

end Dashu.Model
