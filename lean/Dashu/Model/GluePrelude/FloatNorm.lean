import Dashu.Model.GluePrelude.Ext
import Dashu.Model.NT.Log
/-
  C05 (round 5, Tie A): vocabulary of the regenerated `Repr::<B>::normalize` (float/src/repr.rs), file
  `Dashu/Gen/FloatNorm.lean`.  Core Lean only.

  * `NormK.base`                 — the const generic `B` (a `Word`)
  * `trailing_zeros`             — `IBig::trailing_zeros()` : `Option<usize>` (`None` for zero)
  * `unwrap`                     — `Option::unwrap` of such a count.  The `None` arm (a panic in Rust) is
                                   unreachable in `normalize` (the significand is tested non-zero first, `B ≥ 2`):
                                   `Props/GenFloatNorm.normalize_unwraps_are_some` proves every `unwrap` of the
                                   body is applied to `some _`; the default below is never taken.
  * `is_power_of_two`, `word_trailing_zeros` — `Word::is_power_of_two`, `Word::trailing_zeros` on `B`
  * `remove`                     — `UBig::remove(&mut self, &factor)` in state-passing form `(new self, result)`;
                                   it IS C12's mirrored `Model.NT.removeRepr` (integer/src/remove.rs: power-of-two
                                   shortcut, squaring tower up, tower down, last division), whose exactness theorem
                                   `removeRepr_spec` (Props/C12) the C05 link theorem composes with.
-/
namespace Dashu
namespace GluePrelude

/-- the const generic of `Repr<B>` -/
structure NormK where
  base : Int

namespace FloatNorm
open Dashu.Model.NT

/-- `IBig::trailing_zeros()`: `None` for zero, else the number of trailing zero bits of the magnitude -/
def trailing_zeros (x : Int) : Option Int :=
  if x = 0 then none else some (Int.ofNat (trailingZeros x.natAbs))

/-- `Option::<usize>::unwrap` (see the header: the `none` arm is proved unreachable where the body uses it) -/
def unwrap (o : Option Int) : Int :=
  match o with
  | some v => v
  | none => 0

/-- `Word::is_power_of_two` (the same test `removeRepr` uses for its shortcut) -/
def is_power_of_two (b : Int) : Bool :=
  decide (b.natAbs ≠ 0 ∧ b.natAbs = 2 ^ (bitLen b.natAbs - 1))

/-- `Word::trailing_zeros` of a non-zero word -/
def word_trailing_zeros (b : Int) : Int := Int.ofNat (trailingZeros b.natAbs)

/-- `mag.remove(&factor)`: the new value of `mag` and the returned `Option<usize>` -/
def remove (mag factor : Int) : Int × Option Int :=
  match removeRepr mag.natAbs factor.natAbs with
  | none => (mag, none)
  | some (e, q) => (Int.ofNat q, some (Int.ofNat e))

end FloatNorm
end GluePrelude
end Dashu
