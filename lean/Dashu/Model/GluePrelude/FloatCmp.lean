import Dashu.Model.GluePrelude.Ext
/-
  Prelude of the regenerated float comparison (`Gen/FloatCmp.lean`; property C05, re-checked by C14/C16):
  the one constant the typed translator of `vlib/extract.py` needs beyond `GluePrelude.Ext` to read
  `float/src/cmp.rs` since /repo ee43486 (`lhs_prec.min(isize::MAX as usize) as isize`).
  Core Lean only; nothing here is generated.
-/
namespace Dashu
namespace GluePrelude

/-- `isize::MAX` of the 64-bit target the harness is built for -/
def isize_MAX : Int := 2 ^ 63 - 1

end GluePrelude
end Dashu
