/-
  Prelude of `vlib/extract.py` target `MathHelpers` (C09, Tie A): CHECKED arithmetic on unsigned machine
  integers of a given width.  A value of a `bits`-wide type is a `Nat < 2^bits`; every operation returns
  `none` exactly where the Rust operation overflows (`attempt to add/subtract/multiply with overflow`,
  `attempt to shift right/left with overflow`, `attempt to divide by zero`: a panic in debug builds, a
  wrapped — wrong — value in release builds).  The regenerated bodies of `integer/src/math.rs` are
  written over these operations, so a theorem `f … = some v` says: no overflow anywhere in the body for
  these arguments, and the result is `v`.  Core Lean only; nothing here is generated.
-/
namespace Dashu
namespace GluePrelude
namespace MachInt

/-- `a + b` -/
def add (bits a b : Nat) : Option Nat := if a + b < 2 ^ bits then some (a + b) else none
/-- `a - b` -/
def sub (_bits a b : Nat) : Option Nat := if b ≤ a then some (a - b) else none
/-- `a * b` -/
def mul (bits a b : Nat) : Option Nat := if a * b < 2 ^ bits then some (a * b) else none
/-- `a / b` -/
def div (_bits a b : Nat) : Option Nat := if b = 0 then none else some (a / b)
/-- `a % b` -/
def rem (_bits a b : Nat) : Option Nat := if b = 0 then none else some (a % b)
/-- `a >> s` (the shift amount must be smaller than the width) -/
def shr (bits a s : Nat) : Option Nat := if s < bits then some (a / 2 ^ s) else none
/-- `a << s` (the shift amount must be smaller than the width; bits shifted out of the type are lost) -/
def shl (bits a s : Nat) : Option Nat := if s < bits then some (a * 2 ^ s % 2 ^ bits) else none
/-- the bit length of a natural number (0 for 0) -/
def bitLength (a : Nat) : Nat := if a = 0 then 0 else Nat.log2 a + 1
/-- `a.leading_zeros()` of a `bits`-wide integer -/
def leading_zeros (bits a : Nat) : Nat := bits - bitLength a
/-- `a as T` for a `bits`-wide target: truncation (the identity when the value fits) -/
def cast (bits a : Nat) : Nat := a % 2 ^ bits
/-- `!a` on a `bits`-wide integer -/
def not (bits a : Nat) : Nat := 2 ^ bits - 1 - a
/-- `T::MAX` -/
def maxVal (bits : Nat) : Nat := 2 ^ bits - 1
/-- `primitive::split_dword`: (low word, high word) -/
def split_dword (W d : Nat) : Nat × Nat := (d % 2 ^ W, d / 2 ^ W)
/-- `primitive::double_word(lo, hi)` -/
def double_word (W lo hi : Nat) : Nat := lo + 2 ^ W * hi

end MachInt
end GluePrelude
end Dashu
