import Dashu.Model.GluePrelude.Ext
/-
  Prelude of the regenerated float arithmetic (`Gen/FloatMul.lean`, `Gen/FloatDiv.lean`; property C03):
  what the typed translator of `vlib/extract.py` needs beyond `GluePrelude.Ext` to read
  `float/src/mul.rs` and `float/src/div.rs`.  Core Lean only; nothing here is generated.
-/
namespace Dashu
namespace GluePrelude

/-- `usize::MAX` of the 64-bit target the harness is built for (`Context::mul/sqr/cubic` use it as the
    "no limit" operand length of an unlimited-precision context) -/
def usize_MAX : Int := 2 ^ 64 - 1

/-- `IBig::div_rem(&IBig)`: truncating quotient and remainder; a zero divisor panics
    (`panic_divide_by_0`, integer/src/error.rs).  Integer kernel at its specification (C02). -/
def IBig_div_rem (a b : Int) : Except Panic (Int × Int) :=
  if b = 0 then .error .DivideByZero else .ok (Int.tdiv a b, Int.tmod a b)

/-- kernels of the float division on top of `FloatK` -/
structure FloatK2 (E : Type) extends FloatK E where
  /-- `Repr<B>::digits_lb` (an underestimate of the digit count) -/
  digits_lb : FRepr → Int
  /-- `R::round_ratio` of the context's mode -/
  round_ratio : Int → Int → Int → Rounding

end GluePrelude
end Dashu
