import Dashu.Model.GluePrelude.Ext
/-
  Vocabulary of the regenerated SIGN-LEVEL bit functions of `IBig` (`integer/src/bits.rs`: `IBig::trailing_zeros`, `IBig::trailing_ones`,
  `<IBig as BitTest>::bit` / `bit_len`, `Not for IBig` / `&IBig`) — `Dashu/Gen/IntBits.lean`, C09.  Magnitudes and signed values are `Int`
  (conventions of `Model/GluePrelude.lean`).  The magnitude-level methods of `TypedReprRef` the bodies call are the fields of the
  record `BitK` (their own meaning is the subject of the word-level theorems of `Props/C09.lean` and of the regenerated arms in
  `Gen/BitScans`, `Gen/BitsSmall`); `unwrap` is `Option::unwrap`: the theorems assume only `unwrap (some v) = v` — on `None` the real
  code panics, and that this arm is not reached for a canonical negative `IBig` is a theorem about the hand model (`ibigBit`).
  Core Lean only.
-/
namespace Dashu.GluePrelude

/-- the `TypedReprRef` methods used by the sign-level bit functions of `IBig` -/
structure BitK where
  trailing_zeros : Int → Option Int
  trailing_ones : Int → Int
  trailing_ones_neg : Int → Option Int
  bit : Int → Int → Bool
  bit_len : Int → Int
  unwrap : Option Int → Int

-- `add_one`, `sub_one`, `with_sign` are the ones of `Model/GluePrelude.lean` (`with_sign r s = s.apply |r|`)

end Dashu.GluePrelude
