import Dashu.Model.GluePrelude
/-
  Second part of the prelude of `vlib/extract.py` (Tie A, typed translator): the record types of the
  float / rational layers, the panic kinds, the mixed-type operators of the source text and the
  KERNEL RECORDS.  A kernel record lists the functions a regenerated decision body calls but does not
  contain (digit counts, digit shifts, estimates, rounding, gcd, normalisation): the generated
  definitions take the record as a parameter, and the theorems of `Props/Gen*.lean` instantiate it with
  the functions of the hand-written model, so that "generated body ∘ model kernels = model function"
  is checked for all inputs on every run.  Core Lean only; nothing here is generated.
-/
namespace Dashu
namespace GluePrelude

/-- `dashu_float::Repr<B>` : `significand * B^exponent` -/
structure FRepr where
  significand : Int
  exponent : Int
  deriving DecidableEq, Repr, Inhabited

/-- `dashu_ratio::repr::Repr` -/
structure QRepr where
  numerator : Int
  denominator : Int
  deriving DecidableEq, Repr, Inhabited

/-- `dashu_float::Context<R>` (the rounding mode is a type parameter: part of the kernel record) -/
structure FCtx where
  precision : Int
  deriving DecidableEq, Repr, Inhabited

/-- `dashu_float::FBig<R, B>` -/
structure FBig where
  repr : FRepr
  context : FCtx
  deriving DecidableEq, Repr, Inhabited

/-- `dashu_base::Approximation<T, Rounding>` -/
inductive Approx (α : Type) where
  | Exact (v : α)
  | Inexact (v : α) (e : Rounding)
  deriving Repr

def Approx.value {α} : Approx α → α
  | .Exact v => v
  | .Inexact v _ => v

def Approx.map {α β} (f : α → β) : Approx α → Approx β
  | .Exact v => .Exact (f v)
  | .Inexact v e => .Inexact (f v) e

/-- the diverging helpers of `*/src/error.rs` -/
inductive Panic where
  | OperateWithInf | UnlimitedPrecision | PowerNegativeBase | LogNonPositive | RootNegative
  | RootZeroth | DivideByZero | InvalidRadix | NegativeUBig | InvalidLogOperand
  deriving DecidableEq, Repr

/-- what the PROLOGUE of a function does when it does not panic: return early, or go on to the part of the body
    that is not regenerated (`vlib/extract.py`, guard targets) -/
inductive Flow where
  | returns | continues
  deriving DecidableEq, Repr

-- mixed-type operators and casts of the source text
@[inline] def b2i (b : Bool) : Int := if b then 1 else 0
@[inline] def bxor (a b : Bool) : Bool := a != b
/-- `impl Mul<Ordering> for Sign` (base/src/sign.rs) -/
@[inline] def sign_mul_ord (s : Sign) (o : Ordering) : Ordering :=
  match s with | .Positive => o | .Negative => o.swap
@[inline] def sign_mul_int (s : Sign) (x : Int) : Int := s.apply x
@[inline] def int_mul_sign (x : Int) (s : Sign) : Int := s.apply x
/-- `impl Add<Rounding> for IBig` (float/src/round.rs) -/
@[inline] def int_add_rounding (x : Int) (r : Rounding) : Int :=
  match r with | .NoOp => x | .AddOne => x + 1 | .SubOne => x - 1
@[inline] def shl_ (a b : Int) : Int := a * 2 ^ b.toNat
@[inline] def shr_ (a b : Int) : Int := a / 2 ^ b.toNat

-- integer methods
@[inline] def signum (x : Int) : Int := if x < 0 then -1 else if x = 0 then 0 else 1
@[inline] def is_one (x : Int) : Bool := decide (x = 1)
@[inline] def abs_eq (a b : Int) : Bool := decide (a.natAbs = b.natAbs)
@[inline] def abs_diff (a b : Int) : Int := Int.ofNat (a - b).natAbs
@[inline] def saturating_sub (a b : Int) : Int := if a ≥ b then a - b else 0
@[inline] def unsigned_abs (a : Int) : Int := Int.ofNat a.natAbs
/-- `BitTest::bit_len` of the magnitude -/
@[inline] def bit_len (a : Int) : Int := if a = 0 then 0 else Int.ofNat (Nat.log2 a.natAbs + 1)
/-- `IBig::as_sign_repr` / `into_parts`: sign and magnitude -/
@[inline] def as_sign_repr (x : Int) : Sign × Int := (sign x, Int.ofNat x.natAbs)
/-- `TypedReprRef::are_low_bits_nonzero(n)` on a magnitude: is any of the `n` low bits set -/
@[inline] def are_low_bits_nonzero (a n : Int) : Bool := decide (a % 2 ^ n.toNat ≠ 0)
@[inline] def reverse (o : Ordering) : Ordering := o.swap
@[inline] def then_ (a b : Ordering) : Ordering := a.then b
@[inline] def pow (a n : Int) : Int := a ^ n.toNat

/-- kernels and estimates called by the float decision bodies (`E` = the `f32` bound type) -/
structure FloatK (E : Type) where
  e_lt : E → E → Bool
  e_gt : E → E → Bool
  /-- `UBig::log2_bounds` / `IBig::log2_bounds` -/
  log2_bounds_int : Int → E × E
  /-- `Repr<B>::log2_bounds` -/
  log2_bounds_repr : FRepr → E × E
  /-- `Repr<B>::digits_ub` (an overestimate of the digit count) -/
  digits_ub : FRepr → Int
  /-- `Repr<B>::digits` -/
  digits : FRepr → Int
  /-- `utils::digit_len::<B>` -/
  digit_len : Int → Int
  /-- `utils::shl_digits::<B>` / `shl_digits_in_place` -/
  shl_digits : Int → Int → Int
  /-- `utils::shr_digits::<B>` -/
  shr_digits : Int → Int → Int
  /-- `utils::split_digits::<B>` / `split_digits_ref` -/
  split_digits : Int → Int → Int × Int
  /-- `Repr::<B>::new` (normalising constructor) -/
  repr_new : Int → Int → FRepr
  /-- `R::round_fract::<B>` of the context's mode, and of the three fixed modes used by round_ops.rs -/
  round_fract : Int → Int → Int → Rounding
  round_fract_up : Int → Int → Int → Rounding
  round_fract_down : Int → Int → Int → Rounding
  round_fract_half_away : Int → Int → Int → Rounding

/-- kernels and estimates called by the rational decision bodies -/
structure RatK (E : Type) where
  e_lt : E → E → Bool
  e_gt : E → E → Bool
  log2_bounds_int : Int → E × E
  /-- rational `Repr::log2_bounds` -/
  log2_bounds_q : QRepr → E × E
  /-- float `Repr<B>::log2_bounds` (rational/src/cmp.rs `with_float`) -/
  log2_bounds_repr : FRepr → E × E
  /-- `B` of the float operand, `B.is_power_of_two()`, `B.trailing_zeros()` -/
  base : Int
  base_is_pow2 : Bool
  base_tz : Int

end GluePrelude
end Dashu
