/-
  C19 — prelude of the regenerated architecture layer (`lean/Dashu/Gen/ArchAdd.lean`, written by
  vlib/extract_archadd.py from integer/src/arch/**).  Core Lean only.  The primitives the regenerated
  bodies call:

  * `Word::overflowing_add` / `overflowing_sub` of a `W`-bit unsigned integer (Rust reference: wrapped
    result and "did it wrap");
  * `Word::from(bool)` / `bool.into()`;
  * the x86 intrinsics `_addcarry_u32/_u64`, `_subborrow_u32/_u64` (core::arch; Intel SDM `ADC` / `SBB`):
    `c_out = _addcarry_uN(c_in, a, b, &mut out)` computes `a + b + (c_in ≠ 0)`, stores the low `N` bits
    in `out` and returns the carry; `_subborrow_uN(b_in, a, b, &mut out)` computes
    `a − (b + (b_in ≠ 0))`, stores it modulo `2^N` and returns the borrow.  ASSUMPTION of C19: the
    intrinsics behave as documented (they are executed, not modelled, by the native 64-bit builds of
    the correspondence).
-/
namespace Dashu.Model.Arch

/-- `Word::overflowing_add` -/
def overflowing_add (W a b : Nat) : Nat × Bool := ((a + b) % 2 ^ W, decide (2 ^ W ≤ a + b))

/-- `Word::overflowing_sub` -/
def overflowing_sub (W a b : Nat) : Nat × Bool := ((a + 2 ^ W - b) % 2 ^ W, decide (a < b))

/-- `Word::from(bool)`, `bool.into()` -/
def word_from_bool (b : Bool) : Nat := if b then 1 else 0

/-- `_addcarry_uN(c_in, a, b, &mut out) -> c_out` as `(c_out, out)` -/
def intrinsic_addcarry (N c_in a b : Nat) : Nat × Nat :=
  let s := a + b + (if c_in = 0 then 0 else 1)
  (s / 2 ^ N, s % 2 ^ N)

/-- `_subborrow_uN(b_in, a, b, &mut out) -> b_out` as `(b_out, out)` -/
def intrinsic_subborrow (N b_in a b : Nat) : Nat × Nat :=
  let t := b + (if b_in = 0 then 0 else 1)
  ((if a < t then 1 else 0), (a + 2 ^ (N + 1) - t) % 2 ^ N)

end Dashu.Model.Arch
