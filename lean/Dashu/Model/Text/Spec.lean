/-
  C07 — specification side of integer text and byte encodings (core Lean only).

  Strings are byte lists.  Internally a byte is a `Nat` (every model function is total on arbitrary
  naturals: a value ≥ 256 is simply not a digit); the `List UInt8` entry points are the wrappers at
  the end of `Parse.lean` / `Fmt.lean`.

  * `digits r n`      positional representation, most significant digit first, `0 ↦ [0]`
  * `ofDigits r ds`   its inverse (Horner)
  * `digitsPad r k x` exactly `k` digits of `x % r^k` (zero padded) — the "inner chunk" shape
  * `printSpec`       the text of a number: ASCII digits, lower or upper case letters
  * `parse…Spec`      the documented grammar of `from_str_radix` & friends as a total function
  * `padIntegral`     `core::fmt::Formatter::pad_integral`, written from the std documentation
  * byte / chunk encodings as positional representations in base 256 / 2^k
-/
namespace Dashu.Model.Text

-- ---------------------------------------------------------------- positional representation

/-- digits of `n` in radix `r`, accumulated in front of `acc` (most significant first) -/
def digitsAux (r : Nat) (n : Nat) (acc : List Nat) : List Nat :=
  if _h : r < 2 ∨ n = 0 then acc
  else digitsAux r (n / r) (n % r :: acc)
termination_by n
decreasing_by exact Nat.div_lt_self (by omega) (by omega)

/-- positional representation, most significant first; `0 ↦ [0]` -/
def digits (r n : Nat) : List Nat := if n = 0 then [0] else digitsAux r n []

/-- value of a most-significant-first digit list (Horner) -/
def ofDigits (r : Nat) (ds : List Nat) : Nat := ds.foldl (fun a d => a * r + d) 0

/-- exactly `k` digits of `x` (least significant first): `x % r, (x / r) % r, …` -/
def digitsPadLE (r : Nat) : Nat → Nat → List Nat
  | 0, _ => []
  | k + 1, x => x % r :: digitsPadLE r k (x / r)

/-- exactly `k` digits, most significant first, zero padded -/
def digitsPad (r k x : Nat) : List Nat := (digitsPadLE r k x).reverse

/-- value of a least-significant-first digit list -/
def ofDigitsLE (r : Nat) : List Nat → Nat
  | [] => 0
  | d :: ds => d + r * ofDigitsLE r ds

/-- number of bits of `n` (`0` for `0`) -/
def bitLen (n : Nat) : Nat := if n = 0 then 0 else Nat.log2 n + 1

def ceilDiv (a b : Nat) : Nat := if a = 0 then 0 else (a - 1) / b + 1

-- ---------------------------------------------------------------- characters

/-- ASCII of a digit value: `0-9`, then `a-z` or `A-Z` -/
def digitChar (upper : Bool) (d : Nat) : Nat :=
  if d < 10 then 48 + d else if upper then 55 + d else 87 + d

/-- value of an alphanumeric ASCII byte, either case -/
def alnumVal (c : Nat) : Option Nat :=
  if 48 ≤ c ∧ c ≤ 57 then some (c - 48)
  else if 97 ≤ c ∧ c ≤ 122 then some (c - 97 + 10)
  else if 65 ≤ c ∧ c ≤ 90 then some (c - 65 + 10)
  else none

/-- `radix::digit_from_ascii_byte` -/
def digitOf (r c : Nat) : Option Nat :=
  match alnumVal c with
  | some d => if d < r then some d else none
  | none => none

/-- text of a natural number in radix `r` -/
def printSpec (r : Nat) (upper : Bool) (n : Nat) : List Nat := (digits r n).map (digitChar upper)

/-- text of an integer: `-` followed by the magnitude -/
def printSpecInt (r : Nat) (upper : Bool) (z : Int) : List Nat :=
  (if z < 0 then [45] else []) ++ printSpec r upper z.natAbs

-- ---------------------------------------------------------------- parsing grammar

inductive ParseError where
  | noDigits | invalidDigit | unsupportedRadix
  deriving Repr, DecidableEq

def ParseError.name : ParseError → String
  | .noDigits => "NoDigits" | .invalidDigit => "InvalidDigit" | .unsupportedRadix => "UnsupportedRadix"

def validRadix (r : Nat) : Bool := 2 ≤ r && r ≤ 36

/-- all digit values of a string without underscores; `none` if some byte is not a digit -/
def digitValues (r : Nat) : List Nat → Option (List Nat)
  | [] => some []
  | c :: cs =>
    match digitOf r c, digitValues r cs with
    | some d, some ds => some (d :: ds)
    | _, _ => none

/-- the body of a number: digits of the radix (either case) and `_` separators, at least one
    digit.  A byte that is neither ⇒ `InvalidDigit`; no digit at all ⇒ `NoDigits`. -/
def parseBodySpec (r : Nat) (s : List Nat) : Except ParseError Nat :=
  match digitValues r (s.filter (· ≠ 95)) with
  | none => .error .invalidDigit
  | some [] => .error .noDigits
  | some ds => .ok (ofDigits r ds)

/-- optional sign: `+` (and `-` when `signed`); returns (negative?, rest) -/
def splitSign (signed : Bool) : List Nat → Bool × List Nat
  | 45 :: rest => if signed then (true, rest) else (false, 45 :: rest)
  | 43 :: rest => (false, rest)
  | s => (false, s)

/-- optional radix prefix `0b` / `0o` / `0x` (lower case only, as documented) -/
def splitPrefix (dflt : Nat) : List Nat → Nat × List Nat
  | 48 :: 98 :: rest => (2, rest)
  | 48 :: 111 :: rest => (8, rest)
  | 48 :: 120 :: rest => (16, rest)
  | s => (dflt, s)

def applySign (neg : Bool) (n : Nat) : Int := if neg then -(n : Int) else (n : Int)

/-- `UBig::from_str_radix` / `IBig::from_str_radix` (`signed`) -/
def parseRadixSpec (signed : Bool) (s : List Nat) (r : Nat) : Except ParseError Int :=
  if !validRadix r then .error .unsupportedRadix
  else
    let (neg, body) := splitSign signed s
    (parseBodySpec r body).map (applySign neg)

/-- `from_str_with_radix_default` (and `_prefix` = default 10): value and radix used -/
def parseDefaultSpec (signed : Bool) (s : List Nat) (dflt : Nat) : Except ParseError (Int × Nat) :=
  let (neg, rest) := splitSign signed s
  let (r, body) := splitPrefix dflt rest
  if !validRadix r then .error .unsupportedRadix
  else (parseBodySpec r body).map (fun n => (applySign neg n, r))

-- ---------------------------------------------------------------- pad_integral (std documentation)

inductive Align where
  | left | right | center
  deriving Repr, DecidableEq

/-- the options of a `core::fmt::Formatter` that integer formatting looks at -/
structure FmtSpec where
  fill : List Nat := [32]        -- UTF-8 bytes of the fill character
  align : Option Align := none
  plus : Bool := false
  alt : Bool := false
  zero : Bool := false
  width : Option Nat := none

def rep (n : Nat) (s : List Nat) : List Nat := (List.replicate n s).flatten

/-- `Formatter::pad_integral(is_nonnegative, prefix, buf)` after the std documentation:
    sign `-` or (with `+`) `+`; the prefix only with `#`; if the text is shorter than `width`:
    with `0` zeros go between sign/prefix and digits (fill and alignment ignored), otherwise the
    fill character pads according to the alignment, default right; centre puts the extra
    character on the right.  `prefixLen` is the prefix length in characters. -/
def padIntegral (f : FmtSpec) (nonneg : Bool) (pfx : List Nat) (buf : List Nat) : List Nat :=
  let sign : List Nat := if !nonneg then [45] else if f.plus then [43] else []
  let pfx := if f.alt then pfx else []
  let body := sign ++ pfx ++ buf
  let len := sign.length + pfx.length + buf.length
  match f.width with
  | none => body
  | some w =>
    if w ≤ len then body
    else if f.zero then sign ++ pfx ++ rep (w - len) [48] ++ buf
    else
      let pad := w - len
      match f.align.getD .right with
      | .left => body ++ rep pad f.fill
      | .right => rep pad f.fill ++ body
      | .center => rep (pad / 2) f.fill ++ body ++ rep ((pad + 1) / 2) f.fill

-- ---------------------------------------------------------------- bytes and chunks

/-- minimal little-endian bytes of a natural number (`0 ↦ []`) -/
def leBytesSpec (n : Nat) : List Nat := (digitsAux 256 n []).reverse

/-- number of bytes of `n` -/
def byteLen (n : Nat) : Nat := ceilDiv (bitLen n) 8

/-- two's complement little-endian bytes as `IBig::to_le_bytes` is required to produce them:
    `0 ↦ []`; positive: magnitude bytes plus a `0x00` byte iff the top bit is used; negative
    with magnitude `m` of `L` bytes: the `L` low bytes of `256^L - m` plus a `0xff` byte iff the top
    bit of `m`'s top byte is set (so that the top bit of the encoding is always the sign). -/
def signedLeBytesSpec (z : Int) : List Nat :=
  let m := z.natAbs
  let L := byteLen m
  if m = 0 then []
  else if z < 0 then
    digitsPadLE 256 L (256 ^ L - m) ++ (if 2 ^ (8 * L - 1) ≤ m then [255] else [])
  else
    digitsPadLE 256 L m ++ (if 2 ^ (8 * L - 1) ≤ m then [0] else [])

/-- value of unsigned little-endian bytes -/
def ofLeBytesSpec (bs : List Nat) : Nat := ofDigitsLE 256 bs

/-- value of two's complement little-endian bytes (negative iff the top bit of the last byte) -/
def ofSignedLeBytesSpec (bs : List Nat) : Int :=
  match bs.getLast? with
  | none => 0
  | some top =>
    if top < 128 then (ofDigitsLE 256 bs : Int) else (ofDigitsLE 256 bs : Int) - (256 : Int) ^ bs.length

/-- smallest number of bytes whose two's complement range contains `z` (`0` for `0`) -/
def minSignedLen (z : Int) : Nat :=
  if z = 0 then 0
  else if z < 0 then ceilDiv (bitLen (z.natAbs - 1) + 1) 8
  else ceilDiv (bitLen z.natAbs + 1) 8

/-- `to_chunks`: little-endian digits in base `2^k`, none for zero -/
def chunksSpec (n k : Nat) : List Nat := (digitsAux (2 ^ k) n []).reverse

/-- `from_chunks`: `Σ cᵢ · 2^(i·k)`; chunks may exceed `2^k` -/
def ofChunksSpec (k : Nat) : List Nat → Nat
  | [] => 0
  | c :: cs => c + 2 ^ k * ofChunksSpec k cs

end Dashu.Model.Text
