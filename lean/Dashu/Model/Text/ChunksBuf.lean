import Dashu.Model.Text.ChunksWord
/-
  C07 — `TypedReprRef::to_chunks`, `RefLarge` arm, with the chunk BUFFERS as bounded arrays (core
  Lean only).  Since fix 80bcfde every chunk buffer has

      word_per_chunk + 1   words,   word_per_chunk = ceil_div(chunk_bits, WORD_BITS).min(words.len())

  (`Buffer::allocate(word_per_chunk + 1)`, `push_zeros(word_per_chunk + 1)`): its size no longer
  depends on `chunk_bits` alone.  `words_to_chunks` then writes into `chunk_out[..n]` /
  `chunk_out[..=len]` with `copy_from_slice` from `words[start_pos..end_pos]` /
  `words[start_pos..=end_pos]`; every slice index, every `usize` subtraction and the
  `debug_assert!(start < end)` is an error branch here.  `Repr::from_buffer` (normalisation) is the
  value of the buffer.
-/
namespace Dashu.Model.Text
open Dashu.Model (val)
open Dashu.Model.Div (shrInPlace)

inductive ChunkBufPanic where
  | chunkBitsZero                 -- documented: "Panics if chunk_bits is zero"
  | sliceIndex                    -- a slice range beyond `words` or beyond the chunk buffer
  | subOverflow                   -- `end_pos - start_pos`, `end_pos - start_pos - 1` below zero
  | emptyChunk                    -- `debug_assert!(start < end)`
  deriving Repr, DecidableEq

def ChunkBufPanic.name : ChunkBufPanic → String
  | .chunkBitsZero => "ChunkBitsZero"
  | .sliceIndex => "SliceIndex"
  | .subOverflow => "SubOverflow"
  | .emptyChunk => "DebugAssert"

/-- `let word_per_chunk = math::ceil_div(chunk_bits, WORD_BITS_USIZE).min(words.len());` -/
def wordPerChunk (W k len : Nat) : Nat := min (ceilDiv k W) len

/-- `chunk_out[..src.len()].copy_from_slice(src)` into a zero-filled buffer of `bufLen` words -/
def copyFront (bufLen : Nat) (src : List Nat) : Except ChunkBufPanic (List Nat) :=
  if src.length ≤ bufLen then .ok (src ++ List.replicate (bufLen - src.length) 0) else .error .sliceIndex

/-- one chunk of the word-aligned shortcut of `words_to_chunks` on a buffer of `bufLen` words -/
def alignedChunkB (words : List Nat) (wpc bufLen i : Nat) : Except ChunkBufPanic (List Nat) :=
  let startPos := i * wpc
  let endPos := min (startPos + wpc) words.length
  if endPos < startPos then .error .subOverflow          -- `end_pos - start_pos`, `&words[start_pos..end_pos]`
  else copyFront bufLen ((words.drop startPos).take (endPos - startPos))

/-- one chunk of the general path of `words_to_chunks` on a buffer of `bufLen` words: the index
    checks of both arms, then copy / mask (`chunkCopied`), `shr_in_place` on `chunk_out[..=len]`;
    the words above stay zero -/
def unalignedChunkB (W : Nat) (words : List Nat) (bitLenN k bufLen i : Nat) : Except ChunkBufPanic (List Nat) :=
  let start := i * k
  let end_ := min bitLenN (start + k)
  if ¬ start < end_ then .error .emptyChunk
  else
    let startPos := start / W
    let endPos := end_ / W
    let endBits := end_ % W
    if endBits ≠ 0 then
      -- len = end_pos - start_pos; `words[start_pos..=end_pos]`; `chunk_out[..=len]`
      if endPos < startPos then .error .subOverflow
      else if words.length ≤ endPos then .error .sliceIndex
      else if bufLen < endPos - startPos + 1 then .error .sliceIndex
      else .ok ((shrInPlace W (chunkCopied W words bitLenN k i) (start % W)).1
                  ++ List.replicate (bufLen - (endPos - startPos + 1)) 0)
    else
      -- len = end_pos - start_pos - 1; `words[start_pos..end_pos]`; `chunk_out[..=len]`
      if endPos < startPos + 1 then .error .subOverflow
      else if words.length < endPos then .error .sliceIndex
      else if bufLen < endPos - startPos then .error .sliceIndex
      else .ok ((shrInPlace W (chunkCopied W words bitLenN k i) (start % W)).1
                  ++ List.replicate (bufLen - (endPos - startPos)) 0)

/-- run `f` over the chunk indices, first error wins (the `for` loop of `words_to_chunks`) -/
def collectChunks (f : Nat → Except ChunkBufPanic (List Nat)) (W : Nat) : List Nat → Except ChunkBufPanic (List Nat)
  | [] => .ok []
  | i :: is =>
    match f i with
    | .error e => .error e
    | .ok buf =>
      match collectChunks f W is with
      | .error e => .error e
      | .ok vs => .ok (val W buf :: vs)

/-- `TypedReprRef::to_chunks` with bounded chunk buffers (`RefLarge` arm), inline arm as in `toChunksW` -/
def toChunksB (W n k : Nat) : Except ChunkBufPanic (List Nat) :=
  if k = 0 then .error .chunkBitsZero
  else
    let count := ceilDiv (bitLen n) k
    if n < 2 ^ (2 * W) then
      if count = 0 then .ok []
      else if count = 1 then .ok [n]
      else .ok ((List.range count).map (fun i => (n >>> (i * k)) % 2 ^ k))
    else
      let words := wordsOf W n
      let bufLen := wordPerChunk W k words.length + 1
      if k % W = 0 then collectChunks (alignedChunkB words (k / W) bufLen) W (List.range count)
      else collectChunks (unalignedChunkB W words (bitLen n) k bufLen) W (List.range count)

/-- `Repr::from_chunks` with the result buffer counted in WORDS (proposed fix `c07-from-chunks-result-len-words`):
    `shift_words = ceil_div((chunks.len() − 1) * chunk_bits, WORD_BITS)`, `result_len = max_len + shift_words + 1`;
    the loop is the unchanged `chunks_to_words` -/
def fromChunksWT (W k : Nat) (chunks : List (List Nat)) : Except ChunkPanic Nat :=
  if k = 0 then .error .chunkBitsZero
  else if chunks = [] then .ok 0
  else
    let maxLen := (chunks.map List.length).foldl max 0
    let resultLen := maxLen + ceilDiv ((chunks.length - 1) * k) W + 1
    .ok (val W (chunksToWords W k 0 chunks (List.replicate resultLen 0)))

end Dashu.Model.Text
