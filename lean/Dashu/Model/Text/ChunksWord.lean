import Dashu.Model.Text.Bytes
import Dashu.Model.Int.Div
/-
  C07 — `convert.rs` chunk routines with the shift / add kernels at the word level (core Lean
  only): `words_to_chunks` general path with `shift::shr_in_place`, and `chunks_to_words`
  (`shl_in_place` on a scratch buffer, `add_in_place` into the result) with the buffer sizes of
  `Repr::from_chunks`.  The kernels are builder-div's / C01's mirrored models (`shrInPlace`,
  `shlInPlace`, `addInPlace`), whose specifications are proved there.
-/
namespace Dashu.Model.Text
open Dashu.Model (val addInPlace)
open Dashu.Model.Div (shrInPlace shlInPlace)

/-- the words `words_to_chunks` copies into `chunk_out` for chunk `i` (top word masked) -/
def chunkCopied (W : Nat) (words : List Nat) (bitLenN k i : Nat) : List Nat :=
  let start := i * k
  let end_ := min bitLenN (start + k)
  let startPos := start / W
  let endPos := end_ / W
  let endBits := end_ % W
  if endBits ≠ 0 then
    let ws := (words.drop startPos).take (endPos - startPos + 1)
    ws.dropLast ++ [ws.getLastD 0 % 2 ^ endBits]
  else (words.drop startPos).take (endPos - startPos)

/-- one chunk of the general path, word level: copy, mask, `shr_in_place(start % WORD_BITS)`,
    then `Repr::from_buffer` (value) -/
def unalignedChunkW (W : Nat) (words : List Nat) (bitLenN k i : Nat) : Nat :=
  val W (shrInPlace W (chunkCopied W words bitLenN k i) ((i * k) % W)).1

/-- `TypedReprRef::to_chunks` with the word-level general path -/
def toChunksW (W n k : Nat) : Except ChunkPanic (List Nat) :=
  if k = 0 then .error .chunkBitsZero
  else
    let count := ceilDiv (bitLen n) k
    if n < 2 ^ (2 * W) then
      if count = 0 then .ok []
      else if count = 1 then .ok [n]
      else .ok ((List.range count).map (fun i => (n >>> (i * k)) % 2 ^ k))
    else
      let words := wordsOf W n
      if k % W = 0 then .ok ((List.range count).map (alignedChunk W words (k / W)))
      else .ok ((List.range count).map (unalignedChunkW W words (bitLen n) k))

/-- the loop of `chunks_to_words`: `buffer[..len] = chunk; buffer[len] = 0; shl_in_place(buffer[..=len],
    shift % W); add_in_place(words_out[shift / W ..], buffer[..=len])` for chunk number `i` on -/
def chunksToWords (W k : Nat) : Nat → List (List Nat) → List Nat → List Nat
  | _, [], out => out
  | i, c :: cs, out =>
    let shift := i * k
    let b := (shlInPlace W (c ++ [0]) (shift % W)).1
    let pos := shift / W
    chunksToWords W k (i + 1) cs (out.take pos ++ (addInPlace W (out.drop pos) b).1)

/-- `Repr::from_chunks` on the word slices of the chunks: result buffer of
    `max_len + (chunks.len() − 1) * chunk_bits + 1` zero words -/
def fromChunksW (W k : Nat) (chunks : List (List Nat)) : Except ChunkPanic Nat :=
  if k = 0 then .error .chunkBitsZero
  else if chunks = [] then .ok 0
  else
    let maxLen := (chunks.map List.length).foldl max 0
    let resultLen := maxLen + (chunks.length - 1) * k + 1
    .ok (val W (chunksToWords W k 0 chunks (List.replicate resultLen 0)))

end Dashu.Model.Text
