import Dashu.Model.Text.Parse
import Dashu.Model.Float.Spec
import Dashu.Model.NT.Log2
/-
  C08 — model of float text I/O and base/precision changes (core Lean only):
  `float/src/parse.rs` (`Repr::from_str_native`), `float/src/fmt.rs` (`fmt_round`,
  `fmt_round_scientific`), `float/src/convert.rs` (`with_base`, `with_base_and_precision`,
  `Context::convert_base`, `TryFrom<f32/f64>`).

  Reused models: the integer parser of C07 (`parseRadix`, proved equal to the documented grammar),
  `printSpec` (proved equal to the integer printers), and builder-float's `FRepr.new`, `reprRound`,
  `reprDiv`, `splitDigits`, `roundFract` (C03/C10) and builder-nt's bit-exact `log2_bounds` replica
  (C12) for the precision estimate of `with_base`.

  The model mirrors the code after the `fix:` commits 53ed19b, 16f6798, 2156b61, 003ffef, bd48ef9,
  cb83f34, a7e84fd, 5997fe0, 0c0f651, 38e3075 (defects found by this check; see the `fixed:` lines of
  `known_findings.jsonl`).
-/
namespace Dashu.Model.Text
open Dashu.Model.Float

-- ---------------------------------------------------------------- helpers on byte strings

/-- `str::rfind(&[..])` for ASCII sets: index of the last byte satisfying `p` -/
def rfindIdx (p : Nat → Bool) (l : List Nat) : Option Nat :=
  match l.reverse.findIdx? p with
  | some i => some (l.length - 1 - i)
  | none => none

def countUs (l : List Nat) : Nat := (l.filter (· == 95)).length

/-- the optional sign (`-` / `+`) at the start of a literal or of a decimal exponent -/
def stripSignF : List Nat → Bool × List Nat
  | 45 :: r => (true, r)
  | 43 :: r => (false, r)
  | r => (false, r)

/-- `str::parse::<isize>()`: optional sign, at least one ASCII digit, no overflow.
    The caller maps `Empty` to `NoDigits` and every other error to `InvalidDigit`. -/
def parseIsize (bits : Nat) (s : List Nat) : Except ParseError Int :=
  if s = [] then .error .noDigits
  else
    let sb := stripSignF s
    if sb.2 = [] then .error .invalidDigit
    else if sb.2.all (fun c => 48 ≤ c && c ≤ 57) then
      let v : Int := (ofDigits 10 (sb.2.map (· - 48)) : Nat)
      let z : Int := if sb.1 then -v else v
      if -(2 ^ (bits - 1) : Int) ≤ z ∧ z < (2 ^ (bits - 1) : Int) then .ok z else .error .invalidDigit
    else .error .invalidDigit

/-- `parse_unsigned`: `UBig::from_str_radix` on an unsigned part of the literal; a leading `+` (which
    `from_str_radix` would accept) is rejected -/
def parseUnsignedPart (W : Nat) (s : List Nat) (radix : Nat) : Except ParseError Nat :=
  if s.head? == some 43 then .error .invalidDigit
  else (parseRadix W false s radix).map Int.toNat

-- ---------------------------------------------------------------- Repr::from_str_native

/-- the scale markers of base `B` (`e E @`, `b B @` / `p P @` with the `0x` prefix, `o O @`, `h H @`, `@`) -/
def isScaleMarker (B : Nat) (hasPrefix : Bool) (c : Nat) : Bool :=
  if B = 10 then c == 101 || c == 69 || c == 64
  else if B = 2 then
    if hasPrefix then c == 112 || c == 80 || c == 64 else c == 98 || c == 66 || c == 64
  else if B = 8 then c == 111 || c == 79 || c == 64
  else if B = 16 then c == 104 || c == 72 || c == 64
  else c == 64

/-- `src.starts_with("0x") || src.starts_with("0X")` -/
def hasHexPrefix (src : List Nat) : Bool := src.take 2 == [48, 120] || src.take 2 == [48, 88]

/-- the scale part: position of the last marker, `parse::<isize>()` of what follows; returns
    (scale, `p` marker used, body) -/
def splitScale (B : Nat) (hasPrefix : Bool) (src : List Nat) : Except ParseError (Int × Bool × List Nat) :=
  match rfindIdx (isScaleMarker B hasPrefix) src with
  | some pos =>
    match parseIsize 64 (src.drop (pos + 1)) with
    | .error e => .error e
    | .ok v => .ok (v, B == 2 && (src.getD pos 0 == 112 || src.getD pos 0 == 80), src.take pos)
  | none => .ok (0, false, src)

/-- the integral part of a literal with a radix point at byte `dot`: (value, digit count, radix of
    the digits) -/
def parseIntPart (W B : Nat) (hasPrefix pmarker : Bool) (src : List Nat) (dot : Nat) :
    Except ParseError (Nat × Nat × Nat) :=
  if dot ≠ 0 then
    let intStr := src.take dot
    if B == 2 && hasPrefix then
      let intStr := intStr.drop 2
      let digits := 4 * (intStr.length - countUs intStr)
      if intStr = [] then .ok (0, digits, 16)
      else match parseUnsignedPart W intStr 16 with
        | .error e => .error e
        | .ok v => .ok (v, digits, 16)
    else if B == 2 && pmarker && !hasPrefix then .error .unsupportedRadix
    else
      match parseUnsignedPart W intStr B with
      | .error e => .error e
      | .ok v => .ok (v, intStr.length - countUs intStr, B)
  else
    if pmarker then .error .unsupportedRadix else .ok (0, 0, B)

/-- the fractional part: (value, digit count in units of base `B`) -/
def parseFracPart (W B base : Nat) (fsrc : List Nat) : Except ParseError (Nat × Nat) :=
  if fsrc ≠ [] then
    let d := fsrc.length - countUs fsrc
    let d := if B == 2 && base == 16 then d * 4 else d
    match parseUnsignedPart W fsrc base with
    | .error e => .error e
    | .ok v => .ok (v, d)
  else .ok (0, 0)

/-- the body of the literal (sign and scale removed): (magnitude, exponent decrement, ndigits) -/
def parseBodyF (W B : Nat) (hasPrefix pmarker : Bool) (src : List Nat) : Except ParseError (Nat × Nat × Nat) :=
  match src.findIdx? (· == 46) with
  | some dot =>
    if src.length = 1 then .error .noDigits
    else
      match parseIntPart W B hasPrefix pmarker src dot with
      | .error e => .error e
      | .ok (int, intDigits, base) =>
        match parseFracPart W B base (src.drop (dot + 1)) with
        | .error e => .error e
        | .ok (fract, fractDigits) =>
          let ndigits := intDigits + fractDigits
          -- a literal without any digit (`0x.`) is rejected
          if ndigits = 0 then .error .noDigits
          else if fract = 0 then .ok (int, 0, ndigits)
          else .ok (int * B ^ fractDigits + fract, fractDigits, ndigits)
  | none =>
    if B == 2 && hasPrefix then
      let s := src.drop 2
      match parseUnsignedPart W s 16 with
      | .error e => .error e
      | .ok v => .ok (v, 0, 4 * (s.length - countUs s))
    else if B == 2 && pmarker && !hasPrefix then .error .unsupportedRadix
    else
      match parseUnsignedPart W src B with
      | .error e => .error e
      | .ok v => .ok (v, 0, src.length - countUs src)

/-- `Repr::<B>::from_str_native`: (significand, exponent, ndigits) before `Repr::new` -/
def fromStrNativeRaw (W : Nat) (B : Nat) (src0 : List Nat) : Except ParseError (Int × Int × Nat) :=
  let sb := stripSignF src0
  let hp := hasHexPrefix sb.2
  match splitScale B hp sb.2 with
  | .error e => .error e
  | .ok (scale, pmarker, body) =>
    match parseBodyF W B hp pmarker body with
    | .error e => .error e
    | .ok (mag, dec, nd) => .ok (if sb.1 then -(mag : Int) else (mag : Int), scale - (dec : Int), nd)

/-- `FBig::from_str` / `from_str_native`: the normalised repr and the precision -/
def fromStrNative (W : Nat) (B : Nat) (src : List Nat) : Except ParseError (FRepr × Nat) :=
  (fromStrNativeRaw W B src).map (fun t => (FRepr.new B t.1 t.2.1, t.2.2))

-- ---------------------------------------------------------------- specification of the literal grammar

/-- digits and `_` only, at least one digit somewhere is checked by the caller -/
def digitsOnly (radix : Nat) (s : List Nat) : Option (List Nat) := digitValues radix (s.filter (· ≠ 95))

/-- a digit string of the grammar: digits of `radix` and `_` separators with at least one digit; the
    empty string only where the grammar allows the part to be omitted -/
def chkDigits (radix : Nat) (s : List Nat) (allowEmpty : Bool) : Except ParseError (List Nat) :=
  if s = [] then (if allowEmpty then .ok [] else .error .noDigits)
  else if s.all (· == 95) then .error .noDigits
  else match digitsOnly radix s with
    | some ds => .ok ds
    | none => .error .invalidDigit

/-- the two parts of the body: text before and after the first `.` -/
def splitAtDot (body : List Nat) : List Nat × List Nat :=
  match body.findIdx? (· == 46) with
  | some dot => (body.take dot, body.drop (dot + 1))
  | none => (body, [])

/-- value and precision of a literal from its digit lists: `±(int·B^fd + frac)·B^(scale − fd)` with
    `fd = |frac|·k` base-`B` digits, precision `(|int| + |frac|)·k` -/
def literalValue (B radix k : Nat) (neg : Bool) (di df : List Nat) (scale : Int) : FRepr × Nat :=
  let iv := ofDigits radix di
  let fv := ofDigits radix df
  let fd := df.length * k
  let mag : Nat := if fv = 0 then iv else iv * B ^ fd + fv
  let e : Int := if fv = 0 then scale else scale - fd
  let s : Int := if neg then -(mag : Int) else (mag : Int)
  (FRepr.new B s e, (di.length + df.length) * k)

/-- The documented grammar as a total function (independent of the code's control flow):
    `[+-] [0x] int [. frac] [marker [+-] decimal]`, `int`/`frac` unsigned digit strings with `_`
    separators, not both empty; the value is `±(int·R^|frac| + frac)·B^(scale − |frac|·k)` where `R`
    is 16 and `k = 4` for the hexadecimal form of base 2 and `R = B`, `k = 1` otherwise; the
    precision is the number of written digits (`×4` for hexadecimal). -/
def parseFloatSpec (B : Nat) (src0 : List Nat) : Except ParseError (FRepr × Nat) :=
  let sb := stripSignF src0
  let src := sb.2
  let hex := B == 2 && hasHexPrefix src
  match (match rfindIdx (isScaleMarker B hex) src with
      | some pos => (parseIsize 64 (src.drop (pos + 1))).map (fun v => (v, src.take pos))
      | none => .ok ((0 : Int), src)) with
  | .error e => .error e
  | .ok (scale, body) =>
    let body := if hex then body.drop 2 else body
    let radix := if hex then 16 else B
    let k := if hex then 4 else 1
    let parts := splitAtDot body
    let hasDot := (body.findIdx? (· == 46)).isSome
    -- error precedence of the code: a lone "." and an empty literal have no digits
    if hasDot && body.length = 1 && !hex then .error .noDigits
    else
      match chkDigits radix parts.1 hasDot with
      | .error e => .error e
      | .ok di =>
        match chkDigits radix parts.2 true with
        | .error e => .error e
        | .ok df =>
          if di = [] ∧ df = [] then .error .noDigits
          else .ok (literalValue B radix k sb.1 di df scale)

/-- text of a digit string -/
def chars (up : Bool) (ds : List Nat) : List Nat := ds.map (digitChar up)

def signChars : Option Bool → List Nat
  | none => []
  | some true => [45]
  | some false => [43]

def fracChars (up : Bool) : Option (List Nat) → List Nat
  | none => []
  | some df => 46 :: chars up df

def scaleChars : Option Int → List Nat
  | none => []
  | some z => 64 :: printSpecInt 10 false z

/-- a literal of the documented grammar in its plain form (no `_`, no hexadecimal prefix): optional
    sign (`some true` = `-`, `some false` = `+`), integer digits, optional `.` + fractional digits,
    optional `@` + signed decimal exponent (the marker every base accepts) -/
def renderLiteral (up : Bool) (sign : Option Bool) (di : List Nat) (frac : Option (List Nat))
    (scale : Option Int) : List Nat :=
  signChars sign ++ ((chars up di ++ fracChars up frac) ++ scaleChars scale)

-- ---------------------------------------------------------------- Display (`fmt_round`)

/-- `Repr::fmt_round::<R>` for a finite value; `prec` = the formatter's precision option -/
def fmtRound (B : Nat) (m : Mode) (f : FmtSpec) (prec : Option Nat) (r : FRepr) : List Nat :=
  let negative := r.signif < 0
  let se : Int × Int := match prec with
    | some p =>
      let diff : Int := (p : Int) + r.exp
      if diff < 0 then
        let shift := (-diff).toNat
        let hl := splitDigits B r.signif shift
        let adj := roundFract B m coarseNone hl.1 hl.2 shift
        (hl.1 + rInt adj, r.exp - diff)
      else (r.signif, r.exp)
    | none => (r.signif, r.exp)
  let signif := se.1
  let exp := se.2
  let full := printSpecInt B false signif
  let signifStr := if negative then full.drop 1 else full
  let len : Int := signifStr.length
  let pads : Nat × Nat := match f.width with
    | none => (0, 0)
    | some minWidth =>
      let leadingZeros := (-(min (exp + len - 1) 0)).toNat
      let trailing0 := (max exp 0).toNat
      let trailingZeros := match prec with
        | some p => let d : Int := (p : Int) + min exp 0; if d > 0 then trailing0 + d.toNat else trailing0
        | none => trailing0
      let signifDigits := if leadingZeros = 0 then max signifStr.length 1 else signifStr.length
      let hasSign := if negative || f.plus then 1 else 0
      let hasPoint : Nat :=
        if exp ≥ 0 then (if prec.getD 0 > 0 then 1 else 0)
        else (if prec ≠ some 0 then 1 else 0)
      let width := signifDigits + hasSign + hasPoint + leadingZeros + trailingZeros
      if width ≥ minWidth then (0, 0)
      else if f.zero then (minWidth - width, 0)
      else match f.align with
        | some .left => (0, minWidth - width)
        | some .right | none => (minWidth - width, 0)
        | some .center => let d := minWidth - width; (d / 2, d - d / 2)
  let sign : List Nat := if negative then [45] else if f.plus then [43] else []
  let head := (if !f.zero then rep pads.1 f.fill else []) ++ sign ++ (if f.zero then rep pads.1 [48] else [])
  let body : List Nat :=
    if exp < 0 then
      let e := (-exp).toNat
      let cut := signifStr.length - e
      let int := signifStr.take cut
      let fract := signifStr.drop cut
      let fd := fract.length
      let intOut := if int = [] then [48] else int
      match prec with
      | some p =>
        if p ≠ 0 then
          if e ≥ p then intOut ++ [46] ++ rep (p - fd) [48] ++ fract
          else intOut ++ [46] ++ rep (e - fd) [48] ++ fract ++ rep (p - e) [48]
        else intOut
      | none =>
        if fd > 0 then intOut ++ [46] ++ rep (e - fd) [48] ++ fract else intOut
    else
      (if signifStr = [] then [48] else signifStr) ++ rep exp.toNat [48] ++
        (match prec with
         | some p => if p > 0 then [46] ++ rep p [48] else []
         | none => [])
  head ++ body ++ rep pads.2 f.fill

/-- `Repr::fmt_round_scientific::<R>(upper, use_hexadecimal, marker)`: `LowerExp`/`UpperExp` of every
    base, `Binary`/`Octal`/`LowerHex`/`UpperHex` of the matching base, and — `useHex`, base 2 only —
    the hexadecimal form `0xh.hhhp±e`; when rounding carries into a new digit (`9.99 → 10.0`) the
    last (zero) digit is dropped -/
def fmtSciG (B : Nat) (m : Mode) (f : FmtSpec) (prec : Option Nat) (upper useHex : Bool) (marker : Nat)
    (r : FRepr) : List Nat :=
  let negative := r.signif < 0
  let se : Int × Int := match prec with
    | some p0 =>
      let p : Int := if useHex then (p0 : Int) * 4 + 4 else (p0 : Int) + 1
      let diff : Int := p - (digitsI B r.signif : Int)
      if diff < 0 then
        let shift := (-diff).toNat
        let hl := splitDigits B r.signif shift
        let adj := roundFract B m coarseNone hl.1 hl.2 shift
        let s := hl.1 + rInt adj
        let e := r.exp - diff
        if (digitsI B s : Int) > p then (Int.tdiv s B, e + 1) else (s, e)
      else (r.signif, r.exp)
    | none => (r.signif, r.exp)
  let signif := se.1
  let exp := se.2
  let full := printSpecInt (if useHex then 16 else B) upper signif
  let signifStr := if negative then full.drop 1 else full
  let expAdjust : Int :=
    if useHex then exp + ((signifStr.length : Int) - 1) * 4 else exp + (signifStr.length : Int) - 1
  let expStr : List Nat := printSpecInt 10 false expAdjust
  let p := prec.getD 0
  let pads : Nat × Nat := match f.width with
    | none => (0, 0)
    | some minWidth =>
      let hasPoint := if signifStr.length > 1 ∨ p > 0 then 1 else 0
      let hasSign := if negative || f.plus then 1 else 0
      let trailingZeros := if p > signifStr.length - 1 then p - (signifStr.length - 1) else 0
      let width := signifStr.length + expStr.length + 1 + hasSign + hasPoint + (if useHex then 2 else 0) +
        trailingZeros
      if width ≥ minWidth then (0, 0)
      else match f.align with
        | some .left => (0, minWidth - width)
        | some .right | none => (minWidth - width, 0)
        | some .center => let d := minWidth - width; (d / 2, d - d / 2)
  let sign : List Nat := if negative then [45] else if f.plus then [43] else []
  let head := (if !f.zero then rep pads.1 f.fill else []) ++ sign ++ (if useHex then [48, 120] else []) ++
    (if f.zero then rep pads.1 [48] else [])
  let int := signifStr.take 1
  let fract := signifStr.drop 1
  let body := int ++ (if fract ≠ [] then [46] ++ fract else []) ++
    (if p > 0 then (if fract = [] then [46] else []) ++ rep (p - fract.length) [48] else []) ++
    [marker] ++ expStr
  head ++ body ++ rep pads.2 f.fill

/-- `LowerExp` / `UpperExp`: marker `e` / `E` in base 10, `@` otherwise -/
def fmtSci (B : Nat) (m : Mode) (f : FmtSpec) (prec : Option Nat) (upper : Bool) (r : FRepr) : List Nat :=
  fmtSciG B m f prec upper false (if B = 10 then (if upper then 69 else 101) else 64) r

/-- `Binary` (base 2, marker `b`), `Octal` (base 8, `o`), `LowerHex`/`UpperHex` (base 16: marker `h`;
    base 2: hexadecimal form with marker `p`); `none` when the trait is not implemented for the base -/
def fmtRadixTrait (B : Nat) (m : Mode) (f : FmtSpec) (prec : Option Nat) (k : String) (r : FRepr) :
    Option (List Nat) :=
  match k, B with
  | "bin", 2 => some (fmtSciG 2 m f prec false false 98 r)
  | "oct", 8 => some (fmtSciG 8 m f prec false false 111 r)
  | "lhex", 16 => some (fmtSciG 16 m f prec false false 104 r)
  | "uhex", 16 => some (fmtSciG 16 m f prec true false 104 r)
  | "lhex", 2 => some (fmtSciG 2 m f prec false true 112 r)
  | "uhex", 2 => some (fmtSciG 2 m f prec true true 112 r)
  | _, _ => none

-- ---------------------------------------------------------------- Debug

def strBytes (s : String) : List Nat := s.toUTF8.toList.map (·.toNat)

/-- `Debug` of `UBig`/`IBig` (`DoubleEnd`): all decimal digits when the magnitude fits in two words,
    otherwise the `dpw` most and least significant digits around `..` (`dpw` = decimal digits per
    word); `{:#?}` appends the digit and bit counts -/
def debugInt (W : Nat) (alt plus : Bool) (z : Int) : List Nat :=
  let n := z.natAbs
  let sign : List Nat := if z < 0 then [45] else if plus then [43] else []
  let ds := printSpec 10 false n
  let dpw := (radixInfo W 10).dpw
  let body := if n < 2 ^ (2 * W) then ds else ds.take dpw ++ [46, 46] ++ ds.drop (ds.length - dpw)
  let nd := if n = 0 then 0 else ds.length
  sign ++ body ++
    (if alt then strBytes " (digits: " ++ printSpec 10 false nd ++ strBytes ", bits: " ++
      printSpec 10 false (bitLen n) ++ [41] else [])

def modeName : Mode → String
  | .zero => "Zero" | .away => "Away" | .up => "Up" | .down => "Down"
  | .halfEven => "HalfEven" | .halfAway => "HalfAway"

/-- the `significand` field of the pretty `Debug` forms -/
def debugSignifField (W B : Nat) (s : Int) : List Nat :=
  if B = 2 then debugInt W false false s ++ strBytes " (" ++ printSpec 10 false (digitsI B s) ++ strBytes " bits)"
  else if B = 10 then debugInt W true false s
  else debugInt W false false s ++ strBytes " (" ++ printSpec 10 false (digitsI B s) ++ strBytes " digits)"

/-- `Debug for Repr<B>` (finite values) -/
def debugRepr (W B : Nat) (alt : Bool) (r : FRepr) : List Nat :=
  if alt then
    strBytes "Repr {\n    significand: " ++ debugSignifField W B r.signif ++
      strBytes ",\n    exponent: " ++ printSpec 10 false B ++ strBytes " ^ " ++ printSpecInt 10 false r.exp ++
      strBytes ",\n}"
  else debugInt W false false r.signif ++ strBytes " * " ++ printSpec 10 false B ++ strBytes " ^ " ++
    printSpecInt 10 false r.exp

/-- `Debug for FBig<R, B>` (finite values) -/
def debugFBig (W B : Nat) (m : Mode) (alt : Bool) (r : FRepr) (prec : Nat) : List Nat :=
  if alt then
    strBytes "FBig {\n    significand: " ++ debugSignifField W B r.signif ++
      strBytes ",\n    exponent: " ++ printSpec 10 false B ++ strBytes " ^ " ++ printSpecInt 10 false r.exp ++
      strBytes ",\n    precision: " ++ printSpec 10 false prec ++
      strBytes ",\n    rounding: " ++ strBytes (modeName m) ++ strBytes ",\n}"
  else debugRepr W B false r ++ strBytes " (prec: " ++ printSpec 10 false prec ++ [41]

/-- the shortcut for infinities at the head of every formatter of float/src/fmt.rs (`Repr::fmt_round`,
    `Repr::fmt_round_scientific`, `Debug for Repr`, `Debug for FBig`): `f.write_str("inf")` /
    `f.write_str("-inf")` — width, precision, fill, alignment and flags are not consulted -/
def fmtInfinite (neg : Bool) : List Nat := if neg then [45, 105, 110, 102] else [105, 110, 102]

/-- the formatting traits implemented for base `B` (kinds of the case protocol) -/
def fmtKindDefined (k : String) (B : Nat) : Bool :=
  match k with
  | "disp" | "lexp" | "uexp" | "dbg" | "dbga" | "rdbg" | "rdbga" => true
  | "bin" => B == 2
  | "oct" => B == 8
  | "lhex" | "uhex" => B == 2 || B == 16
  | _ => false

-- ---------------------------------------------------------------- specification of printing

def ratOfRepr (B : Nat) (r : FRepr) : Rat := r.toRat B

/-- text of the non-negative rational `n / B^k` with exactly `k` fractional digits (`k = 0`: no point) -/
def fixedPointText (B : Nat) (n k : Nat) : List Nat :=
  let ds := printSpec B false n
  let ds := rep (k + 1 - ds.length) [48] ++ ds
  if k = 0 then ds else ds.take (ds.length - k) ++ [46] ++ ds.drop (ds.length - k)

/-- what `Display` must show (no width): without a precision the exact positional expansion (no
    trailing fractional zeros beyond the stored ones); with precision `k` the value rounded to `k`
    fractional digits under the mode, the sign of the original value kept (`-0.00`) -/
def displaySpec (B : Nat) (m : Mode) (plus : Bool) (prec : Option Nat) (r : FRepr) : List Nat :=
  let negative := r.signif < 0
  let sign : List Nat := if negative then [45] else if plus then [43] else []
  match prec with
  | none =>
    if r.exp ≥ 0 then sign ++ printSpec B false (r.signif.natAbs * B ^ r.exp.toNat)
    else sign ++ fixedPointText B r.signif.natAbs (-r.exp).toNat
  | some k =>
    let x : Rat := ratOfRepr B r * (B ^ k : Nat)
    let n := roundInt m x
    sign ++ fixedPointText B n.natAbs k

-- ---------------------------------------------------------------- base conversion

/-- `ilog_exact(n, base)`: the exponent if `n` is a power of `base`, else 0 -/
def ilogExact (n base : Nat) : Nat :=
  if n < base ∨ base < 2 then 0
  else
    let rec go (fuel pow exp : Nat) : Nat :=
      match fuel with
      | 0 => 0
      | fuel + 1 => if pow < n then go fuel (pow * base) (exp + 1) else if pow = n then exp else 0
    go 64 base 1

/-- `THRESHOLD_SMALL_EXP = (Word::BITS as f32 * 0.60206) as isize`: regenerated from
    float/src/convert.rs (Tie A) -/
def thresholdSmallExp (W : Nat) : Int := (Dashu.Gen.float_THRESHOLD_SMALL_EXP W : Nat)

inductive ConvResult where
  | ok (r : Rounded FRepr)
  | unlimitedPrecision
  | lnExp                       -- the large-exponent branch (through `ln`/`exp`): not mirrored
  deriving Repr

/-- single exact rounding of `num / den` (normalised reprs of the new base, `den > 0`) to `p` digits
    when the quotient of the significands has more than `p` digits: split the quotient and feed the
    whole tail (low quotient digits and remainder) to `round_ratio` (small-negative-exponent branch,
    fix bd48ef9) -/
def divRoundLong (NewB : Nat) (m : Mode) (p : Nat) (num den : FRepr) : Rounded FRepr :=
  let q := Int.tdiv num.signif den.signif
  let r := Int.tmod num.signif den.signif
  let shift := digitsI NewB q - p
  let hl := splitDigits NewB q shift
  let scale : Int := den.signif * ((NewB ^ shift : Nat) : Int)
  let rem : Int := hl.2 * den.signif + r
  let exp : Int := num.exp - den.exp + shift
  if rem = 0 then (FRepr.new NewB hl.1 exp, none)
  else
    let adj := roundRatio m hl.1 rem scale
    (FRepr.new NewB (hl.1 + rInt adj) exp, some adj)

/-- `Context::<R>::convert_base::<B, NewB>(repr)` at precision `p` (finite input), as of commit
    02e179b (every branch rounds to the target precision), 0c0f651 (the same-base shortcut rounds too) and bd48ef9 (a dividend longer than
    `repr_div` supports is rounded once through `round_ratio`). -/
def convertBase (W : Nat) (B NewB : Nat) (m : Mode) (p : Nat) (r : FRepr) : ConvResult :=
  -- same base (`if NewB == B`, as of fix 0c0f651): the value rounded to the target precision like on every other
  -- path (`self.repr_round(repr)`; nothing happens when the digits fit or the precision is unlimited)
  if NewB = B then .ok (reprRound NewB m coarseNone p (FRepr.new NewB r.signif r.exp))
  else
    let up := if NewB > B then ilogExact NewB B else 0
    let down := if NewB > B then 0 else ilogExact B NewB
    if up > 1 then
      let exp := r.exp / (up : Int)            -- div_rem_euclid, positive divisor
      let rem := r.exp % (up : Int)
      .ok (reprRound NewB m coarseNone p (FRepr.new NewB (r.signif * ((B ^ rem.toNat : Nat) : Int)) exp))
    else if down > 1 then
      .ok (reprRound NewB m coarseNone p (FRepr.new NewB r.signif (r.exp * down)))
    else if p = 0 then .unlimitedPrecision
    else if r.exp.natAbs ≤ (thresholdSmallExp W).toNat then
      if r.exp ≥ 0 then
        .ok (reprRound NewB m coarseNone p (FRepr.new NewB (r.signif * ((B ^ r.exp.toNat : Nat) : Int)) 0))
      else
        let num := FRepr.new NewB r.signif 0
        let den := FRepr.new NewB ((B ^ (-r.exp).toNat : Nat) : Int) 0
        if num.digits NewB > p + den.digits NewB then
          .ok (divRoundLong NewB m p num den)
        else
          match reprDiv NewB m p num den with
          | .ok v => .ok v
          | .error _ => .unlimitedPrecision
    else .lnExp

/-- the documented precision: the max `q` with `NewB^q ≤ B^p` -/
def withBasePrecisionSpec (B NewB p : Nat) : Nat :=
  if NewB < 2 then 0
  else
    let target := B ^ p
    let rec go (fuel q pw : Nat) : Nat :=
      match fuel with
      | 0 => q
      | fuel + 1 => if pw * NewB ≤ target then go fuel (q + 1) (pw * NewB) else q
    go (Nat.log2 target + 1) 0 1

/-- the precision `FBig::with_base` hands to `with_base_and_precision`: `n·p` resp. `p / n` when one base
    is a power of the other (fix 003ffef), and otherwise the exact integer logarithm
    `(B^p).ilog(NewB)` (fix: the `f32` log2 estimate used before could be one less than the documented
    maximum and differed between 32- and 64-bit words); `W` is kept for the callers' signature only -/
def withBasePrecision (_W : Nat) (B NewB p : Nat) : Nat :=
  let down := ilogExact B NewB
  let up := ilogExact NewB B
  -- `self.context.precision.saturating_mul(down)` (fix 38e3075): a product beyond `usize::MAX` (64-bit) saturates — a
  -- precision that large is as good as unlimited
  if down > 1 then min (p * down) (2 ^ 64 - 1)
  else if up > 1 then p / up
  else withBasePrecisionSpec B NewB p

-- ---------------------------------------------------------------- TryFrom<f32 / f64>

/-- `FloatEncoding::decode` then `Repr::new(man, exp)` with precision `bit_len(man)`:
    `mb` stored mantissa bits, `eb` exponent bits.  `none` = NaN (`OutOfBounds`),
    `some (.inl neg)` = infinity. -/
def fromIeee (mb eb : Nat) (bits : Nat) : Option (Sum Bool (FRepr × Nat)) :=
  let frac := bits % 2 ^ mb
  let e := (bits / 2 ^ mb) % 2 ^ eb
  let neg := (bits / 2 ^ (mb + eb)) % 2 = 1
  let bias : Int := 2 ^ (eb - 1) - 1
  if e = 2 ^ eb - 1 then (if frac = 0 then some (.inl neg) else none)
  else
    let man : Nat := if e = 0 then frac else frac + 2 ^ mb
    let exp : Int := (if e = 0 then 1 else (e : Int)) - bias - mb
    let s : Int := if neg then -(man : Int) else man
    some (.inr (FRepr.new 2 s exp, bitLen man))

end Dashu.Model.Text
