import Dashu.Model.Text.FmtWord
import Dashu.Model.NT.Log
/-
  C07 — `Debug` of `UBig` / `IBig`: mirrored model of `DoubleEnd::fmt_non_power_two`
  (integer/src/fmt/non_power_two.rs) and `DoubleEnd::format_prepared` (integer/src/fmt/mod.rs).
  Core Lean only.

  The heap arm runs ON WORDS with the mirrored kernels of the properties that own them:
  `div::rem_by_word` (C02: `Div.remByWord`), `log::repr::log_word_base` (C10/C12: `NT.logWordBase`,
  the f32 first guess `est` is a parameter as everywhere in that model),
  `div::div_by_word_in_place`, `Buffer::pop_zeros`, `div::normalize`, `shift::shl_in_place`,
  `div::div_rem_highest_word` (C02).  Every `debug_assert!` of the arm is an error branch.
-/
namespace Dashu.Model.Text
open Dashu.Model Dashu.Model.Div

/-- `RefLarge(words)` arm of `DoubleEnd::fmt_non_power_two` up to the two `PreparedWord`s:
    returns `(high_digits, low_digits, exp)`; the number has `exp + 1` decimal digits -/
def doubleEndLarge (W est : Nat) (words : List Nat) : Except PanicKind (Nat × Nat × Nat) := do
  let ri := radixInfo W 10                                    -- radix::RADIX10_INFO
  -- let low_digits = div::rem_by_word(words, RADIX10_INFO.range_per_word);
  let low ← remByWord W words ri.rpw
  -- let (exp, pow) = log::repr::log_word_base(words, 10);  let mut pow = pow.into_buffer();
  let (exp, pow) ← Dashu.Model.NT.logWordBase W (val W words) 10 est
  -- debug_assert_zero!(div::div_by_word_in_place(&mut pow, RADIX10_INFO.range_per_word / 10));
  let (pq, prem) ← divByWordInPlace W (wordsOf W pow) (ri.rpw / 10)
  if prem ≠ 0 then .error (assertErr "DoubleEnd: debug_assert_zero!(div_by_word_in_place(pow, range_per_word / 10))")
  else
    -- pow.pop_zeros();  debug_assert!(pow.len() > 1);
    let pw := trimZeros pq
    if pw.length ≤ 1 then .error (assertErr "DoubleEnd: debug_assert!(pow.len() > 1)")
    else do
      -- let mut words = Buffer::from(words);  let (shift, fast_div_pow) = div::normalize(&mut pow);
      let (pn, shift, dtop) ← normalize W pw
      -- let words_top = shift::shl_in_place(&mut words, shift);
      let (ws, top) := shlInPlace W words shift
      -- if words_top == 0 { words.split_last_mut().unwrap() } else { (words_top, &mut words[..]) }
      let (wtop, wlo) := if top = 0 then (ws.getLastD 0, ws.dropLast) else (top, ws)
      if top = 0 ∧ ws = [] then .error (assertErr "DoubleEnd: words.split_last_mut().unwrap()")
      -- div_rem_highest_word: debug_assert!(lhs_lo_len >= n)
      else if wlo.length < pn.length then .error (assertErr "div_rem_highest_word: debug_assert!(lhs_lo_len >= n)")
      else do
        let (q, _) ← divRemHighestWord W wtop wlo pn dtop
        pure (q, low, exp)

/-- the text pieces of `DoubleEnd`: what the two `DigitWriter`s receive (raw digits), and the digit
    count handed to `format_prepared` -/
def doubleEndPieces (W est : Nat) (n : Nat) : Except PanicKind (List Nat × Option (List Nat) × Nat) :=
  let dpw := (radixInfo W 10).dpw
  if n < 2 ^ W then
    -- PreparedWord::new(word, 10, 1); digits = match word { 0 => 0, _ => prepared.width() }
    let p := preparedWord 10 n 1
    .ok (p, none, if n = 0 then 0 else p.length)
  else if n < 2 ^ (2 * W) then
    -- PreparedDword::new(dword, 10); digits = prepared.width()
    match preparedDwordW W 10 n with
    | .error e => .error e
    | .ok p => .ok (p, none, p.length)
  else
    match doubleEndLarge W est (wordsOf W n) with
    | .error e => .error e
    | .ok (hi, lo, exp) => .ok (preparedWord 10 hi dpw, some (preparedWord 10 lo dpw), exp + 1)

/-- `non_power_two::write_usize_decimals(f, u)`: `PreparedWord::new(u, 10, 1)` through a `DigitWriter` -/
def writeUsizeDecimals (u : Nat) : List Nat := (preparedWord 10 u 1).map (rawToAscii .noLetters)

/-- `DoubleEnd::fmt` = `fmt_non_power_two` + `format_prepared` (the width of the `Formatter` is not
    consulted): sign, high digits, `..` + low digits for heap values, and for `{:#?}` the suffix
    ` (digits: D, bits: B)` -/
def doubleEndFmt (W est : Nat) (alt plus : Bool) (z : Int) : Except PanicKind (List Nat) :=
  let n := z.natAbs
  let sign : List Nat := if z < 0 then [45] else if plus then [43] else []
  match doubleEndPieces W est n with
  | .error e => .error e
  | .ok (high, low, nd) =>
    let body := high.map (rawToAscii .noLetters) ++
      (match low with
       | none => []
       | some l => [46, 46] ++ l.map (rawToAscii .noLetters))
    let verbose : List Nat :=
      if alt then [32, 40, 100, 105, 103, 105, 116, 115, 58, 32] ++ writeUsizeDecimals nd ++       -- " (digits: "
        [44, 32, 98, 105, 116, 115, 58, 32] ++ writeUsizeDecimals (bitLen n) ++ [41]              -- ", bits: " … ")"
      else []
    .ok (sign ++ body ++ verbose)

/-- **specification of `{:?}` / `{:+?}` / `{:#?}`** on `UBig` / `IBig`: sign, then ALL decimal digits when
    the magnitude fits two words, otherwise the `digits_per_word` LEADING decimal digits, `..`, and the
    `digits_per_word` TRAILING decimal digits of the reference decimal text; `#` appends
    ` (digits: D, bits: B)` with `D` the number of decimal digits (0 for zero) and `B` the bit length -/
def debugSpec (W : Nat) (alt plus : Bool) (z : Int) : List Nat :=
  let n := z.natAbs
  let sign : List Nat := if z < 0 then [45] else if plus then [43] else []
  let ds := printSpec 10 false n
  let dpw := (radixInfo W 10).dpw
  let body := if n < 2 ^ (2 * W) then ds else ds.take dpw ++ [46, 46] ++ ds.drop (ds.length - dpw)
  let nd := if n = 0 then 0 else ds.length
  sign ++ body ++
    (if alt then [32, 40, 100, 105, 103, 105, 116, 115, 58, 32] ++ printSpec 10 false nd ++
      [44, 32, 98, 105, 116, 115, 58, 32] ++ printSpec 10 false (bitLen n) ++ [41] else [])

end Dashu.Model.Text
