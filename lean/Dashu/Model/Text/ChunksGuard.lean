import Dashu.Model.Text.Bytes
/-
  C07 — the chunk SPECIFICATIONS evaluated without ever forming `2^k` for an astronomically large
  chunk size `k` (the driver is fed `chunk_bits` up to `usize::MAX`): equal to `chunksSpec` /
  `ofChunksSpec` for every input (`Props/C07.chunk_spec_guards`).  Core Lean only.
-/
namespace Dashu.Model.Text

/-- `chunksSpec n k`; a chunk size `k ≥ bit_len(n)` gives the single chunk `n` (none for 0) -/
def chunksSpecG (n k : Nat) : List Nat :=
  if bitLen n ≤ k then (if n = 0 then [] else [n]) else chunksSpec n k

/-- `ofChunksSpec k cs`; zero upper chunks contribute nothing -/
def ofChunksSpecG (k : Nat) : List Nat → Nat
  | [] => 0
  | c :: cs => let rest := ofChunksSpecG k cs; if rest = 0 then c else c + 2 ^ k * rest

end Dashu.Model.Text
