import Dashu.Model.Text.Bytes
/-
  C07 — the BIG-ENDIAN byte functions of `integer/src/convert.rs` mirrored as the separate code they are
  (`words_to_be_bytes`, `TypedReprRef::to_be_bytes`, `to_signed_be_bytes`, `word/dword_from_be_bytes_partial`,
  `Repr::from_be_bytes`, `from_signed_be_bytes`, `from_be_bytes_large` with `rchunks_exact` + `remainder`).
  `Proofs/Text/BytesBE.lean` proves them equal to the mirror-image model (`toBeBytes`, … of Bytes.lean) that the
  byte theorems are about.  Core Lean only.
-/
namespace Dashu.Model.Text
open Dashu.Model (val)

/-- `Word::to_be_bytes` (`W/8` bytes, most significant first) -/
def wordBeBytes (W w : Nat) : List Nat := digitsPad 256 (W / 8) w

/-- `words_to_be_bytes::<FLIP>` -/
def wordsToBeBytes (W : Nat) (flip : Bool) (words : List Nat) : List Nat :=
  let n := words.length
  let last := words.getLastD 0
  let skip := lzWord W last / 8
  let f := fun w => if flip then notWord W w else w
  (wordBeBytes W (f last)).drop skip ++ (words.take (n - 1)).reverse.flatMap (fun w => wordBeBytes W (f w))

/-- `TypedReprRef::to_be_bytes` on the magnitude `n` -/
def toBeBytesM (W n : Nat) : List Nat :=
  if n < 2 ^ (2 * W) then
    let skip := lzWord (2 * W) n / 8
    (wordBeBytes (2 * W) n).drop skip
  else wordsToBeBytes W false (wordsOf W n)

/-- `word_from_be_bytes_partial::<ONE_PAD>` / `dword_from_be_bytes_partial` / `Word::from_be_bytes`:
    `word_bytes[N - bytes.len()..].copy_from_slice(bytes)`, the missing HIGH bytes are the padding -/
def wordFromBePartial (nbytes : Nat) (onePad : Bool) (bs : List Nat) : Nat :=
  ofDigits 256 (List.replicate (nbytes - bs.length) (if onePad then 255 else 0) ++ bs)

/-- `bytes.rchunks_exact(k)` followed by `.remainder()`: groups of `k` taken from the END, the last
    group (the front of the slice) may be shorter -/
def rchunksExact (k : Nat) : Nat → List Nat → List (List Nat)
  | 0, _ => []
  | fuel + 1, l =>
    if k = 0 ∨ l = [] then []
    else if l.length ≤ k then [l]
    else l.drop (l.length - k) :: rchunksExact k fuel (l.take (l.length - k))

/-- `Repr::from_be_bytes_large::<NEG>`: the words pushed to the buffer (before `from_buffer`) -/
def fromBeBytesLarge (W : Nat) (neg : Bool) (bytes : List Nat) : List Nat :=
  let ws := (rchunksExact (W / 8) bytes.length bytes).map (fun g =>
    let w := wordFromBePartial (W / 8) neg g
    if neg then notWord W w else w)
  if neg then (Dashu.Model.addOne W ws).1 else ws

/-- `Repr::from_be_bytes` (value) -/
def fromBeBytesM (W : Nat) (bytes : List Nat) : Nat :=
  if bytes.length ≤ 2 * W / 8 then wordFromBePartial (2 * W / 8) false bytes
  else val W (fromBeBytesLarge W false bytes)

/-- `Repr::from_signed_be_bytes` (value): the sign is read from the FIRST byte -/
def fromSignedBeBytesM (W : Nat) (bytes : List Nat) : Int :=
  match bytes.head? with
  | none => 0
  | some top =>
    if top < 128 then (fromBeBytesM W bytes : Int)
    else if bytes.length ≤ 2 * W / 8 then
      Int.negOfNat ((notWord (2 * W) (wordFromBePartial (2 * W / 8) true bytes) + 1) % 2 ^ (2 * W))
    else Int.negOfNat (val W (fromBeBytesLarge W true bytes))

/-- `TypedReprRef::to_signed_be_bytes(negate)` on the magnitude `n` — as the code is: the heap path flips
    `magnitude - 1`, `bytes.insert(0, 0xff)` if that is one byte shorter than the magnitude, and the sign byte
    is inserted at the FRONT -/
def toSignedBeBytesM (W n : Nat) (negate : Bool) : List Nat :=
  if n = 0 then []
  else
    let small := n < 2 ^ (2 * W)
    let bytes :=
      if negate then
        if small then
          let skip := lzWord (2 * W) n / 8
          (wordBeBytes (2 * W) ((notWord (2 * W) n + 1) % 2 ^ (2 * W))).drop skip
        else
          let words := wordsOf W n
          let b := wordsToBeBytes W true (Dashu.Model.subOne W words).1
          let len := words.length * (W / 8) - lzWord W (words.getLastD 0) / 8
          if b.length < len then 255 :: b else b
      else toBeBytesM W n
    let lz := if small then lzWord (2 * W) n else lzWord W ((wordsOf W n).getLastD 0)
    if lz % 8 = 0 then (if negate then 255 else 0) :: bytes else bytes

/-- `IBig::to_be_bytes` -/
def ibigToBeBytesM (W : Nat) (z : Int) : List Nat := toSignedBeBytesM W z.natAbs (z < 0)

end Dashu.Model.Text
