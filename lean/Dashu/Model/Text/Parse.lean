import Dashu.Model.Text.Fmt
import Dashu.Model.Int.Word
/-
  C07 — model of integer parsing: `integer/src/parse/{mod,power_two,non_power_two}.rs`.
  Core Lean only.  Same level of detail as `Fmt.lean`: the grammar handling, the size classes, the
  chunked accumulation, the divide-and-conquer recursion and the bit packing for power-of-two
  radices (on words, with the word-size wrap of `<<`) are mirrored; `mul_word_in_place_with_carry`
  (refined in C01) and big `*`, `+`, `pow` are Nat arithmetic.
-/
namespace Dashu.Model.Text
open Dashu.Model (val)

-- ---------------------------------------------------------------- power-of-two radices

/-- `power_two::parse_word`: bytes from the right, `_` skipped, `word |= digit << bits` -/
def parsePow2WordLoop (log r : Nat) : List Nat → Nat → Nat → Except ParseError Nat
  | [], _, word => .ok word
  | c :: cs, bits, word =>
    if c = 95 then parsePow2WordLoop log r cs bits word
    else match digitOf r c with
      | none => .error .invalidDigit
      | some d => parsePow2WordLoop log r cs (bits + log) (word ||| (d <<< bits))

def parsePow2Word (log r : Nat) (src : List Nat) : Except ParseError Nat :=
  parsePow2WordLoop log r src.reverse 0 0

/-- the loop of `power_two::parse_large` (bytes from the right); `buf` = pushed words, newest first -/
def parsePow2LargeLoop (W log r : Nat) : List Nat → Nat → Nat → List Nat → Except ParseError (List Nat)
  | [], bits, word, buf => .ok (if bits > 0 then word :: buf else buf)
  | c :: cs, bits, word, buf =>
    if c = 95 then parsePow2LargeLoop W log r cs bits word buf
    else match digitOf r c with
      | none => .error .invalidDigit
      | some d =>
        let word := word ||| ((d <<< bits) % 2 ^ W)
        let newBits := bits + log
        if newBits ≥ W then
          parsePow2LargeLoop W log r cs (newBits - W) (d >>> (W - bits)) (word :: buf)
        else parsePow2LargeLoop W log r cs newBits word buf

/-- `power_two::parse_large` followed by `Repr::from_buffer` (value of the buffer) -/
def parsePow2Large (W log r : Nat) (src : List Nat) : Except ParseError Nat :=
  (parsePow2LargeLoop W log r src.reverse 0 0 []).map (fun buf => val W buf.reverse)

/-- `power_two::parse` -/
def parsePow2 (W r : Nat) (src : List Nat) : Except ParseError Nat :=
  let log := Nat.log2 r
  let dpw := W / log
  if src.length ≤ dpw then parsePow2Word log r src else parsePow2Large W log r src

-- ---------------------------------------------------------------- non-power-of-two radices

/-- parse `CHUNK_LEN`: the constant regenerated from integer/src/parse/non_power_two.rs (Tie A) -/
def parseChunkLen : Nat := Dashu.Gen.parse_CHUNK_LEN

/-- `non_power_two::parse_word`: `word = word * radix + digit` from the left -/
def parseWordLoop (r : Nat) : List Nat → Nat → Except ParseError Nat
  | [], word => .ok word
  | c :: cs, word =>
    match digitOf r c with
    | none => .error .invalidDigit
    | some d => parseWordLoop r cs (word * r + d)

def parseWord (r : Nat) (src : List Nat) : Except ParseError Nat := parseWordLoop r src 0

/-- consecutive groups of `k` bytes -/
def chunksOf (k : Nat) (l : List Nat) : List (List Nat) :=
  if _h : k = 0 ∨ l = [] then [] else l.take k :: chunksOf k (l.drop k)
termination_by l.length
decreasing_by
  have hk : k ≠ 0 := fun h => _h (Or.inl h)
  have hl : l.length ≠ 0 := fun h => _h (Or.inr (List.length_eq_zero_iff.mp h))
  simp only [List.length_drop]; omega

/-- `bytes.rchunks(k).rev()`: groups of `k` counted from the right, listed from the left
    (only the first group may be shorter) -/
def rchunksRev (k : Nat) (l : List Nat) : List (List Nat) :=
  let h := l.length % k
  if h = 0 then chunksOf k l else l.take h :: chunksOf k (l.drop h)

/-- the loop of `parse_chunk`: `buffer = buffer * range_per_word + parse_word(group)` -/
def parseChunkLoop (r rpw : Nat) : List (List Nat) → Nat → Except ParseError Nat
  | [], acc => .ok acc
  | g :: gs, acc =>
    match parseWord r g with
    | .error e => .error e
    | .ok next => parseChunkLoop r rpw gs (acc * rpw + next)

/-- `non_power_two::parse_chunk` -/
def parseChunk (W r : Nat) (bytes : List Nat) : Except ParseError Nat :=
  let ri := radixInfo W r
  parseChunkLoop r ri.rpw (rchunksRev ri.dpw bytes) 0

/-- `parse_large_divide_conquer`; `ps` = `radix_powers`, biggest first -/
def parseDC (W r chunkBytes : Nat) : List Nat → List Nat → Except ParseError Nat
  | [], bytes => parseChunk W r bytes
  | p :: ps, bytes =>
    let loLen := chunkBytes <<< ps.length
    if bytes.length ≤ loLen then parseDC W r chunkBytes ps bytes
    else
      match parseDC W r chunkBytes ps (bytes.take (bytes.length - loLen)) with
      | .error e => .error e
      | .ok hi =>
        match parseDC W r chunkBytes ps (bytes.drop (bytes.length - loLen)) with
        | .error e => .error e
        | .ok lo => .ok (hi * p + lo)

/-- the `while chunk_bytes <= (bytes.len() - 1) >> radix_powers.len()` loop of `parse_large` -/
def parsePowers (chunkBytes len : Nat) : Nat → List Nat → List Nat
  | 0, ps => ps
  | fuel + 1, ps =>
    match ps with
    | [] => []
    | prev :: _ =>
      if chunkBytes ≤ (len - 1) >>> ps.length then parsePowers chunkBytes len fuel (prev * prev :: ps)
      else ps

/-- `non_power_two::parse_large` -/
def parseLarge (W r : Nat) (bytes : List Nat) : Except ParseError Nat :=
  let ri := radixInfo W r
  let chunkBytes := parseChunkLen * ri.dpw
  let ps := parsePowers chunkBytes bytes.length bytes.length [ri.rpw ^ parseChunkLen]
  parseDC W r chunkBytes ps bytes

/-- `non_power_two::parse` -/
def parseNonPow2 (W r : Nat) (src : List Nat) : Except ParseError Nat :=
  let ri := radixInfo W r
  let bytes := if src.contains 95 then src.filter (· ≠ 95) else src
  if bytes.length ≤ ri.dpw then parseWord r bytes
  else if bytes.length ≤ parseChunkLen * ri.dpw then parseChunk W r bytes
  else parseLarge W r bytes

-- ---------------------------------------------------------------- grammar (parse/mod.rs)

/-- `while let Some(src2) = src.strip_prefix('0')` -/
def stripZeros : List Nat → List Nat
  | 48 :: rest => stripZeros rest
  | s => s

/-- `UBig::from_str_radix_no_sign`: a body without any byte other than `_` (in particular the empty
    one) has no digits -/
def parseNoSign (W : Nat) (src : List Nat) (r : Nat) : Except ParseError Nat :=
  if src.all (· == 95) then .error .noDigits
  else
    let src := stripZeros src
    if isPow2 r then parsePow2 W r src else parseNonPow2 W r src

/-- `UBig::from_str_radix` (`signed = false`) and `IBig::from_str_radix` (`signed = true`) -/
def parseRadix (W : Nat) (signed : Bool) (s : List Nat) (r : Nat) : Except ParseError Int :=
  if !validRadix r then .error .unsupportedRadix
  else
    let sb := splitSign signed s
    (parseNoSign W sb.2 r).map (applySign sb.1)

/-- `UBig::from_str_with_radix_prefix_no_sign`: the prefixes select radix 2 / 8 / 16; without a
    prefix the default radix is validated and used -/
def parsePrefixNoSign (W : Nat) (src : List Nat) (dflt : Nat) : Except ParseError (Nat × Nat) :=
  match src with
  | 48 :: 98 :: bin => (parseNoSign W bin 2).map (fun v => (v, 2))
  | 48 :: 111 :: oct => (parseNoSign W oct 8).map (fun v => (v, 8))
  | 48 :: 120 :: hex => (parseNoSign W hex 16).map (fun v => (v, 16))
  | _ =>
    if !validRadix dflt then .error .unsupportedRadix
    else (parseNoSign W src dflt).map (fun v => (v, dflt))

/-- `from_str_with_radix_default` of `UBig` (`signed = false`) and `IBig` (`signed = true`) -/
def parseDefault (W : Nat) (signed : Bool) (s : List Nat) (dflt : Nat) : Except ParseError (Int × Nat) :=
  let sb := splitSign signed s
  (parsePrefixNoSign W sb.2 dflt).map (fun vr => (applySign sb.1 vr.1, vr.2))

end Dashu.Model.Text
