import Dashu.Model.Text.Parse
import Dashu.Gen.TextLow
/-
  C07 — the fixed-size buffers of the integer printers and parsers as *bounded* arrays
  (core Lean only).  `Fmt.lean` / `Parse.lean` model these buffers as unbounded lists; here every
  store into a fixed-size array, every `copy_from_slice` into one, every `Buffer::push` and every
  `assert!` about a buffer is an explicit check that returns `BufPanic` when the real code would
  panic.  `Proofs/Text/Capacity.lean` proves that no check ever fires and that the checked
  functions compute what the unbounded ones compute — for every input.

  * `PreparedWord.digits : [u8; MAX_WORD_DIGITS_NON_POW_2]`, `PreparedDword.digits : [u8; MAX_DWORD_…]`
  * `repr_to_chunk_buffer : [Word; CHUNK_LEN]` (`copy_from_slice`), `PreparedMedium.low_groups : [Word; 16]`
  * `write_chunk`: `groups : [Word; 16]`, `assert_eq!(buffer_len, 0)`
  * power_two `PreparedWord.write : [u8; WORD_BITS]`, `PreparedDword.write : [u8; DWORD_BITS]`
  * `DigitWriter.buffer : [u8; BUFFER_LEN]`
  * parser: `word * radix + digit` in a `Word` (debug overflow check), `Buffer::push` against the
    allocated capacity in `parse_chunk` and `power_two::parse_large`, the `debug_assert!`s on lengths
-/
namespace Dashu.Model.Text

inductive BufPanic where
  | index (site : String)      -- index / slice range out of bounds, `copy_from_slice` length mismatch
  | assertion (site : String)  -- `assert!` / `debug_assert!` / `Buffer::push` capacity assertion
  | overflow (site : String)   -- arithmetic overflow (debug build)
  deriving Repr, DecidableEq

-- ---------------------------------------------------------------- constants

/-- `math::max_exp_in_dword(base)` -/
def maxExpInDword (W base : Nat) : Nat × Nat :=
  let p := maxExpInWord W base
  let exp := 2 * p.1
  let pow := p.2 * p.2
  if pow * base < 2 ^ (2 * W) then (exp + 1, pow * base) else (exp, pow)

/-- `radix::MAX_WORD_DIGITS_NON_POW_2` -/
def maxWordDigits (W : Nat) : Nat := (maxExpInWord W 3).1 + 1

/-- `radix::MAX_DWORD_DIGITS_NON_POW_2` -/
def maxDwordDigits (W : Nat) : Nat := (maxExpInDword W 3).1 + 1

/-- `DigitWriter::BUFFER_LEN = round_up(BUFFER_LEN_MIN, WORD_BYTES)`; `BUFFER_LEN_MIN` (32) is regenerated from
    fmt/digit_writer.rs on every run (Tie A) -/
def digitWriterLen (W : Nat) : Nat := ceilDiv Dashu.Gen.digit_writer_BUFFER_LEN_MIN (W / 8) * (W / 8)

-- ---------------------------------------------------------------- non-power-of-two printer

/-- `PreparedWord::new` with the digit array of `cap` bytes: `start_index -= 1` then a store -/
def pwLoopC (cap r : Nat) (word minD : Nat) (acc : List Nat) : Except BufPanic (List Nat) :=
  if _h : r < 2 ∨ (minD = 0 ∧ word = 0) then .ok acc
  else if acc.length ≥ cap then .error (.index "PreparedWord.digits")
  else pwLoopC cap r (word / r) (minD - 1) (word % r :: acc)
termination_by word + minD
decreasing_by
  have : word / r ≤ word := Nat.div_le_self _ _
  by_cases hw : word = 0
  · subst hw; simp; omega
  · have : word / r < word := Nat.div_lt_self (by omega) (by omega)
    omega

/-- `PreparedWord::new(word, radix, min_digits)` (`max_start = MAX − min_digits` must not underflow) -/
def preparedWordC (W r word minD : Nat) : Except BufPanic (List Nat) :=
  if minD > maxWordDigits W then .error (.overflow "PreparedWord::new max_start")
  else pwLoopC (maxWordDigits W) r word minD []

/-- `PreparedDword::new`: every `get_digit` stores into `digits[start_index - 1]` -/
def preparedDwordC (W r dword : Nat) : Except BufPanic (List Nat) :=
  let ds := preparedDword W r dword
  -- the stores are consecutive from the right end; the last one is the lowest index
  if ds.length > maxDwordDigits W then .error (.index "PreparedDword.digits") else .ok ds

/-- `repr_to_chunk_buffer(x)`: `buffer[..len].copy_from_slice(words)` into `[Word; 16]` -/
def reprToChunkBuffer (W x : Nat) : Except BufPanic Nat :=
  if wordLen W x > fmtChunkLen then .error (.index "repr_to_chunk_buffer") else .ok x

/-- the loop of `PreparedMedium::new` with `low_groups : [Word; 16]`; `num` = `num_low_groups` -/
def mediumLoopC (W rpw : Nat) (v : Nat) (groups : List Nat) : Except BufPanic (Nat × List Nat) :=
  if _h : rpw < 2 ∨ v < 2 ^ W then .ok (v, groups)
  else if groups.length ≥ fmtChunkLen then .error (.index "PreparedMedium.low_groups")
  else mediumLoopC W rpw (v / rpw) (v % rpw :: groups)
termination_by v
decreasing_by
  have : 0 < 2 ^ W := Nat.two_pow_pos W
  exact Nat.div_lt_self (by omega) (by omega)

def flatMapE {α β ε : Type} (f : α → Except ε (List β)) : List α → Except ε (List β)
  | [] => .ok []
  | a :: l =>
    match f a with
    | .error e => .error e
    | .ok x =>
      match flatMapE f l with
      | .error e => .error e
      | .ok y => .ok (x ++ y)

/-- `PreparedMedium::new` + `write` -/
def preparedMediumC (W r n : Nat) : Except BufPanic (List Nat) :=
  let ri := radixInfo W r
  match reprToChunkBuffer W n with
  | .error e => .error e
  | .ok n =>
    match mediumLoopC W ri.rpw n [] with
    | .error e => .error e
    | .ok tg =>
      match preparedWordC W r tg.1 1 with
      | .error e => .error e
      | .ok top =>
        match flatMapE (fun g => preparedWordC W r g ri.dpw) tg.2 with
        | .error e => .error e
        | .ok low => .ok (top ++ low)

/-- `PreparedLarge::write_chunk`: copy into the chunk buffer, 16 divisions, `assert_eq!(buffer_len, 0)` -/
def writeChunkC (W r x : Nat) : Except BufPanic (List Nat) :=
  let ri := radixInfo W r
  match reprToChunkBuffer W x with
  | .error e => .error e
  | .ok x =>
    if x / ri.rpw ^ fmtChunkLen ≠ 0 then .error (.assertion "write_chunk: assert_eq!(buffer_len, 0)")
    else flatMapE (fun g => preparedWordC W r g ri.dpw) (chunkGroups ri.rpw fmtChunkLen x [])

/-- `PreparedLarge::write_big_chunk` -/
def writeBigC (W r : Nat) : List Nat → Nat → Except BufPanic (List Nat)
  | [], x => writeChunkC W r x
  | p :: ps, x =>
    match writeBigC W r ps (x / p) with
    | .error e => .error e
    | .ok hi =>
      match writeBigC W r ps (x % p) with
      | .error e => .error e
      | .ok lo => .ok (hi ++ lo)

/-- `PreparedLarge::new` + `write` -/
def preparedLargeC (W r n : Nat) : Except BufPanic (List Nat) :=
  let ri := radixInfo W r
  let chunkPower := ri.rpw ^ fmtChunkLen
  if chunkPower > n then preparedMediumC W r n
  else
    match buildPowers W n (bitLen n) [chunkPower] with
    | [] => .error (.index "radix_powers")
    | p :: rest =>
      let xs := splitRest (n / p) rest [(rest, n % p)]
      match preparedMediumC W r xs.1 with
      | .error e => .error e
      | .ok top =>
        match flatMapE (fun c => writeBigC W r c.1 c.2) xs.2 with
        | .error e => .error e
        | .ok low => .ok (top ++ low)

/-- `InRadixWriter::fmt_non_power_two` with every buffer bounded -/
def fmtNonPow2C (W r n : Nat) : Except BufPanic (List Nat) :=
  if n < 2 ^ W then preparedWordC W r n 1
  else if n < 2 ^ (2 * W) then preparedDwordC W r n
  else
    let ri := radixInfo W r
    if wordLen W n * (ri.dpw + 1) ≤ fmtChunkLen * ri.dpw then preparedMediumC W r n
    else preparedLargeC W r n

-- ---------------------------------------------------------------- power-of-two printer

/-- power_two `PreparedWord::write` / `PreparedDword::write`: `digits : [u8; bits]`, `width` entries used -/
def pow2SmallC (bits log n : Nat) : Except BufPanic (List Nat) :=
  let width := max (ceilDiv (bitLen n) log) 1
  if width > bits then .error (.index "power_two PreparedWord.digits") else .ok (pow2Small log n)

def fmtPow2C (W r n : Nat) : Except BufPanic (List Nat) :=
  let log := Nat.log2 r
  if n < 2 ^ W then pow2SmallC W log n
  else if n < 2 ^ (2 * W) then pow2SmallC (2 * W) log n
  else .ok (pow2Large W log (wordsOf W n))

-- ---------------------------------------------------------------- DigitWriter

/-- state of a `DigitWriter`: the pending raw digits (`buffer[..buffer_len]`) and what was flushed -/
structure DW where
  pending : List Nat
  out : List Nat

/-- `DigitWriter::flush`: convert the pending digits to ASCII and hand them to the writer -/
def DW.flush (c : DigitCase) (s : DW) : DW := ⟨[], s.out ++ s.pending.map (rawToAscii c)⟩

/-- `DigitWriter::write(buf)`: copy `min(buf.len(), BUFFER_LEN − buffer_len)` bytes, flush when full.
    The slice `buffer[buffer_len .. buffer_len + len]` must lie inside the array. -/
def DW.write (cap : Nat) (c : DigitCase) (s : DW) (buf : List Nat) : Except BufPanic DW :=
  if _h : buf = [] then .ok s
  else
    let len := min buf.length (cap - s.pending.length)
    if s.pending.length + len > cap then .error (.index "DigitWriter.buffer")
    else if len = 0 then .error (.assertion "DigitWriter::write makes no progress")
    else
      let s' : DW := ⟨s.pending ++ buf.take len, s.out⟩
      let s'' := if s'.pending.length = cap then s'.flush c else s'
      DW.write cap c s'' (buf.drop len)
termination_by buf.length
decreasing_by
  simp only [List.length_drop]
  have : buf.length ≠ 0 := fun h => _h (List.length_eq_zero_iff.mp h)
  omega

-- ---------------------------------------------------------------- parsers

/-- `non_power_two::parse_word`: `word * radix + digit` computed in a `Word` -/
def parseWordLoopC (W r : Nat) : List Nat → Nat → Except BufPanic (Except ParseError Nat)
  | [], word => .ok (.ok word)
  | c :: cs, word =>
    match digitOf r c with
    | none => .ok (.error .invalidDigit)
    | some d =>
      if word * r + d ≥ 2 ^ W then .error (.overflow "parse_word") else parseWordLoopC W r cs (word * r + d)

/-- the loop of `parse_chunk` against `Buffer::allocate(groups.len())`: `len` = `buffer.len()`,
    a `push` needs `len < capacity`; the value is kept as a number -/
def parseChunkLoopC (W r rpw cap : Nat) : List (List Nat) → Nat → Nat → Except BufPanic (Except ParseError Nat)
  | [], _, acc => .ok (.ok acc)
  | g :: gs, len, acc =>
    match parseWordLoopC W r g 0 with
    | .error e => .error e
    | .ok (.error e) => .ok (.error e)
    | .ok (.ok next) =>
      let acc' := acc * rpw + next
      -- `mul_word_in_place_with_carry` over `len` words; the carry is pushed if non-zero
      let carry := acc' / 2 ^ (W * len)
      if carry ≥ 2 ^ W then .error (.overflow "mul_word_in_place_with_carry carry")
      else if carry ≠ 0 then
        if len ≥ cap then .error (.assertion "Buffer::push") else parseChunkLoopC W r rpw cap gs (len + 1) acc'
      else parseChunkLoopC W r rpw cap gs len acc'

/-- `Buffer::default_capacity` (without the `MAX_CAPACITY` clamp, which is far away) -/
def defaultCapacity (n : Nat) : Nat := n + n / 8 + 2

/-- `parse_chunk` with its debug assertion on the length and the bounded buffer -/
def parseChunkC (W r : Nat) (bytes : List Nat) : Except BufPanic (Except ParseError Nat) :=
  let ri := radixInfo W r
  if bytes.length > parseChunkLen * ri.dpw then .error (.assertion "parse_chunk: bytes.len() <= CHUNK_LEN * digits_per_word")
  else
    let groups := rchunksRev ri.dpw bytes
    parseChunkLoopC W r ri.rpw (defaultCapacity groups.length) groups 0 0

/-- the loop of `power_two::parse_large` with the buffer of `cap` words -/
def parsePow2LargeLoopC (W log r cap : Nat) : List Nat → Nat → Nat → List Nat → Except BufPanic (Except ParseError (List Nat))
  | [], bits, word, buf =>
    if bits > 0 then (if buf.length ≥ cap then .error (.assertion "Buffer::push") else .ok (.ok (word :: buf)))
    else .ok (.ok buf)
  | c :: cs, bits, word, buf =>
    if c = 95 then parsePow2LargeLoopC W log r cap cs bits word buf
    else match digitOf r c with
      | none => .ok (.error .invalidDigit)
      | some d =>
        let word := word ||| ((d <<< bits) % 2 ^ W)
        let newBits := bits + log
        if newBits ≥ W then
          if buf.length ≥ cap then .error (.assertion "Buffer::push")
          else if W - bits ≥ W then .error (.overflow "digit >> (WORD_BITS - bits)")
          else parsePow2LargeLoopC W log r cap cs (newBits - W) (d >>> (W - bits)) (word :: buf)
        else parsePow2LargeLoopC W log r cap cs newBits word buf

/-- `power_two::parse_large`: `Buffer::allocate((num_bits − 1) / WORD_BITS + 1)` -/
def parsePow2LargeC (W log r : Nat) (src : List Nat) : Except BufPanic (Except ParseError (List Nat)) :=
  let numBits := src.length * log
  parsePow2LargeLoopC W log r (defaultCapacity ((numBits - 1) / W + 1)) src.reverse 0 0 []

/-- `parse_large_divide_conquer` with its `debug_assert!(bytes.len() <= chunk_bytes << radix_powers.len())`
    and the bounded `parse_chunk` at the leaves -/
def parseDCC (W r chunkBytes : Nat) : List Nat → List Nat → Except BufPanic (Except ParseError Nat)
  | [], bytes =>
    if bytes.length > chunkBytes then .error (.assertion "parse_large_divide_conquer: bytes.len() <= chunk_bytes << 0")
    else parseChunkC W r bytes
  | p :: ps, bytes =>
    if bytes.length > chunkBytes <<< (ps.length + 1) then
      .error (.assertion "parse_large_divide_conquer: bytes.len() <= chunk_bytes << radix_powers.len()")
    else
      let loLen := chunkBytes <<< ps.length
      if bytes.length ≤ loLen then parseDCC W r chunkBytes ps bytes
      else
        match parseDCC W r chunkBytes ps (bytes.take (bytes.length - loLen)) with
        | .error e => .error e
        | .ok (.error e) => .ok (.error e)
        | .ok (.ok hi) =>
          match parseDCC W r chunkBytes ps (bytes.drop (bytes.length - loLen)) with
          | .error e => .error e
          | .ok (.error e) => .ok (.error e)
          | .ok (.ok lo) => .ok (.ok (hi * p + lo))

/-- `non_power_two::parse_large` -/
def parseLargeC (W r : Nat) (bytes : List Nat) : Except BufPanic (Except ParseError Nat) :=
  let ri := radixInfo W r
  let chunkBytes := parseChunkLen * ri.dpw
  let ps := parsePowers chunkBytes bytes.length bytes.length [ri.rpw ^ parseChunkLen]
  parseDCC W r chunkBytes ps bytes

/-- `non_power_two::parse` with every buffer and assertion -/
def parseNonPow2C (W r : Nat) (src : List Nat) : Except BufPanic (Except ParseError Nat) :=
  let ri := radixInfo W r
  let bytes := if src.contains 95 then src.filter (· ≠ 95) else src
  if bytes.length ≤ ri.dpw then parseWordLoopC W r bytes 0
  else if bytes.length ≤ parseChunkLen * ri.dpw then parseChunkC W r bytes
  else parseLargeC W r bytes

/-- `power_two::parse` (`parse_word` works in a `Word`: no digit may be shifted out) -/
def parsePow2C (W r : Nat) (src : List Nat) : Except BufPanic (Except ParseError Nat) :=
  let log := Nat.log2 r
  let dpw := W / log
  if src.length ≤ dpw then
    match parsePow2Word log r src with
    | .error e => .ok (.error e)
    | .ok v => if v ≥ 2 ^ W then .error (.overflow "power_two::parse_word") else .ok (.ok v)
  else
    match parsePow2LargeC W log r src with
    | .error e => .error e
    | .ok (.error e) => .ok (.error e)
    | .ok (.ok buf) => .ok (.ok (Dashu.Model.val W buf.reverse))

/-- `InRadixWriter::fmt` with every buffer bounded -/
def rawDigitsC (W r n : Nat) : Except BufPanic (List Nat) :=
  if isPow2 r then fmtPow2C W r n else fmtNonPow2C W r n

/-- the digit loops of `from_str_radix_no_sign` with every buffer bounded -/
def parseCoreC (W r : Nat) (src : List Nat) : Except BufPanic (Except ParseError Nat) :=
  if isPow2 r then parsePow2C W r src else parseNonPow2C W r src

/-- writing all digits through a `DigitWriter` and flushing at the end -/
def digitWriterRun (W : Nat) (c : DigitCase) (pieces : List (List Nat)) : Except BufPanic (List Nat) :=
  let rec go (s : DW) : List (List Nat) → Except BufPanic DW
    | [] => .ok s
    | b :: bs =>
      match DW.write (digitWriterLen W) c s b with
      | .error e => .error e
      | .ok s' => go s' bs
  match go ⟨[], []⟩ pieces with
  | .error e => .error e
  | .ok s => .ok (s.flush c).out

end Dashu.Model.Text
