import Dashu.Model.Text.Spec
import Dashu.Gen.Misc
/-
  C07 — model of integer printing: `integer/src/radix.rs`, `integer/src/math.rs::max_exp_in_word`,
  `integer/src/fmt/{mod,non_power_two,power_two,digit_writer}.rs`.  Core Lean only.

  Level of detail.  Numbers are `Nat`; the size classes of the code (word / double word / medium /
  large; small / large for power-of-two radices) and their loops are mirrored one by one.  Division
  of a buffer by `range_per_word` (`div::fast_div_by_word_in_place`), the pre-inverted single-word
  divisions of `num_modular` (`fast_div_radix`, `fast_div_range_per_word` incl. the normalisation
  shifts of `PreparedDword::new`) and big `div_rem`/`sqr`/`pow` are Nat `/`, `%`, `*`, `^` here (they are
  the division/multiplication kernels of C01/C02 — frontier for this property).  The power-of-two
  large path is mirrored on the word list (bit slicing across word boundaries).
-/
namespace Dashu.Model.Text

-- ---------------------------------------------------------------- radix tables

/-- the `while let Some(prod) = pow.checked_mul(base)` loop of `max_exp_in_word` -/
def maxExpLoop (W base : Nat) : Nat → Nat → Nat → Nat × Nat
  | 0, exp, pow => (exp, pow)
  | fuel + 1, exp, pow =>
    if pow * base < 2 ^ W then maxExpLoop W base fuel (exp + 1) (pow * base) else (exp, pow)

/-- `math::max_exp_in_word(base)`: the max `k` with `base^k ≤ Word::MAX`, and `base^k` -/
def maxExpInWord (W base : Nat) : Nat × Nat :=
  if base > 2 ^ (W / 2) - 1 then (1, base)
  else
    let exp := W / bitLen base
    maxExpLoop W base W exp (base ^ exp)

/-- `RadixInfo` (the parts that carry information): `digits_per_word`, `range_per_word` -/
structure RadixInfo where
  dpw : Nat
  rpw : Nat
  deriving Repr, DecidableEq

/-- `radix::radix_info` -/
def radixInfo (W r : Nat) : RadixInfo :=
  let p := maxExpInWord W r
  ⟨p.1, p.2⟩

/-- `u32::is_power_of_two` -/
def isPow2 (r : Nat) : Bool := r != 0 && 2 ^ Nat.log2 r == r

/-- number of words of a magnitude (`TypedReprRef::len`, 0 for 0) -/
def wordLen (W n : Nat) : Nat := ceilDiv (bitLen n) W

-- ---------------------------------------------------------------- non-power-of-two radices

/-- the loop of `PreparedWord::new(word, radix, min_digits)`:
    `while start_index > max_start || word != 0 { (word, d) = div_rem(word, radix); push d }`;
    digits are produced least significant first and stored right to left, so `acc` ends up
    most significant first. -/
def pwLoop (r : Nat) (word minD : Nat) (acc : List Nat) : List Nat :=
  if _h : r < 2 ∨ (minD = 0 ∧ word = 0) then acc
  else pwLoop r (word / r) (minD - 1) (word % r :: acc)
termination_by word + minD
decreasing_by
  have : word / r ≤ word := Nat.div_le_self _ _
  by_cases hw : word = 0
  · subst hw; simp; omega
  · have : word / r < word := Nat.div_lt_self (by omega) (by omega)
    omega

/-- `PreparedWord::new(word, radix, min_digits)` then `write` -/
def preparedWord (r word minD : Nat) : List Nat := pwLoop r word minD []

/-- `get_digit` applied `count` times to one part -/
def takeDigits (r : Nat) : Nat → Nat → List Nat → Nat × List Nat
  | 0, p, acc => (p, acc)
  | c + 1, p, acc => takeDigits r c (p / r) (p % r :: acc)

/-- the middle loop of `PreparedDword::new`: up to `count` digits of `p1`, stopping early when
    `p1 == 0 && p2 == 0` -/
def midDigits (r : Nat) : Nat → Nat → Nat → List Nat → List Nat
  | 0, _, _, acc => acc
  | c + 1, p1, p2, acc =>
    if p1 = 0 ∧ p2 = 0 then acc else midDigits r c (p1 / r) p2 (p1 % r :: acc)

/-- `PreparedDword::new(dword, radix)`: three parts separated by `range_per_word` -/
def preparedDword (W r dword : Nat) : List Nat :=
  let ri := radixInfo W r
  let p0 := dword % ri.rpw
  let q := dword / ri.rpw
  let p1 := q % ri.rpw
  let p2 := q / ri.rpw
  let a0 := (takeDigits r ri.dpw p0 []).2
  let a1 := midDigits r ri.dpw p1 p2 a0
  pwLoop r p2 0 a1

/-- the loop of `PreparedMedium::new`: while the buffer has more than one word, divide it by
    `range_per_word` and record the remainder as the next low group.  Returns the top word and the
    groups, most significant first.  (`low_groups` is a `[Word; 16]` in the code.) -/
def mediumLoop (W rpw : Nat) (v : Nat) (groups : List Nat) : Nat × List Nat :=
  if _h : rpw < 2 ∨ v < 2 ^ W then (v, groups)
  else mediumLoop W rpw (v / rpw) (v % rpw :: groups)
termination_by v
decreasing_by
  have : 0 < 2 ^ W := Nat.two_pow_pos W
  exact Nat.div_lt_self (by omega) (by omega)

/-- `PreparedMedium::new` + `write`: top group unpadded, low groups padded to `digits_per_word` -/
def preparedMedium (W r n : Nat) : List Nat :=
  let ri := radixInfo W r
  let tg := mediumLoop W ri.rpw n []
  preparedWord r tg.1 1 ++ tg.2.flatMap (fun g => preparedWord r g ri.dpw)

/-- fmt `CHUNK_LEN`: the constant regenerated from integer/src/fmt/non_power_two.rs (Tie A) -/
def fmtChunkLen : Nat := Dashu.Gen.fmt_CHUNK_LEN

/-- the `for group in groups.iter_mut()` loop of `write_chunk`: exactly `count` groups -/
def chunkGroups (rpw : Nat) : Nat → Nat → List Nat → List Nat
  | 0, _, acc => acc
  | c + 1, x, acc => chunkGroups rpw c (x / rpw) (x % rpw :: acc)

/-- `PreparedLarge::write_chunk`: `digits_per_word * CHUNK_LEN` digits, zero padded -/
def writeChunk (W r x : Nat) : List Nat :=
  let ri := radixInfo W r
  (chunkGroups ri.rpw fmtChunkLen x []).flatMap (fun g => preparedWord r g ri.dpw)

/-- `PreparedLarge::write_big_chunk(i, x)`; `ps` = `radix_powers[..i]`, biggest first -/
def writeBig (W r : Nat) : List Nat → Nat → List Nat
  | [], x => writeChunk W r x
  | p :: ps, x => writeBig W r ps (x / p) ++ writeBig W r ps (x % p)

/-- the `loop` of `PreparedLarge::new` that squares the last power while it may still be `≤ number`;
    `ps` = `radix_powers`, biggest first.  The length shortcut is the predicate REGENERATED from the
    source text on every run (`Dashu.Gen.fmt_tower_stop`, Tie A): `2 * prev.len() - 1 > number.len()`. -/
def buildPowers (W n : Nat) : Nat → List Nat → List Nat
  | 0, ps => ps
  | fuel + 1, ps =>
    match ps with
    | [] => []
    | prev :: _ =>
      if Dashu.Gen.fmt_tower_stop (wordLen W prev) (wordLen W n) then ps
      else
        let new := prev * prev
        if new > n then ps else buildPowers W n fuel (new :: ps)

/-- the `for (i, p) in power_iter` loop: split off a big chunk for every power that fits.
    `acc` = `big_chunks` in writing order (most significant first); a chunk remembers the powers
    below its own index. -/
def splitRest : Nat → List Nat → List (List Nat × Nat) → Nat × List (List Nat × Nat)
  | x, [], acc => (x, acc)
  | x, p :: ps, acc =>
    if x ≥ p then splitRest (x / p) ps ((ps, x % p) :: acc) else splitRest x ps acc

/-- `PreparedLarge::new` + `write` -/
def preparedLarge (W r n : Nat) : List Nat :=
  let ri := radixInfo W r
  let chunkPower := ri.rpw ^ fmtChunkLen
  if chunkPower > n then preparedMedium W r n
  else
    match buildPowers W n (bitLen n) [chunkPower] with
    | [] => []
    | p :: rest =>
      let xs := splitRest (n / p) rest [(rest, n % p)]
      preparedMedium W r xs.1 ++ xs.2.flatMap (fun c => writeBig W r c.1 c.2)

/-- `InRadixWriter::fmt_non_power_two` (raw digit values, most significant first) -/
def fmtNonPow2 (W r n : Nat) : List Nat :=
  if n < 2 ^ W then preparedWord r n 1
  else if n < 2 ^ (2 * W) then preparedDword W r n
  else
    let ri := radixInfo W r
    if wordLen W n * (ri.dpw + 1) ≤ fmtChunkLen * ri.dpw then preparedMedium W r n
    else preparedLarge W r n

-- ---------------------------------------------------------------- power-of-two radices

/-- `PreparedWord` / `PreparedDword` of power_two.rs: `width = max(1, ceil(bit_len / log_radix))`,
    digit `idx` (from the right) is `(x >> (idx * log_radix)) & mask` -/
def pow2Small (log n : Nat) : List Nat :=
  let width := max (ceilDiv (bitLen n) log) 1
  (List.range width).reverse.map (fun idx => (n >>> (idx * log)) % 2 ^ log)

/-- the `else` arm of the `PreparedLarge::write` loop, repeated while `bits ≥ log_radix`:
    `bits -= log_radix; digit = (word >> bits) & mask`.  Returns the digits and the bits left. -/
def emitBits (log word : Nat) (bits : Nat) : List Nat × Nat :=
  if _h : log = 0 ∨ bits < log then ([], bits)
  else
    let rest := emitBits log word (bits - log)
    (((word >>> (bits - log)) % 2 ^ log) :: rest.1, rest.2)
termination_by bits
decreasing_by omega

/-- the `PreparedLarge::write` loop of power_two.rs over the remaining lower words
    (most significant first): when fewer than `log_radix` bits are left in `word`, the next digit
    straddles the boundary: `((word << extra_bits | w >> bits) & mask)` with word-size wrap of `<<`. -/
def pow2Stream (W log : Nat) (word bits : Nat) : List Nat → List Nat
  | [] => (emitBits log word bits).1
  | w :: rest =>
    let e := emitBits log word bits
    let extra := log - e.2
    let bits' := W - extra
    let digit := (((word <<< extra) % 2 ^ W) ||| (w >>> bits')) % 2 ^ log
    e.1 ++ digit :: pow2Stream W log w bits' rest

/-- little-endian words of `n` (`[]` for 0) -/
def wordsOf (W n : Nat) : List Nat := (digitsAux (2 ^ W) n []).reverse

/-- `PreparedLarge::new` + `write` of power_two.rs on a word slice (little endian, top word ≠ 0) -/
def pow2Large (W log : Nat) (words : List Nat) : List Nat :=
  match words.reverse with
  | [] => []
  | top :: rest =>
    let width := max (ceilDiv (words.length * W - (W - bitLen top)) log) 1
    let bits := width * log - (words.length - 1) * W
    pow2Stream W log top bits rest

/-- `InRadixWriter::fmt_power_two` -/
def fmtPow2 (W r n : Nat) : List Nat :=
  let log := Nat.log2 r
  if n < 2 ^ (2 * W) then pow2Small log n else pow2Large W log (wordsOf W n)

-- ---------------------------------------------------------------- layout

/-- `DigitCase` as the offset added to digits ≥ 10 (`NoLetters`, `Lower`, `Upper`) -/
inductive DigitCase where
  | noLetters | lower | upper
  deriving Repr, DecidableEq

def DigitCase.offset : DigitCase → Nat
  | .noLetters => 0 | .lower => 39 | .upper => 7

/-- `digit_chunk_raw_to_ascii`, per byte: `+ '0'`, and `+ case offset` for digits ≥ 10 -/
def rawToAscii (c : DigitCase) (d : Nat) : Nat :=
  (if c ≠ .noLetters ∧ 10 ≤ d then d + c.offset else d) + 48

/-- `InRadixWriter::fmt`: the raw digits of the magnitude -/
def rawDigits (W r n : Nat) : List Nat := if isPow2 r then fmtPow2 W r n else fmtNonPow2 W r n

/-- `InRadixWriter::format_prepared`: sign, prefix, digits and padding -/
def formatPrepared (f : FmtSpec) (neg : Bool) (pfx : List Nat) (digitsAscii : List Nat) : List Nat :=
  let width := digitsAscii.length
  let sign : List Nat := if neg then [45] else if f.plus then [43] else []
  let width := width + (sign.length + pfx.length)
  match f.width with
  | none => sign ++ pfx ++ digitsAscii
  | some minWidth =>
    if width ≥ minWidth then sign ++ pfx ++ digitsAscii
    else if f.zero then sign ++ pfx ++ rep (minWidth - width) [48] ++ digitsAscii
    else
      let leftPad := match f.align with
        | some .left => 0
        | some .right | none => minWidth - width
        | some .center => (minWidth - width) / 2
      rep leftPad f.fill ++ sign ++ pfx ++ digitsAscii ++ rep (minWidth - width - leftPad) f.fill

/-- which trait prints: Display / Binary / Octal / LowerHex / UpperHex / `in_radix(r)` Display -/
inductive FmtTrait where
  | display | binary | octal | lowerHex | upperHex | inRadix (r : Nat)
  deriving Repr, DecidableEq

def FmtTrait.radix : FmtTrait → Nat
  | .display => 10 | .binary => 2 | .octal => 8 | .lowerHex => 16 | .upperHex => 16 | .inRadix r => r

/-- prefix handed to the writer (already conditional on `#`, as in the trait impls) -/
def FmtTrait.pfx (f : FmtSpec) : FmtTrait → List Nat
  | .binary => if f.alt then [48, 98] else []
  | .octal => if f.alt then [48, 111] else []
  | .lowerHex | .upperHex => if f.alt then [48, 120] else []
  | _ => []

def FmtTrait.digitCase (f : FmtSpec) : FmtTrait → DigitCase
  | .lowerHex => .lower
  | .upperHex => .upper
  | .inRadix r => if r ≤ 10 then .noLetters else if f.alt then .upper else .lower
  | _ => .noLetters

/-- the whole formatting path of `UBig`/`IBig` through one of the traits (radix assumed valid;
    `in_radix` panics otherwise — handled by the caller) -/
def fmtModel (W : Nat) (t : FmtTrait) (f : FmtSpec) (z : Int) : List Nat :=
  let ds := (rawDigits W t.radix z.natAbs).map (rawToAscii (t.digitCase f))
  formatPrepared f (z < 0) (t.pfx f) ds

/-- the same through the specification: `digits` + `pad_integral` -/
def fmtSpec (t : FmtTrait) (f : FmtSpec) (z : Int) : List Nat :=
  let upper := match t with
    | .upperHex => true
    | .inRadix _ => f.alt
    | _ => false
  let pfx : List Nat := match t with
    | .binary => [48, 98] | .octal => [48, 111] | .lowerHex | .upperHex => [48, 120] | _ => []
  padIntegral f (0 ≤ z) pfx (printSpec t.radix upper z.natAbs)

end Dashu.Model.Text
