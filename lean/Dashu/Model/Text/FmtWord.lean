import Dashu.Model.Text.Fmt
import Dashu.Model.Int.Div
/-
  C07 — word-level model of the single-word divisions inside the non-power-of-two printers (core
  Lean only): the buffers are word lists, the divisions are builder-div's models of
  `div::fast_div_by_word_in_place` (normalising shift, `Normalized2by1Divisor::div_rem_2by1` per
  word, remainder un-shift) and `math::shl_dword`, whose contracts are proved in
  `Proofs/Int/Div.lean` / `Proofs/Int/NumModularContract.lean` (C02).
-/
namespace Dashu.Model.Text
open Dashu.Model Dashu.Model.Div

/-- `while buffer[buffer_len - 1] == 0 { buffer_len -= 1 }` -/
def trimZeros (ws : List Nat) : List Nat := (ws.reverse.dropWhile (· == 0)).reverse

/-- the loop of `PreparedMedium::new` on the word buffer: while more than one word is left, divide by
    `range_per_word` with `fast_div_by_word_in_place`, record the remainder, drop the leading zero
    words -/
def mediumLoopW (W rpw shift : Nat) : Nat → List Nat → List Nat → Except PanicKind (Nat × List Nat)
  | 0, ws, g => .ok (ws.headD 0, g)
  | fuel + 1, ws, g =>
    if ws.length ≤ 1 then .ok (ws.headD 0, g)
    else
      match fastDivByWordInPlace W ws shift (rpw * 2 ^ shift) with
      | .error e => .error e
      | .ok (qs, rem) => mediumLoopW W rpw shift fuel (trimZeros qs) (rem :: g)

/-- `PreparedMedium::new(words)` + `write` -/
def preparedMediumW (W r : Nat) (ws : List Nat) : Except PanicKind (List Nat) :=
  let ri := radixInfo W r
  match mediumLoopW W ri.rpw (lz W ri.rpw) (W * ws.length + 1) ws [] with
  | .error e => .error e
  | .ok tg => .ok (preparedWord r tg.1 1 ++ tg.2.flatMap (fun g => preparedWord r g ri.dpw))

/-- the `for group in groups.iter_mut()` loop of `write_chunk`: `count` divisions of the buffer, the
    trimming guarded by `buffer_len != 0` -/
def chunkGroupsW (W rpw shift : Nat) : Nat → List Nat → List Nat → Except PanicKind (List Nat × List Nat)
  | 0, ws, acc => .ok (ws, acc)
  | c + 1, ws, acc =>
    match fastDivByWordInPlace W ws shift (rpw * 2 ^ shift) with
    | .error e => .error e
    | .ok (qs, rem) => chunkGroupsW W rpw shift c (trimZeros qs) (rem :: acc)

/-- `PreparedLarge::write_chunk(x)` on the words of `x`, including `assert_eq!(buffer_len, 0)` -/
def writeChunkW (W r : Nat) (ws : List Nat) : Except PanicKind (List Nat) :=
  let ri := radixInfo W r
  match chunkGroupsW W ri.rpw (lz W ri.rpw) fmtChunkLen ws [] with
  | .error e => .error e
  | .ok (rest, gs) =>
    if rest ≠ [] then .error (assertErr "write_chunk: buffer_len == 0")
    else .ok (gs.flatMap (fun g => preparedWord r g ri.dpw))

/-- the three-part split of `PreparedDword::new`: `shl_dword` by the normalising shift of
    `range_per_word`, two `div_rem_2by1` for the low part, the quotient shifted back up and divided
    once more; returns `(p0, p1, p2)` -/
def dwordSplitW (W rpw dword : Nat) : Except PanicKind (Nat × Nat × Nat) := do
  let shift := lz W rpw
  let d := rpw * 2 ^ shift
  let (lo, mid, hi) := shlDword W dword shift
  let (q1, r) ← div2by1 W d (mid + 2 ^ W * hi)
  let (q0, p0) ← div2by1 W d (lo + 2 ^ W * r)
  let q := ((q0 + 2 ^ W * q1) * 2 ^ shift) % 2 ^ (2 * W)      -- `double_word(q0, q1) << shift` on a `DoubleWord`
  let (p2, p1) ← div2by1 W d q
  pure (p0 / 2 ^ shift, p1 / 2 ^ shift, p2)

/-- `PreparedDword::new(dword, radix)` with the word-level split -/
def preparedDwordW (W r dword : Nat) : Except PanicKind (List Nat) :=
  let ri := radixInfo W r
  match dwordSplitW W ri.rpw dword with
  | .error e => .error e
  | .ok (p0, p1, p2) =>
    let a0 := (takeDigits r ri.dpw p0 []).2
    let a1 := midDigits r ri.dpw p1 p2 a0
    .ok (pwLoop r p2 0 a1)

end Dashu.Model.Text
