import Dashu.Model.Text.Parse
/-
  C07 — model of the byte and chunk encodings of `integer/src/convert.rs`
  (`words_to_le_bytes`, `to_le_bytes`, `to_signed_le_bytes`, `from_le_bytes`, `from_signed_le_bytes`,
  `from_le_bytes_large`, `words_to_chunks`, `to_chunks`, `from_chunks`), on word lists, as the
  code is (after the `fix:` commits dcc404d, 49f0136, 1bc13a7).  Core Lean only.

  The big-endian functions are the mirror image of the little-endian ones in the code
  (`to_be_bytes` ↔ reversed output, `rchunks_exact`/`from_be_bytes` ↔ `chunks_exact`/`from_le_bytes`
  on the reversed input); they are modelled through list reversal.
  `shift::shr_in_place` (C09) and `shl_in_place` + `add_in_place` of `chunks_to_words` are arithmetic
  on the value here.
-/
namespace Dashu.Model.Text
open Dashu.Model (val subOne addOne)

/-- `Word::leading_zeros` -/
def lzWord (W w : Nat) : Nat := W - bitLen w

/-- `!word` -/
def notWord (W w : Nat) : Nat := 2 ^ W - 1 - w

/-- `Word::to_le_bytes` (`W/8` bytes) -/
def wordLeBytes (W w : Nat) : List Nat := digitsPadLE 256 (W / 8) w

/-- `words_to_le_bytes::<FLIP>` -/
def wordsToLeBytes (W : Nat) (flip : Bool) (words : List Nat) : List Nat :=
  let n := words.length
  let last := words.getLastD 0
  let skip := lzWord W last / 8
  let f := fun w => if flip then notWord W w else w
  (words.take (n - 1)).flatMap (fun w => wordLeBytes W (f w))
    ++ (wordLeBytes W (f last)).take (W / 8 - skip)

/-- `TypedReprRef::to_le_bytes` on the magnitude `n` -/
def toLeBytes (W n : Nat) : List Nat :=
  if n < 2 ^ (2 * W) then
    let skip := lzWord (2 * W) n / 8
    (wordLeBytes (2 * W) n).take (2 * W / 8 - skip)
  else wordsToLeBytes W false (wordsOf W n)

/-- `TypedReprRef::to_signed_le_bytes(negate)` on the magnitude `n` — as the code is -/
def toSignedLeBytes (W n : Nat) (negate : Bool) : List Nat :=
  if n = 0 then []
  else
    let small := n < 2 ^ (2 * W)
    let bytes :=
      if negate then
        if small then
          let skip := lzWord (2 * W) n / 8
          (wordLeBytes (2 * W) ((notWord (2 * W) n + 1) % 2 ^ (2 * W))).take (2 * W / 8 - skip)
        else
          -- heap path: flip `magnitude - 1`, then `bytes.resize(len, 0xff)` to the byte length of
          -- the magnitude itself
          let words := wordsOf W n
          let b := wordsToLeBytes W true (subOne W words).1
          let len := words.length * (W / 8) - lzWord W (words.getLastD 0) / 8
          b.take len ++ List.replicate (len - b.length) 255
      else toLeBytes W n
    let lz := if small then lzWord (2 * W) n else lzWord W ((wordsOf W n).getLastD 0)
    if lz % 8 = 0 then bytes ++ [if negate then 255 else 0] else bytes

/-- `IBig::to_le_bytes` -/
def ibigToLeBytes (W : Nat) (z : Int) : List Nat := toSignedLeBytes W z.natAbs (z < 0)

/-- `word_from_le_bytes_partial::<ONE_PAD>` / `Word::from_le_bytes` -/
def wordFromLePartial (nbytes : Nat) (onePad : Bool) (bs : List Nat) : Nat :=
  ofDigitsLE 256 (bs ++ List.replicate (nbytes - bs.length) (if onePad then 255 else 0))

/-- `Repr::from_le_bytes_large::<NEG>`: the words pushed to the buffer (before `from_buffer`) -/
def fromLeBytesLarge (W : Nat) (neg : Bool) (bytes : List Nat) : List Nat :=
  let ws := (chunksOf (W / 8) bytes).map (fun g =>
    let w := wordFromLePartial (W / 8) neg g
    if neg then notWord W w else w)
  if neg then (addOne W ws).1 else ws

/-- `Repr::from_le_bytes` (value) -/
def fromLeBytes (W : Nat) (bytes : List Nat) : Nat :=
  if bytes.length ≤ 2 * W / 8 then wordFromLePartial (2 * W / 8) false bytes
  else val W (fromLeBytesLarge W false bytes)

/-- `Repr::from_signed_le_bytes` (value) -/
def fromSignedLeBytes (W : Nat) (bytes : List Nat) : Int :=
  match bytes.getLast? with
  | none => 0
  | some top =>
    if top < 128 then (fromLeBytes W bytes : Int)
    else if bytes.length ≤ 2 * W / 8 then
      Int.negOfNat ((notWord (2 * W) (wordFromLePartial (2 * W / 8) true bytes) + 1) % 2 ^ (2 * W))
    else Int.negOfNat (val W (fromLeBytesLarge W true bytes))

-- big-endian: mirror images
def toBeBytes (W n : Nat) : List Nat := (toLeBytes W n).reverse
def ibigToBeBytes (W : Nat) (z : Int) : List Nat := (ibigToLeBytes W z).reverse
def fromBeBytes (W : Nat) (bytes : List Nat) : Nat := fromLeBytes W bytes.reverse
def fromSignedBeBytes (W : Nat) (bytes : List Nat) : Int := fromSignedLeBytes W bytes.reverse

-- ---------------------------------------------------------------- chunks

inductive ChunkPanic where
  | chunkBitsZero                 -- documented: "Panics if chunk_bits is zero"
  deriving Repr, DecidableEq

/-- one chunk of the word-aligned shortcut of `words_to_chunks`
    (`end_pos = (start_pos + words_per_chunk).min(words.len())`) -/
def alignedChunk (W : Nat) (words : List Nat) (wpc i : Nat) : Nat :=
  let startPos := i * wpc
  let endPos := min (startPos + wpc) words.length
  val W ((words.drop startPos).take (endPos - startPos))

/-- one chunk of the general path of `words_to_chunks`: copy the words that contain the bit range,
    mask the top one, shift right by `start % W` -/
def unalignedChunk (W : Nat) (words : List Nat) (bitLenN k i : Nat) : Nat :=
  let start := i * k
  let end_ := min bitLenN (start + k)
  let startPos := start / W
  let endPos := end_ / W
  let endBits := end_ % W
  let copied :=
    if endBits ≠ 0 then
      let ws := (words.drop startPos).take (endPos - startPos + 1)
      ws.dropLast ++ [ws.getLastD 0 % 2 ^ endBits]
    else (words.drop startPos).take (endPos - startPos)
  val W copied / 2 ^ (start % W)

/-- `TypedReprRef::to_chunks(chunk_bits)` -/
def toChunks (W n k : Nat) : Except ChunkPanic (List Nat) :=
  if k = 0 then .error .chunkBitsZero
  else
    let count := ceilDiv (bitLen n) k
    if n < 2 ^ (2 * W) then
      if count = 0 then .ok []
      else if count = 1 then .ok [n]
      else .ok ((List.range count).map (fun i => (n >>> (i * k)) % 2 ^ k))
    else
      let words := wordsOf W n
      if k % W = 0 then .ok ((List.range count).map (alignedChunk W words (k / W)))
      else .ok ((List.range count).map (unalignedChunk W words (bitLen n) k))

/-- `Repr::from_chunks` / `chunks_to_words`: `assert!(chunk_bits > 0)`, then shift and add
    (value level) -/
def fromChunks (k : Nat) (chunks : List Nat) : Except ChunkPanic Nat :=
  if k = 0 then .error .chunkBitsZero else .ok (ofChunksSpec k chunks)

end Dashu.Model.Text
