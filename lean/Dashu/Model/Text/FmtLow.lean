import Dashu.Model.Text.Capacity
import Dashu.Gen.TextLow
/-
  C07 — the lowest layer of the integer printers, mirrored on machine words (core Lean only):

  * `radix::FastDivideSmall = num_modular::PreMulInv1by1<Word>` (num-modular 0.6.5 `src/barrett.rs`):
    `new` (the pre-computed multiplier of Granlund–Montgomery, Algorithm 4.1) and `div_rem`
    (multiply-high, add-and-halve, shift) — every `Word` operation with its overflow check;
  * `arch/generic/digits.rs::digit_chunk_raw_to_ascii`: the SWAR trick that turns `WORD_BYTES` raw
    digits into ASCII in one word (`0x76 * ALL_ONES + word`, `>> 7`, `& ALL_ONES`, …);
  * `fmt/digit_writer.rs::DigitWriter::{write, flush}` with the real `flush`: zero fill up to the
    next multiple of `DIGIT_CHUNK_LEN`, `chunks_exact_mut`, SWAR per chunk, the first `buffer_len`
    bytes handed to the writer;
  * the non-power-of-two printers of `Fmt.lean` with every `fast_div_radix.div_rem(word, radix)`
    executed by the mirrored reciprocal division (`…F` definitions) and the text delivered through
    the mirrored `DigitWriter` (`fmtModelF`) — this is what the driver prints.

  `Proofs/Text/FmtLow.lean`: `div_rem` = (`/`, `%`) for every word and every divisor `2 ≤ d < 2^W`,
  no overflow check fires; the SWAR chunk = per-byte conversion for all lanes and all digits < 36;
  the buffered writer = per-byte conversion of the concatenated input; `fmtModelF = fmtModel`.
-/
namespace Dashu.Model.Text

-- ---------------------------------------------------------------- FastDivideSmall

/-- `num_modular::PreMulInv1by1<Word>`: multiplier `m` and `shift = n − 1` -/
structure PreMulInv1by1 where
  m : Nat
  shift : Nat
  deriving Repr, DecidableEq

/-- `word::ones(n)`: `if n == 0 { 0 } else { Word::MAX >> (Word::BITS - n) }` -/
def wordOnes (W n : Nat) : Nat := if n = 0 then 0 else (2 ^ W - 1) >>> (W - n)

/-- `x.leading_zeros()` of a `Word` -/
def leadingZeros (W x : Nat) : Nat := W - bitLen x

/-- `PreMulInv1by1::<Word>::new(divisor)` (num-modular `barrett.rs`):
    `n = BITS − (divisor−1).leading_zeros()`,
    `(lo, hi) = split(merge(0, ones(n) − (divisor−1)) / extend(divisor))`, `m = lo + 1`, `shift = n − 1` -/
def PreMulInv1by1.new (W divisor : Nat) : Except BufPanic PreMulInv1by1 :=
  if divisor ≤ 1 then .error (.assertion "PreMulInv1by1::new: debug_assert!(divisor > 1)")
  else
    let n := W - leadingZeros W (divisor - 1)
    if wordOnes W n < divisor - 1 then .error (.overflow "PreMulInv1by1::new: ones(n) - (divisor - 1)")
    else
      let q := ((wordOnes W n - (divisor - 1)) * 2 ^ W) / divisor
      let lo := q % 2 ^ W
      let hi := q / 2 ^ W
      if hi ≠ 0 then .error (.assertion "PreMulInv1by1::new: debug_assert!(_hi == 0)")
      else if lo + 1 ≥ 2 ^ W then .error (.overflow "PreMulInv1by1::new: lo + 1")
      else if n = 0 then .error (.overflow "PreMulInv1by1::new: n - 1")
      else .ok ⟨lo + 1, n - 1⟩

/-- `PreMulInv1by1::div_rem(&self, a, d)`: `t = high(m·a)`, `q = (t + ((a − t) >> 1)) >> shift`,
    `r = a − q·d`; every subtraction, addition, shift and multiplication on a `Word` checked -/
def PreMulInv1by1.divRem (W : Nat) (p : PreMulInv1by1) (a d : Nat) : Except BufPanic (Nat × Nat) :=
  let t := (p.m * a) / 2 ^ W
  if a < t then .error (.overflow "PreMulInv1by1::div_rem: a - t")
  else
    let s := t + ((a - t) >>> 1)
    if s ≥ 2 ^ W then .error (.overflow "PreMulInv1by1::div_rem: t + ((a - t) >> 1)")
    else if p.shift ≥ W then .error (.overflow "PreMulInv1by1::div_rem: >> shift")
    else
      let q := s >>> p.shift
      if q * d ≥ 2 ^ W then .error (.overflow "PreMulInv1by1::div_rem: q * d")
      else if a < q * d then .error (.overflow "PreMulInv1by1::div_rem: a - q * d")
      else .ok (q, a - q * d)

/-- `radix_info.fast_div_radix.div_rem(word, radix)` as the printers call it (the divider is a
    field of `RadixInfo`, built by `RadixInfo::for_radix` with `FastDivideSmall::new(radix)`) -/
def fastDivRadix (W r word : Nat) : Except BufPanic (Nat × Nat) :=
  match PreMulInv1by1.new W r with
  | .error e => .error e
  | .ok p => p.divRem W word r

-- ---------------------------------------------------------------- SWAR digit → ASCII

/-- `ALL_ONES = Word::MAX / 0xff` (`0x0101…01`); the divisor is regenerated from the source (Tie A) -/
def allOnes (W : Nat) : Nat := (2 ^ W - 1) / Dashu.Gen.swar_LANE_MAX

/-- `arch::digits::digit_chunk_raw_to_ascii(digits: &mut [u8; DIGIT_CHUNK_LEN], digit_case)` on a
    little-endian target (`from_ne_bytes`/`to_ne_bytes`; the trick does not depend on the byte
    order because lanes do not interact).  Every `Word` addition/multiplication is checked.  The bias
    `0x76`, the shift `7` and `b'0'` are the constants regenerated from the source text on every run
    (`Dashu.Gen.swar_BIAS`, `swar_SHIFT`, `swar_ASCII_ZERO`, Tie A). -/
def digitChunkRawToAscii (W : Nat) (c : DigitCase) (ds : List Nat) : Except BufPanic (List Nat) :=
  if ds.length ≠ W / 8 then .error (.index "digit_chunk_raw_to_ascii: [u8; DIGIT_CHUNK_LEN]")
  else
    let word := ofDigitsLE 256 ds
    let ones := allOnes W
    let lettered : Except BufPanic Nat :=
      if c ≠ .noLetters then
        if Dashu.Gen.swar_BIAS * ones + word ≥ 2 ^ W then .error (.overflow "digit_chunk_raw_to_ascii: 0x76 * ALL_ONES + word")
        else
          let letters := ((Dashu.Gen.swar_BIAS * ones + word) >>> Dashu.Gen.swar_SHIFT) &&& ones
          if word + letters * c.offset ≥ 2 ^ W then .error (.overflow "digit_chunk_raw_to_ascii: word += letters * case")
          else .ok (word + letters * c.offset)
      else .ok word
    match lettered with
    | .error e => .error e
    | .ok word =>
      if word + ones * Dashu.Gen.swar_ASCII_ZERO ≥ 2 ^ W then .error (.overflow "digit_chunk_raw_to_ascii: word += ALL_ONES * b'0'")
      else .ok (digitsPadLE 256 (W / 8) (word + ones * Dashu.Gen.swar_ASCII_ZERO))

-- ---------------------------------------------------------------- DigitWriter with the real flush

/-- `chunks_exact_mut(n)` of a slice whose length is a multiple of `n` (fuel = the length) -/
def chunksExact (n : Nat) : Nat → List Nat → List (List Nat)
  | 0, _ => []
  | fuel + 1, l => if l = [] ∨ n = 0 then [] else l.take n :: chunksExact n fuel (l.drop n)

/-- `DigitWriter::flush` on the pending bytes `buffer[..buffer_len]`:
    `buffer_len_rounded = round_up(buffer_len, DIGIT_CHUNK_LEN)`; `buffer[buffer_len..rounded].fill(0)`
    (slice inside `[u8; BUFFER_LEN]`); SWAR per chunk; `&buffer[..buffer_len]` to the writer -/
def flushSwar (W : Nat) (c : DigitCase) (pending : List Nat) : Except BufPanic (List Nat) :=
  let cl := W / 8
  let rounded := ceilDiv pending.length cl * cl
  if rounded > digitWriterLen W then .error (.index "DigitWriter::flush: buffer[buffer_len..buffer_len_rounded]")
  else
    let buf := pending ++ List.replicate (rounded - pending.length) 0
    match flatMapE (digitChunkRawToAscii W c) (chunksExact cl buf.length buf) with
    | .error e => .error e
    | .ok out => .ok (out.take pending.length)

def DW.flushS (W : Nat) (c : DigitCase) (s : DW) : Except BufPanic DW :=
  match flushSwar W c s.pending with
  | .error e => .error e
  | .ok t => .ok ⟨[], s.out ++ t⟩

/-- `DigitWriter::write(buf)` with the real `flush` -/
def DW.writeS (W : Nat) (c : DigitCase) (s : DW) (buf : List Nat) : Except BufPanic DW :=
  if _h : buf = [] then .ok s
  else
    let cap := digitWriterLen W
    let len := min buf.length (cap - s.pending.length)
    if s.pending.length + len > cap then .error (.index "DigitWriter.buffer")
    else if len = 0 then .error (.assertion "DigitWriter::write makes no progress")
    else
      let s' : DW := ⟨s.pending ++ buf.take len, s.out⟩
      if s'.pending.length = cap then
        match s'.flushS W c with
        | .error e => .error e
        | .ok s'' => DW.writeS W c s'' (buf.drop len)
      else DW.writeS W c s' (buf.drop len)
termination_by buf.length
decreasing_by
  all_goals
    simp only [List.length_drop]
    have : buf.length ≠ 0 := fun h => _h (List.length_eq_zero_iff.mp h)
    omega

/-- a sequence of `write` calls followed by the final `flush` -/
def digitWriterRunS (W : Nat) (c : DigitCase) (pieces : List (List Nat)) : Except BufPanic (List Nat) :=
  let rec go (s : DW) : List (List Nat) → Except BufPanic DW
    | [] => .ok s
    | b :: bs =>
      match DW.writeS W c s b with
      | .error e => .error e
      | .ok s' => go s' bs
  match go ⟨[], []⟩ pieces with
  | .error e => .error e
  | .ok s =>
    match s.flushS W c with
    | .error e => .error e
    | .ok s' => .ok s'.out

-- ---------------------------------------------------------------- printers on the mirrored division

/-- `PreparedWord::new` loop with `fast_div_radix.div_rem(word, radix)` -/
def pwLoopF (W r : Nat) : Nat → Nat → Nat → List Nat → Except BufPanic (List Nat)
  | 0, _, _, acc => .ok acc
  | fuel + 1, word, minD, acc =>
    if r < 2 ∨ (minD = 0 ∧ word = 0) then .ok acc
    else
      match fastDivRadix W r word with
      | .error e => .error e
      | .ok (q, d) => pwLoopF W r fuel q (minD - 1) (d :: acc)

/-- `PreparedWord::new(word, radix, min_digits)`; the loop runs at most `bit_len(word) + min_digits` times -/
def preparedWordF (W r word minD : Nat) : Except BufPanic (List Nat) :=
  pwLoopF W r (word + minD + 1) word minD []

/-- `PreparedDword::get_digit` applied `count` times -/
def takeDigitsF (W r : Nat) : Nat → Nat → List Nat → Except BufPanic (Nat × List Nat)
  | 0, p, acc => .ok (p, acc)
  | c + 1, p, acc =>
    match fastDivRadix W r p with
    | .error e => .error e
    | .ok (q, d) => takeDigitsF W r c q (d :: acc)

/-- the middle loop of `PreparedDword::new` -/
def midDigitsF (W r : Nat) : Nat → Nat → Nat → List Nat → Except BufPanic (List Nat)
  | 0, _, _, acc => .ok acc
  | c + 1, p1, p2, acc =>
    if p1 = 0 ∧ p2 = 0 then .ok acc
    else
      match fastDivRadix W r p1 with
      | .error e => .error e
      | .ok (q, d) => midDigitsF W r c q p2 (d :: acc)

/-- `PreparedDword::new(dword, radix)` -/
def preparedDwordF (W r dword : Nat) : Except BufPanic (List Nat) :=
  let ri := radixInfo W r
  let p0 := dword % ri.rpw
  let q := dword / ri.rpw
  let p1 := q % ri.rpw
  let p2 := q / ri.rpw
  match takeDigitsF W r ri.dpw p0 [] with
  | .error e => .error e
  | .ok a0 =>
    match midDigitsF W r ri.dpw p1 p2 a0.2 with
    | .error e => .error e
    | .ok a1 => pwLoopF W r (p2 + 1) p2 0 a1

/-- `PreparedMedium::new` + `write` -/
def preparedMediumF (W r n : Nat) : Except BufPanic (List Nat) :=
  let ri := radixInfo W r
  let tg := mediumLoop W ri.rpw n []
  match preparedWordF W r tg.1 1 with
  | .error e => .error e
  | .ok top =>
    match flatMapE (fun g => preparedWordF W r g ri.dpw) tg.2 with
    | .error e => .error e
    | .ok low => .ok (top ++ low)

/-- `PreparedLarge::write_chunk` -/
def writeChunkF (W r x : Nat) : Except BufPanic (List Nat) :=
  let ri := radixInfo W r
  flatMapE (fun g => preparedWordF W r g ri.dpw) (chunkGroups ri.rpw fmtChunkLen x [])

/-- `PreparedLarge::write_big_chunk` -/
def writeBigF (W r : Nat) : List Nat → Nat → Except BufPanic (List Nat)
  | [], x => writeChunkF W r x
  | p :: ps, x =>
    match writeBigF W r ps (x / p) with
    | .error e => .error e
    | .ok hi =>
      match writeBigF W r ps (x % p) with
      | .error e => .error e
      | .ok lo => .ok (hi ++ lo)

/-- `PreparedLarge::new` + `write` -/
def preparedLargeF (W r n : Nat) : Except BufPanic (List Nat) :=
  let ri := radixInfo W r
  let chunkPower := ri.rpw ^ fmtChunkLen
  if chunkPower > n then preparedMediumF W r n
  else
    match buildPowers W n (bitLen n) [chunkPower] with
    | [] => .ok []
    | p :: rest =>
      let xs := splitRest (n / p) rest [(rest, n % p)]
      match preparedMediumF W r xs.1 with
      | .error e => .error e
      | .ok top =>
        match flatMapE (fun c => writeBigF W r c.1 c.2) xs.2 with
        | .error e => .error e
        | .ok low => .ok (top ++ low)

/-- `InRadixWriter::fmt_non_power_two` with the mirrored digit division -/
def fmtNonPow2F (W r n : Nat) : Except BufPanic (List Nat) :=
  if n < 2 ^ W then preparedWordF W r n 1
  else if n < 2 ^ (2 * W) then preparedDwordF W r n
  else
    let ri := radixInfo W r
    if wordLen W n * (ri.dpw + 1) ≤ fmtChunkLen * ri.dpw then preparedMediumF W r n
    else preparedLargeF W r n

/-- `InRadixWriter::fmt`: raw digits, power-of-two radices by bit slicing (no division) -/
def rawDigitsF (W r n : Nat) : Except BufPanic (List Nat) :=
  if isPow2 r then .ok (fmtPow2 W r n) else fmtNonPow2F W r n

/-- the pieces in which the printers hand their digits to the `DigitWriter` are not recorded by the
    number-level model; the driver cuts the digit string into pieces of `piece` digits (any cutting
    gives the same text: `digit_writer_swar_sound` holds for every sequence of writes) -/
def cutPieces (piece : Nat) : Nat → List Nat → List (List Nat)
  | 0, _ => []
  | fuel + 1, l => if l = [] ∨ piece = 0 then [l] else l.take piece :: cutPieces piece fuel (l.drop piece)

/-- the whole formatting path with the mirrored digit division and the mirrored `DigitWriter` -/
def fmtModelF (W : Nat) (t : FmtTrait) (f : FmtSpec) (z : Int) : Except BufPanic (List Nat) :=
  match rawDigitsF W t.radix z.natAbs with
  | .error e => .error e
  | .ok ds =>
    match digitWriterRunS W (t.digitCase f) (cutPieces (radixInfo W t.radix).dpw ds.length ds) with
    | .error e => .error e
    | .ok text => .ok (formatPrepared f (z < 0) (t.pfx f) text)

end Dashu.Model.Text
