import Dashu.Model.Text.FmtLow
/-
  C07 — the SEQUENCE OF PIECES the printers hand to `DigitWriter::write` (core Lean only).
  Each `PreparedForFormatting::write` of integer/src/fmt/{non_power_two,power_two}.rs is mirrored
  with its `digit_writer.write(..)` calls recorded one by one:
    non_power_two  PreparedWord / PreparedDword   one call: `&self.digits[self.start_index..]`
                   PreparedMedium                 top group, then one call per low group (`digits_per_word` digits)
                   PreparedLarge                  `top_chunk.write`, then per big chunk `write_big_chunk` → `write_chunk`:
                                                  `CHUNK_LEN` calls of `digits_per_word` digits
    power_two      PreparedWord / PreparedDword   one call: `&digits[..self.width]`
                   PreparedLarge                  one call PER DIGIT: `digit_writer.write(&[digit])`
  `…P` = number-level digits, `…PF` = the digits computed with the mirrored `FastDivideSmall` (what the driver runs).
-/
namespace Dashu.Model.Text

/-- `Except`-valued `map` -/
def mapE {α β ε : Type} (f : α → Except ε β) : List α → Except ε (List β)
  | [] => .ok []
  | a :: as =>
    match f a with
    | .error e => .error e
    | .ok b =>
      match mapE f as with
      | .error e => .error e
      | .ok bs => .ok (b :: bs)

-- ---------------------------------------------------------------- number level

/-- `PreparedMedium::write` -/
def preparedMediumP (W r n : Nat) : List (List Nat) :=
  let ri := radixInfo W r
  let tg := mediumLoop W ri.rpw n []
  preparedWord r tg.1 1 :: tg.2.map (fun g => preparedWord r g ri.dpw)

/-- `PreparedLarge::write_chunk`: the `for group in groups.iter().rev()` loop -/
def writeChunkP (W r x : Nat) : List (List Nat) :=
  let ri := radixInfo W r
  (chunkGroups ri.rpw fmtChunkLen x []).map (fun g => preparedWord r g ri.dpw)

/-- `PreparedLarge::write_big_chunk` -/
def writeBigP (W r : Nat) : List Nat → Nat → List (List Nat)
  | [], x => writeChunkP W r x
  | p :: ps, x => writeBigP W r ps (x / p) ++ writeBigP W r ps (x % p)

/-- `PreparedLarge::new` + `write` -/
def preparedLargeP (W r n : Nat) : List (List Nat) :=
  let ri := radixInfo W r
  let chunkPower := ri.rpw ^ fmtChunkLen
  if chunkPower > n then preparedMediumP W r n
  else
    match buildPowers W n (bitLen n) [chunkPower] with
    | [] => []
    | p :: rest =>
      let xs := splitRest (n / p) rest [(rest, n % p)]
      preparedMediumP W r xs.1 ++ xs.2.flatMap (fun c => writeBigP W r c.1 c.2)

/-- `InRadixWriter::fmt_non_power_two`: the `write` calls -/
def fmtNonPow2P (W r n : Nat) : List (List Nat) :=
  if n < 2 ^ W then [preparedWord r n 1]
  else if n < 2 ^ (2 * W) then [preparedDword W r n]
  else
    let ri := radixInfo W r
    if wordLen W n * (ri.dpw + 1) ≤ fmtChunkLen * ri.dpw then preparedMediumP W r n
    else preparedLargeP W r n

/-- `InRadixWriter::fmt_power_two`: one call for inline values, one call per digit for heap values -/
def fmtPow2P (W r n : Nat) : List (List Nat) :=
  let log := Nat.log2 r
  if n < 2 ^ (2 * W) then [pow2Small log n] else (pow2Large W log (wordsOf W n)).map (fun d => [d])

/-- the `DigitWriter::write` calls of `InRadixWriter::fmt`, in order -/
def rawPieces (W r n : Nat) : List (List Nat) := if isPow2 r then fmtPow2P W r n else fmtNonPow2P W r n

-- ---------------------------------------------------------------- on the mirrored reciprocal division

def preparedMediumPF (W r n : Nat) : Except BufPanic (List (List Nat)) :=
  let ri := radixInfo W r
  let tg := mediumLoop W ri.rpw n []
  match preparedWordF W r tg.1 1 with
  | .error e => .error e
  | .ok top =>
    match mapE (fun g => preparedWordF W r g ri.dpw) tg.2 with
    | .error e => .error e
    | .ok low => .ok (top :: low)

def writeChunkPF (W r x : Nat) : Except BufPanic (List (List Nat)) :=
  let ri := radixInfo W r
  mapE (fun g => preparedWordF W r g ri.dpw) (chunkGroups ri.rpw fmtChunkLen x [])

def writeBigPF (W r : Nat) : List Nat → Nat → Except BufPanic (List (List Nat))
  | [], x => writeChunkPF W r x
  | p :: ps, x =>
    match writeBigPF W r ps (x / p) with
    | .error e => .error e
    | .ok hi =>
      match writeBigPF W r ps (x % p) with
      | .error e => .error e
      | .ok lo => .ok (hi ++ lo)

def preparedLargePF (W r n : Nat) : Except BufPanic (List (List Nat)) :=
  let ri := radixInfo W r
  let chunkPower := ri.rpw ^ fmtChunkLen
  if chunkPower > n then preparedMediumPF W r n
  else
    match buildPowers W n (bitLen n) [chunkPower] with
    | [] => .ok []
    | p :: rest =>
      let xs := splitRest (n / p) rest [(rest, n % p)]
      match preparedMediumPF W r xs.1 with
      | .error e => .error e
      | .ok top =>
        match flatMapE (fun c => writeBigPF W r c.1 c.2) xs.2 with
        | .error e => .error e
        | .ok low => .ok (top ++ low)

def fmtNonPow2PF (W r n : Nat) : Except BufPanic (List (List Nat)) :=
  if n < 2 ^ W then (preparedWordF W r n 1).map (fun p => [p])
  else if n < 2 ^ (2 * W) then (preparedDwordF W r n).map (fun p => [p])
  else
    let ri := radixInfo W r
    if wordLen W n * (ri.dpw + 1) ≤ fmtChunkLen * ri.dpw then preparedMediumPF W r n
    else preparedLargePF W r n

def rawPiecesF (W r n : Nat) : Except BufPanic (List (List Nat)) :=
  if isPow2 r then .ok (fmtPow2P W r n) else fmtNonPow2PF W r n

/-- **the whole formatting path as the code runs it**: digits by the mirrored reciprocal division, handed
    to the mirrored `DigitWriter` (real `flush`, SWAR conversion) in exactly the pieces of the `write`
    calls of the printers, then `format_prepared` -/
def fmtModelP (W : Nat) (t : FmtTrait) (f : FmtSpec) (z : Int) : Except BufPanic (List Nat) :=
  match rawPiecesF W t.radix z.natAbs with
  | .error e => .error e
  | .ok ps =>
    match digitWriterRunS W (t.digitCase f) ps with
    | .error e => .error e
    | .ok text => .ok (formatPrepared f (z < 0) (t.pfx f) text)

end Dashu.Model.Text
