import Dashu.Model.Ratio.Ops
/-
  Register programs over rationals: the "every RBig ever produced" quantifier of C04.
  A program starts from a register file of constructed values; every step reads registers (and
  literal integers) and appends one new register.  Core Lean only.
-/
namespace Dashu.Model.Ratio
open Dashu.Model

inductive Kind where
  | R   -- RBig
  | X   -- Relaxed
  deriving Repr, DecidableEq

structure Reg where
  kind : Kind
  q : Q
  deriving Repr, DecidableEq

/-- the invariant a register must satisfy according to its type -/
def Reg.Inv (r : Reg) : Prop :=
  match r.kind with
  | .R => Reduced r.q
  | .X => RelaxedInv r.q

instance (r : Reg) : Decidable r.Inv := by
  unfold Reg.Inv; cases r.kind <;> infer_instance

def Reg.val (r : Reg) : Rat := r.q.val

/-- binary operators between two registers of the same type -/
inductive Bin where
  | add | sub | mul | div | rem | remEuclid
  deriving Repr, DecidableEq

/-- unary operators -/
inductive Un where
  | neg | abs | inv | sqr | cubic | signum | fract | relax | canon
  deriving Repr, DecidableEq

/-- operators with an integer operand on the right (`RBig op int`) or on the left (`int op RBig`) -/
inductive IntOp where
  | add | sub | mul | div
  deriving Repr, DecidableEq

inductive Op where
  | bin (o : Bin) (i j : Nat)
  | un (o : Un) (i : Nat)
  | pow (i : Nat) (n : Nat)
  | mulSign (i : Nat) (negative : Bool)
  | intR (o : IntOp) (i : Nat) (z : Int)     -- r[i] op z
  | intL (o : IntOp) (z : Int) (i : Nat)     -- z op r[i]
  deriving Repr, DecidableEq

def evalBin (o : Bin) (k : Kind) (x y : Q) : Except PanicKind Q :=
  match k, o with
  | .R, .add => R.add x y
  | .R, .sub => R.sub x y
  | .R, .mul => R.mul x y
  | .R, .div => R.div x y
  | .R, .rem => R.rem x y
  | .R, .remEuclid => R.remEuclid x y
  | .X, .add => X.add x y
  | .X, .sub => X.sub x y
  | .X, .mul => X.mul x y
  | .X, .div => X.div x y
  | .X, .rem => X.rem x y
  | .X, .remEuclid => X.remEuclid x y

def evalUn (o : Un) (r : Reg) : Except PanicKind Reg :=
  match o with
  | .neg => .ok ⟨r.kind, neg r.q⟩
  | .abs => .ok ⟨r.kind, abs r.q⟩
  | .inv => (inv r.q).map (Reg.mk r.kind)
  | .sqr => .ok ⟨r.kind, sqr r.q⟩
  | .cubic => .ok ⟨r.kind, cubic r.q⟩
  | .signum => .ok ⟨r.kind, signum r.q⟩
  | .fract => (fract r.q).map (Reg.mk r.kind)
  | .relax => .ok ⟨.X, r.q⟩                          -- `RBig::relax` (identity on `Relaxed`)
  | .canon => (reduce r.q).map (Reg.mk .R)           -- `Relaxed::canonicalize`

def evalIntR (o : IntOp) (k : Kind) (x : Q) (z : Int) : Except PanicKind Q :=
  match k, o with
  | .R, .add => .ok (R.addSubInt false x z)
  | .R, .sub => .ok (R.addSubInt true x z)
  | .R, .mul => R.mulInt x z
  | .R, .div => R.divInt x z
  | .X, .add => .ok (X.addSubInt false x z)
  | .X, .sub => .ok (X.addSubInt true x z)
  | .X, .mul => X.mulInt x z
  | .X, .div => X.divInt x z

def evalIntL (o : IntOp) (k : Kind) (z : Int) (x : Q) : Except PanicKind Q :=
  match k, o with
  | .R, .add => .ok (R.addSubInt false x z)
  | .R, .sub => .ok (R.intSub z x)
  | .R, .mul => R.mulInt x z
  | .R, .div => R.intDiv z x
  | .X, .add => .ok (X.addSubInt false x z)
  | .X, .sub => .ok (X.intSub z x)
  | .X, .mul => X.mulInt x z
  | .X, .div => X.intDiv z x

/-- outcome of one step: a new register, a panic of the library, or a malformed program
    (register index out of range / operands of different types — a protocol error, not dashu's) -/
inductive StepRes where
  | ok (r : Reg)
  | panic (k : PanicKind)
  | bad
  deriving Repr

def liftQ (k : Kind) : Except PanicKind Q → StepRes
  | .ok q => .ok ⟨k, q⟩
  | .error e => .panic e

def liftR : Except PanicKind Reg → StepRes
  | .ok r => .ok r
  | .error e => .panic e

def step (env : List Reg) (op : Op) : StepRes :=
  match op with
  | .bin o i j =>
    match env[i]?, env[j]? with
    | some a, some b => if a.kind = b.kind then liftQ a.kind (evalBin o a.kind a.q b.q) else .bad
    | _, _ => .bad
  | .un o i =>
    match env[i]? with
    | some a => liftR (evalUn o a)
    | none => .bad
  | .pow i n =>
    match env[i]? with
    | some a => .ok ⟨a.kind, pow a.q n⟩
    | none => .bad
  | .mulSign i s =>
    match env[i]? with
    | some a => .ok ⟨a.kind, mulSign a.q s⟩
    | none => .bad
  | .intR o i z =>
    match env[i]? with
    | some a => liftQ a.kind (evalIntR o a.kind a.q z)
    | none => .bad
  | .intL o z i =>
    match env[i]? with
    | some a => liftQ a.kind (evalIntL o a.kind z a.q)
    | none => .bad

/-- how a run ended -/
inductive Stop where
  | done
  | panic (k : PanicKind)
  | bad
  deriving Repr

/-- run a program: the register file after the last executed step and how the run ended
    (a panic stops the program, as it unwinds the caller in Rust) -/
def run : List Op → List Reg → List Reg × Stop
  | [], env => (env, .done)
  | op :: ops, env =>
    match step env op with
    | .ok r => run ops (env ++ [r])
    | .panic k => (env, .panic k)
    | .bad => (env, .bad)

end Dashu.Model.Ratio
