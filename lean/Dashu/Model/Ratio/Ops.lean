import Dashu.Model.Ratio.Basic
/-
  Rational layer, part 2: the operator bodies of `rational/src/{add,mul,div,sign,round}.rs`.
  Every binary operator of the crate is one macro body instantiated for the four ownership forms
  (`helper_macros.rs impl_binop_with_macro / impl_binop_with_int`) and the assign forms forward to
  the by-value form (`impl_binop_assign_by_taking`), so one model function per macro body.
  `a/b` is the left operand, `c/d` the right one, `i` an integer operand (`UBig` or `IBig`; the
  model does not distinguish them: both are `Int` and the code only uses ring operations, `gcd`,
  `sign`, `unsigned_abs` on them).  `R.*` = `RBig`, `X.*` = `Relaxed`.  Core Lean only.
-/
namespace Dashu.Model.Ratio
open Dashu.Model

namespace R

/-- `impl_add_or_sub_with_rbig` (add.rs); `sub = true` for `Sub` -/
def addSub (sub : Bool) (x y : Q) : Except PanicKind Q := do
  let g ← gcdK x.den y.den
  if g = 1 then
    let left := x.num * y.den
    let right := y.num * x.den
    pure ⟨if sub then left - right else left + right, x.den * y.den⟩
  else
    let ddg := y.den / g
    let left := (ddg : Int) * x.num
    let right := ((x.den / g : Nat) : Int) * y.num
    reduceWithHint ⟨if sub then left - right else left + right, x.den * ddg⟩ g

def add := addSub false
def sub := addSub true

/-- `impl_addsub_int_with_rbig`: `RBig ± int` and `int + RBig` -/
def addSubInt (sub : Bool) (x : Q) (i : Int) : Q :=
  ⟨if sub then x.num - x.den * i else x.num + x.den * i, x.den⟩

/-- `impl_int_sub_rbig`: `int - RBig` -/
def intSub (i : Int) (x : Q) : Q := ⟨x.den * i - x.num, x.den⟩

/-- `impl_mul_with_rbig` (mul.rs) -/
def mul (x y : Q) : Except PanicKind Q := do
  let gad ← gcdK x.num.natAbs y.den
  let gbc ← gcdK x.den y.num.natAbs
  pure ⟨Int.tdiv x.num gad * Int.tdiv y.num gbc, (x.den / gbc) * (y.den / gad)⟩

/-- `impl_mul_int_with_rbig` -/
def mulInt (x : Q) (i : Int) : Except PanicKind Q := do
  let g ← gcdK x.den i.natAbs
  pure ⟨x.num * Int.tdiv i g, x.den / g⟩

/-- `impl_div_with_rbig` (div.rs) -/
def div (x y : Q) : Except PanicKind Q :=
  if y.num = 0 then .error .divideByZero
  else do
    let gac ← gcdK x.num.natAbs y.num.natAbs
    let gbd ← gcdK x.den y.den
    pure ⟨Int.tdiv x.num gac * ((y.den / gbd : Nat) : Int) * sgn y.num,
          (x.den / gbd) * (y.num.natAbs / gac)⟩

/-- `impl_rbig_div_ubig` / `impl_rbig_div_ibig` (for a `UBig` the sign factor is 1) -/
def divInt (x : Q) (i : Int) : Except PanicKind Q :=
  if i = 0 then .error .divideByZero
  else do
    let g ← gcdK x.num.natAbs i.natAbs
    pure ⟨Int.tdiv x.num g * sgn i, x.den * (i.natAbs / g)⟩

/-- `impl_ubig_or_ibig_div_rbig`: `int / RBig` -/
def intDiv (i : Int) (x : Q) : Except PanicKind Q :=
  if x.num = 0 then .error .divideByZero
  else do
    let g ← gcdK x.num.natAbs i.natAbs
    pure ⟨(x.den : Int) * Int.tdiv i g * sgn x.num, x.num.natAbs / g⟩

end R

/-- the remainder selection shared by `impl_rem_with_rbig` / `impl_rem_with_relaxed`:
    `(sign, r1) = left.rem(&right).into_parts(); r2 = right - r1;`
    `if r1 < r2 { sign·r1 } else { −sign·r2 }`; `IBig % &UBig` panics for a zero divisor. -/
def nearestRem (left : Int) (right : Nat) : Except PanicKind Int :=
  if right = 0 then .error .divideByZero
  else
    let t := Int.tmod left right
    let s := sgn t
    let r1 := t.natAbs
    let r2 := right - r1
    if r1 < r2 then .ok (s * r1) else .ok (-s * r2)

/-- `IBig::rem_euclid(IBig)` at its contract (C02) -/
def remEuclidK (a b : Int) : Except PanicKind Int :=
  if b = 0 then .error .divideByZero else .ok (Int.emod a b)

/-- `IBig::div_euclid(IBig)` at its contract (C02) -/
def divEuclidK (a b : Int) : Except PanicKind Int :=
  if b = 0 then .error .divideByZero else .ok (Int.ediv a b)

namespace R

/-- `impl_rem_with_rbig` -/
def rem (x y : Q) : Except PanicKind Q := do
  let g ← gcdK x.den y.den
  let ddg := y.den / g
  let left := (ddg : Int) * x.num
  let right := (x.den / g) * y.num.natAbs
  let r ← nearestRem left right
  rFromParts r (x.den * ddg)

/-- `impl_euclid_div` (RBig and Relaxed): `(a·d).div_euclid(b·c)` after the explicit zero test -/
def divEuclid (x y : Q) : Except PanicKind Int :=
  if y.num = 0 then .error .divideByZero
  else divEuclidK (x.num * y.den) (x.den * y.num)

/-- `impl_euclid_rem_with_rbig` -/
def remEuclid (x y : Q) : Except PanicKind Q := do
  let g ← gcdK x.den y.den
  let ddg := y.den / g
  let left := (ddg : Int) * x.num
  let right := ((x.den / g : Nat) : Int) * y.num
  let r ← remEuclidK left right
  rFromParts r (x.den * ddg)

/-- `impl_euclid_divrem_with_rbig` -/
def divRemEuclid (x y : Q) : Except PanicKind (Int × Q) := do
  let g ← gcdK x.den y.den
  let ddg := y.den / g
  let left := (ddg : Int) * x.num
  let right := ((x.den / g : Nat) : Int) * y.num
  let q ← divEuclidK left right
  let r ← remEuclidK left right
  let rr ← rFromParts r (x.den * ddg)
  pure (q, rr)

end R

-- ------------------------------------------------------------------ shared `Repr` methods

/-- `Repr::sqr` / `cubic` / `pow` (mul.rs): component-wise -/
def sqr (x : Q) : Q := ⟨x.num * x.num, x.den * x.den⟩
def cubic (x : Q) : Q := ⟨x.num * x.num * x.num, x.den * x.den * x.den⟩
/-- `UBig::pow` at its contract `b ^ n` (C01), evaluated through the shortcuts of integer/src/pow.rs `repr::pow` /
    `pow_word_base` (exponent 0, base 0, base 1) so that the driver can run the extreme `usize` exponents -/
def upowK (b n : Nat) : Nat := if n = 0 then 1 else if b = 0 then 0 else if b = 1 then 1 else b ^ n
/-- `IBig::pow` (integer/src/pow.rs): the sign is negative iff the base is negative and `exp % 2 == 1`, the magnitude is
    `UBig::pow` of the magnitude -/
def ipowK (a : Int) (n : Nat) : Int :=
  if a < 0 ∧ n % 2 = 1 then -((upowK a.natAbs n : Nat) : Int) else ((upowK a.natAbs n : Nat) : Int)
def pow (x : Q) (n : Nat) : Q := ⟨ipowK x.num n, upowK x.den n⟩

/-- `Repr::neg`, `Repr::abs` (sign.rs), `signum`, `Mul<Sign>` -/
def neg (x : Q) : Q := ⟨-x.num, x.den⟩
def abs (x : Q) : Q := ⟨(x.num.natAbs : Int), x.den⟩
def signum (x : Q) : Q := ⟨x.num.sign, 1⟩
def mulSign (x : Q) (negative : Bool) : Q := ⟨if negative then -x.num else x.num, x.den⟩

/-- `RBig::sign` / `Relaxed::sign` / `Signed::sign` (sign.rs): the numerator's sign, `Positive` for zero -/
def isNegative (x : Q) : Bool := decide (x.num < 0)
/-- `RBig::is_zero` / `Relaxed::is_zero` (rbig.rs) -/
def isZero (x : Q) : Bool := decide (x.num = 0)
/-- `RBig::is_one`: numerator and denominator are both one -/
def R.isOne (x : Q) : Bool := decide (x.num = 1) && decide (x.den = 1)
/-- `Relaxed::is_one`: `denominator.as_ibig() == &numerator` (3/3 is one) -/
def X.isOne (x : Q) : Bool := decide ((x.den : Int) = x.num)
/-- `RBig::is_int`: the denominator is one -/
def R.isInt (x : Q) : Bool := decide (x.den = 1)

/-- `Inverse for Repr` (div.rs): zero test (`panic_divide_by_0`, present since fix commit 8dae589;
    before it the code returned the pair 1/0), then swap with the sign moved to the numerator. -/
def inv (x : Q) : Except PanicKind Q :=
  if x.num = 0 then .error .divideByZero
  else .ok ⟨sgn x.num * x.den, x.num.natAbs⟩

/-- `IBig::div_rem(&UBig)` used by round.rs: truncated; panics for a zero divisor -/
def divRemK (a : Int) (b : Nat) : Except PanicKind (Int × Int) :=
  if b = 0 then .error .divideByZero else .ok (Int.tdiv a b, Int.tmod a b)

/-- `Repr::split_at_point` (round.rs) -/
def splitAtPoint (x : Q) : Except PanicKind (Int × Q) := do
  let (t, r) ← divRemK x.num x.den
  pure (t, if r = 0 then Q.zero else ⟨r, x.den⟩)

/-- `Repr::fract` -/
def fract (x : Q) : Except PanicKind Q := do
  let (_, r) ← divRemK x.num x.den
  pure (if r = 0 then Q.zero else ⟨r, x.den⟩)

/-- `Repr::trunc` -/
def trunc (x : Q) : Except PanicKind Int := do
  let (t, _) ← divRemK x.num x.den
  pure t

/-- `Repr::ceil` -/
def ceil (x : Q) : Except PanicKind Int := do
  let (q, r) ← divRemK x.num x.den
  pure (if r > 0 then q + 1 else q)

/-- `Repr::floor` -/
def floor (x : Q) : Except PanicKind Int := do
  let (q, r) ← divRemK x.num x.den
  pure (if r < 0 then q - 1 else q)

/-- `Repr::round`: ties away from zero -/
def round (x : Q) : Except PanicKind Int := do
  let (q, r) ← divRemK x.num x.den
  pure (if r.natAbs * 2 ≥ x.den then (if x.num < 0 then q - 1 else q + 1) else q)

-- ------------------------------------------------------------------ Relaxed

namespace X

/-- `impl_addsub_with_relaxed` -/
def addSub (sub : Bool) (x y : Q) : Except PanicKind Q :=
  let left := x.num * y.den
  let right := y.num * x.den
  xFromParts (if sub then left - right else left + right) (x.den * y.den)

def add := addSub false
def sub := addSub true

/-- `impl_addsub_int_with_relaxed` (no `reduce2`: parity of the pair is unchanged) -/
def addSubInt (sub : Bool) (x : Q) (i : Int) : Q :=
  ⟨if sub then x.num - x.den * i else x.num + x.den * i, x.den⟩

/-- `impl_int_sub_relaxed` -/
def intSub (i : Int) (x : Q) : Q := ⟨x.den * i - x.num, x.den⟩

/-- `impl_mul_with_relaxed` -/
def mul (x y : Q) : Except PanicKind Q := xFromParts (x.num * y.num) (x.den * y.den)

/-- `impl_mul_int_with_relaxed` -/
def mulInt (x : Q) (i : Int) : Except PanicKind Q := xFromParts (x.num * i) x.den

/-- `impl_div_with_relaxed` -/
def div (x y : Q) : Except PanicKind Q :=
  if y.num = 0 then .error .divideByZero
  else xFromParts (x.num * y.den * sgn y.num) (x.den * y.num.natAbs)

/-- `impl_relaxed_div_ubig` / `impl_relaxed_div_ibig` -/
def divInt (x : Q) (i : Int) : Except PanicKind Q :=
  if i = 0 then .error .divideByZero
  else xFromParts (x.num * sgn i) (x.den * i.natAbs)

/-- `impl_ubig_or_ibig_div_relaxed` -/
def intDiv (i : Int) (x : Q) : Except PanicKind Q :=
  if x.num = 0 then .error .divideByZero
  else xFromParts (x.den * i * sgn x.num) x.num.natAbs

/-- `impl_rem_with_relaxed` -/
def rem (x y : Q) : Except PanicKind Q := do
  let left := x.num * y.den
  let right := y.num.natAbs * x.den
  let r ← nearestRem left right
  xFromParts r (x.den * y.den)

/-- `impl_euclid_rem_with_relaxed` -/
def remEuclid (x y : Q) : Except PanicKind Q := do
  let left := x.num * y.den
  let right := y.num * x.den
  let r ← remEuclidK left right
  xFromParts r (x.den * y.den)

/-- `impl_euclid_divrem_with_relaxed` -/
def divRemEuclid (x y : Q) : Except PanicKind (Int × Q) := do
  let left := x.num * y.den
  let right := y.num * x.den
  let q ← divEuclidK left right
  let r ← remEuclidK left right
  let rr ← xFromParts r (x.den * y.den)
  pure (q, rr)

end X

end Dashu.Model.Ratio
