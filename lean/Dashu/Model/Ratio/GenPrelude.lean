import Dashu.Model.Ratio.Ops
/-
  Vocabulary onto which `vlib/extract_ratops.py` maps the macro bodies of `rational/src/{add,mul,div}.rs`
  (Tie A of C04, `lean/Dashu/Gen/RatOps.lean`).  Hand-written, nothing here is generated.  Every value of the
  macro bodies (`IBig`, `UBig`, `Sign`) is an `Int` here: a `UBig` is a non-negative one, a `Sign` is `±1`
  (`Sign::Positive` for zero, as `IBig::sign`).  The integer kernels are the same contracts the hand-written
  model uses (`gcdK`, truncated division, …), so "generated body = model function" (`Props/C04Gen`) says that
  the model transcribes the macro bodies operation for operation.  Core Lean only.
-/
namespace Dashu.Model.Ratio.G
open Dashu.Model Dashu.Model.Ratio

/-- `IBig * IBig`, `UBig * IBig`, `IBig * Sign`, … -/
@[inline] def mul (a b : Int) : Int := a * b
@[inline] def add (a b : Int) : Int := a + b
/-- `IBig - IBig`; `UBig - &UBig` is only used where the difference is non-negative (`right - &r1`) -/
@[inline] def sub (a b : Int) : Int := a - b
/-- `IBig / &UBig`, `UBig / UBig`: truncated (only ever applied to a divisor produced by `gcd`) -/
@[inline] def div (a b : Int) : Int := Int.tdiv a b
@[inline] def neg (a : Int) : Int := -a
/-- `r1 < r2` on `UBig` -/
@[inline] def lt (a b : Int) : Bool := decide (a < b)
@[inline] def is_zero (a : Int) : Bool := decide (a = 0)
@[inline] def is_one (a : Int) : Bool := decide (a = 1)
/-- `x.sign()` as `±1` (`Positive` for zero) -/
@[inline] def sign (a : Int) : Int := sgn a
@[inline] def unsigned_abs (a : Int) : Int := (a.natAbs : Int)
/-- `IBig::into_parts`: (sign, magnitude) -/
@[inline] def into_parts (a : Int) : Int × Int := (sgn a, (a.natAbs : Int))
/-- `IBig::from_parts(sign, magnitude)` -/
@[inline] def ibig_from_parts (s m : Int) : Int := s * m
/-- `.into()` between integer types / tuples of them: the same value -/
@[inline] def into {α : Type} (x : α) : α := x
/-- `Gcd::gcd` on magnitudes, panics on (0, 0) -/
@[inline] def gcd (a b : Int) : Except PanicKind Int := do
  let g ← gcdK a.natAbs b.natAbs
  pure (g : Int)
/-- `Repr { numerator, denominator }` (the denominator is a `UBig`) -/
@[inline] def repr (n d : Int) : Q := ⟨n, d.toNat⟩
@[inline] def mk_rbig (q : Q) : Q := q
@[inline] def mk_relaxed (q : Q) : Q := q
/-- `Repr::reduce_with_hint(hint: UBig)` -/
@[inline] def reduce_with_hint (q : Q) (hint : Int) : Except PanicKind Q := reduceWithHint q hint.toNat
/-- `RBig::from_parts(IBig, UBig)` -/
@[inline] def rbig_from_parts (n d : Int) : Except PanicKind Q := rFromParts n d.toNat
/-- `Relaxed::from_parts(IBig, UBig)` -/
@[inline] def relaxed_from_parts (n d : Int) : Except PanicKind Q := xFromParts n d.toNat

-- ---- vocabulary of the function bodies (`vlib/extract_ratfns.py`, `Gen/RatFns.lean`)
/-- `IBig / &UBig`, `IBig % &UBig`, `IBig::div_rem(&UBig)` on a user-supplied denominator: panic for a zero divisor -/
def div_p (a b : Int) : Except PanicKind Int := if b = 0 then .error .divideByZero else .ok (Int.tdiv a b)
def rem_p (a b : Int) : Except PanicKind Int := if b = 0 then .error .divideByZero else .ok (Int.tmod a b)
def div_rem (a b : Int) : Except PanicKind (Int × Int) := divRemK a b.toNat
@[inline] def gt (a b : Int) : Bool := decide (a > b)
@[inline] def ge (a b : Int) : Bool := decide (a ≥ b)
@[inline] def eq (a b : Int) : Bool := decide (a = b)
/-- `IBig >> usize` (floor), `UBig >> usize` -/
@[inline] def shr (a n : Int) : Int := a >>> n.toNat
@[inline] def shl (a n : Int) : Int := a * 2 ^ n.toNat
@[inline] def min (a b : Int) : Int := if a ≤ b then a else b
/-- `trailing_zeros() -> Option<usize>`: `None` for zero -/
@[inline] def trailing_zeros (a : Int) : Option Int := if a = 0 then none else some (tz a.natAbs : Nat)
@[inline] def unwrap_or_default (o : Option Int) : Int := o.getD 0
/-- `Option::unwrap` in the given file (the line is not part of the value: a comment above it must not change the model) -/
def unwrap (file : String) (o : Option Int) : Except PanicKind Int :=
  match o with
  | some v => .ok v
  | none => .error (.undocumented (file ++ "|unwrap_on_None"))
@[inline] def sqr (a : Int) : Int := a * a
@[inline] def cubic (a : Int) : Int := a * a * a
/-- `IBig::pow(usize)` / `UBig::pow(usize)` -/
@[inline] def pow (a n : Int) : Int := ipowK a n.toNat
@[inline] def reduce (q : Q) : Except PanicKind Q := Ratio.reduce q
@[inline] def reduce2 (q : Q) : Except PanicKind Q := Ratio.reduce2 q

-- ---- machine-integer vocabulary of `from_parts_const` (DoubleWord arithmetic; the bodies guard their divisors)
@[inline] def div_u (a b : Int) : Int := a / b
@[inline] def rem_u (a b : Int) : Int := a % b
@[inline] def le (a b : Int) : Bool := decide (a ≤ b)
@[inline] def and (a b : Bool) : Bool := a && b
/-- `DoubleWord::trailing_zeros()` of a non-zero value (the bodies test for zero first) -/
@[inline] def tz_prim (a : Int) : Int := (tz a.natAbs : Nat)
/-- `while cond(s) { s = step(s) }` for a loop whose state has a decreasing measure `μ`: total by construction (an iteration that
    does not decrease the measure is the last one), and equal to the source loop whenever the measure does decrease — which the
    theorem that instantiates it shows by proving it equal to the hand-written recursion (`constGcdLoop`) -/
def while_dec {σ : Type} (μ : σ → Nat) (cond : σ → Bool) (step : σ → σ) (s : σ) : σ :=
  if cond s then
    if h : μ (step s) < μ s then while_dec μ cond step (step s) else step s
  else s
termination_by μ s

-- the `$method`s the macros are instantiated with (the invocation table of `Gen/RatOps.lean`)
/-- `IBig % &UBig` (`Rem::rem`), panics for a zero divisor -/
def m_rem (a b : Int) : Except PanicKind Int :=
  if b = 0 then .error .divideByZero else .ok (Int.tmod a b)
/-- `IBig::div_euclid(IBig)` -/
def m_div_euclid (a b : Int) : Except PanicKind Int := divEuclidK a b
/-- `IBig::rem_euclid(IBig)` -/
def m_rem_euclid (a b : Int) : Except PanicKind Int := remEuclidK a b
/-- `IBig::div_rem_euclid(IBig)` -/
def m_div_rem_euclid (a b : Int) : Except PanicKind (Int × Int) := do
  let q ← divEuclidK a b
  let r ← remEuclidK a b
  pure (q, r)

end Dashu.Model.Ratio.G
