import Dashu.Model.Ratio.Prog
import Dashu.Model.Int.PowGuard
/-
  C04 round 6 (FRONTIER entry "pow with an exponent beyond memory"): `Repr::pow` (rational/src/mul.rs)
      Repr { numerator: self.numerator.pow(n), denominator: self.denominator.pow(n) }
  WITH the allocation guards of the two integer powers it calls (integer/src/pow.rs `IBig::pow` / `UBig::pow`:
  `exp.checked_mul(shift).unwrap_or_else(panic_allocate_too_much)`, the `Buffer::allocate` of the final `<<` and of the
  result buffer of `pow_word_base` / `pow_dword_base`).  The numerator is raised first (struct-literal field order), so
  its panic wins.  The guard is a predicate on VALUES; it is the text of C01's `powAllocPanics`
  (Props/C01Dispatch, proved there to be exactly the panic class of the mirrored `ubigPowGuarded`), with the odd part's
  power evaluated through `upowK` so that the driver can run every `usize` exponent on the bases `±2^k`.
  `Props/C04Pow` proves: the guard IS C01's, `powChecked` IS the composition of the two proved integer kernels by value,
  and below the guard the result is `pow` (exact, reduced).  Core Lean only.
-/
namespace Dashu.Model.Ratio
open Dashu.Model

/-- the panic class of `UBig::pow` on the value `v` (the magnitude, for `IBig::pow`): `s` = trailing zero bits, `o` the odd
    part; the result buffer of `o ^ exp` would exceed `Buffer::MAX_CAPACITY`, or `s > 0` and `exp * s` does not fit
    `usize`, or `s > 0` and the final `<< (exp * s)` asks `Buffer::allocate` for more than `MAX_CAPACITY` words -/
def upowPanics (W v exp : Nat) : Bool :=
  powBufAllocPanics W (ofNat W (v / 2 ^ trailingZeros v)) exp ||
    (trailingZeros v != 0 &&
      (decide (2 ^ usizeBits ≤ exp * trailingZeros v) ||
        match shlAllocateWords W (ofNat W (upowK (v / 2 ^ trailingZeros v) exp)) (exp * trailingZeros v) with
        | some k => decide (bufMaxCapacity W < k)
        | none => false))

/-- `Repr::pow` with the allocation panics of `IBig::pow` (numerator, evaluated first) and `UBig::pow` (denominator) -/
def powChecked (W : Nat) (x : Q) (n : Nat) : Except PanicKind Q :=
  if upowPanics W x.num.natAbs n then .error .allocTooMuch
  else if upowPanics W x.den n then .error .allocTooMuch
  else .ok (pow x n)

/-- one program step with the guarded `pow` (every other op as in `step`) -/
def stepG (W : Nat) (env : List Reg) (op : Op) : StepRes :=
  match op with
  | .pow i n =>
    match env[i]? with
    | some a => liftQ a.kind (powChecked W a.q n)
    | none => .bad
  | _ => step env op

/-- `run` with the guarded `pow`: what the driver executes for `qp.prog` (a panic stops the program) -/
def runG (W : Nat) : List Op → List Reg → List Reg × Stop
  | [], env => (env, .done)
  | op :: ops, env =>
    match stepG W env op with
    | .ok r => runG W ops (env ++ [r])
    | .panic k => (env, .panic k)
    | .bad => (env, .bad)

end Dashu.Model.Ratio
