import Dashu.Model.Ratio.Prog
/-
  The specification side of C04: what every operation has to return *as a rational number*
  (core `Rat` arithmetic), `none` where the operation must panic with a division by zero.
  This is what the driver evaluates beside the model and what `Props/C04` proves the model
  equal to.  Core Lean only.
-/
namespace Dashu.Model.Ratio

namespace Spec

/-- truncation toward zero -/
def trunc (x : Rat) : Int := if 0 ≤ x then x.floor else -(-x).floor

/-- nearest integer, ties away from zero (`RBig::round` doc) -/
def round (x : Rat) : Int :=
  if 0 ≤ x then (x + 1 / 2).floor else -((-x + 1 / 2).floor)

/-- the quotient of the Euclidean division of `x` by `y ≠ 0`: the integer `q` with
    `0 ≤ x - q·y < |y|` -/
def divEuclid (x y : Rat) : Int :=
  if 0 < y then (x / y).floor else -((x / (-y)).floor)

/-- `x % y` of this crate (tests/div.rs, "consistent with dashu_float::FBig"): the remainder of
    least magnitude, `x - y·round(x/y)` with ties rounded away from zero -/
def rem (x y : Rat) : Rat := x - y * (round (x / y) : Rat)

def remEuclid (x y : Rat) : Rat := x - y * (divEuclid x y : Rat)

def sgnRat (x : Rat) : Rat := if x < 0 then -1 else if x = 0 then 0 else 1

/-- `x ^ n`, evaluated without a long product for the bases 0, 1, −1 (so that the driver can evaluate the specification
    for the extreme `usize` exponents); `Props/C04.spec_qpow_is_pow`: it IS `x ^ n` -/
def qpow (x : Rat) (n : Nat) : Rat :=
  if n = 0 then 1 else if x = 0 then 0 else if x = 1 then 1
  else if x = -1 then (if n % 2 = 0 then 1 else -1) else x ^ n

def bin (o : Bin) (x y : Rat) : Option Rat :=
  match o with
  | .add => some (x + y)
  | .sub => some (x - y)
  | .mul => some (x * y)
  | .div => if y = 0 then none else some (x / y)
  | .rem => if y = 0 then none else some (rem x y)
  | .remEuclid => if y = 0 then none else some (remEuclid x y)

def un (o : Un) (x : Rat) : Option Rat :=
  match o with
  | .neg => some (-x)
  | .abs => some (if 0 ≤ x then x else -x)
  | .inv => if x = 0 then none else some (1 / x)
  | .sqr => some (x * x)
  | .cubic => some (x * x * x)
  | .signum => some (sgnRat x)
  | .fract => some (x - (trunc x : Rat))
  | .relax => some x
  | .canon => some x

def intR (o : IntOp) (x : Rat) (z : Int) : Option Rat :=
  match o with
  | .add => some (x + z)
  | .sub => some (x - z)
  | .mul => some (x * z)
  | .div => if z = 0 then none else some (x / z)

def intL (o : IntOp) (z : Int) (x : Rat) : Option Rat :=
  match o with
  | .add => some (z + x)
  | .sub => some (z - x)
  | .mul => some (z * x)
  | .div => if x = 0 then none else some (z / x)

/-- one step over the *values* of the registers; `none` = must panic (division by zero) or
    malformed -/
def step (vals : List Rat) (op : Op) : Option Rat :=
  match op with
  | .bin o i j => do bin o (← vals[i]?) (← vals[j]?)
  | .un o i => do un o (← vals[i]?)
  | .pow i n => do some (qpow (← vals[i]?) n)
  | .mulSign i s => do let x ← vals[i]?; some (if s then -x else x)
  | .intR o i z => do intR o (← vals[i]?) z
  | .intL o z i => do intL o z (← vals[i]?)

/-- a program over values: the values of all registers and whether the program ran to its end
    (`false`: a step divided by zero, execution stops there) -/
def run : List Op → List Rat → List Rat × Bool
  | [], vals => (vals, true)
  | op :: ops, vals =>
    match step vals op with
    | some v => run ops (vals ++ [v])
    | none => (vals, false)

end Spec

end Dashu.Model.Ratio
