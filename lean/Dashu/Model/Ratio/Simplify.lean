import Dashu.Model.Ratio.Ops
/-
  `rational/src/simplify.rs`: `simplest_in`, `farey_neighbors`, `next_up`, `next_down`, `nearest`,
  `simplest_from_f32/f64`.  Core Lean only.  `Repr::cmp` / `PartialOrd for Repr` (cmp.rs, the
  subject of C05) is taken at its contract: comparison of the values by cross multiplication.
-/
namespace Dashu.Model.Ratio
open Dashu.Model

/-- `Repr::cmp` at its contract (denominators positive): compare `a/b` with `c/d` -/
def cmpQ (x y : Q) : Ordering := compare (x.num * y.den) (y.num * x.den)

/-- state of the loop of `Repr::simplest_in` -/
structure SState where
  numL : Int
  denL : Int
  numR : Int
  denR : Int
  n0 : Int
  d0 : Int
  n1 : Int
  d1 : Int
  deriving Repr, DecidableEq

/-- `IBig::div_rem(&IBig)`: truncated; a zero divisor panics -/
def idivRemK (a b : Int) : Except PanicKind (Int × Int) :=
  if b = 0 then .error .divideByZero else .ok (Int.tdiv a b, Int.tmod a b)

/-- the `loop { … }` of `Repr::simplest_in`, one iteration per unit of fuel; `none` = fuel
    exhausted (never with `fuel > denL + denR`, theorem `simplestLoop_terminates`) -/
def simplestLoop : Nat → SState → Except PanicKind (Option (Int × Int))
  | 0, _ => .ok none
  | fuel + 1, s => do
    let (q, r1) ← idivRemK s.numL s.denL
    -- n1 += q*n0; swap(n0, n1); d1 += q*d0; swap(d0, d1)
    let n0' := s.n1 + q * s.n0
    let n1' := s.n0
    let d0' := s.d1 + q * s.d0
    let d1' := s.d0
    let r2 := s.numR - q * s.denR
    -- num_l = replace(den_r, r1); num_r = replace(den_l, r2)
    let numL' := s.denR
    let denR' := r1
    let numR' := s.denL
    let denL' := r2
    if numL' < denL' then pure (some (n0' + n1', d0' + d1'))
    else simplestLoop fuel ⟨numL', denL', numR', denR', n0', d0', n1', d1'⟩

/-- the part of `Repr::simplest_in` after `lower = lower.abs(); upper = upper.abs()`:
    order the end points, descend, and put the sign back -/
def simplestAbs (l u : Q) (negative : Bool) : Except PanicKind (Option Q) :=
  match cmpQ l u with
  | .eq => .ok (some (mulSign l negative))
  | o =>
    let lu : Q × Q := if o = .gt then (u, l) else (l, u)
    do
      let r ← simplestLoop (lu.1.den + lu.2.den + 1)
        ⟨lu.1.num, lu.1.den, lu.2.num, lu.2.den, 1, 0, 0, 1⟩
      match r with
      | none => pure none
      | some (num, den) =>
        pure (some ⟨if negative then -(num.natAbs : Int) else (num.natAbs : Int), den.natAbs⟩)

/-- `Repr::simplest_in(lower, upper)` (before the `.reduce()` of `RBig::simplest_in`).

    REQUIRED behaviour for a zero end point: the property wants a fraction *strictly between* the
    end points, so the sign of the interval is the sign of the non-zero end point.  The code at the
    pinned commit compares `numerator.sign()` of both ends (zero counts as Positive) and therefore
    returns 0 — an end point — for `(0, negative)` (finding `simplest-in-zero-endpoint`); on every
    other input this is the code's body. -/
def reprSimplestIn (lower upper : Q) : Except PanicKind (Option Q) :=
  if (lower.num < 0 ∧ 0 < upper.num) ∨ (upper.num < 0 ∧ 0 < lower.num) then .ok (some Q.zero)
  else simplestAbs (abs lower) (abs upper) (decide (lower.num < 0 ∨ upper.num < 0))

/-- `RBig::simplest_in` -/
def simplestIn (lower upper : Q) : Except PanicKind (Option Q) := do
  match ← reprSimplestIn lower upper with
  | none => pure none
  | some r => do let r' ← reduce r; pure (some r')

-- ------------------------------------------------------------------ Farey neighbours

/-- the `loop { … }` of `RBig::farey_neighbors`; `none` = fuel exhausted -/
def fareyLoop (x : Q) (limit : Nat) : Nat → Q → Q → Except PanicKind (Option (Q × Q))
  | 0, _, _ => .ok none
  | fuel + 1, left, right => do
    let next : Q := ⟨left.num + right.num, left.den + right.den⟩
    let nextR ← if next.den > limit then reduce next else pure next
    if next.den > limit ∧ nextR.den > limit then pure (some (left, right))
    else if cmpQ nextR x = .gt then fareyLoop x limit fuel left nextR
    else fareyLoop x limit fuel nextR right

/-- `RBig::farey_neighbors(x, limit)` (its `debug_assert!`s are preconditions of the callers) -/
def fareyNeighbors (x : Q) (limit : Nat) : Except PanicKind (Option (Q × Q)) :=
  let lr : Q × Q := if x.num < 0 then (Q.negOne, Q.zero) else (Q.zero, Q.one)
  fareyLoop x limit (2 * limit + 2) lr.1 lr.2

/-- result of `nearest`: `Approximation<RBig, Sign>` -/
inductive Approx where
  | exact (v : Q)
  | inexact (v : Q) (negative : Bool)
  deriving Repr, DecidableEq

/-- `RBig::nearest` -/
def nearest (x : Q) (limit : Nat) : Except PanicKind (Option Approx) :=
  if limit = 0 then .error .divideByZero
  else if x.den ≤ limit then .ok (some (.exact x))
  else do
    let (t, r) ← splitAtPoint x
    match ← fareyNeighbors r limit with
    | none => pure none
    | some (left, right) =>
      -- mid = (left + right) with the denominator doubled (not reduced again)
      let s ← R.add left right
      let mid : Q := ⟨s.num, s.den * 2⟩
      if cmpQ r mid = .gt then
        pure (some (.inexact (R.addSubInt false right t) false))
      else
        pure (some (.inexact (R.addSubInt false left t) true))

/-- `RBig::next_up` (`up = true`) / `RBig::next_down`, including the early return
    `if limit.is_one() && self.is_int() { return trunc ± Self::ONE }` (fix ef17af6: `fract ± limit^-2`
    would be `±1`, which `farey_neighbors` does not accept); `trunc + ONE` is `impl_int_add`
    (`R.addSubInt`), `trunc − ONE` is `impl_int_sub_rbig` (`R.intSub`) -/
def nextUpDown (up : Bool) (x : Q) (limit : Nat) : Except PanicKind (Option Q) :=
  if limit = 0 then .error .divideByZero
  else do
    let (t, f) ← splitAtPoint x
    if limit = 1 ∧ x.den = 1 then
      pure (some (if up then R.addSubInt false Q.one t else R.intSub t Q.one))
    else
    let target ←
      if x.den ≤ limit then
        (if up then R.add f ⟨1, limit * limit⟩ else R.sub f ⟨1, limit * limit⟩)
      else pure f
    match ← fareyNeighbors target limit with
    | none => pure none
    | some (left, right) => pure (some (R.addSubInt false (if up then right else left) t))

-- ------------------------------------------------------------------ simplest_from_f32 / f64

/-- `f32::decode` / `f64::decode` (base/src/bit.rs) on a bit pattern with `eb` exponent bits and
    `mb` explicit mantissa bits: `none` for NaN/inf, else `(mantissa, exponent)` with
    `value = mantissa · 2^exponent` -/
def floatDecode (eb mb : Nat) (bits : Nat) : Option (Int × Int) :=
  let signBit := bits >>> (eb + mb)
  let mant := bits % 2 ^ mb
  let e := (bits >>> mb) % 2 ^ eb
  let bias : Int := 2 ^ (eb - 1) - 1
  if e = 2 ^ eb - 1 then none
  else
    let (m, ex) : Nat × Int :=
      if e = 0 then (mant, 1 - bias - mb) else (mant + 2 ^ mb, (e : Int) - bias - mb)
    some (if signBit % 2 = 1 then -(m : Int) else (m : Int), ex)

/-- the tail shared by `simplest_from_f32/f64/float`: the simplest fraction strictly inside
    `(lo, hi)`, replaced by an end point that is allowed (`incl…`) and simpler -/
def pickSimplest (simpler : Q → Q → Bool) (lo hi : Q) (inclLo inclHi : Bool) :
    Except PanicKind (Option Q) := do
  match ← simplestIn lo hi with
  | none => pure none
  | some s =>
    let s := if inclLo ∧ simpler lo s then lo else s
    let s := if inclHi ∧ simpler hi s then hi else s
    pure (some s)

/-- the exact rounding interval of the float `man · 2^exp` (`man ≠ 0`, magnitude `m = |man|`)
    under round-to-nearest-even, as a pair of positive rationals `(lo, hi)` for the magnitude:
    half an ulp to each side, except below a power of two (`m = 2^mb`, not the least exponent)
    where the gap below is half as large. -/
def roundingInterval (mb : Nat) (minExp : Int) (m : Nat) (exp : Int) : Q × Q :=
  -- everything over the denominator 2^k with value scale 2^(exp-2): m·2^exp = 4m · 2^(exp-2)
  let lowNum : Int := if m = 2 ^ mb ∧ exp > minExp then 4 * m - 1 else 4 * m - 2
  let highNum : Int := 4 * m + 2
  let e := exp - 2
  if e ≥ 0 then (⟨lowNum * 2 ^ e.toNat, 1⟩, ⟨highNum * 2 ^ e.toNat, 1⟩)
  else (⟨lowNum, 2 ^ (-e).toNat⟩, ⟨highNum, 2 ^ (-e).toNat⟩)

/-- `impl_simplest_from_float!`, REQUIRED behaviour: the simplest fraction among those that
    round (to nearest, ties to even) to the given float: the simplest in the open rounding
    interval, or an end point if the mantissa is even (ties go to it) and it is simpler.
    `simpler a b` is the order "a is simpler than b".

    The code at the pinned commit takes `Repr::try_from(f) ± 1/(2·den)`, which is this interval
    only for `exp ≤ 0`: for `exp > 0` (|f| ≥ 2^(mb+1)) the denominator is 1 and the interval
    collapses to ±1/2, so `f` itself is returned instead of the simplest fraction (finding
    `simplest-from-float-large`). -/
def simplestFromFloat (simpler : Q → Q → Bool) (eb mb : Nat) (bits : Nat) :
    Except PanicKind (Option (Option Q)) :=
  match floatDecode eb mb bits with
  | none => .ok (some none)
  | some (man, exp) =>
    if man = 0 then .ok (some (some Q.zero))
    else do
      let bias : Int := 2 ^ (eb - 1) - 1
      let iv := roundingInterval mb (1 - bias - mb) man.natAbs exp
      let lo ← reduce iv.1
      let hi ← reduce iv.2
      match ← pickSimplest simpler lo hi (decide (man.natAbs % 2 = 0)) (decide (man.natAbs % 2 = 0)) with
      | none => pure none
      | some s => pure (some (some (mulSign s (decide (man < 0)))))

-- ------------------------------------------------------------------ simplest_from_float (FBig)

/-- rounding modes of dashu-float (`float/src/round.rs mod mode`) -/
inductive RMode where
  | zero | away | up | down | halfAway | halfEven
  deriving Repr, DecidableEq

/-- number of base-`b` digits of `n` (0 for 0); `b ≥ 2` -/
def digitsB (b : Nat) : Nat → Nat → Nat
  | 0, _ => 0
  | fuel + 1, n => if n = 0 then 0 else 1 + digitsB b fuel (n / b)

def powQ (b : Nat) (e : Int) : Q := if e ≥ 0 then ⟨(b : Int) ^ e.toNat, 1⟩ else ⟨1, b ^ (-e).toNat⟩

/-- `m · b^e` as a (not yet reduced) pair -/
def scaleQ (m : Int) (b : Nat) (e : Int) : Q :=
  if e ≥ 0 then ⟨m * (b : Int) ^ e.toNat, 1⟩ else ⟨m, b ^ (-e).toNat⟩

/-- the ways in which the code in /repo deviates from the required behaviour of
    `simplest_from_float` (all `false` = required; all `true` = the code).  Each switch is one
    line of `float/src/round.rs impl ErrorBounds for …` (re-checked against the source in round 6):
    * `uniformUlp`: the spacing below a power of the base is taken to be a full ulp
      (`ErrorBounds` uses `f.ulp()` for both sides);
    * `ceilHalf`: half an ulp is `⌈b/2⌉·b^(e-1)`, more than half for an odd base
      (`ErrorBounds for HalfAway/HalfEven`: "ceil division");
    * `oddIncl`: `HalfEven` includes both ties iff the stored significand is ODD
      (`f.repr.significand.bit(0)`) instead of the per-tie parity rule.
    Former switches, gone because /repo was repaired: `conjSimpler` (766946e: `is_simpler_than` is
    the documented order — `Props/C18.is_simpler_than_lexicographic` about the regenerated text),
    `zeroEndpoint` (5fc5674: `simplest_in(negative, 0)`), `panicUnlimited` (round 6,
    proposed_fixes/c18-simplest-from-float-unlimited.diff: `simplest_from_float` returns the exact
    value of an unlimited-precision float BEFORE asking `R::error_bounds`, so the `f.ulp()` panic of
    `ErrorBounds for Away/Up/Down` at precision 0 is no longer reachable through this function; it
    remains a property of those `impl`s, see `Props/C18Gen.error_bounds_unlimited`). -/
structure Quirks where
  uniformUlp : Bool
  ceilHalf : Bool
  oddIncl : Bool
  deriving Repr, DecidableEq

def Quirks.none : Quirks := ⟨false, false, false⟩
def Quirks.code : Quirks := ⟨true, true, true⟩

/-- the set of real numbers that round to the float `± S·b^e` (`S` the `p`-digit significand of
    the magnitude) under a mode, as an interval of MAGNITUDES in units of `b^(e-1)/2`
    (so that half of the finer spacing below a power of the base is an integer):
    `(loNum, hiNum, inclLo, inclHi)`, value `= num · b^(e-1) / 2`.
    * spacing above `|f|` is `b^e`; below it is `b^e`, or `b^(e-1)` when `S = b^(p-1)`;
    * directed modes: towards zero in magnitude `[ |f|, |f| + above )`, away `( |f| − below, |f| ]`;
    * half modes: half a spacing to each side; a tie is included iff it rounds to `f`:
      `HalfAway` — the lower tie does, the upper does not; `HalfEven` — iff the kept integer is even
      (`S`, or `b^p` for the lower tie below a power of the base). -/
def roundingSet (k : Quirks) (mode : RMode) (b p : Nat) (negative : Bool) (S : Nat)
    (signifOdd : Bool) : Int × Int × Bool × Bool :=
  let isPow := S = b ^ (p - 1) ∧ ¬ k.uniformUlp
  let c : Int := 2 * b * S                       -- |f|
  let above : Int := 2 * b                       -- b^e
  let below : Int := if isPow then 2 else 2 * b  -- b^(e-1) or b^e
  let halfAbove : Int := if k.ceilHalf then 2 * ((b + 1) / 2 : Nat) else above / 2
  let halfBelow : Int := if k.ceilHalf then 2 * ((b + 1) / 2 : Nat) else below / 2
  let towardZero : Int × Int × Bool × Bool := (c, c + above, true, false)
  let awayZero : Int × Int × Bool × Bool := (c - below, c, false, true)
  match mode with
  | .zero => towardZero
  | .away => awayZero
  | .up => if negative then towardZero else awayZero
  | .down => if negative then awayZero else towardZero
  | .halfAway => (c - halfBelow, c + halfAbove, true, false)
  | .halfEven =>
    if k.oddIncl then (c - halfBelow, c + halfAbove, signifOdd, signifOdd)
    else (c - halfBelow, c + halfAbove,
      decide ((if isPow then b ^ p else S) % 2 = 0), decide (S % 2 = 0))

/-- the body of `RBig::simplest_from_float` for a FINITE float, with deviation switches `k`
    (`Quirks.none`: REQUIRED behaviour — the simplest fraction among those that round to the float
    `signif · b^exp` at precision `p` under `mode`; `p = 0`, unlimited precision: only the number itself rounds to
    it, and the code returns it before looking at the error bounds, for every mode).  `simpler`: the order used for the
    inclusive end points (the documented order `simplerSpec`; the driver also runs the regenerated
    `is_simpler_than`).  `none`: malformed input (more digits than the precision). -/
def simplestFromFBig (k : Quirks) (simpler : Q → Q → Bool) (mode : RMode)
    (b : Nat) (signif exp : Int) (p : Nat) : Except PanicKind (Option Q) :=
  if signif = 0 then .ok (some Q.zero)
  else if p = 0 then
    -- `if f.precision() == 0 { return Some(Self::try_from(f.clone()).unwrap()) }`
    (reduce (scaleQ signif b exp)).map some
  else
    let n := digitsB b (signif.natAbs + 1) signif.natAbs
    if n > p then .ok none
    else do
      let S := signif.natAbs * b ^ (p - n)
      let e : Int := exp - (p - n : Nat)
      let negative := decide (signif < 0)
      let (loN, hiN, inclLo, inclHi) :=
        roundingSet k mode b p negative S (decide (signif.natAbs % 2 = 1))
      -- value = num · b^(e-1) / 2
      let mk (num : Int) : Q :=
        let q := scaleQ num b (e - 1)
        ⟨q.num, q.den * 2⟩
      let lo ← reduce (mk loN)
      let hi ← reduce (mk hiN)
      match ← pickSimplest simpler lo hi inclLo inclHi with
      | none => pure none
      | some s => pure (some (mulSign s negative))

/-- **`<R as ErrorBounds>::error_bounds(f)`** (float/src/round.rs) for a finite non-zero float
    `f = signif · b^exp` with context precision `p`, as exact values `(L, R, incl_L, incl_R)`: the
    numbers that round to `f` are those between `f − L` and `f + R`, an end included iff its flag is
    set.  `k = Quirks.none`, `codeSide = false`: REQUIRED (the exact rounding set of `roundingSet`;
    unlimited precision: `(0, 0, true, true)`, as the trait documents).  `k = Quirks.code`,
    `codeSide = true`: what the six `impl`s return today (`Away`/`Up`/`Down` call `f.ulp()` first, which
    panics at precision 0).  Widths come out of the same table `roundingSet` that
    `simplestFromFBig` uses (units `b^(e−1)/2`); for a negative float the two sides swap.
    `none`: malformed input (more digits than the precision). -/
def errorBoundsFBig (k : Quirks) (codeSide : Bool) (mode : RMode) (b : Nat) (signif exp : Int)
    (p : Nat) : Except PanicKind (Option (Q × Q × Bool × Bool)) :=
  if p = 0 then
    if codeSide ∧ (mode = .away ∨ mode = .up ∨ mode = .down) then .error .unlimitedPrecision
    else .ok (some (Q.zero, Q.zero, true, true))
  else
    let n := digitsB b (signif.natAbs + 1) signif.natAbs
    if n > p then .ok none
    else
      let S := signif.natAbs * b ^ (p - n)
      let e : Int := exp - (p - n : Nat)
      let negative := decide (signif < 0)
      let (loN, hiN, inclLo, inclHi) :=
        roundingSet k mode b p negative S (decide (signif.natAbs % 2 = 1))
      let c : Int := 2 * b * S
      let mk (w : Int) : Q :=
        let q := scaleQ w b (e - 1)
        ⟨q.num, q.den * 2⟩
      let lo := mk (c - loN)
      let hi := mk (hiN - c)
      .ok (some (if negative then (hi, lo, inclHi, inclLo) else (lo, hi, inclLo, inclHi)))

/-- `Repr::is_infinite` (float/src/repr.rs): significand zero and exponent non-zero
    (`+inf = (0, 1)`, `-inf = (0, -1)`) -/
def fbigIsInfinite (signif exp : Int) : Bool := signif == 0 && exp != 0

/-- **`RBig::simplest_from_float`** (rational/src/third_party/dashu_float.rs) on the float given
    by its `Repr` `(signif, exp)` and the precision `p` of its context: `if f.repr().is_infinite()
    { return None }`, then the finite body.  Outer `none` = malformed input, inner `none` = the
    Rust `None`. -/
def rbigSimplestFromFloat (k : Quirks) (simpler : Q → Q → Bool) (mode : RMode)
    (b : Nat) (signif exp : Int) (p : Nat) : Except PanicKind (Option (Option Q)) :=
  if fbigIsInfinite signif exp then .ok (some none)
  else (simplestFromFBig k simpler mode b signif exp p).map (Option.map some)

/-- the documented order of `RBig::is_simpler_than` / `RBig::simplest_in`: smaller denominator
    first, then smaller numerator magnitude, then positive before negative (lexicographic) -/
def simplerSpec (a b : Q) : Bool :=
  decide (a.den < b.den) ||
    (decide (a.den = b.den) &&
      (decide (a.num.natAbs < b.num.natAbs) ||
        (decide (a.num.natAbs = b.num.natAbs) && decide (0 < a.num ∧ b.num < 0))))

end Dashu.Model.Ratio
