import Dashu.Model.Int.Repr
/-
  Rational layer, part 1: the representation `Repr { numerator: IBig, denominator: UBig }`
  (`rational/src/repr.rs`) and its three reductions.  Core Lean only.

  Integer kernels are taken at their contracts (they are the subject of C01/C02/C09/C12):
    `Gcd::gcd`            ↦ `gcdK`  (gcd of the magnitudes; panics for (0,0), base/src/ring/gcd.rs:250)
    `IBig / &UBig`        ↦ `Int.tdiv` (only ever applied to a divisor produced by `gcdK`, which is
                             positive whenever `gcdK` succeeds — lemma `gcdK_ok_pos` — so the
                             zero-divisor panic of the integer layer is unreachable there)
    `UBig / UBig`         ↦ `Nat` `/` (same remark)
    `trailing_zeros`      ↦ `tz`
    `>>`                  ↦ `>>>` on `Int` (floor) / `Nat`
-/
namespace Dashu.Model.Ratio
open Dashu.Model

/-- `rational/src/repr.rs struct Repr`: a pair as stored (nothing is assumed about it). -/
structure Q where
  num : Int
  den : Nat
  deriving Repr, DecidableEq, Inhabited

namespace Q
/-- the rational number denoted by a stored pair (division in core `Rat`) -/
def val (q : Q) : Rat := (q.num : Rat) / (q.den : Rat)
/-- `Repr::zero` -/
def zero : Q := ⟨0, 1⟩
/-- `Repr::one` -/
def one : Q := ⟨1, 1⟩
/-- `Repr::neg_one` -/
def negOne : Q := ⟨-1, 1⟩
end Q

/-- the invariant of `RBig`: positive denominator, coprime to the numerator
    (so zero is stored as 0/1: `gcd 0 d = d`). -/
def Reduced (q : Q) : Prop := 0 < q.den ∧ Nat.gcd q.num.natAbs q.den = 1

instance (q : Q) : Decidable (Reduced q) := by unfold Reduced; infer_instance

/-- the invariant of `Relaxed` (rbig.rs doc: common divisors "other than a power of 2" allowed):
    positive denominator, numerator and denominator not both even. -/
def RelaxedInv (q : Q) : Prop := 0 < q.den ∧ ¬ (q.num % 2 = 0 ∧ q.den % 2 = 0)

instance (q : Q) : Decidable (RelaxedInv q) := by unfold RelaxedInv; infer_instance

/-- `Gcd::gcd` on `UBig`/`IBig` operands (magnitudes), at its contract -/
def gcdK (a b : Nat) : Except PanicKind Nat :=
  if a = 0 ∧ b = 0 then .error .gcdZeroZero else .ok (Nat.gcd a b)

/-- `Sign * x`, `x * Sign`, `x.sign()` of dashu: the sign of zero is `Positive` -/
def sgn (a : Int) : Int := if a < 0 then -1 else 1

/-- `trailing_zeros().unwrap_or_default()`: number of trailing zero bits, 0 for 0 -/
def tz (n : Nat) : Nat :=
  if h : n = 0 then 0
  else if n % 2 = 1 then 0
  else
    have : n / 2 < n := Nat.div_lt_self (Nat.pos_of_ne_zero h) (by decide)
    tz (n / 2) + 1

/-- `Repr::reduce` -/
def reduce (q : Q) : Except PanicKind Q :=
  if q.num = 0 then .ok Q.zero
  else do
    let g ← gcdK q.num.natAbs q.den
    pure ⟨Int.tdiv q.num g, q.den / g⟩

/-- `Repr::reduce_with_hint`: `hint.gcd(&numerator).gcd(&denominator)` -/
def reduceWithHint (q : Q) (hint : Nat) : Except PanicKind Q :=
  if q.num = 0 then .ok Q.zero
  else do
    let g1 ← gcdK hint q.num.natAbs
    let g ← gcdK g1 q.den
    pure ⟨Int.tdiv q.num g, q.den / g⟩

/-- `Repr::reduce2`; `self.denominator.trailing_zeros().unwrap()` panics on a zero denominator (not reachable through
    the public API: every constructor and operator hands `reduce2` a non-zero denominator; the panic value names the
    file only, the line is not part of the model) -/
def reduce2 (q : Q) : Except PanicKind Q :=
  if q.num = 0 then .ok Q.zero
  else if q.den = 0 then .error (.undocumented "rational/src/repr.rs|unwrap_on_None")
  else
    let zeros := min (tz q.num.natAbs) (tz q.den)
    if zeros > 0 then .ok ⟨q.num >>> zeros, q.den >>> zeros⟩ else .ok q

-- ------------------------------------------------------------------ constructors (rbig.rs)

/-- `RBig::from_parts` -/
def rFromParts (n : Int) (d : Nat) : Except PanicKind Q :=
  if d = 0 then .error .divideByZero else reduce ⟨n, d⟩

/-- `Relaxed::from_parts` -/
def xFromParts (n : Int) (d : Nat) : Except PanicKind Q :=
  if d = 0 then .error .divideByZero else reduce2 ⟨n, d⟩

/-- `RBig::from_parts_signed(numerator, denominator: IBig)` -/
def rFromPartsSigned (n d : Int) : Except PanicKind Q := rFromParts (n * sgn d) d.natAbs

/-- `Relaxed::from_parts_signed` -/
def xFromPartsSigned (n d : Int) : Except PanicKind Q := xFromParts (n * sgn d) d.natAbs

/-- the loop of `RBig::from_parts_const`: `while r > 1 { (y, r) = (r, y % r) }` -/
def constGcdLoop (y r : Nat) : Nat × Nat :=
  if h : r > 1 then
    have : y % r < r := Nat.mod_lt _ (by omega)
    constGcdLoop r (y % r)
  else (y, r)
termination_by r

/-- `RBig::from_parts_const(sign, numerator, denominator)` (double-word magnitudes) -/
def rFromPartsConst (neg : Bool) (n d : Nat) : Except PanicKind Q :=
  if d = 0 then .error .divideByZero
  else if n = 0 then .ok Q.zero
  else
    let (n', d') :=
      if n > 1 ∧ d > 1 then
        let (y, r) := constGcdLoop d (n % d)
        if r = 0 then (n / y, d / y) else (n, d)
      else (n, d)
    .ok ⟨if neg then -(n' : Int) else n', d'⟩

/-- `Relaxed::from_parts_const` -/
def xFromPartsConst (neg : Bool) (n d : Nat) : Except PanicKind Q :=
  if d = 0 then .error .divideByZero
  else if n = 0 then .ok Q.zero
  else
    let zeros := if tz n ≤ tz d then tz n else tz d
    .ok ⟨if neg then -((n >>> zeros : Nat) : Int) else ((n >>> zeros : Nat) : Int), d >>> zeros⟩

end Dashu.Model.Ratio
