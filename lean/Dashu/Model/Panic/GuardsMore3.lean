import Dashu.Model.Panic.GuardsMore
/-
  C16 round 3 — the remaining guards whose documented condition is a pure predicate of the inputs.
  Core Lean only.
-/
namespace Dashu.Model.Panic
open Dashu.Spec.Panics

/-- `Repr::digits` (float/src/repr.rs:276-279), reached by `FBig::digits` and the harness op `f.info`: `assert_finite` -/
def guardFInfo (a : FArg) : G := assertFinite a

/-- `Reduced ÷ Reduced` in ONE ring (integer/src/modular/div.rs:134-141): `rhs.inv()` is `None` → NonInvertible.
    `inv()` is the frontier kernel here, taken at its specification: `Some` iff `gcd(residue, modulus) = 1`
    (refined in C13's model).  The constructor rejects a zero modulus first. -/
def guardMSame (W : Nat) (f : String) (m : Nat) (b : Int) : G := do
  guardCdNew W m
  if f = "div" then
    (if Nat.gcd (b % (m : Int)).natAbs m = 1 then .ok () else .error .nonInvertible)
  else .ok ()

/-- `Repr::from_chunks` (integer/src/convert.rs:393-394): `assert!(chunk_bits > 0)` (before any size arithmetic) -/
def guardFromChunks (k : Nat) : G := guardChunkBits k

/-- `FBig::from_parts` → `Repr::new` (float/src/repr.rs): no guard — the normalisation adds the number of trailing
    zero digits to the exponent with unchecked arithmetic -/
def guardFFromParts : G := .ok ()

/-- dispatch for the full-equivalence guards of this file -/
def guardModelMore3 (W : Nat) : Op → List Arg → Option G
  | .fInfo, [.flt a] => if ¬ a.canonical then none else some (guardFInfo a)
  | .mSame, [.fn f, .int m, .int _, .int b] =>
      if m < 0 ∨ ¬ (f ∈ ["add", "sub", "mul", "div", "eq"]) ∨ m = 1 then none
      else some (guardMSame W f m.natAbs b)
  | _, _ => none

end Dashu.Model.Panic
