import Dashu.Spec.Panics
/-
  C16 — the ENTRY GUARDS of a representative set of operations, mirrored from the code (each def names
  the Rust item and the lines it mirrors).  Unlike `Dashu.Spec.Panics` (a transcription of the
  documentation) these say what the code CHECKS before it starts computing.  Theorems
  `Dashu.Proofs.Panic.*` / `Dashu.Props.C16` prove, operation by operation, that the mirrored guard fails
  with kind `k` iff the documentation names `k`.  Core Lean only.

  `TypedRepr` dispatch: a magnitude is `Small` iff it fits a double word (`< 2^(2W)`), else `Large`
  (≥ 3 words, hence non-zero).
-/
namespace Dashu.Model.Panic
open Dashu.Spec.Panics

abbrev G := Except Kind Unit

def isSmall (W : Nat) (n : Nat) : Bool := n < 2 ^ (2 * W)

/-- `impl Sub for TypedRepr` (integer/src/add_ops.rs:180-265): `(Small,Small)` → `checked_sub` → `None` panics;
    `(Small, Large)` panics; `(Large, Small)` never; `(Large, Large)` → `sub_large`: shorter lhs or a final
    borrow panics (i.e. lhs < rhs). -/
def guardUSub (W : Nat) (a b : Nat) : G :=
  match isSmall W a, isSmall W b with
  | true, true => if b ≤ a then .ok () else .error .negativeUBig
  | true, false => .error .negativeUBig
  | false, true => .ok ()
  | false, false => if a < b then .error .negativeUBig else .ok ()

/-- `TypedReprRef::div_rem` and siblings (integer/src/div_ops.rs:375-405, 505-530, 610-640):
    a `Small` divisor goes through `lhs.checked_div(rhs)` / `if rhs == 0 { panic_divide_by_0() }`;
    a `Large` divisor is never zero. -/
def guardDivByZero (W : Nat) (b : Nat) : G :=
  if isSmall W b then (if b = 0 then .error .divideByZero else .ok ()) else .ok ()

/-- `Gcd for TypedReprRef` (integer/src/gcd_ops.rs:72-79): `(Small,Small)` → `DoubleWord::gcd`
    (base/src/ring/gcd.rs: `panic_gcd_0_0` when both are zero); a `Large` operand is non-zero. -/
def guardGcd (W : Nat) (a b : Nat) : G :=
  match isSmall W a, isSmall W b with
  | true, true => if a = 0 ∧ b = 0 then .error .gcdZeroZero else .ok ()
  | _, _ => .ok ()

/-- `TypedReprRef::nth_root` (integer/src/root_ops.rs:212 `0 => panic_root_zeroth()`) -/
def guardUNthRoot (n : Nat) : G := if n = 0 then .error .rootZeroth else .ok ()

/-- `IBig::nth_root` (integer/src/root_ops.rs:81-92): `n == 0` first, then `Negative && n % 2 == 0` -/
def guardINthRoot (x : Int) (n : Nat) : G :=
  if n = 0 then .error .rootZeroth
  else if x < 0 ∧ n % 2 = 0 then .error .rootNegative
  else .ok ()

/-- `SquareRoot for IBig` (integer/src/root_ops.rs:98-103) -/
def guardISqrt (x : Int) : G := if x < 0 then .error .rootNegative else .ok ()

/-- `TypedReprRef::log` (integer/src/log.rs:93-101): `RefSmall(0) = self` panics; a `Small` base 0 or 1 panics -/
def guardIlog (W : Nat) (x b : Nat) : G :=
  if x = 0 then .error .logInvalid
  else if isSmall W b ∧ (b = 0 ∨ b = 1) then .error .logInvalid
  else .ok ()

/-- `UBig::in_radix` / `IBig::in_radix` (integer/src/fmt/mod.rs:206, 234): `!is_radix_valid(radix)`;
    `is_radix_valid` is `MIN_RADIX <= radix && radix <= MAX_RADIX` (integer/src/radix.rs:23) -/
def guardInRadix (r : Nat) : G := if ¬ (2 ≤ r ∧ r ≤ 36) then .error .invalidRadix else .ok ()

/-- `ConstDivisor::new` (integer/src/div_const.rs:222-224): `TypedRepr::Small(0) => panic_divide_by_0()` -/
def guardCdNew (W : Nat) (n : Nat) : G := guardDivByZero W n

/-- float `assert_finite_operands` (float/src/error.rs:11-15) -/
def assertFiniteOperands (a b : FArg) : G := if a.isInf ∨ b.isInf then .error .infinite else .ok ()
/-- float `assert_finite` (float/src/error.rs:4-8) -/
def assertFinite (a : FArg) : G := if a.isInf then .error .infinite else .ok ()
/-- float `assert_limited_precision` (float/src/error.rs:23-27) -/
def assertLimitedPrecision (p : Nat) : G := if p = 0 then .error .unlimitedPrecision else .ok ()

/-- `Context::add` / `Context::sub` and the operators (float/src/add.rs:107,134,165,192,466,505) -/
def guardFAdd (a b : FArg) : G := assertFiniteOperands a b

/-- `Context::div` (float/src/div.rs:352-366) then `repr_div` (217-224): finite operands, limited precision,
    then the integer `div_rem` of the significands (DivideByZero for a zero divisor) -/
def guardFDiv (W : Nat) (a b : FArg) : G := do
  assertFiniteOperands a b
  assertLimitedPrecision (max a.prec b.prec)
  guardDivByZero W b.signif.natAbs

/-- `Context::sqrt` (float/src/root.rs:41-46) -/
def guardFSqrt (a : FArg) : G := do
  assertFinite a
  assertLimitedPrecision a.prec
  if a.signif < 0 then .error .rootNegative else .ok ()

/-- `FBig::ulp` (float/src/fbig.rs:392-398) -/
def guardFUlp (a : FArg) : G := if a.prec = 0 then .error .unlimitedPrecision else .ok ()

/-- `RBig::from_parts` / `Relaxed::from_parts` (rational/src/rbig.rs:50-53, 287-290) -/
def guardQFromParts (d : Nat) : G := if d = 0 then .error .divideByZero else .ok ()

/-- `RBig::nearest` / `next_up` / `next_down` (rational/src/simplify.rs:274, 309, 344): `limit.is_zero()` -/
def guardQLimit (l : Nat) : G := if l = 0 then .error .divideByZero else .ok ()

/-- `TypedReprRef::is_multiple_of_dword` (integer/src/div_ops.rs:653-657, after fix c27ca7f):
    `if divisor == 0 { panic_divide_by_0() }` -/
def guardIsMultipleOfConst (d : Nat) : G := if d = 0 then .error .divideByZero else .ok ()

/-- `FBig::split_at_point` (float/src/round_ops.rs:83-84, after fix 65edb1e): `assert_finite(&self.repr)` -/
def guardFSplitAtPoint (a : FArg) : G := assertFinite a

/-- `align_as_int` of `DivEuclid / RemEuclid / DivRemEuclid for FBig` (float/src/div.rs:205-206, after fix 0ffa05d):
    `assert_finite_operands`, then the integer euclidean division of the aligned significands (zero divisor:
    `panic_divide_by_0` of the integer crate) -/
def guardFEuclid (W : Nat) (a b : FArg) : G := do
  assertFiniteOperands a b
  guardDivByZero W b.signif.natAbs

/-- `Context::powf` (float/src/exp.rs:173-189, after fix d9f681e): `assert_finite_operands(base, exp)`,
    `assert_limited_precision`, the shortcuts `exp.is_zero()`, `exp.is_one()`, `base.is_zero()` return, then
    `base.sign() == Negative` panics -/
def guardFPowf (a b : FArg) : G := do
  assertFiniteOperands a b
  assertLimitedPrecision (max a.prec b.prec)
  if b.signif = 0 then .ok ()                       -- exp.is_zero()  (finite)
  else if b.signif = 1 ∧ b.exp = 0 then .ok ()       -- exp.is_one()
  else if a.signif = 0 then .ok ()                   -- base.is_zero()
  else if a.signif < 0 then .error .powNegativeBase
  else .ok ()

/-- `*x <= Repr::neg_one()` for a finite `x = signif · base^exp` (the comparison of float/src/cmp.rs at its
    specification, by cross-multiplication) -/
def leNegOne (a : FArg) : Bool :=
  if a.exp ≥ 0 then a.signif * ((a.base ^ a.exp.toNat : Nat) : Int) ≤ -1
  else a.signif ≤ -((a.base ^ (-a.exp).toNat : Nat) : Int)

/-- `Context::ln_internal(x, one_plus = false)` (float/src/log.rs:225-241, after fix b0e87a3): `assert_finite`,
    `assert_limited_precision`, shortcut `x.is_one()`, then `x.is_zero() || x.sign() == Negative` panics -/
def guardFLn (a : FArg) : G := do
  assertFinite a
  assertLimitedPrecision a.prec
  if a.signif = 1 ∧ a.exp = 0 then .ok ()
  else if a.signif = 0 ∨ a.signif < 0 then .error .logInvalid
  else .ok ()

/-- `Context::ln_internal(x, one_plus = true)`: shortcut `x.is_zero()`, then
    `x.sign() == Negative && *x <= Repr::neg_one()` panics -/
def guardFLn1p (a : FArg) : G := do
  assertFinite a
  assertLimitedPrecision a.prec
  if a.signif = 0 then .ok ()
  else if a.signif < 0 ∧ leNegOne a then .error .logInvalid
  else .ok ()

/-- the mirrored guard of a call, for the ops that have one (same argument validation as `verdict`) -/
def guardModel (W : Nat) : Op → List Arg → Option G
  | .uSub, [.int a, .int b] => if a < 0 ∨ b < 0 then none else some (guardUSub W a.natAbs b.natAbs)
  | .uDiv, [.int a, .int b] | .uRem, [.int a, .int b] | .uDivRem, [.int a, .int b]
  | .uDivEuclid, [.int a, .int b] | .uRemEuclid, [.int a, .int b] | .uDivRemEuclid, [.int a, .int b]
  | .uIsMultipleOf, [.int a, .int b] => if a < 0 ∨ b < 0 then none else some (guardDivByZero W b.natAbs)
  | .iDiv, [.int _, .int b] | .iRem, [.int _, .int b] | .iDivRem, [.int _, .int b]
  | .iDivEuclid, [.int _, .int b] | .iRemEuclid, [.int _, .int b] | .iDivRemEuclid, [.int _, .int b]
  | .iIsMultipleOf, [.int _, .int b] => some (guardDivByZero W b.natAbs)
  | .uGcd, [.int a, .int b] | .uGcdExt, [.int a, .int b] =>
      if a < 0 ∨ b < 0 then none else some (guardGcd W a.natAbs b.natAbs)
  | .iGcd, [.int a, .int b] | .iGcdExt, [.int a, .int b] => some (guardGcd W a.natAbs b.natAbs)
  | .uNthRoot, [.int x, .dec n] => if x < 0 ∨ n < 0 then none else some (guardUNthRoot n.toNat)
  | .iNthRoot, [.int x, .dec n] => if n < 0 then none else some (guardINthRoot x n.toNat)
  | .iSqrt, [.int x] => some (guardISqrt x)
  | .uIlog, [.int x, .int b] => if x < 0 ∨ b < 0 then none else some (guardIlog W x.natAbs b.natAbs)
  | .iIlog, [.int x, .int b] => if b < 0 then none else some (guardIlog W x.natAbs b.natAbs)
  | .uInRadix, [.int x, .dec r] => if x < 0 then none else some (if r < 0 then .error .invalidRadix else guardInRadix r.toNat)
  | .iInRadix, [.int _, .dec r] => some (if r < 0 then .error .invalidRadix else guardInRadix r.toNat)
  | .cdNew, [.int x] => if x < 0 then none else some (guardCdNew W x.natAbs)
  | .uIsMultipleOfConst, [.int a, .int d] =>
      if a < 0 ∨ d < 0 ∨ d ≥ 2 ^ (2 * W) then none else some (guardIsMultipleOfConst d.natAbs)
  | .iIsMultipleOfConst, [.int _, .int d] =>
      if d < 0 ∨ d ≥ 2 ^ (2 * W) then none else some (guardIsMultipleOfConst d.natAbs)
  | .fDivEuclid, [.flt a, .flt b] | .fRemEuclid, [.flt a, .flt b] =>
      if ¬ (a.canonical ∧ b.canonical ∧ sameKind a b) then none else some (guardFEuclid W a b)
  | .fPowf, [.flt a, .flt b] =>
      if ¬ (a.canonical ∧ b.canonical ∧ sameKind a b) then none else some (guardFPowf a b)
  | .fSplitAtPoint, [.flt a] => if ¬ a.canonical then none else some (guardFSplitAtPoint a)
  | .fLn, [.flt a] => if ¬ a.canonical then none else some (guardFLn a)
  | .fLn1p, [.flt a] => if ¬ a.canonical then none else some (guardFLn1p a)
  | .fAdd, [.flt a, .flt b] | .fSub, [.flt a, .flt b] =>
      if ¬ (a.canonical ∧ b.canonical ∧ sameKind a b) then none else some (guardFAdd a b)
  | .fDiv, [.flt a, .flt b] =>
      if ¬ (a.canonical ∧ b.canonical ∧ sameKind a b) then none else some (guardFDiv W a b)
  | .fSqrt, [.flt a] => if ¬ a.canonical then none else some (guardFSqrt a)
  | .fUlp, [.flt a] => if ¬ a.canonical ∨ a.prec > 2 ^ 62 then none else some (guardFUlp a)   -- hypothesis of fbig_ulp_guard_partial
  | .qFromParts, [.int _, .int d, .kind _] => if d < 0 then none else some (guardQFromParts d.natAbs)
  | .qNearest, [.int _, .int d, .kind _, .int l] | .qNextUp, [.int _, .int d, .kind _, .int l]
  | .qNextDown, [.int _, .int d, .kind _, .int l] => if d ≤ 0 ∨ l < 0 then none else some (guardQLimit l.natAbs)
  | _, _ => none

end Dashu.Model.Panic
