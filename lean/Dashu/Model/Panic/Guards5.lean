import Dashu.Model.Panic.GuardsMore3
/-
  C16 round 5 — the size RESERVATIONS that were frontier until now, mirrored from the code:
    * `UBig::pow` / `IBig::pow` / `RBig::pow` (integer/src/pow.rs, rational/src/mul.rs:30-35),
    * `Repr::from_chunks` (integer/src/convert.rs:393-408),
    * `Repr::to_float` of the rational crate (rational/src/third_party/dashu_float.rs:110-111, a bare `assert!`),
    * the folds `Sum` / `Product` of FBig (float/src/iter.rs).
  Core Lean only (the driver links and executes these).
-/
namespace Dashu.Model.Panic
open Dashu.Spec.Panics

-- ------------------------------------------------------------------ pow

/-- the `while let Some(prod) = pow.checked_mul(base)` loop of `max_exp_in_word` (integer/src/math.rs:146-149);
    the fuel is never exhausted for `base ≥ 2` with fuel `W` (every step doubles `pow` at least) -/
def maxExpLoop (W base : Nat) : Nat → Nat → Nat → Nat × Nat
  | 0, e, p => (e, p)
  | fuel + 1, e, p => if p * base < 2 ^ W then maxExpLoop W base fuel (e + 1) (p * base) else (e, p)

/-- `math::max_exp_in_word(base)` (integer/src/math.rs:135-151): the largest `k` with `base^k ≤ Word::MAX`, and
    `base^k`.  Shortcut `base > ones_word(W/2)`; else start at `W / bit_len(base)` and multiply while it fits. -/
def maxExpInWord (W base : Nat) : Nat × Nat :=
  if base > 2 ^ (W / 2) - 1 then (1, base)
  else
    let e := W / bitLen base
    maxExpLoop W base W e (base ^ e)

/-- words reserved by `pow_word_base(base, exp)` (integer/src/pow.rs:112-166) for a base that is not 0, 1 or a power
    of two, `exp > 2`: none when the result fits a double word (`exp < 2·wexp`), else
    `Buffer::allocate((exp / wexp).checked_add(1))` (an overflowing `+ 1` is the same `panic_allocate_too_much`) -/
def powWordRequest (W base e : Nat) : Option Nat :=
  let wexp := (maxExpInWord W base).1
  if e < 2 * wexp then none else some (e / wexp + 1)

/-- words reserved by `pow_dword_base(base, exp)` (integer/src/pow.rs:168-176): `Buffer::allocate(exp.checked_mul(2))` -/
def powDwordRequest (e : Nat) : Option Nat := some (2 * e)

/-- `TypedReprRef::pow(exp)` (integer/src/pow.rs:93-110) on the odd part `odd ≥ 1` of the base: `exp ≤ 2` are shortcuts
    (one / copy / `sqr`), a word base 1 returns at once, a word base ≥ 3 goes to `pow_word_base`, a double-word base to
    `pow_dword_base`, and `pow_large_base` (≥ 3 words, pow.rs:231-246) reserves NOTHING up front -/
def typedPowRequest (W odd e : Nat) : Option Nat :=
  if e ≤ 2 then none
  else if odd < 2 ^ W then (if odd ≤ 1 then none else powWordRequest W odd e)
  else if odd < 2 ^ (2 * W) then powDwordRequest e
  else none

/-- `UBig::pow` / `IBig::pow` (integer/src/pow.rs:17-34, 47-70) on the magnitude `x ≥ 1`, FIRST stage: the factor
    `2^shift` is removed and the odd part raised — the reservation of that call is checked first -/
def guardPowOdd (W x e : Nat) : G :=
  guardRequest W (typedPowRequest W (x >>> tz2 x) e)

/-- SECOND stage for a power of two `x = 2^s`, `s ≥ 1` (the odd part is 1, so the first stage returns `1`):
    `.shl(exp.checked_mul(shift).unwrap_or_else(panic_allocate_too_much))`, then `1 << n` reserves `n / W + 1` words -/
def guardPowTwoShift (W s e : Nat) : G :=
  if e * s > usizeMax then .error .allocTooMuch
  else guardRequest W (shlRequest W 1 (e * s))

/-- the whole reservation guard where it is a function of the arguments (`none`: a base of ≥ 3 words reserves
    nothing up front — the first allocation happens inside `square_large`; and for an even base with odd part > 1 the
    second-stage request depends on the VALUE `odd^e`, which exists only if the first stage succeeded) -/
def guardPow (W x e : Nat) : Option G :=
  if x = 0 then some (.ok ())
  else
    let s := tz2 x
    let odd := x >>> s
    if odd = 1 then some (if s = 0 ∨ e ≤ 1 then .ok () else guardPowTwoShift W s e)
    else if ¬ (odd < 2 ^ (2 * W)) ∧ e > 2 then none
    else
      match guardPowOdd W x e with
      | .error k => some (.error k)
      | .ok () => if s = 0 then some (.ok ()) else none

/-- `Repr::pow` of the rational crate (rational/src/mul.rs:30-35): numerator first, then denominator -/
def guardQPow (W n d e : Nat) : Option G :=
  match guardPow W n e with
  | some (.ok ()) => guardPow W d e
  | r => r

-- ------------------------------------------------------------------ from_chunks

/-- `words.len()` of `UBig::as_words` (0 for zero) -/
def wordLen (W n : Nat) : Nat := (bitLen n + W - 1) / W

/-- `result_len = max_len + (chunks.len() - 1) * chunk_bits + 1` (integer/src/convert.rs:397) as a NUMBER: the code
    computes it in unchecked `usize` arithmetic and counts WORDS with `chunk_bits` (a number of BITS) -/
def fromChunksLen (W k : Nat) (cs : List Nat) : Nat :=
  (cs.map (wordLen W)).foldl max 0 + (cs.length - 1) * k + 1

/-- mirrored guard of `Repr::from_chunks`: `assert!(chunk_bits > 0)`; no chunk: zero; `none` when the unchecked
    arithmetic leaves `usize` (debug: overflow panic, release: wraps — recorded finding); else `Buffer::allocate` -/
def guardFromChunksSize (W k : Nat) (cs : List Nat) : Option G :=
  if k = 0 then some (.error .zeroChunkBits)
  else if cs = [] then some (.ok ())
  else if fromChunksLen W k cs > usizeMax then none
  else some (guardAllocWords W (fromChunksLen W k cs))

-- ------------------------------------------------------------------ rational to_float

/-- `Repr::to_float` (rational/src/third_party/dashu_float.rs:111): `assert!(precision > 0)` — a bare assertion: it
    does stop the call at once, but its message is not one of the documented kinds.  `true` = the assertion fails. -/
def qToFloatAssertFails (p : Nat) : Bool := p = 0

/-- `Repr::to_float` (dashu_float.rs, since fix 43925c0): `let need_digits = precision.saturating_add(den_digits);` -/
def qToFloatNeedDigits (p denDigits : Nat) : Nat := min (p + denDigits) usizeMax

/-- `Repr::to_float`: `shift = 0` if `num_digits >= need_digits`, else `need_digits - num_digits` (truncated subtraction
    gives 0 in the first case) -/
def qToFloatShift (p numDigits denDigits : Nat) : Nat := qToFloatNeedDigits p denDigits - numDigits

-- ------------------------------------------------------------------ Context::powi working precisions (round 6)

/-- `Context::powi` (float/src/exp.rs:126-127), negative exponent: `Context::<R::Reverse>::new(self.precision + guard_bits)` with
    `guard_bits = self.precision.bit_len() * 2` — as a NUMBER (the code adds in unchecked `usize`) -/
def fPowiRevPrecision (p : Nat) : Nat := p + bitLen p * 2

/-- `Context::powi` (exp.rs:145-146), limited precision: `Context::<R>::new(self.precision + guard_digits)` with
    `guard_digits = exp.bit_len() + self.precision.bit_len()` — as a NUMBER -/
def fPowiWorkPrecision (p e : Nat) : Nat := p + (bitLen e + bitLen p)

/-- both sums of `powi(x, e)` at context precision `p` stay inside `usize`, in the order of the code: unlimited precision adds
    nothing; a negative exponent first builds the reversed context (line 127) and calls itself with `|e|` at that precision; the
    shortcuts `exp = 0` / `exp = 1` return before line 146.  `false` = the class of finding float_precision_usize_overflow
    (debug builds: 'attempt to add with overflow'; release builds: wrapped working precision). -/
def fPowiPrecisionFits (p : Nat) (e : Int) : Bool :=
  if p = 0 then true
  else if e < 0 then
    decide (fPowiRevPrecision p ≤ usizeMax) &&
      (decide (e.natAbs ≤ 1) || decide (fPowiWorkPrecision (fPowiRevPrecision p) e.natAbs ≤ usizeMax))
  else decide (e.natAbs ≤ 1) || decide (fPowiWorkPrecision p e.natAbs ≤ usizeMax)

-- ------------------------------------------------------------------ folds

/-- `Sum` / `Product` for FBig (float/src/iter.rs:12-28): `iter.fold(ZERO, add)` / `fold(ONE, mul)`; every step runs
    `assert_finite_operands(acc, x)` first (float/src/add.rs, mul.rs) and the accumulator is finite, so the first
    infinite ELEMENT stops the fold -/
def guardFFold : List FArg → G
  | [] => .ok ()
  | a :: r => do assertFinite a; guardFFold r

/-- dispatch, guards with a FULL equivalence to the documentation (driver: any difference is a model defect) -/
def guardModel5 (_W : Nat) : Op → List Arg → Option G
  | .fSum, as | .fProduct, as =>
      match allFlts as with
      | none => none
      | some l => if ¬ fListOk l then none else some (guardFFold l)
  | _, _ => none

/-- dispatch, size reservations: these are upper bounds of the result size, so only the two implications of
    `sizeConsistent` hold between them and the documentation -/
def sizeGuard5 (W : Nat) : Op → List Arg → Option G
  | .uPow, [.int x, .dec e] => if x < 0 ∨ e < 0 then none else guardPow W x.natAbs e.toNat
  | .iPow, [.int x, .dec e] => if e < 0 then none else guardPow W x.natAbs e.toNat
  | .qPow, [.int n, .int d, .kind c, .dec e] =>
      if d ≤ 0 ∨ e < 0 then none
      else
        let g := if n = 0 then d.natAbs
                 else if c = 'R' then Nat.gcd n.natAbs d.natAbs
                 else 2 ^ min (tz2 n.natAbs) (tz2 d.natAbs)
        guardQPow W (n.natAbs / g) (d.natAbs / g) e.toNat
  | .uFromChunks, .dec k :: cs =>
      match allInts cs with
      | none => none
      | some l => if k < 0 ∨ l.any (· < 0) then none else guardFromChunksSize W k.toNat (l.map Int.natAbs)
  | _, _ => none

/-- what the theorems of `Proofs/Panic/Guards5` give for a reservation guard `g` against the documentation `v`:
    (S1) a result that cannot be addressed (documented AllocTooMuch) is refused by the reservation;
    (S2) a refused reservation never belongs to a call the documentation says returns;
    any other failure kind of the guard (ZeroChunkBits) is documented as such -/
def sizeConsistent (v : Verdict) : G → Bool
  | .ok () => v ≠ .panics .allocTooMuch ∧ v ≠ .panics .zeroChunkBits
  | .error .allocTooMuch => v ≠ .returns ∧ v ≠ .panics .zeroChunkBits
  | .error k => v = .panics k

end Dashu.Model.Panic
