/-
  C16 (3) — the two loops of cmpute/dashu whose TERMINATION is the question, mirrored with fuel
  (`none` = out of fuel).  Core Lean only.

  * `fareyLoop`  : the `loop { … }` of `RBig::farey_neighbors` (rational/src/simplify.rs:229-249).
  * `lnLoop`     : the series loop of `Context::ln_internal` (float/src/log.rs:289-300).
-/
namespace Dashu.Model.Panic

/-- a fraction as `Repr` holds it: signed numerator, unsigned denominator (not necessarily reduced) -/
structure Fr where
  num : Int
  den : Nat
  deriving Repr, DecidableEq

/-- `Repr::reduce` (rational/src/repr.rs): divide out the gcd -/
def Fr.reduce (f : Fr) : Fr :=
  let g := Int.gcd f.num f.den
  ⟨f.num / g, f.den / g⟩

/-- `next > x.0` on positive denominators: cross-multiplication (rational/src/cmp.rs) -/
def Fr.gt (a b : Fr) : Bool := a.num * b.den > b.num * a.den

/-- one unit of fuel = one iteration of the `loop` in `farey_neighbors(x, limit)`:
    ```
    let mut next = Repr { numerator: &left.numerator + &right.numerator,
                          denominator: &left.denominator + &right.denominator };
    if &next.denominator > limit { next = next.reduce();
                                   if &next.denominator > limit { return (left, right); } }
    if next > x.0 { right = next; } else { left = next; }
    ``` -/
def fareyLoop (x : Fr) (limit : Nat) : Nat → Fr → Fr → Option (Fr × Fr)
  | 0, _, _ => none
  | fuel + 1, left, right =>
    let next : Fr := ⟨left.num + right.num, left.den + right.den⟩
    if next.den > limit then
      let next' := next.reduce
      if next'.den > limit then some (left, right)
      else if next'.gt x then fareyLoop x limit fuel left next' else fareyLoop x limit fuel next' right
    else if next.gt x then fareyLoop x limit fuel left next else fareyLoop x limit fuel next right

/-- `farey_neighbors` for `0 < x < 1` starts from `(0/1, 1/1)`; for `-1 < x < 0` from `(-1/1, 0/1)` -/
def fareyStart (x : Fr) : Fr × Fr := if x.num < 0 then (⟨-1, 1⟩, ⟨0, 1⟩) else (⟨0, 1⟩, ⟨1, 1⟩)

def fareyNeighbors (x : Fr) (limit : Nat) (fuel : Nat) : Option (Fr × Fr) :=
  fareyLoop x limit fuel (fareyStart x).1 (fareyStart x).2

/-- the series loop of `ln_internal`, over exact rationals (`z2 = z²`, `pow = z^(k-2)`), with the stopping test
    `increase.abs_cmp(&sum.sub_ulp()).is_le()` against a fixed `eps` (a lower bound of `sum.sub_ulp()` during the
    run: the partial sums stay between `z` and `2z`):
    ```
    let mut k: usize = 3;
    loop { pow *= &z2;
           let increase = &pow / k;
           if |increase| <= sub_ulp(sum) { break; }
           sum += increase; k += 2; }
    ``` -/
def lnLoop (z2 eps : Rat) : Nat → Rat → Rat → Nat → Option Rat
  | 0, _, _, _ => none
  | fuel + 1, pow, sum, k =>
    let pow' := pow * z2
    let inc := pow' / (k : Rat)
    if inc ≤ eps ∧ -inc ≤ eps then some sum
    else lnLoop z2 eps fuel pow' (sum + inc) (k + 2)

/-- `z = (x_scaled - 1) / (x_scaled + 1)`, the series starts with `pow = sum = z`, `k = 3` -/
def lnSeries (xScaled eps : Rat) (fuel : Nat) : Option Rat :=
  let z := (xScaled - 1) / (xScaled + 1)
  lnLoop (z * z) eps fuel z z 3

end Dashu.Model.Panic
