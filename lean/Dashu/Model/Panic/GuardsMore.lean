import Dashu.Model.Panic.Guards
/-
  C16 round 2 — further ENTRY GUARDS mirrored from the code (same conventions as `Guards.lean`; every def names the
  Rust item and lines).  Families: the finite-only float operations, mul/sqr/cubic, rem, inv, exp/exp_m1, powi,
  shifts, base conversion, from_repr; rational constructors and divisions; ConstDivisor / Reduced; chunks; and the
  allocation requests of `ones` / `set_bit` / `<<` (now that `Buffer::allocate` and `Buffer::reallocate` test
  `MAX_CAPACITY`, fixes 52b4fc5 / ada6bea).  Core Lean only.
-/
namespace Dashu.Model.Panic
open Dashu.Spec.Panics

-- ------------------------------------------------------------------ floats

/-- `FBig::to_int / trunc / fract / ceil / floor / round` (float/src/convert.rs:399, round_ops.rs:34,123,157,197,245):
    `assert_finite(&self.repr)` and nothing else -/
def guardFFiniteOnly (a : FArg) : G := assertFinite a

/-- `Context::mul` and the `*` operators (float/src/mul.rs:17,33,49,65,144): `assert_finite_operands`; the exponent
    sum `lhs.exponent + rhs.exponent` is NOT checked -/
def guardFMul (a b : FArg) : G := assertFiniteOperands a b

/-- `Context::sqr` / `cubic` (float/src/mul.rs:194, 232): `assert_finite` -/
def guardFSqrCubic (a : FArg) : G := assertFinite a

/-- `Context::rem` (float/src/div.rs:387-390) → `repr_rem` (264): `assert_finite_operands`, then the remainder of
    the significands (`lhs_signif % &rhs_signif` / `ConstDivisor::new(rhs_signif)`): zero divisor → integer
    `panic_divide_by_0` -/
def guardFRem (W : Nat) (a b : FArg) : G := do
  assertFiniteOperands a b
  guardDivByZero W b.signif.natAbs

/-- `Context::inv` (float/src/div.rs:408-411) = `repr_div(Repr::one(), f)` (217-224) -/
def guardFInv (W : Nat) (a : FArg) : G := do
  assertFinite a
  assertLimitedPrecision a.prec
  guardDivByZero W a.signif.natAbs

/-- `Context::exp_internal` (float/src/exp.rs:246-256): `assert_finite`, `assert_limited_precision`, zero returns;
    the later `s.try_into().expect("exponent is too large")` is the overflow guard (not mirrored here: `s` is
    `⌊x / ln B⌋`, a transcendental quantity; the theorem is stated where `|x| ≤ 2^61` makes it succeed) -/
def guardFExp (a : FArg) : G := do
  assertFinite a
  assertLimitedPrecision a.prec

/-- `Context::powi` (float/src/exp.rs:103-124): `assert_finite(base)`; a negative exponent needs limited precision
    and ends in `repr_div(Repr::one(), pow)` (division by a zero power: integer `panic_divide_by_0`) -/
def guardFPowi (a : FArg) (e : Int) : G := do
  assertFinite a
  if e < 0 then do
    assertLimitedPrecision a.prec
    if a.signif = 0 then .error .divideByZero else .ok ()
  else .ok ()

/-- `Shl<isize> / Shr<isize> for FBig` (float/src/shift.rs:8,19,30,41): `assert_finite`; `exponent ± rhs` unchecked -/
def guardFShift (a : FArg) : G := assertFinite a

/-- `Context::convert_base::<B, NewB>` for `{B, NewB} = {2, 10}` (float/src/convert.rs:487-528): same base and
    infinities return; neither base is a power of the other, so `self.precision == 0` panics.  The precision is the
    TARGET precision chosen by `with_base` (convert.rs:297-301): `⌊log2(B^p) / log2(NewB)⌋`, which is 0 for
    `p = 0` (and, a recorded finding, for binary `p ≤ 3`); `⌊log_NewB(B^p)⌋ = 0 ⇔ B^p < NewB` -/
def guardFConvertBase (a : FArg) (newBase : Nat) : G :=
  if a.base = newBase then .ok ()
  else if a.isInf then .ok ()
  else if a.base ^ a.prec < newBase then .error .unlimitedPrecision     -- ⌊log_NewB(B^p)⌋ = 0
  else .ok ()

/-- `FBig::from_repr` (float/src/fbig.rs:150-153), debug builds:
    `debug_assert!(repr.is_infinite() || !context.is_limited() || repr.digits() <= context.precision)` -/
def guardFFromRepr (dbg : Bool) (a : FArg) : G :=
  if dbg ∧ ¬ (a.isInf ∨ a.prec = 0 ∨ a.normDigits ≤ a.prec) then .error .precisionExceeded else .ok ()

-- ------------------------------------------------------------------ rationals

/-- `RBig/Relaxed::from_parts_signed` (rational/src/rbig.rs:91-95, 313-330): `denominator.is_zero()` -/
def guardQFromPartsSigned (d : Int) : G := if d = 0 then .error .divideByZero else .ok ()

/-- `Inverse for Repr` (rational/src/div.rs:279, fix 8dae589): `self.numerator.is_zero()` -/
def guardQInv (n : Int) : G := if n = 0 then .error .divideByZero else .ok ()

/-- `Div / Rem / DivEuclid / RemEuclid / DivRemEuclid` between rationals (rational/src/div.rs:19,37,139,187,205):
    `$rc.is_zero()` on the numerator of the divisor -/
def guardQDiv (n2 : Int) : G := if n2 = 0 then .error .divideByZero else .ok ()

/-- rational ÷ integer (rational/src/div.rs:105,122,161,174): `$ri.is_zero()` -/
def guardQDivInt (i : Int) : G := if i = 0 then .error .divideByZero else .ok ()

-- ------------------------------------------------------------------ ConstDivisor / Reduced

/-- `ConstDivisor::from_word` / `from_dword` (integer/src/div_const.rs:237-250): `== 0` → `panic_divide_by_0` -/
def guardCdFromPrim (x : Nat) : G := if x = 0 then .error .divideByZero else .ok ()

/-- binary operators of `Reduced` built in TWO `ConstDivisor` instances (integer/src/modular/{add,mul,div}.rs,
    repr.rs:86-106): both constructors reject a zero modulus; `check_same_ring_*` is `ptr::eq`, false for two
    instances whatever their moduli ("Equality is identity") -/
def guardMDiff (W m1 m2 : Nat) : G := do
  guardCdNew W m1
  guardCdNew W m2
  .error .differentRings

/-- `UBig::to_chunks` / `from_chunks` (integer/src/convert.rs:256, 394): `assert!(chunk_bits > 0)` -/
def guardChunkBits (k : Nat) : G := if k = 0 then .error .zeroChunkBits else .ok ()

-- ------------------------------------------------------------------ allocation requests

/-- `Buffer::allocate(num_words)` (integer/src/buffer.rs:121-126, fix 52b4fc5) and `Buffer::reallocate`
    (175-181, fix ada6bea): `num_words > MAX_CAPACITY` → `panic_allocate_too_much`.  (Whether the allocator then
    succeeds — `panic_out_of_memory` — is a fact about the environment, not a guard.) -/
def guardAllocWords (W : Nat) (numWords : Nat) : G :=
  if numWords > maxCapacity W then .error .allocTooMuch else .ok ()

/-- words requested by `Repr::ones(n)` (integer/src/repr.rs:417-431): none up to a double word, else `n / W + 1` -/
def onesRequest (W n : Nat) : Option Nat := if n ≤ 2 * W then none else some (n / W + 1)

/-- words requested by `TypedRepr::set_bit(n)` (integer/src/bits.rs:428-460): an inline value grows to
    `n / W + 1` words when `n ≥ 2W`; a heap value calls `ensure_capacity(n / W + 1)` when that exceeds its length -/
def setBitRequest (W x n : Nat) : Option Nat :=
  if isSmall W x then (if n < 2 * W then none else some (n / W + 1))
  else if n / W < (bitLen x + W - 1) / W then none else some (n / W + 1)

/-- words requested by `TypedRepr << n` (integer/src/shift_ops.rs:233-297) for `x ≠ 0`:
    inline and fitting: none; `1 << n`: `n / W + 1`; other inline values: `n / W + 3`; heap: `n / W + len + 1` -/
def shlRequest (W x n : Nat) : Option Nat :=
  if isSmall W x then
    (if bitLen x + n ≤ 2 * W then none
     else if x = 1 then some (n / W + 1)
     else some (n / W + 3))
  else some (n / W + (bitLen x + W - 1) / W + 1)

def guardRequest (W : Nat) : Option Nat → G
  | none => .ok ()
  | some r => guardAllocWords W r

/-- the mirrored guard of a call for the ops of this file (same argument validation as `verdict`); the allocation
    requests are not part of it (they decide only the AllocTooMuch half of the documentation) -/
def guardModelMore (W : Nat) : Op → List Arg → Option G
  | .fToInt, [.flt a] | .fTrunc, [.flt a] | .fFract, [.flt a] | .fCeil, [.flt a] | .fFloor, [.flt a]
  | .fRound, [.flt a] => if ¬ a.canonical then none else some (guardFFiniteOnly a)
  | .fRem, [.flt a, .flt b] =>
      if ¬ (a.canonical ∧ b.canonical ∧ sameKind a b) then none else some (guardFRem W a b)
  | .fInv, [.flt a] => if ¬ a.canonical then none else some (guardFInv W a)
  | .fToBinary, [.flt a] => if ¬ a.canonical then none else some (guardFConvertBase a 2)
  | .fFromRepr, [.dec dbg, .flt a] =>
      if ¬ (dbg = 0 ∨ dbg = 1) ∨ ¬ ((a.base = 2 ∧ a.mode = 'Z') ∨ (a.base = 10 ∧ a.mode = 'H')) then none
      else some (guardFFromRepr (dbg = 1) a)
  | .qFromPartsSigned, [.int _, .int d, .kind _] => some (guardQFromPartsSigned d)
  | .qInv, [.int n, .int d, .kind _] => if d ≤ 0 then none else some (guardQInv n)
  | .qDiv, [.int _, .int d, .kind _, .int n2, .int d2] | .qRem, [.int _, .int d, .kind _, .int n2, .int d2]
  | .qDivEuclid, [.int _, .int d, .kind _, .int n2, .int d2] =>
      if d ≤ 0 ∨ d2 ≤ 0 then none else some (guardQDiv n2)
  | .qDivInt, [.int _, .int d, .kind _, .int i] => if d ≤ 0 then none else some (guardQDivInt i)
  | .cdFromWord, [.int x] => if x < 0 ∨ x ≥ 2 ^ W then none else some (guardCdFromPrim x.natAbs)
  | .cdFromDword, [.int x] => if x < 0 ∨ x ≥ 2 ^ (2 * W) then none else some (guardCdFromPrim x.natAbs)
  | .cdDivRem, [.int _, .int m] => if m < 0 then none else some (guardCdNew W m.natAbs)
  | .mInv, [.int m, .int _] => if m < 0 then none else some (guardCdNew W m.natAbs)
  | .mPow, [.int m, .int _, .int e] => if m < 0 ∨ e < 0 then none else some (guardCdNew W m.natAbs)
  | .uToChunks, [.int x, .dec k] => if x < 0 ∨ k < 0 then none else some (guardChunkBits k.toNat)
  | .mDiff, [.fn f, .int m1, .int _, .int m2, .int _] =>
      if m1 < 0 ∨ m2 < 0 ∨ ¬ (f ∈ ["add", "sub", "mul", "div", "eq"]) then none
      else some (guardMDiff W m1.natAbs m2.natAbs)
  | _, _ => none

end Dashu.Model.Panic
