/-
  C16 round 3 — further loops whose termination rests on a numerical argument, mirrored with fuel (`none` = out of
  fuel).  Core Lean only.

  * `expLoop`      : the Maclaurin loop of `Context::exp_internal` (float/src/exp.rs, `loop { factorial *= k; pow *= &r; … }`)
  * `iacothLoop`   : the series loop of `Context::iacoth` (float/src/log.rs:172-183)
  * `logFixLoop`   : the "fix the estimate by trials" loops of integer `log` (integer/src/log.rs: `log_dword`
                     `while let Some(next_pow) = est_pow.checked_mul(base)`, `log_large` `loop { … }`)
  * `removeUpLoop` : the first stage of `UBig::remove` (integer/src/remove.rs: division by `factor^(2^i)`)
  * `powBitLoop`   : the left-to-right binary exponentiation loops of integer `pow` (integer/src/pow.rs) and float
                     `powi` (float/src/exp.rs): `p` runs from `bit_len(exp) - 2` down to 0
-/
namespace Dashu.Model.Panic

/-- ```
    let mut k = 2;
    loop { factorial *= k; pow *= &r;
           let increase = &pow / &factorial;
           if increase.abs_cmp(&sum.sub_ulp()).is_le() { break; }
           sum += increase; k += 1; }
    ```
    over exact rationals, stopping test against a fixed `eps` (lower bound of `sum.sub_ulp()`; `sum ≥ 1/2`) -/
def expLoop (r eps : Rat) : Nat → Rat → Rat → Rat → Nat → Option Rat
  | 0, _, _, _, _ => none
  | fuel + 1, factorial, pow, sum, k =>
    let factorial' := factorial * (k : Rat)
    let pow' := pow * r
    let inc := pow' / factorial'
    if inc ≤ eps ∧ -inc ≤ eps then some sum
    else expLoop r eps fuel factorial' pow' (sum + inc) (k + 1)

/-- the series starts with `factorial = 1`, `pow = r`, `sum = 1 + r` (or `r` for `exp_m1` without scaling), `k = 2` -/
def expSeries (r eps : Rat) (fuel : Nat) : Option Rat := expLoop r eps fuel 1 r (1 + r) 2

/-- ```
    let mut k: usize = 3;
    loop { pow *= &inv2;
           let increase = &pow / k;
           if increase < sum.sub_ulp() { return sum; }
           sum += increase; k += 2; }
    ``` -/
def iacothLoop (inv2 eps : Rat) : Nat → Rat → Rat → Nat → Option Rat
  | 0, _, _, _ => none
  | fuel + 1, pow, sum, k =>
    let pow' := pow * inv2
    let inc := pow' / (k : Rat)
    if inc < eps then some sum
    else iacothLoop inv2 eps fuel pow' (sum + inc) (k + 2)

/-- `iacoth(n)`: `inv = 1/n`, `inv2 = inv²`, `sum = pow = inv`, `k = 3` -/
def iacothSeries (n : Nat) (eps : Rat) (fuel : Nat) : Option Rat :=
  let inv : Rat := 1 / (n : Rat)
  iacothLoop (inv * inv) eps fuel inv inv 3

/-- `checked_mul` gave `None` -/
def ovfHit : Option Nat → Nat → Bool
  | some o, next => decide (next ≥ o)
  | none, _ => false

/-- ```
    loop { let next_pow = est_pow * base;            // log_dword: `checked_mul`, `None` ends the loop
           let cmp = next_pow.cmp(&target);
           if cmp.is_le() { est_pow = next_pow; est += 1; }
           if cmp.is_ge() { break; } }
    ```
    (`ovf`: the value at which `checked_mul` gives `None`, `none` for the multi-word loops) -/
def logFixLoop (target base : Nat) (ovf : Option Nat) : Nat → Nat → Nat → Option (Nat × Nat)
  | 0, _, _ => none
  | fuel + 1, est, estPow =>
    let next := estPow * base
    if ovfHit ovf next = true then some (est, estPow)
    else if next < target then logFixLoop target base ovf fuel (est + 1) next
    else if next = target then some (est + 1, next)
    else some (est, estPow)

/-- first stage of `UBig::remove`:
    ```
    let mut exp = 1; let mut pows = vec![factor.sqr()];
    loop { let last = pows.last().unwrap();
           let (new_q, r) = (&q).div_rem(last);
           if !r.is_zero() { break; }
           exp += 1 << pows.len(); q = new_q; pows.push(last.sqr()); }
    ``` -/
def removeUpLoop : Nat → Nat → Nat → List Nat → Option (Nat × Nat × List Nat)
  | 0, _, _, _ => none
  | fuel + 1, q, exp, pows =>
    match pows with
    | [] => some (q, exp, pows)          -- unreachable: `pows` starts non-empty and only grows
    | last :: _ =>
      if q % last ≠ 0 then some (q, exp, pows)
      else removeUpLoop fuel (q / last) (exp + 2 ^ pows.length) (last * last :: pows)

/-- ```
    let mut p = bit_len(exp) - 2;
    loop { if exp & (1 << p) != 0 { res = res * base; }
           if p == 0 { break; }
           p -= 1;
           res = res * res; }
    ```
    (returns the number of squarings and multiplications performed) -/
def powBitLoop (exp : Nat) : Nat → Nat → Nat × Nat → Option (Nat × Nat)
  | 0, _, _ => none
  | fuel + 1, p, (sq, mu) =>
    let mu' := if exp.testBit p then mu + 1 else mu
    if p = 0 then some (sq, mu')
    else powBitLoop exp fuel (p - 1) (sq + 1, mu')

end Dashu.Model.Panic
