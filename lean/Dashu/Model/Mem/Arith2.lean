import Dashu.Model.Mem.Arith
/-
  C17 (round 4) — more storage skeletons over the alphabet `AOp` of `Model/Mem/Arith.lean`:
    * `DivRem::div_rem` of `UBig` in the four ownership forms (div_ops.rs `mod repr`: quotient and remainder
      are BOTH built in place: quotient in the lhs buffer after `erase_front`, remainder in the rhs buffer),
    * `& | ^` of `UBig` in the four ownership forms (bits.rs `mod repr`: the shorter / longer operand's buffer is
      reused, `truncate`, `lowest_dword(_mut)`, `ensure_capacity` + `push_slice` of the longer tail),
    * `UBig::pow` (pow.rs): the factor-2 removal (`>>`, pow, `<<`), the `exp = 0, 1, 2` shortcuts, and the three
      bases `pow_word_base` / `pow_dword_base` (ONE result buffer of `exp/wexp + 1` resp. `2·exp` words that is
      doubled by `push_zeros(len)` before each squaring and must never reallocate, one scratch block of
      `add_layout(array_layout::<Word>(n), sqr::memory_requirement_exact(n))`) / `pow_large_base` (a fresh
      `square_large` / `mul_large` result per step, the previous one dropped after the assignment).
  Word-level kernels are abstracted to `overwrite` as before.  Core Lean only.
-/
namespace Dashu.Model.Mem

/-- rename the registers of a skeleton op -/
def AOp.rename (f : Nat → Nat) : AOp → AOp
  | .allocate k n => .allocate (f k) n
  | .allocScratch k w => .allocScratch (f k) w
  | .push k w => .push (f k) w
  | .pushResizing k w => .pushResizing (f k) w
  | .pushZeros k n => .pushZeros (f k) n
  | .pushZerosFront k n => .pushZerosFront (f k) n
  | .ensureCapacity k n => .ensureCapacity (f k) n
  | .pushTailFrom k j lo => .pushTailFrom (f k) (f j) lo
  | .bufFromView k j => .bufFromView (f k) (f j)
  | .cloneFromSliceFrom k j => .cloneFromSliceFrom (f k) (f j)
  | .overwrite k ws => .overwrite (f k) ws
  | .eraseFront k n => .eraseFront (f k) n
  | .fromBuffer k => .fromBuffer (f k)
  | .fromWord k w => .fromWord (f k) w
  | .fromDword k lo hi => .fromDword (f k) lo hi
  | .intoTyped k => .intoTyped (f k)
  | .intoSignTyped k => .intoSignTyped (f k)
  | .withSign k n => .withSign (f k) n
  | .drop k => .drop (f k)
  | .truncate k n => .truncate (f k) n
  | .lowestDword k => .lowestDword (f k)
  | .lowestDwordMut k lo hi => .lowestDwordMut (f k) lo hi
  | .intoBuffer k => .intoBuffer (f k)

def Frag.rename (f : Nat → Nat) (fr : Frag) : Frag :=
  { ops := fr.ops.map (AOp.rename f), panic := fr.panic, cleanup := fr.cleanup.map (AOp.rename f),
    res := f fr.res, res2 := fr.res2.map f, res3 := fr.res3.map f }

/-- number of `W`-bit words of `v` (0 for 0) -/
def wordLen (W v : Nat) : Nat := if v = 0 ∨ W = 0 then 0 else Nat.log2 v / W + 1

section
variable (W mx : Nat)

/-- `Repr::from_dword(v)` into register `r` -/
def dwOp (r v : Nat) : AOp := .fromDword r (v % 2 ^ W) (v / 2 ^ W % 2 ^ W)

def formPre (f : Form) : List AOp :=
  match f with
  | .rr => [] | .rv => [.intoTyped 1] | .vr => [.intoTyped 0] | .vv => [.intoTyped 0, .intoTyped 1]

-- ================================================================== DivRem::div_rem

/-- `UBig::div_rem(UBig)` in the four forms (div_ops.rs `impl DivRem<…> for TypedRepr(Ref)`, `div_rem_dword`,
    `div_rem_large_dword`, `div_rem_large`).  `res` = quotient register, `res2` = remainder register.
    Large ÷ large with `len(lhs) ≥ len(rhs)`: `div_rem_in_lhs`, then the remainder is copied into the RHS buffer
    (`rhs.copy_from_slice(&lhs[..n])`, un-normalised by `shr_in_place`), `lhs.erase_front(n)` leaves the quotient,
    `(Repr::from_buffer(lhs), Repr::from_buffer(rhs))` in this order. -/
def fragDivRemBoth (f : Form) (a b : List Nat) : Frag :=
  let la := a.length; let lb := b.length; let va := wval W a; let vb := wval W b
  let aVal := f == .vr || f == .vv
  let bVal := f == .rv || f == .vv
  let dz : Option Dashu.Model.PanicKind := some .divideByZero
  let fr : Frag :=
    if isSmall a && isSmall b then
      if vb = 0 then { ops := [], panic := dz }
      else { ops := [dwOp W 2 (va / vb), dwOp W 3 (va % vb)], res := 2, res2 := some 3 }
    else if isSmall a then
      -- `(Small(dword0), Large(_)) => (Repr::zero(), Repr::from_dword(dword0))`
      { ops := [.fromWord 2 0, dwOp W 3 va], cleanup := if bVal then [.drop 1] else [], res := 2, res2 := some 3 }
    else if isSmall b then
      -- `div_rem_large_dword(buffer0 | words0.into(), dword1)`
      let r := if aVal then 0 else 2
      let cp : List AOp := if aVal then [] else [.bufFromView 2 0]
      if vb = 0 then { ops := cp, panic := dz, cleanup := [.drop r] }
      else { ops := cp ++ [.overwrite r (toWords W la (va / vb)), .fromBuffer r, dwOp W 3 (va % vb)], res := r, res2 := some 3 }
    else if la < lb then
      match f with
      | .vv => { ops := [.fromWord 2 0, .fromBuffer 0], cleanup := [.drop 1], res := 2, res2 := some 0 }
      | .vr => { ops := [.fromWord 2 0, .fromBuffer 0], res := 2, res2 := some 0 }
      | .rv => { ops := [.cloneFromSliceFrom 1 0, .fromWord 2 0, .fromBuffer 1], res := 2, res2 := some 1 }
      | .rr => { ops := [.fromWord 2 0, .bufFromView 3 0, .fromBuffer 3], res := 2, res2 := some 3 }
    else
      let lr := if aVal then 0 else 2
      let rr := if bVal then 1 else 3
      let cp : List AOp := (if aVal then [] else [.bufFromView 2 0]) ++ (if bVal then [] else [.bufFromView 3 1])
      { ops := cp ++ fDivRemInLhs W lr rr la lb va vb ++
          [.overwrite rr (toWords W lb (va % vb)), .eraseFront lr lb, .fromBuffer lr, .fromBuffer rr],
        res := lr, res2 := some rr }
  { fr with ops := formPre f ++ fr.ops }

-- ================================================================== & | ^

inductive BitOp where
  | and | or | xor
  deriving DecidableEq, Repr

def BitOp.ap : BitOp → Nat → Nat → Nat
  | .and, x, y => x &&& y
  | .or, x, y => x ||| y
  | .xor, x, y => x ^^^ y

/-- bits.rs `bitand_large(buffer in register r, rhs)`: `truncate` to the shorter length, zip, `from_buffer` -/
def fBitandLarge (r lr lo v : Nat) : List AOp :=
  (if lr > lo then [.truncate r lo] else []) ++ [.overwrite r (toWords W (min lr lo) v), .fromBuffer r]

/-- bits.rs `bitor_large` / `bitxor_large(buffer in register r, rhs = words of register o)`: zip over the common
    prefix, then `ensure_capacity(rhs.len())` + `push_slice(&rhs[buffer.len()..])` when rhs is longer -/
def fBitorLarge (r lr o lo v : Nat) : List AOp :=
  [.overwrite r (toWords W lr v)] ++ (if lo > lr then [.ensureCapacity r lo, .pushTailFrom r o lr] else []) ++
  [.fromBuffer r]

/-- `UBig & UBig`, `UBig | UBig`, `UBig ^ UBig` in the four forms.  `&TypedRepr`-by-reference arms of `&`, `|`, `^`
    with a by-value right operand are `rhs.op(self)` (commutativity), which is why the `rv` rows reuse register 1. -/
def fragBit (op : BitOp) (f : Form) (a b : List Nat) : Frag :=
  let la := a.length; let lb := b.length; let va := wval W a; let vb := wval W b
  let aVal := f == .vr || f == .vv
  let bVal := f == .rv || f == .vv
  let v := op.ap va vb
  let fr : Frag :=
    if isSmall a && isSmall b then { ops := [dwOp W 2 v] }
    else match op with
    | .and =>
      if isSmall a then
        -- `Repr::from_dword(dword0 & buffer1.lowest_dword())` (by value: Buffer method, the buffer is dropped) /
        -- `lowest_dword(words1)` (by reference: primitive.rs on the borrowed slice)
        { ops := (if bVal then [.lowestDword 1] else []) ++ [dwOp W 2 v], cleanup := if bVal then [.drop 1] else [] }
      else if isSmall b then
        { ops := (if aVal then [.lowestDword 0] else []) ++ [dwOp W 2 v], cleanup := if aVal then [.drop 0] else [] }
      else match f with
        | .vv =>
          if la ≤ lb then { ops := fBitandLarge W 0 la lb v, cleanup := [.drop 1], res := 0 }
          else { ops := fBitandLarge W 1 lb la v, cleanup := [.drop 0], res := 1 }
        | .vr => { ops := fBitandLarge W 0 la lb v, res := 0 }
        | .rv => { ops := fBitandLarge W 1 lb la v, res := 1 }
        | .rr =>
          if la ≤ lb then { ops := [.bufFromView 2 0] ++ fBitandLarge W 2 la lb v }
          else { ops := [.bufFromView 2 1] ++ fBitandLarge W 2 lb la v }
    | _ =>
      if isSmall a then
        -- `bitor_large_dword(buffer1 | buffer1.into(), dword0)`
        let r := if bVal then 1 else 2
        { ops := (if bVal then [] else [.bufFromView 2 1]) ++ [.lowestDwordMut r (v % 2 ^ W) (v / 2 ^ W % 2 ^ W), .fromBuffer r],
          res := r }
      else if isSmall b then
        let r := if aVal then 0 else 2
        { ops := (if aVal then [] else [.bufFromView 2 0]) ++ [.lowestDwordMut r (v % 2 ^ W) (v / 2 ^ W % 2 ^ W), .fromBuffer r],
          res := r }
      else match f with
        | .vv =>
          if la ≥ lb then { ops := fBitorLarge W 0 la 1 lb v, cleanup := [.drop 1], res := 0 }
          else { ops := fBitorLarge W 1 lb 0 la v, cleanup := [.drop 0], res := 1 }
        | .vr => { ops := fBitorLarge W 0 la 1 lb v, res := 0 }
        | .rv => { ops := fBitorLarge W 1 lb 0 la v, res := 1 }
        | .rr =>
          if la ≥ lb then { ops := [.bufFromView 2 0] ++ fBitorLarge W 2 la 1 lb v }
          else { ops := [.bufFromView 2 1] ++ fBitorLarge W 2 lb 0 la v }
  { fr with ops := formPre f ++ fr.ops }

-- ================================================================== pow

/-- `math::max_exp_in_word(base)`: the largest `e` with `base^e < 2^W` (and `base^e`); `base ≥ 2`.
    Fuel `W` suffices because `base^e ≥ 2^e`. -/
def maxExpInWord (base : Nat) : Nat × Nat :=
  let rec go (fuel e p : Nat) : Nat × Nat :=
    match fuel with
    | 0 => (e, p)
    | fuel + 1 => if p * base < 2 ^ W then go fuel (e + 1) (p * base) else (e, p)
  go W 1 base

/-- `mul_ops.rs repr::square_large(words)` of a value `v` of `l` words into the empty register `k`, scratch block in
    register `s` (dropped at the end of the function, i.e. after `from_buffer`) -/
def fSquareLarge (sqrSimple k s l v : Nat) : List AOp :=
  let scratch := sqrScratchWords sqrSimple l
  [.allocate k (2 * l), .pushZeros k (2 * l)] ++ (if scratch > 0 then [.allocScratch s scratch] else []) ++
  [.overwrite k (toWords W (2 * l) (v * v)), .fromBuffer k] ++ (if scratch > 0 then [.drop s] else [])

/-- `mul_ops.rs repr::mul_large(lhs, rhs)` for DIFFERENT operands of `l1`, `l2` words -/
def fMulLarge (k s l1 v1 l2 v2 : Nat) : List AOp :=
  let n := l1 + l2
  let scratch := mulScratchWords (min l1 l2)
  [.allocate k n, .pushZeros k n] ++ (if scratch > 0 then [.allocScratch s scratch] else []) ++
  [.overwrite k (toWords W n (v1 * v2)), .fromBuffer k] ++ (if scratch > 0 then [.drop s] else [])

/-- the square-and-multiply loop shared by `pow_word_base` / `pow_dword_base` on the ONE result buffer in register
    `r`: at bit `p` of `e` — multiply by `m` (`mul_word_in_place` + `push_resizing(carry)`, resp.
    `mul_dword_in_place` + `push(c0); push_resizing(c1)` when `carry > 0`), then unless `p = 0`:
    `memory.allocate_slice_copy(&res)` (bump scratch, no ledger event), `res.fill(0)`, `res.push_zeros(res.len())`,
    `sqr::sqr`.  The LENGTH is tracked separately from the value: high zero words are not trimmed between steps.
    Returns the ops, the value and the length. -/
def powLoop (r m : Nat) (dword : Bool) (e : Nat) : Nat → Nat → Nat → List AOp × Nat × Nat
  | p, val, len =>
    let mulStep : List AOp × Nat × Nat :=
      if e.testBit p then
        let nv := val * m
        let carry := nv / 2 ^ (W * len)
        if dword then
          if carry > 0 then
            ([.overwrite r (toWords W len nv), .push r (carry % 2 ^ W), .pushResizing r (carry / 2 ^ W)], nv,
              len + 1 + (if carry / 2 ^ W ≠ 0 then 1 else 0))
          else ([.overwrite r (toWords W len nv)], nv, len)
        else ([.overwrite r (toWords W len nv), .pushResizing r carry], nv, len + (if carry ≠ 0 then 1 else 0))
      else ([], val, len)
    match p with
    | 0 => mulStep
    | p + 1 =>
      let (ops1, v1, l1) := mulStep
      let sq : List AOp := [.overwrite r (List.replicate l1 0), .pushZeros r l1, .overwrite r (toWords W (2 * l1) (v1 * v1))]
      let (ops2, v2, l2) := powLoop r m dword e p (v1 * v1) (2 * l1)
      (ops1 ++ sq ++ ops2, v2, l2)

/-- `pow.rs repr::pow_word_base(base, exp)` for `exp ≥ 3` and the bases reachable from `UBig::pow` (0, or odd: the
    factor 2 has been shifted out): result in register `r`, scratch block in register `s` -/
def fPowWordBase (sqrSimple r s base exp : Nat) : List AOp :=
  if base = 0 then [.fromWord r 0]
  else if base = 1 then [.fromWord r 1]
  else
    let (wexp, wbase) := maxExpInWord W base
    if exp < wexp then [.fromWord r (base ^ exp)]
    else if exp < 2 * wexp then [dwOp W r (wbase * base ^ (exp - wexp))]
    else
      let e := exp / wexp
      let er := exp % wexp
      let n := e / 2 + 1
      let p := Nat.log2 e - 1                     -- `bit_len(exp) - 2`
      let v0 := wbase * wbase
      let (ops, v, len) := powLoop W r wbase false e p v0 2
      let fin := v * base ^ er
      [.allocate r (e + 1), .allocScratch s (n + sqrScratchWords sqrSimple n),
       .push r (v0 % 2 ^ W), .push r (v0 / 2 ^ W)] ++ ops ++
      [.overwrite r (toWords W len fin), .pushResizing r (fin / 2 ^ (W * len)), .fromBuffer r, .drop s]

/-- `pow.rs repr::pow_dword_base(base, exp)` (`base ≥ 2^W`, `exp ≥ 3`) -/
def fPowDwordBase (sqrSimple r s base exp : Nat) : List AOp :=
  let p := Nat.log2 exp - 1
  let v0 := base * base
  let (ops, _, _) := powLoop W r base true exp p v0 4
  [.allocate r (2 * exp), .allocScratch s (exp + sqrScratchWords sqrSimple exp)] ++
  (toWords W 4 v0).map (AOp.push r) ++ ops ++ [.fromBuffer r, .drop s]

/-- `pow.rs repr::pow_large_base(base, exp)`: `res` alternates between registers `r0` and `r1` (`res = f(res.as_slice())`
    evaluates the right-hand side, then drops the old value); returns the ops, the final register and the `num_words`
    of the `Buffer::allocate` that created the final buffer -/
def powLargeLoop (sqrSimple r0 r1 s lb vb e : Nat) : Nat → Nat → Nat → List AOp × Nat × Nat
  | p, val, nalloc =>
    let l := wordLen W val
    let mulStep : List AOp × Nat × Nat × Nat × Nat :=        -- ops, value, register holding it, the free register, alloc
      if e.testBit p then (fMulLarge W r1 s l val lb vb ++ [.drop r0], val * vb, r1, r0, l + lb)
      else ([], val, r0, r1, nalloc)
    match p with
    | 0 => (mulStep.1, mulStep.2.2.1, mulStep.2.2.2.2)
    | p + 1 =>
      let (ops1, v1, cur, free, _) := mulStep
      let l1 := wordLen W v1
      let sq := fSquareLarge W sqrSimple free s l1 v1 ++ [.drop cur]
      let (ops2, fin, n) := powLargeLoop sqrSimple free cur s lb vb e p (v1 * v1) (2 * l1)
      (ops1 ++ sq ++ ops2, fin, n)

/-- `TypedReprRef::pow(exp)` on the words of register `src` (value `vb`, `lb` words); returns the ops, the result
    register and the `num_words` passed to the `Buffer::allocate` call that created the result buffer (0: inline) -/
def fReprPow (sqrSimple src lb vb exp : Nat) : List AOp × Nat × Nat :=
  if exp = 0 then ([.fromWord 5 1], 5, 0)
  else if exp = 1 then
    -- `Repr::from_ref`
    (if lb ≤ 2 then [dwOp W 5 vb] else [.bufFromView 5 src, .fromBuffer 5], 5, lb)
  else if exp = 2 then
    (if lb ≤ 2 then
       (if vb < 2 ^ W then [dwOp W 5 (vb * vb)]
        else [.allocate 5 4] ++ (toWords W 4 (vb * vb)).map (AOp.push 5) ++ [.fromBuffer 5])
     else fSquareLarge W sqrSimple 5 7 lb vb, 5, if lb ≤ 2 then 4 else 2 * lb)
  else if lb ≤ 2 then
    if vb < 2 ^ W then (fPowWordBase W sqrSimple 5 7 vb exp, 5, exp / (maxExpInWord W vb).1 + 1)
    else (fPowDwordBase W sqrSimple 5 7 vb exp, 5, 2 * exp)
  else
    let first := fSquareLarge W sqrSimple 5 7 lb vb
    let (ops, fin, n) := powLargeLoop W sqrSimple 5 6 7 lb vb exp (Nat.log2 exp - 1) (vb * vb) (2 * lb)
    (first ++ ops, fin, n)

/-- trailing zero bits of a non-zero number -/
def trailingZeros (v : Nat) : Nat :=
  let rec go (fuel v acc : Nat) : Nat :=
    match fuel with
    | 0 => acc
    | fuel + 1 => if v % 2 = 0 then go fuel (v / 2) (acc + 1) else acc
  if v = 0 then 0 else go (Nat.log2 v + 1) v 0

/-- `shift_ops.rs repr::shl_large(buffer, rhs)` on the buffer of capacity `cap` in register `r` (`la` words, value `va`):
    in place when `capacity ≥ len + shift_words + 1`, else through `shl_large_ref` into the empty register `nw` -/
def fShlLargeVal (r nw cap la va rhs : Nat) : Frag :=
  let sw := rhs / W; let sb := rhs % W
  let t := va * 2 ^ sb
  let carry := t / 2 ^ (W * la)
  if cap < la + sw + 1 then
    { ops := [.allocate nw (sw + la + 1), .pushZeros nw sw, .pushTailFrom nw r 0,
              .overwrite nw (List.replicate sw 0 ++ toWords W la t), .push nw carry, .fromBuffer nw],
      cleanup := [.drop r], res := nw }
  else { ops := [.overwrite r (toWords W la t), .push r carry, .pushZerosFront r sw, .fromBuffer r], res := r }

/-- capacity of the heap value produced by `Repr::from_buffer` from a buffer of capacity `c` whose trimmed length is `l ≥ 3` -/
def capAfterFromBuffer (c l : Nat) : Nat := if c > maxCompactCapacity mx l then defaultCapacity mx l else c

/-- `UBig::pow(&self, exp)` with `self` in register 0: the factor `2^shift` is removed by `self.repr().shr(shift)` (a
    temporary `Repr` in register 2 that lives until the end of the statement), `pow`, then `into_typed().shl(exp · shift)`;
    `exp.checked_mul(shift)` overflowing `usize` is the documented allocation panic (after pow has run) -/
def fragPow (sqrSimple : Nat) (a : List Nat) (exp : Nat) : Frag :=
  let va := wval W a
  let shift := trailingZeros va
  if shift = 0 then
    let (ops, r, _) := fReprPow W sqrSimple 0 a.length va exp
    { ops := ops, res := r }
  else
    let sh := fragShr W false a shift                     -- by reference: result in register 2
    let vt := va / 2 ^ shift
    let lt := wordLen W vt
    let (pops, rp, nalloc) := fReprPow W sqrSimple 2 lt vt exp
    let vp := if vt ≤ 1 then vt else vt ^ exp          -- (no `1 ^ usize::MAX` in the runtime)
    let lp := wordLen W vp
    if exp * shift ≥ 2 ^ W then
      { ops := sh.ops ++ pops, panic := some .allocTooMuch, cleanup := [.drop rp, .drop 2], res := rp }
    else
      let shl : Frag :=
        if lp ≤ 2 then
          (fragShl W mx true (toWords W lp vp) (exp * shift)).rename (fun k => if k = 0 then rp else if k = 2 then 3 else k + 8)
        else
          let fr := fShlLargeVal W rp 3 (capAfterFromBuffer mx (defaultCapacity mx nalloc) lp) lp vp (exp * shift)
          { fr with ops := [.intoTyped rp] ++ fr.ops }
      -- (a `shl` beyond MAX_CAPACITY panics: the moved power and the temporary are dropped by unwinding)
      { ops := sh.ops ++ pops ++ shl.ops, panic := shl.panic, cleanup := shl.cleanup ++ [.drop 2], res := shl.res }

end
end Dashu.Model.Mem
