import Dashu.Model.Mem.Ledger
/-
  C17 — the `unsafe` blocks of `integer/src/shift.rs` and `integer/src/primitive.rs`.  They work on a
  borrowed slice `&[Word]` / `&mut [Word]`: `len` words starting at word offset `off` of allocation
  `id` (a buffer's `[0, len)`, a sub-slice of it, or a scratch slice of the bump allocator).
  `debug` = built with debug assertions (`debug_assert!` and overflow checks are panics); with
  `debug = false` the code runs on.  Core Lean only.
-/
namespace Dashu.Model.Mem

/-- a borrowed slice of words inside allocation `id` -/
structure Slice where
  id : Nat
  off : Nat
  len : Nat
  deriving DecidableEq, Repr

/-- `shift::shr_in_place_one_word` — unsafe block shift.rs:57:
    `ptr.read()`, `ptr.copy_from(ptr.add(1), len - 1)`, `ptr.add(len - 1).write(0)`.
    There is NO length check: the first read happens even for an empty slice; `len - 1` then
    overflows (a panic with overflow checks, a wrap to `usize::MAX` without). -/
def shrInPlaceOneWord (debug : Bool) (s : Slice) : M Unit := do
  emit (.read s.id s.off)
  if s.len = 0 then
    (if debug then assertFail "shift.rs:60 attempt to subtract with overflow"
     else fault (.ub "shift.rs:60 copy_from of usize::MAX words"))
  else do
    emits (rd s.id (s.off + 1) (s.len - 1) ++ wr s.id s.off (s.len - 1))
    emit (.write s.id (s.off + (s.len - 1)))

/-- `primitive::lowest_dword` — unsafe block primitive.rs:66 (`get_unchecked(0)`, `get_unchecked(1)`),
    guarded only by `debug_assert!(words.len() >= 2)` (primitive.rs:63) -/
def lowestDwordSlice (debug : Bool) (s : Slice) : M Unit :=
  if debug && s.len < 2 then assertFail "primitive.rs:63 debug_assert" else
  emits [.read s.id s.off, .read s.id (s.off + 1)]

/-- `primitive::highest_dword` — unsafe block primitive.rs:82 (`get_unchecked(len-2)`, `(len-1)`),
    guarded only by `debug_assert!(len >= 2)` (primitive.rs:79) -/
def highestDwordSlice (debug : Bool) (s : Slice) : M Unit :=
  if debug && s.len < 2 then assertFail "primitive.rs:79 debug_assert" else
  if s.len < 2 then
    -- release build, `len - 2` wraps: an index far outside the slice
    fault (.ub "primitive.rs:83 get_unchecked(len - 2) with len < 2")
  else emits [.read s.id (s.off + (s.len - 2)), .read s.id (s.off + (s.len - 1))]

/-- `primitive::split_hi_word` — primitive.rs:96 `unreachable_unchecked()` in the `None` arm of
    `split_last`, guarded only by `debug_assert!(words.len() >= 2)` (primitive.rs:92) -/
def splitHiWordSlice (debug : Bool) (s : Slice) : M Unit :=
  if debug && s.len < 2 then assertFail "primitive.rs:92 debug_assert" else
  if s.len = 0 then fault (.ub "primitive.rs:96 unreachable_unchecked") else
  emit (.read s.id (s.off + (s.len - 1)))

end Dashu.Model.Mem
