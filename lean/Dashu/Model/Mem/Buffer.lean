import Dashu.Model.Mem.Ledger
import Dashu.Gen.Misc
/-
  C17 — `integer/src/buffer.rs` as ledger transitions.  One definition per Rust item; every
  `assert!`/`debug_assert!` is an error branch named after its line, every raw pointer access of an
  `unsafe` block is an event for exactly the index range the code touches.  `mx` = `Buffer::MAX_CAPACITY`.
  The capacity policy is NOT written here: it is `Dashu.Gen.default_capacity`/`max_compact_capacity`,
  regenerated from the Rust source by `vlib/extract.py` on every run.  Core Lean only.
-/
namespace Dashu.Model.Mem

/-- `Buffer { ptr, len, capacity }`; `ptr` is the allocation id, `len = ws.length` -/
structure Buf where
  id : Nat
  cap : Nat
  ws : List Nat
  deriving DecidableEq, Repr

def Buf.len (b : Buf) : Nat := b.ws.length

/-- `Buffer::default_capacity` (generated text, wrapped to `Nat`) -/
def defaultCapacity (mx n : Nat) : Nat := (Dashu.Gen.default_capacity (mx : Int) (n : Int)).toNat
/-- `Buffer::max_compact_capacity` (generated text, wrapped to `Nat`) -/
def maxCompactCapacity (mx n : Nat) : Nat := (Dashu.Gen.max_compact_capacity (mx : Int) (n : Int)).toNat

/-- `default_capacity` with its `debug_assert!(num_words <= MAX_CAPACITY)` (buffer.rs:58) -/
def defaultCapacityChecked (mx n : Nat) : M Nat :=
  if n ≤ mx then pure (defaultCapacity mx n) else assertFail "buffer.rs:58 debug_assert"
/-- `max_compact_capacity` with its `debug_assert!` (buffer.rs:69) -/
def maxCompactCapacityChecked (mx n : Nat) : M Nat :=
  if n ≤ mx then pure (maxCompactCapacity mx n) else assertFail "buffer.rs:69 debug_assert"

/-- `Buffer::allocate_raw` — unsafe block buffer.rs:97 (`alloc::alloc::alloc(layout)`) -/
def allocateRaw (mx cap : Nat) : M Nat :=
  if 0 < cap ∧ cap ≤ mx then do
    let id ← fresh
    emit (.alloc id cap)
    pure id
  else assertFail "buffer.rs:94 assert"

/-- `Buffer::deallocate_raw` — unsafe fn buffer.rs:111 -/
def deallocateRaw (id cap : Nat) : M Unit := emit (.free id cap)

/-- `Buffer::allocate_exact` -/
def allocateExact (mx cap : Nat) : M Buf :=
  if cap > mx then fault (.panic .allocTooMuch) else do
    let id ← allocateRaw mx cap
    pure ⟨id, cap, []⟩

/-- `Buffer::allocate` (with the `num_words > MAX_CAPACITY` test of fix 52b4fc5) -/
def allocate (mx n : Nat) : M Buf :=
  if n > mx then fault (.panic .allocTooMuch) else do
  let c ← defaultCapacityChecked mx n
  allocateExact mx c

/-- `Buffer::reallocate_raw` — unsafe block buffer.rs:148 (`realloc`).  NB: no `MAX_CAPACITY` check. -/
def reallocateRaw (b : Buf) (cap : Nat) : M Buf :=
  if 0 < cap ∧ b.len ≤ cap then do
    emit (.realloc b.id b.cap cap)
    pure { b with cap := cap }
  else assertFail "buffer.rs:145 assert"

/-- `Buffer::reallocate` -/
def reallocate (mx : Nat) (b : Buf) (n : Nat) : M Buf :=
  if b.len ≤ n then
    -- `if num_words > Self::MAX_CAPACITY { panic_allocate_too_much() }` (fix ada6bea)
    if n > mx then fault (.panic .allocTooMuch) else do
    let c ← defaultCapacityChecked mx n
    reallocateRaw b c
  else assertFail "buffer.rs:169 assert"

/-- `Buffer::ensure_capacity` -/
def ensureCapacity (mx : Nat) (b : Buf) (n : Nat) : M Buf :=
  if n > b.cap ∧ n > 2 then reallocate mx b n else pure b

/-- `Buffer::ensure_capacity_exact` -/
def ensureCapacityExact (b : Buf) (c : Nat) : M Buf :=
  if c > b.cap ∧ c > 2 then reallocateRaw b c else pure b

/-- `Buffer::shrink_to_fit` -/
def shrinkToFit (mx : Nat) (b : Buf) : M Buf := do
  let m ← maxCompactCapacityChecked mx b.len
  if b.cap > m then reallocate mx b b.len else pure b

/-- `Buffer::push` — unsafe block buffer.rs:209 (`ptr::write(ptr.add(len), word)`) -/
def push (b : Buf) (w : Nat) : M Buf :=
  if b.len < b.cap then do
    emit (.write b.id b.len)
    pure { b with ws := b.ws ++ [w] }
  else assertFail "buffer.rs:206 assert"

/-- `Buffer::push_resizing` -/
def pushResizing (mx : Nat) (b : Buf) (w : Nat) : M Buf :=
  if w ≠ 0 then do
    let b ← ensureCapacity mx b (b.len + 1)
    push b w
  else pure b

/-- `Buffer::push_repeat::<ELEM>` — unsafe block buffer.rs:235 (n writes from `ptr.add(len)`) -/
def pushRepeat (b : Buf) (elem n : Nat) : M Buf :=
  if n ≤ b.cap - b.len then do
    emits (wr b.id b.len n)
    pure { b with ws := b.ws ++ List.replicate n elem }
  else assertFail "buffer.rs:231 assert"

/-- `Buffer::push_zeros` -/
def pushZeros (b : Buf) (n : Nat) : M Buf := pushRepeat b 0 n

/-- `Buffer::push_zeros_front` — unsafe block buffer.rs:266 (`ptr::copy(ptr, ptr.add(n), len)`, then
    n writes from `ptr`) -/
def pushZerosFront (b : Buf) (n : Nat) : M Buf :=
  if n ≤ b.cap - b.len then do
    emits (rd b.id 0 b.len ++ wr b.id n b.len)
    emits (wr b.id 0 n)
    pure { b with ws := List.replicate n 0 ++ b.ws }
  else assertFail "buffer.rs:261 assert"

/-- reads of the first `k` words of a borrowed source slice, if it lives in one of our allocations -/
def srcReads (src : Option Nat) (k : Nat) : List Event :=
  match src with
  | some s => rd s 0 k
  | none => []

/-- `Buffer::push_slice` — unsafe block buffer.rs:293 (`copy_nonoverlapping(src, ptr.add(len), n)`).
    `src` = id of the allocation the source slice lives in, if it is one of ours. -/
def pushSlice (b : Buf) (src : Option Nat) (ws : List Nat) : M Buf :=
  if ws.length ≤ b.cap - b.len then do
    emits (srcReads src ws.length ++ wr b.id b.len ws.length)
    pure { b with ws := b.ws ++ ws }
  else assertFail "buffer.rs:288 assert"

/-- the loop of `pop_zeros` on the reversed word list: reads index `len-1, len-2, …` down to and
    including the first non-zero word (or index 0) -/
def popZerosRev (id : Nat) : List Nat → List Nat × List Event
  | [] => ([], [])
  | w :: rest =>
    if w = 0 then
      let r := popZerosRev id rest
      (r.1, .read id rest.length :: r.2)
    else (w :: rest, [.read id rest.length])

/-- `Buffer::pop_zeros` — unsafe block buffer.rs:307 -/
def popZeros (b : Buf) : M Buf :=
  let r := popZerosRev b.id b.ws.reverse
  do emits r.2
     pure { b with ws := r.1.reverse }

/-- `Buffer::truncate` (no unsafe) -/
def truncate (b : Buf) (n : Nat) : M Buf :=
  if b.len ≥ n then pure { b with ws := b.ws.take n } else assertFail "buffer.rs:328 assert"

/-- `Buffer::erase_front` — unsafe block buffer.rs:341 (`ptr::copy(ptr.add(n), ptr, len - n)`) -/
def eraseFront (b : Buf) (n : Nat) : M Buf :=
  if b.len ≥ n then do
    emits (rd b.id n (b.len - n) ++ wr b.id 0 (b.len - n))
    pure { b with ws := b.ws.drop n }
  else assertFail "buffer.rs:335 assert"

/-- `Buffer::lowest_dword` — unsafe block buffer.rs:358 (reads words 0 and 1) -/
def lowestDword (b : Buf) : M (Nat × Nat) :=
  if b.len ≥ 2 then do
    emits [.read b.id 0, .read b.id 1]
    pure (b.ws.getD 0 0, b.ws.getD 1 0)
  else assertFail "buffer.rs:355 assert"

/-- `Buffer::lowest_dword_mut` — unsafe block buffer.rs:376 (`&mut *ptr`, `&mut *ptr.add(1)`); the two
    references are modelled as a write of both words -/
def lowestDwordMut (b : Buf) (lo hi : Nat) : M Buf :=
  if b.len ≥ 2 then do
    emits [.write b.id 0, .write b.id 1]
    pure { b with ws := lo :: hi :: b.ws.drop 2 }
  else assertFail "buffer.rs:373 assert"

/-- `<Buffer as Deref>::deref` / `deref_mut` — unsafe blocks buffer.rs:482, 490
    (`slice::from_raw_parts(ptr, len)`): the slice spans `[0, len)` -/
def deref (b : Buf) : M (List Nat) := do
  emits (rd b.id 0 b.len)
  pure b.ws

/-- `<Buffer as Drop>::drop` — unsafe block buffer.rs:470 -/
def dropBuf (b : Buf) : M Unit := deallocateRaw b.id b.cap

/-- `<Buffer as From<&[Word]>>::from` -/
def fromSlice (mx : Nat) (src : Option Nat) (ws : List Nat) : M Buf := do
  let b ← allocate mx ws.length
  pushSlice b src ws

/-- `Buffer::clone_from_slice` — unsafe block buffer.rs:391; the else branch is
    `*self = Self::from(src)`: the new buffer is built first, then the old one is dropped -/
def cloneFromSlice (mx : Nat) (b : Buf) (src : Option Nat) (ws : List Nat) : M Buf :=
  if b.cap ≥ ws.length then do
    emits (srcReads src ws.length ++ wr b.id 0 ws.length)
    pure { b with ws := ws }
  else do
    let nb ← fromSlice mx src ws
    dropBuf b
    pure nb

/-- `<Buffer as Clone>::clone` — unsafe block buffer.rs:440 -/
def cloneBuf (mx : Nat) (b : Buf) : M Buf := do
  let nb ← allocate mx b.len
  emits (rd b.id 0 b.len ++ wr nb.id 0 b.len)
  pure { nb with ws := b.ws }

/-- `<Buffer as Clone>::clone_from` — unsafe block buffer.rs:456; else branch `*self = src.clone()` -/
def cloneFromBuf (mx : Nat) (b src : Buf) : M Buf := do
  -- `self.capacity >= src.len && self.capacity <= max_compact_capacity(src.len)` (short-circuit)
  let reuse ← (if b.cap ≥ src.len then do
      let m ← maxCompactCapacityChecked mx src.len
      pure (decide (b.cap ≤ m))
    else pure false : M Bool)
  if reuse then do
    emits (rd src.id 0 src.len ++ wr b.id 0 src.len)
    pure { b with ws := src.ws }
  else do
    let nb ← cloneBuf mx src
    dropBuf b
    pure nb

/-- `Buffer::into_boxed_slice` — unsafe block buffer.rs:408.  `none` = the empty box (no allocation,
    the buffer is dropped); `some` = the allocation now owned by the `Box<[Word]>` (capacity = len). -/
def intoBoxedSlice (b : Buf) : M (Option Buf) :=
  if b.len = 0 then do
    dropBuf b
    pure none
  else do
    emit (.realloc b.id b.cap b.len)
    pure (some { b with cap := b.len })

/-- `Buffer::as_full_slice` (feature `zeroize`) — unsafe block buffer.rs:438
    (`slice::from_raw_parts_mut(ptr, capacity)`): the slice spans the whole allocation `[0, capacity)`,
    including the words `[len, capacity)` that were never written.  Modelled with the writes `zeroize()`
    performs on it. -/
def asFullSliceZero (b : Buf) : M Unit := emits (wr b.id 0 b.cap)

/-- `<Buffer as Zeroize>::zeroize` (third_party/zeroize.rs:12): `as_full_slice().zeroize(); truncate(0)` -/
def zeroizeBuf (b : Buf) : M Buf := do
  asFullSliceZero b
  truncate { b with ws := List.replicate b.len 0 } 0

end Dashu.Model.Mem
