/-
  C17 — `integer/src/memory.rs`: the bump allocator that hands out scratch slices for mul/div/gcd.
  Addresses are byte addresses (`Nat`); `usz` = `usize::MAX` (the `checked_add`/`checked_mul` bound).
  Only the splitting arithmetic (`try_find_memory_for_slice`, `allocate_slice_initialize`) is modelled:
  exclusivity in *time* (a chunk is reused after the borrow of its sub-slices ends) is enforced by the
  borrow checker through the `&mut self` receiver and the `PhantomData<&'a mut ()>` field, not by code.
  NOT tied to /repo by correspondence (the module is crate-private and has no hook) — theorem only.
  Core Lean only.
-/
namespace Dashu.Model.Mem.Bump

/-- `Memory { start, end }` -/
structure Chunk where
  start : Nat
  stop : Nat
  deriving DecidableEq, Repr

/-- one request `allocate_slice_*::<T>(n)`: `size_of::<T>()`, `align_of::<T>()`, `n` -/
structure Req where
  size : Nat
  align : Nat
  n : Nat
  deriving DecidableEq, Repr

/-- `Memory::try_find_memory_for_slice::<T>(n)`:
    `padding = start.wrapping_neg() & (align - 1)` (= `(-start) mod align` for a power of two `align`) -/
def tryFind (usz : Nat) (m : Chunk) (r : Req) : Option (Nat × Nat) :=
  let padding := (r.align - m.start % r.align) % r.align
  let sliceStart := m.start + padding
  if sliceStart > usz then none else          -- `start.checked_add(padding)?`
  let size := r.n * r.size
  if size > usz then none else                -- `n.checked_mul(size_of::<T>())?`
  let sliceEnd := sliceStart + size
  if sliceEnd > usz then none else            -- `slice_start.checked_add(size)?`
  if sliceEnd ≤ m.stop then some (sliceStart, sliceEnd) else none

/-- `Memory::allocate_slice_initialize` — unsafe block memory.rs:155 (`from_raw_parts_mut(ptr, n)`) and
    the element writes memory.rs:86/104/129/135 (`ptr.add(i).write(v)`, `i < n`).
    Returns the slice `[s, e)`, the byte offsets written, and the remaining chunk;
    `none` = `expect("internal error: not enough memory allocated")` panics. -/
def allocateSlice (usz : Nat) (m : Chunk) (r : Req) : Option ((Nat × Nat) × List Nat × Chunk) :=
  match tryFind usz m r with
  | none => none
  | some (s, e) => some ((s, e), (List.range r.n).map (fun i => s + i * r.size), ⟨e, m.stop⟩)

/-- a chain of nested requests, each on the remainder returned by the previous one (the way every
    caller in mul/div/gcd uses it) -/
def allocateMany (usz : Nat) : Chunk → List Req → Option (List (Nat × Nat) × Chunk)
  | m, [] => some ([], m)
  | m, r :: rs =>
    match allocateSlice usz m r with
    | none => none
    | some (sl, _, rest) =>
      match allocateMany usz rest rs with
      | none => none
      | some (sls, fin) => some (sl :: sls, fin)

end Dashu.Model.Mem.Bump
