import Dashu.Model.Mem.Memory
/-
  C17 (round 4) — `integer/src/memory.rs`: the size/alignment arithmetic in front of the bump allocator:
  `array_layout`, `add_layout`, `max_layout`, `zero_layout` (thin wrappers over `core::alloc::Layout`, whose
  documented behaviour is transcribed here: `Layout::from_size_align`, `Layout::array`, `Layout::extend`) and the
  three-way branch of `MemoryAllocation::new` (dangling / `panic_allocate_too_much` / `alloc`) with its `Drop`.
  `U` = bits of `usize`; alignments are `2^alog` (a `Layout` can hold nothing else).  Core Lean only.
-/
namespace Dashu.Model.Mem.Lay

/-- `core::alloc::Layout { size, align = 2^alog }` -/
structure Layout where
  size : Nat
  alog : Nat
  deriving DecidableEq, Repr

def Layout.align (l : Layout) : Nat := 2 ^ l.alog

/-- `isize::MAX` -/
def isizeMax (U : Nat) : Nat := 2 ^ (U - 1) - 1

/-- `Layout::max_size_for_align(align) = isize::MAX - (align - 1)` -/
def maxSizeForAlign (U alog : Nat) : Nat := isizeMax U - (2 ^ alog - 1)

/-- the invariant every `Layout` value satisfies: `align` is a power of two representable in `usize` and `size`
    rounded up to `align` does not exceed `isize::MAX` -/
def Layout.Valid (U : Nat) (l : Layout) : Prop := l.alog < U ∧ l.size ≤ maxSizeForAlign U l.alog

/-- `Layout::from_size_align(size, 2^alog)`; `none` = `Err(LayoutError)` -/
def fromSizeAlign (U size alog : Nat) : Option Layout :=
  if alog < U ∧ size ≤ maxSizeForAlign U alog then some ⟨size, alog⟩ else none

/-- `memory::zero_layout() = Layout::from_size_align(0, 1).unwrap()` -/
def zeroLayout : Layout := ⟨0, 0⟩

/-- `memory::array_layout::<T>(n) = Layout::array::<T>(n).unwrap_or_else(|_| panic_allocate_too_much())` with
    `size_of::<T>() = esize`, `align_of::<T>() = 2^alog`: the std test is `esize != 0 && n > max_size_for_align / esize`;
    `none` = the documented allocation panic -/
def arrayLayout (U esize alog n : Nat) : Option Layout :=
  if esize ≠ 0 ∧ n > maxSizeForAlign U alog / esize then none else some ⟨esize * n, alog⟩

/-- `Layout::padding_needed_for(2^alog)`: the smallest `p` with `(size + p) % 2^alog = 0` -/
def paddingNeededFor (size alog : Nat) : Nat := (2 ^ alog - size % 2 ^ alog) % 2 ^ alog

/-- `memory::add_layout(a, b)`: `a.extend(b)` = (layout of `a` followed by `b` at the next offset aligned for `b`, that
    offset); `none` = `panic_allocate_too_much()` -/
def addLayout (U : Nat) (a b : Layout) : Option (Layout × Nat) :=
  let alog := max a.alog b.alog
  let offset := a.size + paddingNeededFor a.size b.alog
  let size := offset + b.size
  if size ≤ maxSizeForAlign U alog then some (⟨size, alog⟩, offset) else none

/-- `memory::max_layout(a, b)` -/
def maxLayout (U : Nat) (a b : Layout) : Option Layout :=
  fromSizeAlign U (max a.size b.size) (max a.alog b.alog)

/-- the three branches of `MemoryAllocation::new(layout)` (memory.rs:36-50) -/
inductive NewOutcome where
  /-- `layout.size() == 0`: no allocator call, `start = layout.align() as *mut u8` -/
  | dangling (addr : Nat)
  /-- `layout.size() > isize::MAX`: `panic_allocate_too_much()` -/
  | tooMuch
  /-- `alloc::alloc::alloc(layout)` -/
  | alloc (size align : Nat)
  deriving DecidableEq, Repr

def memoryAllocationNew (U : Nat) (l : Layout) : NewOutcome :=
  if l.size = 0 then .dangling l.align
  else if l.size > isizeMax U then .tooMuch
  else .alloc l.size l.align

/-- `<MemoryAllocation as Drop>::drop` (memory.rs:66-72): `dealloc(start, layout)` iff `layout.size() != 0` — returns the
    `(size, align)` passed to `dealloc` -/
def memoryAllocationDrop (l : Layout) : Option (Nat × Nat) :=
  if l.size ≠ 0 then some (l.size, l.align) else none

/-- `MemoryAllocation::memory()` (memory.rs:54-60): `Memory { start: self.start, end: self.start.wrapping_add(self.layout.size()) }`
    — `wrapping_add` on a `*mut u8` is address arithmetic modulo `2^U` -/
def memoryOf (U start : Nat) (l : Layout) : Bump.Chunk := ⟨start, (start + l.size) % 2 ^ U⟩

/-- the bump request that consumes an `array_layout::<T>(n)` part: `allocate_slice_*::<T>(n)` -/
def reqOf (esize alog n : Nat) : Bump.Req := ⟨esize, 2 ^ alog, n⟩

end Dashu.Model.Mem.Lay
