import Dashu.Model.Mem.Repr
/-
  C17 — histories.  A pool of registers, each empty or holding a `Buffer` or a `Repr`; `Op` = one call
  of a `buffer.rs` / `repr.rs` item on registers; `run` executes a history.  An operation applied to
  a register of the wrong kind (or a second `&`/`&mut` to the same register, which safe Rust cannot
  express) is `Fault.illTyped` in the sense of "not a history" — it is neither a panic nor UB.
  Core Lean only.
-/
namespace Dashu.Model.Mem

inductive Slot where
  | empty
  | buf (b : Buf)
  | rep (r : Rep)
  /-- a `&'static UBig` / `&'static IBig` produced by `ubig!`/`static_ubig!`-style code:
      `static VALUE: UBig = unsafe { UBig::from_static_words(DATA) }; &VALUE` with ≥ 3 words.  The
      words live in a `static` array — not an allocation of ours; the register can only be read. -/
  | stat (ws : List Nat) (neg : Bool)
  deriving DecidableEq, Repr

abbrev Pool := Nat → Slot

def Pool.empty : Pool := fun _ => .empty
def Pool.set (P : Pool) (k : Nat) (s : Slot) : Pool := fun j => if j = k then s else P j

/-- "not a history" marker -/
def illTyped {α} : M α := fault (.panic (.undocumented "model: ill-typed history"))

/-- the allocation (id, capacity) a slot owns -/
def Slot.own : Slot → Option (Nat × Nat)
  | .empty => none
  | .buf b => some (b.id, b.cap)
  | .rep (.inline ..) => none
  | .rep (.heap id cap _ _) => some (id, cap)
  | .stat .. => none

/-- the words a slot exposes to a borrower (`&[Word]`), with the allocation they live in -/
def Slot.view : Slot → Option (Option Nat × List Nat)
  | .empty => none
  | .buf b => some (some b.id, b.ws)
  | .rep (.inline lo hi code n) => some (none, (Rep.inline lo hi code n).words)
  | .rep (.heap id _ ws _) => some (some id, ws)
  | .stat ws _ => some (none, ws)

inductive Op where
  -- constructors (target register must be empty)
  | allocate (k n : Nat)
  | allocateExact (k c : Nat)
  | fromWords (k : Nat) (ws : List Nat)
  | fromWord (k w : Nat)
  | fromDword (k lo hi : Nat)
  | ones (k n : Nat)
  | bufClone (k j : Nat)
  | repClone (k j : Nat)
  -- `&mut Buffer`
  | ensureCapacity (k n : Nat)
  | ensureCapacityExact (k c : Nat)
  | shrinkToFit (k : Nat)
  | push (k w : Nat)
  | pushResizing (k w : Nat)
  | pushZeros (k n : Nat)
  | pushZerosFront (k n : Nat)
  | pushSlice (k : Nat) (ws : List Nat)
  | pushSliceFrom (k j : Nat)
  | popZeros (k : Nat)
  | truncate (k n : Nat)
  | eraseFront (k n : Nat)
  | lowestDword (k : Nat)
  | lowestDwordMut (k lo hi : Nat)
  | deref (k : Nat)
  | cloneFromSlice (k : Nat) (ws : List Nat)
  | cloneFromSliceFrom (k j : Nat)
  | bufCloneFrom (k j : Nat)
  -- consuming a Buffer
  | intoBoxedSlice (k : Nat)
  | fromBuffer (k : Nat)
  -- Repr
  | intoBuffer (k : Nat)
  | intoTyped (k : Nat)
  | repCloneFrom (k j : Nat)
  | withSign (k : Nat) (neg : Bool)
  | neg (k : Nat)
  | asSlice (k : Nat)
  /-- `IBig::from_static_words(sign, DATA)` / `UBig::from_static_words(DATA)` in a `static` item -/
  | fromStaticWords (k : Nat) (ws : List Nat) (neg : Bool)
  /-- `Buffer::from(words of register j)` (`words.into()` in the `TypedReprRef` arms) -/
  | bufFromView (k j : Nat)
  /-- `buffer.push_slice(&words_of_j[lo..])` -/
  | pushTailFrom (k j lo : Nat)
  /-- a kernel writing through `&mut buffer[..]` (bounds-checked slice operations): the words
      change arbitrarily, the length does not -/
  | overwrite (k : Nat) (ws : List Nat)
  | intoSignTyped (k : Nat)
  /-- `Zeroize::zeroize` (feature `zeroize`) on a `Buffer` or a `Repr`/`UBig`/`IBig` -/
  | zeroize (k : Nat)
  -- any register
  | drop (k : Nat)
  deriving DecidableEq, Repr

/-- the only register an operation changes -/
def Op.target : Op → Nat
  | .allocate k _ | .allocateExact k _ | .fromWords k _ | .fromWord k _ | .fromDword k _ _
  | .ones k _ | .bufClone k _ | .repClone k _ | .ensureCapacity k _ | .ensureCapacityExact k _
  | .shrinkToFit k | .push k _ | .pushResizing k _ | .pushZeros k _ | .pushZerosFront k _
  | .pushSlice k _ | .pushSliceFrom k _ | .popZeros k | .truncate k _ | .eraseFront k _
  | .lowestDword k | .lowestDwordMut k _ _ | .deref k | .cloneFromSlice k _
  | .cloneFromSliceFrom k _ | .bufCloneFrom k _ | .intoBoxedSlice k | .fromBuffer k
  | .intoBuffer k | .intoTyped k | .repCloneFrom k _ | .withSign k _ | .neg k | .asSlice k
  | .fromStaticWords k _ _ | .bufFromView k _ | .pushTailFrom k _ _ | .overwrite k _ | .intoSignTyped k
  | .zeroize k
  | .drop k => k

/-- run `f` on the empty register `k` -/
def create (P : Pool) (k : Nat) (m : M Slot) : M Pool :=
  match P k with
  | .empty => do let s ← m; pure (P.set k s)
  | _ => illTyped

/-- run `f` on the buffer in register `k` -/
def onBuf (P : Pool) (k : Nat) (f : Buf → M Slot) : M Pool :=
  match P k with
  | .buf b => do let s ← f b; pure (P.set k s)
  | _ => illTyped

/-- run `f` on the `Repr` in register `k` -/
def onRep (P : Pool) (k : Nat) (f : Rep → M Slot) : M Pool :=
  match P k with
  | .rep r => do let s ← f r; pure (P.set k s)
  | _ => illTyped

/-- drop of the `Box<[Word]>` returned by `into_boxed_slice`: dealloc of `len` words (nothing for the
    empty box) -/
def dropBox (bx : Option Buf) : M Unit :=
  match bx with
  | some bb => dropBuf bb
  | none => pure ()

def bufSlot (m : M Buf) : M Slot := do let b ← m; pure (.buf b)
def repSlot (m : M Rep) : M Slot := do let r ← m; pure (.rep r)

/-- one operation -/
def step (W mx : Nat) (P : Pool) : Op → M Pool
  | .allocate k n => create P k (bufSlot (allocate mx n))
  | .allocateExact k c => create P k (bufSlot (allocateExact mx c))
  | .fromWords k ws => create P k (bufSlot (fromSlice mx none ws))
  | .fromWord k w => create P k (pure (.rep (Rep.fromWord w)))
  | .fromDword k lo hi => create P k (pure (.rep (Rep.fromDword lo hi)))
  | .ones k n => create P k (repSlot (Rep.ones W mx n))
  | .bufClone k j => if k = j then illTyped else
      match P j with
      | .buf src => create P k (bufSlot (cloneBuf mx src))
      | _ => illTyped
  | .repClone k j => if k = j then illTyped else
      match P j with
      | .rep src => create P k (repSlot (Rep.clone mx src))
      | .stat ws neg => create P k (repSlot (Rep.cloneStatic mx ws neg))
      | _ => illTyped
  | .ensureCapacity k n => onBuf P k fun b => bufSlot (ensureCapacity mx b n)
  | .ensureCapacityExact k c => onBuf P k fun b => bufSlot (ensureCapacityExact b c)
  | .shrinkToFit k => onBuf P k fun b => bufSlot (shrinkToFit mx b)
  | .push k w => onBuf P k fun b => bufSlot (push b w)
  | .pushResizing k w => onBuf P k fun b => bufSlot (pushResizing mx b w)
  | .pushZeros k n => onBuf P k fun b => bufSlot (pushZeros b n)
  | .pushZerosFront k n => onBuf P k fun b => bufSlot (pushZerosFront b n)
  | .pushSlice k ws => onBuf P k fun b => bufSlot (pushSlice b none ws)
  | .pushSliceFrom k j => if k = j then illTyped else
      match (P j).view with
      | some (src, ws) => onBuf P k fun b => bufSlot (pushSlice b src ws)
      | none => illTyped
  | .popZeros k => onBuf P k fun b => bufSlot (popZeros b)
  | .truncate k n => onBuf P k fun b => bufSlot (truncate b n)
  | .eraseFront k n => onBuf P k fun b => bufSlot (eraseFront b n)
  | .lowestDword k => onBuf P k fun b => do let _ ← lowestDword b; pure (.buf b)
  | .lowestDwordMut k lo hi => onBuf P k fun b => bufSlot (lowestDwordMut b lo hi)
  | .deref k => onBuf P k fun b => do let _ ← deref b; pure (.buf b)
  | .cloneFromSlice k ws => onBuf P k fun b => bufSlot (cloneFromSlice mx b none ws)
  | .cloneFromSliceFrom k j => if k = j then illTyped else
      match (P j).view with
      | some (src, ws) => onBuf P k fun b => bufSlot (cloneFromSlice mx b src ws)
      | none => illTyped
  | .bufCloneFrom k j => if k = j then illTyped else
      match P j with
      | .buf src => onBuf P k fun b => bufSlot (cloneFromBuf mx b src)
      | _ => illTyped
  | .intoBoxedSlice k => onBuf P k fun b => do
      let bx ← intoBoxedSlice b
      dropBox bx
      pure .empty
  | .fromBuffer k => onBuf P k fun b => repSlot (Rep.fromBuffer mx b)
  | .intoBuffer k => onRep P k fun r => bufSlot (Rep.intoBuffer mx r)
  | .intoTyped k => onRep P k fun r => do
      let t ← Rep.intoTyped r
      match t with
      | .small lo hi => pure (.rep (Rep.fromDword lo hi))   -- `Small(dw)` holds no storage
      | .large b => pure (.buf b)
  | .repCloneFrom k j => if k = j then illTyped else
      match P j with
      | .rep src => onRep P k fun r => repSlot (Rep.cloneFrom mx r src)
      | .stat ws neg => onRep P k fun r => repSlot (Rep.cloneFromStatic mx r ws neg)
      | _ => illTyped
  | .withSign k neg => onRep P k fun r => pure (.rep (r.withSign neg))
  | .neg k => onRep P k fun r => pure (.rep r.negate)
  | .asSlice k =>
      match P k with
      | .stat _ _ => pure P            -- `as_sign_slice` of a static value: the `static` array itself
      | _ => onRep P k fun r => do let _ ← Rep.asSlice r; pure (.rep r)
  | .fromStaticWords k ws neg => create P k do
      let o ← Rep.fromStaticWords ws
      match o with
      | .value r => pure (.rep (r.withSign neg))
      | .stat ws' => pure (.stat ws' neg)
  | .bufFromView k j => if k = j then illTyped else
      match (P j).view with
      | some (src, ws) => create P k (bufSlot (fromSlice mx src ws))
      | none => illTyped
  | .pushTailFrom k j lo => if k = j then illTyped else
      match (P j).view with
      | some (src, ws) =>
        -- `&ws[lo..]` panics (slice index) when `lo > len`
        if lo ≤ ws.length then onBuf P k fun b => bufSlot (pushSlice b src (ws.drop lo))
        else onBuf P k fun _ => assertFail "slice index starts past the end"
      | none => illTyped
  | .overwrite k ws => onBuf P k fun b =>
      if ws.length = b.len then do
        emits (wr b.id 0 b.len)
        pure (.buf { b with ws := ws })
      else illTyped
  | .intoSignTyped k => onRep P k fun r => do
      let o ← Rep.intoSignTyped r
      match o.2 with
      | .small lo hi => pure (.rep (Rep.fromDword lo hi))
      | .large b => pure (.buf b)
  | .zeroize k =>
      match P k with
      | .buf _ => onBuf P k fun b => bufSlot (zeroizeBuf b)
      | .rep _ => onRep P k fun r => repSlot (Rep.zeroize mx r)
      | _ => illTyped
  | .drop k => match P k with
      | .empty => pure P
      | .buf b => do dropBuf b; pure (P.set k .empty)
      | .rep r => do Rep.drop r; pure (P.set k .empty)
      | .stat _ _ => pure (P.set k .empty)   -- the register held `&'static T`: dropping a reference does nothing

/-- a history -/
def run (W mx : Nat) : List Op → Pool → M Pool
  | [], P => pure P
  | op :: ops, P => do
    let P' ← step W mx P op
    run W mx ops P'

/-- a history from the empty pool and the empty ledger -/
def exec (W mx : Nat) (ops : List Op) : Out Pool := run W mx ops Pool.empty 0

/-- drop registers `0 … R-1` -/
def dropAll (R : Nat) : List Op := (List.range R).map Op.drop

end Dashu.Model.Mem
