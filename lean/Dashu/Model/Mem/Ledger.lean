import Dashu.Model.Int.Repr
/-
  C17 — heap ledger.  The storage code of dashu-int (`integer/src/buffer.rs`, `repr.rs`) is modelled as
  computations that *emit* allocator / memory-access events; they never consult the ledger (the real
  code has no way to ask the allocator either).  A separate, executable checker (`replay`) replays an
  event list against a ledger `id ↦ capacity` and fails on the first event that is not memory-safe:
  access to a dead id, index ≥ capacity, free/realloc of a dead id or with a wrong capacity, zero-size
  allocation.  Core Lean only.
-/
namespace Dashu.Model.Mem
open Dashu.Model (PanicKind)

/-- allocator and raw-pointer events; capacities and indices are in words -/
inductive Event where
  | alloc (id cap : Nat)
  | realloc (id old new : Nat)
  | free (id cap : Nat)
  | read (id i : Nat)
  | write (id i : Nat)
  deriving DecidableEq, Repr

/-- how a modelled computation can stop: a Rust panic (an `assert!`/`debug_assert!`/documented panic),
    or a point where the real code would continue into undefined behaviour that is not a ledger fact
    (a `transmute` of a `Buffer` whose capacity is ≤ 2 into a `Repr`, a copy through inline data) -/
inductive Fault where
  | panic (k : PanicKind)
  | ub (site : String)
  deriving DecidableEq, Repr

/-- result, next fresh allocation id, events emitted (in program order).  Events emitted before a
    panic are kept: safety is claimed for them too. -/
structure Out (α : Type) where
  res : Except Fault α
  next : Nat
  evs : List Event

/-- the model monad: reads the fresh-id counter, writes events -/
def M (α : Type) := Nat → Out α

namespace M
@[inline] def pure {α} (a : α) : M α := fun n => ⟨.ok a, n, []⟩
@[inline] def bind {α β} (m : M α) (f : α → M β) : M β := fun n =>
  let o := m n
  match o.res with
  | .error e => ⟨.error e, o.next, o.evs⟩
  | .ok a => let o' := f a o.next; ⟨o'.res, o'.next, o.evs ++ o'.evs⟩
end M

instance : Monad M where
  pure := M.pure
  bind := M.bind

/-- emit events -/
def emits (es : List Event) : M Unit := fun n => ⟨.ok (), n, es⟩
def emit (e : Event) : M Unit := emits [e]
/-- a fresh allocation id (the pointer returned by the allocator) -/
def fresh : M Nat := fun n => ⟨.ok n, n + 1, []⟩
def fault {α} (f : Fault) : M α := fun n => ⟨.error f, n, []⟩
/-- a failed `assert!` / `debug_assert!` at the given site -/
def assertFail {α} (site : String) : M α := fault (.panic (.undocumented site))

/-- reads / writes of the index range `[lo, lo+n)` of allocation `id` -/
def rd (id lo n : Nat) : List Event := (List.range' lo n).map (Event.read id)
def wr (id lo n : Nat) : List Event := (List.range' lo n).map (Event.write id)

-- ------------------------------------------------------------------ the checker

/-- ledger: allocation id ↦ capacity (in words) of the live allocations -/
abbrev Ledger := Nat → Option Nat

def Ledger.empty : Ledger := fun _ => none
def Ledger.set (L : Ledger) (id : Nat) (v : Option Nat) : Ledger := fun j => if j = id then v else L j

/-- one event against the ledger; `none` = the event is not memory-safe -/
def stepEv (L : Ledger) : Event → Option Ledger
  | .alloc id cap => if L id = none ∧ 0 < cap then some (L.set id (some cap)) else none
  | .realloc id old new => if L id = some old ∧ 0 < new then some (L.set id (some new)) else none
  | .free id cap => if L id = some cap then some (L.set id none) else none
  | .read id i => match L id with
    | some c => if i < c then some L else none
    | none => none
  | .write id i => match L id with
    | some c => if i < c then some L else none
    | none => none

/-- replay a trace; `none` iff some event is unsafe at the moment it happens -/
def replay (L : Ledger) : List Event → Option Ledger
  | [] => some L
  | e :: es => match stepEv L e with
    | some L' => replay L' es
    | none => none

/-- ids `≥ n` are not live (they are still to be handed out) -/
def Ledger.Below (L : Ledger) (n : Nat) : Prop := ∀ j, n ≤ j → L j = none

/-- number of live ids below `n` (driver: leak report) -/
def Ledger.liveCount (L : Ledger) (n : Nat) : Nat := ((List.range n).filter fun j => (L j).isSome).length

end Dashu.Model.Mem
