import Dashu.Model.Mem.Buffer
/-
  C17 — the storage part of `integer/src/repr.rs` as ledger transitions: `from_word`, `from_dword`,
  `with_sign`, `neg`, `from_buffer`, `into_buffer`, `into_typed`, `ones`, `Clone::clone`,
  `Clone::clone_from`, `Drop`, `as_sign_slice`.  A `Repr` is the union `{inline: [Word;2] | heap: (ptr,len)}`
  discriminated by `|capacity|` (1, 2 = inline; ≥ 3 = heap), sign in the sign of `capacity`.
  `mem::transmute::<Buffer, Repr>` is only meaningful if the buffer's capacity is ≥ 3 (otherwise the
  pointer/len pair would be read as two inline words and the allocation leaks): that side condition
  is a `Fault.ub` branch here, proved unreachable in `Proofs/Mem`.  Core Lean only.
-/
namespace Dashu.Model.Mem

inductive Rep where
  /-- `|capacity| = code ∈ {1,2}`, `data.inline = [lo, hi]` -/
  | inline (lo hi : Nat) (code : Nat) (neg : Bool)
  /-- `|capacity| = cap ≥ 3`, `data.heap = (ptr, len)`, `ptr` = allocation `id`, `len = ws.length` -/
  | heap (id cap : Nat) (ws : List Nat) (neg : Bool)
  deriving DecidableEq, Repr

namespace Rep

/-- `Repr::capacity` -/
def capacity : Rep → Nat
  | inline _ _ code _ => code
  | heap _ cap _ _ => cap

/-- `Repr::sign` as "is negative" -/
def isNeg : Rep → Bool
  | inline _ _ _ n => n
  | heap _ _ _ n => n

/-- `Repr::len` — unsafe block repr.rs:87 (union field reads selected by `capacity`) -/
def len : Rep → Nat
  | inline lo _ code _ => if code = 1 then (if lo ≠ 0 then 1 else 0) else 2
  | heap _ _ ws _ => ws.length

/-- `Repr::is_zero` — unsafe expr repr.rs:393 -/
def isZero : Rep → Bool
  | inline lo _ code _ => code = 1 ∧ lo = 0
  | heap .. => false

/-- the words as `as_sign_slice` shows them -/
def words : Rep → List Nat
  | inline lo hi code _ => if code = 1 then (if lo = 0 then [] else [lo]) else [lo, hi]
  | heap _ _ ws _ => ws

/-- `Repr::from_word` — unsafe expr repr.rs:270 (`NonZeroIsize::new_unchecked(1)`) -/
def fromWord (w : Nat) : Rep := inline w 0 1 false

/-- `Repr::from_dword` — unsafe expr repr.rs:281 (`new_unchecked(1 + (hi != 0))`) -/
def fromDword (lo hi : Nat) : Rep := inline lo hi (if hi ≠ 0 then 2 else 1) false

def setNeg (r : Rep) (n : Bool) : Rep :=
  match r with
  | inline lo hi code _ => inline lo hi code n
  | heap id cap ws _ => heap id cap ws n

/-- `Repr::with_sign` — unsafe expr repr.rs:136 (`new_unchecked(-capacity)`, never 0) -/
def withSign (r : Rep) (neg : Bool) : Rep :=
  if !r.isZero && (neg != r.isNeg) then r.setNeg (!r.isNeg) else r

/-- `Repr::neg` — unsafe expr repr.rs:441 -/
def negate (r : Rep) : Rep := if !r.isZero then r.setNeg (!r.isNeg) else r

/-- `mem::transmute::<Buffer, Repr>` (repr.rs:333, 433, 487): identity on `(ptr, len, capacity)`;
    meaningful only when `capacity ≥ 3` -/
def ofBuf (site : String) (b : Buf) : M Rep :=
  if 3 ≤ b.cap then pure (heap b.id b.cap b.ws false) else fault (.ub site)

/-- `Repr::from_buffer` — unsafe block repr.rs:333.  `buffer[0]` goes through `Deref` (a slice over
    `[0,len)`) and reads one word; the buffer is dropped on return in the inline cases. -/
def fromBuffer (mx : Nat) (b : Buf) : M Rep := do
  let b ← popZeros b
  match b.ws with
  | [] => do
    dropBuf b
    pure (fromWord 0)
  | [a] => do
    emit (.read b.id 0)
    dropBuf b
    pure (fromWord a)
  | [a, c] => do
    emits [.read b.id 0, .read b.id 1]
    dropBuf b
    pure (fromDword a c)
  | _ => do
    let b ← shrinkToFit mx b
    ofBuf "repr.rs:333 transmute" b

/-- `Repr::into_buffer` — unsafe block repr.rs:356; `debug_assert!(capacity > 0)` at 352 and
    `debug_assert!(inline[1] != 0)` at 367 -/
def intoBuffer (mx : Nat) (r : Rep) : M Buf :=
  if r.isNeg then assertFail "repr.rs:352 debug_assert" else
  match r with
  | inline lo hi code _ =>
    if code = 1 then do
      let b ← allocate mx 1
      if lo ≠ 0 then push b lo else pure b
    else
      if hi = 0 then assertFail "repr.rs:367 debug_assert" else do
      let b ← allocate mx 2
      let b ← push b lo
      push b hi
  | heap id cap ws _ => pure ⟨id, cap, ws⟩     -- transmute repr.rs:376

/-- `TypedRepr` as storage: `Small(dword)` | `Large(Buffer)` -/
inductive Typed where
  | small (lo hi : Nat)
  | large (b : Buf)
  deriving DecidableEq, Repr

/-- `Repr::into_typed` — unsafe block repr.rs:191; `debug_assert!(capacity > 0)` at 187 -/
def intoTyped (r : Rep) : M Typed :=
  if r.isNeg then assertFail "repr.rs:187 debug_assert" else
  match r with
  | inline lo hi _ _ => pure (.small lo hi)
  | heap id cap ws _ => pure (.large ⟨id, cap, ws⟩)   -- transmute repr.rs:198

/-- `Repr::as_sign_slice` / `as_sign_typed` — unsafe blocks repr.rs:231, 164
    (`slice::from_raw_parts(heap.0, heap.1)`): the slice spans `[0, len)` of the allocation -/
def asSlice (r : Rep) : M (List Nat) :=
  match r with
  | inline .. => pure r.words
  | heap id _ ws _ => do
    emits (rd id 0 ws.length)
    pure ws

/-- `<Repr as Drop>::drop` — unsafe block repr.rs:547 -/
def drop (r : Rep) : M Unit :=
  match r with
  | inline .. => pure ()
  | heap id cap _ _ => deallocateRaw id cap

/-- `<Repr as Clone>::clone` — unsafe block repr.rs:468 -/
def clone (mx : Nat) (r : Rep) : M Rep :=
  match r with
  | inline lo hi code neg => pure ((inline lo hi code false).withSign neg)
  | heap id _ ws neg => do
    let nb ← allocate mx ws.length
    let nb ← pushSlice nb (some id) ws
    let n ← ofBuf "repr.rs:487 transmute" nb
    pure (n.withSign neg)

/-- `if cap > 2 { Buffer::deallocate_raw(NonNull::new_unchecked(self.data.heap.0), cap) }`
    (repr.rs:504 and 519): release the old buffer if there is one -/
def releaseOld (self : Rep) : M Unit :=
  match self with
  | heap id cap _ _ => deallocateRaw id cap
  | inline .. => pure ()

/-- the final `copy_nonoverlapping(src_ptr, self.data.heap.0, src_len)` (repr.rs:531) when the old
    buffer is kept -/
def copyInto (self : Rep) (sid : Nat) (sws : List Nat) (sneg : Bool) : M Rep :=
  match self with
  | heap id cap _ _ => do
    emits (rd sid 0 sws.length ++ wr id 0 sws.length)
    pure (heap id cap sws sneg)
  | inline .. => fault (.ub "repr.rs:531 copy through inline data")

/-- `<Repr as Clone>::clone_from` — unsafe block repr.rs:498 -/
def cloneFrom (mx : Nat) (self src : Rep) : M Rep :=
  match src with
  | inline lo hi code neg => do         -- `src_cap <= 2`
    releaseOld self                       -- repr.rs:504
    pure (inline lo hi code neg)
  | heap sid _ sws sneg =>
    let srcLen := sws.length
    if srcLen < 3 then assertFail "repr.rs:513 debug_assert" else do
    -- `cap < src_len || cap > Buffer::max_compact_capacity(src_len)` (short-circuit)
    let realloc ← (if self.capacity < srcLen then pure true else do
        let m ← maxCompactCapacityChecked mx srcLen
        pure (decide (self.capacity > m)) : M Bool)
    if realloc then do
      releaseOld self                     -- repr.rs:519
      let newCap ← defaultCapacityChecked mx srcLen
      let nid ← allocateRaw mx newCap
      emits (rd sid 0 srcLen ++ wr nid 0 srcLen)  -- repr.rs:531
      pure (heap nid newCap sws sneg)
    else copyInto self sid sws sneg

/-- `ones_word(n)` -/
def onesWord (n : Nat) : Nat := 2 ^ n - 1

/-- the heap arm of `Repr::ones` — unsafe block repr.rs:433 (transmute without `from_buffer`) -/
def onesLarge (W mx n : Nat) : M Rep := do
  let loWords := n / W
  let hiBits := n % W
  let b ← allocate mx (loWords + 1)
  let b ← pushRepeat b (onesWord W) loWords
  let b ← (if hiBits > 0 then push b (onesWord hiBits) else pure b)
  ofBuf "repr.rs:433 transmute" b

/-- `Repr::ones` as it is now (`n <= DWORD_BITS`, after fix 283f2ad) -/
def ones (W mx n : Nat) : M Rep :=
  if n < W then pure (fromWord (onesWord n))
  else if n ≤ 2 * W then pure (fromDword (onesWord W) (onesWord (n - W)))
  else onesLarge W mx n

/-- `Repr::ones` as it was at the pinned snapshot (`n < DWORD_BITS`: `n = 2·W` takes the heap arm
    and yields a 2-word heap value) — kept for the counterexample theorem only -/
def onesPreFix (W mx n : Nat) : M Rep :=
  if n < W then pure (fromWord (onesWord n))
  else if n < 2 * W then pure (fromDword (onesWord W) (onesWord (n - W)))
  else onesLarge W mx n

-- ------------------------------------------------------------------ static-backed values

/-- result of `Repr::from_static_words`: an ordinary inline value, or a value whose `data.heap`
    points into a `static` word array (`|capacity| = len ≥ 3`, no allocation of ours) -/
inductive StaticOut where
  | value (r : Rep)
  | stat (ws : List Nat)
  deriving DecidableEq, Repr

/-- `Repr::from_static_words` — `const unsafe fn`, repr.rs:290.  The two `assert!`s (repr.rs:295
    `hi > 0`, repr.rs:301 "the array input must be normalized") are compile errors in the `static`
    initialisers the macros generate.  `capacity = NonZeroIsize::new_unchecked(len)` with `len ≥ 3`. -/
def fromStaticWords (ws : List Nat) : M StaticOut :=
  match ws with
  | [] => pure (.value (fromWord 0))
  | [w] => pure (.value (fromWord w))
  | [lo, hi] => if hi > 0 then pure (.value (fromDword lo hi)) else assertFail "repr.rs:295 assert"
  | large =>
    if large.getLast? = some 0 then assertFail "repr.rs:301 assert" else pure (.stat large)

/-- `<Repr as Clone>::clone` of a static-backed value (`|capacity| = len ≥ 3`, so the heap arm,
    repr.rs:480-487): the source slice is the `static` array — outside the ledger -/
def cloneStatic (mx : Nat) (ws : List Nat) (neg : Bool) : M Rep := do
  let nb ← allocate mx ws.length
  let nb ← pushSlice nb none ws
  let n ← ofBuf "repr.rs:487 transmute" nb
  pure (n.withSign neg)

/-- the copy when the old buffer is kept, source outside the ledger -/
def copyIntoExt (self : Rep) (sws : List Nat) (sneg : Bool) : M Rep :=
  match self with
  | heap id cap _ _ => do
    emits (wr id 0 sws.length)
    pure (heap id cap sws sneg)
  | inline .. => fault (.ub "repr.rs:531 copy through inline data")

/-- `<Repr as Clone>::clone_from(&mut self, &STATIC)`: the heap arm of `clone_from` with a source
    slice outside the ledger -/
def cloneFromStatic (mx : Nat) (self : Rep) (sws : List Nat) (sneg : Bool) : M Rep :=
  let srcLen := sws.length
  if srcLen < 3 then assertFail "repr.rs:513 debug_assert" else do
  let realloc ← (if self.capacity < srcLen then pure true else do
      let m ← maxCompactCapacityChecked mx srcLen
      pure (decide (self.capacity > m)) : M Bool)
  if realloc then do
    releaseOld self
    let newCap ← defaultCapacityChecked mx srcLen
    let nid ← allocateRaw mx newCap
    emits (wr nid 0 srcLen)
    pure (heap nid newCap sws sneg)
  else copyIntoExt self sws sneg

/-- `Repr::into_sign_typed` — unsafe expr repr.rs:209 (`new_unchecked(abs_capacity)`, never 0), then
    `into_typed` on the now-positive value: no assertion can fire -/
def intoSignTyped (r : Rep) : M (Bool × Typed) := do
  let t ← intoTyped (r.setNeg false)
  pure (r.isNeg, t)

/-- `UBig::as_ibig` (convert.rs:563) / `IBig::as_ubig` (convert.rs:695): `transmute` between
    `&UBig` and `&IBig`, both `#[repr(transparent)]` wrappers of `Repr` — the identity on the
    representation, no ledger event; `as_ubig` only for a positive sign -/
def asIbig (r : Rep) : Rep := r
def asUbig (r : Rep) : Option Rep := if r.isNeg then none else some r

/-- `Repr::as_full_slice` (feature `zeroize`) — unsafe block repr.rs:253: the two inline words when
    `capacity ≤ 2`, else `from_raw_parts_mut(heap.0, capacity)`: the whole allocation; with the writes
    `zeroize()` performs on it -/
def fullSliceZero (r : Rep) : M Unit :=
  match r with
  | heap id cap _ _ => emits (wr id 0 cap)
  | inline .. => pure ()

/-- `<Repr as Zeroize>::zeroize` (third_party/zeroize.rs:19): `as_full_slice().zeroize()` then
    `self.clone_from(&Repr::zero())`, which frees a heap buffer -/
def zeroize (mx : Nat) (r : Rep) : M Rep := do
  fullSliceZero r
  cloneFrom mx r (fromWord 0)

end Rep
end Dashu.Model.Mem
