import Dashu.Model.Mem.Pool
/-
  C17 — storage skeletons of the public `UBig` operations `+ - * << >>` in all ownership forms
  (`integer/src/{add_ops,mul_ops,shift_ops}.rs`, `mod repr`).  A skeleton is the exact sequence of
  `Buffer`/`Repr` storage calls the Rust code performs (allocate / `words.into()` / ensure_capacity /
  push_slice / push / push_resizing / push_zeros(_front) / erase_front / from_buffer / drops), with every
  word-level kernel (`add_same_len_in_place`, `mul::multiply`, `shl_in_place`, …) abstracted to ONE
  `overwrite` of the buffer's words (kernels only use bounds-checked slice operations).  The words
  written are computed here by `Nat` arithmetic; the theorems of C17 do not depend on them: every
  history over `AOp` keeps the invariant whatever the kernels write.
  Registers: 0 = left operand, 1 = right operand, 2 = a fresh buffer.  Core Lean only.
-/
namespace Dashu.Model.Mem

/-- the alphabet of the arithmetic skeletons (a subset of `Op` without `ensure_capacity_exact`) -/
inductive AOp where
  | allocate (k n : Nat)
  | allocScratch (k words : Nat)        -- `MemoryAllocation::new(array_layout::<Word>(words))`
  | push (k w : Nat)
  | pushResizing (k w : Nat)
  | pushZeros (k n : Nat)
  | pushZerosFront (k n : Nat)
  | ensureCapacity (k n : Nat)
  | pushTailFrom (k j lo : Nat)
  | bufFromView (k j : Nat)
  | cloneFromSliceFrom (k j : Nat)
  | overwrite (k : Nat) (ws : List Nat)
  | eraseFront (k n : Nat)
  | fromBuffer (k : Nat)
  | fromWord (k w : Nat)
  | fromDword (k lo hi : Nat)
  | intoTyped (k : Nat)
  | intoSignTyped (k : Nat)
  | withSign (k : Nat) (neg : Bool)
  | drop (k : Nat)
  -- round 4: bit operations (bits.rs) and `Repr::from_ref`
  | truncate (k n : Nat)
  | lowestDword (k : Nat)
  | lowestDwordMut (k lo hi : Nat)
  | intoBuffer (k : Nat)
  deriving DecidableEq, Repr

def AOp.toOp : AOp → Op
  | .allocate k n => .allocate k n
  | .allocScratch k w => .allocateExact k w   -- `array_layout::<Word>(w)`, only used with w > 0
  | .push k w => .push k w
  | .pushResizing k w => .pushResizing k w
  | .pushZeros k n => .pushZeros k n
  | .pushZerosFront k n => .pushZerosFront k n
  | .ensureCapacity k n => .ensureCapacity k n
  | .pushTailFrom k j lo => .pushTailFrom k j lo
  | .bufFromView k j => .bufFromView k j
  | .cloneFromSliceFrom k j => .cloneFromSliceFrom k j
  | .overwrite k ws => .overwrite k ws
  | .eraseFront k n => .eraseFront k n
  | .fromBuffer k => .fromBuffer k
  | .fromWord k w => .fromWord k w
  | .fromDword k lo hi => .fromDword k lo hi
  | .intoTyped k => .intoTyped k
  | .intoSignTyped k => .intoSignTyped k
  | .withSign k neg => .withSign k neg
  | .drop k => .drop k
  | .truncate k n => .truncate k n
  | .lowestDword k => .lowestDword k
  | .lowestDwordMut k lo hi => .lowestDwordMut k lo hi
  | .intoBuffer k => .intoBuffer k

/-- how a public operation ends: storage calls, an optional documented panic after them, and the
    drops performed at the end of the scope / by unwinding; `res` = register holding the result -/
structure Frag where
  ops : List AOp
  panic : Option Dashu.Model.PanicKind := none
  cleanup : List AOp := []
  res : Nat := 2
  /-- second result register (`DivRem::div_rem` returns `(quotient, remainder)`) -/
  res2 : Option Nat := none
  /-- third result register (`ExtendedGcd::gcd_ext` returns `(g, s, t)`) -/
  res3 : Option Nat := none
  deriving Repr

inductive Form where
  | rr | rv | vr | vv
  deriving DecidableEq, Repr

/-- value of little-endian words -/
def wval (W : Nat) : List Nat → Nat
  | [] => 0
  | w :: ws => w + 2 ^ W * wval W ws

/-- exactly `len` little-endian words of `v mod B^len` -/
def toWords (W : Nat) : Nat → Nat → List Nat
  | 0, _ => []
  | len + 1, v => v % 2 ^ W :: toWords W len (v / 2 ^ W)

/-- `v / 2^n` without building `2^n` when `n` exceeds the bit length (shift counts up to `usize::MAX` are driven) -/
def shrNat (v n : Nat) : Nat := if Nat.log2 v < n then 0 else v / 2 ^ n

/-- `v % 2^n ≠ 0` (`are_low_bits_nonzero`) without building `2^n` when `n` exceeds the bit length -/
def lowBitsNonzero (v n : Nat) : Bool := if Nat.log2 v < n then decide (v ≠ 0) else decide (v % 2 ^ n ≠ 0)

section
variable (W mx : Nat)

private def B : Nat := 2 ^ W

/-- `Buffer::default_capacity` -/
private def dcap (n : Nat) : Nat := defaultCapacity mx n

def isSmall (ws : List Nat) : Bool := ws.length ≤ 2

/-- `repr::add_dword` -/
def fAddDword (a b : Nat) : Frag :=
  let s := a + b
  if s ≥ 2 ^ (2 * W) then
    let r := s % 2 ^ (2 * W)
    { ops := [.allocate 2 3, .push 2 (r % 2 ^ W), .push 2 (r / 2 ^ W), .push 2 1, .fromBuffer 2] }
  else { ops := [.fromDword 2 (s % 2 ^ W) (s / 2 ^ W)] }

/-- `repr::add_large_dword(buffer in register r, d)` -/
def fAddLargeDword (r len v d : Nat) : List AOp :=
  let s := v + d
  [.overwrite r (toWords W len s)] ++ (if s ≥ 2 ^ (W * len) then [.pushResizing r 1] else []) ++ [.fromBuffer r]

/-- `repr::add_large(buffer in register r, words of register o)` -/
def fAddLarge (r lr vr o lo vo : Nat) : List AOp :=
  let n := min lr lo
  let m := max lr lo
  let s := vr + vo
  (if lo > n then [.ensureCapacity r lo, .pushTailFrom r o n] else []) ++
  [.overwrite r (toWords W m s)] ++ (if s ≥ 2 ^ (W * m) then [.pushResizing r 1] else []) ++ [.fromBuffer r]

/-- `UBig + UBig` -/
def fragAdd (f : Form) (a b : List Nat) : Frag :=
  let la := a.length; let lb := b.length; let va := wval W a; let vb := wval W b
  let pre : List AOp := match f with
    | .rr => [] | .rv => [.intoTyped 1] | .vr => [.intoTyped 0] | .vv => [.intoTyped 0, .intoTyped 1]
  let aVal := f == .vr || f == .vv
  let bVal := f == .rv || f == .vv
  let fr : Frag :=
    if isSmall a && isSmall b then fAddDword W va vb
    else if isSmall a then
      if bVal then { ops := fAddLargeDword W 1 lb vb va, res := 1 }
      else { ops := [.bufFromView 2 1] ++ fAddLargeDword W 2 lb vb va }
    else if isSmall b then
      if aVal then { ops := fAddLargeDword W 0 la va vb, res := 0 }
      else { ops := [.bufFromView 2 0] ++ fAddLargeDword W 2 la va vb }
    else match f with
      | .rr =>
        if la ≥ lb then { ops := [.bufFromView 2 0] ++ fAddLarge W 2 la va 1 lb vb }
        else { ops := [.bufFromView 2 1] ++ fAddLarge W 2 lb vb 0 la va }
      | .rv => { ops := fAddLarge W 1 lb vb 0 la va, res := 1 }
      | .vr => { ops := fAddLarge W 0 la va 1 lb vb, res := 0 }
      | .vv =>
        if la ≥ lb then { ops := fAddLarge W 0 la va 1 lb vb, cleanup := [.drop 1], res := 0 }
        else { ops := fAddLarge W 1 lb vb 0 la va, cleanup := [.drop 0], res := 1 }
  { fr with ops := pre ++ fr.ops }

/-- `UBig - UBig` -/
def fragSub (f : Form) (a b : List Nat) : Frag :=
  let la := a.length; let lb := b.length; let va := wval W a; let vb := wval W b
  let pre : List AOp := match f with
    | .rr => [] | .rv => [.intoTyped 1] | .vr => [.intoTyped 0] | .vv => [.intoTyped 0, .intoTyped 1]
  let aVal := f == .vr || f == .vv
  let bVal := f == .rv || f == .vv
  let neg : Option Dashu.Model.PanicKind := some .negativeUBig
  let fr : Frag :=
    if isSmall a && isSmall b then
      if va ≥ vb then { ops := [.fromDword 2 ((va - vb) % 2 ^ W) ((va - vb) / 2 ^ W)] }
      else { ops := [], panic := neg }
    else if isSmall a then
      -- `(Small(_), Large(_)) => panic_negative_ubig()`; a by-value right operand is dropped by unwinding
      { ops := [], panic := neg, cleanup := if bVal then [.drop 1] else [] }
    else if isSmall b then
      -- `sub_large_dword`
      if aVal then { ops := [.overwrite 0 (toWords W la (va - vb)), .fromBuffer 0], res := 0 }
      else { ops := [.bufFromView 2 0, .overwrite 2 (toWords W la (va - vb)), .fromBuffer 2] }
    else match f with
      | .rr =>
        -- `sub_large(buffer0.into(), buffer1)`: the copy is made before the length/borrow test
        if la < lb ∨ va < vb then { ops := [.bufFromView 2 0], panic := neg, cleanup := [.drop 2] }
        else { ops := [.bufFromView 2 0, .overwrite 2 (toWords W la (va - vb)), .fromBuffer 2] }
      | .vr =>
        if la < lb ∨ va < vb then { ops := [], panic := neg, cleanup := [.drop 0] }
        else { ops := [.overwrite 0 (toWords W la (va - vb)), .fromBuffer 0], res := 0 }
      | .rv =>
        -- `sub_large_ref_val(lhs, rhs)`
        if la < lb then { ops := [], panic := neg, cleanup := [.drop 1] }
        else
          let grow : List AOp := [.ensureCapacity 1 la, .pushTailFrom 1 0 lb]
          if va < vb then { ops := grow, panic := neg, cleanup := [.drop 1] }
          else { ops := grow ++ [.overwrite 1 (toWords W la (va - vb)), .fromBuffer 1], res := 1 }
      | .vv =>
        if la < lb ∨ va < vb then { ops := [], panic := neg, cleanup := [.drop 0, .drop 1] }
        else { ops := [.overwrite 0 (toWords W la (va - vb)), .fromBuffer 0], cleanup := [.drop 1], res := 0 }
  { fr with ops := pre ++ fr.ops }

/-- `repr::mul_large_dword(buffer in register r, d)` -/
def fMulLargeDword (r len v d : Nat) : Frag :=
  if d = 0 then { ops := [.fromWord 2 0], cleanup := [.drop r] }
  else if d = 1 then { ops := [.fromBuffer r], res := r }
  else
    let p := v * d
    let carry := p / 2 ^ (W * len)
    if d < 2 ^ W then
      { ops := [.overwrite r (toWords W len p), .pushResizing r carry, .fromBuffer r], res := r }
    else if carry ≠ 0 then
      { ops := [.overwrite r (toWords W len p), .ensureCapacity r (len + 2), .push r (carry % 2 ^ W),
                .push r (carry / 2 ^ W), .fromBuffer r], res := r }
    else { ops := [.overwrite r (toWords W len p), .fromBuffer r], res := r }

/-- `math::ceil_log2(n) = bit_len(n - 1)` -/
def ceilLog2 (n : Nat) : Nat := if n ≤ 1 then 0 else Nat.log2 (n - 1) + 1

/-- `mul::memory_requirement_up_to(_, smaller_len)` in words (thresholds regenerated from source) -/
def mulScratchWords (n : Nat) : Nat :=
  if n ≤ Dashu.Gen.mul_THRESHOLD_SIMPLE then 0
  else if n ≤ Dashu.Gen.mul_THRESHOLD_KARATSUBA then 2 * n + 2 * ceilLog2 n
  else 4 * n + 13 * ceilLog2 n

/-- `sqr::memory_requirement_exact(len)` in words (`MAX_LEN_SIMPLE = 30`, integer/src/sqr/simple.rs) -/
def sqrScratchWords (sqrSimple n : Nat) : Nat := if n ≤ sqrSimple then 0 else mulScratchWords n

/-- `UBig * UBig`; `sqrSimple` = `sqr::MAX_LEN_SIMPLE`.  Large × large: `mul_large` (equal operands take
    `square_large`), result buffer of `len_a + len_b` zeros, a scratch block from `MemoryAllocation::new`
    that is freed after `from_buffer` returned -/
def fragMul (sqrSimple : Nat) (f : Form) (a b : List Nat) : Frag :=
  let la := a.length; let lb := b.length; let va := wval W a; let vb := wval W b
  let pre : List AOp := match f with
    | .rr => [] | .rv => [.intoTyped 1] | .vr => [.intoTyped 0] | .vv => [.intoTyped 0, .intoTyped 1]
  let aVal := f == .vr || f == .vv
  let bVal := f == .rv || f == .vv
  let fr : Frag :=
    if isSmall a && isSmall b then
      if va < 2 ^ W ∧ vb < 2 ^ W then { ops := [.fromDword 2 ((va * vb) % 2 ^ W) ((va * vb) / 2 ^ W)] }
      else
        let p := va * vb
        { ops := [.allocate 2 4] ++ (toWords W 4 p).map (AOp.push 2) ++ [.fromBuffer 2] }
    else if isSmall a then
      if bVal then fMulLargeDword W 1 lb vb va
      else
        let fr := fMulLargeDword W 2 lb vb va
        { fr with ops := [.bufFromView 2 1] ++ (fr.ops.map fun o => match o with | .fromWord 2 0 => AOp.fromWord 3 0 | o => o),
                  res := if va = 0 then 3 else fr.res }
    else if isSmall b then
      if aVal then fMulLargeDword W 0 la va vb
      else
        let fr := fMulLargeDword W 2 la va vb
        { fr with ops := [.bufFromView 2 0] ++ (fr.ops.map fun o => match o with | .fromWord 2 0 => AOp.fromWord 3 0 | o => o),
                  res := if vb = 0 then 3 else fr.res }
    else
      let n := la + lb
      let scratch := if a = b then sqrScratchWords sqrSimple la else mulScratchWords (min la lb)
      { ops := [.allocate 2 n, .pushZeros 2 n] ++ (if scratch > 0 then [.allocScratch 3 scratch] else []) ++
               [.overwrite 2 (toWords W n (va * vb)), .fromBuffer 2] ++ (if scratch > 0 then [.drop 3] else []),
        cleanup := (if bVal then [.drop 1] else []) ++ (if aVal then [.drop 0] else []) }
  { fr with ops := pre ++ fr.ops }

/-- `div_rem_in_lhs` + tail of `div_large` / `rem_large` on `lhs` in register `lr`, `rhs` in register `rr`
    (both ≥ 3 words, `la ≥ lb`).  `div::memory_requirement_exact`: no scratch block when
    `rhs_len ≤ THRESHOLD_SIMPLE` or `lhs_len - rhs_len ≤ THRESHOLD_SIMPLE`, otherwise the divide-and-conquer
    requirement `mul::memory_requirement_up_to(_, min(rhs_len/2, lhs_len - rhs_len))`; the block lives for the
    duration of `div_rem_in_lhs` (allocated first, freed after `push_resizing(quo_carry)`) -/
def divScratchWords (la lb : Nat) : Nat :=
  if lb ≤ Dashu.Gen.div_THRESHOLD_SIMPLE ∨ la - lb ≤ Dashu.Gen.div_THRESHOLD_SIMPLE then 0
  else mulScratchWords (min (lb / 2) (la - lb))

/-- `div_ops.rs repr::div_rem_in_lhs(&mut lhs, &mut rhs)`: `lhs = [lhs % rhs, lhs / rhs]` in the lhs buffer (register
    `lr`), `rhs` (register `rr`) normalised in place; the scratch block lives for the duration of the call -/
def fDivRemInLhs (lr rr la lb va vb : Nat) : List AOp :=
  let q := va / vb
  let rm := va % vb
  let shift := W * lb - (Nat.log2 vb + 1)
  let scratch := divScratchWords la lb
  (if scratch > 0 then [.allocScratch 4 scratch] else []) ++
  [.overwrite rr (toWords W lb (vb * 2 ^ shift)),                                   -- `div::normalize(rhs)`
   .overwrite lr (toWords W lb (rm * 2 ^ shift) ++ toWords W (la - lb) q),          -- `[lhs % rhs, lhs / rhs]`
   .pushResizing lr (q / 2 ^ (W * (la - lb)))] ++                                   -- `push_resizing(quo_carry)`
  (if scratch > 0 then [.drop 4] else [])

def fDivRemLarge (wantRem : Bool) (lr rr la lb va vb : Nat) : Frag :=
  let rm := va % vb
  let common : List AOp := fDivRemInLhs W lr rr la lb va vb
  if wantRem then
    { ops := common ++ [.overwrite rr (toWords W lb rm), .fromBuffer rr], cleanup := [.drop lr], res := rr }
  else
    { ops := common ++ [.eraseFront lr lb, .fromBuffer lr], cleanup := [.drop rr], res := lr }

/-- `UBig / UBig` and `UBig % UBig` (truncating; `wantRem` selects `%`) -/
def fragDivRem (wantRem : Bool) (f : Form) (a b : List Nat) : Frag :=
  let la := a.length; let lb := b.length; let va := wval W a; let vb := wval W b
  let pre : List AOp := match f with
    | .rr => [] | .rv => [.intoTyped 1] | .vr => [.intoTyped 0] | .vv => [.intoTyped 0, .intoTyped 1]
  let aVal := f == .vr || f == .vv
  let bVal := f == .rv || f == .vv
  let dz : Option Dashu.Model.PanicKind := some .divideByZero
  let dropVals : List AOp := (if bVal then [.drop 1] else []) ++ (if aVal then [.drop 0] else [])
  let fr : Frag :=
    if isSmall a && isSmall b then
      if vb = 0 then { ops := [], panic := dz }
      else
        let r := if wantRem then va % vb else va / vb
        { ops := [.fromDword 2 (r % 2 ^ W) (r / 2 ^ W)] }
    else if isSmall a then
      -- `(Small(_), Large(_)) => Repr::zero()` / `Repr::from_dword(dword0)`
      { ops := [if wantRem then .fromDword 2 (va % 2 ^ W) (va / 2 ^ W) else .fromWord 2 0],
        cleanup := if bVal then [.drop 1] else [] }
    else if isSmall b then
      if wantRem then
        -- `rem_large_dword(&buffer0 | words0, d)`: no copy; a by-value lhs is dropped afterwards
        if vb = 0 then { ops := [], panic := dz, cleanup := if aVal then [.drop 0] else [] }
        else { ops := [.fromDword 2 ((va % vb) % 2 ^ W) ((va % vb) / 2 ^ W)], cleanup := if aVal then [.drop 0] else [] }
      else
        let r := if aVal then 0 else 2
        let cp : List AOp := if aVal then [] else [.bufFromView 2 0]
        if vb = 0 then { ops := cp, panic := dz, cleanup := [.drop r] }
        else { ops := cp ++ [.overwrite r (toWords W la (va / vb)), .fromBuffer r], res := r }
    else if la < lb then
      if wantRem then
        match f with
        | .vv => { ops := [.fromBuffer 0], cleanup := [.drop 1], res := 0 }
        | .vr => { ops := [.fromBuffer 0], res := 0 }
        | .rv => { ops := [.cloneFromSliceFrom 1 0, .fromBuffer 1], res := 1 }
        | .rr => { ops := [.bufFromView 2 0, .fromBuffer 2] }
      else { ops := [.fromWord 2 0], cleanup := dropVals }
    else
      let lr := if aVal then 0 else 2
      let rr := if bVal then 1 else 3
      let cp : List AOp := (if aVal then [] else [.bufFromView 2 0]) ++ (if bVal then [] else [.bufFromView 3 1])
      let fr := fDivRemLarge W wantRem lr rr la lb va vb
      { fr with ops := cp ++ fr.ops }
  { fr with ops := pre ++ fr.ops }

/-- `repr_signed::sub_large(lhs buffer in register r, rhs = words of register o)`: never panics -/
def fSubLargeSigned (r lr vr o lo vo : Nat) : List AOp :=
  if lr ≥ lo then [.overwrite r (toWords W lr (if vr ≥ vo then vr - vo else vo - vr)), .fromBuffer r]
  else
    -- `sub_large_ref_val(rhs, lhs)`: the result is built in the (shorter) lhs buffer
    [.ensureCapacity r lo, .pushTailFrom r o lr, .overwrite r (toWords W lo (vo - vr)), .fromBuffer r]

/-- `SubSigned` for `TypedRepr(Ref)`: the magnitude part of `|a| - |b|` (add_ops.rs `mod repr_signed`);
    operands are ALREADY typed (signs stripped by `into_sign_typed` / `as_sign_typed`) -/
def fragSubSigned (aVal bVal : Bool) (a b : List Nat) : Frag :=
  let la := a.length; let lb := b.length; let va := wval W a; let vb := wval W b
  let d := if va ≥ vb then va - vb else vb - va
  if isSmall a && isSmall b then { ops := [.fromDword 2 (d % 2 ^ W) (d / 2 ^ W)] }
  else if isSmall a then
    if bVal then { ops := [.overwrite 1 (toWords W lb d), .fromBuffer 1], res := 1 }
    else { ops := [.bufFromView 2 1, .overwrite 2 (toWords W lb d), .fromBuffer 2] }
  else if isSmall b then
    if aVal then { ops := [.overwrite 0 (toWords W la d), .fromBuffer 0], res := 0 }
    else { ops := [.bufFromView 2 0, .overwrite 2 (toWords W la d), .fromBuffer 2] }
  else
    match aVal, bVal with
    | false, false =>
      if la ≥ lb then { ops := [.bufFromView 2 0] ++ fSubLargeSigned W 2 la va 1 lb vb }
      else { ops := [.bufFromView 2 1] ++ fSubLargeSigned W 2 lb vb 0 la va }
    | false, true => { ops := fSubLargeSigned W 1 lb vb 0 la va, res := 1 }
    | true, false => { ops := fSubLargeSigned W 0 la va 1 lb vb, res := 0 }
    | true, true =>
      if la ≥ lb then { ops := fSubLargeSigned W 0 la va 1 lb vb, cleanup := [.drop 1], res := 0 }
      else { ops := fSubLargeSigned W 1 lb vb 0 la va, cleanup := [.drop 0], res := 1 }

/-- swap the roles of registers 0 and 1 in a skeleton (the glue calls `mag1.sub_signed(mag0)`) -/
def AOp.swap01 : AOp → AOp :=
  let sw (k : Nat) : Nat := if k = 0 then 1 else if k = 1 then 0 else k
  fun
  | .allocate k n => .allocate (sw k) n
  | .allocScratch k w => .allocScratch (sw k) w
  | .push k w => .push (sw k) w
  | .pushResizing k w => .pushResizing (sw k) w
  | .pushZeros k n => .pushZeros (sw k) n
  | .pushZerosFront k n => .pushZerosFront (sw k) n
  | .ensureCapacity k n => .ensureCapacity (sw k) n
  | .pushTailFrom k j lo => .pushTailFrom (sw k) (sw j) lo
  | .bufFromView k j => .bufFromView (sw k) (sw j)
  | .cloneFromSliceFrom k j => .cloneFromSliceFrom (sw k) (sw j)
  | .overwrite k ws => .overwrite (sw k) ws
  | .eraseFront k n => .eraseFront (sw k) n
  | .fromBuffer k => .fromBuffer (sw k)
  | .fromWord k w => .fromWord (sw k) w
  | .fromDword k lo hi => .fromDword (sw k) lo hi
  | .intoTyped k => .intoTyped (sw k)
  | .intoSignTyped k => .intoSignTyped (sw k)
  | .withSign k n => .withSign (sw k) n
  | .drop k => .drop (sw k)
  | .truncate k n => .truncate (sw k) n
  | .lowestDword k => .lowestDword (sw k)
  | .lowestDwordMut k lo hi => .lowestDwordMut (sw k) lo hi
  | .intoBuffer k => .intoBuffer (sw k)

def Frag.swap01 (f : Frag) : Frag :=
  { ops := f.ops.map AOp.swap01, panic := f.panic, cleanup := f.cleanup.map AOp.swap01,
    res := if f.res = 0 then 1 else if f.res = 1 then 0 else f.res }

/-- strip `intoTyped` (the signed glue uses `into_sign_typed` instead) -/
def Frag.noIntoTyped (f : Frag) : Frag :=
  { f with ops := f.ops.filter fun o => match o with | .intoTyped _ => false | _ => true }

/-- `IBig ± IBig` / `IBig * IBig` (`impl_ibig_add`, `impl_ibig_sub`, `impl_ibig_mul`): `into_sign_typed` /
    `as_sign_typed` on the operands (no allocator event), the magnitude operation selected by the signs,
    `with_sign` on the result.  `op` = 0 add, 1 sub, 2 mul; `na`, `nb` = operand is negative. -/
def fragSigned (sqrSimple : Nat) (op : Nat) (f : Form) (na : Bool) (a : List Nat) (nb : Bool) (b : List Nat) : Frag :=
  let aVal := f == .vr || f == .vv
  let bVal := f == .rv || f == .vv
  let pre : List AOp := (if aVal then [.intoSignTyped 0] else []) ++ (if bVal then [.intoSignTyped 1] else [])
  let va := wval W a; let vb := wval W b
  -- for subtraction the right operand's sign is flipped
  let nb' := if op = 1 then !nb else nb
  let body : Frag × Bool :=
    if op = 2 then ((fragMul W sqrSimple f a b).noIntoTyped, na != nb)
    else if na = nb' then ((fragAdd W f a b).noIntoTyped, na)
    else if !na then (fragSubSigned W aVal bVal a b, decide (va < vb))        -- mag0.sub_signed(mag1)
    else ((fragSubSigned W bVal aVal b a).swap01, decide (vb < va))          -- mag1.sub_signed(mag0)
  let fr := body.1
  { fr with ops := pre ++ fr.ops ++ [.withSign fr.res body.2] }

/-- `UBig::sqr(&self)` (mul_ops.rs `TypedReprRef::sqr`, `square_dword_spilled`, `square_large`) -/
def fragSqr (sqrSimple : Nat) (a : List Nat) : Frag :=
  let la := a.length; let va := wval W a
  if isSmall a then
    if va < 2 ^ W then { ops := [.fromDword 2 ((va * va) % 2 ^ W) ((va * va) / 2 ^ W)] }
    else { ops := [.allocate 2 4] ++ (toWords W 4 (va * va)).map (AOp.push 2) ++ [.fromBuffer 2] }
  else
    let n := 2 * la
    let scratch := sqrScratchWords sqrSimple la
    { ops := [.allocate 2 n, .pushZeros 2 n] ++ (if scratch > 0 then [.allocScratch 3 scratch] else []) ++
             [.overwrite 2 (toWords W n (va * va)), .fromBuffer 2] ++ (if scratch > 0 then [.drop 3] else []) }

/-- `UBig::from_le_bytes` / `from_be_bytes` (convert.rs `Repr::from_le_bytes(_large)`): ≤ 2 words of bytes
    go through `from_dword`; otherwise `Buffer::allocate(ceil(len / WORD_BYTES))`, one `push` per word
    (high zero bytes give high zero words), `from_buffer` -/
def fragFromBytes (nbytes v : Nat) : Frag :=
  let wb := W / 8
  if nbytes ≤ 2 * wb then { ops := [.fromDword 2 (v % 2 ^ W) (v / 2 ^ W % 2 ^ W)] }
  else
    let nw := (nbytes - 1) / wb + 1
    { ops := [.allocate 2 nw] ++ (toWords W nw v).map (AOp.push 2) ++ [.fromBuffer 2] }

/-- `UBig << n` (`by value` = `f = vv`, by reference = `f = rr`) -/
def fragShl (byVal : Bool) (a : List Nat) (rhs : Nat) : Frag :=
  let la := a.length; let va := wval W a
  let pre : List AOp := if byVal then [.intoTyped 0] else []
  let sw := rhs / W; let sb := rhs % W
  let fr : Frag :=
    if isSmall a then
      if va = 0 then { ops := [.fromWord 2 0] }
      else if rhs < 2 * W ∧ va * 2 ^ rhs < 2 ^ (2 * W) then
        { ops := [.fromDword 2 ((va * 2 ^ rhs) % 2 ^ W) ((va * 2 ^ rhs) / 2 ^ W)] }
      -- `Buffer::allocate` beyond MAX_CAPACITY: the documented allocation panic before any allocator call
      else if sw + (if va = 1 then 1 else 3) > mx then { ops := [], panic := some .allocTooMuch }
      else if va = 1 then
        { ops := [.allocate 2 (sw + 1), .pushZeros 2 sw, .push 2 (2 ^ sb), .fromBuffer 2] }
      else
        let t := va * 2 ^ sb
        { ops := [.allocate 2 (sw + 3), .pushZeros 2 sw] ++ (toWords W 3 t).map (AOp.push 2) ++ [.fromBuffer 2] }
    else if sw + la + 1 > mx then
      -- `shl_large_ref`: `Buffer::allocate(shift_words + len + 1)` beyond MAX_CAPACITY panics; a by-value operand is
      -- dropped by unwinding
      { ops := [], panic := some .allocTooMuch, cleanup := if byVal then [.drop 0] else [] }
    else
      let t := va * 2 ^ sb
      let carry := t / 2 ^ (W * la)
      let viaRef : List AOp :=
        [.allocate 2 (sw + la + 1), .pushZeros 2 sw, .pushTailFrom 2 0 0,
         .overwrite 2 (List.replicate sw 0 ++ toWords W la t), .push 2 carry, .fromBuffer 2]
      if byVal then
        -- `shl_large`: in place when `capacity >= len + shift_words + 1`
        if dcap mx la < la + sw + 1 then { ops := viaRef, cleanup := [.drop 0] }
        else { ops := [.overwrite 0 (toWords W la t), .push 0 carry, .pushZerosFront 0 sw, .fromBuffer 0], res := 0 }
      else { ops := viaRef }
  { fr with ops := pre ++ fr.ops }

/-- `UBig >> n` -/
def fragShr (byVal : Bool) (a : List Nat) (rhs : Nat) : Frag :=
  let la := a.length; let va := wval W a
  let pre : List AOp := if byVal then [.intoTyped 0] else []
  let sw := rhs / W
  let r := shrNat va rhs
  let fr : Frag :=
    if isSmall a then
      if rhs < 2 * W then { ops := [.fromDword 2 (r % 2 ^ W) (r / 2 ^ W)] } else { ops := [.fromWord 2 0] }
    else if byVal then
      if sw ≥ la then { ops := [.fromWord 2 0], cleanup := [.drop 0] }
      else { ops := [.eraseFront 0 sw, .overwrite 0 (toWords W (la - sw) r), .fromBuffer 0], res := 0 }
    else
      let l' := la - min sw la
      if l' = 0 then { ops := [.fromWord 2 0] }
      else if l' = 1 then { ops := [.fromWord 2 r] }
      else if l' = 2 then { ops := [.fromDword 2 (r % 2 ^ W) (r / 2 ^ W)] }
      else { ops := [.allocate 2 l', .pushTailFrom 2 0 sw, .overwrite 2 (toWords W l' r), .fromBuffer 2] }
  { fr with ops := pre ++ fr.ops }

end
end Dashu.Model.Mem
