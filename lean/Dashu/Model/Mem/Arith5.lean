import Dashu.Model.Mem.Arith4
/-
  C17, round 6 — storage skeletons of `IBig`'s Euclidean division family (`integer/src/div_ops.rs`
  `impl_ibig_div_euclid`, `impl_ibig_rem_euclid`, `impl_ibig_divrem_euclid` under `forward_ibig_binop_to_repr`):
  the `UBig` `div_rem` / `%` skeleton on the magnitudes, then — for a negative dividend with a non-zero remainder — a
  second `add_one` on the quotient (`q.into_typed().add_one()`, add_ops.rs `TypedRepr::add_one`) and / or the by-value
  subtraction `mag1 - r.into_typed()` that turns the truncated remainder into the Euclidean one.
  Registers: 0 / 1 = operands, 2 / 3 = results and copies of the division skeleton, 5 = fresh result of the subtraction,
  6 = fresh result of `add_one` on an inline quotient.  Core Lean only.
-/
namespace Dashu.Model.Mem

section
variable (W : Nat)

/-- `q.into_typed().add_one()` on the non-negative `Repr` of value `v` in register `r` (add_ops.rs `TypedRepr::add_one`:
    `Small(d) => add_dword(d, 1)` — a fresh value in register `fresh`; `Large(buffer) => add_large_one(buffer)` — in the
    value's own buffer, `push_resizing(1)` on carry, `from_buffer`); returns the ops and the result register -/
def fAddOne (r v fresh : Nat) : List AOp × Nat :=
  let l := wordLen W v
  if l ≤ 2 then
    let fr := (fAddDword W v 1).rename (fun k => if k = 2 then fresh else k + 8)
    ([.intoTyped r] ++ fr.ops, fr.res)
  else
    ([.intoTyped r, .overwrite r (toWords W l (v + 1))] ++ (if v + 1 ≥ 2 ^ (W * l) then [.pushResizing r 1] else []) ++
     [.fromBuffer r], r)

/-- `mag1 - r.into_typed()` (div_ops.rs `impl_ibig_rem_euclid` / `impl_ibig_divrem_euclid`, negative dividend, non-zero
    remainder): the `UBig - UBig` skeleton with `mag1` (register 1; by value iff `bVal`) as its LEFT operand and the
    truncated remainder `rm` (a `Repr` in register `rreg`, taken by value) as its right operand; fresh results in
    register 5.  `0 < rm < |b|`, so the underflow panic of the subtraction is dead here.  Returns ops (cleanup of the
    subtraction included) and the result register. -/
def fEuclidFix (bVal : Bool) (b : List Nat) (rm rreg : Nat) : List AOp × Nat :=
  let sub := ((fragSub W (if bVal then .vv else .rv) b (trimmed W rm)).noIntoTyped).rename
    (fun k => if k = 0 then 1 else if k = 1 then rreg else if k = 2 then 5 else k + 8)
  ([.intoTyped rreg] ++ sub.ops ++ sub.cleanup, sub.res)

/-- `IBig::div_euclid(IBig)` in the four forms (`impl_ibig_div_euclid`): `let (q, r) = mag0.div_rem(mag1)`, `add_one` on
    the quotient iff the dividend is negative and `r ≠ 0`, `with_sign(sign0 * sign1)`; the remainder `r` is dropped at the
    end of the block -/
def fragSignedDivEuclid (f : Form) (na : Bool) (a : List Nat) (nb : Bool) (b : List Nat) : Frag :=
  let aVal := f == .vr || f == .vv
  let bVal := f == .rv || f == .vv
  let va := wval W a; let vb := wval W b
  let pre : List AOp := (if aVal then [.intoSignTyped 0] else []) ++ (if bVal then [.intoSignTyped 1] else [])
  let body : Frag := (fragDivRemBoth W f a b).noIntoTyped
  match body.panic with
  | some _ => { body with ops := pre ++ body.ops }
  | none =>
    let r2 := body.res2.getD 3
    let adj : List AOp × Nat := if na && decide (va % vb ≠ 0) then fAddOne W body.res (va / vb) 6 else ([], body.res)
    { ops := pre ++ body.ops ++ body.cleanup ++ adj.1 ++ [.withSign adj.2 (na != nb)], cleanup := [.drop r2], res := adj.2 }

/-- `IBig::rem_euclid(IBig) -> UBig` in the four forms (`impl_ibig_rem_euclid`): a non-negative dividend — `mag0 % mag1`;
    a negative one — `mag0 % mag1.as_ref()` (the divisor is only borrowed, whatever the form), then `r` itself when it is
    zero (a by-value divisor is dropped at the end of the block) or `mag1 - r.into_typed()` -/
def fragSignedRemEuclid (f : Form) (na : Bool) (a : List Nat) (b : List Nat) : Frag :=
  let aVal := f == .vr || f == .vv
  let bVal := f == .rv || f == .vv
  let va := wval W a; let vb := wval W b
  let pre : List AOp := (if aVal then [.intoSignTyped 0] else []) ++ (if bVal then [.intoSignTyped 1] else [])
  if !na then
    let body := (fragDivRem W true f a b).noIntoTyped
    { body with ops := pre ++ body.ops }
  else
    let body := (fragDivRem W true (if aVal then .vr else .rr) a b).noIntoTyped
    let dropB : List AOp := if bVal then [.drop 1] else []
    match body.panic with
    | some _ => { body with ops := pre ++ body.ops, cleanup := body.cleanup ++ dropB }
    | none =>
      let rm := va % vb
      if rm = 0 then { ops := pre ++ body.ops ++ body.cleanup, cleanup := dropB, res := body.res }
      else
        let fix := fEuclidFix W bVal b rm body.res
        { ops := pre ++ body.ops ++ body.cleanup ++ fix.1, res := fix.2 }

/-- `IBig::div_rem_euclid(IBig) -> (IBig, UBig)` in the four forms (`impl_ibig_divrem_euclid`): a non-negative dividend —
    `mag0.div_rem(mag1)`, `q.with_sign(sign1)`; a negative one — `mag0.div_rem(mag1.as_ref())`, and for `r ≠ 0` first
    `q = q.into_typed().add_one()`, then `r = mag1 - r.into_typed()`; `q.with_sign(-sign1)` -/
def fragSignedDivRemEuclid (f : Form) (na : Bool) (a : List Nat) (nb : Bool) (b : List Nat) : Frag :=
  let aVal := f == .vr || f == .vv
  let bVal := f == .rv || f == .vv
  let va := wval W a; let vb := wval W b
  let pre : List AOp := (if aVal then [.intoSignTyped 0] else []) ++ (if bVal then [.intoSignTyped 1] else [])
  if !na then
    let body := (fragDivRemBoth W f a b).noIntoTyped
    match body.panic with
    | some _ => { body with ops := pre ++ body.ops }
    | none => { body with ops := pre ++ body.ops ++ [.withSign body.res nb] }
  else
    let body := (fragDivRemBoth W (if aVal then .vr else .rr) a b).noIntoTyped
    let dropB : List AOp := if bVal then [.drop 1] else []
    match body.panic with
    | some _ => { body with ops := pre ++ body.ops, cleanup := body.cleanup ++ dropB }
    | none =>
      let r2 := body.res2.getD 3
      let rm := va % vb
      if rm = 0 then
        { ops := pre ++ body.ops ++ body.cleanup ++ [.withSign body.res (!nb)], cleanup := dropB, res := body.res, res2 := some r2 }
      else
        let adj := fAddOne W body.res (va / vb) 6
        let fix := fEuclidFix W bVal b rm r2
        { ops := pre ++ body.ops ++ body.cleanup ++ adj.1 ++ fix.1 ++ [.withSign adj.2 (!nb)], res := adj.2, res2 := some fix.2 }

end
end Dashu.Model.Mem
