import Dashu.Model.Mem.Arith2
/-
  C17 (round 4) — storage skeletons, third batch:
    * the in-place bit methods of `UBig` (bits.rs `TypedRepr::set_bit / clear_bit / clear_high_bits / split_bits /
      next_power_of_two`, reached through `self.0 = mem::take(self).into_repr().f(n)`): the value's own buffer is
      reused — grown by `ensure_capacity + push_zeros + push` (set_bit beyond the top), cut by `truncate`
      (clear_high_bits), extended by `push_resizing(1)` (next_power_of_two carry);
    * the sign glue of `IBig` over the `UBig` skeletons: `/`, `%`, `div_rem` (div_ops.rs `impl_ibig_div/rem/divrem`),
      `<<`, `>>` (shift_ops.rs; a negative `>>` is `-IBig(mag >> n) - IBig::from(low bits ≠ 0)`, i.e. a second,
      by-value subtraction on the shifted result), `IBig::pow` (pow.rs).
  Register 0 = the operand (left operand), 1 = right operand.  Core Lean only.
-/
namespace Dashu.Model.Mem

section
variable (W mx : Nat)

/-- the smallest power of two `≥ v` -/
def nextPow2 (v : Nat) : Nat := if v ≤ 1 then 1 else 2 ^ (Nat.log2 (v - 1) + 1)

inductive BitFn where
  | setBit | clearBit | clearHighBits | splitBits | nextPowerOfTwo
  deriving DecidableEq, Repr

/-- bits.rs `clear_high_bits_large(buffer in register r, n)` -/
def fClearHighLarge (r la va n : Nat) : List AOp :=
  let nw := (n + W - 1) / W                                  -- `ceil_div(n, WORD_BITS)`
  if nw > la then [.fromBuffer r]
  else [.truncate r nw] ++ (if n % W ≠ 0 then [.overwrite r (toWords W nw (va % 2 ^ n))] else []) ++ [.fromBuffer r]

/-- one by-value bit method on the value in register 0 -/
def fragBitFn (fn : BitFn) (a : List Nat) (n : Nat) : Frag :=
  let la := a.length; let va := wval W a
  let idx := n / W
  let bit := 2 ^ (n % W)
  let fr : Frag :=
    match fn with
    | .setBit =>
      if isSmall a then
        if n < 2 * W then { ops := [dwOp W 2 (va ||| 2 ^ n)] }
        else if idx + 1 > mx then { ops := [], panic := some .allocTooMuch }     -- `Buffer::allocate(idx + 1)`
        else
          -- `with_bit_dword_spilled`
          { ops := [.allocate 2 (idx + 1), .push 2 (va % 2 ^ W), .push 2 (va / 2 ^ W), .pushZeros 2 (idx - 2), .push 2 bit,
                    .fromBuffer 2] }
      else
        -- `with_bit_large`
        if idx < la then { ops := [.overwrite 0 (toWords W la (va ||| 2 ^ n)), .fromBuffer 0], res := 0 }
        else if idx + 1 > mx then { ops := [], panic := some .allocTooMuch, cleanup := [.drop 0] }   -- `ensure_capacity(idx + 1)`
        else { ops := [.ensureCapacity 0 (idx + 1), .pushZeros 0 (idx - la), .push 0 bit, .fromBuffer 0], res := 0 }
    | .clearBit =>
      let cleared := if n ≤ Nat.log2 va ∧ va.testBit n then va - 2 ^ n else va
      if isSmall a then { ops := [dwOp W 2 cleared] }
      else { ops := (if idx < la then [.overwrite 0 (toWords W la cleared)] else []) ++ [.fromBuffer 0], res := 0 }
    | .clearHighBits =>
      if isSmall a then { ops := [dwOp W 2 (if n < 2 * W then va % 2 ^ n else va)] }
      else { ops := fClearHighLarge W 0 la va n, res := 0 }
    | .splitBits =>
      if isSmall a then
        { ops := [dwOp W 2 (if n < 2 * W then va % 2 ^ n else va), dwOp W 3 (if n < 2 * W then va / 2 ^ n else 0)],
          res := 2, res2 := some 3 }
      else if n = 0 then { ops := [.fromWord 2 0, .fromBuffer 0], res := 2, res2 := some 0 }
      else
        -- `hi = shr_large_ref(&buffer, n)` (a fresh value), then `lo = clear_high_bits_large(buffer, n)`
        let hi := (fragShr W false a n).rename (fun k => if k = 2 then 3 else k)
        { ops := hi.ops ++ fClearHighLarge W 0 la va n, res := 0, res2 := some 3 }
    | .nextPowerOfTwo =>
      let p := nextPow2 va
      if isSmall a then
        if p < 2 ^ (2 * W) then { ops := [dwOp W 2 p] }
        else { ops := [.allocate 2 3, .pushZeros 2 2, .push 2 1, .fromBuffer 2] }
      else
        -- `next_power_of_two_large`
        if p < 2 ^ (W * la) then { ops := [.overwrite 0 (toWords W la p), .fromBuffer 0], res := 0 }
        else { ops := [.overwrite 0 (List.replicate la 0), .pushResizing 0 1, .fromBuffer 0], res := 0 }
  { fr with ops := [.intoTyped 0] ++ fr.ops }

-- ================================================================== IBig sign glue

/-- `with_sign` on the results of a skeleton that did not panic -/
def signResults (fr : Frag) (s1 s2 : Bool) : List AOp :=
  match fr.panic with
  | some _ => []
  | none => [.withSign fr.res s1] ++ (match fr.res2 with | some r2 => [.withSign r2 s2] | none => [])

/-- `IBig / IBig`, `IBig % IBig`, `IBig::div_rem(IBig)` (div_ops.rs `impl_ibig_div`, `impl_ibig_rem`, `impl_ibig_divrem` under
    `forward_ibig_binop_to_repr`): `into_sign_typed` / `as_sign_typed` on the operands, the `UBig` skeleton on the magnitudes,
    `with_sign(sign0 * sign1)` on the quotient and `with_sign(sign0)` on the remainder.  `kind` = 0 div, 1 rem, 2 div_rem. -/
def fragSignedDiv (kind : Nat) (f : Form) (na : Bool) (a : List Nat) (nb : Bool) (b : List Nat) : Frag :=
  let aVal := f == .vr || f == .vv
  let bVal := f == .rv || f == .vv
  let pre : List AOp := (if aVal then [.intoSignTyped 0] else []) ++ (if bVal then [.intoSignTyped 1] else [])
  let body : Frag :=
    (if kind = 0 then fragDivRem W false f a b else if kind = 1 then fragDivRem W true f a b
     else fragDivRemBoth W f a b).noIntoTyped
  let signs : List AOp :=
    if kind = 0 then signResults body (na != nb) false
    else if kind = 1 then signResults body na false
    else signResults body (na != nb) na
  { body with ops := pre ++ body.ops ++ signs }

/-- `IBig << n` (by value / by reference): the `UBig` skeleton on the magnitude, `with_sign(sign)` -/
def fragSignedShl (byVal : Bool) (na : Bool) (a : List Nat) (rhs : Nat) : Frag :=
  let body := (fragShl W mx byVal a rhs).noIntoTyped
  { body with ops := (if byVal then [.intoSignTyped 0] else []) ++ body.ops ++
      (if body.panic.isSome then [] else [.withSign body.res na]) }

/-- `IBig >> n`: positive — the `UBig` skeleton; negative — `-IBig(mag >> n) - IBig::from(b)` with
    `b = mag.are_low_bits_nonzero(n)`: the shifted magnitude is negated in place, `IBig::from(bool)` is an inline value
    (register 5), and the by-value `IBig - IBig` (sign glue of `impl_ibig_sub`: here always `|q| + b` or `0 - b`) runs
    with the shifted value as its LEFT by-value operand and a fresh result register 6 -/
def fragSignedShr (sqrSimple : Nat) (byVal : Bool) (na : Bool) (a : List Nat) (rhs : Nat) : Frag :=
  let body := (fragShr W byVal a rhs).noIntoTyped
  let pre : List AOp := if byVal then [.intoSignTyped 0] else []
  if !na then { body with ops := pre ++ body.ops }
  else
    let va := wval W a
    let q := shrNat va rhs
    let lowNonzero := lowBitsNonzero va rhs
    let bv := if lowNonzero then 1 else 0
    let qws := toWords W (wordLen W q) q
    let bws := toWords W (wordLen W bv) bv
    -- `(-q) - b` by value: left operand in the register holding q, right operand in register 5, fresh results in 6
    let sub := (fragSigned W sqrSimple 1 .vv (decide (q ≠ 0)) qws false bws).rename
      (fun k => if k = 0 then body.res else if k = 1 then 5 else if k = 2 then 6 else k + 8)
    { ops := pre ++ body.ops ++ body.cleanup ++ [.withSign body.res true, .fromWord 5 bv] ++ sub.ops ++ sub.cleanup,
      res := sub.res }

/-- `IBig::pow(&self, exp)`: `as_sign_repr`, the `UBig::pow` skeleton on the magnitude, `with_sign` (negative iff the
    base is negative and `exp` is odd) -/
def fragSignedPow (sqrSimple : Nat) (na : Bool) (a : List Nat) (exp : Nat) : Frag :=
  let body := fragPow W mx sqrSimple a exp
  { body with ops := body.ops ++ signResults body (na && exp % 2 = 1) false }

-- ================================================================== IBig & | ^ (two's-complement semantics over magnitudes)

/-- bits.rs `AndNot` (`self & !rhs`, crate-internal) on typed magnitudes, four forms: `and_not_large_dword` through
    `lowest_dword_mut`, `and_not_large` zipping in the lhs buffer (a borrowed lhs is copied first), a by-value rhs is only read
    (`buffer1.lowest_dword()` / `&buffer1`) and dropped -/
def fragAndNot (f : Form) (a b : List Nat) : Frag :=
  let la := a.length; let va := wval W a; let vb := wval W b
  let aVal := f == .vr || f == .vv
  let bVal := f == .rv || f == .vv
  let v := va - (va &&& vb)
  let fr : Frag :=
    if isSmall a && isSmall b then { ops := [dwOp W 2 v] }
    else if isSmall a then
      { ops := (if bVal then [.lowestDword 1] else []) ++ [dwOp W 2 v], cleanup := if bVal then [.drop 1] else [] }
    else
      let r := if aVal then 0 else 2
      let cp : List AOp := if aVal then [] else [.bufFromView 2 0]
      if isSmall b then { ops := cp ++ [.lowestDwordMut r (v % 2 ^ W) (v / 2 ^ W % 2 ^ W), .fromBuffer r], res := r }
      else { ops := cp ++ [.overwrite r (toWords W la v), .fromBuffer r], cleanup := if bVal then [.drop 1] else [], res := r }
  { fr with ops := formPre f ++ fr.ops }

/-- an operand of the sign glue: the register, its magnitude words, and whether it is held by value (`TypedRepr`) or borrowed -/
structure Opd where
  reg : Nat
  ws : List Nat
  byVal : Bool

def trimmed (v : Nat) : List Nat := toWords W (wordLen W v) v

def formOf (x y : Opd) : Form :=
  match x.byVal, y.byVal with
  | true, true => .vv | true, false => .vr | false, true => .rv | false, false => .rr

/-- `mag.sub_one().into_typed()` (add_ops.rs `TypedRepr(Ref)::sub_one`, `sub_large_one`): in place for a by-value large
    magnitude, in a copy (register `fresh`) for a borrowed one, a new inline value for a small one; magnitude ≥ 1 -/
def fSubOne (o : Opd) (fresh : Nat) : List AOp × Opd :=
  let v := wval W o.ws - 1
  let l := o.ws.length
  if isSmall o.ws then ([dwOp W fresh v, .intoTyped fresh], ⟨fresh, trimmed W v, true⟩)
  else if o.byVal then ([.overwrite o.reg (toWords W l v), .fromBuffer o.reg, .intoTyped o.reg], ⟨o.reg, trimmed W v, true⟩)
  else ([.bufFromView fresh o.reg, .overwrite fresh (toWords W l v), .fromBuffer fresh, .intoTyped fresh], ⟨fresh, trimmed W v, true⟩)

/-- a magnitude operation on two typed operands: the `UBig` skeleton with the operand registers substituted
    (`kind`: 0 `&`, 1 `|`, 2 `^`, 3 `and_not`); returns the ops (cleanup included), the result register and its value -/
def fBin (kind : Nat) (x y : Opd) (fresh : Nat) : List AOp × Nat × Nat :=
  let f := formOf x y
  let body : Frag :=
    (if kind = 0 then fragBit W .and f x.ws y.ws else if kind = 1 then fragBit W .or f x.ws y.ws
     else if kind = 2 then fragBit W .xor f x.ws y.ws else fragAndNot W f x.ws y.ws).noIntoTyped
  let ren := body.rename (fun k => if k = 0 then x.reg else if k = 1 then y.reg else if k = 2 then fresh else k + 8)
  let vx := wval W x.ws; let vy := wval W y.ws
  let v := if kind = 0 then vx &&& vy else if kind = 1 then vx ||| vy else if kind = 2 then vx ^^^ vy else vx - (vx &&& vy)
  (ren.ops ++ ren.cleanup, ren.res, v)

/-- `!IBig(repr)` for a non-negative `repr` of value `v` in register `r` (bits.rs `impl Not for IBig`): `into_sign_repr`,
    `mag.add_one()` (add_ops.rs: `add_dword(d, 1)` / `add_large_one` in place with `push_resizing(1)` on carry),
    `with_sign(Negative)`; returns the ops and the result register -/
def fNot (r v fresh : Nat) : List AOp × Nat :=
  let l := wordLen W v
  if l ≤ 2 then
    let fr := (fAddDword W v 1).rename (fun k => if k = 2 then fresh else k + 8)
    ([.intoSignTyped r] ++ fr.ops ++ [.withSign fr.res true], fr.res)
  else
    ([.intoSignTyped r, .overwrite r (toWords W l (v + 1))] ++ (if v + 1 ≥ 2 ^ (W * l) then [.pushResizing r 1] else []) ++
     [.fromBuffer r, .withSign r true], r)

/-- `IBig & IBig`, `IBig | IBig`, `IBig ^ IBig` (bits.rs `impl_ibig_bitand / bitor / bitxor` under
    `forward_ibig_binop_to_repr`): by sign pair a plain magnitude operation, or `sub_one` on the negative magnitude(s)
    followed by `and_not` / `&` / `|` / `^` and possibly a final `!`.  `op`: 0 `&`, 1 `|`, 2 `^`. -/
def fragSignedBit (op : Nat) (f : Form) (na : Bool) (a : List Nat) (nb : Bool) (b : List Nat) : Frag :=
  let aVal := f == .vr || f == .vv
  let bVal := f == .rv || f == .vv
  let pre : List AOp := (if aVal then [.intoSignTyped 0] else []) ++ (if bVal then [.intoSignTyped 1] else [])
  let x : Opd := ⟨0, a, aVal⟩
  let y : Opd := ⟨1, b, bVal⟩
  let fin (ops : List AOp) (r : Nat) : Frag := { ops := pre ++ ops, res := r }
  let neg (ops : List AOp) (r v : Nat) : Frag :=
    let (nops, nr) := fNot W r v 7
    { ops := pre ++ ops ++ nops, res := nr }
  match na, nb with
  | false, false =>
    let (ops, r, _) := fBin W op x y 5
    fin ops r
  | false, true =>
    let (o1, t) := fSubOne W y 4
    if op = 0 then let (ops, r, _) := fBin W 3 x t 5; fin (o1 ++ ops) r
    else if op = 1 then let (ops, r, v) := fBin W 3 t x 5; neg (o1 ++ ops) r v
    else let (ops, r, v) := fBin W 2 x t 5; neg (o1 ++ ops) r v
  | true, false =>
    let (o0, t) := fSubOne W x 3
    if op = 0 then let (ops, r, _) := fBin W 3 y t 5; fin (o0 ++ ops) r
    else if op = 1 then let (ops, r, v) := fBin W 3 t y 5; neg (o0 ++ ops) r v
    else let (ops, r, v) := fBin W 2 t y 5; neg (o0 ++ ops) r v
  | true, true =>
    let (o0, t0) := fSubOne W x 3
    let (o1, t1) := fSubOne W y 4
    if op = 0 then let (ops, r, v) := fBin W 1 t0 t1 5; neg (o0 ++ o1 ++ ops) r v
    else if op = 1 then let (ops, r, v) := fBin W 0 t0 t1 5; neg (o0 ++ o1 ++ ops) r v
    else let (ops, r, _) := fBin W 2 t0 t1 5; fin (o0 ++ o1 ++ ops) r

-- ================================================================== sqrt_rem

/-- integer square root (Newton from above; `fuel` = bit length + 2 is more than the number of decreasing steps) -/
def isqrt (n : Nat) : Nat :=
  let rec go (fuel x : Nat) : Nat :=
    match fuel with
    | 0 => x
    | fuel + 1 => let y := (x + n / x) / 2; if y < x then go fuel y else x
  if n ≤ 1 then n else go (Nat.log2 n + 2) (2 ^ (Nat.log2 n / 2 + 1))

/-- `root::memory_requirement_sqrt_rem(n)` in words: `zero_layout()` for `n = 2`, else
    `max_layout(sqr::memory_requirement_exact(n), div::memory_requirement_exact(n, n - n/2))` -/
def sqrtScratchWords (sqrSimple n : Nat) : Nat :=
  if n = 2 then 0 else max (sqrScratchWords sqrSimple n) (divScratchWords n (n - n / 2))

/-- `UBig::sqrt_rem(&self)` (root_ops.rs `TypedReprRef::sqrt_rem`, `sqrt_rem_large(words, false)`): the operand is copied,
    shifted to an even number of words with a normalised top word (`shl_large_ref(words, shift).into_buffer()`, register
    3), the root is produced in a fresh `n`-word buffer (register 2), the remainder is left in the shifted copy, which is
    truncated to `n` or `n + 1` words; `(from_buffer(out), from_buffer(buffer))`, then the scratch block goes.
    NB plain `sqrt()` (`root_only = true`) is NOT mirrored: it also calls `from_buffer` on the 2n-word work buffer, whose
    high half holds whatever the Karatsuba square root left there, so its realloc/dealloc event depends on kernel state. -/
def fragSqrtRem (sqrSimple : Nat) (a : List Nat) : Frag :=
  let la := a.length; let va := wval W a
  let s := isqrt va
  let r := va - s * s
  if isSmall a then { ops := [.fromWord 2 s, dwOp W 3 r], res := 2, res2 := some 3 }
  else
    let lz := W * la - (Nat.log2 va + 1)                       -- leading zeros of the top word
    let shift := W * (la % 2) + (lz - lz % 2)
    let n := (la + 1) / 2
    let sw := shift / W; let sb := shift % W
    let t := va * 2 ^ sb
    let scratch := sqrtScratchWords sqrSimple n
    let keep := if shift ≠ 0 ∧ shift ≥ W then n else n + 1
    { ops := [.allocate 3 (sw + la + 1), .pushZeros 3 sw, .pushTailFrom 3 0 0,
              .overwrite 3 (List.replicate sw 0 ++ toWords W la t), .push 3 (t / 2 ^ (W * la)), .fromBuffer 3, .intoBuffer 3,
              .allocate 2 n, .pushZeros 2 n] ++ (if scratch > 0 then [.allocScratch 4 scratch] else []) ++
             [.overwrite 2 (toWords W n s), .truncate 3 keep, .overwrite 3 (toWords W keep r), .fromBuffer 2, .fromBuffer 3] ++
             (if scratch > 0 then [.drop 4] else []),
      res := 2, res2 := some 3 }

end
end Dashu.Model.Mem
