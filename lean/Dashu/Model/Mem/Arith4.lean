import Dashu.Model.Mem.Arith3
import Dashu.Model.NT.Lehmer
import Dashu.Model.NT.Zimmermann
import Dashu.Model.NT.PrimRoot
/-
  C17 (round 5) — storage skeletons that need the STATE the number-theory kernels leave in the operand buffers, taken from
  property C12's mirrored kernels (`Model/NT/{Zimmermann,Lehmer}.lean`):
    * `UBig::sqrt()` (root_ops.rs `sqrt_rem_large(words, true).0`): `Repr::from_buffer` is also called on the 2n-word work
      buffer, whose low half holds the low words of the kernel's remainder and whose HIGH half holds what `root::sqrt_rem`
      left there at its top level (`a_hi = q²` with the `q_top` flag, or the untouched input words when n = 2) — so whether
      that buffer is reallocated (shrink), freed on the spot (≤ 2 words left) or freed by the drop of `.1` depends on kernel
      state.  `sqrtLeftover` computes it from C12's `sqrtRemRec` / `kDiv`.
    * `Gcd::gcd` of `UBig` / `IBig` in all ownership forms (gcd_ops.rs `gcd_large`): both operands are copied, the Lehmer loop
      runs in the copies and reports `(len, swapped)` — WHICH copy holds the result depends on the parity of the swaps of
      the loop.  `lehmerGcdLoopSw` is C12's `lehmerGcdLoop` with the `swapped` flag tracked as lehmer.rs does; its value
      component is proved equal to C12's loop (`Proofs/Mem/Arith4.lean`).
    * `ExtendedGcd::gcd_ext` of `UBig` in all ownership forms (`gcd_ext_dword`, `gcd_ext_large_dword`, `gcd_ext_large`): the
      gcd is left in the (copy of the) smaller operand, `|b|` in the larger one, `|a|` is divided out of a scratch slice into
      a fresh buffer; the scratch block is `add_layout(clone, max_layout(gcd_ext, post))`.
  Registers: 0 / 1 = operands, 2.. = buffers made by the operation.  Core Lean only.
-/
namespace Dashu.Model.Mem
open Dashu.Model

section
variable (W mx : Nat)

-- ================================================================== sqrt (root_only)

/-- value of `buffer[n..2n]` after `root::sqrt_rem(out, buffer, memory)` returned (`buffer` = `a`, 2n words, normalised):
    n = 2 (`sqrt_rem_42`) leaves `a[2..4]` untouched; otherwise the top level of the recursion leaves
    `a_hi = q²` (`a_hi.fill(0); if !q_top { sqr(..) }`) plus the `q_top` flag at word `2·split` when `2·split < n`.
    The inner call is C12's `sqrtRemRec` with the fuel `sqrtRemKernel` gives it. -/
def sqrtLeftover (prim : Nat → Nat × Nat) (n a : Nat) : Nat :=
  if n ≤ 2 then a / 2 ^ (W * 2)
  else
    let split := n / 2
    let h := n - split
    let B := 2 ^ (W * split)
    let (s1, r1, r1top) := NT.sqrtRemRec W prim (n - 1) h (a / (B * B))
    let (qlo, qtop, _, _) := NT.kDiv B (2 ^ (W * split - 1)) (2 ^ (W * h)) s1 r1 r1top (a / B % B)
    let sq := if qtop then 0 else qlo * qlo
    if 2 * split < n then sq + (if qtop then B * B else 0) else sq

/-- `UBig::sqrt(&self)` (root_ops.rs `TypedReprRef::sqrt`, `sqrt_rem_large(words, true).0`): as `sqrt_rem`, but the work
    buffer is neither fixed up nor truncated: `(Repr::from_buffer(out), Repr::from_buffer(buffer))` is built from the raw
    kernel state, the scratch block goes at the end of `sqrt_rem_large`, then `.0` drops the second `Repr`. -/
def fragSqrt (sqrSimple : Nat) (a : List Nat) : Frag :=
  let la := a.length; let va := wval W a
  if isSmall a then { ops := [.fromWord 2 (NT.sqrtRemReprM W (NT.sqrtRemWordM W) (NT.sqrtRemDwordM W) true va).1] }
  else
    let lz := W * la - (Nat.log2 va + 1)
    let shift := W * (la % 2) + (lz - lz % 2)
    let n := (la + 1) / 2
    let sw := shift / W; let sb := shift % W
    let t := va * 2 ^ sb
    let full := va * 2 ^ shift                                 -- the 2n-word value the kernel sees
    let (s', rlo, _) := NT.sqrtRemRec W (NT.sqrtRemDwordM W) n n full
    let left := sqrtLeftover W (NT.sqrtRemDwordM W) n full
    let scratch := sqrtScratchWords sqrSimple n
    { ops := [.allocate 3 (sw + la + 1), .pushZeros 3 sw, .pushTailFrom 3 0 0,
              .overwrite 3 (List.replicate sw 0 ++ toWords W la t), .push 3 (t / 2 ^ (W * la)), .fromBuffer 3, .intoBuffer 3,
              .allocate 2 n, .pushZeros 2 n] ++ (if scratch > 0 then [.allocScratch 4 scratch] else []) ++
             [.overwrite 3 (toWords W n rlo ++ toWords W n left),            -- `root::sqrt_rem(&mut out, &mut buffer, ..)`
              .overwrite 2 (toWords W n (s' / 2 ^ (shift / 2))),             -- … and `shr_in_place(&mut out, shift / 2)`
              .fromBuffer 2, .fromBuffer 3] ++
             (if scratch > 0 then [.drop 4] else []) ++ [.drop 3],
      res := 2 }

-- ================================================================== gcd

/-- main loop of lehmer.rs `gcd_in_place` on values with the `swapped` flag: C12's `lehmerGcdLoop` (same cofactors, same
    case split), plus `swapped = !swapped` on every Euclidean step and on every Lehmer step that ends with `x ≤ y` -/
def lehmerGcdLoopSw : Nat → Nat → Nat → Bool → Except PanicKind (Nat × Bool)
  | 0, _, _, _ => .error (.undocumented "model: lehmer loop out of fuel")
  | fuel + 1, x, y, sw =>
    if NT.wordLen W y > 2 then
      let (a, b, c, d) := NT.lehmerCofactors W x y
      if b = 0 then
        lehmerGcdLoopSw fuel y (x % y) (!sw)
      else
        let x' : Int := (a : Int) * x - (b : Int) * y
        let y' : Int := (d : Int) * y - (c : Int) * x
        if x' < 0 ∨ y' < 0 then .error (.undocumented "lehmer.rs lehmer_step: negative result (debug_assert on the carry)")
        else if x'.toNat ≤ y'.toNat then lehmerGcdLoopSw fuel y'.toNat x'.toNat (!sw)
        else lehmerGcdLoopSw fuel x'.toNat y'.toNat sw
    else if y = 0 then .ok (x, sw)
    else match NT.gcdPrim (x % y) y with
      | .ok g => .ok (g, sw)
      | .error k => .error k

/-- `gcd::gcd_in_place(lhs, rhs)` for `lhs > rhs`: `(gcd, swapped)`; the result is in `lhs` (`false`) or `rhs` (`true`) -/
def lehmerGcdSw (lhs rhs : Nat) : Except PanicKind (Nat × Bool) :=
  lehmerGcdLoopSw W (lhs + rhs + 1) lhs rhs false

/-- `gcd::memory_requirement_exact(lhs_len, rhs_len)` = `mul::memory_requirement_up_to(rhs_len, rhs_len / 2)` in words -/
def gcdScratchWords (lb : Nat) : Nat := mulScratchWords (lb / 2)

/-- gcd_ops.rs `gcd_large(lhs = copy in register 2, rhs = copy in register 3)` -/
def fGcdLarge (va vb : Nat) (lb' : Nat) : Frag :=
  if va = vb then { ops := [.fromBuffer 2, .drop 3] }
  else
    -- `mem::swap(&mut lhs, &mut rhs)` when lhs < rhs
    let lr := if va > vb then 2 else 3
    let rr := if va > vb then 3 else 2
    let big := max va vb; let small := min va vb
    let scratch := gcdScratchWords lb'
    match lehmerGcdSw W big small with
    | .error k => { ops := [], panic := some k }                 -- not reached (`Proofs/NT/LehmerComplete`)
    | .ok (g, swapped) =>
      let r := if swapped then rr else lr
      let o := if swapped then lr else rr
      let len := wordLen W g
      { ops := (if scratch > 0 then [.allocScratch 4 scratch] else []) ++
               [.truncate r len, .overwrite r (toWords W len g), .fromBuffer r] ++
               (if scratch > 0 then [.drop 4] else []) ++ [.drop o],
        res := r }

/-- `Gcd::gcd` on typed operands (gcd_ops.rs `impl Gcd<TypedReprRef> for TypedReprRef`; the by-value forms are
    `self.as_ref().gcd(rhs.as_ref())`, so a by-value operand is only read and dropped when the method returns — `rhs`
    before `self`) -/
def fragGcdTyped (aVal bVal : Bool) (a b : List Nat) : Frag :=
  let la := a.length; let lb := b.length; let va := wval W a; let vb := wval W b
  let dropVals : List AOp := (if bVal then [.drop 1] else []) ++ (if aVal then [.drop 0] else [])
  let prim (x y : Nat) : Frag :=
    match NT.gcdPrim x y with
    | .ok g => { ops := [dwOp W 2 g], cleanup := dropVals }
    | .error k => { ops := [], panic := some k, cleanup := dropVals }
  -- `gcd_large_dword(buffer = words of register r, rhs = d)`
  let largeDword (r vl d : Nat) : Frag :=
    if d = 0 then { ops := [.bufFromView 2 r, .fromBuffer 2], cleanup := dropVals }
    else if vl % d = 0 then { ops := [dwOp W 2 d], cleanup := dropVals }
    else prim (vl % d) d
  if isSmall a && isSmall b then prim va vb
  else if isSmall a then largeDword 1 vb va
  else if isSmall b then largeDword 0 va vb
  else
    let fr := fGcdLarge W va vb (min la lb)
    { fr with ops := [.bufFromView 2 0, .bufFromView 3 1] ++ fr.ops, cleanup := fr.cleanup ++ dropVals }

/-- `UBig::gcd(UBig)` in the four ownership forms (`forward_ubig_binop_to_repr!(impl Gcd, gcd)`: `into_repr()` /
    `repr()` on the operands) -/
def fragGcd (f : Form) (a b : List Nat) : Frag :=
  let aVal := f == .vr || f == .vv
  let bVal := f == .rv || f == .vv
  let fr := fragGcdTyped W aVal bVal a b
  { fr with ops := formPre f ++ fr.ops }

/-- `IBig::gcd(IBig)` (`forward_ibig_binop_to_repr!(impl Gcd, gcd, Output = UBig, impl_ibig_gcd)`: `into_sign_typed` /
    `as_sign_typed`, the signs are dropped, the result is a `UBig`) -/
def fragSignedGcd (f : Form) (a b : List Nat) : Frag :=
  let aVal := f == .vr || f == .vv
  let bVal := f == .rv || f == .vv
  let fr := fragGcdTyped W aVal bVal a b
  { fr with ops := (if aVal then [.intoSignTyped 0] else []) ++ (if bVal then [.intoSignTyped 1] else []) ++ fr.ops }

-- ================================================================== gcd_ext

/-- `Repr::from_dword(|v|).with_sign(sign of v)` into register `r` -/
def sdwOps (r : Nat) (v : Int) : List AOp := [dwOp W r v.natAbs, .withSign r (decide (v < 0))]

/-- gcd_ops.rs `gcd_ext_large_dword(buffer in register r (len words, value vl), rhs = d)`: `gcd::gcd_ext_word / _dword` divide
    and rebuild `|b|` IN the buffer; `(from_(d)word(g), from_(d)word(|a|).with_sign, from_buffer(buffer).with_sign)`.
    Values from C12's `gcdExtSmall`.  Returns the ops and the registers of `(g, a, b)`. -/
def fGcdExtLargeDword (r len vl d : Nat) : Frag :=
  if d = 0 then { ops := [.fromBuffer r, .fromWord 3 1, .fromWord 4 0], res := r, res2 := some 3, res3 := some 4 }
  else
    match NT.gcdExtSmall W vl d with
    | .error k => { ops := [], panic := some k, cleanup := [.drop r] }     -- not reached: `d ≠ 0`
    | .ok (g, acoef, bMag, bNeg) =>
      { ops := [.overwrite r (toWords W len bMag), dwOp W 2 g] ++ sdwOps W 3 acoef ++ [.fromBuffer r, .withSign r bNeg],
        res := 2, res2 := some 3, res3 := some r }

/-- the scratch block of `gcd_ext_large` in words (`lhs_len = ll ≥ rhs_len = lr`; every part is a `Word` array, so
    `add_layout` adds and `max_layout` takes the maximum): `add(clone, max(gcd_ext, post))` with
    `clone = ll + lr`, `gcd_ext = lehmer::memory_requirement_ext_up_to = (2·ll + 2) + max(div(ll, lr), mul(ll/2))`,
    `post = (ll + lr) + max(mul(lr), div(ll + lr + 1, lr))` -/
def gcdExtScratchWords (ll lr : Nat) : Nat :=
  let gcdMem := (2 * ll + 2) + max (divScratchWords ll lr) (mulScratchWords (ll / 2))
  let postMem := (ll + lr) + max (mulScratchWords lr) (divScratchWords (ll + lr + 1) lr)
  (ll + lr) + max gcdMem postMem

/-- gcd_ops.rs `gcd_ext_large(lhs = buffer in register ra, rhs = buffer in register rb)`: the gcd ends in the buffer of the
    SMALLER operand, `|b|` in the buffer of the larger one (both truncated), `|a| = (rhs·|b| ± g) / lhs` is divided out of a
    scratch slice and copied into a fresh buffer (register 2) — or is `Repr::zero()` when the residue is shorter than
    `lhs`.  Values from C12's `lehmerExtKernel`. -/
def fGcdExtLarge (ra rb la lb va vb : Nat) : Frag :=
  if va = vb then
    { ops := [.fromBuffer ra, .fromWord 3 1, .fromWord 4 0, .drop rb], res := ra, res2 := some 3, res3 := some 4 }
  else
    let swapped := decide (va < vb)
    let L := if swapped then rb else ra
    let R := if swapped then ra else rb
    let ll := if swapped then lb else la
    let lr := if swapped then la else lb
    let big := max va vb; let small := min va vb
    let (g, bMag, bNeg) := NT.lehmerExtKernel W big small
    let gl := wordLen W g
    let bl := wordLen W bMag
    let residue := if bNeg then small * bMag + g else small * bMag - g
    let aMag := residue / big
    let aOps : List AOp :=
      if lr + bl + 1 < ll then [.fromWord 2 0]
      else
        let m := lr + bl + 1 - ll
        [.allocate 2 m, .pushZeros 2 m, .overwrite 2 (toWords W m aMag)] ++
        (if aMag / 2 ^ (W * m) > 0 then [.push 2 (aMag / 2 ^ (W * m))] else []) ++ [.fromBuffer 2, .withSign 2 (!bNeg)]
    { ops := [.allocScratch 7 (gcdExtScratchWords ll lr),
              .truncate R gl, .overwrite R (toWords W gl g), .truncate L bl, .overwrite L (toWords W bl bMag)] ++ aOps ++
             [.fromBuffer R, .fromBuffer L, .withSign L bNeg, .drop 7],
      res := R, res2 := some (if swapped then L else 2), res3 := some (if swapped then 2 else L) }

/-- `UBig::gcd_ext(UBig)` in the four ownership forms (`forward_ubig_binop_to_repr!(impl ExtendedGcd, gcd_ext -> …)`, the four
    `impl ExtendedGcd<TypedRepr(Ref)> for TypedRepr(Ref)`): a by-value LARGE operand's own buffer becomes the work buffer, a
    borrowed one is copied (`words.into()`); small operands are `DoubleWord`s -/
def fragGcdExt (f : Form) (a b : List Nat) : Frag :=
  let la := a.length; let lb := b.length; let va := wval W a; let vb := wval W b
  let aVal := f == .vr || f == .vv
  let bVal := f == .rv || f == .vv
  let fr : Frag :=
    if isSmall a && isSmall b then
      match NT.xgcdPrimWide W va vb with
      | .error k => { ops := [], panic := some k }
      | .ok (g, s, t) => { ops := [dwOp W 2 g] ++ sdwOps W 3 s ++ sdwOps W 4 t, res := 2, res2 := some 3, res3 := some 4 }
    else if isSmall b then
      let r := if aVal then 0 else 5
      let fr := fGcdExtLargeDword W r la va vb
      { fr with ops := (if aVal then [] else [.bufFromView 5 0]) ++ fr.ops }
    else if isSmall a then
      let r := if bVal then 1 else 5
      let fr := fGcdExtLargeDword W r lb vb va
      -- `let (g, s, t) = gcd_ext_large_dword(..); (g, t, s)`
      { fr with ops := (if bVal then [] else [.bufFromView 5 1]) ++ fr.ops, res2 := fr.res3, res3 := fr.res2 }
    else
      let ra := if aVal then 0 else 5
      let rb := if bVal then 1 else 6
      let fr := fGcdExtLarge W ra rb la lb va vb
      { fr with ops := (if aVal then [] else [.bufFromView 5 0]) ++ (if bVal then [] else [.bufFromView 6 1]) ++ fr.ops }
  { fr with ops := formPre f ++ fr.ops }

/-- `gcd` / `gcd_ext` where one or both operands are `IBig` (gcd_ops.rs `forward_ibig_binop_to_repr!`,
    `forward_ubig_ibig_binop_to_repr!`, `forward_ibig_ubig_binop_to_repr!` with `impl_ibig_gcd` / `impl_ibig_gcd_ext`): a by-value
    `IBig` operand is taken apart by `into_sign_repr` (`aI` / `bI` = that operand is an `IBig`), a by-value `UBig` by `into_repr`;
    the magnitudes run the `UBig` skeleton; `gcd_ext` multiplies the coefficients by the operand signs
    (`sign0 * IBig(s)` = `with_sign(sign0 * s.sign())`, no storage event).  `ext` selects `gcd_ext`. -/
def fragMixedGcd (ext : Bool) (f : Form) (aI na : Bool) (a : List Nat) (bI nb : Bool) (b : List Nat) : Frag :=
  let aVal := f == .vr || f == .vv
  let bVal := f == .rv || f == .vv
  let pre : List AOp := (if aVal then [if aI then .intoSignTyped 0 else .intoTyped 0] else []) ++
    (if bVal then [if bI then .intoSignTyped 1 else .intoTyped 1] else [])
  if !ext then
    let fr := fragGcdTyped W aVal bVal a b
    { fr with ops := pre ++ fr.ops }
  else
    let fr := (fragGcdExt W f a b).noIntoTyped
    -- the signs of the coefficients the magnitude computation returned (C12's value model of the same dispatch)
    let signs : List AOp :=
      match fr.panic, fr.res2, fr.res3, NT.gcdExtRepr W (NT.lehmerExtKernel W) (wval W a) (wval W b) with
      | none, some r2, some r3, .ok (_, s, t) =>
        [.withSign r2 ((aI && na) != decide (s < 0)), .withSign r3 ((bI && nb) != decide (t < 0))]
      | _, _, _, _ => []
    { fr with ops := pre ++ fr.ops ++ signs }

-- ================================================================== `!IBig` as a public operator

/-- `!IBig` / `!&IBig` (bits.rs `impl Not for IBig`, `impl Not for &IBig`): `into_sign_repr` / `as_sign_repr`, then
    `mag.add_one().with_sign(Negative)` for a non-negative operand and `mag.sub_one().with_sign(Positive)` for a negative one
    (add_ops.rs `TypedRepr(Ref)::add_one / sub_one`: `add_dword(d, 1)` / `from_dword(d - 1)`; `add_large_one` with
    `push_resizing(1)` on carry / `sub_large_one`, in the operand's own buffer by value, in a copy (`buffer.into()`) by reference) -/
def fragNot (byVal na : Bool) (a : List Nat) : Frag :=
  let l := a.length; let v := wval W a
  let pre : List AOp := if byVal then [.intoSignTyped 0] else []
  let r := if byVal then 0 else 2
  let cp : List AOp := if byVal then [] else [.bufFromView 2 0]
  let fr : Frag :=
    if !na then
      if isSmall a then
        let fr := fAddDword W v 1
        { fr with ops := fr.ops ++ [.withSign fr.res true] }
      else
        { ops := cp ++ [.overwrite r (toWords W l (v + 1))] ++ (if v + 1 ≥ 2 ^ (W * l) then [.pushResizing r 1] else []) ++
                 [.fromBuffer r, .withSign r true], res := r }
    else
      if isSmall a then { ops := [dwOp W 2 (v - 1), .withSign 2 false] }
      else { ops := cp ++ [.overwrite r (toWords W l (v - 1)), .fromBuffer r, .withSign r false], res := r }
  { fr with ops := pre ++ fr.ops }

end
end Dashu.Model.Mem
