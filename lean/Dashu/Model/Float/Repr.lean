import Dashu.Model.Float.Round
/-
  Model of `float/src/repr.rs` (`Repr`, `Context::repr_round`), `mul.rs`, `div.rs`, `root.rs`,
  `add.rs` (core Lean only).

  A float is `signif * B^exp` (`FRepr`).  Infinities (`signif = 0 ∧ exp ≠ 0`) are never built by the
  modelled operations and are not inputs of the driven operations (`Repr::new` normalises every
  zero significand to `0 * B^0`), so `assert_finite*` never fires here.

  `Rounded α := α × Option Rounding`  (`none` = `Exact`, `some r` = `Inexact(_, r)`).

  `Context::mul/sqr/cubic` take `(fixed : Bool)`: `false` mirrors the code as it is (operands longer
  than 2p / 3p digits are pre-shrunk — a recorded finding), `true` is the behaviour the contract
  requires (no pre-shrink, `proposed_fixes/float-mul-preshrink.diff`, not applied: design decision).
  The driver prints the `fixed := true` result; see `Props/C03.lean` for the `…_partial` theorem about
  the code as it is and the counterexample.  (sqrt, the far-apart addition branch, `sub` from zero and
  `split_at_point_internal` are modelled as repaired in /repo by the `fix:` commits 92fc29e, 0d97e26,
  d197d6e, f9ab1b6.)

  Estimate oracles: `dub : Int → Nat` models `Repr::digits_ub` on the significand (hypothesis
  `DubSound`: never below the exact digit count, `0` for `0`), `dlb` models `digits_lb`.
-/
namespace Dashu.Model.Float

structure FRepr where
  signif : Int
  exp : Int
  deriving DecidableEq, Repr, Inhabited

abbrev Rounded (α : Type) := α × Option Rounding

inductive FPanic where
  | divideByZero | rootNegative | unlimitedPrecision
  deriving DecidableEq, Repr

def FPanic.name : FPanic → String
  | .divideByZero => "DivideByZero" | .rootNegative => "RootNegative"
  | .unlimitedPrecision => "UnlimitedPrecision"

/-- strip factors of `B` from a non-zero significand (`Repr::normalize`; the three code paths —
    `trailing_zeros`, `trailing_zeros / bits`, `UBig::remove` — all compute the multiplicity of `B`) -/
def stripAux (B : Nat) : Nat → Int → Int → Int × Int
  | 0, s, e => (s, e)
  | fuel + 1, s, e => if s % (B : Int) = 0 then stripAux B fuel (s / (B : Int)) (e + 1) else (s, e)

/-- `Repr::new(significand, exponent)` = `.normalize()` -/
def FRepr.new (B : Nat) (s e : Int) : FRepr :=
  if s = 0 then ⟨0, 0⟩
  else
    let r := stripAux B (s.natAbs.log2 + 1) s e
    ⟨r.1, r.2⟩

def FRepr.isZero (r : FRepr) : Bool := r.signif == 0 && r.exp == 0

def FRepr.neg (r : FRepr) : FRepr := ⟨-r.signif, r.exp⟩

/-- `Repr::digits` -/
def FRepr.digits (B : Nat) (r : FRepr) : Nat := digitsI B r.signif

/-- enclosure hypothesis of the `digits_ub` estimate -/
def DubSound (B : Nat) (dub : Int → Nat) : Prop :=
  ∀ v : Int, digitsI B v ≤ dub v

def DlbSound (B : Nat) (dlb : Int → Nat) : Prop :=
  ∀ v : Int, dlb v ≤ digitsI B v

/-- `Context::repr_round` / `repr_round_ref` (identical up to ownership) -/
def reprRound (B : Nat) (m : Mode) (c : Coarse) (p : Nat) (r : FRepr) : Rounded FRepr :=
  if p = 0 then (r, none)
  else
    let d := r.digits B
    if d > p then
      let shift := d - p
      let hl := splitDigits B r.signif shift
      let adj := roundFract B m c hl.1 hl.2 shift
      (FRepr.new B (hl.1 + rInt adj) (r.exp + shift), some adj)
    else (r, none)

/-! ### mul / sqr / cubic (`mul.rs`) -/

/-- the pre-shrink of an operand longer than `k·p` digits: `Context::new(k·p).repr_round_ref(f).value()` -/
def preShrink (B : Nat) (m : Mode) (c : Coarse) (p k : Nat) (f : FRepr) : FRepr :=
  if p ≠ 0 ∧ f.digits B > k * p then (reprRound B m c (k * p) f).1 else f

/-- `Context::mul`.  `fixed = true`: without the pre-shrink (a double rounding, see
    `Props/C03.lean` `mul_preshrink_counterexample`). -/
def ctxMul (fixed : Bool) (B : Nat) (m : Mode) (c : Coarse) (p : Nat) (lhs rhs : FRepr) : Rounded FRepr :=
  let l := if fixed then lhs else preShrink B m c p 2 lhs
  let r := if fixed then rhs else preShrink B m c p 2 rhs
  reprRound B m c p (FRepr.new B (l.signif * r.signif) (l.exp + r.exp))

/-- `Context::sqr` -/
def ctxSqr (fixed : Bool) (B : Nat) (m : Mode) (c : Coarse) (p : Nat) (f : FRepr) : Rounded FRepr :=
  let l := if fixed then f else preShrink B m c p 2 f
  reprRound B m c p (FRepr.new B (l.signif * l.signif) (2 * l.exp))

/-- `Context::cubic` -/
def ctxCubic (fixed : Bool) (B : Nat) (m : Mode) (c : Coarse) (p : Nat) (f : FRepr) : Rounded FRepr :=
  let l := if fixed then f else preShrink B m c p 3 f
  reprRound B m c p (FRepr.new B (l.signif * l.signif * l.signif) (3 * l.exp))

/-- the operator form `&a * &b`: exact product, then `repr_round` at `Context::max` (no pre-shrink) -/
def opMul (B : Nat) (m : Mode) (c : Coarse) (p : Nat) (lhs rhs : FRepr) : Rounded FRepr :=
  reprRound B m c p (FRepr.new B (lhs.signif * rhs.signif) (lhs.exp + rhs.exp))

/-! ### div (`div.rs`) -/

/-- the re-alignment inside `repr_div` after the first `div_rem` left a remainder: quotient `q`,
    remainder `r ≠ 0`, exponent `e`; returns the `p`(+1)-digit quotient, the new remainder and exponent.
    Three cases: `q = 0` (dividend shorter than the divisor), a quotient shorter than `p` digits, and a
    quotient that is already long enough. -/
def divAlign (B p : Nat) (b q r e : Int) : Int × Int × Int :=
  let ddigits := digitsI B b
  if q = 0 then
    let rdigits := digitsI B r
    let shift := ddigits + p - rdigits
    let r' := shlDigits B r shift
    (Int.tdiv r' b, Int.tmod r' b, e - shift)
  else
    let ndigits := digitsI B q + ddigits
    if ndigits < ddigits + p then
      let shift := ddigits + p - ndigits
      let q' := shlDigits B q shift
      let r' := shlDigits B r shift
      (q' + Int.tdiv r' b, Int.tmod r' b, e - shift)
    else (q, r, e)

/-- `Context::repr_div` -/
def reprDiv (B : Nat) (m : Mode) (p : Nat) (lhs rhs : FRepr) : Except FPanic (Rounded FRepr) :=
  if p = 0 then .error .unlimitedPrecision
  else if rhs.signif = 0 then .error .divideByZero
  else
    let q := Int.tdiv lhs.signif rhs.signif
    let r := Int.tmod lhs.signif rhs.signif
    let e := lhs.exp - rhs.exp
    if r = 0 then .ok (FRepr.new B q e, none)
    else
      let t := divAlign B p rhs.signif q r e
      if t.2.1 = 0 then .ok (FRepr.new B t.1 t.2.2, none)
      else
        let adj := roundRatio m t.1 t.2.1 rhs.signif
        .ok (FRepr.new B (t.1 + rInt adj) t.2.2, some adj)

/-- `Context::div`: shrink an over-long dividend to `rhs.digits() + p` digits, then `repr_div` -/
def ctxDiv (B : Nat) (m : Mode) (c : Coarse) (dub dlb : Int → Nat) (p : Nat) (lhs rhs : FRepr) :
    Except FPanic (Rounded FRepr) :=
  let l := if ¬ lhs.isZero ∧ dub lhs.signif > dlb rhs.signif + p then
      (reprRound B m c (rhs.digits B + p) lhs).1 else lhs
  reprDiv B m p l rhs

/-- `Context::inv` -/
def ctxInv (B : Nat) (m : Mode) (p : Nat) (f : FRepr) : Except FPanic (Rounded FRepr) :=
  reprDiv B m p ⟨1, 0⟩ f

/-! ### sqrt (`root.rs`) -/

/-- `Approximation::and_then` on the flags: the later inexact flag wins -/
def andThenFlag (e1 e2 : Option Rounding) : Option Rounding :=
  match e2 with
  | some e => some e
  | none => e1

/-- the scaling step of `Context::sqrt`: the significand is shifted by
    `shift = 2p − digits − ((exp − digits)&1)` digits so that the exponent becomes even and the scaled
    significand has `2p` or `2p−1` digits (the root then has exactly `p`); for `shift ≤ 0` the digits
    below the scaling position are split off.  Returns `(signif, low, low_digits, exp / 2)`. -/
def sqrtScale (B p : Nat) (x : FRepr) : Int × Int × Nat × Int :=
  let digits : Int := x.digits B
  let shift : Int := (p : Int) * 2 - digits - ((x.exp - digits) % 2)
  let e := Int.tdiv (x.exp - shift) 2
  if shift > 0 then (shlDigits B x.signif shift.toNat, 0, 0, e)
  else
    let s := (-shift).toNat
    let hl := splitDigits B x.signif s
    (hl.1, hl.2, s, e)

/-- the contract of `UBig::sqrt_rem` (property C12, `Props/C12.lean` `sqrt_rem_spec`): floor square root
    and `value − root²` -/
def SqrtRemOk (sr : Nat → Nat × Nat) : Prop :=
  ∀ n, (sr n).1 * (sr n).1 ≤ n ∧ n < ((sr n).1 + 1) * ((sr n).1 + 1) ∧ (sr n).1 * (sr n).1 + (sr n).2 = n

/-- the instance the driver runs: core `Nat.sqrt` -/
def natSqrtRem (n : Nat) : Nat × Nat := (Nat.sqrt n, n - Nat.sqrt n * Nat.sqrt n)

/-- the rounding step of `Context::sqrt`: `(root, rem) = signif.unsigned_abs().sqrt_rem()` (the integer
    kernel `sr`, any function meeting `SqrtRemOk`), `Exact` only if the remainder and the discarded low
    digits are zero, otherwise the mode table with the half test
    `rem.cmp(root).then(4·low .cmp(B^low_digits))` (i.e. `√(signif + low/B^k)` vs `root + ½`). -/
def sqrtRound (B : Nat) (m : Mode) (sr : Nat → Nat × Nat) (signif low : Int) (lowDigits : Nat) : Rounded Int :=
  let sq := sr signif.natAbs
  let root : Int := (sq.1 : Nat)
  let rem : Int := (sq.2 : Nat)
  if rem = 0 ∧ low = 0 then (root, none)
  else
    let test := (compare rem root).then (compare (low * 4) ((B ^ lowDigits : Nat) : Int))
    let adj := roundLowPart m root .Positive test
    (root + rInt adj, some adj)

/-- `Context::sqrt` (as repaired by 92fc29e) -/
def ctxSqrt (B : Nat) (m : Mode) (c : Coarse) (sr : Nat → Nat × Nat) (p : Nat) (x : FRepr) :
    Except FPanic (Rounded FRepr) :=
  if p = 0 then .error .unlimitedPrecision
  else if x.signif < 0 then .error .rootNegative
  else
    let sc := sqrtScale B p x
    let res := sqrtRound B m sr sc.1 sc.2.1 sc.2.2.1
    let v := FRepr.new B res.1 sc.2.2.2
    let rr := reprRound B m c p v
    .ok (rr.1, andThenFlag res.2 rr.2)

/-! ### add / sub (`add.rs`) -/

def sgn (v : Int) : Int := if v < 0 then -1 else if v = 0 then 0 else 1

/-- `Context::repr_round_sum(significand, exponent, low, is_sub)` with `low = (value, digits)` -/
def reprRoundSum (B : Nat) (m : Mode) (c : Coarse) (p : Nat)
    (signif exp : Int) (low : Int × Nat) (isSub : Bool) : Rounded FRepr :=
  if p = 0 then (FRepr.new B signif exp, none)
  else
    let rndP := p + (if isSub then 1 else 0)
    let d := digitsI B signif
    let (signif, exp, low) : Int × Int × (Int × Nat) :=
      if d = rndP then (signif, exp, low)
      else if d > rndP then
        let shift := d - rndP
        let hl := splitDigits B signif shift
        (hl.1, exp + shift, (low.1 + shlDigits B hl.2 low.2, low.2 + shift))
      else
        if low.1 ≠ 0 then
          let shift := min low.2 (rndP - d)
          let pl := splitDigits B low.1 (low.2 - shift)
          (shlDigits B signif shift + pl.1, exp - shift, (pl.2, low.2 - shift))
        else (signif, exp, low)
    if low.1 = 0 then (FRepr.new B signif exp, none)
    else
      let adj := roundFract B m c signif low.1 low.2
      (FRepr.new B (signif + rInt adj) exp, some adj)

/-- `Context::repr_add_large_small(lhs, rhs, rhs_sign)` (`lhs.exp ≥ rhs.exp`, both non-zero);
    `rs = ±1` is `rhs_sign`.  `repr_add_small_large` is the same text with the operands swapped (the
    sign is applied to the other operand), so it is modelled by this function with
    `lhs := rs·rhs`, `rhs := lhs`, `rs := 1` — see `ctxAddSub`.
    In the far-apart branch the small operand is replaced by the sticky stand-in `±1` at
    `low_prec = (rnd_precision − ldigits) + 2` digits (two digits stay below the rounding position
    after `repr_round_sum` has padded the significand, so the stand-in is `< 1/2` in every base). -/
def reprAddLargeSmall (B : Nat) (m : Mode) (c : Coarse) (dub : Int → Nat) (p : Nat)
    (lhs rhs : FRepr) (rs : Int) : Rounded FRepr :=
  let isSub := decide (sgn lhs.signif ≠ rs * sgn rhs.signif)
  let rndP := p + (if isSub then 1 else 0)
  let ediff := (lhs.exp - rhs.exp).toNat
  let ldigits := lhs.digits B
  let rest := dub rhs.signif
  if p ≠ 0 ∧ rest + 1 < ediff ∧ rest + 1 + rndP < ldigits + ediff then
    let lowPrec := if ldigits ≥ rndP then 2 else (rndP - ldigits) + 2
    reprRoundSum B m c p lhs.signif lhs.exp (rs * sgn rhs.signif, lowPrec) isSub
  else if p ≠ 0 ∧ ldigits ≥ p then
    let hl := splitDigits B rhs.signif ediff
    reprRoundSum B m c p (lhs.signif + rs * hl.1) lhs.exp (rs * hl.2, ediff) isSub
  else if p ≠ 0 ∧ ediff + ldigits > p then
    let lshift := p - ldigits
    let rshift := ediff - lshift
    let hl := splitDigits B rhs.signif rshift
    reprRoundSum B m c p (shlDigits B lhs.signif lshift + rs * hl.1) (lhs.exp - lshift)
      (rs * hl.2, rshift) isSub
  else
    reprRoundSum B m c p (shlDigits B lhs.signif ediff + rs * rhs.signif) rhs.exp (0, 0) isSub

/-- `Context::add` (`rs = 1`) / `Context::sub` (`rs = -1`); `sub` with a zero `lhs` rounds the negated
    operand. -/
def ctxAddSub (B : Nat) (m : Mode) (c : Coarse) (dub : Int → Nat) (p : Nat)
    (lhs rhs : FRepr) (rs : Int) : Rounded FRepr :=
  if lhs.isZero then
    if rs = 1 then reprRound B m c p rhs
    else reprRound B m c p rhs.neg
  else if rhs.isZero then reprRound B m c p lhs
  else if lhs.exp = rhs.exp then
    reprRound B m c p (FRepr.new B (lhs.signif + rs * rhs.signif) lhs.exp)
  else if lhs.exp > rhs.exp then reprAddLargeSmall B m c dub p lhs rhs rs
  else reprAddLargeSmall B m c dub p ⟨rs * rhs.signif, rhs.exp⟩ lhs 1

end Dashu.Model.Float
