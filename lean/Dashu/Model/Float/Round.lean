import Dashu.Gen.Round
/-
  Model of `float/src/round.rs` and the digit utilities of `float/src/utils.rs` (core Lean only).

  * `Mode`, `Rounding`                      ↔ `round::mode::{Zero,Away,Up,Down,HalfEven,HalfAway}`, `round::Rounding`
  * `roundLowPart`                          ↔ the six `impl Round for mode::X { fn round_low_part }` tables
  * `Rounding.toInt`, `applyRounding`       ↔ `impl Add<Rounding> for IBig`
  * `roundFract`, `roundRatio`              ↔ `Round::round_fract`, `Round::round_ratio`
  * `digits`                                ↔ `utils::digit_len`
  * `splitDigits` (+ the per-base paths)    ↔ `utils::split_digits` / `split_digits_ref`
  * `shlDigits`, `shrDigits`, `shrRef`      ↔ `utils::shl_digits(_in_place)`, `shr_digits`, `shr_ref`

  Estimate oracles (DESIGN §3): the coarse `f32` comparison at the head of `round_fract` is the
  parameter `coarse`; theorems hold for every oracle satisfying `CoarseSound`.
-/
namespace Dashu.Model.Float
open Dashu

inductive Mode where
  | zero | away | up | down | halfEven | halfAway
  deriving DecidableEq, Repr, Inhabited

/-- `round::Rounding` is the type of the regenerated tables (`Dashu.Rounding`, GluePrelude) -/
abbrev Rounding := Dashu.Rounding

instance : Inhabited Rounding := ⟨.NoOp⟩

def rName : Rounding → String
  | .NoOp => "NoOp" | .AddOne => "AddOne" | .SubOne => "SubOne"

/-- `impl Add<Rounding> for IBig` -/
def rInt : Rounding → Int
  | .NoOp => 0 | .AddOne => 1 | .SubOne => -1

def applyRounding (n : Int) (r : Rounding) : Int := n + rInt r

def Mode.isHalf : Mode → Bool
  | .halfEven | .halfAway => true
  | _ => false

/-- `Round::round_low_part(integer, low_sign, low_half_test)` for the six built-in modes: the
    decision tables REGENERATED from `float/src/round.rs` on every run (`Dashu.Gen.round_low_part_*`,
    proved against the definition of each mode in `Props/GenRound.lean`).
    `half` is the value of `low_half_test()`, i.e. `|low|.cmp(1/2)`; the code assumes `low ≠ 0`,
    `|low| < 1`. -/
def roundLowPart (m : Mode) (n : Int) (lowSign : Sign) (half : Ordering) : Rounding :=
  match m with
  | .zero => Gen.round_low_part_Zero n lowSign half
  | .away => Gen.round_low_part_Away n lowSign half
  | .up => Gen.round_low_part_Up n lowSign half
  | .down => Gen.round_low_part_Down n lowSign half
  | .halfEven => Gen.round_low_part_HalfEven n lowSign half
  | .halfAway => Gen.round_low_part_HalfAway n lowSign half

/-- sign of a non-zero `IBig` -/
def signOf (v : Int) : Sign := if v < 0 then .Negative else .Positive

/-- the coarse `f32` test of `round_fract`: `some o` when the estimate decides, `none` when the exact
    comparison is needed -/
abbrev Coarse := Nat → Nat → Nat → Option Ordering

/-- enclosure hypothesis for the coarse test: whenever it decides, it decides as the exact comparison -/
def CoarseSound (c : Coarse) : Prop :=
  ∀ B f k o, c B f k = some o → o = compare (2 * f) (B ^ k)

/-- the oracle that never decides (always falls through to the exact comparison) -/
def coarseNone : Coarse := fun _ _ _ => none

/-- `Round::round_fract::<B>(integer, fract, precision)`: rounding of `integer + fract / B^k`
    (`|fract| < B^k`). -/
def roundFract (B : Nat) (m : Mode) (c : Coarse) (n fract : Int) (k : Nat) : Rounding :=
  if fract = 0 then .NoOp
  else
    let fmag := fract.natAbs
    let test := match c B fmag k with
      | some o => o
      | none => compare (2 * fmag) (B ^ k)
    roundLowPart m n (signOf fract) test

/-- `Round::round_ratio(integer, num, den)`: rounding of `integer + num / den`
    (`den ≠ 0`, `|num| ≤ |den|` asserted by the code).
    `nsign * den.sign()`; the comparison is `2|num|` vs `den` for `den > 0` and `den` vs `-2|num|`
    otherwise. -/
def roundRatio (m : Mode) (n num den : Int) : Rounding :=
  if num = 0 then .NoOp
  else
    let nmag : Int := num.natAbs
    let lowSign := signOf num * signOf den
    let test := if 0 < den then compare (2 * nmag) den else compare den (-(2 * nmag))
    roundLowPart m n lowSign test

/-! ### digits -/

def digitsAux (B : Nat) : Nat → Nat → Nat
  | 0, _ => 0
  | fuel + 1, n => if n = 0 then 0 else 1 + digitsAux B fuel (n / B)

/-- `utils::digit_len::<B>` on the magnitude: the `k` with `B^(k-1) ≤ n < B^k`, `0` for `0`
    (`ilog + 1`).  Fuel `log2 n + 1` suffices for every base `≥ 2`. -/
def digits (B : Nat) (n : Nat) : Nat := digitsAux B (n.log2 + 1) n

def digitsI (B : Nat) (v : Int) : Nat := digits B v.natAbs

/-! ### splitting at a digit position -/

/-- `utils::split_bits(value, n)`: split the magnitude at bit `n`, sign applied to both parts -/
def splitBits (v : Int) (n : Nat) : Int × Int :=
  let mag := v.natAbs
  let s : Int := if v < 0 then -1 else 1
  (s * ((mag >>> n : Nat) : Int), s * ((mag % 2 ^ n : Nat) : Int))

def isPow2 (B : Nat) : Bool := B == 2 ^ B.log2

/-- `utils::split_digits::<B>(value, pos)` / `split_digits_ref`: `(hi, lo)` with the sign on both
    parts.  Three code paths: base 10 (split `pos` bits, then divide by `5^pos`), power-of-two bases
    (bit split), generic (`div_rem` by `B^pos`, truncating). -/
def splitDigits (B : Nat) (v : Int) (pos : Nat) : Int × Int :=
  if pos = 0 then (v, 0)
  else if B = 10 then
    let (q, rem1) := splitBits v pos
    let d : Int := ((5 ^ pos : Nat) : Int)
    let q' := Int.tdiv q d
    let rem2 := Int.tmod q d
    (q', rem2 * ((2 ^ pos : Nat) : Int) + rem1)
  else if isPow2 B then splitBits v (pos * B.log2)
  else (Int.tdiv v ((B ^ pos : Nat) : Int), Int.tmod v ((B ^ pos : Nat) : Int))

/-- `IBig << n` at value level (C09) -/
def ishl (v : Int) (n : Nat) : Int := v * ((2 ^ n : Nat) : Int)

/-- `utils::shl_digits::<B>` / `shl_digits_in_place::<B>`: multiply by `B^k`.  Four code paths: base 2
    (`<< k`), base 10 (`(v · 5^k) << k`), power-of-two bases (`<< k·log2 B`), generic (`v · B^k`). -/
def shlDigits (B : Nat) (v : Int) (k : Nat) : Int :=
  if k = 0 then v
  else if B = 2 then ishl v k
  else if B = 10 then ishl (v * ((5 ^ k : Nat) : Int)) k
  else if isPow2 B then ishl v (k * B.log2)
  else v * ((B ^ k : Nat) : Int)

/-- `utils::shr_ref(value, shift)`: right shift of the magnitude, sign kept (`IBig >>` would floor) -/
def shrRef (v : Int) (n : Nat) : Int := (if v < 0 then -1 else 1) * ((v.natAbs >>> n : Nat) : Int)

/-- `utils::shr_digits::<B>`: divide by `B^k` toward zero.  Four code paths: base 2 (`shr_ref`), base 10
    (`shr_ref(v, k) / 5^k`), power-of-two bases (`shr_ref` by `k·log2 B` bits), generic (`v / B^k`,
    `IBig` division truncates). -/
def shrDigits (B : Nat) (v : Int) (k : Nat) : Int :=
  if k = 0 then v
  else if B = 2 then shrRef v k
  else if B = 10 then Int.tdiv (shrRef v k) ((5 ^ k : Nat) : Int)
  else if isPow2 B then shrRef v (k * B.log2)
  else Int.tdiv v ((B ^ k : Nat) : Int)

/-- what all three paths compute (proved in `Proofs/Float/Digits.lean`) -/
def splitSpec (B : Nat) (v : Int) (pos : Nat) : Int × Int :=
  (Int.tdiv v ((B ^ pos : Nat) : Int), Int.tmod v ((B ^ pos : Nat) : Int))

end Dashu.Model.Float
