/-
  Mirror of `rational/src/round.rs` (core Lean only): `Repr::{split_at_point, ceil, floor, trunc, fract, round}` and
  the twelve public entry points `RBig::{…}` / `Relaxed::{…}` that wrap them, together with the two constructors the
  protocol ops go through (`RBig::from_parts` → `Repr::reduce`, `Relaxed::from_parts` → `Repr::reduce2`, at value level).

  A `rational::repr::Repr` is the pair `numerator : IBig`, `denominator : UBig` (`den > 0`).  `IBig::div_rem`, `/`, `%`
  truncate (`Int.tdiv`, `Int.tmod`).
-/
namespace Dashu.Model.Float

/-- `rational::repr::Repr { numerator, denominator }` -/
structure QRepr where
  num : Int
  den : Nat
  deriving DecidableEq, Repr, Inhabited

/-- `Repr::zero()` = `0 / 1` -/
def QRepr.zero : QRepr := ⟨0, 1⟩

/-- `(&self.numerator).div_rem(&self.denominator)` -/
def QRepr.divRem (x : QRepr) : Int × Int := (Int.tdiv x.num x.den, Int.tmod x.num x.den)

/-- `Repr::split_at_point(self)`: `div_rem`, the fraction keeps the denominator ("no need to reduce here"), a zero
    remainder gives `Repr::zero()` -/
def QRepr.splitAtPoint (x : QRepr) : Int × QRepr :=
  let (trunc, r) := x.divRem
  let fract := if r = 0 then QRepr.zero else ⟨r, x.den⟩
  (trunc, fract)

/-- `Repr::ceil(&self)`: `if r > IBig::ZERO { q += IBig::ONE }` -/
def QRepr.ceil (x : QRepr) : Int :=
  let (q, r) := x.divRem
  if r > 0 then q + 1 else q

/-- `Repr::floor(&self)`: `if r < IBig::ZERO { q -= IBig::ONE }` -/
def QRepr.floor (x : QRepr) : Int :=
  let (q, r) := x.divRem
  if r < 0 then q - 1 else q

/-- `Repr::trunc(&self)`: `(&self.numerator) / (&self.denominator)` -/
def QRepr.trunc (x : QRepr) : Int := Int.tdiv x.num x.den

/-- `Repr::fract(&self)`: `(&self.numerator) % (&self.denominator)`, zero ⇒ `Repr::zero()` -/
def QRepr.fract (x : QRepr) : QRepr :=
  let r := Int.tmod x.num x.den
  if r = 0 then QRepr.zero else ⟨r, x.den⟩

/-- `Repr::round(&self)`: `if (r.unsigned_abs() << 1) >= self.denominator { match self.numerator.sign() { Positive => q += 1,
    Negative => q -= 1 } }` (`IBig::sign` of zero is `Positive`) -/
def QRepr.round (x : QRepr) : Int :=
  let (q, r) := x.divRem
  if r.natAbs <<< 1 ≥ x.den then (if x.num < 0 then q - 1 else q + 1) else q

/-! ### the public wrappers: `RBig(Repr)` and `Relaxed(Repr)` (`rational/src/round.rs` `impl RBig`, `impl Relaxed`) -/

/-- `RBig::split_at_point(self)`: `let (trunc, fract) = self.0.split_at_point(); (trunc, Self(fract))` -/
def rbigSplitAtPoint (x : QRepr) : Int × QRepr := let (t, f) := x.splitAtPoint; (t, f)
/-- `RBig::ceil` = `self.0.ceil()` -/
def rbigCeil (x : QRepr) : Int := x.ceil
/-- `RBig::floor` = `self.0.floor()` -/
def rbigFloor (x : QRepr) : Int := x.floor
/-- `RBig::round` = `self.0.round()` -/
def rbigRound (x : QRepr) : Int := x.round
/-- `RBig::trunc` = `self.0.trunc()` -/
def rbigTrunc (x : QRepr) : Int := x.trunc
/-- `RBig::fract` = `Self(self.0.fract())` -/
def rbigFract (x : QRepr) : QRepr := x.fract

/-- `Relaxed::split_at_point(self)` -/
def relaxedSplitAtPoint (x : QRepr) : Int × QRepr := let (t, f) := x.splitAtPoint; (t, f)
/-- `Relaxed::ceil` -/
def relaxedCeil (x : QRepr) : Int := x.ceil
/-- `Relaxed::floor` -/
def relaxedFloor (x : QRepr) : Int := x.floor
/-- `Relaxed::round` -/
def relaxedRound (x : QRepr) : Int := x.round
/-- `Relaxed::trunc` -/
def relaxedTrunc (x : QRepr) : Int := x.trunc
/-- `Relaxed::fract` -/
def relaxedFract (x : QRepr) : QRepr := x.fract

/-! ### the type invariants the wrappers must keep -/

/-- invariant of `RBig`: positive denominator, lowest terms -/
def QRepr.IsRBig (x : QRepr) : Prop := 0 < x.den ∧ Nat.gcd x.num.natAbs x.den = 1

/-- invariant of `Relaxed`: positive denominator, numerator and denominator not both even, zero is `0/1`
    (what `reduce2` establishes) -/
def QRepr.IsRelaxed (x : QRepr) : Prop :=
  0 < x.den ∧ (x.num = 0 → x.den = 1) ∧ ¬ (x.num % 2 = 0 ∧ x.den % 2 = 0)

/-! ### constructors used by the protocol ops (value level) -/

/-- `RBig::from_parts(n, d)` for `d ≠ 0`: `Repr::reduce` (divide both by the gcd; `0/d` ↦ `0/1`) -/
def rbigFromParts (n : Int) (d : Nat) : QRepr :=
  let g := Nat.gcd n.natAbs d
  ⟨Int.tdiv n g, d / g⟩

def tzAux : Nat → Nat → Nat
  | 0, _ => 0
  | fuel + 1, n => if n % 2 = 0 then 1 + tzAux fuel (n / 2) else 0

/-- `trailing_zeros` of a non-zero magnitude -/
def tz (n : Nat) : Nat := if n = 0 then 0 else tzAux (n.log2 + 1) n

/-- `Relaxed::from_parts(n, d)` for `d ≠ 0`: `Repr::reduce2` — zero ↦ `Repr::zero()`, otherwise both parts shifted
    right by `min(trailing_zeros)` -/
def relaxedFromParts (n : Int) (d : Nat) : QRepr :=
  if n = 0 then QRepr.zero
  else
    let zeros := min (tz n.natAbs) (tz d)
    if zeros > 0 then ⟨Int.tdiv n ((2 ^ zeros : Nat) : Int), d >>> zeros⟩ else ⟨n, d⟩

end Dashu.Model.Float
