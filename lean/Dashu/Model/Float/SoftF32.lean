/-
  Executable soft-float replica of IEEE-754 binary32 arithmetic on NON-NEGATIVE NORMAL values, in integer arithmetic only
  (core Lean, no `Float32`): each operation computes the exact rational result and rounds it to nearest, ties to even,
  with a 24-bit significand.  `Proofs/Float/SoftF32.lean` proves that `rnePos num den` denotes `rne32 (num / den)`, the
  rounding function on ℝ about which `Props/C10F32.lean` proves the facts used by the estimator theorems; the driver of
  group `float` evaluates the `f32` estimates of `round_fract` with these operations beside the compiled `Float32` ones
  and the harness evaluates them with Rust's `f32` (`s32.*` ops), so that "the hardware operation is `rne32` of the exact
  result" is compared on every driven case instead of being only assumed.

  A value is `m·2^(e−23)` with `2²³ ≤ m < 2²⁴`, or zero (`m = 0`).  Everything outside (negative, subnormal, infinite,
  NaN) is `none`: the estimators never produce such values for positive operands.
-/
namespace Dashu.Model.Float.SoftF32

structure Val where
  m : Nat
  e : Int
deriving DecidableEq, Repr

def zero : Val := ⟨0, 0⟩

/-- `⌊log₂ (num / den)⌋` for positive `num`, `den` -/
def ilog2Q (num den : Nat) : Int :=
  let e0 : Int := (num.log2 : Int) - (den.log2 : Int)
  if 0 ≤ e0 then (if num < den <<< e0.toNat then e0 - 1 else e0)
  else (if num <<< (-e0).toNat < den then e0 - 1 else e0)

/-- `N / D` rounded to the nearest integer, ties to even -/
def rheQ (N D : Nat) : Nat :=
  let q := N / D
  let r := N % D
  if 2 * r < D then q else if D < 2 * r then q + 1 else if q % 2 = 0 then q else q + 1

/-- round-to-nearest-even of the positive rational `num / den` to 24 significant bits -/
def rnePos (num den : Nat) : Val :=
  let e := ilog2Q num den
  let sh := e - 23
  let m := if 0 ≤ sh then rheQ num (den <<< sh.toNat) else rheQ (num <<< (-sh).toNat) den
  if m = 16777216 then ⟨8388608, e + 1⟩ else ⟨m, e⟩

def rne (num den : Nat) : Val := if num = 0 then zero else rnePos num den

/-- the value as a fraction `(num, den)` -/
def toQ (v : Val) : Nat × Nat :=
  let sh := v.e - 23
  if 0 ≤ sh then (v.m <<< sh.toNat, 1) else (v.m, 1 <<< (-sh).toNat)

def ofNat (n : Nat) : Val := rne n 1

def add (a b : Val) : Val :=
  let (n1, d1) := toQ a; let (n2, d2) := toQ b
  rne (n1 * d2 + n2 * d1) (d1 * d2)

/-- `a − b`; `none` if the result would be negative -/
def sub (a b : Val) : Option Val :=
  let (n1, d1) := toQ a; let (n2, d2) := toQ b
  if n1 * d2 < n2 * d1 then none else some (rne (n1 * d2 - n2 * d1) (d1 * d2))

def mul (a b : Val) : Val :=
  let (n1, d1) := toQ a; let (n2, d2) := toQ b
  rne (n1 * n2) (d1 * d2)

/-- `a / b`; `none` for a zero divisor -/
def div (a b : Val) : Option Val :=
  let (n1, d1) := toQ a; let (n2, d2) := toQ b
  if n2 = 0 then none else some (rne (n1 * d2) (d1 * n2))

def lt (a b : Val) : Bool :=
  let (n1, d1) := toQ a; let (n2, d2) := toQ b
  decide (n1 * d2 < n2 * d1)

/-- the binary32 bit pattern (normal range only) -/
def toBits (v : Val) : Option Nat :=
  if v.m = 0 then some 0
  else
    let be := v.e + 127
    if 1 ≤ be ∧ be ≤ 254 ∧ 8388608 ≤ v.m ∧ v.m < 16777216 then some (be.toNat <<< 23 + (v.m - 8388608)) else none

/-- from a bit pattern: `+0` and positive normal numbers -/
def ofBits (b : Nat) : Option Val :=
  if b = 0 then some zero
  else
    let be := b >>> 23
    if b < 2147483648 ∧ 1 ≤ be ∧ be ≤ 254 then some ⟨8388608 + b % 8388608, (be : Int) - 127⟩ else none

/-- `f32::next_up` on a positive value; `none` at zero (the smallest subnormal is outside the replica) -/
def nextUp (v : Val) : Option Val :=
  if v.m = 0 then none
  else if v.m + 1 = 16777216 then some ⟨8388608, v.e + 1⟩ else some ⟨v.m + 1, v.e⟩

/-- `f32::next_down` on a positive value; `none` at zero (the result would be negative) -/
def nextDown (v : Val) : Option Val :=
  if v.m = 0 then none
  else if v.m = 8388608 then some ⟨16777215, v.e - 1⟩ else some ⟨v.m - 1, v.e⟩

end Dashu.Model.Float.SoftF32
