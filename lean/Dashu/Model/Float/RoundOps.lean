import Dashu.Model.Float.Repr
/-
  Model of `float/src/round_ops.rs` (`FBig::{trunc, split_at_point_internal, split_at_point, fract,
  ceil, floor, round}`), `float/src/convert.rs` (`FBig::with_precision`, `FBig::to_int`,
  `Repr::to_int`) and `rational/src/round.rs` (core Lean only).

  An `FBig` is `(repr, precision)`; results carry the precision the code assigns.  The shortcuts taken
  when the estimate `smaller_than_one` fires return the value AND the context of the general path
  (proposed_fixes/c10-roundops-estimate-observable.diff), so the estimate is not observable
  (`Props/C10.lean` `estimate_unobservable`).
  `dub` is the `digits_ub` estimate oracle (`Repr::smaller_than_one` is `exp + digits_ub < -1`).
-/
namespace Dashu.Model.Float

structure FBigM where
  repr : FRepr
  prec : Nat
  deriving DecidableEq, Repr, Inhabited

def FBigM.zero : FBigM := ⟨⟨0, 0⟩, 0⟩
def FBigM.one : FBigM := ⟨⟨1, 0⟩, 0⟩
def FBigM.negOne : FBigM := ⟨⟨-1, 0⟩, 0⟩

/-- `Repr::smaller_than_one`: `exponent + digits_ub < -1` (no false positives) -/
def smallerThanOne (dub : Int → Nat) (r : FRepr) : Bool := decide (r.exp + (dub r.signif : Int) < -1)

/-- `FBig::trunc` -/
def fTrunc (B : Nat) (dub : Int → Nat) (x : FBigM) : FBigM :=
  if x.repr.exp ≥ 0 then x
  else
    let shift := (-x.repr.exp).toNat
    if smallerThanOne dub x.repr then ⟨⟨0, 0⟩, x.prec - shift⟩
    else ⟨FRepr.new B (shrDigits B x.repr.signif shift) 0, x.prec - shift⟩

/-- `FBig::split_at_point_internal` (`exp < 0`): `(integral, fractional, fraction digits)`; for a
    number known to be `< 1` all digits are fractional and there are `-exponent` of them. -/
def splitAtPointInternal (B : Nat) (dub : Int → Nat) (x : FBigM) : Int × Int × Nat :=
  if smallerThanOne dub x.repr then
    (0, x.repr.signif, (-x.repr.exp).toNat)
  else
    let shift := (-x.repr.exp).toNat
    let hl := splitDigits B x.repr.signif shift
    (hl.1, hl.2, shift)

/-- `FBig::split_at_point` -/
def fSplitAtPoint (B : Nat) (dub : Int → Nat) (x : FBigM) : FBigM × FBigM :=
  if x.repr.exp ≥ 0 then (x, FBigM.zero)
  else
    let shift := (-x.repr.exp).toNat
    if smallerThanOne dub x.repr then (⟨⟨0, 0⟩, x.prec - shift⟩, ⟨x.repr, shift⟩)
    else
      let hl := splitDigits B x.repr.signif shift
      (⟨FRepr.new B hl.1 0, x.prec - shift⟩, ⟨FRepr.new B hl.2 x.repr.exp, shift⟩)

/-- `FBig::fract` (a number known to be `< 1` is its own fractional part, with the context the general
    path gives: the number of fractional digits) -/
def fFract (B : Nat) (dub : Int → Nat) (x : FBigM) : FBigM :=
  if x.repr.exp ≥ 0 then FBigM.zero
  else if smallerThanOne dub x.repr then ⟨x.repr, (-x.repr.exp).toNat⟩
  else
    let s := splitAtPointInternal B dub x
    ⟨FRepr.new B s.2.1 x.repr.exp, s.2.2⟩

/-- `FBig::ceil` -/
def fCeil (B : Nat) (c : Coarse) (dub : Int → Nat) (x : FBigM) : FBigM :=
  if x.repr.isZero ∨ x.repr.exp ≥ 0 then x
  else if smallerThanOne dub x.repr then
    (if x.repr.signif ≥ 0 then ⟨⟨1, 0⟩, x.prec - (-x.repr.exp).toNat⟩ else ⟨⟨0, 0⟩, x.prec - (-x.repr.exp).toNat⟩)
  else
    let s := splitAtPointInternal B dub x
    let r := roundFract B .up c s.1 s.2.1 s.2.2
    ⟨FRepr.new B (s.1 + rInt r) 0, x.prec - s.2.2⟩

/-- `FBig::floor` -/
def fFloor (B : Nat) (c : Coarse) (dub : Int → Nat) (x : FBigM) : FBigM :=
  if x.repr.exp ≥ 0 then x
  else if smallerThanOne dub x.repr then
    (if x.repr.signif ≥ 0 then ⟨⟨0, 0⟩, x.prec - (-x.repr.exp).toNat⟩ else ⟨⟨-1, 0⟩, x.prec - (-x.repr.exp).toNat⟩)
  else
    let s := splitAtPointInternal B dub x
    let r := roundFract B .down c s.1 s.2.1 s.2.2
    ⟨FRepr.new B (s.1 + rInt r) 0, x.prec - s.2.2⟩

/-- `FBig::round` (ties away from zero) -/
def fRound (B : Nat) (c : Coarse) (dub : Int → Nat) (x : FBigM) : FBigM :=
  if x.repr.exp ≥ 0 then x
  else if x.repr.exp + (dub x.repr.signif : Int) < -2 then ⟨⟨0, 0⟩, x.prec - (-x.repr.exp).toNat⟩
  else
    let s := splitAtPointInternal B dub x
    let r := roundFract B .halfAway c s.1 s.2.1 s.2.2
    ⟨FRepr.new B (s.1 + rInt r) 0, x.prec - s.2.2⟩

/-- `FBig::to_int` (rounding mode of the type) -/
def fToInt (B : Nat) (m : Mode) (c : Coarse) (dub : Int → Nat) (x : FBigM) : Rounded Int :=
  if x.repr.exp ≥ 0 then (shlDigits B x.repr.signif x.repr.exp.toNat, none)
  else
    let s := splitAtPointInternal B dub x
    let adj := roundFract B m c s.1 s.2.1 s.2.2
    (s.1 + rInt adj, some adj)

/-- `Repr::to_int` (always toward zero) -/
def reprToInt (B : Nat) (dub : Int → Nat) (r : FRepr) : Rounded Int :=
  if r.exp ≥ 0 then (shlDigits B r.signif r.exp.toNat, none)
  else if smallerThanOne dub r then (0, some .NoOp)
  else (shrDigits B r.signif (-r.exp).toNat, some .NoOp)

/-- `FBig::with_precision` -/
def fWithPrecision (B : Nat) (m : Mode) (c : Coarse) (x : FBigM) (p : Nat) : Rounded FBigM :=
  if x.prec > p ∨ (x.prec = 0 ∧ p > 0) then
    let r := reprRound B m c p x.repr
    (⟨r.1, p⟩, r.2)
  else (⟨x.repr, p⟩, none)

/-! ### `rational/src/round.rs` (`Repr::{split_at_point, ceil, floor, trunc, fract, round}`);
    a rational is `num / den` with `den > 0` -/

def qTrunc (num : Int) (den : Nat) : Int := Int.tdiv num den

def qFractNum (num : Int) (den : Nat) : Int := Int.tmod num den

def qCeil (num : Int) (den : Nat) : Int :=
  let q := Int.tdiv num den
  if Int.tmod num den > 0 then q + 1 else q

def qFloor (num : Int) (den : Nat) : Int :=
  let q := Int.tdiv num den
  if Int.tmod num den < 0 then q - 1 else q

def qRound (num : Int) (den : Nat) : Int :=
  let q := Int.tdiv num den
  let r := Int.tmod num den
  if 2 * r.natAbs ≥ den then (if num ≥ 0 then q + 1 else q - 1) else q

end Dashu.Model.Float
