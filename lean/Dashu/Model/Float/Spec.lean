import Dashu.Model.Float.RoundOps
/-
  Specification side of C03 / C10 (core Lean only; evaluated by the driver beside every model
  result, reasoned about in `Proofs/Float/*`).

  * `FRepr.toRat`         value of a float as a rational
  * `Contract`            the rounding contract of DESIGN §8 C03 as a proposition over `Rat`
  * `contractOk`          the executable check the driver evaluates beside every model result (error
                          bound at the finest admissible unit, side condition, flags; it is a run-time
                          cross-check of the theorems, not itself linked to `Contract` by a theorem)
  * `Representable`       `x` has at most `p` significant base-`B` digits
  * `ContractSqrt`, `contractSqrtOk`  the same for `√v`, every comparison stated on squares
  * `roundInt`            rounding a rational to an integer in a given mode (definition of the mode)
-/
namespace Dashu.Model.Float

/-- `B^e` for an integer exponent -/
def bpowQ (B : Nat) (e : Int) : Rat :=
  if e ≥ 0 then ((B ^ e.toNat : Nat) : Rat) else 1 / ((B ^ (-e).toNat : Nat) : Rat)

def FRepr.toRat (B : Nat) (r : FRepr) : Rat := (r.signif : Rat) * bpowQ B r.exp

def absQ (x : Rat) : Rat := if x < 0 then -x else x

/-- the side condition of the four directed modes -/
def sideOk (m : Mode) (x r : Rat) : Prop :=
  match m with
  | .zero => absQ r ≤ absQ x
  | .away => absQ x ≤ absQ r
  | .up => x ≤ r
  | .down => r ≤ x
  | _ => True

instance (m : Mode) (x r : Rat) : Decidable (sideOk m x r) := by
  unfold sideOk; cases m <;> infer_instance

/-- error bound with unit `B^e`: `< 1` unit, `≤ ½` unit for the two nearest modes -/
def errOk (B : Nat) (m : Mode) (e : Int) (x r : Rat) : Prop :=
  if m.isHalf then 2 * absQ (r - x) ≤ bpowQ B e else absQ (r - x) < bpowQ B e

instance (B : Nat) (m : Mode) (e : Int) (x r : Rat) : Decidable (errOk B m e x r) := by
  unfold errOk; infer_instance

/-- The rounding contract (property C03): `x` the exact real result, `r` the returned value,
    `flag` the returned `Rounding` (`none` = `Exact`), `p ≥ 1` the precision.
    The unit of the error bound is any `B^e` not coarser than the ulp of `x` at `p` digits
    (`B^(e+p-1) ≤ |x|`), so the bound is the strict one also just below a power of `B`; the result
    lies on the grid of that unit (`r ∈ B^e·ℤ`), which is what makes "`x` representable in `p` digits
    ⇒ `r = x`" a consequence (`Proofs/Float/Closing.lean`). -/
structure Contract (B : Nat) (m : Mode) (p : Nat) (x r : Rat) (flag : Option Rounding) : Prop where
  exact_iff : flag = none ↔ r = x
  err : r ≠ x → ∃ e : Int, bpowQ B (e + p - 1) ≤ absQ x ∧ errOk B m e x r ∧ ∃ t : Int, r = (t : Rat) * bpowQ B e
  side : sideOk m x r
  addOne : flag = some .AddOne → x < r
  subOne : flag = some .SubOne → r < x

/-- `x = M · B^j` with `|M| < B^p`: at most `p` significant digits -/
def Representable (B p : Nat) (x : Rat) : Prop :=
  ∃ M j : Int, M.natAbs < B ^ p ∧ x = (M : Rat) * bpowQ B j

/-- floor of `log_B x` for a positive rational given as `n / d` (`n, d > 0`, `B ≥ 2`) -/
def ilogQ (B : Nat) (n d : Nat) : Int :=
  let k0 : Int := (digits B n : Int) - (digits B d : Int)
  -- B^(k0-1) < n/d < B^(k0+1)
  if k0 ≥ 0 then (if B ^ k0.toNat * d ≤ n then k0 else k0 - 1)
  else (if d ≤ B ^ (-k0).toNat * n then k0 else k0 - 1)

/-- the exponent of the ulp of `x ≠ 0` at `p` digits: the largest `e` with `B^(e+p-1) ≤ |x|` -/
def ulpExp (B p : Nat) (x : Rat) : Int := ilogQ B x.num.natAbs x.den - p + 1

/-- executable check of `Contract` (uses the finest admissible unit) -/
def contractOk (B : Nat) (m : Mode) (p : Nat) (x r : Rat) (flag : Option Rounding) : Bool :=
  decide (flag = none ↔ r = x) &&
  (r == x || (x != 0 && decide (bpowQ B (ulpExp B p x + p - 1) ≤ absQ x) && decide (errOk B m (ulpExp B p x) x r))) &&
  decide (sideOk m x r) &&
  (flag != some .AddOne || decide (x < r)) &&
  (flag != some .SubOne || decide (r < x))

/-! ### square root: `x = √v`, comparisons on squares (`r ≥ 0`, `v ≥ 0`) -/

/-- `r < √v` / `r ≤ √v` / … for `v ≥ 0` and arbitrary `r` -/
def ltSqrt (r v : Rat) : Prop := r < 0 ∨ r * r < v
def leSqrt (r v : Rat) : Prop := r ≤ 0 ∨ r * r ≤ v
def gtSqrt (r v : Rat) : Prop := 0 ≤ r ∧ v < r * r
def geSqrt (r v : Rat) : Prop := 0 ≤ r ∧ v ≤ r * r

instance (r v : Rat) : Decidable (ltSqrt r v) := by unfold ltSqrt; infer_instance
instance (r v : Rat) : Decidable (leSqrt r v) := by unfold leSqrt; infer_instance
instance (r v : Rat) : Decidable (gtSqrt r v) := by unfold gtSqrt; infer_instance
instance (r v : Rat) : Decidable (geSqrt r v) := by unfold geSqrt; infer_instance

def errSqrtOk (B : Nat) (m : Mode) (e : Int) (v r : Rat) : Prop :=
  if m.isHalf then leSqrt (r - bpowQ B e / 2) v ∧ geSqrt (r + bpowQ B e / 2) v
  else ltSqrt (r - bpowQ B e) v ∧ gtSqrt (r + bpowQ B e) v

instance (B : Nat) (m : Mode) (e : Int) (v r : Rat) : Decidable (errSqrtOk B m e v r) := by
  unfold errSqrtOk; infer_instance

def sideSqrtOk (m : Mode) (v r : Rat) : Prop :=
  match m with
  | .zero | .down => r * r ≤ v
  | .away | .up => v ≤ r * r
  | _ => True

instance (m : Mode) (v r : Rat) : Decidable (sideSqrtOk m v r) := by
  unfold sideSqrtOk; cases m <;> infer_instance

/-- the contract for `r ≈ √v` (`v ≥ 0`) -/
structure ContractSqrt (B : Nat) (m : Mode) (p : Nat) (v r : Rat) (flag : Option Rounding) : Prop where
  nonneg : 0 ≤ r
  exact_iff : flag = none ↔ r * r = v
  err : r * r ≠ v → ∃ e : Int, bpowQ B (e + p - 1) * bpowQ B (e + p - 1) ≤ v ∧ errSqrtOk B m e v r ∧
    ∃ t : Int, r = (t : Rat) * bpowQ B e
  side : sideSqrtOk m v r
  addOne : flag = some .AddOne → v < r * r
  subOne : flag = some .SubOne → r * r < v

/-- exponent of the ulp of `√v` at `p` digits -/
def ulpExpSqrt (B p : Nat) (v : Rat) : Int := (ilogQ B v.num.natAbs v.den) / 2 - p + 1

def contractSqrtOk (B : Nat) (m : Mode) (p : Nat) (v r : Rat) (flag : Option Rounding) : Bool :=
  decide (0 ≤ r) &&
  decide (flag = none ↔ r * r = v) &&
  (r * r == v || (v != 0 &&
    decide (bpowQ B (ulpExpSqrt B p v + p - 1) * bpowQ B (ulpExpSqrt B p v + p - 1) ≤ v) &&
    decide (errSqrtOk B m (ulpExpSqrt B p v) v r))) &&
  decide (sideSqrtOk m v r) &&
  (flag != some .AddOne || decide (v < r * r)) &&
  (flag != some .SubOne || decide (r * r < v))

/-! ### rounding a rational to an integer: the definition of each mode -/

def cmpQ (a b : Rat) : Ordering := if a < b then .lt else if a = b then .eq else .gt

/-- `⌊x⌋` for `x = n / d`, `d > 0` -/
def floorQ (x : Rat) : Int := x.num / (x.den : Int)

/-- the integer the mode names for `x` (ties: `halfEven` to even, `halfAway` away from zero) -/
def roundInt (m : Mode) (x : Rat) : Int :=
  let f := floorQ x
  if (f : Rat) = x then f
  else
    let c := f + 1
    match m with
    | .down => f
    | .up => c
    | .zero => if x < 0 then c else f
    | .away => if x < 0 then f else c
    | .halfAway =>
      match cmpQ (2 * (x - f)) 1 with
      | .lt => f | .gt => c | .eq => if x < 0 then f else c
    | .halfEven =>
      match cmpQ (2 * (x - f)) 1 with
      | .lt => f | .gt => c | .eq => if f % 2 = 0 then f else c

/-- the correctly rounded `p`-digit value of `x` in mode `m` (canonical representative of the
    contract; flag by the side of the error) -/
def specRound (B : Nat) (m : Mode) (p : Nat) (x : Rat) : Rounded FRepr :=
  if x = 0 then (⟨0, 0⟩, none)
  else
    let e := ulpExp B p x
    let y := x / bpowQ B e
    let n := roundInt m y
    (FRepr.new B n e, if (n : Rat) = y then none else if y < (n : Rat) then some .AddOne else some .SubOne)

/-- `x` has at most `p` significant base-`B` digits -/
def representable (B p : Nat) (r : FRepr) : Bool := p == 0 || decide ((FRepr.new B r.signif r.exp).digits B ≤ p)

end Dashu.Model.Float
