import Dashu.Model.Cross.Num
/-
  C14 — mirrored comparison code.  Each definition names the Rust item it mirrors.

  ESTIMATE ORACLE (DESIGN §3): `log2_bounds` (f32 estimates) and `digits_ub` are parameters
  (`Oracle`); the theorems of `Props/C14` hold for every oracle satisfying the enclosure
  hypothesis.  Exact big-integer primitives (`shl_digits`, `<<`, `*`, `UBig::pow`) are used at
  their value (`* B^n`, `* 2^n`): they are refined by C01/C09.  `Ord for UBig/IBig` is written
  `compare` here; `Props/C14Link` proves every such `compare` equal to C05's mirrored
  integer/src/cmp.rs on the word representation (`Model/Cross/IntOrd.lean`, what the driver runs).
  The bit-length estimates are computed in `i128` by the code and in `Int` here; `Props/C14I128`
  proves that no i128 operation overflows (two's-complement text = this model).
  The code mirrored here is /repo AFTER the C14 fix commits (8a8c152 … d12bb0c, ee43486, a11f448);
  the code before the first seven is kept in `Model/Cross/Pre.lean` only to state what was wrong.
-/
namespace Dashu.Model.Cross

/-- an f32-like bound: `-∞`, a finite rational, `+∞` -/
inductive EB
  | ninf
  | fin (q : Rat)
  | pinf
  deriving Repr

/-- `a < b` on bounds (IEEE `<` restricted to non-NaN values) -/
def EB.lt : EB → EB → Bool
  | .ninf, .ninf => false
  | .ninf, _ => true
  | _, .ninf => false
  | .fin a, .fin b => decide (a < b)
  | .fin _, .pinf => true
  | .pinf, _ => false

/-- the estimators the comparison code consults -/
structure Oracle where
  /-- `UBig::log2_bounds`, `IBig::log2_bounds` (of the magnitude) -/
  nat : Nat → EB × EB
  /-- `Repr<B>::log2_bounds` (float/src/log.rs) on `(significand, exponent)` -/
  flt : Nat → Int → Int → EB × EB
  /-- rational `Repr::log2_bounds` (rational/src/repr.rs) on `(numerator, denominator)` -/
  rat : Int → Nat → EB × EB
  /-- `Repr<B>::digits_ub` (float/src/repr.rs) -/
  digitsUb : Nat → Int → Nat

/-- `Repr::is_infinite` -/
def fIsInf (s e : Int) : Bool := s == 0 && e != 0
/-- `Repr::is_zero` -/
def fIsZero (s e : Int) : Bool := s == 0 && e == 0
/-- `Repr::sign` (float/src/repr.rs): zero significand takes the sign of the exponent -/
def fSign (s e : Int) : Sign := if s = 0 then (if e ≥ 0 then .pos else .neg) else Sign.ofInt s

/-- `utils::shl_digits::<B>` : multiply by `B^n` -/
def shlDigits (B : Nat) (x : Int) (n : Nat) : Int := x * (B : Int) ^ n

/-- `(Sign, Sign)` match used everywhere: `none` = decided by the signs alone -/
def signMatch (l r : Sign) : Sign ⊕ Ordering :=
  match l, r with
  | .pos, .pos => .inl .pos
  | .pos, .neg => .inr .gt
  | .neg, .pos => .inr .lt
  | .neg, .neg => .inl .neg

/-- `abs_cmp` on integers -/
def absCmpInt (a b : Int) : Ordering := compare a.natAbs b.natAbs

-- ============================================================ integer/src/third_party/num_order.rs

/-- `impl NumOrd<IBig> for UBig` -/
def ubigCmpIbig (x : Nat) (y : Int) : Ordering :=
  match Sign.ofInt y with
  | .pos => compare x y.natAbs
  | .neg => .gt

/-- `impl NumOrd<UBig> for IBig` -/
def ibigCmpUbig (x : Int) (y : Nat) : Ordering :=
  match Sign.ofInt x with
  | .pos => compare x.natAbs y
  | .neg => .lt

/-- `impl_num_ord_ubig_with_float` : `NumOrd<f32/f64> for UBig` -/
def ubigNumOrdFloat (t : FloatTy) (x : Nat) (d : Decoded) : Option Ordering :=
  match d with
  | .nan => none
  | .inf neg => if neg then some .gt else some .lt
  | .fin man exp =>
    if man = 0 then (if x = 0 then some .eq else some .gt)          -- step0
    else if man < 0 then some .gt                                    -- step1
    else if x = 0 then some .lt                                      -- step2 (`|| self.is_zero()`)
    else
      let selfBits : Int := bitLen x                                 -- step3
      if selfBits > (t.mantDigits + t.maxExp : Nat) then some .gt
      else
        let otherBits : Int := (bitLen man.natAbs : Int) + exp       -- step4
        if otherBits < 0 then some .gt
        else if selfBits > otherBits then some .gt
        else if selfBits < otherBits then some .lt
        else if exp ≥ 0 then some (compare (x : Int) ((man.natAbs : Int) * 2 ^ exp.toNat))   -- step5
        else some (compare ((x : Int) * 2 ^ (-exp).toNat) (man.natAbs : Int))

/-- `impl_num_ord_ibig_with_float` : `NumOrd<f32/f64> for IBig` -/
def ibigNumOrdFloat (t : FloatTy) (x : Int) (d : Decoded) : Option Ordering :=
  match d with
  | .nan => none
  | .inf neg =>
    match signMatch (Sign.ofInt x) (if neg then .neg else .pos) with
    | .inr o => some o
    | .inl sign => some (sign.app .lt)                               -- step2
  | .fin man exp =>
    if man = 0 then (if x = 0 then some .eq else some ((Sign.ofInt x).app .gt))
    else
      match signMatch (Sign.ofInt x) (Sign.ofInt man) with
      | .inr o => some o
      | .inl sign =>
        if x = 0 then some .lt                                       -- zero against a positive float
        else
        let selfBits : Int := bitLen x.natAbs
        if selfBits > (t.mantDigits + t.maxExp : Nat) then some (sign.app .gt)
        else
          let otherBits : Int := (bitLen man.natAbs : Int) + exp
          if otherBits < 0 then some (sign.app .gt)
          else if selfBits > otherBits then some (sign.app .gt)
          else if selfBits < otherBits then some (sign.app .lt)
          else if exp ≥ 0 then some (compare x (man * 2 ^ exp.toNat))
          else some (compare (x * 2 ^ (-exp).toNat) man)

-- ============================================================ float/src/cmp.rs

/-- `repr_cmp_ubig::<B, ABS>` -/
def floatReprCmpUbig (o : Oracle) (abs : Bool) (B : Nat) (s e : Int) (r : Nat) : Ordering :=
  if fIsInf s e then (if e > 0 || abs then .gt else .lt)              -- case 1
  else if !abs && Sign.ofInt s == .neg then .lt                        -- case 2
  else
    let l := o.flt B s e                                               -- case 3
    let rb := o.nat r
    if EB.lt rb.2 l.1 then .gt
    else if EB.lt l.2 rb.1 then .lt
    else if e < 0 then                                                 -- case 4
      (if abs then absCmpInt s (shlDigits B (r : Int) (-e).toNat)
       else compare s (shlDigits B (r : Int) (-e).toNat))
    else
      (if abs then absCmpInt (shlDigits B s e.toNat) (r : Int)
       else compare (shlDigits B s e.toNat) (r : Int))

/-- `repr_cmp_ibig::<B, ABS>` -/
def floatReprCmpIbig (o : Oracle) (abs : Bool) (B : Nat) (s e : Int) (r : Int) : Ordering :=
  if fIsInf s e then (if e > 0 || abs then .gt else .lt)
  else
    match (if abs then Sum.inl Sign.pos else signMatch (Sign.ofInt s) (Sign.ofInt r)) with
    | .inr ord => ord
    | .inl sign =>
      let l := o.flt B s e
      let rb := o.nat r.natAbs
      if EB.lt rb.2 l.1 then sign.app .gt
      else if EB.lt l.2 rb.1 then sign.app .lt
      else if e < 0 then
        (if abs then absCmpInt s (shlDigits B r (-e).toNat) else compare s (shlDigits B r (-e).toNat))
      else
        (if abs then absCmpInt (shlDigits B s e.toNat) r else compare (shlDigits B s e.toNat) r)

/-- `isize::MAX` of the 64-bit target, as a precision bound (`lhs_prec.min(isize::MAX as usize) as isize`) -/
def isizeMax : Nat := 2 ^ 63 - 1

/-- `repr_cmp_same_base::<B, ABS>(lhs, rhs, precision)` (/repo ee43486: case 4 clamps the precisions to
    `isize::MAX`; the `saturating_add`s of cases 4/5 are exact sums over the unbounded `Int` exponents) -/
def reprCmpSameBase (o : Oracle) (abs : Bool) (B : Nat) (ls le rs re : Int)
    (prec : Option (Nat × Nat)) : Ordering :=
  -- case 1
  if fIsInf ls le && fIsInf rs re then (if abs then .eq else compare le re)
  else if fIsInf rs re then (if abs || re ≥ 0 then .lt else .gt)
  else if fIsInf ls le then (if abs || le ≥ 0 then .gt else .lt)
  else
    -- case 2
    match (if abs then Sum.inl Sign.pos else signMatch (Sign.ofInt ls) (Sign.ofInt rs)) with
    | .inr ord => ord
    | .inl sign =>
      -- case 3
      if fIsZero ls le && fIsZero rs re then .eq
      else if fIsZero ls le then .lt
      else if fIsZero rs re then .gt
      else
        -- case 4
        let c4 : Option Ordering :=
          match prec with
          | some (lp, rp) =>
            if lp ≠ 0 ∧ rp ≠ 0 then
              (if le > re + ((min rp isizeMax : Nat) : Int) then some (sign.app .gt)
               else if re > le + ((min lp isizeMax : Nat) : Int) then some (sign.app .lt) else none)
            else none
          | none => none
        match c4 with
        | some r => r
        | none =>
          -- case 5
          let ld : Int := o.digitsUb B ls
          let rd : Int := o.digitsUb B rs
          if le > re + rd then sign.app .gt
          else if re > le + ld then sign.app .lt
          else
            -- case 6
            if abs then
              (if le = re then absCmpInt ls rs
               else if le > re then absCmpInt (shlDigits B ls (le - re).toNat) rs
               else absCmpInt ls (shlDigits B rs (re - le).toNat))
            else
              (if le = re then compare ls rs
               else if le > re then compare (shlDigits B ls (le - re).toNat) rs
               else compare ls (shlDigits B rs (re - le).toNat))

-- ============================================================ float/src/third_party/num_order.rs

/-- `impl NumOrd<Repr<B2>> for Repr<B1>` -/
def reprNumCmp (o : Oracle) (B1 : Nat) (s1 e1 : Int) (B2 : Nat) (s2 e2 : Int) : Ordering :=
  if fIsInf s1 e1 && fIsInf s2 e2 then compare e1 e2                  -- case 1
  else if fIsInf s2 e2 then (if e2 ≥ 0 then .lt else .gt)
  else if fIsInf s1 e1 then (if e1 ≥ 0 then .gt else .lt)
  else
    match signMatch (Sign.ofInt s1) (Sign.ofInt s2) with              -- case 2
    | .inr ord => ord
    | .inl sign =>
      let a := o.flt B1 s1 e1                                          -- case 3
      let b := o.flt B2 s2 e2
      if EB.lt b.2 a.1 then sign.app .gt
      else if EB.lt a.2 b.1 then sign.app .lt
      else
        -- case 4
        let lhs0 := s1
        let rhs0 := s2
        let lhs1 := if e1 < 0 then lhs0 else shlDigits B1 lhs0 e1.toNat
        let rhs1 := if e1 < 0 then shlDigits B1 rhs0 (-e1).toNat else rhs0
        let lhs2 := if e2 < 0 then shlDigits B2 lhs1 (-e2).toNat else lhs1
        let rhs2 := if e2 < 0 then rhs1 else shlDigits B2 rhs1 e2.toNat
        compare lhs2 rhs2

/-- `impl_num_ord_with_float` : `NumOrd<f32/f64> for Repr<B>` (log₂ estimates in i128: no overflow) -/
def reprNumOrdFloat (t : FloatTy) (B : Nat) (s e : Int) (d : Decoded) : Option Ordering :=
  match d with
  | .nan => none
  | .inf neg =>
    match signMatch (fSign s e) (if neg then .neg else .pos) with      -- step1
    | .inr ord => some ord
    | .inl sign => if fIsInf s e then some .eq else some (sign.app .lt)  -- step2
  | .fin man exp =>
    if man = 0 then                                                    -- step0
      (if fIsZero s e then some .eq else some ((fSign s e).app .gt))
    else
      match signMatch (fSign s e) (Sign.ofInt man) with                -- step1
      | .inr ord => some ord
      | .inl sign =>
        if fIsInf s e then some (sign.app .gt)                         -- step2
        else if fIsZero s e then some .lt                              -- zero against a positive float
        else
          -- step3
          let selfSignifLog2 : Int := bitLen s.natAbs
          let selfLog2 : Int := selfSignifLog2 + (bitLen B : Int) * e
          let lb : Int := if e ≥ 0 then selfLog2 - e else selfLog2
          let ub : Int := if e ≥ 0 then selfLog2 else selfLog2 - e
          if lb > (t.mantDigits + t.maxExp : Nat) then some (sign.app .gt)
          else
            -- step4
            let otherLog2 : Int := (bitLen man.natAbs : Int) + exp
            if lb > otherLog2 then some (sign.app .gt)
            else if ub < otherLog2 then some (sign.app .lt)
            else
              -- step5
              let lhs1 := if e < 0 then s else shlDigits B s e.toNat
              let rhs1 := if e < 0 then shlDigits B man (-e).toNat else man
              let lhs2 := if exp < 0 then lhs1 * 2 ^ (-exp).toNat else lhs1
              let rhs2 := if exp < 0 then rhs1 else rhs1 * 2 ^ exp.toNat
              some (compare lhs2 rhs2)

/-- base/src/sign.rs `impl AbsOrd for iN`: `self.unsigned_abs().cmp(&rhs.unsigned_abs())` -/
def primIntAbsCmp (a b : Int) : Ordering := compare a.natAbs b.natAbs

-- ============================================================ rational/src/cmp.rs

/-- `repr_eq::<ABS>` -/
def ratReprEq (abs : Bool) (n1 : Int) (d1 : Nat) (n2 : Int) (d2 : Nat) : Bool :=
  if !abs && Sign.ofInt n1 != Sign.ofInt n2 then false
  else if n1 = 0 then n2 == 0
  else
    let a : Int := (bitLen n1.natAbs : Int) + bitLen d2
    let b : Int := (bitLen n2.natAbs : Int) + bitLen d1
    if (a - b).natAbs > 1 then false
    else (n1 * d2).natAbs == (n2 * d1).natAbs

/-- `repr_cmp::<ABS>` -/
def ratReprCmp (abs : Bool) (n1 : Int) (d1 : Nat) (n2 : Int) (d2 : Nat) : Ordering :=
  match (if abs then Sum.inl false else
          match signMatch (Sign.ofInt n1) (Sign.ofInt n2) with
          | .inl .pos => Sum.inl false
          | .inl .neg => Sum.inl true
          | .inr o => Sum.inr o) with
  | .inr o => o
  | .inl negative =>
    -- step2
    if d1 = 1 ∧ d2 = 1 then (if abs then absCmpInt n1 n2 else compare n1 n2)
    else if n1 = 0 ∧ n2 = 0 then .eq
    else if n1 = 0 then .lt
    else if n2 = 0 then .gt
    else
      -- step3
      let lb : Int := (bitLen n1.natAbs : Int) - bitLen d1
      let rb : Int := (bitLen n2.natAbs : Int) - bitLen d2
      if lb > rb + 1 then (if negative then .lt else .gt)
      else if rb < lb - 1 then (if negative then .gt else .lt)
      else
        -- step4
        if abs then absCmpInt (n1 * d2) (n2 * d1) else compare (n1 * (d2 : Int)) (n2 * (d1 : Int))

/-- `repr_cmp_ubig::<ABS>` (rational) -/
def ratReprCmpUbig (o : Oracle) (abs : Bool) (n : Int) (d : Nat) (r : Nat) : Ordering :=
  if !abs && Sign.ofInt n == .neg then .lt
  else
    let l := o.rat n d
    let rb := o.nat r
    if EB.lt rb.2 l.1 then .gt
    else if EB.lt l.2 rb.1 then .lt
    else absCmpInt n ((r : Int) * d)

/-- `repr_cmp_ibig::<ABS>` (rational) -/
def ratReprCmpIbig (o : Oracle) (abs : Bool) (n : Int) (d : Nat) (r : Int) : Ordering :=
  match (if abs then Sum.inl Sign.pos else signMatch (Sign.ofInt n) (Sign.ofInt r)) with
  | .inr ord => ord
  | .inl sign =>
    let l := o.rat n d
    let rb := o.nat r.natAbs
    if EB.lt rb.2 l.1 then sign.app .gt
    else if EB.lt l.2 rb.1 then sign.app .lt
    else if abs then absCmpInt n (r * d) else compare n (r * (d : Int))

/-- `with_float::repr_cmp_fbig::<B, ABS>` -/
def ratReprCmpFbig (o : Oracle) (abs : Bool) (n : Int) (d : Nat) (B : Nat) (s e : Int) : Ordering :=
  if fIsInf s e then (if abs || e > 0 then .lt else .gt)
  else
    match (if abs then Sum.inl Sign.pos else signMatch (Sign.ofInt n) (Sign.ofInt s)) with
    | .inr ord => ord
    | .inl sign =>
      let l := o.rat n d
      let rb := o.flt B s e
      if EB.lt rb.2 l.1 then sign.app .gt
      else if EB.lt l.2 rb.1 then sign.app .lt
      else
        let lhs : Int := if e < 0 then n * (B : Int) ^ (-e).toNat else n
        let rhs : Int := if e < 0 then s * d else s * d * (B : Int) ^ e.toNat
        if abs then absCmpInt lhs rhs else compare lhs rhs

-- ============================================================ rational/src/third_party/num_order.rs

/-- `impl_num_ord_with_float` : `NumOrd<f32/f64> for Repr` (rational) -/
def ratNumOrdFloat (t : FloatTy) (n : Int) (d : Nat) (dec : Decoded) : Option Ordering :=
  match dec with
  | .nan => none
  | .inf neg => if neg then some .gt else some .lt
  | .fin man exp =>
    if man = 0 then (if n = 0 then some .eq else some ((Sign.ofInt n).app .gt))
    else
      match signMatch (Sign.ofInt n) (Sign.ofInt man) with
      | .inr ord => some ord
      | .inl sign =>
        if n = 0 then some .lt else                                    -- zero against a positive float
        let selfLog2 : Int := (bitLen n.natAbs : Int) - bitLen d
        let lb := selfLog2 - 1
        let ub := selfLog2 + 1
        if lb > (t.mantDigits + t.maxExp : Nat) then some (sign.app .gt)
        else
          let otherLog2 : Int := (bitLen man.natAbs : Int) + exp - 1
          if lb > otherLog2 then some (sign.app .gt)
          else if ub < otherLog2 then some (sign.app .lt)
          else
            let lhs : Int := if exp < 0 then n * 2 ^ (-exp).toNat else n
            let rhs : Int := if exp < 0 then man * d else man * d * 2 ^ exp.toNat
            some (compare lhs rhs)

-- ============================================================ dispatch tables

/-- operand kinds after the glue conversions (`UBig::from`, `IBig::from`, `FBig::repr`, `.0`) -/
inductive Kind
  | nat (n : Nat)                 -- UBig, unsigned primitives
  | int (i : Int)                 -- IBig, signed primitives
  | flt (B : Nat) (s e : Int) (prec : Nat)
  | rat (reduced : Bool) (n : Int) (d : Nat)
  | pf (t : FloatTy) (dec : Decoded)

def Num.kind : Num → Kind
  | .ubig n => .nat n
  | .ibig i => .int i
  | .fbig B s e p => .flt B s e p
  | .rbig n d => .rat true n d
  | .relaxed n d => .rat false n d
  | .pint t v => if t.signed then .int v else .nat v.toNat
  | .pfloat t b => .pf t (decode t b)

def Num.isPrim : Num → Bool
  | .pint _ _ => true
  | .pfloat _ _ => true
  | _ => false

def swapO : Option Ordering → Option Ordering := Option.map Ordering.swap

/-- `num_partial_cmp` over the table of `impl NumOrd<Rhs> for Lhs` of the three `num_order.rs`
    files, on operand kinds; outer `none` = no such impl. -/
def numPartialCmpK (o : Oracle) : Kind → Kind → Option (Option Ordering)
  -- integer crate
  | .nat a, .nat b => some (some (compare a b))
  | .nat a, .int b => some (some (ubigCmpIbig a b))
  | .int a, .nat b => some (some (ibigCmpUbig a b))
  | .int a, .int b => some (some (compare a b))
  | .nat a, .pf t d => some (ubigNumOrdFloat t a d)
  | .pf t d, .nat a => some (swapO (ubigNumOrdFloat t a d))
  | .int a, .pf t d => some (ibigNumOrdFloat t a d)
  | .pf t d, .int a => some (swapO (ibigNumOrdFloat t a d))
  -- float crate
  | .flt B1 s1 e1 _, .flt B2 s2 e2 _ => some (some (reprNumCmp o B1 s1 e1 B2 s2 e2))
  | .flt B s e _, .nat r => some (some (floatReprCmpUbig o false B s e r))
  | .nat r, .flt B s e _ => some (some (floatReprCmpUbig o false B s e r).swap)
  | .flt B s e _, .int r => some (some (floatReprCmpIbig o false B s e r))
  | .int r, .flt B s e _ => some (some (floatReprCmpIbig o false B s e r).swap)
  | .flt B s e _, .pf t d => some (reprNumOrdFloat t B s e d)
  | .pf t d, .flt B s e _ => some (swapO (reprNumOrdFloat t B s e d))
  -- rational crate
  | .rat r1 n1 d1, .rat r2 n2 d2 =>
      if r1 != r2 then some (some (ratReprCmp false n1 d1 n2 d2)) else none
  | .rat _ n d, .nat r => some (some (ratReprCmpUbig o false n d r))
  | .nat r, .rat _ n d => some (some (ratReprCmpUbig o false n d r).swap)
  | .rat _ n d, .int r => some (some (ratReprCmpIbig o false n d r))
  | .int r, .rat _ n d => some (some (ratReprCmpIbig o false n d r).swap)
  | .rat _ n d, .flt B s e _ => some (some (ratReprCmpFbig o false n d B s e))
  | .flt B s e _, .rat _ n d => some (some (ratReprCmpFbig o false n d B s e).swap)
  | .rat _ n d, .pf t dec => some (ratNumOrdFloat t n d dec)
  | .pf t dec, .rat _ n d => some (swapO (ratNumOrdFloat t n d dec))
  | .pf _ _, .pf _ _ => none

/-- `num_partial_cmp` on protocol numbers (primitive × primitive is num-order's own code) -/
def numPartialCmp (o : Oracle) (x y : Num) : Option (Option Ordering) :=
  if x.isPrim && y.isPrim then none else numPartialCmpK o x.kind y.kind

/-- `num_eq`: the trait default (`num_partial_cmp == Some(Equal)`) except the RBig/Relaxed pair,
    which overrides it with `repr_eq::<false>` -/
def numEq (o : Oracle) (x y : Num) : Option Bool :=
  match x.kind, y.kind with
  | .rat r1 n1 d1, .rat r2 n2 d2 =>
      if r1 != r2 then some (ratReprEq false n1 d1 n2 d2) else none
  | _, _ => (numPartialCmp o x y).map fun r => r == some .eq

/-- `abs_cmp` over the table of `impl AbsOrd<Rhs> for Lhs` (integer/float/rational `cmp.rs`) on
    operand kinds -/
def absCmpK (o : Oracle) : Kind → Kind → Option Ordering
  | .nat a, .nat b => some (compare a b)
  | .nat a, .int b => some (compare a b.natAbs)
  | .int a, .nat b => some (compare a.natAbs b)
  | .int a, .int b => some (compare a.natAbs b.natAbs)
  | .flt B1 s1 e1 p1, .flt B2 s2 e2 p2 =>
      if B1 = B2 then some (reprCmpSameBase o true B1 s1 e1 s2 e2 (some (p1, p2))) else none
  | .flt B s e _, .nat r => some (floatReprCmpUbig o true B s e r)
  | .nat r, .flt B s e _ => some (floatReprCmpUbig o true B s e r).swap
  | .flt B s e _, .int r => some (floatReprCmpIbig o true B s e r)
  | .int r, .flt B s e _ => some (floatReprCmpIbig o true B s e r).swap
  | .rat _ n1 d1, .rat _ n2 d2 => some (ratReprCmp true n1 d1 n2 d2)
  | .rat _ n d, .nat r => some (ratReprCmpUbig o true n d r)
  | .nat r, .rat _ n d => some (ratReprCmpUbig o true n d r).swap
  | .rat _ n d, .int r => some (ratReprCmpIbig o true n d r)
  | .int r, .rat _ n d => some (ratReprCmpIbig o true n d r).swap
  | .rat _ n d, .flt B s e _ => some (ratReprCmpFbig o true n d B s e)
  | .flt B s e _, .rat _ n d => some (ratReprCmpFbig o true n d B s e).swap
  | _, _ => none

/-- `abs_cmp` on protocol numbers; primitives only against the same type (base/src/sign.rs,
    handled by the driver with `primIntAbsCmp`). -/
def absCmp (o : Oracle) (x y : Num) : Option Ordering :=
  if x.isPrim || y.isPrim then none else absCmpK o x.kind y.kind

/-- core `Ord`/`PartialOrd` between two values of one type -/
def ordCmp (o : Oracle) (x y : Num) : Option Ordering :=
  match x, y with
  | .ubig a, .ubig b => some (compare a b)
  | .ibig a, .ibig b => some (compare a b)
  | .fbig B1 s1 e1 p1, .fbig B2 s2 e2 p2 =>
      if B1 = B2 then some (reprCmpSameBase o false B1 s1 e1 s2 e2 (some (p1, p2))) else none
  | .rbig n1 d1, .rbig n2 d2 => some (ratReprCmp false n1 d1 n2 d2)
  | .relaxed n1 d1, .relaxed n2 d2 => some (ratReprCmp false n1 d1 n2 d2)
  | _, _ => none

end Dashu.Model.Cross
