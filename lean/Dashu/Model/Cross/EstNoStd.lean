import Dashu.Model.Cross.Oracle
import Dashu.Model.NT.Log
/-
  C14 — the no_std (table-driven) `log2_bounds` estimators of the big integers
  (base/src/math/log.rs `#[cfg(not(feature = "std"))]` impls for `u8`, `u16`, `u32 … u128`;
  integer/src/log.rs `log2_bounds_large`) and of the rational `Repr` (rational/src/repr.rs),
  mirrored over `Rat` with the three binary32 operations they use as PARAMETERS (`F32`:
  `fl` = round-to-nearest of an exact result, `nd` = `next_down`, `nu` = `next_up`).
  `Proofs/Cross/EstNoStd.lean` proves that they satisfy the enclosure hypothesis of `Props/C14`
  under the IEEE-754 facts `F32.Ax` — no assumption about libm (the table part is builder-nt's
  `log2_fp8_sound` / `log2_wide_sound` / `log2_u8_sound`).  With exact arithmetic for the three
  operations (`F32.exact`, which satisfies `F32.Ax`) the estimator is executable: the driver runs every
  comparison also with `noStdExactOracle` (the table path deciding the filter).  Core Lean only.
-/
namespace Dashu.Model.Cross.EstNoStd
open Dashu.Model.Cross
open Dashu.Model (NT.log2Fp8 NT.ceilLog2Fp8)

/-- the binary32 operations the estimator uses -/
structure F32 where
  /-- rounding of an exact real result to binary32 (round to nearest) -/
  fl : Rat → Rat
  /-- base/src/math/log.rs `next_down` -/
  nd : Rat → Rat
  /-- base/src/math/log.rs `next_up` -/
  nu : Rat → Rat

/-- unit roundoff of binary32 -/
def u : Rat := 1 / 2 ^ 24

/-- `is_power_of_two` (non-zero argument) -/
def isPow2 (x : Nat) : Bool := x == 2 ^ (bitLen x - 1)

/-- `n as f32 / 256.0` -/
def q8 (F : F32) (n : Nat) : Rat := F.fl ((n : Rat) / 256)

/-- base/src/math/log.rs `#[cfg(not(feature = "std"))] impl EstimatedLog2 for u8` -/
def u8NoStd (F : F32) (i : Nat) : EB × EB :=
  if i = 0 then (.ninf, .ninf)
  else if i = 1 then (.fin 0, .fin 0)
  else if isPow2 i then (.fin ((bitLen i - 1 : Nat) : Rat), .fin ((bitLen i - 1 : Nat) : Rat))
  else if i = 3 then (.fin (13295629 / 2 ^ 23), .fin (13295630 / 2 ^ 23))   -- `(1.5849625, 1.5849626)`
  else if i < 16 then
    (.fin (F.fl (q8 F (NT.log2Fp8 (i ^ 4)) / 4)), .fin (F.fl (q8 F (NT.ceilLog2Fp8 (i ^ 4)) / 4)))
  else
    (.fin (F.fl (q8 F (NT.log2Fp8 (i ^ 2)) / 2)), .fin (F.fl (q8 F (NT.ceilLog2Fp8 (i ^ 2)) / 2)))

/-- `impl EstimatedLog2 for u16` and `impl_log2_bounds_for_uint!(u32 u64 u128 usize)` (no_std); the
    two agree on 16-bit values -/
def primNoStd (F : F32) (x : Nat) : EB × EB :=
  if x ≤ 0xff then u8NoStd F x
  else if isPow2 x then (.fin ((bitLen x - 1 : Nat) : Rat), .fin ((bitLen x - 1 : Nat) : Rat))
  else if bitLen x ≤ 16 then (.fin (q8 F (NT.log2Fp8 x)), .fin (q8 F (NT.ceilLog2Fp8 x)))
  else
    let shift := bitLen x - 16
    let hi := x / 2 ^ shift
    let lb := q8 F (NT.log2Fp8 hi)
    let ub := q8 F (if hi = 2 ^ 15 then 15 * 256 + 1 else NT.ceilLog2Fp8 hi)
    (.fin (F.nd (F.fl (lb + (shift : Rat)))), .fin (F.nu (F.fl (ub + (shift : Rat)))))

/-- `words.len()` of a non-zero value -/
def wordLen (W x : Nat) : Nat := (bitLen x + W - 1) / W

/-- integer/src/log.rs `log2_bounds_large` (values of at least three words): the estimate of the top
    double word plus the remaining bits, widened multiplicatively by `ADJUST = 2·f32::EPSILON = 4u` -/
def largeNoStd (F : F32) (W x : Nat) : EB × EB :=
  let rem := (wordLen W x - 2) * W
  let hi := x / 2 ^ rem                                  -- `highest_dword(words)`
  match primNoStd F hi with
  | (.fin hl, .fin hu) =>
    (.fin (F.fl (F.fl (hl + F.fl (rem : Rat)) * (1 - 4 * u))), .fin (F.fl (F.fl (hu + F.fl (rem : Rat)) * (1 + 4 * u))))
  | b => b

/-- integer/src/log.rs `TypedReprRef::log2_bounds` = `UBig::log2_bounds` = `IBig::log2_bounds` (of the
    magnitude): inline values through the `DoubleWord` impl, heap values through `log2_bounds_large` -/
def natNoStd (F : F32) (W x : Nat) : EB × EB :=
  if x < 2 ^ (2 * W) then primNoStd F x else largeNoStd F W x

/-- rational/src/repr.rs `Repr::log2_bounds`: `(next_down(n_lb − d_ub), next_up(n_ub − d_lb))` -/
def ratNoStd (F : F32) (W : Nat) (n : Int) (d : Nat) : EB × EB :=
  if n = 0 then (.ninf, .ninf)
  else
    match natNoStd F W n.natAbs, natNoStd F W d with
    | (.fin nl, .fin nh), (.fin dl, .fin dh) => (.fin (F.nd (F.fl (nl - dh))), .fin (F.nu (F.fl (nh - dl))))
    | _, _ => (.ninf, .pinf)       -- an infinite operand bound: only for a zero operand, excluded above

/-- exact arithmetic for the three operations (no rounding, no widening): satisfies `F32.Ax` -/
def F32.exact : F32 := { fl := id, nd := id, nu := id }

/-- an executable oracle whose integer and rational estimators are the no_std table code with exact
    arithmetic (float estimator and `digits_ub`: the bit-length ones of `Oracle.coarse`) -/
def noStdExactOracle (W : Nat) : Oracle :=
  { nat := natNoStd F32.exact W, flt := fltBounds, rat := ratNoStd F32.exact W, digitsUb := digitsUbCoarse }

end Dashu.Model.Cross.EstNoStd
