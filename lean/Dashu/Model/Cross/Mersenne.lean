import Dashu.Model.Cross.Hash
/-
  C14 — `num_modular::FixedMersenneInt<127, 1>` (= `ReducedInt<u128, FixedMersenne<127, 1>>`, crate
  num-modular 0.6.5, src/mersenne.rs, src/reduced.rs, src/prim.rs) mirrored operation by operation,
  and the `NumHash` impls re-expressed through it (`…M` definitions: what the driver executes).

  `v & BITMASK` is `v % 2^127`, `v >> P` / `checked_shr(P)` is `v / 2^127`; `u128`/`udouble` values
  are `Nat`s (the theorems state the ranges in which no machine overflow occurs).  The only
  primitive used at its value is `u128::mulm` (`a * b % m` through `udouble`) inside `invm`.
-/
namespace Dashu.Model.Cross.Mersenne

/-- `2^P`, `P = 127` -/
def TWO_P : Nat := 2 ^ 127
/-- `FixedMersenne::<127,1>::MODULUS` (= `BITMASK`) -/
def MODULUS : Nat := 2 ^ 127 - 1

/-- the `while hi > 0 { sum = hi + lo; lo = sum & BITMASK; hi = sum >> P }` loop of `reduce_single`
    (and of `reduce_double`'s general branch) -/
def foldLoop (lo hi : Nat) : Nat :=
  if hi = 0 then lo
  else foldLoop ((hi + lo) % TWO_P) ((hi + lo) / TWO_P)
termination_by hi * TWO_P + lo
decreasing_by
  have h1 := Nat.div_add_mod (hi + lo) TWO_P
  have h2 : hi * 2 ≤ hi * TWO_P := Nat.mul_le_mul_left hi (by unfold TWO_P; exact Nat.le_of_lt_succ (by decide))
  rw [Nat.mul_comm] at h1
  omega

/-- final conditional subtraction -/
def finish (lo : Nat) : Nat := if lo ≥ MODULUS then lo - MODULUS else lo

/-- `FixedMersenne::reduce_single` (= `Reducer::transform`, used by `ReducedInt::new` / `convert`) -/
def reduceSingle (v : Nat) : Nat := finish (foldLoop (v % TWO_P) (v / TWO_P))

/-- phase 1 of the `udouble` `reduce_double`: `while hi.hi > 0 { … }` -/
def phase1 (lo hi : Nat) : Nat × Nat :=
  if hi < 2 ^ 128 then (lo, hi)
  else phase1 ((hi + lo) % TWO_P) ((hi + lo) / TWO_P)
termination_by hi * TWO_P + lo
decreasing_by
  have h0 : 0 < hi := by omega
  have h1 := Nat.div_add_mod (hi + lo) TWO_P
  have h2 : hi * 2 ≤ hi * TWO_P := Nat.mul_le_mul_left hi (by unfold TWO_P; exact Nat.le_of_lt_succ (by decide))
  rw [Nat.mul_comm] at h1
  omega

/-- `FixedMersenne::<127,1>::reduce_double` (`udouble` variant, `FOLDS = 2`: two unrolled folds) -/
def reduceDouble (v : Nat) : Nat :=
  let p := phase1 (v % TWO_P) (v / TWO_P)
  let s1 := p.2 + p.1
  let lo1 := s1 % TWO_P
  let hi1 := s1 / TWO_P
  let s2 := hi1 + lo1
  finish (s2 % TWO_P)

/-- `Reducer::mul` (`P ≥ 64`: `reduce_double(widening_mul)`) -/
def mul (a b : Nat) : Nat := reduceDouble (a * b)
/-- `Reducer::sqr` -/
def sqr (a : Nat) : Nat := reduceDouble (a * a)

/-- the `while exp > 0` loop of `impl_reduced_binary_pow` -/
def powLoop (multi exp result : Nat) : Nat :=
  if exp = 0 then result
  else powLoop (sqr multi) (exp / 2) (if exp % 2 = 1 then mul result multi else result)
termination_by exp
decreasing_by omega

/-- `Reducer::pow` -/
def pow (base exp : Nat) : Nat :=
  if exp = 1 then base
  else if exp = 2 then sqr base
  else powLoop base exp (reduceSingle 1)

/-- `u128::negm` -/
def negm (x m : Nat) : Nat := if x % m = 0 then 0 else m - x % m
/-- `u128::subm` -/
def subm (a b m : Nat) : Nat := if a ≥ b then (a - b) % m else negm ((b - a) % m) m
/-- `u128::mulm` (at its value) -/
def mulm (a b m : Nat) : Nat := a * b % m

/-- the extended-Euclid loop of `u128::invm` -/
def invLoop (m lastR r lastT t : Nat) : Nat × Nat :=
  if r = 0 then (lastR, lastT)
  else invLoop m r (lastR % r) t (subm lastT (mulm (lastR / r) t m) m)
termination_by r
decreasing_by exact Nat.mod_lt _ (by omega)

/-- `u128::invm` -/
def invm (x m : Nat) : Option Nat :=
  let x' := if x ≥ m then x % m else x
  let p := invLoop m m x' 0 1
  if p.1 > 1 then none else some p.2

/-- `Reducer::inv` (`P = 127 ≥ usize::BITS`: `target.invm(&MODULUS)`) -/
def inv (a : Nat) : Option Nat := invm a MODULUS

end Dashu.Model.Cross.Mersenne

namespace Dashu.Model.Cross
open Mersenne

/-- `impl NumHash for Repr<B>` (float) through `FixedMersenneInt<127,1>`; `none` = the `unwrap()` of
    `inv()` would panic -/
def floatHashM (B : Nat) (s e : Int) : Option Int :=
  let signifResidue : Int := Int.tmod s (M127 : Int)
  let signifHash : Nat := reduceSingle signifResidue.natAbs            -- MInt::new
  let expHash : Option Nat :=
    if B = 2 then some (reduceSingle (2 ^ (e % 127).toNat))            -- convert(1 << exponent.rem_euclid(127))
    else if e < 0 then inv (pow (reduceSingle B) (-e).toNat)           -- convert(B).pow(exponent.unsigned_abs()).inv()
    else some (pow (reduceSingle B) e.toNat)
  expHash.map fun eh =>
    let hash : Int := (mul signifHash eh : Nat)
    i128NumHash (if signifResidue < 0 then -hash else hash)

/-- the body of `impl NumHash for Repr` (rational) through `FixedMersenneInt<127,1>` -/
def ratHashPreM (n : Int) (d : Nat) : Option Int :=
  let ub := d % M127
  if ub = 0 then
    some (if n > 0 then i128NumHash ((2 : Int) ^ 127 - 1) else i128NumHash (-((2 : Int) ^ 127 - 1)))
  else
    (inv (reduceSingle ub)).map fun binv =>
      let ua : Nat := reduceSingle (Int.tmod n (M127 : Int)).natAbs    -- binv.convert(|ua|)
      let ab : Int := (mul ua binv : Nat)
      i128NumHash (if n < 0 then -ab else ab)

/-- `impl NumHash for Repr` (rational), current code -/
def ratHashM (n : Int) (d : Nat) : Option Int :=
  let p := stripM (bitLen d) n d
  ratHashPreM p.1 p.2

/-- num-order `FloatHash::fhash` for f32/f64 through `FixedMersenneInt<127,1>` -/
def primFloatHashM (t : FloatTy) (bits : Nat) : Int :=
  let mb := t.mantBits
  let signBit := (bits >>> (mb + t.expBits)) % 2
  let mant := bits % 2 ^ mb
  let ex := (bits >>> mb) % 2 ^ t.expBits
  if ex = 2 ^ t.expBits - 1 then
    (if mant ≠ 0 then i128NumHash (-((2 : Int) ^ 127))
     else if signBit > 0 then i128NumHash (-((2 : Int) ^ 127 - 1))
     else i128NumHash ((2 : Int) ^ 127 - 1))
  else
    let mantissa : Nat := if ex = 0 then mant <<< 1 else mant ||| 2 ^ mb
    let exponent : Int := (ex : Int) - (t.bias + mb : Nat)
    let m := reduceSingle mantissa                                     -- MInt::new(mantissa)
    let pow := reduceSingle (2 ^ (exponent % 127).toNat)               -- convert(1 << absm)
    let v : Nat := mul m pow
    i128NumHash (if signBit = 0 then (v : Int) else -(v : Int))

/-- the `i128` written to the hasher by `num_hash`, with every `FixedMersenneInt` operation mirrored
    (`none` = an `unwrap()` on a missing inverse would panic) -/
def numHashFeedM : Num → Option Int
  | .fbig B s e _ => floatHashM B s e
  | .rbig n d => ratHashM n d
  | .relaxed n d => ratHashM n d
  | .pfloat t b => some (primFloatHashM t b)
  | x => some (numHashFeed x)

end Dashu.Model.Cross
