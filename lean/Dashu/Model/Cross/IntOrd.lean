import Dashu.Model.Cross.Ord
import Dashu.Model.Int.Cmp
/-
  C14 — the big-integer comparisons of the cross-type tables executed through C05's MIRRORED
  `integer/src/cmp.rs` (`cmp_same_len`, `cmp_in_place`, `Ord for TypedReprRef` with its
  `RefSmall < RefLarge` shortcut, `Ord for IBig`) on the canonical word representation of the
  operands, instead of `compare` on the values.  `Props/C14Link.lean` proves (by importing C05's
  `TRepr.cmp_spec` / `SRepr.cmp_spec`) that each definition here equals the value-level entry of
  `Model/Cross/Ord.lean` it replaces, for every word size `W ≥ 1`.  The driver runs THESE.
  Core Lean only.
-/
namespace Dashu.Model.Cross
open Dashu.Model

/-- `impl Ord for UBig`: `self.repr().cmp(&other.repr())` -/
def ubigOrdW (W : Nat) (a b : Nat) : Ordering := (ofNat W a).cmp (ofNat W b)

/-- `impl Ord for IBig`: `as_sign_repr` on both sides, sign match, magnitudes by `TypedReprRef::cmp` -/
def ibigOrdW (W : Nat) (a b : Int) : Ordering := (sOfInt W a).cmp (sOfInt W b)

/-- integer/src/third_party/num_order.rs `impl NumOrd<IBig> for UBig`:
    `match rhs_sign { Positive => self.repr().cmp(&rhs_mag), Negative => Greater }` -/
def ubigCmpIbigW (W : Nat) (x : Nat) (y : Int) : Ordering :=
  let r := sOfInt W y
  if r.neg then .gt else (ofNat W x).cmp r.mag

/-- `impl NumOrd<UBig> for IBig` -/
def ibigCmpUbigW (W : Nat) (x : Int) (y : Nat) : Ordering :=
  let l := sOfInt W x
  if l.neg then .lt else l.mag.cmp (ofNat W y)

/-- integer/src/cmp.rs `impl AbsOrd for UBig / IBig`, `AbsOrd<UBig> for IBig`, `AbsOrd<IBig> for UBig`:
    `self.0.as_sign_typed().1.cmp(&rhs.0.as_sign_typed().1)` -/
def intAbsOrdW (W : Nat) (a b : Int) : Ordering := (sOfInt W a).mag.cmp (sOfInt W b).mag

/-- integer/src/cmp.rs `impl AbsEq …`: `self.0.as_sign_slice().1.eq(rhs.0.as_sign_slice().1)` -/
def intAbsEqW (W : Nat) (a b : Int) : Bool := (sOfInt W a).mag.words W == (sOfInt W b).mag.words W

/-- the integer × integer entries of `numPartialCmpK` through the mirrored word-level code -/
def numPartialCmpKW (W : Nat) (o : Oracle) : Kind → Kind → Option (Option Ordering)
  | .nat a, .nat b => some (some (ubigOrdW W a b))
  | .nat a, .int b => some (some (ubigCmpIbigW W a b))
  | .int a, .nat b => some (some (ibigCmpUbigW W a b))
  | .int a, .int b => some (some (ibigOrdW W a b))
  | x, y => numPartialCmpK o x y

/-- `num_partial_cmp` as the driver runs it -/
def numPartialCmpW (W : Nat) (o : Oracle) (x y : Num) : Option (Option Ordering) :=
  if x.isPrim && y.isPrim then none else numPartialCmpKW W o x.kind y.kind

/-- `num_eq` as the driver runs it -/
def numEqW (W : Nat) (o : Oracle) (x y : Num) : Option Bool :=
  match x.kind, y.kind with
  | .rat r1 n1 d1, .rat r2 n2 d2 =>
      if r1 != r2 then some (ratReprEq false n1 d1 n2 d2) else none
  | _, _ => (numPartialCmpW W o x y).map fun r => r == some .eq

/-- the integer × integer entries of `absCmpK` through the mirrored word-level code -/
def absCmpKW (W : Nat) (o : Oracle) : Kind → Kind → Option Ordering
  | .nat a, .nat b => some (intAbsOrdW W a b)
  | .nat a, .int b => some (intAbsOrdW W a b)
  | .int a, .nat b => some (intAbsOrdW W a b)
  | .int a, .int b => some (intAbsOrdW W a b)
  | x, y => absCmpK o x y

/-- `abs_cmp` as the driver runs it -/
def absCmpW (W : Nat) (o : Oracle) (x y : Num) : Option Ordering :=
  if x.isPrim || y.isPrim then none else absCmpKW W o x.kind y.kind

/-- core `Ord` as the driver runs it -/
def ordCmpW (W : Nat) (o : Oracle) (x y : Num) : Option Ordering :=
  match x, y with
  | .ubig a, .ubig b => some (ubigOrdW W a b)
  | .ibig a, .ibig b => some (ibigOrdW W a b)
  | x, y => ordCmp o x y

end Dashu.Model.Cross
