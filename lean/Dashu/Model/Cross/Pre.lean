import Dashu.Model.Cross.Ord
/-
  C14 — the comparison code as it was BEFORE the fix commits 8a8c152 (zero vs small float),
  d12bb0c (IBig vs infinity), 2670e13 (AbsOrd FBig × UBig/IBig), 318bce3, 8e7c970 in /repo, and the
  input classes on which it was wrong.  Nothing here is executed by the driver; these definitions
  only serve (a) as labelled as-is statements of the repaired defects (`Props/C14`, `…_prefix_…`)
  and (b) as stepping stones: the proofs about the current code reuse the proofs about the old code
  outside the defect classes.
-/
namespace Dashu.Model.Cross

/-- `impl_num_ord_ubig_with_float` : `NumOrd<f32/f64> for UBig` -/
def ubigNumOrdFloatPre (t : FloatTy) (x : Nat) (d : Decoded) : Option Ordering :=
  match d with
  | .nan => none
  | .inf neg => if neg then some .gt else some .lt
  | .fin man exp =>
    if man = 0 then (if x = 0 then some .eq else some .gt)          -- step0
    else if man < 0 then some .gt                                    -- step1
    else
      let selfBits : Int := bitLen x                                 -- step3
      if selfBits > (t.mantDigits + t.maxExp : Nat) then some .gt
      else
        let otherBits : Int := (bitLen man.natAbs : Int) + exp       -- step4
        if otherBits < 0 then some .gt
        else if selfBits > otherBits then some .gt
        else if selfBits < otherBits then some .lt
        else if exp ≥ 0 then some (compare (x : Int) ((man.natAbs : Int) * 2 ^ exp.toNat))   -- step5
        else some (compare ((x : Int) * 2 ^ (-exp).toNat) (man.natAbs : Int))

/-- `impl_num_ord_ibig_with_float` : `NumOrd<f32/f64> for IBig` (as written, including
    `Some(-sign * Ordering::Less)` in step2) -/
def ibigNumOrdFloatPre (t : FloatTy) (x : Int) (d : Decoded) : Option Ordering :=
  match d with
  | .nan => none
  | .inf neg =>
    match signMatch (Sign.ofInt x) (if neg then .neg else .pos) with
    | .inr o => some o
    | .inl sign => some (sign.flip.app .lt)                          -- step2
  | .fin man exp =>
    if man = 0 then (if x = 0 then some .eq else some ((Sign.ofInt x).app .gt))
    else
      match signMatch (Sign.ofInt x) (Sign.ofInt man) with
      | .inr o => some o
      | .inl sign =>
        let selfBits : Int := bitLen x.natAbs
        if selfBits > (t.mantDigits + t.maxExp : Nat) then some (sign.app .gt)
        else
          let otherBits : Int := (bitLen man.natAbs : Int) + exp
          if otherBits < 0 then some (sign.app .gt)
          else if selfBits > otherBits then some (sign.app .gt)
          else if selfBits < otherBits then some (sign.app .lt)
          else if exp ≥ 0 then some (compare x (man * 2 ^ exp.toNat))
          else some (compare (x * 2 ^ (-exp).toNat) man)

/-- `repr_cmp_ubig::<B, ABS>` (as written: the exact step compares the *signed* significand) -/
def floatReprCmpUbigPre (o : Oracle) (abs : Bool) (B : Nat) (s e : Int) (r : Nat) : Ordering :=
  if fIsInf s e then (if e > 0 || abs then .gt else .lt)              -- case 1
  else if !abs && Sign.ofInt s == .neg then .lt                        -- case 2
  else
    let l := o.flt B s e                                               -- case 3
    let rb := o.nat r
    if EB.lt rb.2 l.1 then .gt
    else if EB.lt l.2 rb.1 then .lt
    else if e < 0 then compare s (shlDigits B (r : Int) (-e).toNat)    -- case 4
    else compare (shlDigits B s e.toNat) (r : Int)

/-- `repr_cmp_ibig::<B, ABS>` (as written: signed comparison in the exact step also for ABS) -/
def floatReprCmpIbigPre (o : Oracle) (abs : Bool) (B : Nat) (s e : Int) (r : Int) : Ordering :=
  if fIsInf s e then (if e > 0 || abs then .gt else .lt)
  else
    match (if abs then Sum.inl Sign.pos else signMatch (Sign.ofInt s) (Sign.ofInt r)) with
    | .inr ord => ord
    | .inl sign =>
      let l := o.flt B s e
      let rb := o.nat r.natAbs
      if EB.lt rb.2 l.1 then sign.app .gt
      else if EB.lt l.2 rb.1 then sign.app .lt
      else if e < 0 then compare s (shlDigits B r (-e).toNat)
      else compare (shlDigits B s e.toNat) r

/-- `impl_num_ord_with_float` : `NumOrd<f32/f64> for Repr<B>` (isize arithmetic in `Int`) -/
def reprNumOrdFloatPre (t : FloatTy) (B : Nat) (s e : Int) (d : Decoded) : Option Ordering :=
  match d with
  | .nan => none
  | .inf neg =>
    match signMatch (fSign s e) (if neg then .neg else .pos) with      -- step1
    | .inr ord => some ord
    | .inl sign => if fIsInf s e then some .eq else some (sign.app .lt)  -- step2
  | .fin man exp =>
    if man = 0 then                                                    -- step0
      (if fIsZero s e then some .eq else some ((fSign s e).app .gt))
    else
      match signMatch (fSign s e) (Sign.ofInt man) with                -- step1
      | .inr ord => some ord
      | .inl sign =>
        if fIsInf s e then some (sign.app .gt)                         -- step2
        else
          -- step3
          let selfSignifLog2 : Int := bitLen s.natAbs
          let selfLog2 : Int := selfSignifLog2 + (bitLen B : Int) * e
          let lb : Int := if e ≥ 0 then selfLog2 - e else selfLog2
          let ub : Int := if e ≥ 0 then selfLog2 else selfLog2 - e
          if lb > (t.mantDigits + t.maxExp : Nat) then some (sign.app .gt)
          else
            -- step4
            let otherLog2 : Int := (bitLen man.natAbs : Int) + exp
            if lb > otherLog2 then some (sign.app .gt)
            else if ub < otherLog2 then some (sign.app .lt)
            else
              -- step5
              let lhs1 := if e < 0 then s else shlDigits B s e.toNat
              let rhs1 := if e < 0 then shlDigits B man (-e).toNat else man
              let lhs2 := if exp < 0 then lhs1 * 2 ^ (-exp).toNat else lhs1
              let rhs2 := if exp < 0 then rhs1 else rhs1 * 2 ^ exp.toNat
              some (compare lhs2 rhs2)

/-- base/src/sign.rs `impl AbsOrd for iN`: `self.abs().cmp(&rhs.abs())`; `abs()` of `iN::MIN`
    overflows (`none`; a debug build panics, a release build wraps to `MIN`) -/
def primIntAbsCmpPre (t : PrimInt) (a b : Int) : Option Ordering :=
  let mn : Int := -(2 ^ (t.bits - 1) : Int)
  if a = mn ∨ b = mn then none else some (compare a.natAbs b.natAbs)

/-- `impl_num_ord_with_float` : `NumOrd<f32/f64> for Repr` (rational) -/
def ratNumOrdFloatPre (t : FloatTy) (n : Int) (d : Nat) (dec : Decoded) : Option Ordering :=
  match dec with
  | .nan => none
  | .inf neg => if neg then some .gt else some .lt
  | .fin man exp =>
    if man = 0 then (if n = 0 then some .eq else some ((Sign.ofInt n).app .gt))
    else
      match signMatch (Sign.ofInt n) (Sign.ofInt man) with
      | .inr ord => some ord
      | .inl sign =>
        let selfLog2 : Int := (bitLen n.natAbs : Int) - bitLen d
        let lb := selfLog2 - 1
        let ub := selfLog2 + 1
        if lb > (t.mantDigits + t.maxExp : Nat) then some (sign.app .gt)
        else
          let otherLog2 : Int := (bitLen man.natAbs : Int) + exp - 1
          if lb > otherLog2 then some (sign.app .gt)
          else if ub < otherLog2 then some (sign.app .lt)
          else
            let lhs : Int := if exp < 0 then n * 2 ^ (-exp).toNat else n
            let rhs : Int := if exp < 0 then man * d else man * d * 2 ^ exp.toNat
            some (compare lhs rhs)

-- ============================================================ recorded defect classes

def Kind.isZero : Kind → Bool
  | .nat n => n == 0
  | .int i => i == 0
  | .flt _ s e _ => fIsZero s e
  | .rat _ n _ => n == 0
  | .pf _ _ => false

/-- DEFECT A (`num_partial_cmp` of 0 against a small positive f32/f64): the bit-length shortcut
    `other_bits < 0 → Greater` (integer), `lb > other_log2 → Greater` (float, rational) fires for a
    zero left operand.  `k` is the big-number side, `(man, exp)` the decoded float. -/
def defectA (k : Kind) (man exp : Int) : Bool :=
  k.isZero && decide (man > 0) &&
    (match k with
     | .rat _ _ _ => decide ((bitLen man.natAbs : Int) + exp - 1 < -2)
     | _ => decide ((bitLen man.natAbs : Int) + exp < 0))

/-- DEFECT F (`NumOrd<f32/f64> for IBig`, step 2 `Some(-sign * Ordering::Less)`): an IBig against
    an infinity of its own sign. -/
def defectF (k : Kind) (neg : Bool) : Bool :=
  match k with
  | .int i => (decide (i < 0)) == neg
  | _ => false

def numCmpDefect1 (k : Kind) (d : Decoded) : Option String :=
  match d with
  | .fin man exp => if defectA k man exp then some "zero-vs-tiny-float" else none
  | .inf neg => if defectF k neg then some "ibig-vs-inf" else none
  | .nan => none

def numCmpDefectK : Kind → Kind → Option String
  | .pf _ _, .pf _ _ => none
  | .pf _ d, k => numCmpDefect1 k d
  | k, .pf _ d => numCmpDefect1 k d
  | _, _ => none

def numCmpDefect (x y : Num) : Option String := numCmpDefectK x.kind y.kind

/-- DEFECT B (`AbsOrd` between FBig and UBig/IBig): float/src/cmp.rs `repr_cmp_ubig::<ABS = true>`
    / `repr_cmp_ibig::<ABS = true>` compare signed values in the exact step. -/
def absCmpDefect1 (s e : Int) (k : Kind) : Option String :=
  if fIsInf s e then none else
  match k with
  | .nat _ => if s < 0 then some "float-abs-negative" else none
  | .int r => if s < 0 || r < 0 then some "float-abs-negative" else none
  | _ => none

def absCmpDefectK : Kind → Kind → Option String
  | .flt _ _ _ _, .flt _ _ _ _ => none
  | .flt _ s e _, k => absCmpDefect1 s e k
  | k, .flt _ s e _ => absCmpDefect1 s e k
  | _, _ => none

def absCmpDefect (x y : Num) : Option String := absCmpDefectK x.kind y.kind

end Dashu.Model.Cross
