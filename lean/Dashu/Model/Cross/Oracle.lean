import Dashu.Model.Cross.Ord
/-
  C14 — the oracles the driver instantiates (both are proved to satisfy the enclosure hypothesis
  in `Proofs/Cross/Oracle.lean`), and the input classes of the recorded defects.

  * `coarse`     : bounds from bit lengths only — never materialises `B^e`
                   (`bitLen s - 1 + e·lb ≤ log2|s·B^e| ≤ bitLen s + e·ub` for `e ≥ 0`, where
                   `lb ≤ log2 B < ub` are the rationals `(bitLen(B^1024) - 1)/1024`, `bitLen(B^1024)/1024`);
  * `noFilter`   : `(-∞, +∞)` everywhere — every comparison takes the exact path.
  Running both and the specification is the executable form of "the estimate path and the exact
  path cannot disagree".
-/
namespace Dashu.Model.Cross

def natBounds (n : Nat) : EB × EB :=
  if n = 0 then (.ninf, .ninf)
  else (.fin ((bitLen n : Int) - 1), .fin (bitLen n : Int))

/-- precision of the rational enclosure of `log2 B` -/
def logBPrec : Nat := 1024

/-- `(L-1)/P ≤ log2 B < L/P` with `L = bitLen (B^P)` -/
def log2BaseBounds (B : Nat) : Rat × Rat :=
  let L : Int := bitLen (B ^ logBPrec)
  (((L - 1 : Int) : Rat) / (logBPrec : Rat), ((L : Int) : Rat) / (logBPrec : Rat))

def fltBounds (B : Nat) (s e : Int) : EB × EB :=
  if s = 0 then (.ninf, .ninf)
  else
    let bl : Int := bitLen s.natAbs
    let lbB : Rat := (log2BaseBounds B).1
    let ubB : Rat := (log2BaseBounds B).2
    if e ≥ 0 then (.fin (((bl - 1 : Int) : Rat) + (e : Rat) * lbB), .fin ((bl : Rat) + (e : Rat) * ubB))
    else (.fin (((bl - 1 : Int) : Rat) + (e : Rat) * ubB), .fin ((bl : Rat) + (e : Rat) * lbB))

def ratBounds (n : Int) (d : Nat) : EB × EB :=
  if n = 0 then (.ninf, .ninf)
  else (.fin ((bitLen n.natAbs : Int) - 1 - bitLen d), .fin ((bitLen n.natAbs : Int) - ((bitLen d : Int) - 1)))

/-- `|s| < 2^bitLen|s| ≤ B^k` as soon as `k·(bitLen B - 1) ≥ bitLen |s|` -/
def digitsUbCoarse (B : Nat) (s : Int) : Nat :=
  let w := bitLen B - 1
  (bitLen s.natAbs + w - 1) / w

def Oracle.coarse : Oracle :=
  { nat := natBounds, flt := fltBounds, rat := ratBounds, digitsUb := digitsUbCoarse }

def Oracle.noFilter : Oracle :=
  { nat := fun _ => (.ninf, .pinf), flt := fun _ _ _ => (.ninf, .pinf), rat := fun _ _ => (.ninf, .pinf),
    digitsUb := fun _ s => bitLen s.natAbs + 1 }

-- ============================================================ recorded defect classes

def Kind.isZero : Kind → Bool
  | .nat n => n == 0
  | .int i => i == 0
  | .flt _ s e _ => fIsZero s e
  | .rat _ n _ => n == 0
  | .pf _ _ => false

/-- DEFECT A (`num_partial_cmp` of 0 against a small positive f32/f64): the bit-length shortcut
    `other_bits < 0 → Greater` (integer), `lb > other_log2 → Greater` (float, rational) fires for a
    zero left operand.  `k` is the big-number side, `(man, exp)` the decoded float. -/
def defectA (k : Kind) (man exp : Int) : Bool :=
  k.isZero && decide (man > 0) &&
    (match k with
     | .rat _ _ _ => decide ((bitLen man.natAbs : Int) + exp - 1 < -2)
     | _ => decide ((bitLen man.natAbs : Int) + exp < 0))

/-- DEFECT F (`NumOrd<f32/f64> for IBig`, step 2 `Some(-sign * Ordering::Less)`): an IBig against
    an infinity of its own sign. -/
def defectF (k : Kind) (neg : Bool) : Bool :=
  match k with
  | .int i => (decide (i < 0)) == neg
  | _ => false

def numCmpDefect1 (k : Kind) (d : Decoded) : Option String :=
  match d with
  | .fin man exp => if defectA k man exp then some "zero-vs-tiny-float" else none
  | .inf neg => if defectF k neg then some "ibig-vs-inf" else none
  | .nan => none

def numCmpDefectK : Kind → Kind → Option String
  | .pf _ _, .pf _ _ => none
  | .pf _ d, k => numCmpDefect1 k d
  | k, .pf _ d => numCmpDefect1 k d
  | _, _ => none

def numCmpDefect (x y : Num) : Option String := numCmpDefectK x.kind y.kind

/-- DEFECT B (`AbsOrd` between FBig and UBig/IBig): float/src/cmp.rs `repr_cmp_ubig::<ABS = true>`
    / `repr_cmp_ibig::<ABS = true>` compare signed values in the exact step. -/
def absCmpDefect1 (s e : Int) (k : Kind) : Option String :=
  if fIsInf s e then none else
  match k with
  | .nat _ => if s < 0 then some "float-abs-negative" else none
  | .int r => if s < 0 || r < 0 then some "float-abs-negative" else none
  | _ => none

def absCmpDefectK : Kind → Kind → Option String
  | .flt _ _ _ _, .flt _ _ _ _ => none
  | .flt _ s e _, k => absCmpDefect1 s e k
  | k, .flt _ s e _ => absCmpDefect1 s e k
  | _, _ => none

def absCmpDefect (x y : Num) : Option String := absCmpDefectK x.kind y.kind

end Dashu.Model.Cross
