import Dashu.Model.Cross.Ord
/-
  C14 — the oracles the driver instantiates (both are proved to satisfy the enclosure hypothesis
  in `Proofs/Cross/OracleSound.lean`).

  * `coarse`     : bounds from bit lengths only — never materialises `B^e`
                   (`bitLen s - 1 + e·lb ≤ log2|s·B^e| ≤ bitLen s + e·ub` for `e ≥ 0`, where
                   `lb ≤ log2 B < ub` are the rationals `(bitLen(B^1024) - 1)/1024`, `bitLen(B^1024)/1024`);
  * `noFilter`   : `(-∞, +∞)` everywhere — every comparison takes the exact path.
  Running both and the specification is the executable form of "the estimate path and the exact
  path cannot disagree".
-/
namespace Dashu.Model.Cross

def natBounds (n : Nat) : EB × EB :=
  if n = 0 then (.ninf, .ninf)
  else (.fin ((bitLen n : Int) - 1), .fin (bitLen n : Int))

/-- precision of the rational enclosure of `log2 B` -/
def logBPrec : Nat := 1024

/-- `(L-1)/P ≤ log2 B < L/P` with `L = bitLen (B^P)` -/
def log2BaseBounds (B : Nat) : Rat × Rat :=
  let L : Int := bitLen (B ^ logBPrec)
  (((L - 1 : Int) : Rat) / (logBPrec : Rat), ((L : Int) : Rat) / (logBPrec : Rat))

def fltBounds (B : Nat) (s e : Int) : EB × EB :=
  if s = 0 then (.ninf, .ninf)
  else
    let bl : Int := bitLen s.natAbs
    let lbB : Rat := (log2BaseBounds B).1
    let ubB : Rat := (log2BaseBounds B).2
    if e ≥ 0 then (.fin (((bl - 1 : Int) : Rat) + (e : Rat) * lbB), .fin ((bl : Rat) + (e : Rat) * ubB))
    else (.fin (((bl - 1 : Int) : Rat) + (e : Rat) * ubB), .fin ((bl : Rat) + (e : Rat) * lbB))

def ratBounds (n : Int) (d : Nat) : EB × EB :=
  if n = 0 then (.ninf, .ninf)
  else (.fin ((bitLen n.natAbs : Int) - 1 - bitLen d), .fin ((bitLen n.natAbs : Int) - ((bitLen d : Int) - 1)))

/-- `|s| < 2^bitLen|s| ≤ B^k` as soon as `k·(bitLen B - 1) ≥ bitLen |s|` -/
def digitsUbCoarse (B : Nat) (s : Int) : Nat :=
  let w := bitLen B - 1
  (bitLen s.natAbs + w - 1) / w

def Oracle.coarse : Oracle :=
  { nat := natBounds, flt := fltBounds, rat := ratBounds, digitsUb := digitsUbCoarse }

def Oracle.noFilter : Oracle :=
  { nat := fun _ => (.ninf, .pinf), flt := fun _ _ _ => (.ninf, .pinf), rat := fun _ _ => (.ninf, .pinf),
    digitsUb := fun _ s => bitLen s.natAbs + 1 }

end Dashu.Model.Cross
