/-
  C14 — cross-type comparison and hashing: the numbers of the protocol, their exact values, and
  the specification side (`XVal.cmp`: the order of the exact extended rationals).

  Core Lean only (linked into `drive_cross`).
-/
namespace Dashu.Model.Cross

/-- `UBig::bit_len`, `BitTest::bit_len` (0 for 0). -/
def bitLen (n : Nat) : Nat := if n = 0 then 0 else Nat.log2 n + 1

/-- `dashu_base::Sign` -/
inductive Sign | pos | neg
  deriving DecidableEq, Repr

/-- `IBig::sign` / `Signed::sign` (zero is `Positive`). -/
def Sign.ofInt (i : Int) : Sign := if i < 0 then .neg else .pos
/-- `impl Neg for Sign` -/
def Sign.flip : Sign → Sign | .pos => .neg | .neg => .pos
/-- `impl Mul<Ordering> for Sign`: a negative sign reverses the ordering. -/
def Sign.app : Sign → Ordering → Ordering
  | .pos, o => o
  | .neg, o => o.swap

/-- primitive integer types with a `NumOrd`/`NumHash` impl -/
inductive PrimInt | u8 | u16 | u32 | u64 | u128 | usize | i8 | i16 | i32 | i64 | i128 | isize
  deriving DecidableEq, Repr

def PrimInt.signed : PrimInt → Bool
  | .i8 | .i16 | .i32 | .i64 | .i128 | .isize => true
  | _ => false

def PrimInt.bits : PrimInt → Nat
  | .u8 | .i8 => 8 | .u16 | .i16 => 16 | .u32 | .i32 => 32
  | .u64 | .i64 | .usize | .isize => 64 | .u128 | .i128 => 128

def PrimInt.inRange (t : PrimInt) (v : Int) : Bool :=
  if t.signed then decide (-(2 ^ (t.bits - 1) : Int) ≤ v) && decide (v < 2 ^ (t.bits - 1))
  else decide (0 ≤ v) && decide (v < 2 ^ t.bits)

inductive FloatTy | f32 | f64
  deriving DecidableEq, Repr

def FloatTy.mantBits : FloatTy → Nat | .f32 => 23 | .f64 => 52
def FloatTy.expBits : FloatTy → Nat | .f32 => 8 | .f64 => 11
def FloatTy.bias : FloatTy → Nat | .f32 => 127 | .f64 => 1023
/-- `f32::MANTISSA_DIGITS`, `f64::MANTISSA_DIGITS` -/
def FloatTy.mantDigits : FloatTy → Nat | .f32 => 24 | .f64 => 53
/-- `f32::MAX_EXP`, `f64::MAX_EXP` -/
def FloatTy.maxExp : FloatTy → Nat | .f32 => 128 | .f64 => 1024

/-- result of `FloatEncoding::decode` (base/src/bit.rs): `Err(Nan)`, `Err(Infinite)` (the sign is
    read separately by `Signed::sign`), `Ok((mantissa, exponent))` with a *signed* mantissa. -/
inductive Decoded
  | nan
  | inf (neg : Bool)
  | fin (man : Int) (exp : Int)
  deriving DecidableEq, Repr

/-- `impl FloatEncoding for f32/f64 :: decode` on the bit pattern. -/
def decode (t : FloatTy) (bits : Nat) : Decoded :=
  let mb := t.mantBits
  let signBit := (bits >>> (mb + t.expBits)) % 2
  let mant := bits % 2 ^ mb
  let ex := (bits >>> mb) % 2 ^ t.expBits
  if ex = 2 ^ t.expBits - 1 then
    (if mant ≠ 0 then .nan else .inf (signBit = 1))
  else
    let m : Nat := if ex = 0 then mant else mant + 2 ^ mb
    let e : Int := if ex = 0 then (1 : Int) - t.bias - mb else (ex : Int) - t.bias - mb
    .fin (if signBit = 1 then -(m : Int) else m) e

/-- a number argument of the protocol -/
inductive Num
  | ubig (n : Nat)
  | ibig (i : Int)
  /-- `FBig<_, B>`: `Repr<B> { significand, exponent }` + context precision; `signif = 0 ∧ exp ≠ 0`
      is ±∞ (float/src/repr.rs) -/
  | fbig (B : Nat) (signif : Int) (exp : Int) (prec : Nat)
  /-- `RBig` (stored reduced) -/
  | rbig (num : Int) (den : Nat)
  /-- `Relaxed` (stored as given up to common powers of two) -/
  | relaxed (num : Int) (den : Nat)
  | pint (t : PrimInt) (v : Int)
  | pfloat (t : FloatTy) (bits : Nat)
  deriving Repr

/-- exact value: an extended rational (`fin n d` is `n / d`, `d > 0`), or NaN -/
inductive XVal
  | nan
  | ninf
  | fin (n : Int) (d : Nat)
  | pinf
  deriving Repr

/-- value of a finite float `signif · B^exp` as an (unreduced) fraction -/
def floatFrac (B : Nat) (s e : Int) : Int × Nat :=
  if e < 0 then (s, B ^ (-e).toNat) else (s * (B : Int) ^ e.toNat, 1)

def decodedValue : Decoded → XVal
  | .nan => .nan
  | .inf neg => if neg then .ninf else .pinf
  | .fin m e => let p := floatFrac 2 m e; .fin p.1 p.2

/-- the exact value of a protocol number -/
def Num.value : Num → XVal
  | .ubig n => .fin n 1
  | .ibig i => .fin i 1
  | .fbig B s e _ =>
      if s = 0 then (if e = 0 then .fin 0 1 else if e > 0 then .pinf else .ninf)
      else let p := floatFrac B s e; .fin p.1 p.2
  | .rbig n d => .fin n d
  | .relaxed n d => .fin n d
  | .pint _ v => .fin v 1
  | .pfloat t b => decodedValue (decode t b)

/-- SPEC: order of the exact values (`none` iff one side is NaN). Fractions are compared by cross
    multiplication; `Proofs/Cross/Spec.lean` shows this is `compare` on `ℚ`. -/
def XVal.cmp : XVal → XVal → Option Ordering
  | .nan, _ => none
  | _, .nan => none
  | .ninf, .ninf => some .eq
  | .ninf, _ => some .lt
  | _, .ninf => some .gt
  | .pinf, .pinf => some .eq
  | .pinf, _ => some .gt
  | _, .pinf => some .lt
  | .fin n1 d1, .fin n2 d2 => some (compare (n1 * (d2 : Int)) (n2 * (d1 : Int)))

/-- magnitude of a value -/
def XVal.abs : XVal → XVal
  | .nan => .nan
  | .ninf => .pinf
  | .pinf => .pinf
  | .fin n d => .fin (n.natAbs : Int) d

/-- SPEC of `AbsOrd`: order of the magnitudes -/
def XVal.absCmp (a b : XVal) : Option Ordering := XVal.cmp a.abs b.abs

end Dashu.Model.Cross
