import Dashu.Model.Cross.Num
/-
  C14 — `NumHash`: what is fed to the `Hasher`.

  Every impl ends in exactly one `write_i128(v)` (`i128::hash`), i.e. one `Hasher::write` of the 16
  little-endian bytes of `v`; `numHashFeedPre` is that `v`.

  `FixedMersenneInt<127,1>` (crate num-modular) is used at its specification: residues mod
  `M = 2^127 - 1`, `convert` = reduce, `pow` = modular power, `inv` = THE inverse (unique in
  `[0, M)`; computed here as `a^(M-2)`), `None` iff the residue is 0.
-/
namespace Dashu.Model.Cross

/-- `i128::MAX = 2^127 - 1`, the Mersenne prime used by num-order -/
def M127 : Nat := 2 ^ 127 - 1

/-- modular power by repeated squaring -/
def powMod (a e m : Nat) : Nat :=
  if e = 0 then 1 % m
  else
    let h := powMod a (e / 2) m
    let sq := h * h % m
    if e % 2 = 1 then sq * (a % m) % m else sq
termination_by e
decreasing_by omega

/-- `FixedMersenneInt::inv` (the value when it exists) -/
def invMod (a : Nat) : Nat := powMod a (M127 - 2) M127

/-- num-order `impl NumHash for i128`: `MAX | MIN+1 => 0`, `MIN => -1`, else itself -/
def i128NumHash (v : Int) : Int :=
  if v = (2 : Int) ^ 127 - 1 ∨ v = -((2 : Int) ^ 127 - 1) then 0
  else if v = -((2 : Int) ^ 127) then -1
  else v

/-- num-order `impl NumHash for u128` -/
def u128NumHash (u : Nat) : Int :=
  if u = 2 ^ 128 - 1 then 1
  else if u = M127 + M127 then 0
  else if u ≥ M127 then ((u - M127 : Nat) : Int)
  else (u : Int)

/-- `impl NumHash for UBig`: `(self % (i128::MAX as u128)) as i128` hashed directly -/
def ubigHash (n : Nat) : Int := ((n % M127 : Nat) : Int)

/-- `impl NumHash for IBig`: `(self % i128::MAX)` (remainder with the sign of `self`) hashed directly -/
def ibigHash (i : Int) : Int := Int.tmod i (M127 : Int)

/-- `impl NumHash for Repr<B>` (float) -/
def floatHash (B : Nat) (s e : Int) : Int :=
  let signifResidue : Int := Int.tmod s (M127 : Int)
  let signifHash : Nat := signifResidue.natAbs
  let expHash : Nat :=
    if B = 2 then (2 ^ (e % 127).toNat) % M127
    else if e < 0 then invMod (powMod (B % M127) (-e).toNat M127)
    else powMod (B % M127) e.toNat M127
  let hash : Int := ((signifHash * expHash % M127 : Nat) : Int)
  i128NumHash (if signifResidue < 0 then -hash else hash)

/-- `impl NumHash for Repr` (rational) BEFORE fix 3c2d452 — also the body the current code runs once no
    common factor `M` is left: `±INF` constants when `M | denominator` -/
def ratHashPre (n : Int) (d : Nat) : Int :=
  let ub := d % M127
  if ub = 0 then
    (if n > 0 then i128NumHash ((2 : Int) ^ 127 - 1) else i128NumHash (-((2 : Int) ^ 127 - 1)))
  else
    let binv := invMod ub
    let ua : Nat := (Int.tmod n (M127 : Int)).natAbs
    let ab : Int := ((ua * binv % M127 : Nat) : Int)
    i128NumHash (if n < 0 then -ab else ab)

/-- cancel the common factors `M` of numerator and denominator (only a non-reduced `Relaxed` has any) -/
def stripM : Nat → Int → Nat → Int × Nat
  | 0, n, d => (n, d)
  | fuel + 1, n, d =>
    if n ≠ 0 ∧ d % M127 = 0 ∧ n % (M127 : Int) = 0 then stripM fuel (n / (M127 : Int)) (d / M127)
    else (n, d)

/-- REQUIRED rational hash: the hash of the value — `ratHashPre` after cancelling common factors `M`
    (equal to `ratHashPre` unless `M` divides both stored parts; see `Props/C14`) -/
def ratHash (n : Int) (d : Nat) : Int :=
  let p := stripM (bitLen d) n d
  ratHashPre p.1 p.2

/-- num-order `FloatHash::fhash` for f32/f64 followed by `i128::num_hash` -/
def primFloatHash (t : FloatTy) (bits : Nat) : Int :=
  let mb := t.mantBits
  let signBit := (bits >>> (mb + t.expBits)) % 2
  let mant := bits % 2 ^ mb
  let ex := (bits >>> mb) % 2 ^ t.expBits
  if ex = 2 ^ t.expBits - 1 then
    (if mant ≠ 0 then i128NumHash (-((2 : Int) ^ 127))          -- HASH_NAN
     else if signBit > 0 then i128NumHash (-((2 : Int) ^ 127 - 1))   -- HASH_NEGINF
     else i128NumHash ((2 : Int) ^ 127 - 1))                      -- HASH_INF
  else
    let mantissa : Nat := if ex = 0 then mant <<< 1 else mant ||| 2 ^ mb
    let exponent : Int := (ex : Int) - (t.bias + mb : Nat)
    let pow : Nat := (2 ^ (exponent % 127).toNat) % M127
    let v : Nat := (mantissa % M127) * pow % M127
    i128NumHash (if signBit = 0 then (v : Int) else -(v : Int))

/-- the `i128` written to the hasher by `num_hash` BEFORE fix 3c2d452 (differs from `numHashFeed`
    only for a rational with both stored parts divisible by `M`) -/
def numHashFeedPre : Num → Int
  | .ubig n => ubigHash n
  | .ibig i => ibigHash i
  | .fbig B s e _ => floatHash B s e
  | .rbig n d => ratHashPre n d
  | .relaxed n d => ratHashPre n d
  | .pint t v =>
      match t with
      | .i128 => i128NumHash v
      | .u128 => u128NumHash v.toNat
      | _ => v                       -- `(*self as i128).hash(state)`; usize/isize via u64/i64
  | .pfloat t b => primFloatHash t b

/-- the `i128` written to the hasher by `num_hash` (current code) -/
def numHashFeed : Num → Int
  | .rbig n d => ratHash n d
  | .relaxed n d => ratHash n d
  | x => numHashFeedPre x

end Dashu.Model.Cross
