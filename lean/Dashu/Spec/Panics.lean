/-
  C16 — the DOCUMENTATION as a decidable function.

  This file is a transcription, operation by operation, of what the rustdoc of cmpute/dashu says
  about panics:
    (D1) the `# Panics` section of the item,
    (D2) the trait-level docs of `dashu_base` (`Gcd`, `ExtendedGcd`: "Panics if both operands are zeros"),
    (D3) the type-level docs of `FBig` / `Repr` (float/src/fbig.rs "IEEE 754 behavior compliance",
         float/src/repr.rs "Infinity"): no NaN (panic instead), division by zero and logarithm of zero panic,
         operations panic if the result overflows or underflows, infinities can only be compared,
    (D4) the docs of the central panic helpers `integer/src/error.rs`, `float/src/error.rs`,
         `rational/src/error.rs` — each helper names one documented failure,
  and nothing else: it is NOT derived from the code.  A reader who wants to audit C16 reviews this
  file against the rustdoc.  Core Lean only (the driver links it).

  `verdict op args` is what the documentation promises for the call: it returns, it panics with a
  named kind, or the documentation (as transcribed here) does not determine the outcome
  (`unspecified`: result-size estimates inside the grey zone between "certainly fits" and "certainly
  cannot be allocated", exponents within rounding distance of the `isize` limits).  Generators never
  produce `unspecified` calls.  `documented op args : Option Kind` is the panic part.
-/
namespace Dashu.Spec.Panics

/-- documented panic kinds; the names are those printed by `harness/src/util.rs::classify_panic`.
    There is deliberately NO `undocumented` constructor: what this file returns is documented by construction. -/
inductive Kind where
  | divideByZero        -- error.rs `panic_divide_by_0` (integer, rational): "division by 0 is happening"
  | negativeUBig        -- `panic_negative_ubig`: "the UBig result is negative"
  | gcdZeroZero         -- dashu_base::Gcd / ExtendedGcd: "Panics if both operands are zeros"
  | rootZeroth          -- `panic_root_zeroth`
  | rootNegative        -- `panic_root_negative` (integer and float)
  | logInvalid          -- `panic_invalid_log_oprand`; FBig docs: "logarithm on zero panic", no NaN
  | infinite            -- float `panic_operate_with_inf`
  | unlimitedPrecision  -- float `panic_unlimited_precision`
  | invalidRadix        -- `panic_invalid_radix`
  | allocTooMuch        -- `panic_allocate_too_much`: "allocate memory with size exceeding usize range"
  | outOfMemory         -- `panic_out_of_memory`: "allocation failed"
  | differentRings      -- `panic_different_rings`
  | nonInvertible       -- `panic_divide_by_invalid_modulo`
  | powNegativeBase     -- float `panic_power_negative_base`
  | exponentOverflow    -- FBig docs: "operations will panic if the result overflows or underflows"
  | zeroChunkBits       -- UBig::to_chunks / from_chunks: "Panics if chunk_bits is zero."
  | precisionExceeded   -- FBig::from_repr: "Panics if the Repr has more digits than the precision limit" (debug builds)
  deriving Repr, DecidableEq

def Kind.name : Kind → String
  | .divideByZero => "DivideByZero" | .negativeUBig => "NegativeUBig" | .gcdZeroZero => "GcdZeroZero"
  | .rootZeroth => "RootZeroth" | .rootNegative => "RootNegative" | .logInvalid => "LogInvalid"
  | .infinite => "Infinite" | .unlimitedPrecision => "UnlimitedPrecision" | .invalidRadix => "InvalidRadix"
  | .allocTooMuch => "AllocTooMuch" | .outOfMemory => "OutOfMemory" | .differentRings => "DifferentRings"
  | .nonInvertible => "NonInvertible" | .powNegativeBase => "PowNegativeBase"
  | .exponentOverflow => "ExponentOverflow" | .zeroChunkBits => "ZeroChunkBits"
  | .precisionExceeded => "PrecisionExceeded"

def Kind.all : List Kind :=
  [.divideByZero, .negativeUBig, .gcdZeroZero, .rootZeroth, .rootNegative, .logInvalid, .infinite,
   .unlimitedPrecision, .invalidRadix, .allocTooMuch, .outOfMemory, .differentRings, .nonInvertible,
   .powNegativeBase, .exponentOverflow, .zeroChunkBits, .precisionExceeded]

inductive Verdict where
  | returns
  | panics (k : Kind)
  | unspecified
  deriving Repr, DecidableEq

/-- a float argument `f:<base>:<signif>:<exp>:<prec>:<mode>`; `signif = 0 ∧ exp > 0` is +∞, `< 0` is −∞ -/
structure FArg where
  base : Nat
  signif : Int
  exp : Int
  prec : Nat
  mode : Char
  deriving Repr, DecidableEq

inductive Arg where
  | int (i : Int)            -- `[-]<hex>`
  | dec (i : Int)            -- `d:<decimal>` machine-size parameter
  | str (bs : List UInt8)    -- `s:<hex bytes>`
  | flt (f : FArg)           -- `f:…`
  | kind (c : Char)          -- `k:R` | `k:X`
  | fn (s : String)          -- `fn:add` …
  deriving Repr, DecidableEq

/-- the operations of group `panic`; one constructor per harness op -/
inductive Op where
  -- integer parsers
  | uFromStrRadix | iFromStrRadix | uFromStrPrefix | iFromStrPrefix | uFromStrDefault | iFromStrDefault
  | uFromStr | iFromStr
  -- formatting
  | uInRadix | iInRadix | uFmt | iFmt
  -- shifts, powers, roots, logarithms
  | uShl | iShl | uShr | iShr | uPow | iPow | uSqrt | iSqrt | uCbrt | iCbrt | uNthRoot | iNthRoot | uIlog | iIlog
  -- gcd
  | uGcd | iGcd | uGcdExt | iGcdExt
  -- basic arithmetic guards
  | uSub | uDiv | uRem | uDivRem | uDivEuclid | uRemEuclid | uDivRemEuclid
  | iDiv | iRem | iDivRem | iDivEuclid | iRemEuclid | iDivRemEuclid
  | uIsMultipleOf | iIsMultipleOf | uIsMultipleOfConst | iIsMultipleOfConst | uRemove
  -- chunks, bits
  | uToChunks | uFromChunks | uSetBit | uClearBit | uBit | iBit | uOnes | uSplitBits | uClearHighBits
  | uBitInfo | iBitInfo
  -- conversions
  | uTryFromI | uTryPrims | iTryPrims | uToPrims | iToPrims | uTryFromF64 | iTryFromF64 | uTryFromF32 | iTryFromF32 | uBytes | iBytes
  -- constant divisors, rings
  | cdNew | cdFromWord | cdFromDword | cdDivRem | mSame | mDiff | mInv | mPow
  -- floats
  | fAdd | fSub | fMul | fDiv | fRem | fDivEuclid | fRemEuclid | fPowf | fCmp
  | fSqr | fCubic | fSqrt | fInv | fLn | fLn1p | fExp | fExpM1 | fToInt | fTrunc | fFract | fCeil | fFloor
  | fRound | fSplitAtPoint | fUlp | fToF32 | fToF64 | fNegAbs | fFmt | fToIntTry | fToDecimal | fToBinary
  | fInfo | fToRatio | fPowi | fShl | fShr | fWithPrecision | fFromParts | fFromRepr | fParse | fFromInt
  | fFromF64
  -- rationals
  | qFromParts | qFromPartsSigned | qParse | qFromStrRadix | qFromStrPrefix | qFromF64
  | qInv | qPow | qSqrCubic | qRounding | qToFloats | qSign | qFmt | qToFloat | qToIntTry
  | qDiv | qAdd | qSub | qMul | qRem | qDivEuclid | qCmp | qDivInt | qNearest | qNextUp | qNextDown | qSimplestIn
  -- round 5: core::iter::Sum / Product folds and Hash
  | uSum | iSum | uProduct | iProduct | uHash | iHash | fSum | fProduct | qHash | qToFloatB
  deriving Repr, DecidableEq

def Op.table : List (String × Op) := [
  ("u.from_str_radix", .uFromStrRadix), ("i.from_str_radix", .iFromStrRadix),
  ("u.from_str_prefix", .uFromStrPrefix), ("i.from_str_prefix", .iFromStrPrefix),
  ("u.from_str_default", .uFromStrDefault), ("i.from_str_default", .iFromStrDefault),
  ("u.from_str", .uFromStr), ("i.from_str", .iFromStr),
  ("u.in_radix", .uInRadix), ("i.in_radix", .iInRadix), ("u.fmt", .uFmt), ("i.fmt", .iFmt),
  ("u.shl", .uShl), ("i.shl", .iShl), ("u.shr", .uShr), ("i.shr", .iShr), ("u.pow", .uPow), ("i.pow", .iPow),
  ("u.sqrt", .uSqrt), ("i.sqrt", .iSqrt), ("u.cbrt", .uCbrt), ("i.cbrt", .iCbrt),
  ("u.nth_root", .uNthRoot), ("i.nth_root", .iNthRoot), ("u.ilog", .uIlog), ("i.ilog", .iIlog),
  ("u.gcd", .uGcd), ("i.gcd", .iGcd), ("u.gcd_ext", .uGcdExt), ("i.gcd_ext", .iGcdExt),
  ("u.sub", .uSub), ("u.div", .uDiv), ("u.rem", .uRem), ("u.div_rem", .uDivRem), ("u.div_euclid", .uDivEuclid),
  ("u.rem_euclid", .uRemEuclid), ("u.div_rem_euclid", .uDivRemEuclid),
  ("i.div", .iDiv), ("i.rem", .iRem), ("i.div_rem", .iDivRem), ("i.div_euclid", .iDivEuclid),
  ("i.rem_euclid", .iRemEuclid), ("i.div_rem_euclid", .iDivRemEuclid),
  ("u.is_multiple_of", .uIsMultipleOf), ("i.is_multiple_of", .iIsMultipleOf),
  ("u.is_multiple_of_const", .uIsMultipleOfConst), ("i.is_multiple_of_const", .iIsMultipleOfConst),
  ("u.remove", .uRemove),
  ("u.to_chunks", .uToChunks), ("u.from_chunks", .uFromChunks), ("u.set_bit", .uSetBit),
  ("u.clear_bit", .uClearBit), ("u.bit", .uBit), ("i.bit", .iBit), ("u.ones", .uOnes),
  ("u.split_bits", .uSplitBits), ("u.clear_high_bits", .uClearHighBits), ("u.bitinfo", .uBitInfo),
  ("i.bitinfo", .iBitInfo),
  ("u.try_from_i", .uTryFromI), ("u.try_prims", .uTryPrims), ("i.try_prims", .iTryPrims), ("u.to_prims", .uToPrims), ("i.to_prims", .iToPrims),
  ("u.try_from_f64", .uTryFromF64), ("i.try_from_f64", .iTryFromF64), ("u.try_from_f32", .uTryFromF32),
  ("i.try_from_f32", .iTryFromF32), ("u.bytes", .uBytes), ("i.bytes", .iBytes),
  ("cd.new", .cdNew), ("cd.from_word", .cdFromWord), ("cd.from_dword", .cdFromDword), ("cd.divrem", .cdDivRem),
  ("m.same", .mSame), ("m.diff", .mDiff), ("m.inv", .mInv), ("m.pow", .mPow),
  ("f.add", .fAdd), ("f.sub", .fSub), ("f.mul", .fMul), ("f.div", .fDiv), ("f.rem", .fRem),
  ("f.div_euclid", .fDivEuclid), ("f.rem_euclid", .fRemEuclid), ("f.powf", .fPowf), ("f.cmp", .fCmp),
  ("f.sqr", .fSqr), ("f.cubic", .fCubic), ("f.sqrt", .fSqrt), ("f.inv", .fInv), ("f.ln", .fLn),
  ("f.ln_1p", .fLn1p), ("f.exp", .fExp), ("f.exp_m1", .fExpM1), ("f.to_int", .fToInt), ("f.trunc", .fTrunc),
  ("f.fract", .fFract), ("f.ceil", .fCeil), ("f.floor", .fFloor), ("f.round", .fRound),
  ("f.split_at_point", .fSplitAtPoint), ("f.ulp", .fUlp), ("f.to_f32", .fToF32), ("f.to_f64", .fToF64),
  ("f.neg_abs", .fNegAbs), ("f.fmt", .fFmt), ("f.to_int_try", .fToIntTry), ("f.to_decimal", .fToDecimal),
  ("f.to_binary", .fToBinary), ("f.info", .fInfo), ("f.to_ratio", .fToRatio), ("f.powi", .fPowi),
  ("f.shl", .fShl), ("f.shr", .fShr), ("f.with_precision", .fWithPrecision), ("f.from_parts", .fFromParts),
  ("f.from_repr", .fFromRepr), ("f.parse", .fParse), ("f.from_int", .fFromInt), ("f.from_f64", .fFromF64),
  ("q.from_parts", .qFromParts), ("q.from_parts_signed", .qFromPartsSigned), ("q.parse", .qParse),
  ("q.from_str_radix", .qFromStrRadix), ("q.from_str_prefix", .qFromStrPrefix), ("q.from_f64", .qFromF64),
  ("q.inv", .qInv), ("q.pow", .qPow), ("q.sqr_cubic", .qSqrCubic), ("q.rounding", .qRounding),
  ("q.to_floats", .qToFloats), ("q.sign", .qSign), ("q.fmt", .qFmt), ("q.to_float", .qToFloat),
  ("q.to_int_try", .qToIntTry), ("q.div", .qDiv), ("q.add", .qAdd), ("q.sub", .qSub), ("q.mul", .qMul),
  ("q.rem", .qRem), ("q.div_euclid", .qDivEuclid), ("q.cmp", .qCmp), ("q.div_int", .qDivInt),
  ("q.nearest", .qNearest), ("q.next_up", .qNextUp), ("q.next_down", .qNextDown), ("q.simplest_in", .qSimplestIn),
  ("u.sum", .uSum), ("i.sum", .iSum), ("u.product", .uProduct), ("i.product", .iProduct), ("u.hash", .uHash),
  ("i.hash", .iHash), ("f.sum", .fSum), ("f.product", .fProduct), ("q.hash", .qHash), ("q.to_float_b", .qToFloatB)]

def Op.ofName (s : String) : Option Op := (Op.table.find? (·.1 == s)).map (·.2)

-- ------------------------------------------------------------------------------------------------
-- machine limits named by the documentation (`usize`, `isize`, `Buffer::MAX_CAPACITY`)

def usizeMax : Nat := 2 ^ 64 - 1
def isizeMax : Int := 2 ^ 63 - 1
def isizeMin : Int := -(2 ^ 63)
/-- `Buffer::MAX_CAPACITY = usize::MAX / WORD_BITS` words: the largest magnitude whose bit length is a `usize` -/
def maxCapacity (W : Nat) : Nat := usizeMax / W

/-- a result of at most this many bits certainly fits the address-space cap of the harness (128 MiB) -/
def memLoBits : Nat := 2 ^ 30
/-- a result of at least this many bits certainly does not (32 GiB > the 4 GiB cap) -/
def memHiBits : Nat := 2 ^ 38

def bitLen (n : Nat) : Nat := if n = 0 then 0 else Nat.log2 n + 1

/-- (D4) `panic_allocate_too_much`: the size exceeds the `usize` range (more than `MAX_CAPACITY` words);
    `panic_out_of_memory`: the allocation failed (the harness caps the address space) -/
def alloc (W : Nat) (bits : Nat) : Verdict :=
  if (bits + W - 1) / W > maxCapacity W then .panics .allocTooMuch
  else if bits ≥ memHiBits then .panics .outOfMemory
  else if bits ≤ memLoBits then .returns
  else .unspecified

/-- a result known only up to an interval of bit lengths -/
def allocRange (W : Nat) (lo hi : Nat) : Verdict :=
  if alloc W lo = alloc W hi then alloc W lo else .unspecified

/-- (D3) "operations will panic if the result overflows or underflows": `e` is the exact exponent of the
    normalized result -/
def expExact (e : Int) : Verdict :=
  if e > isizeMax ∨ e < isizeMin then .panics .exponentOverflow else .returns

/-- exponent known up to the digits dropped/gained by rounding (at most 2^40 of them) -/
def expApprox (e : Int) : Verdict :=
  if e > isizeMax + 2 ^ 40 ∨ e < isizeMin - 2 ^ 40 then .panics .exponentOverflow
  else if e > isizeMax - 2 ^ 40 ∨ e < isizeMin + 2 ^ 40 then .unspecified
  else .returns

/-- first panic of a list of (condition, kind), in the order the documentation lists them -/
def firstOf : List (Bool × Kind) → Verdict
  | [] => .returns
  | (c, k) :: rest => if c then .panics k else firstOf rest

def radixOk (r : Int) : Bool := 2 ≤ r ∧ r ≤ 36

-- ------------------------------------------------------------------------------------------------
-- floats

namespace FArg
def isInf (f : FArg) : Bool := f.signif = 0 ∧ f.exp ≠ 0
def isZero (f : FArg) : Bool := f.signif = 0 ∧ f.exp = 0
def isNeg (f : FArg) : Bool := f.signif < 0 ∨ (f.signif = 0 ∧ f.exp < 0)

/-- number of base-`b` digits of `n` (0 for 0) -/
def digitsAux (b : Nat) : Nat → Nat → Nat → Nat
  | 0, _, acc => acc
  | fuel + 1, n, acc => if n = 0 then acc else digitsAux b fuel (n / b) (acc + 1)
def digits (f : FArg) : Nat := digitsAux f.base (Nat.log2 f.signif.natAbs + 2) f.signif.natAbs 0

/-- operands of the value ops are canonical: supported base/mode, normalized (`Repr::new` would not change
    them), infinities are exactly `(0, ±1)`, and the significand fits the precision (so that building the
    operand with `FBig::from_repr` is itself within its documented contract) -/
def canonical (f : FArg) : Bool :=
  ((f.base = 2 ∧ f.mode = 'Z') ∨ (f.base = 10 ∧ f.mode = 'H')) ∧
  (if f.signif = 0 then f.exp = 0 ∨ f.exp = 1 ∨ f.exp = -1
   else f.signif.natAbs % f.base ≠ 0 ∧ (f.prec = 0 ∨ f.digits ≤ f.prec)) ∧
  isizeMin ≤ f.exp ∧ f.exp ≤ isizeMax ∧ f.prec ≤ usizeMax

/-- exponents this far from the `isize` limits cannot overflow through rounding/normalization of the
    results of the ops without an explicit overflow rule -/
def moderate (f : FArg) : Bool := f.isInf ∨ (- 2 ^ 61 ≤ f.exp ∧ f.exp ≤ 2 ^ 61)

/-- `⌈log2 b⌉` -/
def log2Ceil (b : Nat) : Nat := if 2 ^ Nat.log2 b = b then Nat.log2 b else Nat.log2 b + 1

/-- `2^k ≤ |x|` for a finite non-zero `x = signif · base^exp` (sufficient test, base ≥ 2, exp ≥ 0 side only) -/
def magAtLeastPow2 (f : FArg) (k : Nat) : Bool :=
  f.signif ≠ 0 ∧ f.exp ≥ 0 ∧ (bitLen f.signif.natAbs - 1) + f.exp.toNat * (Nat.log2 f.base) ≥ k

/-- `|x| ≤ 2^k` (sufficient test) -/
def magAtMostPow2 (f : FArg) (k : Nat) : Bool :=
  f.signif = 0 ∨ (f.exp ≤ 0 ∧ bitLen f.signif.natAbs ≤ k) ∨ bitLen f.signif.natAbs + f.exp.toNat * log2Ceil f.base ≤ k

/-- number of trailing zero digits of `n ≠ 0` in base `b ≥ 2` -/
def trailingZerosAux (b : Nat) : Nat → Nat → Nat → Nat
  | 0, _, acc => acc
  | fuel + 1, n, acc => if n % b = 0 ∧ n ≠ 0 then trailingZerosAux b fuel (n / b) (acc + 1) else acc
def trailingZeros (b n : Nat) : Nat := trailingZerosAux b (Nat.log2 n + 1) n 0

/-- digits of the significand after `Repr::new` normalized it (trailing zero digits moved into the exponent) -/
def normDigits (f : FArg) : Nat := f.digits - trailingZeros f.base f.signif.natAbs
end FArg

/-- same base and mode (binary operators are restricted to the same base and rounding mode) -/
def sameKind (a b : FArg) : Bool := a.base = b.base ∧ a.mode = b.mode

/-- precision of the result of a binary operator: `Context::max` -/
def maxPrec (a b : FArg) : Nat := max a.prec b.prec

-- ------------------------------------------------------------------------------------------------
-- the documentation, operation by operation

/-- number of trailing zero bits of `n ≠ 0` -/
def tz2Aux : Nat → Nat → Nat → Nat
  | 0, _, acc => acc
  | fuel + 1, n, acc => if n % 2 = 0 ∧ n ≠ 0 then tz2Aux fuel (n / 2) (acc + 1) else acc
def tz2 (n : Nat) : Nat := tz2Aux (Nat.log2 n + 1) n 0

/-- result size of `x.pow(e)` for `|x| ≥ 2`, `e ≥ 2`.  `pow` removes the factor `2^s` first, raises the odd part
    (between `(L-1)·e + 1` and `L·e` bits, `L` its bit length) and shifts by `s·e`: the first allocation that cannot be
    made is the one reported -/
def powVerdict (W : Nat) (mag e : Nat) : Verdict :=
  if mag ≤ 1 ∨ e ≤ 1 then .returns
  else
    let s := tz2 mag
    let odd := mag >>> s
    let L := bitLen odd
    if odd = 1 then alloc W (s * e + 1)
    else
      match allocRange W ((L - 1) * e + 1) (L * e) with
      | .returns => allocRange W ((L - 1) * e + 1 + s * e) (L * e + s * e)
      | v => v

def divZero (b : Int) : Verdict := firstOf [(b = 0, .divideByZero)]

/-- size of the concatenation built by `from_chunks`: chunk `i` occupies bits from `k·i` on -/
def chunksBits (k : Nat) : Nat → List Int → Nat
  | _, [] => 0
  | i, c :: cs => max (k * i + bitLen c.natAbs) (chunksBits k (i + 1) cs)

def allInts : List Arg → Option (List Int)
  | [] => some []
  | .int i :: r => (allInts r).map (i :: ·)
  | _ => none

def allFlts : List Arg → Option (List FArg)
  | [] => some []
  | .flt f :: r => (allFlts r).map (f :: ·)
  | _ => none

/-- operand lists of `f.sum` / `f.product`: non-empty, every operand canonical, one base and rounding mode -/
def fListOk : List FArg → Bool
  | [] => false
  | a :: r => a.canonical ∧ r.all (fun b => b.canonical ∧ sameKind a b)

/-- does `1/d` have a finite expansion in base `b`: strip the factors `d` shares with `b` until none is left -/
def terminatesInAux (b : Nat) : Nat → Nat → Bool
  | 0, d => d = 1
  | fuel + 1, d => if Nat.gcd d b ≤ 1 then d = 1 else terminatesInAux b fuel (d / Nat.gcd d b)
def terminatesIn (b d : Nat) : Bool := terminatesInAux b (Nat.log2 d + 1) d

/-- `verdict W op args`: `none` = the argument list is not one this op takes (driver prints `bad-op`) -/
def verdict (W : Nat) : Op → List Arg → Option Verdict
  -- ---- integer parsers: fallible APIs, no documented panic; "Parsers return Err, never panic"
  | .uFromStrRadix, [.str _, .dec _] | .iFromStrRadix, [.str _, .dec _]
  | .uFromStrDefault, [.str _, .dec _] | .iFromStrDefault, [.str _, .dec _]
  | .uFromStrPrefix, [.str _] | .iFromStrPrefix, [.str _] | .uFromStr, [.str _] | .iFromStr, [.str _] => some .returns
  -- ---- (D1) in_radix: "Panics if radix is not between 2 and 36 inclusive."
  | .uInRadix, [.int x, .dec r] => if x < 0 then none else some (firstOf [(!radixOk r, .invalidRadix)])
  | .iInRadix, [.int _, .dec r] => some (firstOf [(!radixOk r, .invalidRadix)])
  | .uFmt, [.int x] => if x < 0 then none else some .returns
  | .iFmt, [.int _] => some .returns
  -- ---- shifts: no `# Panics`; (D4) allocation helpers for results that cannot exist
  | .uShl, [.int x, .dec n] =>
      if x < 0 ∨ n < 0 then none else some (if x = 0 then .returns else alloc W (bitLen x.natAbs + n.toNat))
  | .iShl, [.int x, .dec n] =>
      if n < 0 then none else some (if x = 0 then .returns else alloc W (bitLen x.natAbs + n.toNat))
  | .uShr, [.int x, .dec n] => if x < 0 ∨ n < 0 then none else some .returns
  | .iShr, [.int _, .dec n] => if n < 0 then none else some .returns
  | .uPow, [.int x, .dec e] => if x < 0 ∨ e < 0 then none else some (powVerdict W x.natAbs e.toNat)
  | .iPow, [.int x, .dec e] => if e < 0 then none else some (powVerdict W x.natAbs e.toNat)
  -- ---- roots: (D1) nth_root "If n is zero, or if n is even when the integer is negative"; (D4) root helpers
  | .uSqrt, [.int x] | .uCbrt, [.int x] => if x < 0 then none else some .returns
  | .iSqrt, [.int x] => some (firstOf [(x < 0, .rootNegative)])
  | .iCbrt, [.int _] => some .returns
  | .uNthRoot, [.int x, .dec n] => if x < 0 ∨ n < 0 then none else some (firstOf [(n = 0, .rootZeroth)])
  | .iNthRoot, [.int x, .dec n] =>
      if n < 0 then none else some (firstOf [(n = 0, .rootZeroth), (x < 0 ∧ n % 2 = 0, .rootNegative)])
  -- ---- (D1) ilog: "Panics if the number is 0, or the base is 0 or 1"
  | .uIlog, [.int x, .int b] => if x < 0 ∨ b < 0 then none else some (firstOf [(x = 0 ∨ b < 2, .logInvalid)])
  | .iIlog, [.int x, .int b] => if b < 0 then none else some (firstOf [(x = 0 ∨ b < 2, .logInvalid)])
  -- ---- (D2) Gcd / ExtendedGcd: "Panics if both operands are zeros"
  | .uGcd, [.int a, .int b] | .uGcdExt, [.int a, .int b] =>
      if a < 0 ∨ b < 0 then none else some (firstOf [(a = 0 ∧ b = 0, .gcdZeroZero)])
  | .iGcd, [.int a, .int b] | .iGcdExt, [.int a, .int b] => some (firstOf [(a = 0 ∧ b = 0, .gcdZeroZero)])
  -- ---- (D4) `panic_negative_ubig`, `panic_divide_by_0`; (D1) is_multiple_of "Panics if the divisor is zero."
  | .uSub, [.int a, .int b] => if a < 0 ∨ b < 0 then none else some (firstOf [(a < b, .negativeUBig)])
  | .uDiv, [.int a, .int b] | .uRem, [.int a, .int b] | .uDivRem, [.int a, .int b]
  | .uDivEuclid, [.int a, .int b] | .uRemEuclid, [.int a, .int b] | .uDivRemEuclid, [.int a, .int b]
  | .uIsMultipleOf, [.int a, .int b] => if a < 0 ∨ b < 0 then none else some (divZero b)
  | .iDiv, [.int _, .int b] | .iRem, [.int _, .int b] | .iDivRem, [.int _, .int b]
  | .iDivEuclid, [.int _, .int b] | .iRemEuclid, [.int _, .int b] | .iDivRemEuclid, [.int _, .int b]
  | .iIsMultipleOf, [.int _, .int b] => some (divZero b)
  -- "A const version of is_multiple_of" (divisor a DoubleWord)
  | .uIsMultipleOfConst, [.int a, .int d] => if a < 0 ∨ d < 0 ∨ d ≥ 2 ^ (2 * W) then none else some (divZero d)
  | .iIsMultipleOfConst, [.int _, .int d] => if d < 0 ∨ d ≥ 2 ^ (2 * W) then none else some (divZero d)
  -- remove: "For self = 0 or factor = 0 or 1, this method returns None."
  | .uRemove, [.int x, .int f] => if x < 0 ∨ f < 0 then none else some .returns
  -- ---- (D1) to_chunks / from_chunks: "Panics if chunk_bits is zero."
  | .uToChunks, [.int x, .dec k] => if x < 0 ∨ k < 0 then none else some (firstOf [(k = 0, .zeroChunkBits)])
  | .uFromChunks, .dec k :: cs =>
      match allInts cs with
      | none => none
      | some l =>
        if k < 0 ∨ l.any (· < 0) then none
        else some (if k = 0 then .panics .zeroChunkBits else alloc W (chunksBits k.toNat 0 l))
  -- ---- bits: no `# Panics`; (D4) allocation helpers
  | .uSetBit, [.int x, .dec n] =>
      if x < 0 ∨ n < 0 then none else some (alloc W (max (bitLen x.natAbs) (n.toNat + 1)))
  | .uClearBit, [.int x, .dec n] | .uBit, [.int x, .dec n] | .uSplitBits, [.int x, .dec n]
  | .uClearHighBits, [.int x, .dec n] => if x < 0 ∨ n < 0 then none else some .returns
  | .iBit, [.int _, .dec n] => if n < 0 then none else some .returns
  | .uOnes, [.dec n] => if n < 0 then none else some (alloc W n.toNat)
  | .uBitInfo, [.int x] | .uToPrims, [.int x] | .uBytes, [.int x] => if x < 0 then none else some .returns
  | .iBitInfo, [.int _] | .iToPrims, [.int _] | .iBytes, [.int _] | .uTryFromI, [.int _] => some .returns
  -- TryFrom to the primitive types and to UBig: fallible, never panics; WHICH conversions succeed is printed beside
  -- the verdict (`fitsPattern`): exactly those whose range contains the value
  | .uTryPrims, [.int x] => if x < 0 then none else some .returns
  | .iTryPrims, [.int _] => some .returns
  | .uTryFromF64, [.dec b] | .iTryFromF64, [.dec b] => if b < 0 ∨ b ≥ 2 ^ 64 then none else some .returns
  | .uTryFromF32, [.dec b] | .iTryFromF32, [.dec b] => if b < 0 ∨ b ≥ 2 ^ 32 then none else some .returns
  -- ---- ConstDivisor: (D4) `panic_divide_by_0`
  | .cdNew, [.int x] => if x < 0 then none else some (divZero x)
  | .cdFromWord, [.int x] => if x < 0 ∨ x ≥ 2 ^ W then none else some (divZero x)
  | .cdFromDword, [.int x] => if x < 0 ∨ x ≥ 2 ^ (2 * W) then none else some (divZero x)
  | .cdDivRem, [.int _, .int m] => if m < 0 then none else some (divZero m)
  -- ---- Reduced: modular/mod.rs "Trying to mix different ConstDivisor instances (even with the same modulus!)
  --      will cause a panic"; (D4) `panic_different_rings`, `panic_divide_by_invalid_modulo`
  | .mSame, [.fn f, .int m, .int _, .int b] =>
      if m < 0 ∨ ¬ (f ∈ ["add", "sub", "mul", "div", "eq"]) then none
      else if m = 0 then some (.panics .divideByZero)
      else if f = "div" then
        (if m = 1 then some .unspecified
         else some (firstOf [(Nat.gcd (b % m).natAbs m.natAbs ≠ 1, .nonInvertible)]))
      else some .returns
  | .mDiff, [.fn f, .int m1, .int _, .int m2, .int _] =>
      if m1 < 0 ∨ m2 < 0 ∨ ¬ (f ∈ ["add", "sub", "mul", "div", "eq"]) then none
      else some (firstOf [(m1 = 0 ∨ m2 = 0, .divideByZero), (true, .differentRings)])
  | .mInv, [.int m, .int _] => if m < 0 then none else some (divZero m)
  | .mPow, [.int m, .int _, .int e] => if m < 0 ∨ e < 0 then none else some (divZero m)
  -- ---- floats.  (D3) "infinities are not allowed to be operated with, except for equality test and
  --      comparison"; "Division by zero and logarithm on zero panic"; (D4) float/src/error.rs
  | .fAdd, [.flt a, .flt b] | .fSub, [.flt a, .flt b] =>
      if ¬ (a.canonical ∧ b.canonical ∧ sameKind a b) then none
      else if ¬ (a.moderate ∧ b.moderate) then some .unspecified
      else some (firstOf [(a.isInf ∨ b.isInf, .infinite)])
  | .fMul, [.flt a, .flt b] =>
      if ¬ (a.canonical ∧ b.canonical ∧ sameKind a b) then none
      else if a.isInf ∨ b.isInf then some (.panics .infinite)
      else if a.isZero ∨ b.isZero then some .returns
      else some (expApprox (a.exp + b.exp))
  | .fDiv, [.flt a, .flt b] =>
      if ¬ (a.canonical ∧ b.canonical ∧ sameKind a b) then none
      else if ¬ (a.moderate ∧ b.moderate) then some .unspecified
      else some (firstOf [(a.isInf ∨ b.isInf, .infinite), (maxPrec a b = 0, .unlimitedPrecision),
                          (b.isZero, .divideByZero)])
  | .fRem, [.flt a, .flt b] | .fDivEuclid, [.flt a, .flt b] | .fRemEuclid, [.flt a, .flt b] =>
      if ¬ (a.canonical ∧ b.canonical ∧ sameKind a b) then none
      else if ¬ (a.moderate ∧ b.moderate) then some .unspecified
      else some (firstOf [(a.isInf ∨ b.isInf, .infinite), (b.isZero, .divideByZero)])
  -- (D1) powf: "Panics if the precision is unlimited."; (D4) `panic_power_negative_base`
  | .fPowf, [.flt a, .flt b] =>
      if ¬ (a.canonical ∧ b.canonical ∧ sameKind a b) then none
      else if ¬ (a.moderate ∧ b.moderate) then some .unspecified
      else if a.isInf ∨ b.isInf then some (.panics .infinite)
      else if maxPrec a b = 0 then some (.panics .unlimitedPrecision)
      else if b.isZero ∨ (b.signif = 1 ∧ b.exp = 0) then some .returns   -- x^0 = 1, x^1 = x for every finite x
      else if a.isNeg then some (.panics .powNegativeBase)
      -- |x^y| can leave the exponent range only if |y·log2 x| ≥ 2^62; both factors are kept below 2^30
      else if a.magAtMostPow2 (2 ^ 30) ∧ b.magAtMostPow2 30 ∧ a.exp ≥ -(2 ^ 30) then some .returns
      else some .unspecified
  | .fCmp, [.flt a, .flt b] =>
      if ¬ (a.canonical ∧ b.canonical ∧ a.base = b.base) then none
      else if ¬ (a.moderate ∧ b.moderate) then some .unspecified
      else some .returns
  | .fSqr, [.flt a] =>
      if ¬ a.canonical then none
      else if a.isInf then some (.panics .infinite) else if a.isZero then some .returns
      else some (expApprox (2 * a.exp))
  | .fCubic, [.flt a] =>
      if ¬ a.canonical then none
      else if a.isInf then some (.panics .infinite) else if a.isZero then some .returns
      else some (expApprox (3 * a.exp))
  -- (D1) sqrt: "Panics if the precision is unlimited."; (D4) `panic_root_negative`
  | .fSqrt, [.flt a] =>
      if ¬ a.canonical then none else if ¬ a.moderate then some .unspecified
      else some (firstOf [(a.isInf, .infinite), (a.prec = 0, .unlimitedPrecision), (a.isNeg, .rootNegative)])
  | .fInv, [.flt a] =>
      if ¬ a.canonical then none else if ¬ a.moderate then some .unspecified
      else some (firstOf [(a.isInf, .infinite), (a.prec = 0, .unlimitedPrecision), (a.isZero, .divideByZero)])
  -- (D3) "logarithm on zero panic", NaN-producing operations panic
  | .fLn, [.flt a] =>
      if ¬ a.canonical then none else if ¬ a.moderate then some .unspecified
      else some (firstOf [(a.isInf, .infinite), (a.prec = 0, .unlimitedPrecision),
                          (a.isZero ∨ a.isNeg, .logInvalid)])
  | .fLn1p, [.flt a] =>
      if ¬ a.canonical then none else if ¬ a.moderate then some .unspecified
      else some (firstOf [(a.isInf, .infinite), (a.prec = 0, .unlimitedPrecision),
                          -- x ≤ -1  ⇔  signif·B^exp ≤ -1
                          (a.isNeg ∧ (a.exp ≥ 0 ∨ a.signif.natAbs ≥ a.base ^ (-a.exp).toNat), .logInvalid)])
  -- (D3) overflow / underflow of the result panics: e^x leaves the exponent range iff |x| / ln B > 2^63
  | .fExp, [.flt a] =>
      if ¬ a.canonical then none else if ¬ a.moderate then some .unspecified
      else if a.isInf then some (.panics .infinite)
      else if a.prec = 0 then some (.panics .unlimitedPrecision)
      else if a.magAtLeastPow2 66 then some (.panics .exponentOverflow)
      else if a.magAtMostPow2 61 then some .returns
      else some .unspecified
  | .fExpM1, [.flt a] =>
      if ¬ a.canonical then none else if ¬ a.moderate then some .unspecified
      else if a.isInf then some (.panics .infinite)
      else if a.prec = 0 then some (.panics .unlimitedPrecision)
      else if a.magAtLeastPow2 66 then (if a.isNeg then some .returns else some (.panics .exponentOverflow))
      else if a.magAtMostPow2 61 then some .returns
      else some .unspecified
  -- (D1) to_int / trunc / fract / ceil / floor / round: "Panics if the number is infinte"
  | .fToInt, [.flt a] | .fTrunc, [.flt a] | .fFract, [.flt a] | .fCeil, [.flt a] | .fFloor, [.flt a]
  | .fRound, [.flt a] | .fSplitAtPoint, [.flt a] =>
      if ¬ a.canonical then none else if ¬ a.moderate then some .unspecified
      else if a.isInf then some (.panics .infinite)
      -- the integer part has about exp·log2(B) bits
      else if a.exp ≤ 2 ^ 20 then some .returns else some .unspecified
  -- (D1) ulp: "Panics if the precision of the number is 0 (unlimited)."
  | .fUlp, [.flt a] =>
      if ¬ a.canonical then none else if ¬ a.moderate then some .unspecified
      -- (D3) the unit in the last place is B^(exp + digits − precision): an exponent below isize::MIN underflows
      else some (firstOf [(a.prec = 0, .unlimitedPrecision),
                          (¬ a.isInf ∧ a.exp + (a.digits : Int) - (a.prec : Int) < isizeMin, .exponentOverflow)])
  -- conversions to f32/f64: "The infinities are converted as it is"; lossy conversions report the rounding
  | .fToF32, [.flt a] | .fToF64, [.flt a] | .fNegAbs, [.flt a] | .fToIntTry, [.flt a]
  | .fToRatio, [.flt a] =>
      if ¬ a.canonical then none else if ¬ a.moderate then some .unspecified
      else if a.exp.natAbs ≤ 2 ^ 20 then some .returns else some .unspecified
  -- (D3) "Any other operations on the infinity will lead to panic": the documentation does not say whether the
  --      inspectors (`digits`, `precision`, `into_parts`) and `with_precision` count as operations; transcribed as
  --      "they do" (the panic helper's message speaks of arithmetic operations; both readings are defensible)
  | .fInfo, [.flt a] =>
      if ¬ a.canonical then none else if ¬ a.moderate then some .unspecified
      else if a.isInf then some (.panics .infinite)
      else if a.exp.natAbs ≤ 2 ^ 20 then some .returns else some .unspecified
  | .fFmt, [.flt a] =>
      if ¬ a.canonical then none
      else if a.isInf ∨ a.exp.natAbs ≤ 2 ^ 16 then some .returns else some .unspecified
  -- (D1) to_decimal / to_binary / with_base: "Panics if the associated context has unlimited precision and the
  --      conversion cannot be performed losslessly."; with_base_and_precision makes it precise: "Conversion for
  --      float numbers with unlimited precision is only allowed in following cases: the number is infinite, the
  --      new base NewB is a power of B, B is a power of the new base NewB" (2 and 10 are neither)
  | .fToDecimal, [.flt a] =>
      if ¬ a.canonical then none
      else if a.isInf then some .returns
      else if a.exp.natAbs > 2 ^ 20 then some .unspecified
      else some (firstOf [(a.base ≠ 10 ∧ a.prec = 0, .unlimitedPrecision)])
  | .fToBinary, [.flt a] =>
      if ¬ a.canonical then none
      else if a.isInf then some .returns
      else if a.exp.natAbs > 2 ^ 20 then some .unspecified
      else some (firstOf [(a.base ≠ 2 ∧ a.prec = 0, .unlimitedPrecision)])
  -- (D1) powi: "Panics if the precision is unlimited and the exponent is negative."; 0^(-n) divides by zero
  | .fPowi, [.flt a, .int e] =>
      if ¬ a.canonical then none
      else if ¬ a.moderate ∧ a.signif.natAbs ≠ 1 then some .unspecified
      else if a.isInf then some (.panics .infinite)
      else if e < 0 ∧ a.prec = 0 then some (.panics .unlimitedPrecision)
      else if e < 0 ∧ a.isZero then some (.panics .divideByZero)
      else if a.isZero ∨ e = 0 then some .returns
      else if a.signif.natAbs = 1 then some (expApprox (a.exp * e))   -- ±B^k: the exponent is k·e exactly
      else if e.natAbs ≤ 2 ^ 10 ∧ a.exp.natAbs ≤ 2 ^ 30 then some .returns
      else some .unspecified
  | .fShl, [.flt a, .dec n] =>
      if ¬ a.canonical ∨ n < isizeMin ∨ n > isizeMax then none
      else if a.isInf then some (.panics .infinite) else if a.isZero then some .returns
      else some (expExact (a.exp + n))
  | .fShr, [.flt a, .dec n] =>
      if ¬ a.canonical ∨ n < isizeMin ∨ n > isizeMax then none
      else if a.isInf then some (.panics .infinite) else if a.isZero then some .returns
      else some (expExact (a.exp - n))
  | .fWithPrecision, [.flt a, .dec p] =>
      if ¬ a.canonical ∨ p < 0 ∨ p > usizeMax then none else if ¬ a.moderate then some .unspecified
      else some .returns        -- a conversion: infinities are carried over (as in to_f32/to_f64/with_base)
  -- from_parts normalizes: the exponent grows by the number of trailing zero digits (at most the digit count)
  | .fFromParts, [.int s, .dec e, .flt z] =>
      if ¬ z.canonical ∨ e < isizeMin ∨ e > isizeMax then none
      else if s = 0 then some .returns
      else some (expExact (e + (FArg.trailingZeros z.base s.natAbs : Int)))
  -- (D1) from_repr: "Panics if the Repr has more digits than the precision limit specified in the context.
  --      Note that this condition is not checked in release builds."   first arg: 1 = debug build
  | .fFromRepr, [.dec dbg, .flt a] =>
      if ¬ (dbg = 0 ∨ dbg = 1) ∨ ¬ ((a.base = 2 ∧ a.mode = 'Z') ∨ (a.base = 10 ∧ a.mode = 'H')) then none
      else if ¬ a.moderate then some .unspecified
      else some (firstOf [(dbg = 1 ∧ ¬ a.isInf ∧ a.prec ≠ 0 ∧ a.normDigits > a.prec, .precisionExceeded)])
  -- parser: "Parsers return Err, never panic"
  | .fParse, [.str _, .flt z] => if ¬ z.canonical then none else some .returns
  | .fFromInt, [.int _, .dec p, .flt z] => if ¬ z.canonical ∨ p < 0 then none else some .returns
  | .fFromF64, [.dec b, .flt _] => if b < 0 ∨ b ≥ 2 ^ 64 then none else some .returns
  -- ---- rationals: (D4) rational/src/error.rs `panic_divide_by_0` "Divisor or denominator must not be zero!"
  | .qFromParts, [.int _, .int d, .kind _] => if d < 0 then none else some (divZero d)
  | .qFromPartsSigned, [.int _, .int d, .kind _] => some (divZero d)
  | .qParse, [.str _, .kind _] | .qFromStrPrefix, [.str _, .kind _] | .qFromStrRadix, [.str _, .dec _, .kind _] =>
      some .returns
  | .qFromF64, [.dec b] => if b < 0 ∨ b ≥ 2 ^ 64 then none else some .returns
  | .qInv, [.int n, .int d, .kind _] => if d ≤ 0 then none else some (divZero n)
  | .qPow, [.int n, .int d, .kind c, .dec e] =>
      if d ≤ 0 ∨ e < 0 then none
      else
        -- the value is stored reduced: `RBig` by the gcd, `Relaxed` by the common power of two (`reduce2`); 0 is 0/1
        let g := if n = 0 then d.natAbs
                 else if c = 'R' then Nat.gcd n.natAbs d.natAbs
                 else 2 ^ min (tz2 n.natAbs) (tz2 d.natAbs)
        some (match powVerdict W (n.natAbs / g) e.toNat with     -- numerator first, then denominator
              | .returns => powVerdict W (d.natAbs / g) e.toNat
              | v => v)
  | .qSqrCubic, [.int _, .int d, .kind _] | .qRounding, [.int _, .int d, .kind _]
  | .qToFloats, [.int _, .int d, .kind _] | .qSign, [.int _, .int d, .kind _] | .qFmt, [.int _, .int d, .kind _]
  | .qToIntTry, [.int _, .int d, .kind _] => if d ≤ 0 then none else some .returns
  -- to_float with unlimited precision: the quotient is in general not representable ("inexact results at
  -- unlimited precision")
  | .qToFloat, [.int _, .int d, .kind _, .dec p] =>
      if d ≤ 0 ∨ p < 0 then none
      else if p > 2 ^ 20 then some .unspecified       -- huge precisions: one base per call, `q.to_float_b`
      else some (firstOf [(p = 0, .unlimitedPrecision)])
  -- to_float at any precision, one base: a quotient that terminates in base B is returned exactly whatever the
  -- precision (it has few digits); otherwise the result has `p` digits = between p·⌊log2 B⌋ and p·⌈log2 B⌉ bits (D4)
  | .qToFloatB, [.int n, .int d, .kind _, .dec p, .dec b] =>
      if d ≤ 0 ∨ p < 0 ∨ ¬ (b = 2 ∨ b = 10) then none
      else if p = 0 then some (.panics .unlimitedPrecision)
      else if n = 0 ∨ p ≤ 2 ^ 20 then some .returns
      else if terminatesIn b.toNat (d.natAbs / Nat.gcd n.natAbs d.natAbs) then some .returns
      else some (allocRange W (p.toNat * Nat.log2 b.toNat) (p.toNat * FArg.log2Ceil b.toNat))
  | .qDiv, [.int _, .int d, .kind _, .int n2, .int d2] | .qRem, [.int _, .int d, .kind _, .int n2, .int d2]
  | .qDivEuclid, [.int _, .int d, .kind _, .int n2, .int d2] =>
      if d ≤ 0 ∨ d2 ≤ 0 then none else some (divZero n2)
  | .qAdd, [.int _, .int d, .kind _, .int _, .int d2] | .qSub, [.int _, .int d, .kind _, .int _, .int d2]
  | .qMul, [.int _, .int d, .kind _, .int _, .int d2] | .qCmp, [.int _, .int d, .kind _, .int _, .int d2]
  | .qSimplestIn, [.int _, .int d, .kind _, .int _, .int d2] =>
      if d ≤ 0 ∨ d2 ≤ 0 then none else some .returns
  | .qDivInt, [.int _, .int d, .kind _, .int i] => if d ≤ 0 then none else some (divZero i)
  -- nearest / next_up / next_down: a zero limit is a zero denominator
  | .qNearest, [.int _, .int d, .kind _, .int l] | .qNextUp, [.int _, .int d, .kind _, .int l]
  | .qNextDown, [.int _, .int d, .kind _, .int l] => if d ≤ 0 ∨ l < 0 then none else some (divZero l)
  -- ---- round 5.  core::iter::Sum / Product (integer/src/iter.rs, float/src/iter.rs): no `# Panics`; a fold with the
  --      operator from ZERO / ONE, so the operator's documentation applies to every step.  Hash: derived / no `# Panics`.
  | .uSum, cs =>
      match allInts cs with
      | none => none
      | some l => if l.any (· < 0) then none else some .returns
  | .iSum, cs => (allInts cs).map (fun _ => .returns)
  | .uProduct, cs =>
      match allInts cs with
      | none => none
      | some l =>
        if l.any (· < 0) then none
        else some (if (l.map (fun c => bitLen c.natAbs)).sum ≤ memLoBits then .returns else .unspecified)
  | .iProduct, cs =>
      (allInts cs).map (fun l => if (l.map (fun c => bitLen c.natAbs)).sum ≤ memLoBits then .returns else .unspecified)
  | .uHash, [.int x] => if x < 0 then none else some .returns
  | .iHash, [.int _] => some .returns
  | .qHash, [.int _, .int d, .kind c] => if d ≤ 0 ∨ c ≠ 'R' then none else some .returns
  -- (D3) every step is an addition / multiplication: an infinite operand anywhere in the list panics; exact sums at
  --      unlimited precision are kept to small exponents, products to short lists of small exponents (no overflow)
  | .fSum, as =>
      match allFlts as with
      | none => none
      | some l =>
        if ¬ fListOk l then none
        else if ¬ l.all (fun a => a.isInf ∨ (a.exp.natAbs ≤ 2 ^ 20)) then some .unspecified
        else some (firstOf [(l.any (·.isInf), .infinite)])
  | .fProduct, as =>
      match allFlts as with
      | none => none
      | some l =>
        if ¬ fListOk l then none
        else if ¬ (l.length ≤ 2 ^ 10 ∧ l.all (fun a => a.isInf ∨ (a.exp.natAbs ≤ 2 ^ 40))) then some .unspecified
        else some (firstOf [(l.any (·.isInf), .infinite)])
  | _, _ => none

/-- `y`/`n` for the conversions to u8 u16 u32 u64 u128 usize i8 i16 i32 i64 i128 isize and UBig (64-bit target):
    `Ok` exactly when the value lies in the range of the type -/
def fitsPattern (x : Int) : String :=
  let u (b : Nat) : Char := if 0 ≤ x ∧ x < 2 ^ b then 'y' else 'n'
  let i (b : Nat) : Char := if -(2 ^ (b - 1)) ≤ x ∧ x < 2 ^ (b - 1) then 'y' else 'n'
  String.ofList [u 8, u 16, u 32, u 64, u 128, u 64, i 8, i 16, i 32, i 64, i 128, i 64, if 0 ≤ x then 'y' else 'n']

/-- the documented panic of a call, if any (`none`: documented to return, or not determined) -/
def documented (W : Nat) (op : Op) (args : List Arg) : Option Kind :=
  match verdict W op args with
  | some (.panics k) => some k
  | _ => none

end Dashu.Spec.Panics
