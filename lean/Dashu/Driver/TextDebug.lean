import Dashu.Model.Text.Debug
import Dashu.Model.Text.Float
/-
  Driver helper of group `text` (C07): `{:?}` of `UBig` / `IBig`.  The MODEL side is the mirrored
  `DoubleEnd::fmt_non_power_two` + `format_prepared` of Model/Text/Debug.lean (heap arm on words:
  rem_by_word, log_word_base, div_by_word_in_place, normalize, shl_in_place, div_rem_highest_word);
  the SPEC side is the closed form `debugSpec` (= the text by `Props/C07Debug.debug_text`), which must
  also agree with `debugInt` of Model/Text/Float.lean (used inside the float `Debug` forms of C08).
  `est = 1` is the first guess handed to the `log_word_base` model (any guess with `10^est ≤ n` gives the
  same result: C10 `logWordBase_spec`; the real f32 estimate is C10's subject).
-/
namespace Dashu.Driver.TextDebug
open Dashu.Model.Text

def dbgOp (fmt : List Nat → String) (W : Nat) (alt plus : Bool) (z : Int) : String :=
  let spec := debugSpec W alt plus z
  let tie := if spec = debugInt W alt plus z then "" else " !model-spec-mismatch debugSpec/debugInt"
  match doubleEndFmt W 1 alt plus z with
  | .ok t => "ok " ++ fmt spec ++ (if t = spec then "" else " !model-spec-mismatch model=" ++ fmt t) ++ tie
  | .error k => "ok " ++ fmt spec ++ " !model-spec-mismatch model=panic_" ++ (k.name.replace " " "_") ++ tie

end Dashu.Driver.TextDebug
