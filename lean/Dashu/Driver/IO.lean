/-
  Line-protocol lexical layer shared by all driver modules (core Lean only).

  Integers   : `[-]<hex>`            e.g. `-1f`, `0`
  Word lists : `w:<hex>,<hex>,…`     little-endian; `w:` is the empty list
  Byte strs  : `s:<hex bytes>`       `s:` is the empty string
  Decimals   : `d:<[-]decimal>`      small machine-size parameters (shift counts, precisions)
-/
namespace Dashu.IO

def hexVal (c : Char) : Option Nat :=
  if '0' ≤ c ∧ c ≤ '9' then some (c.toNat - '0'.toNat)
  else if 'a' ≤ c ∧ c ≤ 'f' then some (c.toNat - 'a'.toNat + 10)
  else if 'A' ≤ c ∧ c ≤ 'F' then some (c.toNat - 'A'.toNat + 10)
  else none

/-- divide-and-conquer hex parsing over an array of digit values; `lo ≤ hi`. -/
partial def hexRange (ds : Array Nat) (lo hi : Nat) : Nat :=
  if hi - lo ≤ 12 then
    Id.run do
      let mut acc := 0
      for i in [lo:hi] do
        acc := acc * 16 + ds[i]!
      return acc
  else
    let mid := (lo + hi) / 2
    (hexRange ds lo mid) <<< (4 * (hi - mid)) + hexRange ds mid hi

def parseHexNat (s : String) : Option Nat := do
  if s.isEmpty then none
  let mut ds : Array Nat := Array.mkEmpty s.length
  for c in s.toList do
    ds := ds.push (← hexVal c)
  return hexRange ds 0 ds.size

def parseInt (s : String) : Option Int :=
  if s.startsWith "-" then (fun n : Nat => - (n : Int)) <$> parseHexNat (s.drop 1).toString
  else (fun n : Nat => (n : Int)) <$> parseHexNat s

def parseNat (s : String) : Option Nat := parseHexNat s

def hexDigit (n : Nat) : Char :=
  if n < 10 then Char.ofNat (n + 48) else Char.ofNat (n - 10 + 97)

/-- exactly `k` hex digits of `n % 16^k`, most significant first -/
partial def hexFixed (n k : Nat) (acc : String) : String :=
  if k ≤ 12 then
    Id.run do
      let mut out := acc
      for i in [0:k] do
        out := out.push (hexDigit ((n >>> (4 * (k - 1 - i))) % 16))
      return out
  else
    let lowk := k / 2
    let hi := n >>> (4 * lowk)
    let lo := n % (1 <<< (4 * lowk))
    hexFixed lo lowk (hexFixed hi (k - lowk) acc)

def natToHex (n : Nat) : String :=
  if n = 0 then "0" else hexFixed n (Nat.log2 n / 4 + 1) ""

def intToHex (i : Int) : String :=
  if i < 0 then "-" ++ natToHex i.natAbs else natToHex i.natAbs

def parseWords (s : String) : Option (List Nat) :=
  if !s.startsWith "w:" then none
  else
    let body := (s.drop 2).toString
    if body.isEmpty then some []
    else (body.splitOn ",").mapM parseHexNat

def wordsToStr (ws : List Nat) : String :=
  "w:" ++ ",".intercalate (ws.map natToHex)

def parseBytes (s : String) : Option (List UInt8) :=
  if !s.startsWith "s:" then none
  else
    let rec go : List Char → List UInt8 → Option (List UInt8)
      | [], acc => some acc.reverse
      | [_], _ => none
      | a :: b :: rest, acc => do
          let x ← hexVal a
          let y ← hexVal b
          go rest (UInt8.ofNat (x * 16 + y) :: acc)
    go (s.drop 2).toString.toList []

def bytesToStr (bs : List UInt8) : String :=
  "s:" ++ String.ofList (bs.flatMap fun b => [hexDigit (b.toNat / 16), hexDigit (b.toNat % 16)])

def parseDec (s : String) : Option Int :=
  if !s.startsWith "d:" then none
  else (s.drop 2).toString.toInt?

def parseDecNat (s : String) : Option Nat :=
  if !s.startsWith "d:" then none
  else (s.drop 2).toString.toNat?

def decStr (i : Int) : String := "d:" ++ toString i

def boolStr (b : Bool) : String := if b then "true" else "false"

def ordStr : Ordering → String
  | .lt => "lt" | .eq => "eq" | .gt => "gt"

end Dashu.IO
