import Dashu.Driver.Loop
import Dashu.Model.Conv.Ieee
import Dashu.Model.Conv.Prim
import Dashu.Model.Conv.Ratio
import Dashu.Model.Conv.Exact
import Dashu.Model.Conv.Base
import Dashu.Model.Conv.ToFloat
/-
  Driver of group `conv` (C06).  For every op it prints what the property REQUIRES (the spec);
  where a mirrored model exists it is evaluated beside the spec and a difference is reported as
  ` !model-spec-mismatch` (a defect of our model, never of dashu).  The `*.asis` ops print the
  model of the code *as it is in the pinned tree* (including its known defects) and are only
  generated while the tree is unrepaired: they tie `encodeAsIs` (the subject of the
  counterexample and `_partial` theorems) to the real code.
-/
namespace Dashu.Driver.Conv
open Dashu.IO Dashu.Model Dashu.Model.Conv Dashu.Driver

/-- `p:<type>:<[-]hex>` -/
def parsePrim (s : String) : Option (String × Int) :=
  match s.splitOn ":" with
  | ["p", t, v] => (fun i => (t, i)) <$> parseInt v
  | _ => none

def primRange : String → Option (Int × Int)
  | "u8" => some (0, 2^8 - 1) | "u16" => some (0, 2^16 - 1) | "u32" => some (0, 2^32 - 1)
  | "u64" => some (0, 2^64 - 1) | "u128" => some (0, 2^128 - 1) | "usize" => some (0, 2^64 - 1)
  | "i8" => some (-2^7, 2^7 - 1) | "i16" => some (-2^15, 2^15 - 1) | "i32" => some (-2^31, 2^31 - 1)
  | "i64" => some (-2^63, 2^63 - 1) | "i128" => some (-2^127, 2^127 - 1) | "isize" => some (-2^63, 2^63 - 1)
  | _ => none

/-- a primitive of the given type, range-checked -/
def parsePrimOf (ty : String) (s : String) : Option Int := do
  let (t, v) ← parsePrim s
  if t ≠ ty then none
  let (lo, hi) ← primRange ty
  if lo ≤ v ∧ v ≤ hi then some v else none

def primStr (ty : String) (v : Int) : String := "p:" ++ ty ++ ":" ++ intToHex v

def parseFloatBits (ty : String) (width : Nat) (s : String) : Option Nat := do
  match s.splitOn ":" with
  | ["p", t, v] =>
    if t ≠ ty then none
    let b ← parseHexNat v
    if b < 2 ^ width then some b else none
  | _ => none

def fbits (ty : String) (b : Nat) : String := "p:" ++ ty ++ ":" ++ natToHex b

def apxStr (ty : String) (r : Nat × Flag) : String := fbits ty r.1 ++ " " ++ r.2.name

def excStr (ty : String) : Except PanicKind (Nat × Flag) → String
  | .ok r => ok (apxStr ty r)
  | .error k => panic k.name

/-- required = spec; the repaired model must coincide with it -/
def encodeOp (ty : String) (F : Ieee) (c : EncConsts) (m e : Int) : String :=
  let spec := ok (apxStr ty (ieeeRound F m e))
  let model := excStr ty (encodeFixed c m e)
  if model = spec then spec else spec ++ " !model-spec-mismatch model=" ++ model

def decodeOp (mty : String) (d : DecConsts) (b : Nat) : String :=
  match decode d b with
  | .ok (m, e) => ok (primStr mty m ++ " " ++ primStr "i16" e)
  | .error c => ok ("err:" ++ c.name)

def primBits : String → Option (Nat × Bool)
  | "u8" => some (8, false) | "u16" => some (16, false) | "u32" => some (32, false)
  | "u64" => some (64, false) | "u128" => some (128, false) | "usize" => some (64, false)
  | "i8" => some (8, true) | "i16" => some (16, true) | "i32" => some (32, true)
  | "i64" => some (64, true) | "i128" => some (128, true) | "isize" => some (64, true)
  | _ => none

def errStr (e : ConvErr) : String := "err:" ++ e.name

def convStr (ty : String) : Except ConvErr Int → String
  | .ok v => primStr ty v
  | .error e => errStr e

/-- model beside spec -/
def chk (model spec : String) : String :=
  if model = spec then ok spec else ok spec ++ " !model-spec-mismatch model=" ++ model

def sreprInt (W : Nat) (r : SRepr) : String :=
  let v := r.mag.value W
  if r.neg then (if v = 0 then "-0" else "-" ++ natToHex v) else natToHex v

/-- big → primitive: model (mirrored width/sign checks on the canonical repr) and spec (range) -/
def toPrimOp (W : Nat) (ty : String) (x : Int) (fromU : Bool) : Option String := do
  let (bits, signed) ← primBits ty
  let (lo, hi) ← primRange ty
  let spec := convStr ty (intoRangeSpec lo hi x)
  let model : Except ConvErr Int :=
    if fromU then
      (if signed then ubigTryToSigned W bits (ofNat W x.toNat)
       else (fun n : Nat => (n : Int)) <$> tryToUnsigned W bits (ofNat W x.toNat))
    else
      (if signed then ibigTryToSigned W bits (⟨decide (x < 0), ofNat W x.natAbs⟩ : SRepr)
       else (fun n : Nat => (n : Int)) <$> ibigTryToUnsigned W bits (⟨decide (x < 0), ofNat W x.natAbs⟩ : SRepr))
  pure (chk (convStr ty model) spec)

def fromPrimOp (W : Nat) (kind : String) (a : String) : Option String := do
  let (ty, v) ← parsePrim a
  if ty = "bool" then
    if v = 0 ∨ v = 1 then return ok (intToHex v) else none
  let (bits, signed) ← primBits ty
  let (lo, hi) ← primRange ty
  if ¬ (lo ≤ v ∧ v ≤ hi) then none
  match kind with
  | "u" =>
    if signed then
      let spec := if v < 0 then errStr .outOfBounds else intToHex v
      let model := match ubigTryFromSigned W bits v with
        | .ok r => natToHex (r.value W) | .error e => errStr e
      pure (chk model spec)
    else pure (chk (natToHex ((fromUnsigned W v.toNat).value W)) (intToHex v))
  | "i" =>
    let model := if signed then sreprInt W (fromSigned W bits v)
      else sreprInt W ⟨false, fromUnsigned W v.toNat⟩
    pure (chk model (intToHex v))
  | _ => pure (ok (intToHex v ++ " 1"))

/-- integer → float: spec = IEEE rounding of the integer; model = mirrored `to_fNN` with the
    repaired `encode` / `to_f64_small` -/
def intToFloatOp (W : Nat) (ty : String) (F : Ieee) (x : Int) (asis : Bool) : String :=
  let spec := ok (apxStr ty (ieeeRound F x 0))
  let r := ofNat W x.natAbs
  let m := if F.MB = 23 then toF32 W (!asis) r else toF64 W (!asis) r
  let model := excStr ty ((signedApx F (decide (x < 0))) <$> m)
  if asis then model
  else if model = spec then spec else spec ++ " !model-spec-mismatch model=" ++ model

def tryToFloatOp (ty : String) (F : Ieee) (x : Int) : String :=
  match ubigTryToFloat F x.natAbs with
  | .ok b =>
    -- spec side: a successful conversion must be exact
    let b' := if x < 0 then F.signBit + b else b
    let exact := ieeeRound F x 0
    if exact = (b', Flag.exact) ∨ x = 0 then ok (fbits ty b')
    else ok (fbits ty b') ++ " !model-spec-mismatch inexact-success"
  | .error e => ok (errStr e)

def intFromFloatOp (d : DecConsts) (signed : Bool) (b : Nat) : String :=
  let spec := match intFromFloatSpec d signed b with
    | .ok v => intToHex v
    | .error e => errStr e
  -- model of the current tree beside the spec
  let model := if signed then
      (match ibigTryFromFloat d b with | .ok v => intToHex v | .error e => errStr e)
    else
      (match ubigTryFromFloat d b with | .ok v => natToHex v | .error e => errStr e)
  chk model spec

def intFromFloatAsIsOp (d : DecConsts) (signed : Bool) (b : Nat) : String :=
  if signed then
    match ibigTryFromFloatAsIs d b with
    | .ok v => ok (intToHex v) | .error e => ok (errStr e)
  else
    match ubigTryFromFloatAsIs d b with
    | .ok v => ok (natToHex v) | .error e => ok (errStr e)

-- ------------------------------------------------------------------ rationals

def gcdReduce (num : Int) (den : Nat) : Int × Nat :=
  let g := Nat.gcd num.natAbs den
  if g = 0 then (num, den) else (num / (g : Int), den / g)

def ratStr (num : Int) (den : Nat) : String :=
  let (n, d) := gcdReduce num den
  intToHex n ++ " " ++ natToHex d

def isPow2 (n : Nat) : Bool := n ≠ 0 && (2 ^ (Nat.log2 n) == n)

/-- required result of `r.to_fNN`; the mirrored as-is model beside it is printed by `.asis` -/
def ratToFloatOp (ty : String) (c : RatConsts) (enc : EncConsts) (num : Int) (den : Nat) (asis : Bool) : String :=
  -- RBig is kept in lowest terms; the as-is algorithm depends on the representation
  if asis then (let (n, d) := gcdReduce num den; excStr ty (ratToFloatAsIs c (encodeFixed enc) n d))
  else
    let spec := ok (apxStr ty (ieeeRoundRat c.F .halfEven num den))
    -- the proposed repair must coincide with the spec
    let fixed := excStr ty (ratToFloatFixed c (encodeFixed enc) num den)
    if fixed = spec then spec else spec ++ " !model-spec-mismatch model=" ++ fixed

def ratFastOp (ty : String) (c : RatConsts) (enc : EncConsts) (num0 : Int) (den0 : Nat) : String :=
  let (num, den) := gcdReduce num0 den0
  match ratToFloatFast c (encodeFixed enc) num den with
  | .error k => panic k.name
  | .ok b =>
    let exact := (ieeeRoundRat c.F .halfEven num den).1
    -- bounded error: truncating the denominator to `prec` bits perturbs the quotient by < 2^-(prec-1) relatively,
    -- i.e. < 2 units of the result when the quotient has prec+1 bits; its rounding to an integer adds 1/4 and the
    -- rounding in `encode` 1/2, the correct rounding is within 1/2: at most 3 units apart.  (The doc comment promises
    -- "off by one bit"; 2 and 3 units do occur, e.g. 0x31b673d9606ff / 0x3202e716bcff15f528505a75a437018bd2bb8.)
    let d := if b ≥ exact then b - exact else exact - b
    if d ≤ 3 then ok (fbits ty b) else ok (fbits ty b) ++ " !bound-violated correctly-rounded=" ++ fbits ty exact

/-- `TryFrom<RBig> for fNN`: Ok iff exactly representable (SPEC).  The KIND of a refusal follows the
    order of the checks in the code: non-dyadic ⇒ LossOfPrecision; magnitude ≥ 2^(emax+1) ⇒ OutOfBounds;
    below the least subnormal ⇒ LossOfPrecision; mantissa too wide ⇒ LossOfPrecision; rounds to ∞ ⇒
    OutOfBounds; otherwise LossOfPrecision. -/
def ratTryToFloatOp (ty : String) (F : Ieee) (N : Nat) (num : Int) (den : Nat) : String :=
  let (n, d) := gcdReduce num den
  -- the value-level specification (`Model/Conv/Base.lean`), proved equal to the mirrored conversion for every
  -- rational in lowest terms (`Props.C06.rbig_try_to_f32_kind / _f64_kind`)
  match ratTryToFloatSpec F N n d with
  | .ok b => ok (fbits ty b)
  | .error e => ok (errStr e)

def ratFromFloatOp (d : DecConsts) (b : Nat) : String :=
  match decode d b with
  | .error _ => ok (errStr .outOfBounds)
  | .ok (man, exp) =>
    let (n, dd) := floatAsRat 2 man exp
    ok (ratStr n dd)

def ratToIntOp (num : Int) (den : Nat) : String :=
  let t := Int.tdiv num den
  let fr := num - t * den
  if fr = 0 then ok (intToHex t ++ " Exact")
  else ok (intToHex t ++ " Inexact " ++ ratStr fr den)

def ratToBigOp (num : Int) (den : Nat) (unsigned : Bool) : String :=
  let (n, d) := gcdReduce num den
  if unsigned ∧ n < 0 then ok (errStr .outOfBounds)
  else if d = 1 then ok (intToHex n) else ok (errStr .lossOfPrecision)

def ratToPrimOp (ty : String) (num : Int) (den : Nat) : Option String := do
  let (lo, hi) ← primRange ty
  let (n, d) := gcdReduce num den
  if d ≠ 1 then pure (ok (errStr .lossOfPrecision))
  else pure (ok (convStr ty (intoRangeSpec lo hi n)))

-- ------------------------------------------------------------------ digits in base B

def natPow (b : Nat) (e : Int) : Nat := b ^ e.toNat

/-- number of base-`B` digits of `n > 0` -/
partial def digitLen (B n : Nat) : Nat :=
  if n = 0 ∨ B < 2 then 0 else
  -- estimate from bit lengths, then correct
  let est := (Nat.log2 n) / (Nat.log2 B + 1)
  let rec up (d : Nat) : Nat := if B ^ d ≤ n then up (d + 1) else d
  up est

/-- SPEC of `RBig::to_float`: `num/den` rounded to `prec` base-`B` digits under `mode`;
    returns normalized (signif, exp) and the adjustment flag -/
def ratToFloatDigits (B : Nat) (mode : Mode) (num : Int) (den : Nat) (prec : Nat) : Int × Int × Adj :=
  if num = 0 then (0, 0, .exact) else
  let a := num.natAbs
  -- e with B^(prec-1) ≤ a/den / B^e < B^prec
  let e0 : Int := (digitLen B a : Int) - (digitLen B den : Int) - prec
  -- a/den ∈ (B^(da-dd-1), B^(da-dd+1)) so the right e is e0 or e0+1 ... settle by test
  let scaled (e : Int) : Nat × Nat := (a * natPow B (-e), den * natPow B e)
  let ok (e : Int) : Bool :=
    let (n, d) := scaled e
    decide (B ^ (prec - 1) * d ≤ n) && decide (n < B ^ prec * d)
  let e := if ok e0 then e0 else if ok (e0 + 1) then e0 + 1 else e0 - 1
  let (n, d) := scaled e
  let (s, adj) := roundIntMode mode (if num < 0 then -(n : Int) else n) d
  let (s, e) := if s.natAbs = B ^ prec then (s / (B : Int), e + 1) else (s, e)
  let (s', e') := normalizeRepr B s e
  (s', e', adj)

def ratToFloatOpDigits (B : Nat) (mode : Mode) (num : Int) (den : Nat) (prec : Nat) : String :=
  let (s, e, adj) := ratToFloatDigits B mode num den prec
  ok (intToHex s ++ " " ++ decStr e ++ " " ++ adj.name)

-- ------------------------------------------------------------------ floats

/-- dashu's `Rounding` label that is truthful for a result with error sign `fl` of a number with
    the given sign: NoOp = toward zero, AddOne = above, SubOne = below -/
def adjOfFlag (neg : Bool) : Flag → Adj
  | .exact => .exact
  | .pos => if neg then .noOp else .addOne
  | .neg => if neg then .subOne else .noOp

/-- extreme exponents (round 5, E1): a value `s·B^e` with `e > 8192` overflows every IEEE format and one with
    `e < -(2·bit_len s + 8192)` is below a quarter of the least subnormal, whatever `B ≥ 2`; the required result
    (overflow to ±∞ / rounding of a tiny value under the mode, flags) does not depend on how far beyond — the
    specification is evaluated at the clamped exponent so that no power `B^|e|` of an `isize`-sized exponent is built -/
def clampExp (s : Int) (e : Int) : Int :=
  let lo : Int := -((2 * bitLen s.natAbs + 8192 : Nat) : Int)
  if e > 8192 then 8192 else if e < lo then lo else e

def floatToIeeeOp (ty : String) (F : Ieee) (B : Nat) (mode : Mode) (s : Int) (e0 : Int) : String :=
  let e := clampExp s e0
  let (num, den) := floatAsRat B s e
  let r := ieeeRoundRat F mode num den
  ok (fbits ty r.1 ++ " " ++ (adjOfFlag (decide (s < 0)) r.2).name)

def floatToIntOp (B : Nat) (mode : Mode) (s : Int) (e0 : Int) : String :=
  let e := if e0 < 0 then clampExp s e0 else e0      -- a tiny value rounds to 0 / ±1 by the mode alone
  let (num, den) := floatAsRat B s e
  let (v, adj) := roundIntMode mode num den
  ok (intToHex v ++ " " ++ adj.name)

def floatTryBigOp (B : Nat) (s : Int) (e : Int) (unsigned : Bool) : String :=
  let (num, den) := floatAsRat B s e
  ratToBigOp num den unsigned |>.replace "err:OutOfBounds" (if unsigned ∧ num < 0 ∧ (gcdReduce num den).2 ≠ 1 then "err:LossOfPrecision" else "err:OutOfBounds")

def floatTryPrimOp (ty : String) (B : Nat) (s : Int) (e : Int) : Option String := do
  let (lo, hi) ← primRange ty
  let (num, den) := floatAsRat B s e
  let (n, d) := gcdReduce num den
  if d = 1 then pure (ok (convStr ty (intoRangeSpec lo hi n)))
  else
    -- not an integer: refused; the kind follows the magnitude (clearly out of range ⇒ OutOfBounds)
    let t := Int.tdiv n d
    if t < lo ∨ t > hi then pure (ok (errStr .outOfBounds)) else pure (ok (errStr .lossOfPrecision))

def floatFromIeeeOp (d : DecConsts) (b : Nat) : String :=
  match decode d b with
  | .error .nan => ok (errStr .outOfBounds)
  | .error .infinite => ok (if b >>> d.signShr > 0 then "-inf d:0" else "inf d:0")
  | .ok (man, exp) =>
    let (s, e) := normalizeRepr 2 man exp
    ok (intToHex s ++ " " ++ decStr e ++ " " ++ decStr (bitLen man.natAbs))

def floatTryToIeeeOp (ty : String) (F : Ieee) (s : Int) (e0 : Int) : String :=
  let r := ieeeRound F s (clampExp s e0)
  if r.2 = .exact then ok (fbits ty r.1)
  else if r.1 % F.signBit = F.infBits then ok (errStr .outOfBounds)
  else ok (errStr .lossOfPrecision)

-- ------------------------------------------------------------------ mirrored models beside the specs (round 2)

def convNatStr : Except ConvErr Nat → String
  | .ok v => natToHex v | .error e => errStr e
def convIntStr : Except ConvErr Int → String
  | .ok v => intToHex v | .error e => errStr e

def adjName : Option Float.Rounding → String
  | none => "Exact" | some r => Float.rName r

def floatModeOf : Mode → Float.Mode
  | .zero => .zero | .away => .away | .up => .up | .down => .down | .halfEven => .halfEven | .halfAway => .halfAway

/-- the mirrored `FBig::<R,2>::to_fNN` (code as it is, including its double rounding) -/
def fbigToFloatCodeOp (ty : String) (k : IntoConsts) (mode : Mode) (s e : Int) : String :=
  match fbigToFloatCode k (floatModeOf mode) Float.coarseNone (Float.FRepr.new 2 s e) with
  | .ok (bits, fl) => ok (fbits ty bits ++ " " ++ adjName fl)
  | .error kd => panic kd.name

/-- the mirrored `FBig::<R,B>::to_fNN`, `B ≠ 2`: `convert_base::<B,2>` (builder-text's mirrored model) then
    `into_fNN_internal` with its debug assertion; `none` on the `ln`/`exp` branch (not mirrored) -/
def fbigToFloatBaseCodeOp (ty : String) (k : IntoConsts) (site : String) (W B : Nat) (mode : Mode) (s e : Int) : Option String :=
  match fbigToFloatBaseCode k site W B (floatModeOf mode) (Float.FRepr.new B s e) with
  | none => none
  | some (.ok (bits, fl)) => some (ok (fbits ty bits ++ " " ++ adjName fl))
  | some (.error kd) => some (panic kd.name)

def fbigTryToFloatModel (ty : String) (k : IntoConsts) (s e : Int) : String :=
  match fbigTryToFloatCode k Float.coarseNone (Float.FRepr.new 2 s e) with
  | .ok (.ok b) => ok (fbits ty b)
  | .ok (.error er) => ok (errStr er)
  | .error kd => panic kd.name

def ratTryToFloatModel (ty : String) (c : EncConsts) (lb ub : Int) (num : Int) (den : Nat) : String :=
  let (n, d) := gcdReduce num den
  match ratTryToFloat c lb ub n d with
  | .ok (.ok b) => ok (fbits ty b)
  | .ok (.error er) => ok (errStr er)
  | .error kd => panic kd.name

/-- spec string and model string must coincide (both already carry `ok `) -/
def chk2 (model spec : String) : String :=
  if model = spec then spec else spec ++ " !model-spec-mismatch model=" ++ model

def fbigFromFloatModel (d : DecConsts) (b : Nat) : String :=
  match fbigFromFloat d b with
  | .error e => ok (errStr e)
  | .ok (.infinity neg) => ok (if neg then "-inf d:0" else "inf d:0")
  | .ok (.finite r p) => ok (intToHex r.signif ++ " " ++ decStr r.exp ++ " " ++ decStr p)

def parseBase (s : String) : Option Nat := do
  let b ← parseDecNat s
  if b = 2 ∨ b = 10 ∨ b = 16 ∨ b = 3 then some b else none

-- ------------------------------------------------------------------ round 5: `Repr::to_float`, `From<Repr> for FBig` mirrored

/-- `Repr::reduce2` (`Relaxed::from_parts`): only the common power of two is removed; zero is `0/1` -/
def reduce2 (num : Int) (den : Nat) : Int × Nat :=
  if num = 0 then (0, 1) else
  let tz (n : Nat) : Nat := (List.range (Nat.log2 n + 1)).foldl (fun acc i => if acc = i ∧ n % 2 ^ (i + 1) = 0 then i + 1 else acc) 0
  let z := min (tz num.natAbs) (tz den)
  (num / ((2 ^ z : Nat) : Int), den / 2 ^ z)

/-- the stored parts: `relaxed = false` ⇒ `RBig` (lowest terms), `true` ⇒ `Relaxed` -/
def storedParts (relaxed : Bool) (num : Int) (den : Nat) : Int × Nat :=
  if relaxed then reduce2 num den else (let (n, d) := gcdReduce num den; if n = 0 then (0, 1) else (n, d))

/-- the mirrored `Repr::to_float` (code as it is, including its second rounding and its panics).  `none` (not
    driven) when the shifted numerator would need memory proportional to the precision (2^22 < shift < 2^64 − 64):
    neither side is run there; beyond that the allocation is refused up front (`AllocTooMuch`, transcribed). -/
def ratToFloatCodeOp (B : Nat) (mode : Mode) (relaxed : Bool) (num0 : Int) (den0 : Nat) (prec : Nat) : Option String :=
  let (num, den) := storedParts relaxed num0 den0
  -- (round 6, /repo 43925c0: the sum saturates; the model's own regenerated `to_float_shift` is asked)
  let sh := Dashu.Gen.ConvToFloat.to_float_shift (ilogB B num) (ilogB B den) prec
  if prec ≠ 0 ∧ num ≠ 0 ∧ sh > 2 ^ 22 then
    (if sh ≥ 2 ^ 64 - 64 then some (panic PanicKind.allocTooMuch.name) else none)
  else
    match ratToFloat B (floatModeOf mode) Float.coarseNone num den prec with
    | .error k => some (panic k.name)
    | .ok (v, fl) => some (ok (intToHex v.signif ++ " " ++ decStr v.exp ++ " " ++ decStr prec ++ " " ++ adjName fl))

/-- the mirrored `From<Repr> for FBig<R, B>` -/
def fbigFromRatCodeOp (B : Nat) (mode : Mode) (relaxed : Bool) (num0 : Int) (den0 : Nat) : String :=
  let (num, den) := storedParts relaxed num0 den0
  match fbigFromRat B (floatModeOf mode) num den with
  | .error k => panic k.name
  | .ok (v, p, _) => ok (intToHex v.signif ++ " " ++ decStr v.exp ++ " " ++ decStr p)

def dispatch : Dispatch := fun W op args =>
  match op, args with
  | "r.to_float.code", [bs, ms, a, b, pr] => do
    let B ← parseBase bs; let mode ← Mode.parse ms
    let n ← parseInt a; let d ← parseNat b; let prec ← parseDecNat pr
    if d = 0 ∨ prec ≥ 2 ^ 64 then none else ratToFloatCodeOp B mode false n d prec
  | "rx.to_float.code", [bs, ms, a, b, pr] => do
    let B ← parseBase bs; let mode ← Mode.parse ms
    let n ← parseInt a; let d ← parseNat b; let prec ← parseDecNat pr
    if d = 0 ∨ prec ≥ 2 ^ 64 then none else ratToFloatCodeOp B mode true n d prec
  | "f.from.rbig.code", [bs, ms, a, b] => do
    let B ← parseBase bs; let mode ← Mode.parse ms; let n ← parseInt a; let d ← parseNat b
    if d = 0 then none else pure (fbigFromRatCodeOp B mode false n d)
  | "f.from.relaxed.code", [bs, ms, a, b] => do
    let B ← parseBase bs; let mode ← Mode.parse ms; let n ← parseInt a; let d ← parseNat b
    if d = 0 then none else pure (fbigFromRatCodeOp B mode true n d)
  | "r.to_f32", [a, b] => do let n ← parseInt a; let d ← parseNat b; if d = 0 then none else pure (ratToFloatOp "f32" rat32 f32Fixed n d false)
  | "r.to_f64", [a, b] => do let n ← parseInt a; let d ← parseNat b; if d = 0 then none else pure (ratToFloatOp "f64" rat64 f64Fixed n d false)
  | "r.to_f32.asis", [a, b] => do let n ← parseInt a; let d ← parseNat b; if d = 0 then none else pure (ratToFloatOp "f32" rat32 f32Fixed n d true)
  | "r.to_f64.asis", [a, b] => do let n ← parseInt a; let d ← parseNat b; if d = 0 then none else pure (ratToFloatOp "f64" rat64 f64Fixed n d true)
  | "r.to_f32_fast", [a, b] => do let n ← parseInt a; let d ← parseNat b; if d = 0 then none else pure (ratFastOp "f32" rat32 f32Fixed n d)
  | "r.to_f64_fast", [a, b] => do let n ← parseInt a; let d ← parseNat b; if d = 0 then none else pure (ratFastOp "f64" rat64 f64Fixed n d)
  | "r.tryto_f32", [a, b] => do let n ← parseInt a; let d ← parseNat b; if d = 0 then none else pure (chk2 (ratTryToFloatModel "f32" f32Fixed Dashu.Gen.Conv.rbig_try_to_f32_lb Dashu.Gen.Conv.rbig_try_to_f32_ub n d) (ratTryToFloatOp "f32" .binary32 32 n d))
  | "r.tryto_f64", [a, b] => do let n ← parseInt a; let d ← parseNat b; if d = 0 then none else pure (chk2 (ratTryToFloatModel "f64" f64Fixed Dashu.Gen.Conv.rbig_try_to_f64_lb Dashu.Gen.Conv.rbig_try_to_f64_ub n d) (ratTryToFloatOp "f64" .binary64 64 n d))
  | "r.from_f32", [a] => do
    let b ← parseFloatBits "f32" 32 a
    let m := match ratFromFloat f32Dec b with | .ok (n, d) => ok (ratStr n d) | .error e => ok (errStr e)
    pure (chk2 m (ratFromFloatOp f32Dec b))
  | "r.from_f64", [a] => do
    let b ← parseFloatBits "f64" 64 a
    let m := match ratFromFloat f64Dec b with | .ok (n, d) => ok (ratStr n d) | .error e => ok (errStr e)
    pure (chk2 m (ratFromFloatOp f64Dec b))
  | "r.to_int", [a, b] => do let n ← parseInt a; let d ← parseNat b; if d = 0 then none else pure (
      let (rn, rd) := gcdReduce n d
      let m := match ratToInt rn rd with
        | (t, none) => ok (intToHex t ++ " Exact")
        | (t, some (fn, fd)) => ok (intToHex t ++ " Inexact " ++ ratStr fn fd)
      chk2 m (ratToIntOp n d))
  | "r.to.ibig", [a, b] => do let n ← parseInt a; let d ← parseNat b; if d = 0 then none else pure (let (rn, rd) := gcdReduce n d; chk2 (ok (convIntStr (ratTryToIBig rn rd))) (ratToBigOp n d false))
  | "r.to.ubig", [a, b] => do let n ← parseInt a; let d ← parseNat b; if d = 0 then none else pure (let (rn, rd) := gcdReduce n d; chk2 (ok (convNatStr (ratTryToUBig rn rd))) (ratToBigOp n d true))
  | "r.to", [ty, a, b] => do let n ← parseInt a; let d ← parseNat b; if d = 0 then none else do
      let spec ← ratToPrimOp ty n d
      let (lo, hi) ← primRange ty
      let (rn, rd) := gcdReduce n d
      pure (chk2 (ok (convStr ty (ratTryToPrim lo hi rn rd))) spec)
  | "r.from.ibig", [a] => do let n ← parseInt a; pure (ok (intToHex n ++ " 1"))
  | "r.to_float", [bs, ms, a, b, pr] => do
    let B ← parseBase bs; let mode ← Mode.parse ms
    let n ← parseInt a; let d ← parseNat b; let prec ← parseDecNat pr
    if d = 0 ∨ prec = 0 then none else pure (ratToFloatOpDigits B mode n d prec)
  | "f.to_f32", [bs, ms, a, ex] => do
    let B ← parseBase bs; let mode ← Mode.parse ms; let s ← parseInt a; let e ← parseDec ex
    pure (floatToIeeeOp "f32" .binary32 B mode s e)
  | "f.to_f64", [bs, _ms, a, ex] => do
    let B ← parseBase bs; let s ← parseInt a; let e ← parseDec ex
    pure (floatToIeeeOp "f64" .binary64 B .halfEven s e)
  | "fr.to_f32", [bs, a, ex] => do
    let B ← parseBase bs; let s ← parseInt a; let e ← parseDec ex
    pure (floatToIeeeOp "f32" .binary32 B .halfEven s e)
  | "f.to_int", [bs, ms, a, ex] => do
    let B ← parseBase bs; let mode ← Mode.parse ms; let s ← parseInt a; let e ← parseDec ex
    pure (floatToIntOp B mode s e)
  | "fr.to_int", [bs, a, ex] => do
    let B ← parseBase bs; let s ← parseInt a; let e ← parseDec ex
    pure (floatToIntOp B .zero s e)
  | "f.try.ibig", [bs, a, ex] => do
    let B ← parseBase bs; let s ← parseInt a; let e ← parseDec ex
    pure (chk2 (ok (convIntStr (fbigTryToIBig B (Float.FRepr.new B s e)))) (floatTryBigOp B s e false))
  | "f.try.ubig", [bs, a, ex] => do
    let B ← parseBase bs; let s ← parseInt a; let e ← parseDec ex
    pure (chk2 (ok (convNatStr (fbigTryToUBig B (Float.FRepr.new B s e)))) (floatTryBigOp B s e true))
  | "f.try", [ty, bs, a, ex] => do
    let B ← parseBase bs; let s ← parseInt a; let e ← parseDec ex
    floatTryPrimOp ty B s e
  | "f.to.rbig", [bs, a, ex] => do
    let B ← parseBase bs; let s ← parseInt a; let e ← parseDec ex
    let (n, d) := floatAsRat B s e
    let m := match fbigToRat B (Float.FRepr.new B s e) with | .ok (n', d') => ok (ratStr n' d') | .error er => ok (errStr er)
    pure (chk2 m (ok (ratStr n d)))
  | "f.from.ibig", [bs, a] => do
    let B ← parseBase bs; let v ← parseInt a
    let (s, e) := normalizeRepr B v 0
    pure (ok (intToHex s ++ " " ++ decStr e ++ " " ++ intToHex v))
  | "f.from_f32", [a] => do let b ← parseFloatBits "f32" 32 a; pure (chk2 (fbigFromFloatModel f32Dec b) (floatFromIeeeOp f32Dec b))
  | "f.from_f64", [a] => do let b ← parseFloatBits "f64" 64 a; pure (chk2 (fbigFromFloatModel f64Dec b) (floatFromIeeeOp f64Dec b))
  | "f.inf", [which, sg] =>
    -- the infinities: to_fNN report an (inexact, NoOp) infinity, to_int panics as documented, every
    -- exact-or-refused conversion refuses
    if sg ≠ "+" ∧ sg ≠ "-" then none else
    let neg := sg == "-"
    match which with
    | "to_f32" => some (ok (fbits "f32" ((if neg then 2 ^ 31 else 0) + 0x7f800000) ++ " NoOp"))
    | "to_f64" | "repr.to_f64" => some (ok (fbits "f64" ((if neg then 2 ^ 63 else 0) + 0x7ff0000000000000) ++ " NoOp"))
    | "to_int" => some (panic PanicKind.infinite.name)
    | "try.ibig" | "try.ubig" | "try.u8" | "try.i64" | "to.rbig" => some (ok (errStr .outOfBounds))
    | "tryto_f32" | "tryto_f64" => some (ok (errStr .lossOfPrecision))
    | _ => none
  | "f.tryto_f32", [a, ex] => do let s ← parseInt a; let e ← parseDec ex; pure (chk2 (fbigTryToFloatModel "f32" into32 s e) (floatTryToIeeeOp "f32" .binary32 s e))
  | "f.tryto_f64", [a, ex] => do let s ← parseInt a; let e ← parseDec ex; pure (chk2 (fbigTryToFloatModel "f64" into64 s e) (floatTryToIeeeOp "f64" .binary64 s e))
  | "f.to_f32.code", [bs, ms, a, ex] => do
    let B ← parseBase bs; let mode ← Mode.parse ms; let s ← parseInt a; let e ← parseDec ex
    if B ≠ 2 then fbigToFloatBaseCodeOp "f32" into32 intoSite32 W B mode s e else pure (fbigToFloatCodeOp "f32" into32 mode s e)
  | "f.to_f64.code", [bs, _ms, a, ex] => do
    let B ← parseBase bs; let s ← parseInt a; let e ← parseDec ex
    if B ≠ 2 then fbigToFloatBaseCodeOp "f64" into64 intoSite64 W B .halfEven s e else pure (fbigToFloatCodeOp "f64" into64 .halfEven s e)
  | "fr.to_f32.code", [bs, a, ex] => do
    let B ← parseBase bs; let s ← parseInt a; let e ← parseDec ex
    if B ≠ 2 then fbigToFloatBaseCodeOp "f32" into32 intoSite32 W B .halfEven s e else pure (fbigToFloatCodeOp "f32" into32 .halfEven s e)
  | "f.from.rbig", [bs, a, b] => do
    let B ← parseBase bs; let n ← parseInt a; let d ← parseNat b
    if d = 0 then none
    -- a `From` conversion cannot refuse: it must be exact, i.e. the reduced denominator divides a power of B
    let (rn, rd) := gcdReduce n d
    let rec strip (fuel : Nat) (x : Nat) (k : Nat) : Nat × Nat :=
      match fuel with
      | 0 => (x, k)
      | f + 1 => let g := Nat.gcd x B; if g ≤ 1 then (x, k) else strip f (x / g) (k + 1)
    let (rest, k) := strip (Nat.log2 rd + 2) rd 0
    if rest ≠ 1 then pure (ok "not-representable:must-be-refused")
    else
      let sc := B ^ k
      let (s, e) := normalizeRepr B (rn * (sc / rd : Nat)) (-(k : Int))
      pure (ok (intToHex s ++ " " ++ decStr e ++ " " ++ ratStr n d))
  | "u.to", [ty, a] => do let x ← parseNat a; toPrimOp W ty x true
  | "i.to", [ty, a] => do let x ← parseInt a; toPrimOp W ty x false
  | "u.from", [a] => fromPrimOp W "u" a
  | "i.from", [a] => fromPrimOp W "i" a
  | "r.from", [a] => fromPrimOp W "r" a
  | "i.to.ubig", [a] => do
    let x ← parseInt a
    pure (ok (if x < 0 then errStr .outOfBounds else intToHex x))
  | "u.to.ibig", [a] => do let x ← parseNat a; pure (ok (natToHex x))
  | "u.to_f32", [a] => do let x ← parseNat a; pure (intToFloatOp W "f32" .binary32 x false)
  | "u.to_f64", [a] => do let x ← parseNat a; pure (intToFloatOp W "f64" .binary64 x false)
  | "i.to_f32", [a] => do let x ← parseInt a; pure (intToFloatOp W "f32" .binary32 x false)
  | "i.to_f64", [a] => do let x ← parseInt a; pure (intToFloatOp W "f64" .binary64 x false)
  | "u.to_f32.asis", [a] => do let x ← parseNat a; pure (intToFloatOp W "f32" .binary32 x true)
  | "u.to_f64.asis", [a] => do let x ← parseNat a; pure (intToFloatOp W "f64" .binary64 x true)
  | "i.to_f32.asis", [a] => do let x ← parseInt a; pure (intToFloatOp W "f32" .binary32 x true)
  | "i.to_f64.asis", [a] => do let x ← parseInt a; pure (intToFloatOp W "f64" .binary64 x true)
  | "u.tryto_f32", [a] => do let x ← parseNat a; pure (tryToFloatOp "f32" .binary32 x)
  | "u.tryto_f64", [a] => do let x ← parseNat a; pure (tryToFloatOp "f64" .binary64 x)
  | "i.tryto_f32", [a] => do let x ← parseInt a; pure (tryToFloatOp "f32" .binary32 x)
  | "i.tryto_f64", [a] => do let x ← parseInt a; pure (tryToFloatOp "f64" .binary64 x)
  | "u.from_f32", [a] => do let b ← parseFloatBits "f32" 32 a; pure (intFromFloatOp f32Dec false b)
  | "u.from_f64", [a] => do let b ← parseFloatBits "f64" 64 a; pure (intFromFloatOp f64Dec false b)
  | "i.from_f32", [a] => do let b ← parseFloatBits "f32" 32 a; pure (intFromFloatOp f32Dec true b)
  | "i.from_f64", [a] => do let b ← parseFloatBits "f64" 64 a; pure (intFromFloatOp f64Dec true b)
  | "u.from_f32.asis", [a] => do let b ← parseFloatBits "f32" 32 a; pure (intFromFloatAsIsOp f32Dec false b)
  | "u.from_f64.asis", [a] => do let b ← parseFloatBits "f64" 64 a; pure (intFromFloatAsIsOp f64Dec false b)
  | "i.from_f32.asis", [a] => do let b ← parseFloatBits "f32" 32 a; pure (intFromFloatAsIsOp f32Dec true b)
  | "i.from_f64.asis", [a] => do let b ← parseFloatBits "f64" 64 a; pure (intFromFloatAsIsOp f64Dec true b)
  | "f32.encode", [a, b] => do
    let m ← parsePrimOf "i32" a; let e ← parsePrimOf "i16" b
    pure (encodeOp "f32" .binary32 f32Fixed m e)
  | "f64.encode", [a, b] => do
    let m ← parsePrimOf "i64" a; let e ← parsePrimOf "i16" b
    pure (encodeOp "f64" .binary64 f64Fixed m e)
  | "f32.encode.asis", [a, b] => do
    let m ← parsePrimOf "i32" a; let e ← parsePrimOf "i16" b
    pure (excStr "f32" (encodeAsIs f32AsIs m e))
  | "f64.encode.asis", [a, b] => do
    let m ← parsePrimOf "i64" a; let e ← parsePrimOf "i16" b
    pure (excStr "f64" (encodeAsIs f64AsIs m e))
  | "f32.decode", [a] => do
    let b ← parseFloatBits "f32" 32 a
    pure (decodeOp "i32" f32Dec b)
  | "f64.decode", [a] => do
    let b ← parseFloatBits "f64" 64 a
    pure (decodeOp "i64" f64Dec b)
  | "f32.roundtrip", [a] => do
    let b ← parseFloatBits "f32" 32 a
    pure (match decode f32Dec b with
      | .ok (m, e) => encodeOp "f32" .binary32 f32Fixed m e
      | .error c => ok ("err:" ++ c.name))
  | "f64.roundtrip", [a] => do
    let b ← parseFloatBits "f64" 64 a
    pure (match decode f64Dec b with
      | .ok (m, e) => encodeOp "f64" .binary64 f64Fixed m e
      | .error c => ok ("err:" ++ c.name))
  | _, _ => none

end Dashu.Driver.Conv
