import Dashu.Driver.Loop
import Dashu.Model.Conv.Ieee
/-
  Driver of group `conv` (C06).  For every op it prints what the property REQUIRES (the spec);
  where a mirrored model exists it is evaluated beside the spec and a difference is reported as
  ` !model-spec-mismatch` (a defect of our model, never of dashu).  The `*.asis` ops print the
  model of the code *as it is in the pinned tree* (including its known defects) and are only
  generated while the tree is unrepaired: they tie `encodeAsIs` (the subject of the
  counterexample and `_partial` theorems) to the real code.
-/
namespace Dashu.Driver.Conv
open Dashu.IO Dashu.Model Dashu.Model.Conv Dashu.Driver

/-- `p:<type>:<[-]hex>` -/
def parsePrim (s : String) : Option (String × Int) :=
  match s.splitOn ":" with
  | ["p", t, v] => (fun i => (t, i)) <$> parseInt v
  | _ => none

def primRange : String → Option (Int × Int)
  | "u8" => some (0, 2^8 - 1) | "u16" => some (0, 2^16 - 1) | "u32" => some (0, 2^32 - 1)
  | "u64" => some (0, 2^64 - 1) | "u128" => some (0, 2^128 - 1) | "usize" => some (0, 2^64 - 1)
  | "i8" => some (-2^7, 2^7 - 1) | "i16" => some (-2^15, 2^15 - 1) | "i32" => some (-2^31, 2^31 - 1)
  | "i64" => some (-2^63, 2^63 - 1) | "i128" => some (-2^127, 2^127 - 1) | "isize" => some (-2^63, 2^63 - 1)
  | _ => none

/-- a primitive of the given type, range-checked -/
def parsePrimOf (ty : String) (s : String) : Option Int := do
  let (t, v) ← parsePrim s
  if t ≠ ty then none
  let (lo, hi) ← primRange ty
  if lo ≤ v ∧ v ≤ hi then some v else none

def primStr (ty : String) (v : Int) : String := "p:" ++ ty ++ ":" ++ intToHex v

def parseFloatBits (ty : String) (width : Nat) (s : String) : Option Nat := do
  match s.splitOn ":" with
  | ["p", t, v] =>
    if t ≠ ty then none
    let b ← parseHexNat v
    if b < 2 ^ width then some b else none
  | _ => none

def fbits (ty : String) (b : Nat) : String := "p:" ++ ty ++ ":" ++ natToHex b

def apxStr (ty : String) (r : Nat × Flag) : String := fbits ty r.1 ++ " " ++ r.2.name

def excStr (ty : String) : Except PanicKind (Nat × Flag) → String
  | .ok r => ok (apxStr ty r)
  | .error k => panic k.name

/-- required = spec; the repaired model must coincide with it -/
def encodeOp (ty : String) (F : Ieee) (c : EncConsts) (m e : Int) : String :=
  let spec := ok (apxStr ty (ieeeRound F m e))
  let model := excStr ty (encodeFixed c m e)
  if model = spec then spec else spec ++ " !model-spec-mismatch model=" ++ model

def decodeOp (mty : String) (d : DecConsts) (b : Nat) : String :=
  match decode d b with
  | .ok (m, e) => ok (primStr mty m ++ " " ++ primStr "i16" e)
  | .error c => ok ("err:" ++ c.name)

def dispatch : Dispatch := fun _W op args =>
  match op, args with
  | "f32.encode", [a, b] => do
    let m ← parsePrimOf "i32" a; let e ← parsePrimOf "i16" b
    pure (encodeOp "f32" .binary32 f32Fixed m e)
  | "f64.encode", [a, b] => do
    let m ← parsePrimOf "i64" a; let e ← parsePrimOf "i16" b
    pure (encodeOp "f64" .binary64 f64Fixed m e)
  | "f32.encode.asis", [a, b] => do
    let m ← parsePrimOf "i32" a; let e ← parsePrimOf "i16" b
    pure (excStr "f32" (encodeAsIs f32AsIs m e))
  | "f64.encode.asis", [a, b] => do
    let m ← parsePrimOf "i64" a; let e ← parsePrimOf "i16" b
    pure (excStr "f64" (encodeAsIs f64AsIs m e))
  | "f32.decode", [a] => do
    let b ← parseFloatBits "f32" 32 a
    pure (decodeOp "i32" f32Dec b)
  | "f64.decode", [a] => do
    let b ← parseFloatBits "f64" 64 a
    pure (decodeOp "i64" f64Dec b)
  | "f32.roundtrip", [a] => do
    let b ← parseFloatBits "f32" 32 a
    pure (match decode f32Dec b with
      | .ok (m, e) => encodeOp "f32" .binary32 f32Fixed m e
      | .error c => ok ("err:" ++ c.name))
  | "f64.roundtrip", [a] => do
    let b ← parseFloatBits "f64" 64 a
    pure (match decode f64Dec b with
      | .ok (m, e) => encodeOp "f64" .binary64 f64Fixed m e
      | .error c => ok ("err:" ++ c.name))
  | _, _ => none

end Dashu.Driver.Conv
