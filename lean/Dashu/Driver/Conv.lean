import Dashu.Driver.Loop
import Dashu.Model.Conv.Ieee
import Dashu.Model.Conv.Prim
/-
  Driver of group `conv` (C06).  For every op it prints what the property REQUIRES (the spec);
  where a mirrored model exists it is evaluated beside the spec and a difference is reported as
  ` !model-spec-mismatch` (a defect of our model, never of dashu).  The `*.asis` ops print the
  model of the code *as it is in the pinned tree* (including its known defects) and are only
  generated while the tree is unrepaired: they tie `encodeAsIs` (the subject of the
  counterexample and `_partial` theorems) to the real code.
-/
namespace Dashu.Driver.Conv
open Dashu.IO Dashu.Model Dashu.Model.Conv Dashu.Driver

/-- `p:<type>:<[-]hex>` -/
def parsePrim (s : String) : Option (String × Int) :=
  match s.splitOn ":" with
  | ["p", t, v] => (fun i => (t, i)) <$> parseInt v
  | _ => none

def primRange : String → Option (Int × Int)
  | "u8" => some (0, 2^8 - 1) | "u16" => some (0, 2^16 - 1) | "u32" => some (0, 2^32 - 1)
  | "u64" => some (0, 2^64 - 1) | "u128" => some (0, 2^128 - 1) | "usize" => some (0, 2^64 - 1)
  | "i8" => some (-2^7, 2^7 - 1) | "i16" => some (-2^15, 2^15 - 1) | "i32" => some (-2^31, 2^31 - 1)
  | "i64" => some (-2^63, 2^63 - 1) | "i128" => some (-2^127, 2^127 - 1) | "isize" => some (-2^63, 2^63 - 1)
  | _ => none

/-- a primitive of the given type, range-checked -/
def parsePrimOf (ty : String) (s : String) : Option Int := do
  let (t, v) ← parsePrim s
  if t ≠ ty then none
  let (lo, hi) ← primRange ty
  if lo ≤ v ∧ v ≤ hi then some v else none

def primStr (ty : String) (v : Int) : String := "p:" ++ ty ++ ":" ++ intToHex v

def parseFloatBits (ty : String) (width : Nat) (s : String) : Option Nat := do
  match s.splitOn ":" with
  | ["p", t, v] =>
    if t ≠ ty then none
    let b ← parseHexNat v
    if b < 2 ^ width then some b else none
  | _ => none

def fbits (ty : String) (b : Nat) : String := "p:" ++ ty ++ ":" ++ natToHex b

def apxStr (ty : String) (r : Nat × Flag) : String := fbits ty r.1 ++ " " ++ r.2.name

def excStr (ty : String) : Except PanicKind (Nat × Flag) → String
  | .ok r => ok (apxStr ty r)
  | .error k => panic k.name

/-- required = spec; the repaired model must coincide with it -/
def encodeOp (ty : String) (F : Ieee) (c : EncConsts) (m e : Int) : String :=
  let spec := ok (apxStr ty (ieeeRound F m e))
  let model := excStr ty (encodeFixed c m e)
  if model = spec then spec else spec ++ " !model-spec-mismatch model=" ++ model

def decodeOp (mty : String) (d : DecConsts) (b : Nat) : String :=
  match decode d b with
  | .ok (m, e) => ok (primStr mty m ++ " " ++ primStr "i16" e)
  | .error c => ok ("err:" ++ c.name)

def primBits : String → Option (Nat × Bool)
  | "u8" => some (8, false) | "u16" => some (16, false) | "u32" => some (32, false)
  | "u64" => some (64, false) | "u128" => some (128, false) | "usize" => some (64, false)
  | "i8" => some (8, true) | "i16" => some (16, true) | "i32" => some (32, true)
  | "i64" => some (64, true) | "i128" => some (128, true) | "isize" => some (64, true)
  | _ => none

def errStr (e : ConvErr) : String := "err:" ++ e.name

def convStr (ty : String) : Except ConvErr Int → String
  | .ok v => primStr ty v
  | .error e => errStr e

/-- model beside spec -/
def chk (model spec : String) : String :=
  if model = spec then ok spec else ok spec ++ " !model-spec-mismatch model=" ++ model

def sreprInt (W : Nat) (r : SRepr) : String :=
  let v := r.mag.value W
  if r.neg then (if v = 0 then "-0" else "-" ++ natToHex v) else natToHex v

/-- big → primitive: model (mirrored width/sign checks on the canonical repr) and spec (range) -/
def toPrimOp (W : Nat) (ty : String) (x : Int) (fromU : Bool) : Option String := do
  let (bits, signed) ← primBits ty
  let (lo, hi) ← primRange ty
  let spec := convStr ty (intoRangeSpec lo hi x)
  let model : Except ConvErr Int :=
    if fromU then
      (if signed then ubigTryToSigned W bits (ofNat W x.toNat)
       else (fun n : Nat => (n : Int)) <$> tryToUnsigned W bits (ofNat W x.toNat))
    else
      (if signed then ibigTryToSigned W bits (⟨decide (x < 0), ofNat W x.natAbs⟩ : SRepr)
       else (fun n : Nat => (n : Int)) <$> ibigTryToUnsigned W bits (⟨decide (x < 0), ofNat W x.natAbs⟩ : SRepr))
  pure (chk (convStr ty model) spec)

def fromPrimOp (W : Nat) (kind : String) (a : String) : Option String := do
  let (ty, v) ← parsePrim a
  if ty = "bool" then
    if v = 0 ∨ v = 1 then return ok (intToHex v) else none
  let (bits, signed) ← primBits ty
  let (lo, hi) ← primRange ty
  if ¬ (lo ≤ v ∧ v ≤ hi) then none
  match kind with
  | "u" =>
    if signed then
      let spec := if v < 0 then errStr .outOfBounds else intToHex v
      let model := match ubigTryFromSigned W bits v with
        | .ok r => natToHex (r.value W) | .error e => errStr e
      pure (chk model spec)
    else pure (chk (natToHex ((fromUnsigned W v.toNat).value W)) (intToHex v))
  | "i" =>
    let model := if signed then sreprInt W (fromSigned W bits v)
      else sreprInt W ⟨false, fromUnsigned W v.toNat⟩
    pure (chk model (intToHex v))
  | _ => pure (ok (intToHex v ++ " 1"))

/-- integer → float: spec = IEEE rounding of the integer; model = mirrored `to_fNN` with the
    repaired `encode` / `to_f64_small` -/
def intToFloatOp (W : Nat) (ty : String) (F : Ieee) (x : Int) (asis : Bool) : String :=
  let spec := ok (apxStr ty (ieeeRound F x 0))
  let r := ofNat W x.natAbs
  let m := if F.MB = 23 then toF32 W (!asis) r else toF64 W (!asis) r
  let model := excStr ty ((signedApx F (decide (x < 0))) <$> m)
  if asis then model
  else if model = spec then spec else spec ++ " !model-spec-mismatch model=" ++ model

def tryToFloatOp (ty : String) (F : Ieee) (x : Int) : String :=
  match ubigTryToFloat F x.natAbs with
  | .ok b =>
    -- spec side: a successful conversion must be exact
    let b' := if x < 0 then F.signBit + b else b
    let exact := ieeeRound F x 0
    if exact = (b', Flag.exact) ∨ x = 0 then ok (fbits ty b')
    else ok (fbits ty b') ++ " !model-spec-mismatch inexact-success"
  | .error e => ok (errStr e)

def intFromFloatOp (d : DecConsts) (signed : Bool) (b : Nat) : String :=
  match intFromFloatSpec d signed b with
  | .ok v => ok (intToHex v)
  | .error e => ok (errStr e)

def intFromFloatAsIsOp (d : DecConsts) (signed : Bool) (b : Nat) : String :=
  if signed then
    match ibigTryFromFloatAsIs d b with
    | .ok v => ok (intToHex v) | .error e => ok (errStr e)
  else
    match ubigTryFromFloatAsIs d b with
    | .ok v => ok (natToHex v) | .error e => ok (errStr e)

def dispatch : Dispatch := fun W op args =>
  match op, args with
  | "u.to", [ty, a] => do let x ← parseNat a; toPrimOp W ty x true
  | "i.to", [ty, a] => do let x ← parseInt a; toPrimOp W ty x false
  | "u.from", [a] => fromPrimOp W "u" a
  | "i.from", [a] => fromPrimOp W "i" a
  | "r.from", [a] => fromPrimOp W "r" a
  | "i.to.ubig", [a] => do
    let x ← parseInt a
    pure (ok (if x < 0 then errStr .outOfBounds else intToHex x))
  | "u.to.ibig", [a] => do let x ← parseNat a; pure (ok (natToHex x))
  | "u.to_f32", [a] => do let x ← parseNat a; pure (intToFloatOp W "f32" .binary32 x false)
  | "u.to_f64", [a] => do let x ← parseNat a; pure (intToFloatOp W "f64" .binary64 x false)
  | "i.to_f32", [a] => do let x ← parseInt a; pure (intToFloatOp W "f32" .binary32 x false)
  | "i.to_f64", [a] => do let x ← parseInt a; pure (intToFloatOp W "f64" .binary64 x false)
  | "u.to_f32.asis", [a] => do let x ← parseNat a; pure (intToFloatOp W "f32" .binary32 x true)
  | "u.to_f64.asis", [a] => do let x ← parseNat a; pure (intToFloatOp W "f64" .binary64 x true)
  | "i.to_f32.asis", [a] => do let x ← parseInt a; pure (intToFloatOp W "f32" .binary32 x true)
  | "i.to_f64.asis", [a] => do let x ← parseInt a; pure (intToFloatOp W "f64" .binary64 x true)
  | "u.tryto_f32", [a] => do let x ← parseNat a; pure (tryToFloatOp "f32" .binary32 x)
  | "u.tryto_f64", [a] => do let x ← parseNat a; pure (tryToFloatOp "f64" .binary64 x)
  | "i.tryto_f32", [a] => do let x ← parseInt a; pure (tryToFloatOp "f32" .binary32 x)
  | "i.tryto_f64", [a] => do let x ← parseInt a; pure (tryToFloatOp "f64" .binary64 x)
  | "u.from_f32", [a] => do let b ← parseFloatBits "f32" 32 a; pure (intFromFloatOp f32Dec false b)
  | "u.from_f64", [a] => do let b ← parseFloatBits "f64" 64 a; pure (intFromFloatOp f64Dec false b)
  | "i.from_f32", [a] => do let b ← parseFloatBits "f32" 32 a; pure (intFromFloatOp f32Dec true b)
  | "i.from_f64", [a] => do let b ← parseFloatBits "f64" 64 a; pure (intFromFloatOp f64Dec true b)
  | "u.from_f32.asis", [a] => do let b ← parseFloatBits "f32" 32 a; pure (intFromFloatAsIsOp f32Dec false b)
  | "u.from_f64.asis", [a] => do let b ← parseFloatBits "f64" 64 a; pure (intFromFloatAsIsOp f64Dec false b)
  | "i.from_f32.asis", [a] => do let b ← parseFloatBits "f32" 32 a; pure (intFromFloatAsIsOp f32Dec true b)
  | "i.from_f64.asis", [a] => do let b ← parseFloatBits "f64" 64 a; pure (intFromFloatAsIsOp f64Dec true b)
  | "f32.encode", [a, b] => do
    let m ← parsePrimOf "i32" a; let e ← parsePrimOf "i16" b
    pure (encodeOp "f32" .binary32 f32Fixed m e)
  | "f64.encode", [a, b] => do
    let m ← parsePrimOf "i64" a; let e ← parsePrimOf "i16" b
    pure (encodeOp "f64" .binary64 f64Fixed m e)
  | "f32.encode.asis", [a, b] => do
    let m ← parsePrimOf "i32" a; let e ← parsePrimOf "i16" b
    pure (excStr "f32" (encodeAsIs f32AsIs m e))
  | "f64.encode.asis", [a, b] => do
    let m ← parsePrimOf "i64" a; let e ← parsePrimOf "i16" b
    pure (excStr "f64" (encodeAsIs f64AsIs m e))
  | "f32.decode", [a] => do
    let b ← parseFloatBits "f32" 32 a
    pure (decodeOp "i32" f32Dec b)
  | "f64.decode", [a] => do
    let b ← parseFloatBits "f64" 64 a
    pure (decodeOp "i64" f64Dec b)
  | "f32.roundtrip", [a] => do
    let b ← parseFloatBits "f32" 32 a
    pure (match decode f32Dec b with
      | .ok (m, e) => encodeOp "f32" .binary32 f32Fixed m e
      | .error c => ok ("err:" ++ c.name))
  | "f64.roundtrip", [a] => do
    let b ← parseFloatBits "f64" 64 a
    pure (match decode f64Dec b with
      | .ok (m, e) => encodeOp "f64" .binary64 f64Fixed m e
      | .error c => ok ("err:" ++ c.name))
  | _, _ => none

end Dashu.Driver.Conv
