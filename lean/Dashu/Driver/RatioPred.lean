import Dashu.Driver.Ratio
import Dashu.Model.Ratio.PowGuard
/-
  Driver ops of C04 added in round 5 (kept in their own file: `Driver/Ratio.lean` is shared with C18):
    qp.preds q:<num>/<den>:<R|X>  ->  `<sign> <is_zero> <is_one> <is_int | -> <into_parts> <clone_from>`
    qp.consts <R|X>               ->  `ZERO ONE NEG_ONE default()`
    qp.pow q:<num>/<den>:<R|X> d:<n> -> `pow(n)` as stored, or `panic AllocTooMuch` (round 6; `powChecked`: Repr::pow with the
                                     allocation guards of IBig::pow / UBig::pow); spec: the value is `v ^ n`, a panic only
                                     when the exact result has at least 2^62 bits
    qp.prog <regs…> ; <steps…>       -> as `prog` (Driver/Ratio.lean) but run with `runG`: a `pow` step carries the allocation guards;
                                     spec: `checkRunG` = `checkRun`, and a stop `panic:AllocTooMuch` is accepted only at a `pow`
                                     step whose exact result has a component of at least 2^62 bits
  Beside the model's answers the specification is evaluated on the value in `Rat`
  (`is_zero ⇔ v = 0`, `is_one ⇔ v = 1`, `is_int ⇔ v.den = 1`, negative ⇔ `v < 0`).
-/
namespace Dashu.Driver.RatioPred
open Dashu.IO Dashu.Model Dashu.Model.Ratio Dashu.Driver Dashu.Driver.Ratio

/-- `checkRun` (Driver/Ratio.lean) for guarded runs: the allocation panic is accepted only at a `pow` step on a register
    whose exact power has a component of at least 2^62 bits -/
def checkRunG (final : List Reg) (stop : Stop) : List Op → Nat → Bool
  | [], n => final.length == n && (match stop with | .done => true | _ => false)
  | op :: rest, n =>
    let vals := (final.take n).map Reg.val
    let allocStop : Bool := final.length == n && (match stop, op with
      | .panic k, .pow i e =>
        k == .allocTooMuch && (match final[i]? with
          | some a => decide (2 ^ 62 ≤ e * a.q.num.natAbs.log2) || decide (2 ^ 62 ≤ e * a.q.den.log2)
          | none => false)
      | _, _ => false)
    if allocStop then true
    else match Spec.step vals op with
    | some v =>
      match final[n]? with
      | some r => regOk r v && checkRunG final stop rest (n + 1)
      | none => false
    | none =>
      final.length == n && (match stop with | .panic k => k = .divideByZero | _ => false)

def progG (W : Nat) (args : List String) : Option String := do
  let inits := args.takeWhile (· ≠ ";")
  let rest := args.dropWhile (· ≠ ";")
  if rest.isEmpty then none
  let steps ← (rest.drop 1).mapM parseStep
  let parts ← inits.mapM parseParts
  let rec build : List (Int × Nat × Kind) → List Reg → List Reg × Option PanicKind
    | [], acc => (acc, none)
    | p :: ps, acc => match mkReg p with
      | .ok r => build ps (acc ++ [r])
      | .error k => (acc, some k)
  let (env0, pk) := build parts []
  match pk with
  | some k => some (ok (" ".intercalate (env0.map (showQ ·.q) ++ ["panic:" ++ k.name])))
  | none =>
    let initOk := (List.zip env0 parts).all fun (r, p) =>
      p.2.1 != 0 && regOk r ((p.1 : Rat) / (p.2.1 : Rat))
    let (final, stop) := runG W steps env0
    let toks := final.map (showQ ·.q)
    match stop with
    | .bad => none
    | .done | .panic _ =>
      let toks := match stop with
        | .panic k => toks ++ ["panic:" ++ k.name]
        | _ => toks
      let s := ok (" ".intercalate toks)
      if initOk && checkRunG final stop steps env0.length then some s
      else some (mismatch s "program-values")

def dispatch : Dispatch := fun _W op args =>
  if op = "qp.prog" then progG _W args else
  match op, args with
  | "qp.preds", [a] => do
    let p ← parseParts a
    match mkReg p with
    | .error k => pure (panic k.name)
    | .ok r =>
      let q := r.q
      let v : Rat := (p.1 : Rat) / (p.2.1 : Rat)
      let neg := isNegative q
      let z := isZero q
      let one := match r.kind with | .R => R.isOne q | .X => X.isOne q
      let int? : Option Bool := match r.kind with | .R => some (R.isInt q) | .X => none
      let s := " ".intercalate [if neg then "-" else "+", boolStr z, boolStr one,
        (match int? with | some b => boolStr b | none => "-"), showQ q, showQ q]
      let specOk := (neg == decide (v < 0)) && (z == decide (v = 0)) && (one == decide (v = 1)) &&
        (match int? with | some b => b == decide (v.den = 1) | none => true) && decide (q.val = v)
      pure (if specOk then ok s else mismatch (ok s) "preds")
  | "qp.pow", [a, n] => do
    let p ← parseParts a; let n ← parseDecNat n
    if n ≥ 2 ^ usizeBits then none
    match mkReg p with
    | .error k => pure (panic k.name)
    | .ok r =>
      match powChecked _W r.q n with
      | .ok q =>
        let s := ok (showQ q)
        pure (if regOk ⟨r.kind, q⟩ (Spec.qpow r.val n) then s else mismatch s "pow")
      | .error k =>
        -- the exact result does not fit any buffer: a component of at least 2^62 bits
        let big := fun (v : Nat) => decide (2 ^ 62 ≤ n * (v.log2))
        pure (if k == .allocTooMuch && (big r.q.num.natAbs || big r.q.den) then panic k.name
              else mismatch (panic k.name) "pow-panic-not-justified")
  | "qp.consts", [k] => do
    let _ ← parseKind k
    pure (ok (" ".intercalate [showQ Q.zero, showQ Q.one, showQ Q.negOne, showQ Q.zero]))
  | _, _ => none

/-- group dispatcher: C04 + C18 ops of `Driver/Ratio.lean`, then the ops of this file -/
def dispatchAll : Dispatch := fun W op args =>
  match Ratio.dispatchAll W op args with
  | some r => some r
  | none => dispatch W op args

end Dashu.Driver.RatioPred
