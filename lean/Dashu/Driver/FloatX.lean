import Dashu.Driver.Float
/-
  Group `float`, C10 — EXTREME EXPONENTS (ROUND4 addendum E1: every isize parameter driven at its machine extremes).
  The `f.*` arms of `Driver/Float.lean` evaluate their specification over `Rat`, i.e. compute `B^|exponent|`; for
  `|exponent| ≥ 2^20` that power is not computed (beyond 2^40 it does not exist in memory).  For such operands the value of every integer rounding is known
  symbolically (x = s·B^e, s ≠ 0, d digits):
    e ≥ 0       x is an integer: trunc = floor = ceil = round = x, fract = 0;
    e + d ≤ −1  |x| < 1/B ≤ 1/2: trunc = round = 0, floor = −1 or 0, ceil = 0 or 1 by the sign, fract = x,
                to_int = the mode's adjustment of 0 (flag = that adjustment), Repr::to_int = 0 (inexact).
  This dispatcher takes exactly those cases, runs the SAME mirrored model functions (`fTrunc` …) and compares them with
  the symbolic specification; everything else falls through to `Float.dispatchWith`.
-/
namespace Dashu.Driver.FloatX
open Dashu.IO Dashu.Driver Dashu.Model.Float Dashu.Driver.Float

def extreme (e : Int) : Bool := decide (e.natAbs ≥ 2 ^ 20)

def xOps : List String := ["f.trunc", "f.floor", "f.ceil", "f.round", "f.fract", "f.split", "f.to_int", "f.repr_to_int"]

/-- the mode's neighbour of a non-zero value of magnitude < 1/2 with sign `sg` -/
def tinyRound (m : Mode) (sg : Int) : Int :=
  match m with
  | .zero | .halfEven | .halfAway => 0
  | .away => sg
  | .up => if sg > 0 then 1 else 0
  | .down => if sg < 0 then -1 else 0

def isInt (r : FRepr) (v : Int) : Bool := r == FRepr.new 10 v 0

def handle (asIs : Bool) (op : String) (fa : FArg) : Option String := do
  let x ← fa.fbig
  let B := fa.base
  let r0 := x.repr
  let d : Int := r0.digits B
  let pos := decide (r0.exp ≥ 0)
  if !pos ∧ r0.exp + d > -1 then none
  let sg : Int := if r0.signif > 0 then 1 else -1
  let chk (s : String) (good : Bool) : String := if asIs ∨ good then s else mism s ("extreme-exponent " ++ op)
  match op with
  | "f.trunc" =>
    let r := fTrunc B (dubF32 B) x
    pure (chk (ok (fbigStr r)) (if pos then r.repr == r0 else isInt r.repr 0))
  | "f.floor" =>
    let r := fFloor B coarseNone (dubF32 B) x
    pure (chk (ok (fbigStr r)) (if pos then r.repr == r0 else isInt r.repr (tinyRound .down sg)))
  | "f.ceil" =>
    let r := fCeil B coarseNone (dubF32 B) x
    pure (chk (ok (fbigStr r)) (if pos then r.repr == r0 else isInt r.repr (tinyRound .up sg)))
  | "f.round" =>
    let r := fRound B coarseNone (dubF32 B) x
    pure (chk (ok (fbigStr r)) (if pos then r.repr == r0 else isInt r.repr 0))
  | "f.fract" =>
    let r := fFract B (dubF32 B) x
    pure (chk (ok (fbigStr r)) (if pos then isInt r.repr 0 else r.repr == r0))
  | "f.split" =>
    let (t, f) := fSplitAtPoint B (dubF32 B) x
    let t2 := fTrunc B (dubF32 B) x
    let f2 := fFract B (dubF32 B) x
    let s := ok (fbigStr t ++ " " ++ fbigStr f)
    let s := if (t, f) = (t2, f2) then s else s ++ " !model-forms-disagree"
    pure (chk s (if pos then t.repr == r0 && isInt f.repr 0 else isInt t.repr 0 && f.repr == r0))
  | "f.to_int" =>
    if pos then none
    -- like the code, `round_fract` must decide by its coarse `f32` test here: the exact comparison needs `B^(-e)`
    let r := fToInt B fa.mode coarseF32 (dubF32 B) x
    let want := tinyRound fa.mode sg
    pure (chk (ok (roundedIntStr r)) (r.1 == want && r.2.map rInt == some want))
  | "f.repr_to_int" =>
    if pos then none
    let r := reprToInt B (dubF32 B) fa.repr
    pure (chk (ok (roundedIntStr r)) (r.1 == 0 && r.2.isSome))
  | _ => none

/-! ### `s32.dest d:<B> <n>` (round 6): the digit estimates themselves

  `Repr::<B>::new(n, 0).digits_lb()` / `.digits_ub()` of dashu (harness/src/ops_f32.rs) against `digitsLbReal` / `digitsUbReal`
  of `Proofs/Float/{DigitsLb,Estimate}.lean` evaluated with the soft-float replica (every `*`, `/` an exact result rounded to
  nearest-even, `log2_bounds` = `FloatSoft.log2Bounds`, `as usize` = floor); beside it the compiled-`Float32` replicas
  `dlbF32` / `dubF32` (what the `f.*` model functions run with) and the enclosure `digits_lb ≤ digits ≤ digits_ub` that
  `Props/C10F32.digits_estimates_enclose_libm` proves. -/

/-- `Repr::new` strips the trailing zero digits -/
def stripBase (B : Nat) (n : Nat) : Nat :=
  if B < 2 then n else
  let rec go (fuel n : Nat) : Nat :=
    match fuel with
    | 0 => n
    | fuel + 1 => if n ≠ 0 ∧ n % B = 0 then go fuel (n / B) else n
  go (n.log2 + 1) n

open Dashu.Model.Float.SoftF32 in
def destSoft (B n : Nat) : Option (Nat × Nat) := do
  let (lb, ub) ← Dashu.Driver.FloatSoft.log2Bounds n
  let (blb, bub) ← Dashu.Driver.FloatSoft.log2Bounds B
  let L ← ofBits 1050288283
  let lo ← if B = 2 then some lb else if B = 10 then some (mul lb L) else div lb bub
  let hi ← if B = 2 then some ub else if B = 10 then some (mul ub L) else div ub blb
  let fl := fun (v : Val) => (toQ v).1 / (toQ v).2
  pure (fl lo, fl hi + 1)

def destOp (B n0 : Nat) : Option String := do
  if B < 2 ∨ n0 = 0 then none
  let n := stripBase B n0
  let (lo, hi) ← destSoft B n
  let s := ok ("d:" ++ toString lo ++ " d:" ++ toString hi)
  let v : Int := n
  let s := if (dlbF32 B v, dubF32 B v) = (lo, hi) then s
           else s ++ " !model-soft-f32 native=" ++ toString (dlbF32 B v) ++ "," ++ toString (dubF32 B v)
  pure (if lo ≤ digitsI B v ∧ digitsI B v ≤ hi then s else mism s ("digits-estimate-enclosure digits=" ++ toString (digitsI B v)))

def dispatchX (asIs : Bool) : Dispatch := fun W op args =>
  match args with
  | [b, a] =>
    if op == "s32.dest" then
      match parseDecNat b, parseNat a with
      | some B, some n => destOp B n
      | _, _ => none
    else dispatchWith asIs W op args
  | [a] =>
    if xOps.contains op then
      match parseF a with
      | some fa => if extreme fa.exp ∧ fa.signif ≠ 0 then handle asIs op fa else dispatchWith asIs W op args
      | none => dispatchWith asIs W op args
    else dispatchWith asIs W op args
  | _ => dispatchWith asIs W op args

end Dashu.Driver.FloatX
