import Dashu.Driver.Loop
import Dashu.Model.Text.Bytes
import Dashu.Model.Text.Float
import Dashu.Model.Text.Capacity
import Dashu.Model.Text.ChunksWord
import Dashu.Model.Text.FmtLow
import Dashu.Model.Float.RoundOps
import Dashu.Driver.TextDebug
import Dashu.Model.Text.Pieces
import Dashu.Model.Text.ChunksGuard
import Dashu.Model.Text.BytesBE
import Dashu.Model.Text.ChunksBuf
/-
  Driver of group `text` (C07): integer formatting, parsing, byte and chunk encodings.
  For every case the *required* result (specification side: `digits`/`pad_integral`/grammar/
  positional bytes) is printed; beside it the mirrored model is evaluated and a difference is
  flagged as ` !model-spec-mismatch` (cannot happen where model = spec is a checked theorem).
-/
namespace Dashu.Driver.Text
open Dashu.IO Dashu.Driver Dashu.Model.Text

def natBytesToStr (bs : List Nat) : String :=
  "s:" ++ String.ofList (bs.flatMap fun b => [hexDigit (b / 16 % 16), hexDigit (b % 16)])

def parseStr (s : String) : Option (List Nat) := (parseBytes s).map (·.map (·.toNat))

def parseTrait (s : String) : Option FmtTrait :=
  match s with
  | "d" => some .display | "b" => some .binary | "o" => some .octal
  | "x" => some .lowerHex | "X" => some .upperHex
  | _ => if s.startsWith "r" then (s.drop 1).toString.toNat?.map .inRadix else none

def fillAlign (fa : Nat) : Option (List Nat × Option Align) :=
  match fa with
  | 0 => some ([32], none) | 1 => some ([32], some .left) | 2 => some ([32], some .center)
  | 3 => some ([32], some .right) | 4 => some ([42], some .left) | 5 => some ([42], some .center)
  | 6 => some ([42], some .right) | 7 => some ([0xc3, 0xa9], some .left)
  | 8 => some ([0xc3, 0xa9], some .center) | 9 => some ([0xc3, 0xa9], some .right)
  | _ => none

def parseWidth (s : String) : Option (Option Nat) :=
  if s = "none" then some none else (parseDecNat s).map some

def parseFmtSpec (fa fl w : String) : Option FmtSpec := do
  let (fill, align) ← fillAlign (← fa.toNat?)
  let width ← parseWidth w
  if fl ≠ "-" ∧ !(fl.toList.all fun c => c = '+' ∨ c = '#' ∨ c = '0') then none
  pure { fill, align, plus := fl.contains '+', alt := fl.contains '#', zero := fl.contains '0', width }

def flag (model spec : String) (excused : Bool) : String :=
  if model = spec ∨ excused then spec else spec ++ " !model-spec-mismatch model=" ++ (model.replace " " "_")

def fmtOp (W : Nat) (t fa fl w : String) (z : Int) : Option String := do
  let t ← parseTrait t
  let f ← parseFmtSpec fa fl w
  if !validRadix t.radix then pure "panic InvalidRadix"
  else
    -- the model side is the mirrored low layer: reciprocal division by the radix (`FastDivideSmall`), SWAR
    -- digit → ASCII, buffered `DigitWriter` (Model/Text/FmtLow.lean; = `fmtModel` by `print_on_mirrored_low_layer`)
    let m := match fmtModelP W t f z with    -- recorded `DigitWriter::write` pieces (Model/Text/Pieces.lean; = fmtModel by `print_on_recorded_pieces`)
      | .ok bs => natBytesToStr bs
      | .error e => "!model-low-layer-panic " ++ (toString (repr e)).replace " " "_"
    let s := natBytesToStr (fmtSpec t f z)
    -- the bounded-buffer model must not panic and must deliver the same digits (Proofs/Text/Capacity.lean)
    let bounded := match rawDigitsC W t.radix z.natAbs with
      | .ok ds => if ds = rawDigits W t.radix z.natAbs then "" else " !model-buffer-mismatch"
      | .error e => " !model-buffer-panic " ++ (toString (repr e)).replace " " "_"
    pure (flag ("ok " ++ m) ("ok " ++ s) false ++ bounded)

/-- bounded-buffer run of the digit loops on the body of a literal (sign stripped, zeros stripped) -/
def boundedParse (W : Nat) (signed : Bool) (s : List Nat) (r : Nat) : String :=
  if !validRadix r then ""
  else
    let body := (splitSign signed s).2
    if body.all (· == 95) then ""
    else
      let t := stripZeros body
      let show' (x : Except ParseError Nat) : String := match x with
        | .ok v => "ok " ++ toString v
        | .error e => "err " ++ e.name
      match parseCoreC W r t with
      | .ok v =>
        if show' v = show' (if isPow2 r then parsePow2 W r t else parseNonPow2 W r t) then "" else " !model-buffer-mismatch"
      | .error e => " !model-buffer-panic " ++ (toString (repr e)).replace " " "_"

def resInt (r : Except ParseError Int) : String :=
  match r with
  | .ok v => "ok " ++ intToHex v
  | .error e => "err " ++ e.name

def resIntRadix (r : Except ParseError (Int × Nat)) : String :=
  match r with
  | .ok (v, d) => "ok " ++ intToHex v ++ " d:" ++ toString d
  | .error e => "err " ++ e.name

def rtOp (W : Nat) (signed : Bool) (z : Int) (r : Nat) : String :=
  if !validRadix r then "panic InvalidRadix"
  else
    let t := FmtTrait.inRadix r
    let isOk (x : Except ParseError Int) : Bool := match x with
      | .ok v => v == z
      | .error _ => false
    let ok (f : FmtSpec) : Bool := isOk (parseRadix W signed (fmtModel W t f z) r)
    let okS (f : FmtSpec) : Bool := isOk (parseRadixSpec signed (fmtSpec t f z) r)
    let m := ok {} && ok { alt := true } && ok { plus := true }
    let s := okS {} && okS { alt := true } && okS { plus := true }
    flag ("ok " ++ boolStr m) ("ok " ++ boolStr (s && true)) false

def chunksStr (cs : List Nat) : String :=
  " ".intercalate (("d:" ++ toString cs.length) :: cs.map natToHex)

-- ---------------------------------------------------------------- C08: floats

open Dashu.Model.Float in
def parseMode (s : String) : Option Mode :=
  match s with
  | "Z" => some .zero | "A" => some .away | "U" => some .up | "D" => some .down
  | "E" => some .halfEven | "H" => some .halfAway | _ => none

structure FArg where
  base : Nat
  repr : Dashu.Model.Float.FRepr
  prec : Nat
  mode : Dashu.Model.Float.Mode

/-- `f:<base>:<signif hex>:<exp dec>:<prec dec>:<mode>`; the repr is normalised as `Repr::new` does -/
def parseFArg (s : String) : Option FArg :=
  match s.splitOn ":" with
  | ["f", b, sg, e, p, m] => do
    let b ← b.toNat?
    let sg ← parseInt sg
    let e ← e.toInt?
    let p ← p.toNat?
    let m ← parseMode m
    pure ⟨b, Dashu.Model.Float.FRepr.new b sg e, p, m⟩
  | _ => none

def reprStr (r : Dashu.Model.Float.FRepr) : String := intToHex r.signif ++ " " ++ toString r.exp

def flagStr : Option Dashu.Model.Float.Rounding → String
  | none => "Exact"
  | some r => "Inexact:" ++ Dashu.Model.Float.rName r

/-- the exponent of a `Repr` is an `isize` -/
def isizeOk (z : Int) : Bool := decide (-(2 ^ 63 : Int) ≤ z) && decide (z < (2 ^ 63 : Int))

/-- result of a parse.  The model's exponent is an unbounded integer; a literal whose exact value needs an
    exponent outside the `isize` range is not representable and must be rejected: the required answer is then an
    error (`InvalidDigit`, the kind the code returns for a scale that does not fit an `isize`) -/
def fparseRes (r : Except ParseError (Dashu.Model.Float.FRepr × Nat)) : String :=
  match r with
  | .ok (v, n) => if isizeOk v.exp then "ok " ++ reprStr v ++ " " ++ toString n else "err InvalidDigit"
  | .error e => "err " ++ e.name

def optNat (s : String) : Option (Option Nat) :=
  if s = "none" then some none else (parseDecNat s).map some

def convStr (p : Nat) : ConvResult → String
  | .ok (r, fl) => "ok " ++ reprStr r ++ " " ++ toString p ++ " " ++ flagStr fl
  | .unlimitedPrecision => "panic UnlimitedPrecision"
  | .lnExp => "ok lnexp-branch-not-mirrored"

open Dashu.Model.Float in
def floatDispatch (W : Nat) (op : String) (args : List String) : Option String :=
  match op, args with
  | "f.parse", [b, _m, s] => do
    let b ← parseDecNat b; let s ← parseStr s
    pure (flag (fparseRes (fromStrNative W b s)) (fparseRes (parseFloatSpec b s)) false)
  | "f.fmt", [k, p, w, fl, a] => do
    let p ← optNat p; let w ← optNat w; let a ← parseFArg a
    let has (c : Char) : Bool := fl.toList.contains c
    let f : FmtSpec := { plus := has '+', width := w, zero := has '0',
                         fill := if has '*' then [42] else [32],
                         align := if has '<' then some .left else if has '^' then some .center
                                  else if has '>' then some .right else none }
    match k with
    | "disp" =>
      let m := natBytesToStr (fmtRound a.base a.mode f p a.repr)
      if w.isNone then
        pure (flag ("ok " ++ m) ("ok " ++ natBytesToStr (displaySpec a.base a.mode f.plus p a.repr)) false)
      else pure ("ok " ++ m)
    | "lexp" => pure ("ok " ++ natBytesToStr (fmtSci a.base a.mode f p false a.repr))
    | "uexp" => pure ("ok " ++ natBytesToStr (fmtSci a.base a.mode f p true a.repr))
    | "dbg" => pure ("ok " ++ natBytesToStr (debugFBig W a.base a.mode false a.repr a.prec))
    | "dbga" => pure ("ok " ++ natBytesToStr (debugFBig W a.base a.mode true a.repr a.prec))
    | "rdbg" => pure ("ok " ++ natBytesToStr (debugRepr W a.base false a.repr))
    | "rdbga" => pure ("ok " ++ natBytesToStr (debugRepr W a.base true a.repr))
    | _ => match fmtRadixTrait a.base a.mode f p k a.repr with
      | some t => pure ("ok " ++ natBytesToStr t)
      | none => none
  -- infinities: every formatting trait prints `inf` / `-inf`; width, precision and flags are ignored
  | "f.fmtinf", [k, p, w, _fl, b, sg, m] => do
    let _ ← optNat p; let _ ← optNat w; let b ← parseDecNat b; let _ ← parseMode m
    let neg ← (if sg = "-" then some true else if sg = "+" then some false else none)
    if !fmtKindDefined k b then none
    pure ("ok " ++ natBytesToStr (fmtInfinite neg))
  | "f.with_precision", [a, ps] => do
    let a ← parseFArg a; let p ← parseDecNat ps
    let B := a.base
    let r := fWithPrecision B a.mode coarseNone ⟨a.repr, a.prec⟩ p
    let out := "ok " ++ reprStr r.1.repr ++ " " ++ toString r.1.prec ++ " " ++ flagStr r.2
    -- specification side (the clause of C08): precision p; for p ≥ 1 the contract of C03 for the exact value and at
    -- most p digits whenever the precision shrinks (unlimited = larger than any p); for p = 0 the value unchanged
    -- (the contract is invariant under scaling by a power of the base: it is evaluated with the exponent of the
    --  argument moved to 0, so that exponents of any magnitude can be driven)
    let x := (⟨a.repr.signif, 0⟩ : FRepr).toRat B
    let okSpec :=
      r.1.prec = p ∧
      (if p = 0 then r.1.repr = a.repr ∧ r.2 = none
       else contractOk B a.mode p x ((⟨r.1.repr.signif, r.1.repr.exp - a.repr.exp⟩ : FRepr).toRat B) r.2 ∧
         ((a.prec > p ∨ a.prec = 0) → r.1.repr.digits B ≤ p) ∧
         (¬ (a.prec > p ∨ a.prec = 0) → r.1.repr = a.repr ∧ r.2 = none))
    pure (if okSpec then out else out ++ " !model-spec-mismatch with_precision")
  | "f.rt", [a] => do
    let a ← parseFArg a
    let text := fmtRound a.base a.mode {} none a.repr
    let back := fromStrNative W a.base text
    let res := match back with
      | .ok (v, n) => reprStr v ++ " " ++ toString n
      | .error e => "err " ++ e.name
    let same := match back with
      | .ok (v, _) => v == a.repr
      | .error _ => false
    let out := "ok " ++ natBytesToStr text ++ " " ++ res
    pure (if same then out else out ++ " !model-spec-mismatch round-trip-differs")
  | "f.with_base", [nb, a] => do
    let nb ← parseDecNat nb; let a ← parseFArg a
    let p := withBasePrecision W a.base nb a.prec
    pure (convStr p (convertBase W a.base nb a.mode p a.repr))
  | "f.with_base_prec", [nb, p, a] => do
    let nb ← parseDecNat nb; let p ← parseDecNat p; let a ← parseFArg a
    pure (convStr p (convertBase W a.base nb a.mode p a.repr))
  | "f.with_base_chk", [nb, ps, a] => do
    let nb ← parseDecNat nb; let a ← parseFArg a
    let p ← if ps = "auto" then some (withBasePrecision W a.base nb a.prec) else parseDecNat ps
    if p = 0 then pure "panic UnlimitedPrecision"
    else pure ("ok d:" ++ toString p ++ " digits=true ulp=true side=true flag=true exactrep=true")
  | "f.from_f32", [bits, _m] => do
    let bits ← parseNat bits
    pure (match fromIeee 23 8 bits with
      | none => "err OutOfBounds"
      | some (.inl neg) => if neg then "ok -inf" else "ok inf"
      | some (.inr (r, p)) => "ok " ++ reprStr r ++ " " ++ toString p)
  | "f.from_f64", [bits, _m] => do
    let bits ← parseNat bits
    pure (match fromIeee 52 11 bits with
      | none => "err OutOfBounds"
      | some (.inl neg) => if neg then "ok -inf" else "ok inf"
      | some (.inr (r, p)) => "ok " ++ reprStr r ++ " " ++ toString p)
  | _, _ => none

def dispatch : Dispatch := fun W op args =>
  match op, args with
  | "u.fmt", [t, fa, fl, w, n] => do fmtOp W t fa fl w (← parseNat n)
  | "i.fmt", [t, fa, fl, w, n] => do fmtOp W t fa fl w (← parseInt n)
  -- `FastDivideSmall` (num-modular `PreMulInv1by1<uW>`) driven directly at word size `w`: the private fields `m`, `shift`
  -- computed by the mirrored `new`, quotient and remainder by the mirrored `div_rem`; spec side: `/`, `%`
  | "t.fastdiv", [w, d, a] => do
    let w ← parseDecNat w; let d ← parseNat d; let a ← parseNat a
    if d < 2 ∨ d ≥ 2 ^ w ∨ a ≥ 2 ^ w then none
    match PreMulInv1by1.new w d with
    | .error e => pure ("ok !model-low-layer-panic " ++ (toString (repr e)).replace " " "_")
    | .ok p =>
      match p.divRem w a d with
      | .error e => pure ("ok !model-low-layer-panic " ++ (toString (repr e)).replace " " "_")
      | .ok (q, r) =>
        let out := "ok " ++ natToHex p.m ++ " d:" ++ toString p.shift ++ " " ++ natToHex q ++ " " ++ natToHex r
        pure (if q = a / d ∧ r = a % d then out else out ++ " !model-spec-mismatch fastdiv")
  -- `{:?}` (`DoubleEnd`): sign, all / first..last decimal digits, `#` appends the digit and bit counts; the width
  -- is ignored by the implementation; model = mirrored DoubleEnd (Driver/TextDebug.lean), spec = debugSpec (Props/C07Debug)
  | "u.dbg", [fl, w, n] => do
    let _ ← parseWidth w
    if fl ≠ "-" ∧ fl ≠ "+" ∧ fl ≠ "#" ∧ fl ≠ "+#" then none
    pure (Dashu.Driver.TextDebug.dbgOp natBytesToStr W (fl.contains '#') (fl.contains '+') (Int.ofNat (← parseNat n)))
  | "i.dbg", [fl, w, n] => do
    let _ ← parseWidth w
    if fl ≠ "-" ∧ fl ≠ "+" ∧ fl ≠ "#" ∧ fl ≠ "+#" then none
    pure (Dashu.Driver.TextDebug.dbgOp natBytesToStr W (fl.contains '#') (fl.contains '+') (← parseInt n))
  | "u.parse", [s, r] => do
    let s ← parseStr s; let r ← parseDecNat r
    pure (flag (resInt (parseRadix W false s r)) (resInt (parseRadixSpec false s r)) false ++ boundedParse W false s r)
  | "i.parse", [s, r] => do
    let s ← parseStr s; let r ← parseDecNat r
    pure (flag (resInt (parseRadix W true s r)) (resInt (parseRadixSpec true s r)) false ++ boundedParse W true s r)
  | "u.parse_prefix", [s] => do
    let s ← parseStr s
    pure (flag (resIntRadix (parseDefault W false s 10)) (resIntRadix (parseDefaultSpec false s 10)) false)
  | "i.parse_prefix", [s] => do
    let s ← parseStr s
    pure (flag (resIntRadix (parseDefault W true s 10)) (resIntRadix (parseDefaultSpec true s 10)) false)
  | "u.parse_default", [s, r] => do
    let s ← parseStr s; let r ← parseDecNat r
    pure (flag (resIntRadix (parseDefault W false s r)) (resIntRadix (parseDefaultSpec false s r)) false)
  | "i.parse_default", [s, r] => do
    let s ← parseStr s; let r ← parseDecNat r
    pure (flag (resIntRadix (parseDefault W true s r)) (resIntRadix (parseDefaultSpec true s r)) false)
  | "u.rt", [n, r] => do
    let n ← parseNat n; let r ← parseDecNat r
    pure (rtOp W false n r)
  | "i.rt", [n, r] => do
    let z ← parseInt n; let r ← parseDecNat r
    pure (rtOp W true z r)
  -- ---------------------------------------------------------------- bytes
  | "u.le", [n] => do
    let n ← parseNat n
    pure (flag ("ok " ++ natBytesToStr (toLeBytes W n)) ("ok " ++ natBytesToStr (leBytesSpec n)) false)
  | "u.be", [n] => do
    let n ← parseNat n
    pure (flag ("ok " ++ natBytesToStr (toBeBytesM W n)) ("ok " ++ natBytesToStr (leBytesSpec n).reverse) false)
  | "i.le", [n] => do
    let z ← parseInt n
    pure (flag ("ok " ++ natBytesToStr (ibigToLeBytes W z)) ("ok " ++ natBytesToStr (signedLeBytesSpec z)) false)
  | "i.be", [n] => do
    let z ← parseInt n
    pure (flag ("ok " ++ natBytesToStr (ibigToBeBytesM W z)) ("ok " ++ natBytesToStr (signedLeBytesSpec z).reverse) false)
  | "u.from_le", [s] => do
    let b ← parseStr s
    pure (flag ("ok " ++ natToHex (fromLeBytes W b)) ("ok " ++ natToHex (ofLeBytesSpec b)) false)
  | "u.from_be", [s] => do
    let b ← parseStr s
    pure (flag ("ok " ++ natToHex (fromBeBytesM W b)) ("ok " ++ natToHex (ofLeBytesSpec b.reverse)) false)
  | "i.from_le", [s] => do
    let b ← parseStr s
    pure (flag ("ok " ++ intToHex (fromSignedLeBytes W b)) ("ok " ++ intToHex (ofSignedLeBytesSpec b)) false)
  | "i.from_be", [s] => do
    let b ← parseStr s
    pure (flag ("ok " ++ intToHex (fromSignedBeBytesM W b)) ("ok " ++ intToHex (ofSignedLeBytesSpec b.reverse)) false)
  -- ---------------------------------------------------------------- chunks
  | "u.chunks", [n, k] => do
    let n ← parseNat n; let k ← parseDecNat k
    let spec := if k = 0 then "panic ChunkBitsZero" else "ok " ++ chunksStr (chunksSpecG n k)   -- = chunksSpec (never forms 2^k for k ≥ bit_len)
    -- round 6: the model with the chunk buffers of fix 80bcfde as bounded arrays (Model/Text/ChunksBuf.lean);
    -- `Props/C07.to_chunks_buffers_never_overrun`: it never fails and equals the positional chunks
    let model := match toChunksB W n k with
      | .ok cs => "ok " ++ chunksStr cs
      | .error e => "panic " ++ e.name
    pure (flag model spec false)
  | "u.from_chunks", k :: cs => do
    let k ← parseDecNat k
    let cs ← cs.mapM parseNat
    let spec := if k = 0 then "panic ChunkBitsZero" else "ok " ++ natToHex (ofChunksSpecG k cs)  -- = ofChunksSpec
    let model := match fromChunksW W k (cs.map (wordsOf W)) with
      | .ok v => "ok " ++ natToHex v
      | .error .chunkBitsZero => "panic ChunkBitsZero"
    pure (flag model spec false)
  | _, _ => floatDispatch W op args

end Dashu.Driver.Text
