import Dashu.Driver.Text
/-
  Driver ops of group `text` added in round 5 for C08 (kept in a file of their own; `Mains/Text.lean` tries
  `Dashu.Driver.Text.dispatch` first and then this one).

  `f.rtsci <kind> <prec|none> <+|-> <farg>`: print the float with a scientific formatting trait
  (`lexp`/`uexp` of every base, `bin` of base 2, `oct` of base 8, `lhex`/`uhex` of base 16 and — hexadecimal
  form `0xh.hhp±e` — of base 2), no width, then parse the text back with `from_str` of the same base.
  Output: the text, the repr read and its precision.  Specification side (theorem
  `Dashu.Props.C08.scientific_print_parse`): the float read is the printed float itself without a precision
  and the value correctly rounded to `p + 1` significant digits (`4p + 4` bits) under the mode with one
  (`specRound`, builder-float's executable definition over `Rat`), its precision the number of digits shown.
-/
namespace Dashu.Driver.TextSci
open Dashu.IO Dashu.Driver Dashu.Model.Text Dashu.Driver.Text Dashu.Model.Float

/-- `f.rtsci K P S F [W]`: `S` = `-` | `+` | `0` | `+0` (the `+` and zero flags), `W` = optional width `d:n` (used with the zero flag:
    the padding zeros stand behind sign / `0x` — theorem `padded_scientific_print_parse`; then only the VALUE read is fixed, the
    precision read counts the padding zeros) -/
def rtsci (W : Nat) (k p pl a : String) (w : Option Nat) : Option String := do
  let p ← optNat p; let a ← parseFArg a
  let (plus, zero) ← (match pl with
    | "+" => some (true, false) | "-" => some (false, false) | "0" => some (false, true) | "+0" => some (true, true)
    | _ => none)
  let f : FmtSpec := { plus := plus, zero := zero, width := w }
  let text ← match k with
    | "lexp" => some (fmtSci a.base a.mode f p false a.repr)
    | "uexp" => some (fmtSci a.base a.mode f p true a.repr)
    | _ => fmtRadixTrait a.base a.mode f p k a.repr
  let hex := a.base == 2 && (k == "lhex" || k == "uhex")
  let back := fromStrNative W a.base text
  let res := match back with
    | .ok (v, n) => if isizeOk v.exp then Dashu.Driver.Text.reprStr v ++ " " ++ toString n else "err InvalidDigit"
    | .error e => "err " ++ e.name
  -- rounding commutes with scaling by a power of the base: the specification is evaluated with the exponent moved
  -- to 0 (exponents of any magnitude can be driven)
  let x := (⟨a.repr.signif, 0⟩ : FRepr).toRat a.base
  let same := match back, p with
    | .ok (v, _), none => v == a.repr
    | .ok (v, n), some p0 =>
      let P := if hex then 4 * p0 + 4 else p0 + 1
      let w' := (specRound a.base a.mode P x).1
      v == (if w'.signif = 0 then w' else ⟨w'.signif, w'.exp + a.repr.exp⟩) &&
        (w.isSome || n == (p0 + 1) * (if hex then 4 else 1))
    | .error _, _ => false
  let out := "ok " ++ natBytesToStr text ++ " " ++ res
  -- a printed exponent outside the `isize` range cannot be read back (hypothesis of `scientific_print_parse`): the
  -- text is still required; a rejected parse is accepted only there (exponents beyond ±2^62)
  let far := !(isizeOk (2 * a.repr.exp))
  let okBack := match back with
    | .ok _ => same
    | .error _ => far
  pure (if okBack then out else out ++ " !model-spec-mismatch sci-round-trip-differs")

def dispatch : Dispatch := fun W op args =>
  match op, args with
  | "f.rtsci", [k, p, pl, a] => rtsci W k p pl a none
  | "f.rtsci", [k, p, pl, a, w] => do
    let w ← parseDecNat w
    rtsci W k p pl a (some w)
  | _, _ => none

end Dashu.Driver.TextSci
