import Dashu.Driver.IO
import Dashu.Driver.Loop
import Dashu.Spec.Panics
import Dashu.Model.Panic.Guards
import Dashu.Model.Panic.GuardsMore
import Dashu.Model.Panic.GuardsMore3
import Dashu.Model.Panic.Guards5
/-
  Driver of group `panic` (C16).  The MODEL of this property is the documentation
  (`Dashu.Spec.Panics.verdict`): for each case line the driver prints what the documentation promises —
  `ok` (returns), `panic <Kind>`, or `unspecified` (the generator must not produce such calls).
  For the operations whose entry guards are mirrored from the code (`Dashu.Model.Panic.guardModel`) the
  mirrored guard is evaluated beside the documentation and a difference is reported as
  ` !model-spec-mismatch` (a defect of OUR model: theorem `guardModel_iff_documented` excludes it).
  An op prefixed with `R/` is the same call made in the release build of the harness.
-/
namespace Dashu.Driver.Panic
open Dashu.IO Dashu.Spec.Panics

def parseFArg (s : String) : Option FArg :=
  match s.splitOn ":" with
  | ["f", b, sg, e, p, m] => do
    let base ← b.toNat?
    let signif ← parseInt sg
    let exp ← e.toInt?
    let prec ← p.toNat?
    match m.toList with
    | [c] => some ⟨base, signif, exp, prec, c⟩
    | _ => none
  | _ => none

def parseArg (s : String) : Option Arg :=
  if s.startsWith "d:" then Arg.dec <$> parseDec s
  else if s.startsWith "s:" then Arg.str <$> parseBytes s
  else if s.startsWith "f:" then Arg.flt <$> parseFArg s
  else if s.startsWith "k:" then
    match (s.drop 2).toString.toList with
    | [c] => if c = 'R' ∨ c = 'X' then some (Arg.kind c) else none
    | _ => none
  else if s.startsWith "fn:" then some (Arg.fn (s.drop 3).toString)
  else Arg.int <$> parseInt s

def showVerdict : Verdict → String
  | .returns => "ok"
  | .panics k => "panic " ++ k.name
  | .unspecified => "unspecified"

def dispatch (W : Nat) (op0 : String) (args : List String) : Option String := do
  let op1 := if op0.startsWith "R/" then (op0.drop 2).toString else op0
  let op1 := if op1.startsWith "L/" then (op1.drop 2).toString else op1     -- termination stream (long limit)
  let op ← Op.ofName op1
  let as ← args.mapM parseArg
  let v ← verdict W op as
  let out := match op, as with
    | .uTryPrims, [.int x] | .iTryPrims, [.int x] => showVerdict v ++ " " ++ fitsPattern x
    | _, _ => showVerdict v
  -- size reservations (round 5): upper bounds, tied to the documentation by the two implications of `sizeConsistent`
  let out := match Dashu.Model.Panic.sizeGuard5 W op as with
    | none => out
    | some g =>
      if v = .unspecified ∨ Dashu.Model.Panic.sizeConsistent v g then out
      else out ++ " !model-spec-mismatch reservation=" ++
        (match g with | .ok () => "ok" | .error k => "panic_" ++ k.name)
  match (Dashu.Model.Panic.guardModel W op as <|> Dashu.Model.Panic.guardModelMore W op as <|>
         Dashu.Model.Panic.guardModelMore3 W op as <|> Dashu.Model.Panic.guardModel5 W op as) with
  | none => some out
  | some g =>
    let gs := match g with
      | .ok () => "ok"
      | .error k => "panic " ++ k.name
    if v = .unspecified ∨ gs = out then some out
    else some (out ++ " !model-spec-mismatch guard=" ++ gs.replace " " "_")

end Dashu.Driver.Panic
