import Dashu.Driver.Loop
import Dashu.Model.Cross.Ord
import Dashu.Model.Cross.IntOrd
import Dashu.Model.Cross.EstNoStd
import Dashu.Model.Cross.Oracle
import Dashu.Model.Cross.Hash
import Dashu.Model.Cross.Mersenne
/-
  Driver of group `cross` (C14).

  For every comparison the mirrored model is evaluated with the `coarse` oracle (bit-length bounds,
  never materialises `B^e`) and — unless an operand is too large to materialise — ALSO with the
  `noFilter` oracle (exact path only) and against the specification (`XVal.cmp` of the exact
  values).  The three must agree (`!model-spec-mismatch` / `!model-oracle-dependence` otherwise;
  by the theorems of `Props/C14` they always do).  Big-integer × big-integer comparisons (`Ord`,
  `AbsOrd`, `AbsEq` of integer/src/cmp.rs) run through C05's mirrored word-level `cmp`
  (`Model/Cross/IntOrd.lean`, the `…W` tables; equal to the value-level tables by `Props/C14Link`).
  Every comparison is ALSO evaluated with a third oracle, `EstNoStd.noStdExactOracle`: the no_std table
  estimators of integers and rationals (mirrored, exact arithmetic; sound by `Props/C14EstNoStd`) — a
  different answer is `!model-oracle-dependence nostd=…`.
-/
namespace Dashu.Driver.Cross
open Dashu.IO Dashu.Model.Cross Dashu.Driver

-- ------------------------------------------------------------------ argument parsing

/-- number of trailing zero bits of `n > 0` -/
def tzBits (n : Nat) : Nat := Nat.log2 (n ^^^ (n &&& (n - 1)))

partial def stripLoop (B : Nat) (s : Int) (e : Int) : Int × Int :=
  if s % (B : Int) == 0 then stripLoop B (s / (B : Int)) (e + 1) else (s, e)

/-- `Repr::<B>::normalize` for a non-zero significand: strip trailing base-`B` digits -/
def stripDigits (B : Nat) (s : Int) (e : Int) : Int × Int :=
  if B < 2 || s == 0 then (s, e)
  else if B == 2 ^ (bitLen B - 1) then
    let bits := bitLen B - 1
    let shift := tzBits s.natAbs / bits
    (s / ((2 ^ (shift * bits) : Nat) : Int), e + shift)
  else stripLoop B s e

def parsePrimInt : String → Option PrimInt
  | "u8" => some .u8 | "u16" => some .u16 | "u32" => some .u32 | "u64" => some .u64
  | "u128" => some .u128 | "usize" => some .usize
  | "i8" => some .i8 | "i16" => some .i16 | "i32" => some .i32 | "i64" => some .i64
  | "i128" => some .i128 | "isize" => some .isize
  | _ => none

def pow2Part (n : Nat) : Nat := if n == 0 then 0 else tzBits n

def parseNum (s : String) : Option Num :=
  match s.splitOn ":" with
  | ["n", h, "U"] => Num.ubig <$> parseNat h
  | ["n", h, "I"] => Num.ibig <$> parseInt h
  | ["f", b, sg, ex, pr] => do
    let B ← b.toNat?
    if !(B == 2 || B == 10 || B == 16) then none
    let sig ← parseInt sg
    let e ← ex.toInt?
    let p ← pr.toNat?
    if sig == 0 then
      if e == 0 || e == 1 || e == -1 then pure (Num.fbig B 0 e p) else none
    else
      let (s', e') := stripDigits B sig e
      pure (Num.fbig B s' e' p)
  | ["q", nd, k] => do
    match nd.splitOn "/" with
    | [ns, ds] =>
      let n ← parseInt ns
      let d ← parseNat ds
      if d == 0 then none
      if n == 0 then
        (match k with | "R" => some (Num.rbig 0 1) | "X" => some (Num.relaxed 0 1) | _ => none)
      else match k with
        | "R" =>
          let g := Nat.gcd n.natAbs d
          some (Num.rbig (n / (g : Int)) (d / g))
        | "X" =>
          let z := min (pow2Part n.natAbs) (pow2Part d)
          some (Num.relaxed (n / ((2 ^ z : Nat) : Int)) (d / 2 ^ z))
        | _ => none
    | _ => none
  | ["p", "f32", h] => do
    let b ← parseNat h
    if b < 2 ^ 32 then pure (Num.pfloat .f32 b) else none
  | ["p", "f64", h] => do
    let b ← parseNat h
    if b < 2 ^ 64 then pure (Num.pfloat .f64 b) else none
  | ["p", t, h] => do
    let ty ← parsePrimInt t
    let v ← parseInt h
    if ty.inRange v then pure (Num.pint ty v) else none
  | _ => none

-- ------------------------------------------------------------------ size guard

/-- bits needed to materialise the value as a fraction -/
def matBits : Num → Nat
  | .fbig B _ e _ => e.natAbs * bitLen B
  | _ => 0

def matLimit : Nat := 2 ^ 28

def small (x y : Num) : Bool := matBits x ≤ matLimit && matBits y ≤ matLimit

-- ------------------------------------------------------------------ printing

def optOrdStr : Option Ordering → String
  | none => "none"
  | some o => ordStr o

/-- combine model (coarse oracle), model (noFilter oracle), spec -/
def verdict (m : String) (m2 spec : Option String) : String :=
  match spec with
  | none => ok m ++ " #spec=skipped"
  | some s =>
    if m == s ∧ m2 == some s then ok m
    else if m2 != some m then ok m ++ " !model-oracle-dependence nofilter=" ++ (m2.getD "?") ++ " spec=" ++ s
    else ok m ++ " !model-spec-mismatch spec=" ++ s

/-- big integers above this bit length are compared by the value-level tables (equal to the word-level ones by
    `Props/C14Link` `num_partial_cmp_mirrored` …): C05's canonical-representation builder `natWords` is quadratic -/
def wordCmpLimit : Nat := 2 ^ 17

def giant : Num → Bool
  | .ubig n => bitLen n > wordCmpLimit
  | .ibig i => bitLen i.natAbs > wordCmpLimit
  | _ => false

def numPartialCmpD (W : Nat) (o : Oracle) (x y : Num) : Option (Option Ordering) :=
  if giant x || giant y then numPartialCmp o x y else numPartialCmpW W o x y
def numEqD (W : Nat) (o : Oracle) (x y : Num) : Option Bool :=
  if giant x || giant y then numEq o x y else numEqW W o x y
def absCmpD (W : Nat) (o : Oracle) (x y : Num) : Option Ordering :=
  if giant x || giant y then absCmp o x y else absCmpW W o x y
def ordCmpD (W : Nat) (o : Oracle) (x y : Num) : Option Ordering :=
  if giant x || giant y then ordCmp o x y else ordCmpW W o x y

/-- third oracle (table path): must give the same answer as the bit-length oracle -/
def withTable (m : String) (m3 : Option String) (line : String) : String :=
  if m3 == some m then line else line ++ " !model-oracle-dependence nostd=" ++ (m3.getD "?")

def feedStr (v : Int) : String :=
  let u : Nat := (if v < 0 then v + (2 : Int) ^ 128 else v).toNat
  bytesToStr ((List.range 16).map fun i => UInt8.ofNat ((u >>> (8 * i)) % 256))

def primSame (x y : Num) : Bool :=
  match x, y with
  | .pint t1 _, .pint t2 _ => t1 == t2 && t1.signed
  | .pfloat t1 _, .pfloat t2 _ => t1 == t2
  | _, _ => false

def dispatch : Dispatch := fun W0 op args =>
  let W := if W0 == 0 then 64 else W0
  match op, args with
  | "numcmp", [a, b] => do
    let x ← parseNum a; let y ← parseNum b
    match numPartialCmpD W Oracle.coarse x y with
    | none => pure (ok "nopair")
    | some m =>
      let m3 := (numPartialCmpD W (EstNoStd.noStdExactOracle W) x y).map optOrdStr
      if small x y then
        let m2 := (numPartialCmpD W Oracle.noFilter x y).map optOrdStr
        let spec := optOrdStr (XVal.cmp x.value y.value)
        pure (withTable (optOrdStr m) m3 (verdict (optOrdStr m) m2 (some spec)))
      else pure (withTable (optOrdStr m) m3 (verdict (optOrdStr m) none none))
  | "numeq", [a, b] => do
    let x ← parseNum a; let y ← parseNum b
    match numEqD W Oracle.coarse x y with
    | none => pure (ok "nopair")
    | some m =>
      let m3 := (numEqD W (EstNoStd.noStdExactOracle W) x y).map boolStr
      if small x y then
        let m2 := (numEqD W Oracle.noFilter x y).map boolStr
        let spec := boolStr (XVal.cmp x.value y.value == some .eq)
        pure (withTable (boolStr m) m3 (verdict (boolStr m) m2 (some spec)))
      else pure (withTable (boolStr m) m3 (verdict (boolStr m) none none))
  | "abscmp", [a, b] => do
    let x ← parseNum a; let y ← parseNum b
    if primSame x y then
      -- base/src/sign.rs: `self.abs().cmp(&rhs.abs())`
      let spec := optOrdStr (XVal.absCmp x.value y.value)
      match x, y with
      | .pint _ v, .pint _ w =>
        let m := ordStr (primIntAbsCmp v w)
        pure (verdict m (some m) (some spec))
      | _, _ =>
        if spec == "none" then none else pure (ok spec)
    else
    match absCmpD W Oracle.coarse x y with
    | none => pure (ok "nopair")
    | some m =>
      let m3 := (absCmpD W (EstNoStd.noStdExactOracle W) x y).map ordStr
      if small x y then
        let m2 := (absCmpD W Oracle.noFilter x y).map ordStr
        let spec := optOrdStr (XVal.absCmp x.value y.value)
        pure (withTable (ordStr m) m3 (verdict (ordStr m) m2 (some spec)))
      else pure (withTable (ordStr m) m3 (verdict (ordStr m) none none))
  | "abseq", [a, b] => do
    let x ← parseNum a; let y ← parseNum b
    let spec := boolStr (XVal.absCmp x.value y.value == some .eq)
    if primSame x y then
      match x, y with
      | .pint _ v, .pint _ w =>
        let m := boolStr (primIntAbsCmp v w == .eq)
        pure (verdict m (some m) (some spec))
      | _, _ => pure (ok spec)
    else
    match x, y with
    | .ubig v, .ubig w =>
      let m := boolStr (if giant x || giant y then (v : Int).natAbs == (w : Int).natAbs else intAbsEqW W v w)
      pure (verdict m (some m) (some spec))
    | .ubig v, .ibig w =>
      let m := boolStr (if giant x || giant y then (v : Int).natAbs == (w : Int).natAbs else intAbsEqW W v w)
      pure (verdict m (some m) (some spec))
    | .ibig v, .ubig w =>
      let m := boolStr (if giant x || giant y then (v : Int).natAbs == (w : Int).natAbs else intAbsEqW W v w)
      pure (verdict m (some m) (some spec))
    | .ibig v, .ibig w =>
      let m := boolStr (if giant x || giant y then (v : Int).natAbs == (w : Int).natAbs else intAbsEqW W v w)
      pure (verdict m (some m) (some spec))
    | .rbig n1 d1, .rbig n2 d2 =>
      -- `numerator.abs_eq && denominator ==` on canonical representations
      let m := boolStr (n1.natAbs == n2.natAbs && d1 == d2)
      pure (verdict m (some m) (some spec))
    | .relaxed n1 d1, .relaxed n2 d2 =>
      let m := boolStr (ratReprEq true n1 d1 n2 d2)
      pure (verdict m (some m) (some spec))
    | _, _ => pure (ok "nopair")
  | "ordcmp", [a, b] => do
    let x ← parseNum a; let y ← parseNum b
    match ordCmpD W Oracle.coarse x y with
    | none => pure (ok "nopair")
    | some m =>
      let m3 := (ordCmpD W (EstNoStd.noStdExactOracle W) x y).map ordStr
      if small x y then
        let m2 := (ordCmpD W Oracle.noFilter x y).map ordStr
        let spec := optOrdStr (XVal.cmp x.value y.value)
        pure (withTable (ordStr m) m3 (verdict (ordStr m) m2 (some spec)))
      else pure (withTable (ordStr m) m3 (verdict (ordStr m) none none))
  | "numhash", [a] => do
    -- model: every FixedMersenneInt operation mirrored (`numHashFeedM`); spec: the arithmetic
    -- description `numHashFeed` (equal by `num_hash_mirrored`)
    let x ← parseNum a
    match numHashFeedM x with
    | none => pure (panic "Undocumented(inv-unwrap)")
    | some m =>
      if m == numHashFeed x then pure (ok (feedStr m))
      else pure (ok (feedStr m) ++ " !model-spec-mismatch spec=" ++ feedStr (numHashFeed x))
  | "hasheq", [a, b] => do
    let x ← parseNum a; let y ← parseNum b
    match numHashFeedM x, numHashFeedM y with
    | some fx, some fy =>
      let m := fx == fy
      -- SPEC: equal values feed the same sequence (`num_hash_value_mirrored`)
      if small x y && XVal.cmp x.value y.value == some .eq && !m then
        pure (ok "false" ++ " !model-spec-mismatch spec=true")
      else if fx != numHashFeed x || fy != numHashFeed y then
        pure (ok (boolStr m) ++ " !model-spec-mismatch mirrored-feed-differs")
      else pure (ok (boolStr m))
    | _, _ => pure (panic "Undocumented(inv-unwrap)")
  | "fdecode", [a] => do
    let x ← parseNum a
    match x with
    | .pfloat t b =>
      match decode t b with
      | .nan => pure (ok "nan")
      | .inf neg => pure (ok ("inf " ++ (if neg then "-" else "+")))
      | .fin m e => pure (ok ("fin " ++ intToHex m ++ " " ++ decStr e))
    | _ => none
  | "implset", [] =>
    -- the impl headers / macro invocations the dispatch tables (`numPartialCmpK`, `absCmpK`, the
    -- harness tables) were transcribed from; the harness recomputes the digest from /repo's sources
    pure (ok ("integer/num_order.rs:24:7ae6a7d4524d4d33 float/num_order.rs:27:0c1cff48c4d28201 " ++
      "rational/num_order.rs:29:cde7ad95208ad165 integer/cmp.rs:8:dcc0b2b689fb3c4f " ++
      "float/cmp.rs:7:5cb7b0ee2a1a2a55 rational/cmp.rs:21:520af41e6927e981 base/sign.rs:9:be167acd1ffa1c5c"))
  | "log2encl", [a] => do
    -- the enclosure hypothesis on the REAL estimator is checked by the harness; required: it holds
    let x ← parseNum a
    match x with
    | .fbig _ s e _ => if fIsInf s e then none else pure (ok "enclosed")
    | .pint _ _ => none
    | .pfloat _ _ => none
    | _ => pure (ok "enclosed")
  | _, _ => none

end Dashu.Driver.Cross
