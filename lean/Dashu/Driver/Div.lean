import Dashu.Driver.Loop
import Dashu.Model.Int.Div
import Dashu.Model.Int.NumModular
import Dashu.Model.Int.PrimDiv
/-
  Driver of group `div` (C02): runs the mirrored division model; beside every result it evaluates
  the specification (`Nat` `/ %`, `Int.tdiv/tmod`, `Int.ediv/emod` — Lean core) and appends
  ` !model-spec-mismatch` if they differ.
-/
namespace Dashu.Driver.Div
open Dashu.IO Dashu.Model Dashu.Model.Div Dashu.Driver

def sOfInt (W : Nat) (i : Int) : SRepr := ⟨decide (i < 0), ofNat W i.natAbs⟩

def uStr (W : Nat) (r : TRepr) : String := natToHex (r.value W)

def sStr (W : Nat) (r : SRepr) : String :=
  let v := r.mag.value W
  if r.neg then (if v = 0 then "-0" else "-" ++ natToHex v) else natToHex v

def res (e : Except PanicKind String) : String :=
  match e with
  | .ok s => "ok " ++ s
  | .error k => "panic " ++ k.name

def chk (model spec : String) : String :=
  if model = spec then model else model ++ " !model-spec-mismatch spec=" ++ spec

def dbz : String := "panic DivideByZero"

/-- all variants of a model computation must agree -/
def same (xs : List String) : String :=
  match xs with
  | [] => "?"
  | x :: rest => if rest.all (· == x) then x else x ++ " !model-forms-disagree"

def uu (W : Nat) (p : TRepr × TRepr) : String := uStr W p.1 ++ " " ++ uStr W p.2
def ss (W : Nat) (p : SRepr × SRepr) : String := sStr W p.1 ++ " " ++ sStr W p.2
def su (W : Nat) (p : SRepr × TRepr) : String := sStr W p.1 ++ " " ++ uStr W p.2

def ckMod : Nat := 2 ^ 61 - 1
def ck (h q r : Nat) : Nat := ((h * 31 + q) % ckMod * 31 + r) % ckMod

def qr (p : Nat × Nat) : String := natToHex p.1 ++ " " ++ natToHex p.2

/-- direct ops on the mirror of num-modular's dividers (word size given per case) -/
def nmDispatch (op : String) (args : List String) : Option String :=
  match op, args with
  | "nm.inv1", [w, d] => do
    let w ← parseDecNat w; let d ← parseNat d
    pure (chk ("ok " ++ natToHex (NumModular.invertWord w d)) ("ok " ++ natToHex ((2 ^ (2 * w) - 1) / d - 2 ^ w)))
  | "nm.inv2", [w, d] => do
    let w ← parseDecNat w; let d ← parseNat d
    pure (chk ("ok " ++ natToHex (NumModular.invertDoubleWord w d)) ("ok " ++ natToHex ((2 ^ (3 * w) - 1) / d - 2 ^ w)))
  | "nm.div1by1", [w, d, a] => do
    let _ ← parseDecNat w; let d ← parseNat d; let a ← parseNat a
    pure (chk ("ok " ++ qr (div1by1 d a)) ("ok " ++ qr (a / d, a % d)))
  | "nm.div2by2", [w, d, a] => do
    let _ ← parseDecNat w; let d ← parseNat d; let a ← parseNat a
    pure (chk ("ok " ++ qr (div2by2 d a)) ("ok " ++ qr (a / d, a % d)))
  | "nm.div2by1", [w, d, a] => do
    let w ← parseDecNat w; let d ← parseNat d; let a ← parseNat a
    pure (chk ("ok " ++ qr (NumModular.div2by1 w d (NumModular.invertWord w d) a)) ("ok " ++ qr (a / d, a % d)))
  | "nm.div3by2", [w, d, alo, ahi] => do
    let w ← parseDecNat w; let d ← parseNat d; let alo ← parseNat alo; let ahi ← parseNat ahi
    let a := alo + 2 ^ w * ahi
    pure (chk ("ok " ++ qr (NumModular.div3by2 w d (NumModular.invertDoubleWord w d) alo ahi))
      ("ok " ++ qr (a / d, a % d)))
  | "nm.div4by2", [w, d, alo, ahi] => do
    let w ← parseDecNat w; let d ← parseNat d; let alo ← parseNat alo; let ahi ← parseNat ahi
    let a := alo + 2 ^ (2 * w) * ahi
    pure (chk ("ok " ++ qr (NumModular.div4by2 w d (NumModular.invertDoubleWord w d) alo ahi))
      ("ok " ++ qr (a / d, a % d)))
  | "nm.sweep2by1", [_, d] => do
    let d ← parseNat d
    let m := NumModular.invertWord 8 d
    let hm := (List.range (d * 256)).foldl (fun h a => let p := NumModular.div2by1 8 d m a; ck h p.1 p.2) 0
    let hs := (List.range (d * 256)).foldl (fun h a => ck h (a / d) (a % d)) 0
    pure (chk ("ok " ++ natToHex hm) ("ok " ++ natToHex hs))
  | "nm.sweepinv2", [_, lo, cnt] => do
    let lo ← parseNat lo; let cnt ← parseNat cnt
    let hm := (List.range cnt).foldl (fun h i => ck h (NumModular.invertDoubleWord 8 (lo + i)) 0) 0
    let hs := (List.range cnt).foldl (fun h i => ck h ((2 ^ 24 - 1) / (lo + i) - 256) 0) 0
    pure (chk ("ok " ++ natToHex hm) ("ok " ++ natToHex hs))
  | "nm.sweep3by2", [_, d, ahi] => do
    let d ← parseNat d; let ahi ← parseNat ahi
    let m := NumModular.invertDoubleWord 8 d
    let hm := (List.range 256).foldl (fun h alo => let p := NumModular.div3by2 8 d m alo ahi; ck h p.1 p.2) 0
    let hs := (List.range 256).foldl (fun h alo => let a := alo + 256 * ahi; ck h (a / d) (a % d)) 0
    pure (chk ("ok " ++ natToHex hm) ("ok " ++ natToHex hs))
  | _, _ => none

def primTy (s : String) : Option PrimDiv.PTy :=
  match s with
  | "u8" => some ⟨8, false⟩ | "u16" => some ⟨16, false⟩ | "u32" => some ⟨32, false⟩
  | "u64" => some ⟨64, false⟩ | "u128" => some ⟨128, false⟩ | "usize" => some ⟨64, false⟩
  | "i8" => some ⟨8, true⟩ | "i16" => some ⟨16, true⟩ | "i32" => some ⟨32, true⟩
  | "i64" => some ⟨64, true⟩ | "i128" => some ⟨128, true⟩ | "isize" => some ⟨64, true⟩
  | _ => none

def ii (p : Int × Int) : String := intToHex p.1 ++ " " ++ intToHex p.2

/-- model result and specification of one primitive op -/
def primEval (t : PrimDiv.PTy) (op : String) (a b : Int) : Option (String × String) :=
  let bad : Option String :=
    if b = 0 then some "panic Undocumented(PrimDivideByZero)"
    else if t.signed ∧ a = t.lo ∧ b = -1 then some "panic Undocumented(PrimOverflow)" else none
  let sp (s : String) : String := match bad with | some e => e | none => "ok " ++ s
  match op with
  | "divrem" => some (res (ii <$> PrimDiv.divRem t a b), sp (ii (Int.tdiv a b, Int.tmod a b)))
  | "divremassign" => some (res (ii <$> PrimDiv.divRemAssign t a b), sp (ii (Int.tdiv a b, Int.tmod a b)))
  | "diveuclid" => some (res (intToHex <$> PrimDiv.divEuclid t a b), sp (intToHex (a / b)))
  | "remeuclid" => some (res (intToHex <$> PrimDiv.remEuclid t a b), sp (intToHex (a % b)))
  | "divremeuclid" => some (res (ii <$> PrimDiv.divRemEuclid t a b), sp (ii (a / b, a % b)))
  | _ => none

def hashStr (h : Nat) (s : String) : Nat :=
  let h := s.toUTF8.foldl (fun h b => (h * 257 + b.toNat) % ckMod) h
  (h * 257 + 10) % ckMod

def primDispatch (op : String) (args : List String) : Option String :=
  match op, args with
  | "p.sweep", [ty, o, a] => do
    let t ← primTy ty
    let a ← parseInt a
    if ¬ t.InRange a ∨ t.bits ≠ 8 then none
    let bs : List Int := if t.signed then (List.range 256).map (fun (i : Nat) => (i : Int) - 128)
                         else (List.range 256).map (fun (i : Nat) => (i : Int))
    let step (acc : Option (Nat × Nat)) (b : Int) : Option (Nat × Nat) := do
      let (hm, hs) ← acc
      let (m, s) ← primEval t o a b
      pure (hashStr hm m, hashStr hs s)
    let (hm, hs) ← bs.foldl step (some (0, 0))
    pure (chk ("ok " ++ natToHex hm) ("ok " ++ natToHex hs))
  | _, [ty, a, b] => do
    let t ← primTy ty
    let a ← parseInt a; let b ← parseInt b
    if ¬ t.InRange a ∨ ¬ t.InRange b then none
    let (m, s) ← primEval t (op.drop 2).toString a b
    pure (chk m s)
  | _, _ => none

def dispatch : Dispatch := fun W op args =>
  if op.startsWith "nm." then nmDispatch op args else
  if op.startsWith "p." then primDispatch op args else
  match op, args with
  -- ------------------------------------------------------------------ UBig
  | "u.div", [a, b] => do
    let x ← parseNat a; let y ← parseNat b
    let m := res (uStr W <$> divRepr W (ofNat W x) (ofNat W y))
    pure (chk m (if y = 0 then dbz else "ok " ++ natToHex (x / y)))
  | "u.diveuclid", [a, b] => do
    let x ← parseNat a; let y ← parseNat b
    let m := res (uStr W <$> divRepr W (ofNat W x) (ofNat W y))
    pure (chk m (if y = 0 then dbz else "ok " ++ natToHex (x / y)))
  | "u.rem", [a, b] => do
    let x ← parseNat a; let y ← parseNat b
    let m := res (uStr W <$> remRepr W (ofNat W x) (ofNat W y))
    pure (chk m (if y = 0 then dbz else "ok " ++ natToHex (x % y)))
  | "u.remeuclid", [a, b] => do
    let x ← parseNat a; let y ← parseNat b
    let m := res (uStr W <$> remRepr W (ofNat W x) (ofNat W y))
    pure (chk m (if y = 0 then dbz else "ok " ++ natToHex (x % y)))
  | "u.divrem", [a, b] => do
    let x ← parseNat a; let y ← parseNat b
    -- the harness also evaluates (&a / &b, &a % &b): all three dispatch paths
    let m1 := res (uu W <$> divRemRepr W (ofNat W x) (ofNat W y))
    let m2 := res (do
      let q ← divRepr W (ofNat W x) (ofNat W y)
      let r ← remRepr W (ofNat W x) (ofNat W y)
      pure (uStr W q ++ " " ++ uStr W r))
    pure (chk (same [m1, m2]) (if y = 0 then dbz else "ok " ++ natToHex (x / y) ++ " " ++ natToHex (x % y)))
  | "u.divremeuclid", [a, b] => do
    let x ← parseNat a; let y ← parseNat b
    let m := res (uu W <$> divRemRepr W (ofNat W x) (ofNat W y))
    pure (chk m (if y = 0 then dbz else "ok " ++ natToHex (x / y) ++ " " ++ natToHex (x % y)))
  | "u.ismultiple", [a, b] => do
    let x ← parseNat a; let y ← parseNat b
    let m := res (boolStr <$> ubigIsMultipleOf W (ofNat W x) (ofNat W y))
    pure (chk m (if y = 0 then dbz else "ok " ++ boolStr (x % y == 0)))
  | "u.ismultipleconst", [a, b] => do
    let x ← parseNat a; let y ← parseNat b
    if y ≥ 2 ^ (2 * W) then none
    let m := res (boolStr <$> isMultipleOfDword W (ofNat W x) y)
    pure (if y = 0 then m else chk m ("ok " ++ boolStr (x % y == 0)))
  -- ------------------------------------------------------------------ IBig
  | "i.div", [a, b] => do
    let x ← parseInt a; let y ← parseInt b
    let m := res (sStr W <$> ibigDiv W (sOfInt W x) (sOfInt W y))
    pure (chk m (if y = 0 then dbz else "ok " ++ intToHex (Int.tdiv x y)))
  | "i.rem", [a, b] => do
    let x ← parseInt a; let y ← parseInt b
    let m := res (sStr W <$> ibigRem W (sOfInt W x) (sOfInt W y))
    pure (chk m (if y = 0 then dbz else "ok " ++ intToHex (Int.tmod x y)))
  | "i.divrem", [a, b] => do
    let x ← parseInt a; let y ← parseInt b
    let m1 := res (ss W <$> ibigDivRem W (sOfInt W x) (sOfInt W y))
    let m2 := res (do
      let q ← ibigDiv W (sOfInt W x) (sOfInt W y)
      let r ← ibigRem W (sOfInt W x) (sOfInt W y)
      pure (sStr W q ++ " " ++ sStr W r))
    pure (chk (same [m1, m2])
      (if y = 0 then dbz else "ok " ++ intToHex (Int.tdiv x y) ++ " " ++ intToHex (Int.tmod x y)))
  | "i.diveuclid", [a, b] => do
    let x ← parseInt a; let y ← parseInt b
    let m := res (sStr W <$> ibigDivEuclid W (sOfInt W x) (sOfInt W y))
    pure (chk m (if y = 0 then dbz else "ok " ++ intToHex (x / y)))
  | "i.remeuclid", [a, b] => do
    let x ← parseInt a; let y ← parseInt b
    let m := same [res (uStr W <$> ibigRemEuclid W (sOfInt W x) (sOfInt W y) false),
                   res (uStr W <$> ibigRemEuclid W (sOfInt W x) (sOfInt W y) true)]
    pure (chk m (if y = 0 then dbz else "ok " ++ intToHex (x % y)))
  | "i.divremeuclid", [a, b] => do
    let x ← parseInt a; let y ← parseInt b
    let m := same [res (su W <$> ibigDivRemEuclid W (sOfInt W x) (sOfInt W y) false),
                   res (su W <$> ibigDivRemEuclid W (sOfInt W x) (sOfInt W y) true)]
    pure (chk m (if y = 0 then dbz else "ok " ++ intToHex (x / y) ++ " " ++ intToHex (x % y)))
  | "i.ismultiple", [a, b] => do
    let x ← parseInt a; let y ← parseInt b
    let m := res (boolStr <$> ibigIsMultipleOf W (sOfInt W x) (sOfInt W y))
    pure (chk m (if y = 0 then dbz else "ok " ++ boolStr (Int.tmod x y == 0)))
  | "i.ismultipleconst", [a, b] => do
    let x ← parseInt a; let y ← parseNat b
    if y ≥ 2 ^ (2 * W) then none
    let m := res (boolStr <$> isMultipleOfDword W (ofNat W x.natAbs) y)
    pure (if y = 0 then m else chk m ("ok " ++ boolStr (Int.tmod x y == 0)))
  -- ------------------------------------------------------------------ mixed
  | "ui.div", [a, b] => do
    let x ← parseNat a; let y ← parseInt b
    let m := res (sStr W <$> ibigDiv W ⟨false, ofNat W x⟩ (sOfInt W y))
    pure (chk m (if y = 0 then dbz else "ok " ++ intToHex (Int.tdiv x y)))
  | "ui.rem", [a, b] => do
    let x ← parseNat a; let y ← parseInt b
    let m := res (uStr W <$> ubigIbigRem W (ofNat W x) (sOfInt W y))
    pure (chk m (if y = 0 then dbz else "ok " ++ intToHex (Int.tmod x y)))
  | "ui.divrem", [a, b] => do
    let x ← parseNat a; let y ← parseInt b
    let m := res (su W <$> ubigIbigDivRem W (ofNat W x) (sOfInt W y))
    pure (chk m (if y = 0 then dbz else "ok " ++ intToHex (Int.tdiv x y) ++ " " ++ intToHex (Int.tmod x y)))
  | "iu.div", [a, b] => do
    let x ← parseInt a; let y ← parseNat b
    let m := res (sStr W <$> ibigDiv W (sOfInt W x) ⟨false, ofNat W y⟩)
    pure (chk m (if y = 0 then dbz else "ok " ++ intToHex (Int.tdiv x y)))
  | "iu.rem", [a, b] => do
    let x ← parseInt a; let y ← parseNat b
    let m := res (sStr W <$> ibigRem W (sOfInt W x) ⟨false, ofNat W y⟩)
    pure (chk m (if y = 0 then dbz else "ok " ++ intToHex (Int.tmod x y)))
  | "iu.divrem", [a, b] => do
    let x ← parseInt a; let y ← parseNat b
    let m := res (ss W <$> ibigDivRem W (sOfInt W x) ⟨false, ofNat W y⟩)
    pure (chk m (if y = 0 then dbz else "ok " ++ intToHex (Int.tdiv x y) ++ " " ++ intToHex (Int.tmod x y)))
  -- ------------------------------------------------------------------ ConstDivisor
  | "cd.value", [b] => do
    let y ← parseNat b
    let m := res (do let c ← ConstDiv.new W (ofNat W y); uStr W <$> c.value W)
    pure (chk m (if y = 0 then dbz else "ok " ++ natToHex y))
  | "cd.fromword", [b] => do
    let y ← parseNat b
    if y ≥ 2 ^ W then none
    let m := res (do let c ← ConstDiv.new W (ofNat W y); uStr W <$> c.value W)
    pure (chk m (if y = 0 then dbz else "ok " ++ natToHex y))
  | "cd.fromdword", [b] => do
    let y ← parseNat b
    if y ≥ 2 ^ (2 * W) then none
    let m := res (do let c ← ConstDiv.new W (ofNat W y); uStr W <$> c.value W)
    pure (chk m (if y = 0 then dbz else "ok " ++ natToHex y))
  | "u.cdiv", [a, b] => do
    let x ← parseNat a; let y ← parseNat b
    let m := res (do let c ← ConstDiv.new W (ofNat W y); uStr W <$> divConst W (ofNat W x) c)
    pure (chk m (if y = 0 then dbz else "ok " ++ natToHex (x / y)))
  | "u.crem", [a, b] => do
    let x ← parseNat a; let y ← parseNat b
    let m := res (do let c ← ConstDiv.new W (ofNat W y); uStr W <$> remConst W (ofNat W x) c)
    pure (chk m (if y = 0 then dbz else "ok " ++ natToHex (x % y)))
  | "u.cdivrem2", [a, b] => do
    let x ← parseNat a; let y ← parseNat b
    let m := res (do let c ← ConstDiv.new W (ofNat W y); uu W <$> divRemConst W (ofNat W x) c)
    pure (chk m (if y = 0 then dbz else "ok " ++ natToHex (x / y) ++ " " ++ natToHex (x % y)))
  | "u.cdivrem", [a, b] => do
    let x ← parseNat a; let y ← parseNat b
    let spec := if y = 0 then dbz else "ok " ++ natToHex (x / y) ++ " " ++ natToHex (x % y)
    let m1 := res (do let c ← ConstDiv.new W (ofNat W y); uu W <$> divRemConst W (ofNat W x) c)
    let m2 := res (do
      let c ← ConstDiv.new W (ofNat W y)
      let q ← divConst W (ofNat W x) c
      let r ← remConst W (ofNat W x) c
      pure (uStr W q ++ " " ++ uStr W r))
    let r1 := chk m1 spec
    let r2 := chk m2 spec
    pure (if r1 = spec then r2 else r1)
  | "i.cdiv", [a, b] => do
    let x ← parseInt a; let y ← parseNat b
    let m := res (do let c ← ConstDiv.new W (ofNat W y); sStr W <$> ibigDivConst W (sOfInt W x) c)
    pure (chk m (if y = 0 then dbz else "ok " ++ intToHex (Int.tdiv x y)))
  | "i.crem", [a, b] => do
    let x ← parseInt a; let y ← parseNat b
    let m := res (do let c ← ConstDiv.new W (ofNat W y); sStr W <$> ibigRemConst W (sOfInt W x) c)
    pure (chk m (if y = 0 then dbz else "ok " ++ intToHex (Int.tmod x y)))
  | "i.cdivrem2", [a, b] => do
    let x ← parseInt a; let y ← parseNat b
    let m := res (do let c ← ConstDiv.new W (ofNat W y); ss W <$> ibigDivRemConst W (sOfInt W x) c)
    pure (chk m (if y = 0 then dbz else "ok " ++ intToHex (Int.tdiv x y) ++ " " ++ intToHex (Int.tmod x y)))
  | "i.cdivrem", [a, b] => do
    let x ← parseInt a; let y ← parseNat b
    let spec := if y = 0 then dbz else "ok " ++ intToHex (Int.tdiv x y) ++ " " ++ intToHex (Int.tmod x y)
    let m1 := res (do let c ← ConstDiv.new W (ofNat W y); ss W <$> ibigDivRemConst W (sOfInt W x) c)
    let m2 := res (do
      let c ← ConstDiv.new W (ofNat W y)
      let q ← ibigDivConst W (sOfInt W x) c
      let r ← ibigRemConst W (sOfInt W x) c
      pure (sStr W q ++ " " ++ sStr W r))
    let r1 := chk m1 spec
    let r2 := chk m2 spec
    pure (if r1 = spec then r2 else r1)
  | _, _ => none

end Dashu.Driver.Div
