import Dashu.Driver.Loop
import Dashu.Model.Float.SoftF32
/-
  Driver side of the soft-float replica (`Model/Float/SoftF32.lean`): the `f32` estimates `log2_bounds`
  (`base/src/math/log.rs` std path, `integer/src/log.rs` `log2_bounds_large`) and the coarse test of `Round::round_fract`
  evaluated with INTEGER arithmetic (every `+`, `*`, `as f32` an exact result rounded to nearest-even); only `log2f` itself
  is taken from the compiled `Float32.log2` (libm).  `Driver/Float.lean` runs this beside the all-`Float32` replica
  `coarseF32` and reports any difference in a bit pattern or in the decision as `!model-soft-f32`.
-/
namespace Dashu.Driver.FloatSoft
open Dashu.Model.Float Dashu.Model.Float.SoftF32

def bitLen (n : Nat) : Nat := if n = 0 then 0 else n.log2 + 1

/-- libm `log2f` on a soft value (through the bit pattern) -/
def log2f (v : Val) : Option Val := do
  let b ← toBits v
  ofBits (Float32.ofBits b.toUInt32).log2.toBits.toNat

/-- `u128::log2_bounds` (std) for `0 < n < 2^128` -/
def log2BoundsSmall (n : Nat) : Option (Val × Val) :=
  let nbits := bitLen n
  if n == 2 ^ (nbits - 1) then
    let l := ofNat (nbits - 1); some (l, l)
  else if nbits ≤ 24 then do
    let l ← log2f (ofNat n)
    let lo ← nextDown l; let hi ← nextUp l
    pure (lo, hi)
  else do
    let shifted := ofNat (n >>> (nbits - 24))
    let lb ← log2f shifted
    let ub ← log2f (add shifted (ofNat 1))
    let sh := ofNat (nbits - 24)
    let lo ← nextDown (add lb sh); let hi ← nextUp (add ub sh)
    pure (lo, hi)

/-- `TypedReprRef::log2_bounds` (64-bit words) -/
def log2Bounds (n : Nat) : Option (Val × Val) :=
  if n < 2 ^ 128 then log2BoundsSmall n
  else do
    let len := (bitLen n + 63) / 64
    let hi := n >>> ((len - 2) * 64)
    let (hl, hu) ← log2BoundsSmall hi
    let rem := ofNat ((len - 2) * 64)
    let eps ← ofBits 0x34000000
    let adj := mul (ofNat 2) eps
    let one := ofNat 1
    let dn ← sub one adj
    pure (mul (add hl rem) dn, mul (add hu rem) (add one adj))

/-- the closure `test` of `round_fract`: decision and the bit patterns of `lb, ub, b_lb, b_ub, precision as f32` and of the
    four compared quantities -/
def coarse (B fmag k : Nat) : Option (Option Ordering × List Nat) := do
  let (lb, ub) ← log2Bounds fmag
  let (blb, bub) ← log2Bounds B
  let kf := ofNat k
  let c999 := rne 999 1000
  let c1001 := rne 1001 1000
  let p1 := mul bub kf; let s1 := add lb c999
  let s2 := add ub c1001; let p2 := mul blb kf
  let bits ← [lb, ub, blb, bub, kf, p1, s1, s2, p2].mapM toBits
  let dec := if lt p1 s1 then some Ordering.gt else if lt s2 p2 then some Ordering.lt else none
  pure (dec, bits)

/-! ### `s32.*`: one IEEE operation per case — the machine (`harness/src/ops_f32.rs`) against the soft-float model; the
    compiled `Float32` operation is evaluated beside it as the "specification" (a difference is `!model-spec-mismatch`) -/

open Dashu.IO Dashu.Driver in
def parseLiteral (t : String) : Option (Nat × Nat) := do
  -- <digits>[.<digits>][e[-]<digits>]
  let (mant, ex) ← match t.splitOn "e" with
    | [m] => some (m, (0 : Int))
    | [m, e] => do let v ← e.toInt?; some (m, v)
    | _ => none
  let (ip, fp) ← match mant.splitOn "." with
    | [i] => some (i, "")
    | [i, f] => some (i, f)
    | _ => none
  if ip.isEmpty then none
  let n ← (ip ++ fp).toNat?
  let sc : Int := ex - (fp.length : Int)
  if 0 ≤ sc then some (n * 10 ^ sc.toNat, 1) else some (n, 10 ^ (-sc).toNat)

/-! ### `s32.sweep`: the hypothesis (LIBM) checked on EVERY integer of a range — libm's `log2f` against a rigorous enclosure
    of `log₂ m` computed in integer arithmetic (40 fractional bits by interval squaring in 62-bit fixed point) -/

/-- one squaring step on the enclosure `[a, b]·2⁻⁶²` of `x ∈ [1, 2)`: `some (bit, a', b')`, or `none` if `x²` straddles 2 -/
def sqStep (a b : Nat) : Option (Nat × Nat × Nat) :=
  let a2 := (a * a) >>> 62
  let b2 := (b * b + (1 <<< 62) - 1) >>> 62
  if a2 ≥ 1 <<< 63 then some (1, a2 >>> 1, (b2 + 1) >>> 1)
  else if b2 < 1 <<< 63 then some (0, a2, b2)
  else none

/-- enclosure `[lo, hi]` of `log₂ m · 2⁴⁰` for `m ≥ 1` -/
def log2Enclosure (m : Nat) : Nat × Nat :=
  let e := m.log2
  let a0 := m <<< (62 - e)
  let rec go (i : Nat) (a b frac : Nat) (fuel : Nat) : Nat × Nat × Nat × Nat :=   -- (known, frac, a, b)
    match fuel with
    | 0 => (i, frac, a, b)
    | fuel + 1 =>
      match sqStep a b with
      | some (bit, a', b') => go (i + 1) a' b' (frac * 2 + bit) fuel
      | none => (i, frac, a, b)
  let (known, frac, a, b) := go 0 a0 a0 0 40
  let lo := (e <<< 40) + (frac <<< (40 - known))
  let hi := if a == b && known == 40 && a == 1 <<< 62 then lo else lo + (1 <<< (40 - known))
  (lo, hi)

/-- `next_down(log2f m) ≤ log₂ m ≤ next_up(log2f m)` confirmed by the enclosure, and `log2f m ∈ [16, 32)` for `2²³ < m ≤ 2²⁴` -/
def log2fOk (m bits : Nat) : Bool :=
  if m == 1 then bits == 0
  else
    let be := bits >>> 23
    if bits ≥ 0x80000000 || be < 127 || be > 254 then false
    else
      let er := be - 127
      if m > 1 <<< 23 && er != 4 then false
      else
        let mant := 0x800000 ||| (bits &&& 0x7fffff)
        let sh := er + 17
        let up := (mant + 1) <<< sh
        let down := if mant == 0x800000 then (2 * mant - 1) <<< (sh - 1) else (mant - 1) <<< sh
        let (lo, hi) := log2Enclosure m
        decide (down ≤ lo) && decide (hi ≤ up)

def sweep (lo hi : Nat) : Nat × Nat := Id.run do
  let mut sum : UInt64 := 0
  let mut viol : Nat := 0
  for m in [lo:hi] do
    let bits := (Float32.ofNat m).log2.toBits
    sum := sum * 31 + bits.toUInt64
    if !log2fOk m bits.toNat then viol := viol + 1
  return (sum.toNat, viol)

open Dashu.IO Dashu.Driver in
def dispatch : Dispatch := fun _W op args =>
  let outB (v : Val) : Option String := do let b ← toBits v; pure ("d:" ++ toString b)
  let nat (f : Float32) : String := "d:" ++ toString f.toBits.toNat
  let fin (model : String) (spec : String) : String :=
    if model == spec then ok model else ok model ++ " !model-spec-mismatch native=" ++ spec
  let f32 (b : Nat) : Float32 := Float32.ofBits b.toUInt32
  match op, args with
  | "s32.add", [a, b] => do
    let x ← parseDecNat a; let y ← parseDecNat b; let vx ← ofBits x; let vy ← ofBits y
    let r ← outB (add vx vy); pure (fin r (nat (f32 x + f32 y)))
  | "s32.sub", [a, b] => do
    let x ← parseDecNat a; let y ← parseDecNat b; let vx ← ofBits x; let vy ← ofBits y
    let d ← sub vx vy
    let r ← outB d; pure (fin r (nat (f32 x - f32 y)))
  | "s32.mul", [a, b] => do
    let x ← parseDecNat a; let y ← parseDecNat b; let vx ← ofBits x; let vy ← ofBits y
    let r ← outB (mul vx vy); pure (fin r (nat (f32 x * f32 y)))
  | "s32.div", [a, b] => do
    let x ← parseDecNat a; let y ← parseDecNat b; let vx ← ofBits x; let vy ← ofBits y
    let d ← div vx vy
    let r ← outB d; pure (fin r (nat (f32 x / f32 y)))
  | "s32.ofnat", [a] => do
    let n ← parseNat a
    if n ≥ 2 ^ 127 then none
    let r ← outB (ofNat n)
    -- the compiled conversion exists for 64-bit operands only
    pure (if n < 2 ^ 64 then fin r (nat n.toUInt64.toFloat32) else ok r)
  | "s32.dec", [a] => do
    let bs ← parseBytes a
    let t := String.ofList (bs.map fun b => Char.ofNat b.toNat)
    let (num, den) ← parseLiteral t
    let r ← outB (rne num den); pure (ok r)
  | "s32.nextup", [a] => do
    let x ← parseDecNat a; let vx ← ofBits x
    let u ← nextUp vx
    let r ← outB u; pure (fin r ("d:" ++ toString (x + 1)))
  | "s32.nextdown", [a] => do
    let x ← parseDecNat a; let vx ← ofBits x
    let u ← nextDown vx
    let r ← outB u; pure (fin r ("d:" ++ toString (x - 1)))
  | "s32.log2", [a] => do
    -- libm on both sides (no model of `log2f`): same glibc, compared bit for bit
    let x ← parseDecNat a
    pure (ok (nat (f32 x).log2))
  | "s32.sweep", [a, b] => do
    let lo ← parseDecNat a; let hi ← parseDecNat b
    if lo < 1 ∨ hi > 2 ^ 24 + 1 ∨ lo > hi then none
    let (sum, viol) := sweep lo hi
    let s := ok (natToHex sum ++ " d:" ++ toString viol)
    -- a non-zero count refutes the hypothesis (LIBM) on this machine: the enclosure contract of `log2_bounds` is then not met
    pure (if viol = 0 then s else s ++ " !model-spec-mismatch libm-log2f-hypothesis-refuted-on-" ++ toString viol ++ "-integers")
  | "s32.l2b", [a] => do
    let n ← parseNat a
    if n = 0 then none
    let (lb, ub) ← log2Bounds n
    let l ← outB lb; let u ← outB ub
    pure (ok (l ++ " " ++ u))
  | _, _ => none

end Dashu.Driver.FloatSoft
