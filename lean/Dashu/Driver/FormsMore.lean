import Dashu.Driver.Loop
import Dashu.Model.Forms.Float
import Dashu.Model.Ratio.Spec
import Dashu.Model.Ratio.Prog
/-
  Driver of group `forms`, second part (C15 round 5): the VALUE every call form of a dashu-ratio / dashu-float operator
  has to return (`rform`, `fform`, `fold z2|h10`).  Until round 4 the driver answered `agree` for these ops.

  Rationals: the mirrored model of C04 (`Model/Ratio`: `evalBin` = the `$impl!` macro cores of rational/src/{add,mul,div}.rs,
  `evalIntR/evalIntL` = the integer-operand rules) is run on the operands as the harness builds them
  (`RBig::from_parts` / `Relaxed::from_parts`); beside it the `Rat` specification (`Model/Ratio/Spec`) is evaluated
  (` !model-spec-mismatch` if they differ) and, for integer-valued operands, the integer-operand rule must give the same
  number as the rational rule (` !model-forms-disagree`).  Results are printed by canonical value like the harness does.

  Floats: `Model/Forms/Float.lean` on top of the float model of C03/C10; the estimators are the bit-exact `f32` replicas
  below (same text as `Driver/Float.lean`; copied so that group `forms` links without the float group's driver).
-/
namespace Dashu.Driver.FormsMore
open Dashu.IO Dashu.Model Dashu.Driver Dashu.Model.Float Dashu.Model.Forms

/-! ### bit-exact replica of the `f32` estimates (see `Driver/Float.lean` for the commentary) -/

def nextUp (f : Float32) : Float32 :=
  let bits := f.toBits
  let abs := bits &&& 0x7fffffff
  Float32.ofBits (if abs == 0 then 1 else if bits == abs then bits + 1 else bits - 1)

def nextDown (f : Float32) : Float32 :=
  let bits := f.toBits
  let abs := bits &&& 0x7fffffff
  Float32.ofBits (if abs == 0 then 0x80000001 else if bits == abs then bits - 1 else bits + 1)

def bitLen (n : Nat) : Nat := if n = 0 then 0 else n.log2 + 1

def log2BoundsSmall (n : Nat) : Float32 × Float32 :=
  let nbits := bitLen n
  if n == 2 ^ (nbits - 1) then
    let l := Float32.ofNat (nbits - 1); (l, l)
  else if nbits ≤ 24 then
    let l := (Float32.ofNat n).log2; (nextDown l, nextUp l)
  else
    let shifted := Float32.ofNat (n >>> (nbits - 24))
    let lb := shifted.log2
    let ub := (shifted + 1).log2
    let sh := Float32.ofNat (nbits - 24)
    (nextDown (lb + sh), nextUp (ub + sh))

def log2Bounds (n : Nat) : Float32 × Float32 :=
  if n < 2 ^ 128 then log2BoundsSmall n
  else
    let len := (bitLen n + 63) / 64
    let hi := n >>> ((len - 2) * 64)
    let (hl, hu) := log2BoundsSmall hi
    let rem := Float32.ofNat ((len - 2) * 64)
    let adj : Float32 := 2 * Float32.ofBits 0x34000000
    ((hl + rem) * (1 - adj), (hu + rem) * (1 + adj))

def log10_2 : Float32 := Float32.ofBits 1050288283

def dubF32 (B : Nat) (v : Int) : Nat :=
  let n := v.natAbs
  if n = 0 then 0
  else
    let ub := (log2Bounds n).2
    let log := if B = 2 then ub else if B = 10 then ub * log10_2 else ub / (log2Bounds B).1
    log.toUInt64.toNat + 1

def dlbF32 (B : Nat) (v : Int) : Nat :=
  let n := v.natAbs
  if n = 0 then 0
  else
    let lb := (log2Bounds n).1
    let log := if B = 2 then lb else if B = 10 then lb * log10_2 else lb / (log2Bounds B).2
    log.toUInt64.toNat

def est (B : Nat) : Est := ⟨dubF32 B, dlbF32 B⟩

/-- the enclosure hypotheses of the estimators, checked exactly on a significand -/
def estSound (B : Nat) (v : Int) : Bool := decide (dlbF32 B v ≤ digitsI B v ∧ digitsI B v ≤ dubF32 B v)

/-! ### floats -/

/-- the two instantiations of the generated float table -/
def parseInst : String → Option (Nat × Mode)
  | "z2" => some (2, .zero)
  | "h10" => some (10, .halfAway)
  | _ => none

inductive Arg where
  | flt (x : FOp)
  | int (n : Int)

/-- `f:<hex signif>:<dec exp>:<dec prec>` is built as `FBig::from_parts(m, e).with_precision(p).value()`;
    `n:<hex>` as `FBig::from(n)`; `inf:±:<prec>` is an infinity with that context -/
def parseArg (B : Nat) (m : Mode) (s : String) : Option Arg :=
  match s.splitOn ":" with
  | ["f", sg, e, p] => do
    let sg ← parseInt sg; let e ← e.toInt?; let p ← p.toNat?
    pure (.flt (.fin (fWithPrecision B m coarseNone (fromParts B sg e) p).1))
  | ["n", n] => do pure (.int (← parseInt n))
  | ["inf", sg, p] => do
    let p ← p.toNat?
    if sg == "+" then pure (.flt (.inf false p)) else if sg == "-" then pure (.flt (.inf true p)) else none
  | _ => none

def Arg.op (B : Nat) : Arg → FOp
  | .flt x => x
  | .int n => .fin (fromInt B n)

def fbigStr (x : FBigM) : String := intToHex x.repr.signif ++ "e" ++ toString x.repr.exp ++ "p" ++ toString x.prec

def resStr : Except String FRes → String
  | .ok (.f x) => ok (fbigStr x)
  | .ok (.i q) => ok (intToHex q)
  | .ok (.qf q x) => ok (intToHex q ++ " " ++ fbigStr x)
  | .error k => Dashu.Driver.panic k

def estTag (B : Nat) (xs : List FOp) (s : String) : String :=
  let bad := xs.any fun
    | .fin x => !estSound B x.repr.signif
    | .inf _ _ => false
  if bad then s ++ " !est-hypothesis-failed" else s

/-- `fform <inst> <family> <FF|FN|NF|FS> A B [d:shift]` -/
def fform (inst fam shape : String) (a b : String) (shift : Option String) : Option String := do
  let (B, m) ← parseInst inst
  let x ← parseArg B m a
  let y ← parseArg B m b
  match shape with
  | "FF" =>
    -- both operands are floats (or infinities); the group holds the operator forms and, for + - * / %, the Context
    -- method at Context::max.  Required: ONE common answer.  Where the mirrored operator body and the mirrored Context
    -- method differ (two recorded findings) the required answer is the one the contract of C03 gives — never the
    -- defect's: `*` the operators' single rounding (Context::mul pre-shrinks: double rounding); `/` the Context
    -- method's value where the operators trip repr_div's assertion.  Such lines are annotated `#ctx-differs`.
    -- (`+ -`: until /repo 164990d a zero operand made the operators return the other operand unrounded and the Context
    -- method's value was printed; the repaired operators round, `opBin = ctxBin` for add/sub is the theorem
    -- `C15Values.operator_eq_context_addsub_table`, and the operators' value is printed like everywhere else.)
    let (.flt xa) := x | none
    let (.flt yb) := y | none
    let r ← withFinite xa yb (opBin B m (est B) fam)
    let c := withFinite xa yb (ctxBin B m (est B) fam)
    let r' := match r, c with
      | .error k, some (.ok v) => if k == kDivAssert then .ok v else r
      | .error k, some (.error k') => if k == kDivAssert then .error k' else r
      | _, _ => r
    let s := resStr r'
    let s := match c with
      | some cv => if resStr cv == resStr r then s else s ++ " #ctx-differs"
      | none => s
    pure (estTag B [xa, yb] s)
  | "FN" =>
    let (.flt xa) := x | none
    let (.int _) := y | none
    let yb := y.op B
    let r ← withFinite xa yb (opBin B m (est B) fam)
    pure (estTag B [xa, yb] (resStr r))
  | "NF" =>
    let (.int _) := x | none
    let (.flt yb) := y | none
    let xa := x.op B
    let r ← withFinite xa yb (opBin B m (est B) fam)
    pure (estTag B [xa, yb] (resStr r))
  | "FS" =>
    let (.flt xa) := x | none
    let n ← parseDec (← shift)
    if n < isizeMin ∨ n > isizeMax then none
    match xa with
    | .inf _ _ => pure (Dashu.Driver.panic kInfinite)
    | .fin v =>
      match fam with
      | "shl" => pure (resStr ((fShl v n).map .f))
      | "shr" => pure (resStr ((fShr v n).map .f))
      | _ => none
  | _ => none

/-- `fold z2|h10 sum|product item…` -/
def ffold (inst kind : String) (items : List String) : Option String := do
  let (B, m) ← parseInst inst
  let sum ← (if kind == "sum" then some true else if kind == "product" then some false else none)
  let xs ← items.mapM (parseArg B m)
  let ops := xs.map (Arg.op B)
  pure (estTag B ops (resStr ((fFold B m (est B) sum ops).map .f)))

/-! ### rationals -/

open Dashu.Model.Ratio in
def showRat (v : Rat) : String := intToHex v.num ++ "/" ++ natToHex v.den

open Dashu.Model.Ratio in
/-- `rform <family> <R|X> na da nb db` -/
def rform (fam q : String) (na : Int) (da : Nat) (nb : Int) (db : Nat) : Option String := do
  let k ← (match q with | "R" => some Kind.R | "X" => some Kind.X | _ => none)
  if da = 0 ∨ db = 0 then none
  let mk := fun (n : Int) (d : Nat) => match k with | .R => rFromParts n d | .X => xFromParts n d
  match mk na da, mk nb db with
  | .ok x, .ok y =>
    let vx : Rat := (na : Rat) / (da : Rat)
    let vy : Rat := (nb : Rat) / (db : Rat)
    let mism := fun (s why : String) => s ++ " !model-spec-mismatch " ++ why
    let pk := fun (e : PanicKind) => if vy = 0 ∧ e = .divideByZero then Dashu.Driver.panic e.name
        else mism (Dashu.Driver.panic e.name) "spec=value"
    let binCase := fun (o : Bin) (io : Option IntOp) =>
      match evalBin o k x y, Spec.bin o vx vy with
      | .ok r, some v =>
        let s := ok (showRat r.val)
        let s := if r.val = v ∧ r.den ≠ 0 ∧ decide (Reg.Inv ⟨k, r⟩) then s else mism s ("spec=" ++ showRat v)
        -- the integer-operand rules of the helper macros, on integer-valued operands, must denote the same number
        let viaR : Bool := match io with
          | some i => if db = 1 then (match evalIntR i k x nb with | .ok r2 => r2.val == v | .error _ => false) else true
          | none => true
        let viaL : Bool := match io with
          | some i => if da = 1 then (match evalIntL i k na y with | .ok r2 => r2.val == v | .error _ => false) else true
          | none => true
        if viaR ∧ viaL then s else s ++ " !model-forms-disagree int-rule"
      | .ok r, none => mism (ok (showRat r.val)) "spec=panic"
      | .error e, none => pk e
      | .error e, some _ => mism (Dashu.Driver.panic e.name) "spec=value"
    match fam with
    | "add" => pure (binCase .add (some .add))
    | "sub" => pure (binCase .sub (some .sub))
    | "mul" => pure (binCase .mul (some .mul))
    | "div" => pure (binCase .div (some .div))
    | "rem" => pure (binCase .rem none)
    | "remeuclid" => pure (binCase .remEuclid none)
    | "diveuclid" =>
      match R.divEuclid x y with
      | .ok qv => pure (if vy ≠ 0 ∧ qv = Spec.divEuclid vx vy then ok (intToHex qv) else mism (ok (intToHex qv)) "diveuclid")
      | .error e => pure (pk e)
    | "divremeuclid" =>
      let r := match k with | .R => R.divRemEuclid x y | .X => X.divRemEuclid x y
      match r with
      | .ok (qv, rr) =>
        let s := ok (intToHex qv ++ " " ++ showRat rr.val)
        -- the trait-method form: the pair = (div_euclid, rem_euclid)
        let same : Bool := (match R.divEuclid x y with | .ok q2 => q2 == qv | _ => false) &&
          (match evalBin .remEuclid k x y with | .ok r2 => r2.val == rr.val | _ => false)
        let s := if same then s else s ++ " !model-forms-disagree divrem"
        pure (if vy ≠ 0 ∧ qv = Spec.divEuclid vx vy ∧ rr.val = Spec.remEuclid vx vy then s else mism s "divremeuclid")
      | .error e => pure (pk e)
    | _ => none
  | .error e, _ => pure (Dashu.Driver.panic e.name)
  | _, .error e => pure (Dashu.Driver.panic e.name)

end Dashu.Driver.FormsMore
