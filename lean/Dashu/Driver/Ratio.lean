import Dashu.Driver.Loop
import Dashu.Model.Ratio.Spec
import Dashu.Model.Ratio.Simplify
import Dashu.Gen.Misc
/-
  Driver of group `ratio` (C04, C18): runs the mirrored model; beside every result it evaluates the
  specification in core `Rat` arithmetic (`Model/Ratio/Spec.lean`) and the representation
  invariant of the result's type, and appends ` !model-spec-mismatch` if they differ.
-/
namespace Dashu.Driver.Ratio
open Dashu.IO Dashu.Model Dashu.Model.Ratio Dashu.Driver

def showQ (q : Q) : String := intToHex q.num ++ "/" ++ natToHex q.den

def parseKind : String → Option Kind
  | "R" => some .R
  | "X" => some .X
  | _ => none

def parseParts (s : String) : Option (Int × Nat × Kind) :=
  match s.splitOn ":" with
  | ["q", frac, k] =>
    match frac.splitOn "/" with
    | [n, d] => do
      let n ← parseInt n; let d ← parseNat d; let k ← parseKind k
      pure (n, d, k)
    | _ => none
  | _ => none

def mkReg (p : Int × Nat × Kind) : Except PanicKind Reg :=
  match p.2.2 with
  | .R => (rFromParts p.1 p.2.1).map (Reg.mk .R)
  | .X => (xFromParts p.1 p.2.1).map (Reg.mk .X)

def parseZ (s : String) : Option Int :=
  if s.startsWith "i:" then parseInt (s.drop 2).toString
  else if s.startsWith "u:" then (fun n : Nat => (n : Int)) <$> parseNat (s.drop 2).toString
  else none

def parseSign : String → Option Bool
  | "+" => some false
  | "-" => some true
  | _ => none

def parseBin : String → Option Bin
  | "add" => some .add | "sub" => some .sub | "mul" => some .mul | "div" => some .div
  | "rem" => some .rem | "remeuclid" => some .remEuclid
  | _ => none

def parseUn : String → Option Un
  | "neg" => some .neg | "abs" => some .abs | "inv" => some .inv | "sqr" => some .sqr
  | "cubic" => some .cubic | "signum" => some .signum | "fract" => some .fract
  | "relax" => some .relax | "canon" => some .canon
  | _ => none

def parseIntOp : String → Option IntOp
  | "add" => some .add | "sub" => some .sub | "mul" => some .mul | "div" => some .div
  | _ => none

/-- `op,arg,arg` -/
def parseStep (tok : String) : Option Op :=
  match tok.splitOn "," with
  | [op, a, b] =>
    if op = "pow" then do pure (.pow (← a.toNat?) (← b.toNat?))
    else if op = "mulsign" then do pure (.mulSign (← a.toNat?) (← parseSign b))
    else if op.endsWith "z" ∧ (parseIntOp (op.dropEnd 1).toString).isSome then do
      pure (.intR (← parseIntOp (op.dropEnd 1).toString) (← a.toNat?) (← parseZ b))
    else if op.startsWith "z" ∧ (parseIntOp (op.drop 1).toString).isSome then do
      pure (.intL (← parseIntOp (op.drop 1).toString) (← parseZ a) (← b.toNat?))
    else do pure (.bin (← parseBin op) (← a.toNat?) (← b.toNat?))
  | [op, a] => do pure (.un (← parseUn op) (← a.toNat?))
  | _ => none

def mismatch (s : String) (why : String) : String := s ++ " !model-spec-mismatch " ++ why

/-- a register result beside its specification -/
def regOk (r : Reg) (v : Rat) : Bool :=
  decide r.Inv && r.q.den != 0 && r.val == v &&
    (match r.kind with
     | .R => r.q.num == v.num && r.q.den == v.den
     | .X => true)

def chkReg (m : Except PanicKind Reg) (spec : Option Rat) : String :=
  match m, spec with
  | .ok r, some v =>
    let s := ok (showQ r.q)
    if regOk r v then s else mismatch s ("spec=" ++ intToHex v.num ++ "/" ++ natToHex v.den)
  | .ok r, none => mismatch (ok (showQ r.q)) "spec=panic"
  | .error k, none =>
    if k = .divideByZero then panic k.name else mismatch (panic k.name) "spec=panic-DivideByZero"
  | .error k, some v => mismatch (panic k.name) ("spec=" ++ intToHex v.num ++ "/" ++ natToHex v.den)

def chkInt (m : Except PanicKind Int) (spec : Option Int) : String :=
  match m, spec with
  | .ok r, some v => if r = v then ok (intToHex r) else mismatch (ok (intToHex r)) ("spec=" ++ intToHex v)
  | .ok r, none => mismatch (ok (intToHex r)) "spec=panic"
  | .error k, none =>
    if k = .divideByZero then panic k.name else mismatch (panic k.name) "spec=panic-DivideByZero"
  | .error k, some v => mismatch (panic k.name) ("spec=" ++ intToHex v)

def stepToExcept : StepRes → Option (Except PanicKind Reg)
  | .ok r => some (.ok r)
  | .panic k => some (.error k)
  | .bad => none

/-- check a finished run against the value-level specification, step by step -/
def checkRun (final : List Reg) (stop : Stop) : List Op → Nat → Bool
  | [], n => final.length == n && (match stop with | .done => true | _ => false)
  | op :: rest, n =>
    let vals := (final.take n).map Reg.val
    match Spec.step vals op with
    | some v =>
      match final[n]? with
      | some r => regOk r v && checkRun final stop rest (n + 1)
      | none => false
    | none =>
      final.length == n && (match stop with | .panic k => k = .divideByZero | _ => false)

/-- run single op `o` on constructed operands through the same `step` the programs use -/
def single (regs : List (Int × Nat × Kind)) (op : Op) : Option String := do
  -- constructing an operand may itself panic (zero denominator)
  let rec build : List (Int × Nat × Kind) → Except PanicKind (List Reg)
    | [] => .ok []
    | p :: ps => do let r ← mkReg p; let rs ← build ps; pure (r :: rs)
  match build regs with
  | .error k => some (panic k.name)
  | .ok env =>
    let m ← stepToExcept (step env op)
    some (chkReg m (Spec.step (env.map Reg.val) op))

def dispatch : Dispatch := fun _W op args =>
  if op = "prog" then do
    -- registers up to ";", then steps
    let inits := args.takeWhile (· ≠ ";")
    let rest := args.dropWhile (· ≠ ";")
    if rest.isEmpty then none
    let steps ← (rest.drop 1).mapM parseStep
    let parts ← inits.mapM parseParts
    -- build the initial register file; a panic in a constructor ends the line
    let rec build : List (Int × Nat × Kind) → List Reg → List Reg × Option PanicKind
      | [], acc => (acc, none)
      | p :: ps, acc => match mkReg p with
        | .ok r => build ps (acc ++ [r])
        | .error k => (acc, some k)
    let (env0, pk) := build parts []
    match pk with
    | some k => some (ok (" ".intercalate (env0.map (showQ ·.q) ++ ["panic:" ++ k.name])))
    | none =>
      let initOk := (List.zip env0 parts).all fun (r, p) =>
        p.2.1 != 0 && regOk r ((p.1 : Rat) / (p.2.1 : Rat))
      let (final, stop) := run steps env0
      let toks := final.map (showQ ·.q)
      match stop with
      | .bad => none
      | .done | .panic _ =>
        let toks := match stop with
          | .panic k => toks ++ ["panic:" ++ k.name]
          | _ => toks
        let s := ok (" ".intercalate toks)
        if initOk && checkRun final stop steps env0.length then some s
        else some (mismatch s "program-values")
  else if op.startsWith "q." then
    let o := (op.drop 2).toString
    match o, args with
    | "fromparts", [n, d, k] => do
      let n ← parseInt n; let d ← parseNat d; let k ← parseKind k
      pure (chkReg (mkReg (n, d, k)) (if d = 0 then none else some ((n : Rat) / (d : Rat))))
    | "frompartssigned", [n, d, k] => do
      let n ← parseInt n; let d ← parseInt d; let k ← parseKind k
      let m := match k with
        | .R => (rFromPartsSigned n d).map (Reg.mk .R)
        | .X => (xFromPartsSigned n d).map (Reg.mk .X)
      pure (chkReg m (if d = 0 then none else some ((n : Rat) / (d : Rat))))
    | "frompartsconst", [s, n, d, k] => do
      let s ← parseSign s; let n ← parseNat n; let d ← parseNat d; let k ← parseKind k
      if n ≥ 2 ^ 128 ∨ d ≥ 2 ^ 128 then none
      let m := match k with
        | .R => (rFromPartsConst s n d).map (Reg.mk .R)
        | .X => (xFromPartsConst s n d).map (Reg.mk .X)
      let v : Rat := (n : Rat) / (d : Rat)
      pure (chkReg m (if d = 0 then none else some (if s then -v else v)))
    | "pow", [a, n] => do
      let a ← parseParts a; let n ← parseDecNat n
      single [a] (.pow 0 n)
    | "mulsign", [a, s] => do
      let a ← parseParts a; let s ← parseSign s
      single [a] (.mulSign 0 s)
    | "diveuclid", [a, b] => do
      let a ← parseParts a; let b ← parseParts b
      if a.2.2 ≠ b.2.2 then none
      match mkReg a, mkReg b with
      | .ok x, .ok y =>
        pure (chkInt (R.divEuclid x.q y.q) (if y.val = 0 then none else some (Spec.divEuclid x.val y.val)))
      | .error k, _ => pure (panic k.name)
      | _, .error k => pure (panic k.name)
    | "divremeuclid", [a, b] => do
      let a ← parseParts a; let b ← parseParts b
      if a.2.2 ≠ b.2.2 then none
      match mkReg a, mkReg b with
      | .ok x, .ok y =>
        let m := match x.kind with
          | .R => R.divRemEuclid x.q y.q
          | .X => X.divRemEuclid x.q y.q
        let specOk : Bool := match m with
          | .ok (q, r) => y.val != 0 && q == Spec.divEuclid x.val y.val &&
              regOk ⟨x.kind, r⟩ (Spec.remEuclid x.val y.val)
          | .error k => y.val == 0 && k == .divideByZero
        let s := match m with
          | .ok (q, r) => ok (intToHex q ++ " " ++ showQ r)
          | .error k => panic k.name
        pure (if specOk then s else mismatch s "diveuclid")
      | .error k, _ => pure (panic k.name)
      | _, .error k => pure (panic k.name)
    | "split", [a] => do
      let a ← parseParts a
      match mkReg a with
      | .ok x =>
        let m := splitAtPoint x.q
        let specOk : Bool := match m with
          | .ok (t, r) => t == Spec.trunc x.val && regOk ⟨x.kind, r⟩ (x.val - (Spec.trunc x.val : Rat))
          | .error _ => false
        let s := match m with
          | .ok (t, r) => ok (intToHex t ++ " " ++ showQ r)
          | .error k => panic k.name
        pure (if specOk then s else mismatch s "split")
      | .error k => pure (panic k.name)
    | io, [a] => do
      let p ← parseParts a
      match io with
      | "trunc" | "floor" | "ceil" | "round" =>
        match mkReg p with
        | .ok x =>
          let (m, sp) : Except PanicKind Int × Int := match io with
            | "trunc" => (trunc x.q, Spec.trunc x.val)
            | "floor" => (floor x.q, x.val.floor)
            | "ceil" => (ceil x.q, x.val.ceil)
            | _ => (round x.q, Spec.round x.val)
          pure (chkInt m (some sp))
        | .error k => pure (panic k.name)
      | _ => single [p] (.un (← parseUn io) 0)
    | bo, [a, b] =>
      if bo.endsWith "z" ∧ (parseIntOp (bo.dropEnd 1).toString).isSome then do
        let p ← parseParts a; let z ← parseZ b
        single [p] (.intR (← parseIntOp (bo.dropEnd 1).toString) 0 z)
      else if bo.startsWith "z" ∧ (parseIntOp (bo.drop 1).toString).isSome then do
        let z ← parseZ a; let p ← parseParts b
        single [p] (.intL (← parseIntOp (bo.drop 1).toString) z 0)
      else do
        let p ← parseParts a; let q ← parseParts b
        single [p, q] (.bin (← parseBin bo) 0 1)
    | _, _ => none
  else if op.startsWith "rx." then
    match args with
    | [a, b] => do
      let o ← parseBin (op.drop 3).toString
      let (n1, d1, _) ← parseParts a
      let (n2, d2, _) ← parseParts b
      match rFromParts n1 d1, rFromParts n2 d2, xFromParts n1 d1, xFromParts n2 d2 with
      | .ok ra, .ok rb, .ok xa, .ok xb =>
        let r := evalBin o .R ra rb
        let x := evalBin o .X xa xb
        match r, x with
        | .ok r, .ok x =>
          match reduce x with
          | .ok c =>
            let s := ok (showQ r ++ " " ++ showQ x ++ " " ++ showQ c)
            pure (if r.val == x.val && c == r then s else mismatch s "relaxed-differs-from-rbig")
          | .error k => pure (panic k.name)
        | .error k1, .error k2 =>
          pure (if k1 = k2 then panic k1.name else mismatch (panic k1.name) "relaxed-differs-from-rbig")
        | .ok r, .error k => pure (mismatch (ok (showQ r)) ("relaxed-panics-" ++ k.name))
        | .error k, .ok x => pure (mismatch (ok (showQ x)) ("rbig-panics-" ++ k.name))
      | _, _, _, _ => pure (panic "DivideByZero")
    | _ => none
  else none

end Dashu.Driver.Ratio

/-! ### C18: rational approximation (`s.*` ops) -/
namespace Dashu.Driver.Ratio
open Dashu.IO Dashu.Model Dashu.Model.Ratio Dashu.Driver

def ratStr (v : Rat) : String := intToHex v.num ++ "/" ++ natToHex v.den

/-- brute-force oracle for `simplest_in` on `lo < hi`: scan denominators `1, 2, …, bound`; for each
    the candidate numerator of least magnitude strictly inside; the first hit is the simplest -/
def bruteSimplest (lo hi : Rat) (bound : Nat) : Option Rat := Id.run do
  if lo < 0 ∧ 0 < hi then return some 0
  for s in [1:bound + 1] do
    -- least |p| with lo < p/s < hi
    let p : Int := if 0 ≤ lo then (lo * s).floor + 1 else (hi * s).ceil - 1
    let v : Rat := (p : Rat) / (s : Rat)
    if lo < v ∧ v < hi then return some v
  return none

/-- independent rounding of a rational to the nearest float, ties to even: bit pattern -/
def roundToFloat (eb mb : Nat) (r : Rat) : Nat :=
  let bias : Int := 2 ^ (eb - 1) - 1
  let minExp : Int := 1 - bias - mb
  let signBit : Nat := if r < 0 then 2 ^ (eb + mb) else 0
  let a : Rat := if r < 0 then -r else r
  if a = 0 then signBit
  else
    -- exponent e with 2^mb ≤ a / 2^e < 2^(mb+1), clamped below at minExp
    let l : Int := (Nat.log2 a.num.natAbs : Int) - (Nat.log2 a.den : Int)
    let e0 : Int := l - mb
    let scale (e : Int) : Rat := if e ≥ 0 then a / ((2 : Rat) ^ e.toNat) else a * ((2 : Rat) ^ (-e).toNat)
    let e1 : Int := if scale e0 < (2 : Rat) ^ mb then e0 - 1 else if scale e0 ≥ (2 : Rat) ^ (mb + 1) then e0 + 1 else e0
    let e : Int := if e1 < minExp then minExp else e1
    let x := scale e
    let fl := x.floor
    let fr := x - fl
    let m : Int := if fr > 1 / 2 then fl + 1 else if fr < 1 / 2 then fl else (if fl % 2 = 0 then fl else fl + 1)
    -- carry into the next binade
    let (m, e) : Int × Int := if m = 2 ^ (mb + 1) then (2 ^ mb, e + 1) else (m, e)
    let expField : Int := if m < 2 ^ mb then 0 else e - minExp + 1
    if expField ≥ 2 ^ eb - 1 then signBit + (2 ^ eb - 1) * 2 ^ mb   -- infinity
    else signBit + expField.toNat * 2 ^ mb + (m.toNat % 2 ^ mb)

def parseBits (s : String) (n : Nat) : Option Nat :=
  if s.startsWith "x:" ∧ s.length = n + 2 then parseHexNat (s.drop 2).toString else none

def specNextUp (x : Rat) (limit : Nat) : Rat := Id.run do
  let mut best : Rat := x.floor + 1
  for q in [1:limit + 1] do
    let c : Rat := (((x * q).floor + 1 : Int) : Rat) / (q : Rat)
    if c < best then best := c
  return best

def specNextDown (x : Rat) (limit : Nat) : Rat := Id.run do
  let mut best : Rat := x.ceil - 1
  for q in [1:limit + 1] do
    let c : Rat := (((x * q).ceil - 1 : Int) : Rat) / (q : Rat)
    if c > best then best := c
  return best

def reducedR (p : Int × Nat × Kind) : Option Q :=
  match p.2.2, rFromParts p.1 p.2.1 with
  | .R, .ok q => some q
  | _, _ => none

def showOptQ (m : Except PanicKind (Option Q)) (specOk : Q → Bool) : String :=
  match m with
  | .ok (some r) => if specOk r then ok (showQ r) else mismatch (ok (showQ r)) "c18-spec"
  | .ok none => mismatch (ok "fuel") "model-fuel-exhausted"
  | .error k => mismatch (panic k.name) "c18-unexpected-panic"

/-- the deviations of `simplest_from_float` that the code in /repo CURRENTLY has (used only to
    attribute disagreements: the model result printed first is always the required one).
    Maintenance: when a proposed fix is applied to /repo, set its switch to `false` here —
    `uniformUlp`, `oddIncl` ← proposed_fixes/fbig-error-bounds.diff;
    `ceilHalf` has no patch yet (API decision).  Unlimited precision needs no switch since round 6
    (proposed_fixes/c18-simplest-from-float-unlimited.diff: exact value returned before `error_bounds`).  (The former switches `conjSimpler` and
    `zeroEndpoint` were deleted in round 5: /repo has 766946e and 5fc5674.) -/
def activeQuirks : Quirks := Quirks.code

def parseMode : String → Option RMode
  | "Zero" => some .zero | "Away" => some .away | "Up" => some .up | "Down" => some .down
  | "HalfAway" => some .halfAway | "HalfEven" => some .halfEven
  | _ => none

/-- independent oracle: round the rational `x` to `p` digits in base `b` under `mode`; the value
    of the rounded float -/
def roundFBig (mode : RMode) (b p : Nat) (x : Rat) : Rat :=
  if x = 0 then 0 else
  let a : Rat := if x < 0 then -x else x
  let neg := x < 0
  let bq : Rat := (b : Rat)
  let pw (e : Int) : Rat := if e ≥ 0 then bq ^ e.toNat else 1 / bq ^ (-e).toNat
  -- e with b^(p-1) ≤ a / b^e < b^p
  let e0 : Int := (digitsB b (a.num.natAbs + 1) a.num.natAbs : Int) - (digitsB b (a.den + 1) a.den : Int) - p
  let fix (e : Int) : Int :=
    if a / pw e < bq ^ (p - 1) then e - 1 else if a / pw e ≥ bq ^ p then e + 1 else e
  let e := fix (fix (fix e0))
  let t := a / pw e
  let fl := t.floor
  let fr := t - fl
  let upMag : Bool :=
    if fr = 0 then false else
    match mode with
    | .zero => false
    | .away => true
    | .up => !neg
    | .down => neg
    | .halfAway => decide (fr ≥ 1 / 2)
    | .halfEven => decide (fr > 1 / 2) || (decide (fr = 1 / 2) && decide (fl % 2 = 1))
  let m : Rat := ((if upMag then fl + 1 else fl : Int) : Rat) * pw e
  if neg then -m else m

def dispatch18 : Dispatch := fun _W op args =>
  match op, args with
  | "s.in", [a, b] => do
    let pa ← parseParts a; let pb ← parseParts b
    if pa.2.1 = 0 ∨ pb.2.1 = 0 then some (panic "DivideByZero") else
    let l ← reducedR pa; let u ← reducedR pb
    let lo := min l.val u.val; let hi := max l.val u.val
    pure (showOptQ (simplestIn l u) fun r =>
      decide (Reduced r) &&
      (if lo = hi then r.val == lo
       else decide (lo < r.val ∧ r.val < hi) &&
         (if r.den ≤ 20000 then bruteSimplest lo hi r.den == some r.val else true)))
  | "s.simpler", [a, b] => do
    let pa ← parseParts a; let pb ← parseParts b
    if pa.2.1 = 0 ∨ pb.2.1 = 0 then some (panic "DivideByZero") else
    let x ← reducedR pa; let y ← reducedR pb
    pure (ok (boolStr (simplerSpec x y)))
  | "s.nextup", [a, l] | "s.nextdown", [a, l] => do
    let pa ← parseParts a
    let lim ← (if l.startsWith "u:" then parseNat (l.drop 2).toString else none)
    if pa.2.1 = 0 then some (panic "DivideByZero") else
    let x ← reducedR pa
    let up := op == "s.nextup"
    match nextUpDown up x lim with
    | .error k => pure (if lim = 0 ∧ k = .divideByZero then panic k.name else mismatch (panic k.name) "c18-unexpected-panic")
    | m => pure (showOptQ m fun r =>
        decide (Reduced r) && r.val == (if up then specNextUp x.val lim else specNextDown x.val lim))
  | "s.nearest", [a, l] => do
    let pa ← parseParts a
    let lim ← (if l.startsWith "u:" then parseNat (l.drop 2).toString else none)
    if pa.2.1 = 0 then some (panic "DivideByZero") else
    let x ← reducedR pa
    match nearest x lim with
    | .error k => pure (if lim = 0 ∧ k = .divideByZero then panic k.name else mismatch (panic k.name) "c18-unexpected-panic")
    | .ok none => pure (mismatch (ok "fuel") "model-fuel-exhausted")
    | .ok (some (.exact v)) =>
      pure (if x.den ≤ lim ∧ v = x then ok ("exact " ++ showQ v) else mismatch (ok ("exact " ++ showQ v)) "c18-spec")
    | .ok (some (.inexact v neg)) =>
      let up := specNextUp x.val lim; let dn := specNextDown x.val lim
      let tie := decide (up - x.val = x.val - dn)
      let s := if tie then
          -- an exact tie may go either way: both neighbours are printed instead of the choice
          ok ("inexact-tie " ++ ratStr dn ++ " " ++ ratStr up)
        else ok ("inexact " ++ showQ v ++ (if neg then " -" else " +"))
      -- the closer of the two neighbours (either one on a tie), error sign = sign(result − x)
      let good := lim < x.den && decide (Reduced v) &&
        ((v.val == up && !neg && decide (up - x.val ≤ x.val - dn)) ||
         (v.val == dn && neg && decide (x.val - dn ≤ up - x.val)))
      pure (if good then s else mismatch s "c18-spec")
  | "s.fromf32", [b] | "s.fromf64", [b] => do
    let (eb, mb, nh) : Nat × Nat × Nat := if op == "s.fromf32" then (8, 23, 8) else (11, 52, 16)
    let bits ← parseBits b nh
    match simplestFromFloat simplerSpec eb mb bits with
    | .ok (some none) =>
      -- None exactly for NaN / infinities
      pure (if (bits >>> mb) % 2 ^ eb = 2 ^ eb - 1 then ok "none" else mismatch (ok "none") "c18-spec")
    | .ok (some (some r)) =>
      let isZero := bits % 2 ^ (eb + mb) = 0
      -- converts back to the given float (−0 and +0 both give 0/1), and nothing simpler does
      let back := if isZero then r == Q.zero else roundToFloat eb mb r.val == bits
      let brute := if r.den ≤ 300 ∧ !isZero then
          (List.range r.den).all fun s0 =>
            let s := s0 + 1
            -- candidates of denominator s nearest to r: none of smaller denominator may round to f
            s ≥ r.den ||
              (let p := (r.val * s).floor
               roundToFloat eb mb ((p : Rat) / (s : Rat)) != bits &&
               roundToFloat eb mb (((p + 1 : Int) : Rat) / (s : Rat)) != bits)
        else true
      pure (if decide (Reduced r) && back && brute then ok (showQ r) else mismatch (ok (showQ r)) "c18-spec")
    | .ok none => pure (mismatch (ok "fuel") "model-fuel-exhausted")
    | .error k => pure (mismatch (panic k.name) "c18-unexpected-panic")
  | "s.fromfloat", [m, b, sg, e, pr] | "s2.fromfloat", [m, b, sg, e, pr] => do
    let mode ← parseMode m
    let b ← parseDecNat b
    -- lexical forms `inf` / `-inf`: the `Repr` of FBig::INFINITY / NEG_INFINITY is (0, ±1)
    let (sg, e) ← (if sg == "inf" then some ((0 : Int), (1 : Int)) else if sg == "-inf" then some (0, -1)
      else do let sg ← parseInt sg; let e ← parseDec e
              -- the harness builds the float by `Repr::new`, which normalises (0, e) to zero (0, 0)
              pure (sg, if sg = 0 then 0 else e))
    let pr ← parseDecNat pr
    if b < 2 then none
    let genSimpler : Q → Q → Bool := fun x y =>
      Dashu.Gen.is_simpler_than (x.num, (x.den : Int)) (y.num, (y.den : Int))
    -- required behaviour: the documented order; the code: the regenerated `is_simpler_than`
    let run (k : Quirks) (code : Bool) :=
      rbigSimplestFromFloat k (if code then genSimpler else simplerSpec) mode b sg e pr
    let showR : Except PanicKind (Option (Option Q)) → String
      | .ok (some (some r)) => ok (showQ r)
      | .ok (some none) => ok "none"
      | .ok none => "bad"
      | .error k => panic k.name
    match run Quirks.none false with
    | .ok none => none
    | .ok (some none) =>
      -- `None` exactly for an infinite float (theorem simplest_from_fbig_none_iff_infinite)
      pure (if sg = 0 ∧ e ≠ 0 ∧ showR (run activeQuirks true) = ok "none" then ok "none"
            else mismatch (ok "none") "c18-spec")
    | .ok (some (some r)) =>
      let f : Rat := (scaleQ sg b e).val
      let back := if sg = 0 then r == Q.zero else if pr = 0 then r.val == f else roundFBig mode b pr r.val == f
      -- nothing of smaller denominator rounds to f (small denominators only)
      let brute := if r.den ≤ 300 ∧ sg ≠ 0 ∧ pr ≠ 0 then
          (List.range r.den).all fun s0 =>
            let s := s0 + 1
            s ≥ r.den ||
              (let pn := (r.val * s).floor
               roundFBig mode b pr ((pn : Rat) / (s : Rat)) != f &&
               roundFBig mode b pr (((pn + 1 : Int) : Rat) / (s : Rat)) != f)
        else true
      let req := ok (showQ r)
      if !(decide (Reduced r) && back && brute) then pure (mismatch req "c18-spec") else
      -- what the code in /repo computes, and which deviations are responsible
      let code := showR (run activeQuirks true)
      if code = req then pure req
      else
        -- deviations that are necessary for the code's result: switching one off changes it
        let one (k : Quirks) (name : String) : List String :=
          if showR (run k true) ≠ code then [name] else []
        let why :=
          one { activeQuirks with uniformUlp := false } "full-ulp-below-power-of-base" ++
          one { activeQuirks with ceilHalf := false } "ceil-half-ulp-odd-base" ++
          one { activeQuirks with oddIncl := false } "halfeven-inclusion-parity"
        -- if no single deviation is necessary, those that alone suffice to leave the required result
        let suff (k : Quirks) (name : String) : List String :=
          if showR (run k true) ≠ req then [name] else []
        let anyOf :=
          suff { Quirks.none with uniformUlp := true } "full-ulp-below-power-of-base" ++
          suff { Quirks.none with ceilHalf := true } "ceil-half-ulp-odd-base" ++
          suff { Quirks.none with oddIncl := true } "halfeven-inclusion-parity"
        pure (req ++ " (code-path: " ++ code.replace " " "_" ++ " because " ++
          (if !why.isEmpty then ",".intercalate why
           else if !anyOf.isEmpty then "any-of:" ++ "+".intercalate anyOf else "combination") ++ ")")
    | .error k => pure (mismatch (panic k.name) "c18-unexpected-panic")
  | "eb.bounds", [m, b, sg, e, pr] => do
    -- (round 6) `<R as ErrorBounds>::error_bounds(&f)` called directly: `L R incl_L incl_R`
    let mode ← parseMode m
    let b ← parseDecNat b
    let sg0 ← parseInt sg
    let e0 ← parseDec e
    let pr ← parseDecNat pr
    if b < 2 ∨ sg0 = 0 then none
    -- the harness builds the float by `Repr::new`, which strips trailing zero digits of the significand
    let rec strip (fuel : Nat) (s : Int) (e : Int) : Int × Int :=
      match fuel with
      | 0 => (s, e)
      | fuel + 1 => if s % (b : Int) = 0 then strip fuel (s / (b : Int)) (e + 1) else (s, e)
    let (sg, e) := strip (sg0.natAbs + 1) sg0 e0
    let showB : Except PanicKind (Option (Q × Q × Bool × Bool)) → Option String
      | .ok (some (l, r, il, ir)) =>
        match reduce l, reduce r with
        | .ok l, .ok r => some (ok (showQ l ++ " " ++ showQ r ++ " " ++ boolStr il ++ " " ++ boolStr ir))
        | _, _ => none
      | .ok none => none
      | .error k => some (panic k.name)
    let req ← showB (errorBoundsFBig Quirks.none false mode b sg e pr)
    let code ← showB (errorBoundsFBig activeQuirks true mode b sg e pr)
    if code = req then pure req
    else
      let one (k : Quirks) (name : String) : List String :=
        if showB (errorBoundsFBig k true mode b sg e pr) ≠ some code then [name] else []
      let why :=
        one { activeQuirks with uniformUlp := false } "full-ulp-below-power-of-base" ++
        one { activeQuirks with ceilHalf := false } "ceil-half-ulp-odd-base" ++
        one { activeQuirks with oddIncl := false } "halfeven-inclusion-parity" ++
        (if pr = 0 then ["ulp-of-unlimited-precision"] else [])
      pure (req ++ " (code-path: " ++ code.replace " " "_" ++ " because " ++
        (if !why.isEmpty then ",".intercalate why else "combination") ++ ")")
  | _, _ => none

/-- group dispatcher: C04 ops, then C18 ops -/
def dispatchAll : Dispatch := fun W op args =>
  match dispatch W op args with
  | some r => some r
  | none => dispatch18 W op args

end Dashu.Driver.Ratio
