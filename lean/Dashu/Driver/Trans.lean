import Dashu.Driver.Loop
import Dashu.Model.Trans.Guards
/-
  Driver of group `trans` (C11).

  Case lines carry the implementation's own answer after a `|` token (the property module runs the
  harness first and appends what it printed):

      f.exp <x> | ok <sig> <exp> <prec> <Exact|Inexact:…>
      f.powf <x> <y> | panic PowNegativeBase
      c.ln <x> d:<p> | ok …            obs.ln <x> | hang

  This side does NOT mirror dashu's series.  It runs the model of the entry guards
  (`Model/Trans/Guards.lean`); where they decide (a documented panic, a constant, `x¹`) it prints that
  requirement; otherwise it takes the claim `r` and runs the certificate test of `Model/Trans/Cert.lean`
  against the proved enclosures:   certified ⇒ the claim is echoed (so both sides agree);
  violation ⇒ `violation …` (a disagreement with a concrete input; the verdict is a theorem,
  `Props/C11.lean`); undecided (effort budget used) ⇒ the claim is echoed with the annotation
  ` #cert-undecided` — counted separately by the check, never a violation.
-/
namespace Dashu.Driver.Trans
open Dashu.IO Dashu.Driver Dashu.Model.Trans

structure FArg where
  base : Nat
  x : FIn
  prec : Nat
  mode : RMode

def parseMode (s : String) : Option RMode :=
  match s with
  | "Z" => some .zero | "A" => some .away | "U" => some .up | "D" => some .down
  | "E" => some .halfEven | "H" => some .halfAway | _ => none

def okBase (b : Nat) : Bool := b == 2 || b == 3 || b == 10 || b == 16 || b == 36

/-- `f:<base>:<signif hex | inf | -inf>:<exp>:<prec>:<mode>`; finite operands are normalised as by `Repr::new` -/
def parseF (s : String) : Option FArg :=
  match s.splitOn ":" with
  | ["f", b, sg, e, p, m] => do
    let base ← b.toNat?
    if !okBase base then none
    let exp ← e.toInt?
    let prec ← p.toNat?
    let mode ← parseMode m
    if sg == "inf" then pure ⟨base, ⟨true, 0, 1⟩, prec, mode⟩
    else if sg == "-inf" then pure ⟨base, ⟨true, 0, -1⟩, prec, mode⟩
    else
      let signif ← parseInt sg
      let r := normalize base signif exp
      pure ⟨base, ⟨false, r.1, r.2⟩, prec, mode⟩
  | _ => none

/-- exponents beyond this are not turned into rationals (the number would not fit in memory) -/
def maxExpAbs : Nat := 40000

def FArg.small (a : FArg) : Bool := a.x.exp.natAbs ≤ maxExpAbs

def FArg.val (a : FArg) : Rat := fval a.base a.x.sig a.x.exp

/-- the claim appended by the first pass -/
inductive Claim where
  | value (sig e : Int) (prec : Nat) (exact : Bool) (text : String)
  | panic (kind : String)
  | other (text : String)

def parseClaim (toks : List String) : Claim :=
  match toks with
  | ["ok", s, e, p, f] =>
    match parseInt s, e.toInt?, p.toNat? with
    | some sig, some ex, some pr =>
      if f == "Exact" then .value sig ex pr true (" ".intercalate [s, e, p, f])
      else if f.startsWith "Inexact:" then .value sig ex pr false (" ".intercalate [s, e, p, f])
      else .other (" ".intercalate toks)
    | _, _, _ => .other (" ".intercalate toks)
  | ["panic", k] => .panic k
  | _ => .other (" ".intercalate toks)

/-- split the argument list at `|` -/
def splitClaim (args : List String) : List String × Option (List String) :=
  let pre := args.takeWhile (· != "|")
  let post := args.dropWhile (· != "|")
  match post with
  | _ :: rest => (pre, some rest)
  | [] => (pre, none)

def flagStr : Option Int → String
  | none => "Exact"
  | some 0 => "Inexact:NoOp"
  | some 1 => "Inexact:AddOne"
  | some _ => "Inexact:SubOne"

/-- floor of log2 of a positive rational, up to ±1 (heuristic for the initial effort) -/
def log2Rat (q : Rat) : Int := (q.num.natAbs.log2 : Int) - (q.den.log2 : Int)

/-- initial effort from the ratio magnitude / tolerance -/
def effort0 (mag u : Rat) : Nat :=
  if u ≤ 0 ∨ mag ≤ 0 then 64 else ((log2Rat (mag / u)) + 10).toNat + 8

def absR (q : Rat) : Rat := if q < 0 then -q else q

def fuel : Nat := 9

/-- what the driver prints for a verdict.  `cert exact` runs the certificate with the given flag; a
    violation of a claim flagged Exact is re-examined without the flag to tell the two clauses apart. -/
def verdictStr (cert : Bool → Verdict × Nat) (exact : Bool) (claimText : String) : String :=
  let v := cert exact
  match v.1 with
  | .certified => ok claimText ++ " #cert-n=" ++ toString v.2
  | .undecided => ok claimText ++ " #cert-undecided n=" ++ toString v.2
  | .violation =>
    let eff := " (enclosure effort n=" ++ toString v.2 ++ ")"
    if exact then
      match (cert false).1 with
      | .certified => "violation Exact-flag-on-inexact-result value-within-1ulp" ++ eff
      | .violation => "violation result-not-within-1ulp and-flagged-Exact" ++ eff
      | .undecided => "violation Exact-flag-on-inexact-result value-undecided" ++ eff
    else "violation result-not-within-1ulp" ++ eff

/-- well-formedness of a claimed result: carries the context precision and fits it -/
def claimShapeOk (B p : Nat) (sig : Int) (prec : Nat) : Bool :=
  prec == p && digits B sig.natAbs ≤ p

inductive Fn where
  | exp | expm1 | ln | ln1p
  deriving DecidableEq

/-- unary functions behind the guards -/
def certUnary (fn : Fn) (a : FArg) (p : Nat) (claim : Claim) : Option String :=
  let B := a.base
  match claim with
  | .value sig e prec exact text =>
    if !claimShapeOk B p sig prec then some ("violation result-does-not-fit-context-precision " ++ text)
    else if !a.small then none
    else
      let x := a.val
      match fn with
      | .exp =>
        if absR x ≤ 64 ∧ e.natAbs ≤ 4096 then
          let r := fval B sig e; let u := ulp B sig e p
          some (verdictStr (fun ex => certExp B x sig e p ex fuel (effort0 (absR r) u)) exact text)
        else
          -- |x| large: compare significand with exp(x)/B^e; implausible exponents are not attempted
          let est : Rat := x * (if B == 2 then 1443 else if B == 3 then 910 else if B == 10 then 434
                                else if B == 16 then 361 else 279) / 1000   -- ≈ x / ln B
          let top : Rat := (e : Rat) + (digits B sig.natAbs : Nat)
          if absR (est - top) > absR est / 100 + 16 then
            some ("violation exponent-implausible " ++ text)
          else
            let u := ulpScaled B sig p
            some (verdictStr (fun ex => certExpScaled B x sig e p ex fuel (effort0 (absR sig) u)) exact text)
      | .expm1 =>
        if absR x ≤ 64 ∧ e.natAbs ≤ maxExpAbs then
          let r := fval B sig e; let u := ulp B sig e p
          some (verdictStr (fun ex => certExpm1 B x sig e p ex fuel (effort0 (absR r + 1) u)) exact text)
        else none
      | .ln =>
        if e.natAbs ≤ maxExpAbs then
          let r := fval B sig e; let u := ulp B sig e p
          some (verdictStr (fun ex => certLn B x sig e p ex fuel (effort0 1 u + 16)) exact text)
        else none
      | .ln1p =>
        if e.natAbs ≤ maxExpAbs then
          let r := fval B sig e; let u := ulp B sig e p
          some (verdictStr (fun ex => certLn1p B x sig e p ex fuel (effort0 1 u + 16)) exact text)
        else none
  | .panic _ => some "required a-value-within-1ulp (no documented panic applies to this input)"
  | .other t => some ("required a-value-within-1ulp; observed " ++ t)

def entryStr (en : Entry) (a : FArg) (p : Nat) (k : Unit → Option String) : Option String :=
  match en with
  | .panic kd => some (Dashu.Driver.panic kd.name)
  | .exactConst c => some (ok (intToHex c ++ " 0 0 Exact"))
  | .roundArg =>
    let r := roundSpec a.base a.mode p a.x.sig a.x.exp
    some (ok (intToHex r.1 ++ " " ++ toString r.2.1 ++ " " ++ toString p ++ " " ++ flagStr r.2.2))
  | .compute => k ()

def domainPanic : String := "panic DomainError(required:documented-panic-for-argument-outside-the-domain)"

def unary (fn : Fn) (a : FArg) (p : Nat) (claim : Option (List String)) : Option String :=
  let en := match fn with
    | .exp => expEntry false a.x p
    | .expm1 => expEntry true a.x p
    | .ln => lnEntry false a.x p
    | .ln1p => lnEntry true a.x p
  entryStr en a p fun _ =>
    -- outside the mathematical domain the property (C16) requires a documented panic
    if fn == .ln ∧ a.x.sig ≤ 0 then some domainPanic
    else if fn == .ln1p ∧ a.small ∧ a.val ≤ -1 then some domainPanic
    else do
      let c ← claim
      certUnary fn a p (parseClaim c)

def powi (a : FArg) (k : Int) (p : Nat) (claim : Option (List String)) : Option String :=
  entryStr (powiEntry a.x k p) a p fun _ =>
    if a.x.sig = 0 ∧ k < 0 then some (Dashu.Driver.panic "DivideByZero")
    else do
      let c ← claim
      match parseClaim c with
      | .value sig e prec exact text =>
        if p ≠ 0 ∧ !claimShapeOk a.base p sig prec then
          some ("violation result-does-not-fit-context-precision " ++ text)
        else if !a.small ∨ e.natAbs > 4 * maxExpAbs ∨ k.natAbs > 100000 then none
        else if p = 0 then
          -- unlimited precision, non-negative exponent: the result must be exact
          some (if fval a.base sig e = powiExact a.val k ∧ exact then ok text
                else "violation unlimited-precision-power-not-exact " ++ text)
        else
          some (verdictStr (fun ex => (certPowi a.base a.val k sig e p ex, 0)) exact text)
      | .panic _ => some "required a-value-within-1ulp (no documented panic applies to this input)"
      | .other t => some ("required a-value-within-1ulp; observed " ++ t)

def powf (a b : FArg) (p : Nat) (claim : Option (List String)) : Option String :=
  entryStr (powfEntry a.x b.x p) a p fun _ =>
    if b.x.inf then some (Dashu.Driver.panic "Infinite")
    else do
      let c ← claim
      match parseClaim c with
      | .value sig e prec exact text =>
        let B := a.base
        if !claimShapeOk B p sig prec then some ("violation result-does-not-fit-context-precision " ++ text)
        else if !a.small ∨ !b.small then none
        else
          let x := a.val; let y := b.val
          -- |y · log2 x| decides between the direct and the scaled comparison
          let lg : Rat := (absR (log2Rat x : Rat) + 1) * absR y
          if lg ≤ 64 ∧ e.natAbs ≤ 4096 then
            let r := fval B sig e; let u := ulp B sig e p
            some (verdictStr (fun ex => certPowf B x y sig e p ex fuel (effort0 (absR r) u)) exact text)
          else
            let l2B : Rat := if B == 2 then 1000 else if B == 3 then 1585 else if B == 10 then 3322
                             else if B == 16 then 4000 else 5170            -- ≈ 1000·log2 B
            let top : Rat := ((e : Rat) + (digits B sig.natAbs : Nat)) * l2B / 1000   -- ≈ log2 of the claim
            if absR top > 2 * lg + 64 then some ("violation exponent-implausible " ++ text)
            else
              let u := ulpScaled B sig p
              some (verdictStr (fun ex => certPowfScaled B x y sig e p ex fuel (effort0 (absR sig) u)) exact text)
      | .panic _ => some "required a-value-within-1ulp (no documented panic applies to this input)"
      | .other t => some ("required a-value-within-1ulp; observed " ++ t)

def fnOf (s : String) : Option Fn :=
  match s with
  | "exp" => some .exp | "exp_m1" => some .expm1 | "ln" => some .ln | "ln_1p" => some .ln1p | _ => none

/-- `FBig::from_repr` precondition of the `f.*` ops -/
def fits (a : FArg) : Bool := a.x.inf || a.prec == 0 || digits a.base a.x.sig.natAbs ≤ a.prec

def run (kind name : String) (pre : List String) (claim : Option (List String)) : Option String :=
  match kind, name, pre with
  | "f", "powi", [xs, ks] => do
    let a ← parseF xs; let k ← parseInt ks
    if !fits a then none
    powi a k a.prec claim
  | "c", "powi", [xs, ks, ps] => do
    let a ← parseF xs; let k ← parseInt ks; let p ← parseDecNat ps
    powi a k p claim
  | "f", "powf", [xs, ys] => do
    let a ← parseF xs; let b ← parseF ys
    if a.base != b.base ∨ a.mode != b.mode ∨ !fits a ∨ !fits b then none
    powf a b (max a.prec b.prec) claim
  | "c", "powf", [xs, ys, ps] => do
    let a ← parseF xs; let b ← parseF ys; let p ← parseDecNat ps
    if a.base != b.base ∨ a.mode != b.mode then none
    powf a b p claim
  | "f", fnn, [xs] => do
    let fn ← fnOf fnn; let a ← parseF xs
    if !fits a then none
    unary fn a a.prec claim
  | "c", fnn, [xs, ps] => do
    let fn ← fnOf fnn; let a ← parseF xs; let p ← parseDecNat ps
    unary fn a p claim
  | _, _, _ => none

def dispatch : Dispatch := fun _W op args =>
  let (pre, claim) := splitClaim args
  match op.splitOn "." with
  | ["obs", kind, name] =>
    -- an outcome without a result (hang / crash) observed by the first pass: print what is required
    match run kind name pre none with
    | some s => some s
    | none => some "required a-value-within-1ulp-or-a-documented-panic"
  | [kind, name] => run kind name pre claim
  | _ => none

end Dashu.Driver.Trans
