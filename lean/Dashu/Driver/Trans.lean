import Dashu.Driver.Loop
import Dashu.Model.Trans.Guards
import Dashu.Model.Trans.Powi
import Dashu.Model.Trans.PowiNeg
import Dashu.Model.Trans.CertFloat
import Dashu.Model.Trans.Series
import Dashu.Model.Trans.SourceText
import Dashu.Driver.TransEst
/-
  Driver of group `trans` (C11).

  Case lines carry the implementation's own answer after a `|` token (the property module runs the
  harness first and appends what it printed):

      f.exp <x> | ok <sig> <exp> <prec> <Exact|Inexact:…>
      f.powf <x> <y> | panic PowNegativeBase
      c.ln <x> d:<p> | ok …            obs.ln <x> | hang

  This side runs the model of the entry guards
  (`Model/Trans/Guards.lean`); where they decide (a documented panic, a constant, `x¹`) it prints that
  requirement; otherwise it takes the claim `r` and runs the certificate test of `Model/Trans/Cert.lean`
  against the proved enclosures:   certified ⇒ the claim is echoed (so both sides agree);
  violation ⇒ `violation …` (a disagreement with a concrete input; the verdict is a theorem,
  `Props/C11.lean`); undecided (effort budget used) ⇒ the claim is echoed with the annotation
  ` #cert-undecided` — counted separately by the check, never a violation.

  MIRROR (round 4): behind the guards the driver also runs the statement-by-statement mirror of
  `exp_internal` / `ln_internal` / `iacoth` / `ln2` / `ln10` / `ln_base` / `powf` (`Model/Trans/Series.lean`, with the
  `Float32` replica of the estimates, `Driver/TransEst.lean`) and compares significand, exponent and flag with
  the claim: equal ⇒ the annotation key gets `+mirror-ok` (working precision and last series index as tags);
  different ⇒ ` mirror-drift:…` in the compared payload (a broken correspondence, judged by `c11.py`).
-/
namespace Dashu.Driver.Trans
open Dashu.IO Dashu.Driver Dashu.Model.Trans

structure FArg where
  base : Nat
  x : FIn
  prec : Nat
  mode : RMode

def parseMode (s : String) : Option RMode :=
  match s with
  | "Z" => some .zero | "A" => some .away | "U" => some .up | "D" => some .down
  | "E" => some .halfEven | "H" => some .halfAway | _ => none

def okBase (b : Nat) : Bool := b == 2 || b == 3 || b == 10 || b == 16 || b == 36

/-- `f:<base>:<signif hex | inf | -inf>:<exp>:<prec>:<mode>`; finite operands are normalised as by `Repr::new` -/
def parseF (s : String) : Option FArg :=
  match s.splitOn ":" with
  | ["f", b, sg, e, p, m] => do
    let base ← b.toNat?
    if !okBase base then none
    let exp ← e.toInt?
    let prec ← p.toNat?
    let mode ← parseMode m
    if sg == "inf" then pure ⟨base, ⟨true, 0, 1⟩, prec, mode⟩
    else if sg == "-inf" then pure ⟨base, ⟨true, 0, -1⟩, prec, mode⟩
    else
      let signif ← parseInt sg
      let r := normalize base signif exp
      pure ⟨base, ⟨false, r.1, r.2⟩, prec, mode⟩
  | _ => none

/-- exponents beyond this are not turned into rationals (the number would not fit in memory) -/
def maxExpAbs : Nat := 40000

def FArg.small (a : FArg) : Bool := a.x.exp.natAbs ≤ maxExpAbs

def FArg.val (a : FArg) : Rat := fval a.base a.x.sig a.x.exp

/-- the claim appended by the first pass -/
inductive Claim where
  | value (sig e : Int) (prec : Nat) (exact : Bool) (text : String)
  | panic (kind : String)
  | other (text : String)

def parseClaim (toks : List String) : Claim :=
  match toks with
  | ["ok", s, e, p, f] =>
    match parseInt s, e.toInt?, p.toNat? with
    | some sig, some ex, some pr =>
      if f == "Exact" then .value sig ex pr true (" ".intercalate [s, e, p, f])
      else if f.startsWith "Inexact:" then .value sig ex pr false (" ".intercalate [s, e, p, f])
      else .other (" ".intercalate toks)
    | _, _, _ => .other (" ".intercalate toks)
  | ["panic", k] => .panic k
  | _ => .other (" ".intercalate toks)

/-- split the argument list at `|` -/
def splitClaim (args : List String) : List String × Option (List String) :=
  let pre := args.takeWhile (· != "|")
  let post := args.dropWhile (· != "|")
  match post with
  | [_, one] => (pre, some (one.splitOn ","))     -- the claim travels as ONE token `ok,<sig>,<exp>,<prec>,<flag>`
  | _ :: rest => (pre, some rest)
  | [] => (pre, none)

def flagStr : Option Int → String
  | none => "Exact"
  | some 0 => "Inexact:NoOp"
  | some 1 => "Inexact:AddOne"
  | some _ => "Inexact:SubOne"

/-- floor of log2 of a positive rational, up to ±1 (heuristic for the initial effort) -/
def log2Rat (q : Rat) : Int := (q.num.natAbs.log2 : Int) - (q.den.log2 : Int)

/-- initial effort from the ratio magnitude / tolerance -/
def effort0 (mag u : Rat) : Nat :=
  if u ≤ 0 ∨ mag ≤ 0 then 64 else ((log2Rat (mag / u)) + 10).toNat + 8

def absR (q : Rat) : Rat := if q < 0 then -q else q

def fuel : Nat := 9

/-- how far the claim is from the enclosure, in ulps, as a coarse bucket (reported with violations so
    that different defects can be told apart; computed from one further refinement of the enclosure) -/
def bucket (encl : Nat → Rat × Rat) (r u : Rat) (n : Nat) : String :=
  if u ≤ 0 then "zero-result"
  else
    let e := encl (4 * n + 256)
    let dHi := (if absR (e.1 - r) < absR (e.2 - r) then absR (e.2 - r) else absR (e.1 - r)) / u   -- upper bound of |r−v|/u
    if dHi < 1 + (1 : Rat) / 16 then
      -- the sliver beyond one ulp, as a power of two: excess < 2^-j
      let ex := dHi - 1
      let j : Nat := if ex ≤ 0 then 999 else ((-(log2Rat ex)) - 1).toNat
      "error=1ulp+tiny(<2^-4ulp) sliver<2^-" ++ toString j
    else if dHi < 2 then "error<2ulp"
    else if dHi < 16 then "error<16ulp"
    else "error>=16ulp"

/-- what the driver prints for a verdict.  `cert exact` runs the certificate with the given flag; a
    violation of a claim flagged Exact is re-examined without the flag to tell the two clauses apart. -/
def verdictStr (cert : Bool → Verdict × Nat) (exact : Bool) (claimText : String)
    (bk : Nat → String := fun _ => "") : String :=
  let v := cert exact
  match v.1 with
  | .certified => ok claimText ++ " #cert-n=" ++ toString v.2
  | .undecided => ok claimText ++ " #cert-undecided n=" ++ toString v.2
  | .violation =>
    let eff := " (enclosure effort n=" ++ toString v.2 ++ ")"
    if exact then
      match (cert false).1 with
      | .certified => "violation Exact-flag-on-inexact-result value-within-1ulp" ++ eff
      | .violation => "violation result-not-within-1ulp and-flagged-Exact " ++ bk v.2 ++ eff
      | .undecided => "violation Exact-flag-on-inexact-result value-undecided" ++ eff
    else "violation result-not-within-1ulp " ++ bk v.2 ++ eff

/-- verdict of an exact comparison (`certPowi`, `certPowfExact`): the true value `v` is a known
    rational; a result lying exactly one ulp from it is named as such (directed rounding of a working
    value that fell on the wrong side of an exactly representable result) -/
def exactStr (cert : Bool → Verdict) (B : Nat) (v : Rat) (sig e : Int) (p : Nat) (exact : Bool)
    (text : String) : String :=
  let r := fval B sig e; let u := ulp B sig e p
  if cert exact = .violation ∧ !exact ∧ absR (r - v) = u then
    "violation result-exactly-1ulp-from-the-exact-rational-value"
  else verdictStr (fun ex => (cert ex, 0)) exact text (fun _ => bucket (fun _ => (v, v)) r u 0)

/-- well-formedness of a claimed result: carries the context precision and fits it -/
def claimShapeOk (B p : Nat) (sig : Int) (prec : Nat) : Bool :=
  prec == p && digits B sig.natAbs ≤ p

inductive Fn where
  | exp | expm1 | ln | ln1p
  deriving DecidableEq

/-- unary functions behind the guards -/
def certUnary (fn : Fn) (a : FArg) (p : Nat) (claim : Claim) : Option String :=
  let B := a.base
  match claim with
  | .value sig e prec exact text =>
    if !claimShapeOk B p sig prec then some ("violation result-does-not-fit-context-precision " ++ text)
    else if !a.small then none
    else
      let x := a.val
      match fn with
      | .exp =>
        if absR x ≤ 4096 ∧ e.natAbs ≤ maxExpAbs then
          let r := fval B sig e; let u := ulp B sig e p
          some (verdictStr (fun ex => certExp B x sig e p ex fuel (effort0 (absR r) u)) exact text (bucket (expEncl x) r u))
        else
          -- |x| large: compare the significand with exp(x)/B^e (the claim's exponent may be astronomically
          -- large; a claim whose exponent is far off is refuted by the rigorous pre-test `tooBig`)
          let u := ulpScaled B sig p
          some (verdictStr (fun ex => certExpScaled B x sig e p ex fuel (effort0 (absR sig) u)) exact text
            (fun n => if n = 0 then "error>=16ulp(exponent-far-off)" else bucket (expScaledEncl B x e) sig u n))
      | .expm1 =>
        if (x < 0 ∨ x ≤ 1100000) ∧ e.natAbs ≤ 4000000 then
          let r := fval B sig e; let u := ulp B sig e p
          some (verdictStr (fun ex => certExpm1 B x sig e p ex fuel (effort0 (absR r + 1) u)) exact text (bucket (expm1Encl x) r u))
        else none
      | .ln =>
        if e.natAbs ≤ maxExpAbs then
          let r := fval B sig e; let u := ulp B sig e p
          some (verdictStr (fun ex => certLn B x sig e p ex fuel (effort0 1 u + 16)) exact text (bucket (lnEncl x) r u))
        else none
      | .ln1p =>
        if e.natAbs ≤ maxExpAbs then
          let r := fval B sig e; let u := ulp B sig e p
          some (verdictStr (fun ex => certLn1p B x sig e p ex fuel (effort0 1 u + 16)) exact text (bucket (lnEncl (1 + x)) r u))
        else none
  | .panic _ => some "required a-value-within-1ulp (no documented panic applies to this input)"
  | .other t => some ("required a-value-within-1ulp; observed " ++ t)

def toFloatMode : RMode → Dashu.Model.Float.Mode
  | .zero => .zero | .away => .away | .up => .up | .down => .down
  | .halfEven => .halfEven | .halfAway => .halfAway

/-! ### the series mirror -/

def mirrorFuel : Nat := 1000000

def envOf (a : FArg) : Env := ⟨a.base, toFloatMode a.mode, Dashu.Model.Float.coarseNone, Dashu.Driver.TransEst.est a.base⟩

def mFlagStr : Option Dashu.Model.Float.Rounding → String
  | none => "Exact"
  | some r => "Inexact:" ++ Dashu.Model.Float.rName r

/-- operands whose mirror run stays cheap: moderate exponents (the scaling of `ln` builds `2^s`) -/
def mirrorable (a : FArg) : Bool := !a.x.inf && a.x.exp.natAbs ≤ 20000

/-- cost rule of the mirror run (the model's digit counting is a division loop: ~0.1 s at 256 digits, ~5–40 s at
    1024 digits of base 36, minutes at 3000).  The EFFECTIVE precision of a run is `p`, or — for `ln` / `ln_1p` /
    the base of `powf` outside base 2 — the digit count of `2^s` (`FBig::from(IBig::ONE << s)` carries it as its
    precision and `Context::max` hands it on to the whole series), i.e. about `|log_B x|`.  Every case with
    `eff·⌊log2 B⌋ ≤ 1700` is mirrored (all precisions up to 1024 in bases 2 and 3, up to 566 in base 10, 340 in base 36),
    one case in eight (chosen by the operand's significand, so reproducibly) up to `eff·⌊log2 B⌋ ≤ 2600` (round 5: was
    5300 — such a run takes 10–26 s of CPU and was reported as `hang` by the quick tier's 60 s watchdog on a machine
    loaded five-fold), none above; cases not mirrored carry the annotation `+mirror-skip` and are decided by the
    certificate alone, as before -/
def mirrorBudget (a : FArg) (p : Nat) (lnLike : Bool) : Bool :=
  let top := (a.x.exp + (digits a.base a.x.sig.natAbs : Int)).natAbs
  let eff := if lnLike ∧ a.base ≠ 2 then max p top else p
  eff * a.base.log2 ≤ 1700 || (eff * a.base.log2 ≤ 2600 && a.x.sig.natAbs % 8 == 1)

/-- put `tag` into the key of the first annotation of an `ok` line (`… #cert-n=5` ↦ `… #cert-n+tag=5 …`) -/
def annotate (s tag rest : String) : String :=
  match s.splitOn " #" with
  | h :: a :: more =>
    let key := a.takeWhile (fun c => c != '=' && c != ' ')
    " #".intercalate ((h ++ " #" ++ key.toString ++ "+" ++ tag ++ (a.drop key.toString.length).toString ++ rest) :: more)
  | _ => s ++ " #" ++ tag ++ rest

/-- compare the mirror's result with the claim -/
def mirrorCmp (name : String) (res : Except String (Dashu.Model.Float.Rounded Dashu.Model.Float.FBigM × Trace))
    (claim : Option (List String)) (s : String) : String :=
  if !s.startsWith "ok " then s
  else
    match claim.map parseClaim with
    | some (.value sig e _ _ text) =>
      let cf := (text.splitOn " ").getLast!
      let drift (m : String) : String :=
        (s.splitOn " #").head! ++ " mirror-drift:" ++ name ++ "(Model/Trans/Series.lean) model=" ++ m
      match res with
      | .ok ((v, fl), tr) =>
        if v.repr.signif = sig ∧ v.repr.exp = e ∧ mFlagStr fl = cf then
          annotate s "mirror-ok" (" w=" ++ toString tr.workPrec ++ " k=" ++ toString tr.lastK)
        else drift (intToHex v.repr.signif ++ "," ++ toString v.repr.exp ++ "," ++ mFlagStr fl)
      | .error msg =>
        if msg.startsWith "fuel" then annotate s "mirror-fuel" "" else drift (msg.replace " " "_")
    | _ => s

/-- instrumented copy of `expLoop` (`Model/Trans/Series.lean`) for the per-case check of the hypotheses of
    `Props/C11Series.expLoop_step_bound`: beside the last index it returns the largest `digits − digits_lb` over the
    partial sums the stop test (`sum.sub_ulp()`) is applied to — the `cS` of hypothesis `DlbTight` as far as this run
    uses it -/
def expLoopSlack (E : Env) (r : Dashu.Model.Float.FBigM) :
    Nat → Int → Dashu.Model.Float.FBigM → Dashu.Model.Float.FBigM → Nat → Nat → Option (Nat × Nat)
  | 0, _, _, _, _, _ => none
  | fuel + 1, factorial, pow, sum, k, acc =>
    let acc := max acc (Dashu.Model.Float.digitsI E.B sum.repr.signif - E.est.dlb sum.repr.signif)
    let factorial := factorial * (k : Int)
    let pow := fMul E pow r
    match fDiv E pow (fOfInt E.B factorial) with
    | .error _ => none
    | .ok increase =>
      if reprAbsCmp E.B increase.repr (fSubUlp E sum) ≠ .gt then some (acc, k)
      else expLoopSlack E r fuel factorial pow (fAddSub E sum increase 1) (k + 1) acc

/-- per-case check of `Props/C11Series.expLoop_step_bound` on the scaled branch of `exp_internal`: the hypotheses
    (`0 < r`, `r ≤ B^(−u)` with `u ≥ 1` read off the digit position of `r`, `r` held at a precision `w ≥ 1`,
    `digits ≤ digits_lb + cS` on every partial sum) are evaluated on this case, and the conclusion (`k = 2` or
    `u·(k−1) < w + cS + 1`) is compared with the index the mirrored loop ended at.  `none` = hypotheses not met
    (unscaled `exp_m1` branch, `u = 0`); `some (true, …)` = bound holds; `some (false, …)` contradicts the theorem. -/
def expBoundCheck (E : Env) (x : Dashu.Model.Float.FRepr) (minusOne : Bool) (a : Nat × Int × Nat × Dashu.Model.Float.FBigM)
    (lastK : Nat) : Option (Bool × String) :=
  if minusOne && E.est.belowInvBase x then none
  else
    let (_, _, n, r0) := a
    let r := fShl r0 (-(n : Int))
    -- the `w` of the theorem is the precision `r` is held at (`≥` the context's working precision: the remainder of
    -- `div_rem_euclid` carries `Context::max` of the operand precisions, and `ln B` carries iacoth's guard digits)
    let w := r.prec
    let top : Int := r.repr.exp + (Dashu.Model.Float.digitsI E.B r.repr.signif : Int)
    if r.repr.signif ≤ 0 ∨ top ≥ 0 ∨ w = 0 then none
    else
      let u := (-top).toNat
      match expLoopSlack E r mirrorFuel 1 r (fAddSub E Dashu.Model.Float.FBigM.one r 1) 2 0 with
      | none => none
      | some (cS, k) =>
        let txt := " u=" ++ toString u ++ " slack=" ++ toString cS ++ " kmax=" ++ toString ((w + cS) / u + 1)
        some (k = lastK ∧ (k = 2 ∨ u * (k - 1) < w + cS + 1), txt)

/-- the mirrored `exp_internal` (= `expBody`: `expReduce` then `expTail`) with the step-bound check -/
def expMirror (E : Env) (p : Nat) (x : Dashu.Model.Float.FRepr) (minusOne : Bool) (claim : Option (List String))
    (s : String) : String :=
  match expReduce mirrorFuel E p x minusOne with
  | .error e => mirrorCmp "exp_internal" (.error e) claim s
  | .ok a =>
    let res := expTail mirrorFuel E p x minusOne a
    let out := mirrorCmp "exp_internal" res claim s
    match res with
    | .ok (_, tr) =>
      (match expBoundCheck E x minusOne a tr.lastK with
        | none => out
        | some (true, txt) => annotate out "bound-ok" txt
        | some (false, txt) => (out.splitOn " #").head! ++ " !model-spec-mismatch step-bound(Props/C11Series.expLoop_step_bound)" ++ txt)
    | .error _ => out

/-- does the entry reach the numerical body? -/
def expEntryOrLn (fn : Fn) (a : FArg) (p : Nat) : Bool :=
  (match fn with
    | .exp => expEntry false a.x p
    | .expm1 => expEntry true a.x p
    | .ln => lnEntry a.base false a.x p
    | .ln1p => lnEntry a.base true a.x p) == .compute

def unaryMirror (fn : Fn) (a : FArg) (p : Nat) (claim : Option (List String)) (s : String) : String :=
  if p = 0 ∨ !mirrorable a ∨ !s.startsWith "ok " then s
  else if !mirrorBudget a p (fn == .ln || fn == .ln1p) then (if expEntryOrLn fn a p then annotate s "mirror-skip" "" else s)
  else
    let x : Dashu.Model.Float.FRepr := ⟨a.x.sig, a.x.exp⟩
    let en := match fn with
      | .exp => expEntry false a.x p
      | .expm1 => expEntry true a.x p
      | .ln => lnEntry a.base false a.x p
      | .ln1p => lnEntry a.base true a.x p
    if en != .compute then s
    else
      let E := envOf a
      match fn with
      | .exp => expMirror E p x false claim s
      | .expm1 => expMirror E p x true claim s
      | .ln => mirrorCmp "ln_internal" (lnBody mirrorFuel E p x false) claim s
      | .ln1p => mirrorCmp "ln_internal" (lnBody mirrorFuel E p x true) claim s

def powfMirror (a b : FArg) (p : Nat) (claim : Option (List String)) (s : String) : String :=
  if p = 0 ∨ !mirrorable a ∨ !mirrorable b ∨ !s.startsWith "ok " ∨ powfEntry a.x b.x p != .compute then s
  else if !mirrorBudget a p true then annotate s "mirror-skip" ""
  else mirrorCmp "powf" (powfBody mirrorFuel (envOf a) p ⟨a.x.sig, a.x.exp⟩ ⟨b.x.sig, b.x.exp⟩) claim s

def entryStr (en : Entry) (a : FArg) (p : Nat) (k : Unit → Option String) : Option String :=
  match en with
  | .panic kd => some (Dashu.Driver.panic kd.name)
  | .exactConst c => some (ok (intToHex c ++ " 0 0 Exact"))
  | .roundArg =>
    let r := roundSpec a.base a.mode p a.x.sig a.x.exp
    some (ok (intToHex r.1 ++ " " ++ toString r.2.1 ++ " " ++ toString p ++ " " ++ flagStr r.2.2))
  | .compute => k ()

/-- does `floor (x / ln B)` leave the range of `isize`?  `some true` / `some false` when an enclosure of `ln B`
    decides, `none` when the budget is used up -/
def overflowTest (B : Nat) (x : Rat) : Nat → Nat → Option Bool
  | 0, _ => none
  | fuel + 1, n =>
    let l := lnEncl (B : Rat) n
    let lim : Rat := ((2 ^ 63 : Nat) : Rat)
    if 0 < x then
      (if x / l.1 < lim then some false else if x / l.2 ≥ lim then some true else overflowTest B x fuel (2 * n + 64))
    else
      (if x / l.1 ≥ -lim then some false else if x / l.2 < -lim then some true else overflowTest B x fuel (2 * n + 64))

def unaryCore (fn : Fn) (a : FArg) (p : Nat) (claim : Option (List String)) : Option String :=
  if !a.x.inf ∧ !a.small ∧ fn == .ln ∧ p ≠ 0 ∧ 0 < a.x.sig then
    -- ln of a float whose exponent is too large to write the value down: log (sig·B^ex) = log sig + ex·log B
    (do
      let c ← claim
      match parseClaim c with
      | .value sig e prec exact text =>
        if !claimShapeOk a.base p sig prec then some ("violation result-does-not-fit-context-precision " ++ text)
        else
          let r := fval a.base sig e; let u := ulp a.base sig e p
          some (verdictStr (fun ex => certLnFloat a.base a.x.sig a.x.exp sig e p ex fuel (effort0 1 u + 16)) exact text
            (bucket (lnFloatEncl a.base a.x.sig a.x.exp) r u))
      | .panic _ => some "required a-value-within-1ulp (no documented panic applies to this input)"
      | .other t => some ("required a-value-within-1ulp; observed " ++ t))
  else
  if !a.x.inf ∧ !a.small then none else
  let en := match fn with
    | .exp => expEntry false a.x p
    | .expm1 => expEntry true a.x p
    | .ln => lnEntry a.base false a.x p
    | .ln1p => lnEntry a.base true a.x p
  entryStr en a p fun _ =>
    if (fn == .exp ∨ fn == .expm1) ∧ a.small ∧ absR a.val ≥ ((2 ^ 61 : Nat) : Rat) then
      -- s = floor(x / ln B) must fit `isize` (-2^63 ≤ x / ln B < 2^63); beyond that the result's exponent cannot be
      -- represented and the overflow panic is required.  Decided with enclosures of ln B of growing effort
      -- (x / ln B is irrational, so the test ends unless the budget is hit).
      match overflowTest a.base a.val 4 96 with
      | some true => some (Dashu.Driver.panic "ExponentOverflow")
      | some false => do let c ← claim; certUnary fn a p (parseClaim c)
      | none => none
    else do
      let c ← claim
      certUnary fn a p (parseClaim c)

/-- tie of the mirrored powering loop (`Model/Trans/Powi.lean`, subject of `Props/C11Powi.lean`) to the code:
    for a non-negative exponent `n ≥ 2` at a limited precision the loop model must print the very digits the
    implementation printed (a mismatch means the code no longer runs this loop: `mirror-drift`, reported by
    ./check as a broken correspondence without failing input when the certificate still accepts the result) -/
def powiMirror (a : FArg) (k : Int) (p : Nat) (claim : Option (List String)) (s : String) : String :=
  if (0 ≤ k ∧ k < 2) ∨ p = 0 ∨ a.x.inf ∨ k.natAbs.log2 > 200 ∨ (k < 0 ∧ a.x.sig = 0) then s
  else
    match claim.map parseClaim with
    | some (.value sig e _ _ _) =>
      let r : Dashu.Model.Float.FRepr :=
        if 0 ≤ k then
          (powiNonneg false a.base (toFloatMode a.mode) Dashu.Model.Float.coarseNone p
                  ⟨a.x.sig, a.x.exp⟩ (lowBits k.toNat)).2.1
        else
          match powiNeg false a.base (toFloatMode a.mode) Dashu.Model.Float.coarseNone p
                  ⟨a.x.sig, a.x.exp⟩ k.natAbs with
          | .ok v => v.2.2.1
          | .error _ => ⟨0, 0⟩
      if r.signif = sig ∧ r.exp = e then s
      else
        -- the code no longer runs the mirrored loop (e.g. other guard digits): the certificate verdict in `s`
        -- stands on its own; the drift is made visible in the compared payload (vlib/props/c11.py `judge`)
        (s.splitOn " #").head! ++ " mirror-drift:powi-loop(Model/Trans/Powi.lean) model=" ++ intToHex r.signif ++ "," ++
          toString r.exp
    | _ => s

def powi (a : FArg) (k : Int) (p : Nat) (claim : Option (List String)) : Option String :=
  (fun r => r.map (powiMirror a k p claim)) <|
  entryStr (powiEntry a.x k p) a p fun _ =>
    if a.x.sig = 0 ∧ k < 0 then some (Dashu.Driver.panic "DivideByZero")
    else do
      let c ← claim
      match parseClaim c with
      | .value sig e prec exact text =>
        if p ≠ 0 ∧ !claimShapeOk a.base p sig prec then
          some ("violation result-does-not-fit-context-precision " ++ text)
        else if !a.small then none
        else
        -- a base in {0, 1, −1}: the power depends on sign and parity of the exponent only
        -- (`Props/C11Powi.unit_base_zpow_reduce`), so exponents of any size are decided exactly
        let k := if (a.val = 0 ∨ a.val = 1 ∨ a.val = -1) ∧ k.natAbs ≥ 4 then unitExp k else k
        if e.natAbs > 4000000 ∨ (a.val.num.natAbs.log2 + a.val.den.log2 + 2) * k.natAbs > 20000000 then
          -- the exact rational power is too large to write down: x^k = exp(k·ln x) for a positive base
          -- (`checkedPowiBig_sound`), compared after scaling by B^e
          if p = 0 ∨ a.val ≤ 0 then none
          else
            let B := a.base; let x := a.val; let y : Rat := (k : Rat)
            let aiv := scaleRat y (lnEncl x (64 + magBits y))
            let amax := if absR aiv.1 < absR aiv.2 then absR aiv.2 else absR aiv.1
            if amax ≥ ((2 ^ 62 : Nat) : Rat) then none
            else
              let u := ulpScaled B sig p
              some (verdictStr (fun ex => certPowfScaled B x y sig e p ex fuel (effort0 (absR sig) u)) exact text
                (fun n => if n = 0 then "error>=16ulp(exponent-far-off)" else bucket (powfScaledEncl B x y e) sig u n))
        else if p = 0 then
          -- unlimited precision, non-negative exponent: the result must be exact
          some (if fval a.base sig e = powiExact a.val k ∧ exact then ok text
                else "violation unlimited-precision-power-not-exact " ++ text)
        else
          some (exactStr (fun ex => certPowi a.base a.val k sig e p ex) a.base (powiExact a.val k) sig e p exact text)
      | .panic _ => some "required a-value-within-1ulp (no documented panic applies to this input)"
      | .other t => some ("required a-value-within-1ulp; observed " ++ t)

/-- `powf` of a base whose exponent is too large to write the value down (`(1.5·2^-1048576)^0.75`): the base stays
    a float, `log (sig·B^ex) = log sig + ex·log B` (`Model/Trans/CertFloat.lean`, `Props/C11Float.lean`); the
    base is positive here (entry guard) -/
def powfFloat (a b : FArg) (p : Nat) (claim : Option (List String)) : Option String :=
  let B := a.base; let y := b.val
  let aiv := scaleRat y (lnFloatEncl B a.x.sig a.x.exp (64 + magBits y))
  let amin := if aiv.1 ≤ 0 ∧ 0 ≤ aiv.2 then 0 else if absR aiv.1 < absR aiv.2 then absR aiv.1 else absR aiv.2
  let amax := if absR aiv.1 < absR aiv.2 then absR aiv.2 else absR aiv.1
  let lB := lnEncl (B : Rat) 96
  let lim : Rat := ((2 ^ 63 : Nat) : Rat)
  if amin / lB.2 ≥ lim + 2 then some (Dashu.Driver.panic "ExponentOverflow")
  else if amax / lB.1 ≥ lim - 2 then none
  else do
    let c ← claim
    match parseClaim c with
    | .value sig e prec exact text =>
      if !claimShapeOk B p sig prec then some ("violation result-does-not-fit-context-precision " ++ text)
      else
        let u := ulpScaled B sig p
        some (verdictStr (fun ex => certPowfFloatScaled B a.x.sig a.x.exp y sig e p ex fuel (effort0 (absR sig) u)) exact text
          (fun n => if n = 0 then "error>=16ulp(exponent-far-off)" else bucket (powfFloatScaledEncl B a.x.sig a.x.exp y e) sig u n))
    | .panic _ => some "required a-value-within-1ulp (no documented panic applies to this input)"
    | .other t => some ("required a-value-within-1ulp; observed " ++ t)

def powfCore (a b : FArg) (p : Nat) (claim : Option (List String)) : Option String :=
  entryStr (powfEntry a.x b.x p) a p fun _ =>
    if b.x.inf then some (Dashu.Driver.panic "Infinite")
    else if !b.small then none
    else if !a.small then powfFloat a b p claim
    else
      -- |y · ln x| against the range of the exponent type
      let aiv := scaleRat b.val (lnEncl a.val (64 + magBits b.val))
      let amin := if aiv.1 ≤ 0 ∧ 0 ≤ aiv.2 then 0 else if absR aiv.1 < absR aiv.2 then absR aiv.1 else absR aiv.2
      let amax := if absR aiv.1 < absR aiv.2 then absR aiv.2 else absR aiv.1
      -- the result's exponent ≈ y·ln x / ln B must fit `isize` (decided with an enclosure of ln B)
      let lB := lnEncl (a.base : Rat) 96
      let lim : Rat := ((2 ^ 63 : Nat) : Rat)
      if amin / lB.2 ≥ lim + 2 then some (Dashu.Driver.panic "ExponentOverflow")
      else if amax / lB.1 ≥ lim - 2 then none
      else do
      let c ← claim
      match parseClaim c with
      | .value sig e prec exact text =>
        let B := a.base
        if !claimShapeOk B p sig prec then some ("violation result-does-not-fit-context-precision " ++ text)
        else if !a.small ∨ !b.small then none
        else
          let x := a.val; let y := b.val
          -- exact path: x = s^(den y) for a rational s (integer y: s = x) and a power of moderate size
          let root : Option Rat :=
            if y.den ≤ 64 ∧ (x.num.natAbs.log2 + x.den.log2 + 2) * y.num.natAbs ≤ 4000000 * y.den
            then ratRoot y.den x else none
          match root with
          | some s => some (exactStr (fun ex => certPowfExact B s y sig e p ex) B (s ^ y.num) sig e p exact text)
          | none =>
          -- |y · log2 x| decides between the direct and the scaled comparison
          let lg : Rat := (absR (log2Rat x : Rat) + 1) * absR y
          if lg ≤ 4096 ∧ e.natAbs ≤ maxExpAbs then
            let r := fval B sig e; let u := ulp B sig e p
            some (verdictStr (fun ex => certPowf B x y sig e p ex fuel (effort0 (absR r) u)) exact text (bucket (powfEncl x y) r u))
          else
            let u := ulpScaled B sig p
            some (verdictStr (fun ex => certPowfScaled B x y sig e p ex fuel (effort0 (absR sig) u)) exact text
              (fun n => if n = 0 then "error>=16ulp(exponent-far-off)" else bucket (powfScaledEncl B x y e) sig u n))
      | .panic _ => some "required a-value-within-1ulp (no documented panic applies to this input)"
      | .other t => some ("required a-value-within-1ulp; observed " ++ t)

def unary (fn : Fn) (a : FArg) (p : Nat) (claim : Option (List String)) : Option String :=
  (unaryCore fn a p claim).map (unaryMirror fn a p claim)

def powf (a b : FArg) (p : Nat) (claim : Option (List String)) : Option String :=
  (powfCore a b p claim).map (powfMirror a b p claim)

def fnOf (s : String) : Option Fn :=
  match s with
  | "exp" => some .exp | "exp_m1" => some .expm1 | "ln" => some .ln | "ln_1p" => some .ln1p | _ => none

/-- `FBig::from_repr` precondition of the `f.*` ops -/
def fits (a : FArg) : Bool := a.x.inf || a.prec == 0 || digits a.base a.x.sig.natAbs ≤ a.prec

def run (kind name : String) (pre : List String) (claim : Option (List String)) : Option String :=
  match kind, name, pre with
  | "f", "powi", [xs, ks] => do
    let a ← parseF xs; let k ← parseInt (if ks.startsWith "k:" then (ks.drop 2).toString else ks)
    if !fits a then none
    powi a k a.prec claim
  | "c", "powi", [xs, ks, ps] => do
    let a ← parseF xs; let k ← parseInt (if ks.startsWith "k:" then (ks.drop 2).toString else ks)
    let p ← parseDecNat ps
    powi a k p claim
  | "f", "powf", [xs, ys] => do
    let a ← parseF xs; let b ← parseF ys
    if a.base != b.base ∨ a.mode != b.mode ∨ !fits a ∨ !fits b then none
    powf a b (max a.prec b.prec) claim
  | "c", "powf", [xs, ys, ps] => do
    let a ← parseF xs; let b ← parseF ys; let p ← parseDecNat ps
    if a.base != b.base ∨ a.mode != b.mode then none
    powf a b p claim
  | "f", fnn, [xs] => do
    let fn ← fnOf fnn; let a ← parseF xs
    if !fits a then none
    unary fn a a.prec claim
  | "c", fnn, [xs, ps] => do
    let fn ← fnOf fnn; let a ← parseF xs; let p ← parseDecNat ps
    unary fn a p claim
  | _, _, _ => none

/-- violations name the operation (the known-finding predicates key on it) -/
def tagOp (kind name : String) (r : Option String) : Option String :=
  r.map fun s => if s.startsWith "violation " then s ++ " op=" ++ kind ++ "." ++ name else s

/-- `tie.formula <name> s:<utf-8 bytes of the statement found in the source>`: prints the statement the mirror
    was written against (`Model/Trans/SourceText.lean`); the harness echoes the statement found, so a changed
    source statement is a disagreement (judged as broken correspondence by `c11.py`) -/
def tieFormula (args : List String) : Option String :=
  match args with
  | [name, _found] => (sourceFormula? name).map fun t => ok (bytesToStr t.toUTF8.toList)
  | _ => none

def dispatch : Dispatch := fun _W op args =>
  if op == "tie.formula" then tieFormula args else
  let (pre, claim) := splitClaim args
  match op.splitOn "." with
  | ["obs", kind, name] =>
    -- an outcome without a result (hang / crash) observed by the first pass: print what is required
    match run kind name pre none with
    | some s => some s
    | none => some "required a-value-within-1ulp-or-a-documented-panic"
  | [kind, name] => tagOp kind name (run kind name pre claim)
  | _ => none

end Dashu.Driver.Trans
