import Dashu.Driver.Bits
import Dashu.Model.Panic.GuardsMore
/-
  C09 (round 5, addendum E1): `<<`, `set_bit`, `ones` with a count from 2^32 up to `usize::MAX`.  The result would have
  ≥ 2^26 words, so these ops cannot be evaluated by value; what CAN be decided — and is cheap in the real code — is
    * a zero operand of `<<` (arm `Small(0) => Repr::zero()`): the result is 0 for every count;
    * a count whose allocation request exceeds `Buffer::MAX_CAPACITY`: `Buffer::allocate` / `reallocate` panic with
      `panic_allocate_too_much` before anything is allocated.  The request per arm (`shl_one_spilled`: idx + 1,
      `shl_dword_spilled`: shift_words + 3, `shl_large(_ref)`: shift_words + len + 1, `with_bit_dword_spilled` /
      `with_bit_large`: idx + 1, `Repr::ones`: n / W + 1) is C16's mirrored `shlRequest` / `setBitRequest` / `onesRequest`
      with its guard `guardRequest` (Model/Panic/GuardsMore.lean; theorems `Props/C16.{shl,ishl}_alloc_guard_partial,
      set_bit_alloc_guard, ones_alloc_guard`) — linked by import, not re-modelled.
  Any other huge count (the allocator would really be asked for ≥ 2^26 words) is answered `bad-op`: the generator must
  not produce it.  Counts below 2^32 fall through to the ordinary driver (`none`).
-/
namespace Dashu.Driver.BitsHuge
open Dashu.IO Dashu.Model Dashu.Driver Dashu.Driver.Bits

/-- counts from which the ordinary (by-value) driver is not used -/
def hugeFrom : Nat := 2 ^ 32

def verdict (W : Nat) (op : String) (req : Option Nat) : String :=
  match Dashu.Model.Panic.guardRequest W req with
  | .error _ => "panic AllocTooMuch"
  | .ok () => "bad-op " ++ op ++ " huge-count-below-the-capacity-guard"

def dispatchHuge : Dispatch := fun W op args =>
  match op.splitOn ".", args with
  | ["u", "shl"], [a, n] => do
    let x ← parseNat a; let k ← parseUsize n
    if k < hugeFrom then none
    else if x = 0 then pure (chk (outU W ((ofNat W 0).shl W k)) "ok 0")
    else pure (verdict W op (Dashu.Model.Panic.shlRequest W x k))
  | ["i", "shl"], [a, n] => do
    let x ← parseInt a; let k ← parseUsize n
    if k < hugeFrom then none
    else if x = 0 then pure (chk (outS W (ibigShl W (sOfInt W 0) k)) "ok 0")
    else pure (verdict W op (Dashu.Model.Panic.shlRequest W x.natAbs k))
  | ["u", "setbit"], [a, n] => do
    let x ← parseNat a; let k ← parseUsize n
    if k < hugeFrom then none
    else pure (verdict W op (Dashu.Model.Panic.setBitRequest W x k))
  | ["u", "ones"], [n] => do
    let k ← parseUsize n
    if k < hugeFrom then none
    else pure (verdict W op (Dashu.Model.Panic.onesRequest W k))
  | _, _ => none

/-- the group's dispatch with the huge-count front end -/
def dispatch : Dispatch := fun W op args =>
  match dispatchHuge W op args with
  | some r => some r
  | none => Dashu.Driver.Bits.dispatch W op args

end Dashu.Driver.BitsHuge
