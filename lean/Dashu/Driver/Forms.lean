import Dashu.Driver.Loop
import Dashu.Model.Int.Repr
/-
  Driver of group `forms` (C15, C16): the REQUIRED result of an operation identified by
  (family, kind of lhs, kind of rhs) on integer values — every call form of that operation in the
  implementation must return exactly this (or panic with exactly this documented kind).
  Kinds: `U` = UBig semantics (unsigned; subtraction below zero panics), `I` = IBig semantics,
  `S` = machine shift amount.  Bit operations are infinite two's complement, computed here
  independently of dashu's magnitude tricks: both operands are reduced modulo 2^w for a width `w`
  larger than both bit lengths, combined as naturals, and read back as a signed w-bit number.
-/
namespace Dashu.Driver.Forms
open Dashu.IO Dashu.Model Dashu.Driver

def width (x y : Int) : Nat := max (Nat.log2 x.natAbs) (Nat.log2 y.natAbs) + 3

def toTC (w : Nat) (x : Int) : Nat := (x % (2 ^ w : Int)).toNat
def ofTC (w : Nat) (n : Nat) : Int := if n ≥ 2 ^ (w - 1) then (n : Int) - (2 ^ w : Int) else n

def bitop (f : Nat → Nat → Nat) (x y : Int) : Int :=
  let w := width x y
  ofTC w (f (toTC w x) (toTC w y))

def okI (i : Int) : String := ok (intToHex i)
def okII (i j : Int) : String := ok (intToHex i ++ " " ++ intToHex j)

def expected (fam lk rk : String) (a b : Int) : Option String :=
  let unsignedOp := lk == "U" && rk == "U"
  match fam with
  | "add" => some (okI (a + b))
  | "sub" => some (if unsignedOp && a < b then panic "NegativeUBig" else okI (a - b))
  | "mul" => some (okI (a * b))
  | "div" => some (if b = 0 then panic "DivideByZero" else okI (Int.tdiv a b))
  | "rem" => some (if b = 0 then panic "DivideByZero" else okI (Int.tmod a b))
  | "divrem" => some (if b = 0 then panic "DivideByZero" else okII (Int.tdiv a b) (Int.tmod a b))
  | "diveuclid" => some (if b = 0 then panic "DivideByZero" else okI (a / b))
  | "remeuclid" => some (if b = 0 then panic "DivideByZero" else okI (a % b))
  | "divremeuclid" => some (if b = 0 then panic "DivideByZero" else okII (a / b) (a % b))
  | "bitand" => some (okI (bitop (· &&& ·) a b))
  | "bitor" => some (okI (bitop (· ||| ·) a b))
  | "bitxor" => some (okI (bitop (· ^^^ ·) a b))
  | "shl" => if b < 0 then none else some (okI (a * (2 ^ b.toNat : Int)))
  | "shr" => if b < 0 then none else some (okI (a >>> b.toNat))
  | "gcd" | "gcdext" =>
    some (if a = 0 ∧ b = 0 then panic "GcdZeroZero" else okI (Nat.gcd a.natAbs b.natAbs))
  | _ => none

/-- `Iterator::fold(init, op)` over the items: the shape every `Sum` / `Product` impl has
    (`Props/C15Forms.fold_forms`, `sum_is_left_fold`) -/
def foldForm {α : Type} (op : α → α → α) (init : α) (xs : List α) : α := xs.foldl op init

def dispatch : Dispatch := fun _W op args =>
  match op, args with
  | "form", [fam, lk, rk, a, b] => do
    let x ← parseInt a; let y ← parseInt b
    if lk == "U" && x < 0 then none
    else if rk == "U" && y < 0 then none
    else expected fam lk rk x y
  | "clone.u", [a, _b] => do
    let x ← parseNat a
    pure (ok (natToHex x ++ " " ++ natToHex x ++ " " ++ natToHex (x + 1) ++ " " ++ natToHex (3 * x)))
  | "clone.i", [a, _b] => do
    let x ← parseInt a
    pure (ok (intToHex x ++ " " ++ intToHex x ++ " " ++ intToHex (x + 1) ++ " " ++ intToHex (-3 * x)))
  -- dashu-ratio / dashu-float tables: the requirement of C15 is that all forms agree (same value or
  -- same panic kind); the value itself is decided in the ratio / float groups (C04, C03)
  | "rform", [_fam, q, na, da, nb, db] => do
    let _ ← parseInt na; let d1 ← parseNat da; let _ ← parseInt nb; let d2 ← parseNat db
    if d1 = 0 ∨ d2 = 0 then none
    else if q == "R" || q == "X" then pure (ok "agree") else none
  -- `Sum` / `Product` (iter.rs of the three crates: `iter.fold(INIT, OP)`, Gen/FormsGlue `*_Sum_fn`, `*_impl_fold_iter_fn`):
  -- the left fold of the operator over the items; integers by value, floats by agreement of the forms
  -- (rational/src/iter.rs is not compiled into dashu-ratio at this commit: no `mod iter;`)
  | "fold", ty :: kind :: items =>
    if kind != "sum" && kind != "product" then none
    else if ty == "u" || ty == "i" then do
      let xs ← items.mapM parseInt
      if ty == "u" && xs.any (· < 0) then none
      else pure (okI (if kind == "sum" then foldForm (· + ·) 0 xs else foldForm (· * ·) 1 xs))
    else if ty == "z2" || ty == "h10" then some (ok "agree")
    else none
  | "fform", inst :: _fam :: shape :: _ =>
    if (inst == "z2" || inst == "h10") && (shape == "FF" || shape == "FN" || shape == "NF" || shape == "FS")
    then some (ok "agree") else none
  | _, _ => none

end Dashu.Driver.Forms
