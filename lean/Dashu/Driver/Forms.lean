import Dashu.Driver.Loop
import Dashu.Model.Int.Repr
import Dashu.Driver.FormsMore
/-
  Driver of group `forms` (C15, C16): the REQUIRED result of an operation identified by
  (family, kind of lhs, kind of rhs) on integer values — every call form of that operation in the
  implementation must return exactly this (or panic with exactly this documented kind).
  Kinds: `U` = UBig semantics (unsigned; subtraction below zero panics), `I` = IBig semantics,
  `S` = machine shift amount.  Bit operations are infinite two's complement, computed here
  independently of dashu's magnitude tricks: both operands are reduced modulo 2^w for a width `w`
  larger than both bit lengths, combined as naturals, and read back as a signed w-bit number.
-/
namespace Dashu.Driver.Forms
open Dashu.IO Dashu.Model Dashu.Driver

def width (x y : Int) : Nat := max (Nat.log2 x.natAbs) (Nat.log2 y.natAbs) + 3

def toTC (w : Nat) (x : Int) : Nat := (x % (2 ^ w : Int)).toNat
def ofTC (w : Nat) (n : Nat) : Int := if n ≥ 2 ^ (w - 1) then (n : Int) - (2 ^ w : Int) else n

def bitop (f : Nat → Nat → Nat) (x y : Int) : Int :=
  let w := width x y
  ofTC w (f (toTC w x) (toTC w y))

def okI (i : Int) : String := ok (intToHex i)
def okII (i j : Int) : String := ok (intToHex i ++ " " ++ intToHex j)

def expected (fam lk rk : String) (a b : Int) : Option String :=
  let unsignedOp := lk == "U" && rk == "U"
  match fam with
  | "add" => some (okI (a + b))
  | "sub" => some (if unsignedOp && a < b then panic "NegativeUBig" else okI (a - b))
  | "mul" => some (okI (a * b))
  | "div" => some (if b = 0 then panic "DivideByZero" else okI (Int.tdiv a b))
  | "rem" => some (if b = 0 then panic "DivideByZero" else okI (Int.tmod a b))
  | "divrem" => some (if b = 0 then panic "DivideByZero" else okII (Int.tdiv a b) (Int.tmod a b))
  | "diveuclid" => some (if b = 0 then panic "DivideByZero" else okI (a / b))
  | "remeuclid" => some (if b = 0 then panic "DivideByZero" else okI (a % b))
  | "divremeuclid" => some (if b = 0 then panic "DivideByZero" else okII (a / b) (a % b))
  | "bitand" => some (okI (bitop (· &&& ·) a b))
  | "bitor" => some (okI (bitop (· ||| ·) a b))
  | "bitxor" => some (okI (bitop (· ^^^ ·) a b))
  | "shl" =>
    if b < 0 then none
    else if a = 0 then some (okI 0)                       -- `RefSmall(0) => Repr::zero()` for every amount
    else if b ≥ 2 ^ 48 then
      -- a result of more than 2^42 words is never built: `Buffer::allocate(n)` refuses `n > MAX_CAPACITY = usize::MAX / 64`
      -- (AllocTooMuch), below that the allocation itself fails (OutOfMemory).  `n` as in integer/src/shift_ops.rs:
      -- shl_one_spilled `idx + 1`, shl_dword_spilled `shift_words + 3`, shl_large_ref `shift_words + len + 1`
      let sw := b.toNat / 64
      let mag := a.natAbs
      let need := if mag = 1 then sw + 1 else if mag < 2 ^ 128 then sw + 3 else sw + (Nat.log2 mag / 64 + 1) + 1
      some (panic (if need > (2 ^ 64 - 1) / 64 then "AllocTooMuch" else "OutOfMemory"))
    else some (okI (a * (2 ^ b.toNat : Int)))
  | "shr" =>
    if b < 0 then none
    else if b.toNat > Nat.log2 a.natAbs + 1 then some (okI (if a < 0 then -1 else 0))   -- all bits shifted out (floor)
    else some (okI (a >>> b.toNat))
  | "gcd" | "gcdext" =>
    some (if a = 0 ∧ b = 0 then panic "GcdZeroZero" else okI (Nat.gcd a.natAbs b.natAbs))
  | _ => none

/-- `Iterator::fold(init, op)` over the items: the shape every `Sum` / `Product` impl has
    (`Props/C15Forms.fold_forms`, `sum_is_left_fold`) -/
def foldForm {α : Type} (op : α → α → α) (init : α) (xs : List α) : α := xs.foldl op init

def dispatch : Dispatch := fun _W op args =>
  match op, args with
  | "form", [fam, lk, rk, a, b] => do
    let x ← parseInt a; let y ← parseInt b
    if lk == "U" && x < 0 then none
    else if rk == "U" && y < 0 then none
    else expected fam lk rk x y
  | "clone.u", [a, _b] => do
    let x ← parseNat a
    pure (ok (natToHex x ++ " " ++ natToHex x ++ " " ++ natToHex (x + 1) ++ " " ++ natToHex (3 * x)))
  | "clone.i", [a, _b] => do
    let x ← parseInt a
    pure (ok (intToHex x ++ " " ++ intToHex x ++ " " ++ intToHex (x + 1) ++ " " ++ intToHex (-3 * x)))
  -- dashu-ratio / dashu-float tables (round 5): the VALUE every form has to return is computed by the mirrored models
  -- (`Driver/FormsMore.lean`: ratio model of C04, float operator model `Model/Forms/Float.lean` over the float model of C03)
  | "rform", [fam, q, na, da, nb, db] => do
    let n1 ← parseInt na; let d1 ← parseNat da; let n2 ← parseInt nb; let d2 ← parseNat db
    FormsMore.rform fam q n1 d1 n2 d2
  -- `Sum` / `Product` (iter.rs of the three crates: `iter.fold(INIT, OP)`, Gen/FormsGlue `*_Sum_fn`, `*_impl_fold_iter_fn`):
  -- the left fold of the operator over the items
  -- (rational/src/iter.rs is not compiled into dashu-ratio at this commit: no `mod iter;`)
  | "fold", ty :: kind :: items =>
    if kind != "sum" && kind != "product" then none
    else if ty == "u" || ty == "i" then do
      let xs ← items.mapM parseInt
      if ty == "u" && xs.any (· < 0) then none
      else pure (okI (if kind == "sum" then foldForm (· + ·) 0 xs else foldForm (· * ·) 1 xs))
    else FormsMore.ffold ty kind items
  | "fform", [inst, fam, shape, a, b] => FormsMore.fform inst fam shape a b none
  | "fform", [inst, fam, shape, a, b, sh] =>
    FormsMore.fform inst fam shape a b (some sh)
  | _, _ => none

end Dashu.Driver.Forms
