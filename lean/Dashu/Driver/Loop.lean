import Dashu.Driver.IO
/-
  Generic line loop of every model driver.  A group driver supplies
    `dispatch : (W : Nat) → (op : String) → (args : List String) → Option String`
  returning the payload (`ok …` | `panic <Kind>`), `none` for an unknown op or malformed argument
  (printed as `bad-op`, never defaulted).
-/
namespace Dashu.Driver

abbrev Dispatch := Nat → String → List String → Option String

partial def loop (h : IO.FS.Stream) (out : IO.FS.Stream) (d : Dispatch) (W : Nat) : IO Unit := do
  let line ← h.getLine
  if line.isEmpty then return ()
  let l := line.trimAscii.toString
  if l.isEmpty then
    loop h out d W
  else if l.startsWith "#" then
    match l.splitOn " " with
    | ["#W", w] => loop h out d (w.toNat?.getD W)
    | _ => loop h out d W
  else
    match l.splitOn " " with
    | id :: op :: args =>
      let payload := match d W op args with
        | some p => p
        | none => "bad-op " ++ op
      out.putStrLn (id ++ " " ++ payload)
      out.flush
      loop h out d W
    | _ =>
      out.putStrLn (l ++ " bad-line")
      loop h out d W

def runMain (d : Dispatch) (args : List String) : IO UInt32 := do
  let out ← IO.getStdout
  match args with
  | [path] =>
    let h ← IO.FS.Handle.mk path IO.FS.Mode.read
    loop (IO.FS.Stream.ofHandle h) out d 64
    out.flush
    return 0
  | _ =>
    loop (← IO.getStdin) out d 64
    out.flush
    return 0

/-- payload helpers -/
def ok (s : String) : String := "ok " ++ s
def panic (k : String) : String := "panic " ++ k

end Dashu.Driver
