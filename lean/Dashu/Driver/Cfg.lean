import Dashu.Driver.Loop
import Dashu.Driver.Int
import Dashu.Driver.Div
import Dashu.Driver.Bits
import Dashu.Driver.Text
import Dashu.Driver.Conv
import Dashu.Driver.NT
import Dashu.Driver.Float
import Dashu.Driver.Ratio
import Dashu.Driver.Cross
import Dashu.Driver.TextSci
import Dashu.Driver.FloatX
import Dashu.Driver.RatioPred
import Dashu.Driver.BitsHuge
import Dashu.Model.Serde.Num
import Dashu.Model.Serde.NumW
import Dashu.Model.Serde.Log2Cfg
/-
  Driver of group `cfg` (C19).  Cases are `cfg <conf> <op> <args…>` (evaluate `<op>` as the build
  configuration `<conf>` = `w<bits>-<std|nostd>-<dev|rel>` must: the model of the op instantiated
  with the word size of the configuration; features and profile do not occur in any model) and
  `cfgall <op> <args…>` (the models at W = 64 and W = 32 must agree, that common answer is printed).

  Inner ops: every op of the groups int / div / bits / text (their drivers, reused), `cfg.self`,
  and the serde ops `sd.*` / `de.*` of `harness/src/ops_serde.rs` (binary medium: the word-level
  definitions of `Model/Serde/NumW.lean` at the word size of the configuration, beside the `W`-free specification).
-/
namespace Dashu.Driver.Cfg
open Dashu.IO Dashu.Driver Dashu.Model.Serde

def bytesStr (bs : Bytes) : String :=
  "s:" ++ String.ofList (bs.flatMap fun b => [hexDigit (b / 16 % 16), hexDigit (b % 16)])

def parseBytesN (s : String) : Option Bytes := (parseBytes s).map fun l => l.map (·.toNat)

def fvalStr (v : FVal) : String := intToHex v.signif ++ " " ++ decStr v.exp
def fpvalStr (v : FPVal) : String := intToHex v.signif ++ " " ++ decStr v.exp ++ " " ++ decStr v.prec
def qvalStr (q : QVal) : String := intToHex q.num ++ " " ++ natToHex q.den

/-- `ok <stream> <decoded> rest=<n>` / `ok <stream> err`; `expect` is the value that went in: a
    decoded value different from it is a defect of the model (the round-trip theorems say so) -/
def rt (stream : Bytes) (decoded : Option (String × Nat)) (expect : String) : String :=
  match decoded with
  | some (s, rest) =>
    let base := ok (bytesStr stream ++ " " ++ s ++ " rest=" ++ toString rest)
    if s = expect then base else base ++ " !model-spec-mismatch spec=" ++ expect
  | none => ok (bytesStr stream ++ " err") ++ (if expect = "err" then "" else " !model-spec-mismatch spec=" ++ expect)

/-- binary medium: `stream` / `decoded` come from the word-level definitions of `Model/Serde/NumW.lean` (what a
    build with `W`-bit words executes); `spec` is the `W`-free stream of `Model/Serde/Num.lean` — they are proved
    equal (`Props/C19 …_word_size_independent`), a difference is a defect of the model -/
def rtW (stream spec : Bytes) (decoded : Option (String × Nat)) (expect : String) : String :=
  rt stream decoded expect ++ (if stream = spec then "" else " !model-spec-mismatch spec-stream=" ++ bytesStr spec)


def dec1 (r : Option (String × Nat)) : String :=
  match r with
  | some (s, rest) => ok (s ++ " rest=" ++ toString rest)
  | none => ok "err"

/-- decoders: word-level answer, checked against the `W`-free decoder -/
def dec1W (r spec : Option (String × Nat)) : String :=
  dec1 r ++ (if r = spec then "" else " !model-spec-mismatch spec=" ++ dec1 spec)

def floatBase (s : String) : Option Nat := do
  let b ← parseDecNat s
  if b = 2 ∨ b = 10 ∨ b = 16 ∨ b = 7 then some b else none

def serde (W : Nat) (op : String) (args : List String) : Option String :=
  match op, args with
  | "sd.u", ["pc", a] => do
    let n ← parseNat a
    let st := encUW W n
    pure (rtW st (encU n) ((decUW W st).map fun (v, r) => (natToHex v, r.length)) (natToHex n))
  | "sd.u", ["json", a] => do
    let n ← parseNat a
    let st := jsonU n
    pure (rt st ((unjsonU st).map fun v => (natToHex v, 0)) (natToHex n))
  | "sd.i", ["pc", a] => do
    let z ← parseInt a
    let st := encIW W z
    pure (rtW st (encI z) ((decIW W st).map fun (v, r) => (intToHex v, r.length)) (intToHex z))
  | "sd.i", ["json", a] => do
    let z ← parseInt a
    let st := jsonI z
    pure (rt st ((unjsonI st).map fun v => (intToHex v, 0)) (intToHex z))
  | "sd.q", [m, a, b] => do
    let n ← parseInt a; let d ← parseNat b
    if d = 0 then pure (panic "DivideByZero") else
    let q := qreduce n d
    if m = "pc" then
      let st := encQW W q
      pure (rtW st (encQ q) ((decQW W st).map fun (v, r) => (qvalStr v, r.length)) (qvalStr q))
    else if m = "json" then
      let st := jsonQ q
      pure (rt st ((unjsonQ st).map fun v => (qvalStr v, 0)) (qvalStr q))
    else none
  | "sd.x", [m, a, b] => do
    let n ← parseInt a; let d ← parseNat b
    if d = 0 then pure (panic "DivideByZero") else
    let q := qreduce2 n d
    if m = "pc" then
      let st := encQW W q
      pure (rtW st (encQ q) ((decXW W st).map fun (v, r) => (qvalStr v, r.length)) (qvalStr q))
    else if m = "json" then
      let st := jsonQ q
      pure (rt st ((unjsonX st).map fun v => (qvalStr v, 0)) (qvalStr q))
    else none
  | "sd.r", [m, b, a, e] => do
    let B ← floatBase b; let s ← parseInt a; let e ← parseDec e
    let v ← fnew B s e
    if m = "pc" then
      let st := encRW W v
      pure (rtW st (encR v) ((decRW W B st).map fun (w, r) => (fvalStr w, r.length)) (fvalStr v))
    else if m = "json" then
      let st := jsonR B v
      pure (rt st ((unjsonR B st).map fun w => (fvalStr w, 0)) (fvalStr v))
    else none
  | "sd.f", [m, b, a, e, p] => do
    let B ← floatBase b; let s ← parseInt a; let e ← parseDec e; let p ← parseDecNat p
    let v ← fnew B s e
    let f : FPVal := ⟨v.signif, v.exp, p⟩
    if m = "pc" then
      let st := encFW W f
      pure (rtW st (encF f) ((decFW W B st).map fun (w, r) => (fpvalStr w, r.length)) (fpvalStr f))
    else if m = "json" then
      -- the text carries no precision: the number read back has the precision of the digits written
      let st := jsonR B v
      let back := unjsonF B st
      let expect := match back with
        | some w => fpvalStr ⟨v.signif, v.exp, w.prec⟩
        | none => fpvalStr f
      pure (rt st (back.map fun w => (fpvalStr w, 0)) expect)
    else none
  | "sd.rinf", [m, b, sg] => do
    let B ← floatBase b
    let v : FVal := ⟨0, if sg = "-" then -1 else 1⟩
    if m = "pc" then
      let st := encRW W v
      pure (rtW st (encR v) ((decRW W B st).map fun (w, r) => (fvalStr w, r.length)) (fvalStr v))
    else if m = "json" then
      -- `inf` / `-inf` is not accepted by the parser: rejected with an error
      let st := jsonR B v
      pure (rt st ((unjsonR B st).map fun w => (fvalStr w, 0)) "err")
    else none
  | "sd.finf", [m, b, sg] => do
    let B ← floatBase b
    let f : FPVal := ⟨0, if sg = "-" then -1 else 1, 0⟩
    if m = "pc" then
      let st := encFW W f
      pure (rtW st (encF f) ((decFW W B st).map fun (w, r) => (fpvalStr w, r.length)) (fpvalStr f))
    else if m = "json" then
      let st := jsonR B ⟨f.signif, f.exp⟩
      pure (rt st ((unjsonF B st).map fun w => (fpvalStr w, 0)) "err")
    else none
  | "de.u", ["pc", s] => do
    let bs ← parseBytesN s
    pure (dec1W ((decUW W bs).map fun (v, r) => (natToHex v, r.length)) ((decU bs).map fun (v, r) => (natToHex v, r.length)))
  | "de.u", ["json", s] => do
    let bs ← parseBytesN s
    pure (dec1 ((unjsonU bs).map fun v => (natToHex v, 0)))
  | "de.i", ["pc", s] => do
    let bs ← parseBytesN s
    pure (dec1W ((decIW W bs).map fun (v, r) => (intToHex v, r.length)) ((decI bs).map fun (v, r) => (intToHex v, r.length)))
  | "de.i", ["json", s] => do
    let bs ← parseBytesN s
    pure (dec1 ((unjsonI bs).map fun v => (intToHex v, 0)))
  | "de.q", ["pc", s] => do
    let bs ← parseBytesN s
    pure (dec1W ((decQW W bs).map fun (v, r) => (qvalStr v, r.length)) ((decQ bs).map fun (v, r) => (qvalStr v, r.length)))
  | "de.q", ["json", s] => do
    let bs ← parseBytesN s
    pure (dec1 ((unjsonQ bs).map fun v => (qvalStr v, 0)))
  | "de.x", ["pc", s] => do
    let bs ← parseBytesN s
    pure (dec1W ((decXW W bs).map fun (v, r) => (qvalStr v, r.length)) ((decX bs).map fun (v, r) => (qvalStr v, r.length)))
  | "de.x", ["json", s] => do
    let bs ← parseBytesN s
    pure (dec1 ((unjsonX bs).map fun v => (qvalStr v, 0)))
  | "de.r", ["pc", b, s] => do
    let B ← floatBase b; let bs ← parseBytesN s
    pure (dec1W ((decRW W B bs).map fun (v, r) => (fvalStr v, r.length)) ((decR B bs).map fun (v, r) => (fvalStr v, r.length)))
  | "de.r", ["json", b, s] => do
    let B ← floatBase b; let bs ← parseBytesN s
    pure (dec1 ((unjsonR B bs).map fun v => (fvalStr v, 0)))
  | "de.f", ["pc", b, s] => do
    let B ← floatBase b; let bs ← parseBytesN s
    pure (dec1W ((decFW W B bs).map fun (v, r) => (fpvalStr v, r.length)) ((decF B bs).map fun (v, r) => (fpvalStr v, r.length)))
  | "de.f", ["json", b, s] => do
    let B ← floatBase b; let bs ← parseBytesN s
    pure (dec1 ((unjsonF B bs).map fun v => (fpvalStr v, 0)))
  | _, _ => none

-- ---------------------------------------------------------------- clause (2): log2 bounds per configuration

def f32Hex (f : Float32) : String := natToHex f.toBits.toNat

def primBits : String → Option Nat
  | "u8" => some 8 | "u16" => some 16 | "u32" => some 32 | "u64" => some 64 | "u128" => some 128
  | _ => none

/-- bounds as bit patterns, followed by a marker iff they do not enclose `log2 x` (decided exactly) -/
def boundsOut (b : Float32 × Float32) (x : Nat) : String :=
  f32Hex b.1 ++ " " ++ f32Hex b.2 ++ Dashu.Model.NT.enclosureMark b.1 b.2 x 1

/-- `lg.range`: the bounds of every value of a range as `lb:ub` bit patterns (ties the Lean copy of the
    estimator to the real one on *all* `u16` inputs), plus a marker if some pair does not enclose the
    logarithm -/
def rangeOut (std : Bool) (lo hi : Nat) : String := Id.run do
  let mut items : Array String := Array.mkEmpty (hi - lo)
  let mut bad : Nat := 0
  for x in [lo:hi] do
    let b := log2BoundsPrimCfg std x
    items := items.push (f32Hex b.1 ++ ":" ++ f32Hex b.2)
    if Dashu.Model.NT.enclosureMark b.1 b.2 x 1 != "" then bad := bad + 1
  return ",".intercalate items.toList ++ (if bad = 0 then "" else " !bounds-fail-on-" ++ toString bad ++ "-values")

def logOps (std : Bool) (W : Nat) (op : String) (args : List String) : Option String :=
  match op, args with
  | "lg.p", [ty, a] => do
    let bits ← primBits ty; let x ← parseNat a
    if x < 2 ^ bits then pure (ok (boundsOut (log2BoundsPrimCfg std x) x)) else none
  | "lg.u", [a] => do
    let x ← parseNat a
    pure (ok (boundsOut (log2BoundsNatCfg std W x) x))
  | "lg.i", [a] => do
    let x ← parseInt a
    pure (ok (boundsOut (log2BoundsNatCfg std W x.natAbs) x.natAbs))
  | "lg.range", [lo, hi] => do
    let lo ← parseDecNat lo; let hi ← parseDecNat hi
    if hi ≤ 65536 ∧ lo ≤ hi then pure (ok (rangeOut std lo hi)) else none
  | _, _ => none

/-- word size, std?, dev? of a configuration name -/
def parseConf (c : String) : Option (Nat × String × String) :=
  match c.splitOn "-" with
  | [w, s, p] =>
    let W := if w = "w64" then some 64 else if w = "w32" then some 32 else if w = "w16" then some 16 else none
    if (s = "std" ∨ s = "nostd") ∧ (p = "dev" ∨ p = "rel") then W.map fun W => (W, s, p) else none
  | _ => none

/-- `<group>/<op>`: the op as `drive_<group>` dispatches it.  `std` matters for one family only:
    `log2_bounds` (the no_std build uses the table estimator; C12's driver has those models under the
    op `ns`, which takes the op name as an argument). -/
def grouped (std : Bool) (W : Nat) (group op : String) (args : List String) : Option String :=
  let first (ds : List Dispatch) : Option String := ds.findSome? fun d => d W op args
  match group with
  | "int" => first [Int.dispatch, Bits.dispatch]
  | "div" => first [Div.dispatch, Int.dispatch]
  -- the same chains as `Mains/<Group>.lean` (round 6: BitsHuge front end, TextSci `f.rtsci`, FloatX extreme exponents,
  -- RatioPred `qp.*`); `c.ext` / `f.norm` of C05 are reached through `Bits.dispatch` (falls through to `CmpCtx.dispatchCtx`)
  | "bits" => first [BitsHuge.dispatch]
  | "text" => first [Text.dispatch, TextSci.dispatch]
  | "conv" => first [Conv.dispatch]
  | "nt" =>
    if !std && (op = "p.log2b" || op = "p.log2brange" || op = "p.flog2b" || op = "u.log2b") then
      NT.dispatch W "ns" ("_" :: op :: args)
    else first [NT.dispatch]
  | "float" => first [FloatX.dispatchX false]
  | "ratio" => first [RatioPred.dispatchAll]
  | "cross" => first [Cross.dispatch]
  | _ => none

def inner (std : Bool) (W : Nat) (op : String) (args : List String) : Option String :=
  match op.splitOn "/" with
  | [g, iop] => grouped std W g iop args
  | _ =>
  match serde W op args with
  | some r => some r
  | none =>
    match Int.dispatch W op args with
    | some r => some r
    | none =>
      match Div.dispatch W op args with
      | some r => some r
      | none =>
        match Bits.dispatch W op args with
        | some r => some r
        | none => Text.dispatch W op args

def dispatch : Dispatch := fun _ op args =>
  match op, args with
  | "cfg", conf :: "cfg.self" :: [] => do
    let (W, s, p) ← parseConf conf
    pure (ok ("w" ++ toString W ++ " " ++ s ++ " " ++ p))
  | "cfg", conf :: iop :: iargs => do
    let (W, s, _) ← parseConf conf
    if iop.startsWith "lg." then logOps (s == "std") W iop iargs else inner (s == "std") W iop iargs
  | "cfgall", iop :: iargs => do
    let a ← inner true 64 iop iargs
    let b ← inner true 32 iop iargs
    -- a driver that does not mirror some branch at one word size says so (`…-not-mirrored`): then the
    -- other word size's answer stands alone
    let unmirrored (x : String) : Bool := (x.splitOn "-not-mirrored").length > 1
    pure (if a = b then a
          else if unmirrored b then a
          else if unmirrored a then b
          -- the model itself predicts different answers for the two word sizes: whatever the builds say,
          -- C19 is violated on this input (or the op is about the representation and must not be replayed
          -- across configurations).  An ordinary disagreement — the payload can never equal an answer of
          -- the implementation; `!model-…` stays reserved for defects of the model / driver.
          else "required: the same answer in every configuration; the model predicts w64=" ++ a ++ " || w32=" ++ b)
  | _, _ => none

end Dashu.Driver.Cfg
