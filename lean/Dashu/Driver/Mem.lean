import Dashu.Driver.Loop
import Dashu.Model.Mem.Pool
import Dashu.Model.Mem.Arith
import Dashu.Model.Mem.Arith2
import Dashu.Model.Mem.Arith3
import Dashu.Model.Mem.Arith4
import Dashu.Model.Mem.Arith5
import Dashu.Model.Mem.Memory
/-
  Driver of group `mem` (C17).
    mem.buf  <tok>…   buffer/Repr-level history: the ledger model is stepped op by op; per step the
                      target register and the allocator events are printed; the whole trace is replayed
                      by the checker (`#safe=`).
    mem.val  <tok>…   value-level history over a pool of 8 `IBig` registers: Int arithmetic; the layout
                      invariants are a constant `ok` here (that is the specification).
    mem.policy d:n    capacity policy (generated functions) at n
    mem.miri <res> …  echo of a Miri verdict (see vlib/props/c17.py)
-/
namespace Dashu.Driver.Mem
open Dashu.IO Dashu.Model Dashu.Model.Mem Dashu.Driver

def R : Nat := 8

/-- `Buffer::MAX_CAPACITY = usize::MAX / WORD_BITS` (usize = Word) -/
def maxCap (W : Nat) : Nat := (2 ^ W - 1) / W

def wsStr (ws : List Nat) : String :=
  if ws.isEmpty then "-" else ",".intercalate (ws.map natToHex)

def parseWs (s : String) : Option (List Nat) :=
  if s = "-" then some [] else (s.splitOn ",").mapM parseHexNat

def slotStr : Slot → String
  | .empty => "e"
  | .buf b => "b" ++ toString b.len ++ "/" ++ toString b.cap ++ "/" ++ wsStr b.ws
  | .rep r => "r" ++ (if r.isNeg then "-" else "") ++ toString r.capacity ++ "/" ++ toString r.len ++ "/" ++ wsStr r.words
  | .stat ws neg => "s" ++ (if neg then "-" else "") ++ toString ws.length ++ "/" ++ toString ws.length ++ "/" ++ wsStr ws

def evsStr (es : List Event) : String :=
  let parts := es.filterMap fun
    | .alloc _ c => some ("A" ++ toString c)
    | .realloc _ o n => some ("R" ++ toString o ++ ">" ++ toString n)
    | .free _ c => some ("D" ++ toString c)
    | _ => none
  if parts.isEmpty then "." else String.join parts

def parseOp (tok : String) : Option Op :=
  match tok.splitOn ":" with
  | ["alloc", k, n] => do pure (.allocate (← k.toNat?) (← n.toNat?))
  | ["allocx", k, c] => do pure (.allocateExact (← k.toNat?) (← c.toNat?))
  | ["fromw", k, ws] => do pure (.fromWords (← k.toNat?) (← parseWs ws))
  | ["word", k, w] => do pure (.fromWord (← k.toNat?) (← parseHexNat w))
  | ["dword", k, lo, hi] => do pure (.fromDword (← k.toNat?) (← parseHexNat lo) (← parseHexNat hi))
  | ["ones", k, n] => do pure (.ones (← k.toNat?) (← n.toNat?))
  | ["bclone", k, j] => do pure (.bufClone (← k.toNat?) (← j.toNat?))
  | ["rclone", k, j] => do pure (.repClone (← k.toNat?) (← j.toNat?))
  | ["ensure", k, n] => do pure (.ensureCapacity (← k.toNat?) (← n.toNat?))
  | ["ensurex", k, c] => do pure (.ensureCapacityExact (← k.toNat?) (← c.toNat?))
  | ["shrink", k] => do pure (.shrinkToFit (← k.toNat?))
  | ["push", k, w] => do pure (.push (← k.toNat?) (← parseHexNat w))
  | ["pushr", k, w] => do pure (.pushResizing (← k.toNat?) (← parseHexNat w))
  | ["zeros", k, n] => do pure (.pushZeros (← k.toNat?) (← n.toNat?))
  | ["zerosf", k, n] => do pure (.pushZerosFront (← k.toNat?) (← n.toNat?))
  | ["pushs", k, ws] => do pure (.pushSlice (← k.toNat?) (← parseWs ws))
  | ["pushsf", k, j] => do pure (.pushSliceFrom (← k.toNat?) (← j.toNat?))
  | ["popz", k] => do pure (.popZeros (← k.toNat?))
  | ["trunc", k, n] => do pure (.truncate (← k.toNat?) (← n.toNat?))
  | ["erase", k, n] => do pure (.eraseFront (← k.toNat?) (← n.toNat?))
  | ["deref", k] => do pure (.deref (← k.toNat?))
  | ["cfs", k, ws] => do pure (.cloneFromSlice (← k.toNat?) (← parseWs ws))
  | ["cfsf", k, j] => do pure (.cloneFromSliceFrom (← k.toNat?) (← j.toNat?))
  | ["bclonefrom", k, j] => do pure (.bufCloneFrom (← k.toNat?) (← j.toNat?))
  | ["boxed", k] => do pure (.intoBoxedSlice (← k.toNat?))
  | ["tou", k] => do pure (.fromBuffer (← k.toNat?))
  | ["tob", k] => do pure (.intoBuffer (← k.toNat?))
  | ["rclonefrom", k, j] => do pure (.repCloneFrom (← k.toNat?) (← j.toNat?))
  | ["sign", k, s] => do pure (.withSign (← k.toNat?) (← if s = "1" then some true else if s = "0" then some false else none))
  | ["neg", k] => do pure (.neg (← k.toNat?))
  | ["asslice", k] => do pure (.asSlice (← k.toNat?))
  | ["drop", k] => do pure (.drop (← k.toNat?))
  | ["static", k, ws, s] => do
    pure (.fromStaticWords (← k.toNat?) (← parseWs ws) (← if s = "1" then some true else if s = "0" then some false else none))
  | ["bview", k, j] => do pure (.bufFromView (← k.toNat?) (← j.toNat?))
  | ["pusht", k, j, lo] => do pure (.pushTailFrom (← k.toNat?) (← j.toNat?) (← lo.toNat?))
  | ["over", k, ws] => do pure (.overwrite (← k.toNat?) (← parseWs ws))
  | ["ist", k] => do pure (.intoSignTyped (← k.toNat?))
  | _ => none

/-- canonical token of a panic: every `assert!`/`debug_assert!` of buffer.rs / repr.rs is `assert` -/
def faultStr : Fault → String
  | .panic .allocTooMuch => "!AllocTooMuch"
  | .panic (.undocumented _) => "!assert"
  | .panic k => "!" ++ k.name
  | .ub site => "!UB(" ++ site.replace " " "_" ++ ")"

structure St where
  P : Pool
  L : Ledger
  n : Nat
  safe : Bool
  nev : Nat
  out : Array String

def applyEvs (st : St) (es : List Event) : St :=
  match replay st.L es with
  | some L' => { st with L := L', nev := st.nev + es.length }
  | none => { st with safe := false, nev := st.nev + es.length }

/-- the target register must be inside the pool -/
def inPool (op : Op) : Bool :=
  op.target < R && (match op with
    | .bufClone _ j | .repClone _ j | .pushSliceFrom _ j | .cloneFromSliceFrom _ j
    | .bufCloneFrom _ j | .repCloneFrom _ j | .bufFromView _ j | .pushTailFrom _ j _ => j < R
    | _ => true)

def isIllTyped : Fault → Bool
  | .panic (.undocumented "model: ill-typed history") => true
  | _ => false

partial def bufLoop (W mx : Nat) (st : St) : List Op → Option St
  | [] => some st
  | op :: ops =>
    -- `BufferHandle::from_ubig` takes a `UBig`: a negative value cannot be passed at all
    let negTob := match op with
      | .intoBuffer k => (match st.P k with | .rep r => r.isNeg | _ => false)
      | _ => false
    if !inPool op || negTob then none else
    let o := step W mx st.P op st.n
    let st := applyEvs { st with n := o.next } o.evs
    match o.res with
    | .ok P' => bufLoop W mx { st with P := P', out := st.out.push (slotStr (P' op.target) ++ "|" ++ evsStr o.evs) } ops
    | .error f =>
      if isIllTyped f then none
      else some { st with out := st.out.push (faultStr f ++ "|" ++ evsStr o.evs) }

def bufHistory (W : Nat) (toks : List String) : Option String := do
  let ops ← toks.mapM parseOp
  let mx := maxCap W
  let st0 : St := ⟨Pool.empty, Ledger.empty, 0, true, 0, #[]⟩
  match bufLoop W mx st0 ops with
  | none => pure "bad-history"
  | some st =>
    -- drop every register
    let o := run W mx (dropAll R) st.P st.n
    let st := applyEvs { st with n := o.next } o.evs
    let live := st.L.liveCount st.n
    let tail := "end:" ++ evsStr o.evs ++ ":live=" ++ toString live ++ ":dfree=0"
    let body := " ".intercalate (st.out.toList ++ [tail])
    if st.safe then pure (ok body ++ " #safe=1 events=" ++ toString st.nev)
    else pure (ok body ++ " !model-unsafe-trace")

-- ------------------------------------------------------------------ value level

abbrev VPool := List (Option Int)

def vget (P : VPool) (k : Nat) : Option Int := (P.getD k none)
def vset (P : VPool) (k : Nat) (v : Option Int) : VPool := P.set k v

inductive VRes where
  | ok (P : VPool) (shown : Int)
  | okEmpty (P : VPool)
  | panic (k : String)
  | panicP (k : String) (P : VPool)   -- a panic after a by-value operand was moved out (dropped by unwinding)
  | bad

def staticVal : Nat → Option Int
  | 0 => some 7
  | 1 => some (5 + 9 * 2 ^ 64)
  | 2 => some (1 + 2 * 2 ^ 64 + 3 * 2 ^ 128)
  | 3 => some ((2 ^ 64 - 1) + 2 ^ 256)
  | _ => none

def vstep (P : VPool) (tok : String) : VRes :=
  let parts := tok.splitOn ":"
  let reg (s : String) : Option Nat := match s.toNat? with | some k => if k < R then some k else none | none => none
  let val (s : String) : Option Int := do let k ← reg s; vget P k
  let put (k : Nat) (v : Int) : VRes := .ok (vset P k (some v)) v
  let bin (k a b : String) (f : Int → Int → Option Int) (pk : String := "") : VRes :=
    match reg k, val a, val b with
    | some k, some x, some y => (match f x y with | some v => put k v | none => .panic pk)
    | _, _, _ => .bad
  match parts with
  | ["set", k, v] => (match reg k, parseInt v with | some k, some v => put k v | _, _ => .bad)
  | ["clone", k, a] => (match reg k, val a with | some k, some x => put k x | _, _ => .bad)
  | ["clonefrom", k, a] =>
    (match reg k, reg a with
     | some k, some a => if k = a then .bad else
        (match vget P k, vget P a with | some _, some x => put k x | _, _ => .bad)
     | _, _ => .bad)
  | ["add", k, a, b] => bin k a b fun x y => some (x + y)
  | ["sub", k, a, b] => bin k a b fun x y => some (x - y)
  | ["mul", k, a, b] => bin k a b fun x y => some (x * y)
  | ["div", k, a, b] => bin k a b (fun x y => if y = 0 then none else some (Int.tdiv x y)) "DivideByZero"
  | ["rem", k, a, b] => bin k a b (fun x y => if y = 0 then none else some (Int.tmod x y)) "DivideByZero"
  | ["gcd", k, a, b] => bin k a b (fun x y => if x = 0 ∧ y = 0 then none else some (Int.gcd x y : Nat)) "GcdZeroZero"
  | ["addm", k, a, b] | ["subm", k, a, b] | ["mulm", k, a, b] | ["divm", k, a, b] | ["remm", k, a, b] =>
    -- `regs[k] = regs[a].take() op &regs[b]` (the left operand is moved: its buffer is reused)
    (match reg k, reg a, reg b with
     | some k, some a, some b => if a = b then .bad else
        (match vget P a, vget P b with
         | some x, some y =>
           let h := parts.head!
           if (h = "divm" || h = "remm") && y = 0 then .panicP "DivideByZero" (vset P a none) else
           let v := if h = "addm" then x + y else if h = "subm" then x - y else if h = "mulm" then x * y
                    else if h = "divm" then Int.tdiv x y else Int.tmod x y
           .ok (vset (vset P a none) k (some v)) v
         | _, _ => .bad)
     | _, _, _ => .bad)
  | ["adda", k, a] | ["suba", k, a] | ["mula", k, a] =>
    (match reg k, reg a with
     | some k, some a => if k = a then .bad else
        (match vget P k, vget P a with
         | some x, some y =>
           put k (if parts.head! = "adda" then x + y else if parts.head! = "suba" then x - y else x * y)
         | _, _ => .bad)
     | _, _ => .bad)
  | ["selfadd", k] => (match reg k, val k with | some k, some x => put k (x + x) | _, _ => .bad)
  | ["selfsub", k] => (match reg k, val k with | some k, some x => put k (x - x) | _, _ => .bad)
  | ["selfmul", k] => (match reg k, val k with | some k, some x => put k (x * x) | _, _ => .bad)
  | ["selfaddv", k] => (match reg k, val k with | some k, some x => put k (x + x) | _, _ => .bad)
  | ["sqr", k, a] => (match reg k, val a with | some k, some x => put k (x * x) | _, _ => .bad)
  | ["pow", k, a, n] => (match reg k, val a, n.toNat? with | some k, some x, some n => put k (x ^ n) | _, _, _ => .bad)
  | ["shl", k, n] => (match reg k, val k, n.toNat? with | some k, some x, some n => put k (x * 2 ^ n) | _, _, _ => .bad)
  | ["shr", k, n] => (match reg k, val k, n.toNat? with | some k, some x, some n => put k (Int.shiftRight x n) | _, _, _ => .bad)
  | ["neg", k] => (match reg k, val k with | some k, some x => put k (-x) | _, _ => .bad)
  | ["abs", k] => (match reg k, val k with | some k, some x => put k (x.natAbs : Nat) | _, _ => .bad)
  | ["ones", k, n] => (match reg k, n.toNat? with | some k, some n => put k ((2 ^ n - 1 : Nat) : Int) | _, _ => .bad)
  | ["words", k] | ["bytes", k] | ["bytesbe", k] | ["parts", k] =>
    (match reg k, val k with | some k, some x => put k x | _, _ => .bad)
  | ["take", k, a] =>
    (match reg k, reg a with
     | some k, some a => if k = a then .bad else
        (match vget P a with | some x => .ok (vset (vset P a (some 0)) k (some x)) x | none => .bad)
     | _, _ => .bad)
  | ["swap", k, a] =>
    (match reg k, reg a with
     | some k, some a => if k = a then .bad else
        (match vget P k, vget P a with
         | some x, some y => .ok (vset (vset P k (some y)) a (some x)) y
         | _, _ => .bad)
     | _, _ => .bad)
  | ["drop", k] => (match reg k with | some k => .okEmpty (vset P k none) | none => .bad)
  -- values backed by `static` word arrays (from_static_words): [7], [5,9], [1,2,3], [MAX,0,0,0,1]
  | ["sclone", k, i] => (match reg k, i.toNat? >>= staticVal with | some k, some s => put k s | _, _ => .bad)
  | ["sadd", k, i] => (match reg k, val k, i.toNat? >>= staticVal with | some k, some x, some s => put k (x + s) | _, _, _ => .bad)
  | ["smul", k, i] => (match reg k, val k, i.toNat? >>= staticVal with | some k, some x, some s => put k (x * s) | _, _, _ => .bad)
  | _ => .bad

partial def valLoop (P : VPool) (out : Array String) : List String → Option (VPool × Array String)
  | [] => some (P, out)
  | t :: ts =>
    match vstep P t with
    | .ok P' v => valLoop P' (out.push (intToHex v ++ "/ok")) ts
    | .okEmpty P' => valLoop P' (out.push "e") ts
    | .panic k => some (P, out.push ("!" ++ k))
    | .panicP k P' => some (P', out.push ("!" ++ k))
    | .bad => none

def valHistory (toks : List String) : Option String :=
  match valLoop (List.replicate R none) #[] toks with
  | none => some "bad-history"
  | some (P, out) =>
    let fin := "fin:" ++ ",".intercalate (P.map fun | some v => intToHex v | none => "e")
    some (ok (" ".intercalate (out.toList ++ [fin, "end:live=0:dfree=0"])))

-- ------------------------------------------------------------------ arithmetic skeletons

/-- run a list of ops silently; `none` if any fails -/
def runQuiet (W mx : Nat) (st : St) (ops : List Op) : Option St :=
  ops.foldlM (fun st op =>
    let o := step W mx st.P op st.n
    let st := applyEvs { st with n := o.next } o.evs
    match o.res with
    | .ok P' => some { st with P := P' }
    | .error _ => none) st

/-- run skeleton ops collecting the allocator events; `Except` = an op of the skeleton faulted -/
def runFrag (W mx : Nat) (st : St) (ops : List AOp) : Except String (St × List Event) :=
  ops.foldlM (fun (acc : St × List Event) a =>
    let st := acc.1
    let o := step W mx st.P a.toOp st.n
    let st := applyEvs { st with n := o.next } o.evs
    match o.res with
    | .ok P' => .ok ({ st with P := P' }, acc.2 ++ o.evs)
    | .error f => .error (faultStr f ++ "@" ++ reprStr a)) (st, [])

def sortedDrops (es : List Event) : String :=
  let ds := es.filterMap fun | .free _ c => some c | _ => none
  let ds := ds.toArray.qsort (· < ·) |>.toList
  if ds.isEmpty then "." else ",".intercalate (ds.map fun c => "D" ++ toString c)

def parseForm : String → Option Form
  | "rr" => some .rr | "rv" => some .rv | "vr" => some .vr | "vv" => some .vv | _ => none

/-- the compound-assignment forms `x op= y` (`av`) and `x op= &y` (`ar`) are `*self = mem::take(self) op rhs`
    (helper_macros.rs `impl_binop_assign_by_taking`): storage-wise the by-value-lhs forms -/
def parseFormA : String → Option Form
  | "av" => some .vv | "ar" => some .vr | s => parseForm s

def parseByVal : String → Option Bool
  | "v" => some true | "a" => some true | "r" => some false | _ => none

def arith (W : Nat) (op form a b : String) : Option String := do
  let mx := maxCap W
  -- `sqr::MAX_LEN_SIMPLE`, regenerated from integer/src/sqr/mod.rs (Tie A)
  let sqS := Dashu.Gen.sqr_MAX_LEN_SIMPLE
  let signedB := op = "iadd" || op = "isub" || op = "imul" || op = "idiv" || op = "irem" || op = "idivrem" ||
    op = "iand" || op = "ior" || op = "ixor" || op = "igcd" || op = "igcdext" || op = "gcd_ui" || op = "gcd_iu" ||
    op = "gcdext_ui" || op = "gcdext_iu" ||
    op = "idiveuc" || op = "iremeuc" || op = "idivremeuc" || op = "idivremassign"
  let signed := signedB || op = "ishl" || op = "ishr" || op = "ipow" || op = "inot"
  let xi ← (if signed then parseInt a else (fun n : Nat => (n : Int)) <$> parseNat a)
  let x := xi.natAbs
  let xs := natWords W x
  let frag ← (match op with
    | "add" => do let y ← parseNat b; pure (fragAdd W (← parseFormA form) xs (natWords W y), some (natWords W y))
    | "sub" => do let y ← parseNat b; pure (fragSub W (← parseFormA form) xs (natWords W y), some (natWords W y))
    | "mul" => do let y ← parseNat b; pure (fragMul W sqS (← parseFormA form) xs (natWords W y), some (natWords W y))
    | "divrem" => do let y ← parseNat b; pure (fragDivRemBoth W (← parseForm form) xs (natWords W y), some (natWords W y))
    -- `UBig`'s Euclidean division family forwards to the same `repr` functions (div_ops.rs `forward_ubig_binop_to_repr!(impl
    -- DivEuclid, div_euclid, div)` …); `div_rem_assign` is `let (a, b) = mem::take(self).div_rem(rhs); *self = a; b`
    | "divremeuc" => do let y ← parseNat b; pure (fragDivRemBoth W (← parseForm form) xs (natWords W y), some (natWords W y))
    | "divremassign" => do
      let y ← parseNat b
      let f ← (if form = "av" then some Form.vv else if form = "ar" then some Form.vr else none)
      pure (fragDivRemBoth W f xs (natWords W y), some (natWords W y))
    | "diveuc" => do let y ← parseNat b; pure (fragDivRem W false (← parseForm form) xs (natWords W y), some (natWords W y))
    | "remeuc" => do let y ← parseNat b; pure (fragDivRem W true (← parseForm form) xs (natWords W y), some (natWords W y))
    | "and" => do let y ← parseNat b; pure (fragBit W .and (← parseFormA form) xs (natWords W y), some (natWords W y))
    | "or" => do let y ← parseNat b; pure (fragBit W .or (← parseFormA form) xs (natWords W y), some (natWords W y))
    | "xor" => do let y ← parseNat b; pure (fragBit W .xor (← parseFormA form) xs (natWords W y), some (natWords W y))
    | "pow" => do
      let k ← parseDecNat b
      if form = "r" then pure (fragPow W mx sqS xs k, none) else none
    | "div" => do let y ← parseNat b; pure (fragDivRem W false (← parseFormA form) xs (natWords W y), some (natWords W y))
    | "rem" => do let y ← parseNat b; pure (fragDivRem W true (← parseFormA form) xs (natWords W y), some (natWords W y))
    | "iadd" | "isub" | "imul" => do
      let yi ← parseInt b
      let ys := natWords W yi.natAbs
      let code := if op = "iadd" then 0 else if op = "isub" then 1 else 2
      pure (fragSigned W sqS code (← parseFormA form) (decide (xi < 0)) xs (decide (yi < 0)) ys, some ys)
    | "idiv" | "irem" | "idivrem" => do
      let yi ← parseInt b
      let ys := natWords W yi.natAbs
      let kind := if op = "idiv" then 0 else if op = "irem" then 1 else 2
      pure (fragSignedDiv W kind (← (if op = "idivrem" then parseForm form else parseFormA form)) (decide (xi < 0)) xs (decide (yi < 0)) ys, some ys)
    -- `UBig op primitive` / `&UBig op primitive` (helper_macros.rs `impl_binop_with_primitive`: `self.op(UBig::from(rhs)).try_into()
    -- .unwrap()`): the by-value-rhs skeleton with an inline right operand (`u64`: one word, `u128`: up to two)
    | "padd" | "psub" | "pmul" | "pdiv" | "por" | "pxor" => do
      let y ← parseNat b
      let (f, bits) ← (match form with
        | "v64" => some (Form.vv, 64) | "r64" => some (Form.rv, 64)
        | "v128" => some (Form.vv, 128) | "r128" => some (Form.rv, 128) | _ => none)
      if y ≥ 2 ^ bits then none
      else
        let ys := natWords W y
        pure (if op = "padd" then fragAdd W f xs ys else if op = "psub" then fragSub W f xs ys
              else if op = "pmul" then fragMul W sqS f xs ys else if op = "pdiv" then fragDivRem W false f xs ys
              else if op = "por" then fragBit W .or f xs ys else fragBit W .xor f xs ys, some ys)
    -- `DivRemAssign::div_rem_assign` of `IBig` (`impl_binop_assign_by_taking`: `let (a, b) = mem::take(self).div_rem(rhs); *self = a; b`)
    | "idivremassign" => do
      let yi ← parseInt b
      let ys := natWords W yi.natAbs
      let f ← (if form = "av" then some Form.vv else if form = "ar" then some Form.vr else none)
      pure (fragSignedDiv W 2 f (decide (xi < 0)) xs (decide (yi < 0)) ys, some ys)
    -- round 6: `IBig`'s Euclidean division family (div_ops.rs `impl_ibig_div_euclid / rem_euclid / divrem_euclid`)
    | "idiveuc" | "iremeuc" | "idivremeuc" => do
      let yi ← parseInt b
      let ys := natWords W yi.natAbs
      let f ← parseForm form
      let na := decide (xi < 0)
      let nb := decide (yi < 0)
      pure (if op = "idiveuc" then fragSignedDivEuclid W f na xs nb ys
            else if op = "iremeuc" then fragSignedRemEuclid W f na xs ys
            else fragSignedDivRemEuclid W f na xs nb ys, some ys)
    | "iand" | "ior" | "ixor" => do
      let yi ← parseInt b
      let ys := natWords W yi.natAbs
      let code := if op = "iand" then 0 else if op = "ior" then 1 else 2
      pure (fragSignedBit W code (← parseFormA form) (decide (xi < 0)) xs (decide (yi < 0)) ys, some ys)
    | "ishl" | "ishr" => do
      let k ← parseDecNat b
      let byVal ← parseByVal form
      if op = "ishl" then pure (fragSignedShl W mx byVal (decide (xi < 0)) xs k, none)
      else pure (fragSignedShr W sqS byVal (decide (xi < 0)) xs k, none)
    | "igcdext" | "gcd_ui" | "gcd_iu" | "gcdext_ui" | "gcdext_iu" => do
      -- `_ui`: UBig lhs, IBig rhs; `_iu`: IBig lhs, UBig rhs (the UBig side must be non-negative)
      let yi ← parseInt b
      let ys := natWords W yi.natAbs
      let aI := op = "igcdext" || op = "gcd_iu" || op = "gcdext_iu"
      let bI := op = "igcdext" || op = "gcd_ui" || op = "gcdext_ui"
      if (!aI && xi < 0) || (!bI && yi < 0) then none
      else pure (fragMixedGcd W (op = "igcdext" || op = "gcdext_ui" || op = "gcdext_iu") (← parseForm form) aI (decide (xi < 0)) xs
        bI (decide (yi < 0)) ys, some ys)
    | "inot" => do
      let byVal ← (if form = "v" then some true else if form = "r" then some false else none)
      pure (fragNot W byVal (decide (xi < 0)) xs, none)
    | "ipow" => do
      let k ← parseDecNat b
      if form = "r" then pure (fragSignedPow W mx sqS (decide (xi < 0)) xs k, none) else none
    | "setbit" | "clearbit" | "clearhigh" | "splitbits" | "nextpow2" => do
      let k ← parseDecNat b
      let fn : BitFn := if op = "setbit" then .setBit else if op = "clearbit" then .clearBit
        else if op = "clearhigh" then .clearHighBits else if op = "splitbits" then .splitBits else .nextPowerOfTwo
      if form = "v" then pure (fragBitFn W mx fn xs k, none) else none
    | "sqrtrem" => if form = "r" then pure (fragSqrtRem W sqS xs, none) else none
    | "sqrt" => if form = "r" then pure (fragSqrt W sqS xs, none) else none
    | "gcd" => do let y ← parseNat b; pure (fragGcd W (← parseForm form) xs (natWords W y), some (natWords W y))
    | "gcdext" => do let y ← parseNat b; pure (fragGcdExt W (← parseForm form) xs (natWords W y), some (natWords W y))
    | "igcd" => do
      let yi ← parseInt b
      let ys := natWords W yi.natAbs
      pure (fragSignedGcd W (← parseForm form) xs ys, some ys)
    | "sqr" => if form = "r" then pure (fragSqr W sqS xs, none) else none
    | "frombytes" => do
      let k ← parseDecNat b
      if (form = "le" || form = "be") && x < 2 ^ (8 * k) then pure (fragFromBytes W k x, none) else none
    | "shl" => do
      let k ← parseDecNat b
      let byVal ← parseByVal form
      pure (fragShl W mx byVal xs k, none)
    | "shr" => do
      let k ← parseDecNat b
      let byVal ← parseByVal form
      pure (fragShr W byVal xs k, none)
    | _ => none : Option (Frag × Option (List Nat)))
  let (fr, ys) := frag
  let st0 : St := ⟨Pool.empty, Ledger.empty, 0, true, 0, #[]⟩
  let setup : List Op := (if op = "frombytes" then [] else [.fromWords 0 xs, .fromBuffer 0]) ++
    (if signed then [.withSign 0 (decide (xi < 0))] else []) ++
    (match ys with | some ys => [.fromWords 1 ys, .fromBuffer 1] | none => []) ++
    (if signedB then [.withSign 1 (decide ((parseInt b).getD 0 < 0))] else [])
  let st ← runQuiet W mx st0 setup
  match runFrag W mx st fr.ops with
  | .error e => pure (ok ("!model-frag-fault " ++ e))
  | .ok (st, evs1) =>
    match runFrag W mx st fr.cleanup with
    | .error e => pure (ok ("!model-frag-fault " ++ e))
    | .ok (st, evs2) =>
      let head := match fr.panic with
        | some k => "!" ++ k.name
        | none => slotStr (st.P fr.res) ++ (match fr.res2 with | some r2 => "&" ++ slotStr (st.P r2) | none => "") ++
          (match fr.res3 with | some r3 => "&" ++ slotStr (st.P r3) | none => "")
      let o := run W mx (dropAll R) st.P st.n
      let st := applyEvs { st with n := o.next } o.evs
      let live := st.L.liveCount st.n
      let body := head ++ "|" ++ evsStr (evs1 ++ evs2) ++ " end:" ++ sortedDrops o.evs ++ ":live=" ++ toString live ++ ":dfree=0"
      if st.safe then pure (ok body ++ " #safe=1") else pure (ok body ++ " !model-unsafe-trace")

-- ------------------------------------------------------------------ memory.rs bump allocator

/-- `mem.bump d:<total bytes> <k>:<count> …`: `MemoryAllocation::new(size = total, align = 16)` then a chain
    of nested `allocate_slice_fill::<T_k>(count, 0)` with `T_k` = u8,u16,u32,u64,u128 (size = align = 2^k);
    prints `off,len` (bytes, relative to the allocation start) per slice and the final remainder, or
    `nomem@i` when request i hits `expect("internal error: not enough memory allocated")` -/
def bump (W : Nat) (args : List String) : Option String := do
  match args with
  | [] => none
  | tot :: reqs =>
    let total ← parseDecNat tot
    let rs ← reqs.mapM fun t => match t.splitOn ":" with
      | [k, c] => do
        let k ← k.toNat?
        let c ← c.toNat?
        if k ≤ 4 then some (⟨2 ^ k, 2 ^ k, c⟩ : Bump.Req) else none
      | _ => none
    let usz := 2 ^ W - 1
    let rec go (m : Bump.Chunk) (i : Nat) (acc : List String) : List Bump.Req → String
      | [] => " ".intercalate (acc.reverse ++ ["rem:" ++ toString m.start ++ "," ++ toString (m.stop - m.start)])
      | r :: rs =>
        match Bump.allocateSlice usz m r with
        | none => " ".intercalate (acc.reverse ++ ["nomem@" ++ toString i])
        | some ((s, e), _, rest) => go rest (i + 1) ((toString s ++ "," ++ toString (e - s)) :: acc) rs
    pure (ok (go ⟨0, total⟩ 0 [] rs))

-- ------------------------------------------------------------------ dispatch

def dispatch : Dispatch := fun W op args =>
  match op, args with
  | "mem.buf", toks => bufHistory W toks
  | "mem.val", toks => valHistory toks
  | "mem.policy", [n] => do
    let n ← parseDecNat n
    let mx := maxCap W
    pure (ok (toString (defaultCapacity mx n) ++ " " ++ toString (maxCompactCapacity mx n) ++ " " ++ toString mx))
  | "mem.arith", [o, f, a, b] => arith W o f a b
  | "mem.bump", args => bump W args
  | "mem.miri", _ :: _ => some (ok "miri=clean")
  | _, _ => none

end Dashu.Driver.Mem
