import Dashu.Driver.Loop
import Dashu.Model.Int.Ops
import Dashu.Model.Int.Pow
import Dashu.Model.Int.PowCompose
import Dashu.Model.Int.PowFull
import Dashu.Model.Int.OpsForms
import Dashu.Model.Int.PowGuard
/-
  Driver of group `int` (C01, C02): runs the mirrored model; beside every result it evaluates the
  `Int`/`Nat` specification and appends ` !model-spec-mismatch` if they differ (cannot happen for
  refined kernels — that equality is a checked theorem — and is the definition for frontier ones).
-/
namespace Dashu.Driver.Int
open Dashu.IO Dashu.Model Dashu.Driver

def sreprToStr (W : Nat) (r : SRepr) : String :=
  let v := r.mag.value W
  if r.neg then (if v = 0 then "-0" else "-" ++ natToHex v) else natToHex v

def chk (model spec : String) : String :=
  if model = spec then ok model else ok model ++ " !model-spec-mismatch spec=" ++ spec

def forms3 (f : Nat → String) : String :=
  -- the three dispatch variants of an operator must agree in the model too
  let r0 := f 0; let r1 := f 1; let r2 := f 2
  if r0 = r1 ∧ r1 = r2 then r0 else r0 ++ " !model-forms-disagree"

/-- what `verif_harness::forms::merge` prints for a list of (form name, `ok v` / `panic K`): the common result, or
    `forms-disagree [name: result]…` — so that a dispatch REGENERATED from a semantically edited source (the model
    then runs the edited dispatch) shows the same disagreement as the real code and is reported against the spec -/
def mergeForms (rs : List (String × String)) : String :=
  match rs with
  | [] => "bad-op"
  | (_, r0) :: _ =>
    if rs.all (fun p => p.2 == r0) then r0
    else rs.foldl (fun s p => s ++ " [" ++ p.1 ++ ": " ++ p.2.replace " " "_" ++ "]") "forms-disagree"

def chkRaw (model spec : String) : String :=
  if model = spec then model else model ++ " !model-spec-mismatch spec=" ++ spec

/-- the six call forms of `forms_bin6!` (`vv vr rv rr` + `as` = `x op= b` → val/val, `asr` = `x op= &b` → val/ref,
    `impl_binop_assign_by_taking`) over the four ownership forms of the regenerated TypedRepr-level dispatch -/
def forms6 (f : OwnForm → String) : String :=
  let vv := f .valVal; let vr := f .valRef; let rv := f .refVal; let rr := f .refRef
  mergeForms [("vv", vv), ("vr", vr), ("rv", rv), ("rr", rr), ("as", vv), ("asr", vr)]

def exStr (W : Nat) : Except PanicKind TRepr → String
  | .ok r => ok (natToHex (r.value W))
  | .error k => panic k.name

/-- range of a primitive integer type by its Rust name -/
def primRange : String → Option (Int × Int)
  | "u8" => some (0, 2 ^ 8 - 1) | "u16" => some (0, 2 ^ 16 - 1) | "u32" => some (0, 2 ^ 32 - 1)
  | "u64" => some (0, 2 ^ 64 - 1) | "usize" => some (0, 2 ^ 64 - 1) | "u128" => some (0, 2 ^ 128 - 1)
  | "i8" => some (-2 ^ 7, 2 ^ 7 - 1) | "i16" => some (-2 ^ 15, 2 ^ 15 - 1) | "i32" => some (-2 ^ 31, 2 ^ 31 - 1)
  | "i64" => some (-2 ^ 63, 2 ^ 63 - 1) | "isize" => some (-2 ^ 63, 2 ^ 63 - 1) | "i128" => some (-2 ^ 127, 2 ^ 127 - 1)
  | _ => none

def parsePrim (ty s : String) (unsignedOnly : Bool) : Option Int := do
  let (lo, hi) ← primRange ty
  if unsignedOnly && lo < 0 then none
  let v ← parseInt s
  if lo ≤ v ∧ v ≤ hi then some v else none

/-- `UBig ∘ prim` (`impl_binop_with_primitive`: `self.op(UBig::from(rhs))`, self by value or by reference; the assign
    forms `self.op_assign(UBig::from(rhs))` → val/val) -/
def formsBigPrim (f : OwnForm → String) : String :=
  let vv := f .valVal; let rv := f .refVal
  mergeForms [("vp", vv), ("rp", rv), ("vpr", vv), ("rpr", rv), ("as", vv), ("asr", vv)]

/-- `prim ∘ UBig` (`impl_commutative_binop_with_primitive`: `UBig::from(self).op(rhs)`, rhs by value or by reference) -/
def formsPrimBig (f : OwnForm → String) : String :=
  let vv := f .valVal; let vr := f .valRef
  mergeForms [("pv", vv), ("pr", vr), ("prv", vv), ("prr", vr)]

/-- the model's `form` argument of `ibigAdd` / `ibigSub` for an ownership form -/
def formNat : OwnForm → Nat
  | .refRef => 0 | .valVal => 0 | .refVal => 1 | .valRef => 2

def ubigOp (W : Nat) (op : String) (f : OwnForm) (a b : TRepr) : Option String :=
  match op with
  | "add" => some (ok (natToHex ((TRepr.addF W f a b).value W)))
  | "sub" => some (exStr W (TRepr.subF W f a b))
  | "mul" => some (ok (natToHex ((TRepr.mulF W f a b).value W)))
  | _ => none

def ibigOp (W : Nat) (op : String) (f : OwnForm) (a b : SRepr) : Option String :=
  match op with
  | "add" => some (ok (sreprToStr W (ibigAdd W a b (formNat f))))
  | "sub" => some (ok (sreprToStr W (ibigSub W a b (formNat f))))
  | "mul" => some (ok (sreprToStr W (ibigMul W a b)))
  | _ => none

def specOpInt (op : String) (x y : Int) : Option Int :=
  match op with
  | "add" => some (x + y) | "sub" => some (x - y) | "mul" => some (x * y) | _ => none

/-- the four primitive-operand op families; `none` for anything else -/
def primDispatch (W : Nat) (op : String) (args : List String) : Option String :=
  match op.splitOn ".", args with
  | ["up", o], [ty, a, p] => do
    let x ← parseNat a; let pv ← parsePrim ty p true
    let _ ← ubigOp W o .valVal (.small 0) (.small 0)
    let m := formsBigPrim fun f => (ubigOp W o f (ofNat W x) (ofNat W pv.toNat)).getD "bad-op"
    let s ← specOpInt o x pv
    pure (chkRaw m (if s < 0 then panic "NegativeUBig" else ok (intToHex s)))
  | ["pu", o], [ty, p, a] => do
    let pv ← parsePrim ty p true; let x ← parseNat a
    let _ ← ubigOp W o .valVal (.small 0) (.small 0)
    let m := formsPrimBig fun f => (ubigOp W o f (ofNat W pv.toNat) (ofNat W x)).getD "bad-op"
    let s ← specOpInt o pv x
    pure (chkRaw m (if s < 0 then panic "NegativeUBig" else ok (intToHex s)))
  | ["ip", o], [ty, a, p] => do
    let x ← parseInt a; let pv ← parsePrim ty p false
    let _ ← ibigOp W o .valVal ⟨false, .small 0⟩ ⟨false, .small 0⟩
    let m := formsBigPrim fun f => (ibigOp W o f (.ofInt W x) (.ofInt W pv)).getD "bad-op"
    let s ← specOpInt o x pv
    pure (chkRaw m (ok (intToHex s)))
  | ["pi", o], [ty, p, a] => do
    let pv ← parsePrim ty p false; let x ← parseInt a
    let _ ← ibigOp W o .valVal ⟨false, .small 0⟩ ⟨false, .small 0⟩
    let m := formsPrimBig fun f => (ibigOp W o f (.ofInt W pv) (.ofInt W x)).getD "bad-op"
    let s ← specOpInt o pv x
    pure (chkRaw m (ok (intToHex s)))
  | _, _ => none

def dispatch : Dispatch := fun W op args =>
  match op, args with
  | "u.add", [a, b] => do
    let x ← parseNat a; let y ← parseNat b
    let m := forms6 fun f => ok (natToHex ((TRepr.addF W f (ofNat W x) (ofNat W y)).value W))
    pure (chkRaw m (ok (natToHex (x + y))))
  | "u.sub", [a, b] => do
    let x ← parseNat a; let y ← parseNat b
    let m := forms6 fun f => exStr W (TRepr.subF W f (ofNat W x) (ofNat W y))
    pure (chkRaw m (if y ≤ x then ok (natToHex (x - y)) else panic "NegativeUBig"))
  | "u.mul", [a, b] => do
    let x ← parseNat a; let y ← parseNat b
    let m := forms6 fun f => ok (natToHex ((TRepr.mulF W f (ofNat W x) (ofNat W y)).value W))
    pure (chkRaw m (ok (natToHex (x * y))))
  | "u.sqr", [a] => do
    let x ← parseNat a
    pure (chk (natToHex ((ubigSqr W (ofNat W x)).value W)) (natToHex (x * x)))
  | "u.cubic", [a] => do
    let x ← parseNat a
    pure (chk (natToHex ((ubigCubic W (ofNat W x)).value W)) (natToHex (x * x * x)))
  | "u.pow", [a, e] => do
    let x ← parseNat a; let n ← parseDecNat e
    match ubigPowGuarded W (ofNat W x) n with
    | .ok r => pure (chk (natToHex (r.value W)) (natToHex (specPowNat x n)))
    | .error k => pure (panic k.name)
  | "i.pow", [a, e] => do
    let x ← parseInt a; let n ← parseDecNat e
    match ibigPowGuarded W (.ofInt W x) n with
    | .ok r => pure (chk (sreprToStr W r) (intToHex (specPowInt x n)))
    | .error k => pure (panic k.name)
  | "i.add", [a, b] => do
    let x ← parseInt a; let y ← parseInt b
    let m := forms3 fun f => sreprToStr W (ibigAdd W (.ofInt W x) (.ofInt W y) f)
    pure (chk m (intToHex (x + y)))
  | "i.sub", [a, b] => do
    let x ← parseInt a; let y ← parseInt b
    let m := forms3 fun f => sreprToStr W (ibigSub W (.ofInt W x) (.ofInt W y) f)
    pure (chk m (intToHex (x - y)))
  | "i.mul", [a, b] => do
    let x ← parseInt a; let y ← parseInt b
    pure (chk (sreprToStr W (ibigMul W (.ofInt W x) (.ofInt W y))) (intToHex (x * y)))
  | "i.sqr", [a] => do
    let x ← parseInt a
    pure (chk (natToHex ((ibigSqr W (.ofInt W x)).value W)) (intToHex (x * x)))
  | "i.cubic", [a] => do
    let x ← parseInt a
    pure (chk (sreprToStr W (ibigCubic W (.ofInt W x))) (intToHex (x * x * x)))
  | "i.neg", [a] => do
    let x ← parseInt a
    pure (chk (sreprToStr W (SRepr.ofInt W x).negate) (intToHex (-x)))
  | "i.abs", [a] => do
    let x ← parseInt a
    pure (ok (natToHex x.natAbs))
  | "i.signum", [a] => do
    let x ← parseInt a
    pure (ok (intToHex x.sign))
  | "ui.add", [a, b] => do
    let x ← parseNat a; let y ← parseInt b
    let m := forms3 fun f => sreprToStr W (ibigAdd W ⟨false, ofNat W x⟩ (.ofInt W y) f)
    pure (chk m (intToHex (x + y)))
  | "ui.sub", [a, b] => do
    let x ← parseNat a; let y ← parseInt b
    let m := forms3 fun f => sreprToStr W (ibigSub W ⟨false, ofNat W x⟩ (.ofInt W y) f)
    pure (chk m (intToHex (x - y)))
  | "ui.mul", [a, b] => do
    let x ← parseNat a; let y ← parseInt b
    pure (chk (sreprToStr W (ibigMul W ⟨false, ofNat W x⟩ (.ofInt W y))) (intToHex (x * y)))
  | "iu.add", [a, b] => do
    let x ← parseInt a; let y ← parseNat b
    let m := forms3 fun f => sreprToStr W (ibigAdd W (.ofInt W x) ⟨false, ofNat W y⟩ f)
    pure (chk m (intToHex (x + y)))
  | "iu.sub", [a, b] => do
    let x ← parseInt a; let y ← parseNat b
    let m := forms3 fun f => sreprToStr W (ibigSub W (.ofInt W x) ⟨false, ofNat W y⟩ f)
    pure (chk m (intToHex (x - y)))
  | "iu.mul", [a, b] => do
    let x ← parseInt a; let y ← parseNat b
    pure (chk (sreprToStr W (ibigMul W (.ofInt W x) ⟨false, ofNat W y⟩)) (intToHex (x * y)))
  | _, _ => primDispatch W op args

end Dashu.Driver.Int
