import Dashu.Driver.Loop
import Dashu.Model.Int.Ops
import Dashu.Model.Int.Pow
import Dashu.Model.Int.PowCompose
import Dashu.Model.Int.PowFull
/-
  Driver of group `int` (C01, C02): runs the mirrored model; beside every result it evaluates the
  `Int`/`Nat` specification and appends ` !model-spec-mismatch` if they differ (cannot happen for
  refined kernels — that equality is a checked theorem — and is the definition for frontier ones).
-/
namespace Dashu.Driver.Int
open Dashu.IO Dashu.Model Dashu.Driver

def sreprToStr (W : Nat) (r : SRepr) : String :=
  let v := r.mag.value W
  if r.neg then (if v = 0 then "-0" else "-" ++ natToHex v) else natToHex v

def chk (model spec : String) : String :=
  if model = spec then ok model else ok model ++ " !model-spec-mismatch spec=" ++ spec

def forms3 (f : Nat → String) : String :=
  -- the three dispatch variants of an operator must agree in the model too
  let r0 := f 0; let r1 := f 1; let r2 := f 2
  if r0 = r1 ∧ r1 = r2 then r0 else r0 ++ " !model-forms-disagree"

def dispatch : Dispatch := fun W op args =>
  match op, args with
  | "u.add", [a, b] => do
    let x ← parseNat a; let y ← parseNat b
    let m := forms3 fun f => natToHex (((ofNat W x).add W (ofNat W y) f).value W)
    pure (chk m (natToHex (x + y)))
  | "u.sub", [a, b] => do
    let x ← parseNat a; let y ← parseNat b
    let r (f : Nat) : String := match (ofNat W x).sub W (ofNat W y) (f == 1) with
      | .ok r => "ok " ++ natToHex (r.value W)
      | .error k => "panic " ++ k.name
    let m := if r 0 = r 1 then r 0 else r 0 ++ " !model-forms-disagree"
    let spec := if y ≤ x then "ok " ++ natToHex (x - y) else "panic NegativeUBig"
    pure (if m = spec then m else m ++ " !model-spec-mismatch spec=" ++ spec)
  | "u.mul", [a, b] => do
    let x ← parseNat a; let y ← parseNat b
    pure (chk (natToHex (((ofNat W x).mul W (ofNat W y)).value W)) (natToHex (x * y)))
  | "u.sqr", [a] => do
    let x ← parseNat a
    pure (chk (natToHex (((ofNat W x).sqr W).value W)) (natToHex (x * x)))
  | "u.cubic", [a] => do
    let x ← parseNat a
    let s := (ofNat W x).sqr W
    pure (chk (natToHex (((ofNat W x).mul W s).value W)) (natToHex (x * x * x)))
  | "u.pow", [a, e] => do
    let x ← parseNat a; let n ← parseDecNat e
    match ubigPowFull W (ofNat W x) n with
    | .ok r => pure (chk (natToHex (r.value W)) (natToHex (x ^ n)))
    | .error k => pure (panic k.name)
  | "i.pow", [a, e] => do
    let x ← parseInt a; let n ← parseDecNat e
    match ibigPowFull W (.ofInt W x) n with
    | .ok r => pure (chk (sreprToStr W r) (intToHex (x ^ n)))
    | .error k => pure (panic k.name)
  | "i.add", [a, b] => do
    let x ← parseInt a; let y ← parseInt b
    let m := forms3 fun f => sreprToStr W (ibigAdd W (.ofInt W x) (.ofInt W y) f)
    pure (chk m (intToHex (x + y)))
  | "i.sub", [a, b] => do
    let x ← parseInt a; let y ← parseInt b
    let m := forms3 fun f => sreprToStr W (ibigSub W (.ofInt W x) (.ofInt W y) f)
    pure (chk m (intToHex (x - y)))
  | "i.mul", [a, b] => do
    let x ← parseInt a; let y ← parseInt b
    pure (chk (sreprToStr W (ibigMul W (.ofInt W x) (.ofInt W y))) (intToHex (x * y)))
  | "i.sqr", [a] => do
    let x ← parseInt a
    pure (chk (natToHex (((ofNat W x.natAbs).sqr W).value W)) (intToHex (x * x)))
  | "i.cubic", [a] => do
    let x ← parseInt a
    let s : SRepr := ⟨false, (ofNat W x.natAbs).sqr W⟩
    pure (chk (sreprToStr W (ibigMul W (.ofInt W x) s)) (intToHex (x * x * x)))
  | "i.neg", [a] => do
    let x ← parseInt a
    pure (chk (sreprToStr W (SRepr.ofInt W x).negate) (intToHex (-x)))
  | "i.abs", [a] => do
    let x ← parseInt a
    pure (ok (natToHex x.natAbs))
  | "i.signum", [a] => do
    let x ← parseInt a
    pure (ok (intToHex x.sign))
  | "ui.add", [a, b] => do
    let x ← parseNat a; let y ← parseInt b
    let m := forms3 fun f => sreprToStr W (ibigAdd W ⟨false, ofNat W x⟩ (.ofInt W y) f)
    pure (chk m (intToHex (x + y)))
  | "ui.sub", [a, b] => do
    let x ← parseNat a; let y ← parseInt b
    let m := forms3 fun f => sreprToStr W (ibigSub W ⟨false, ofNat W x⟩ (.ofInt W y) f)
    pure (chk m (intToHex (x - y)))
  | "ui.mul", [a, b] => do
    let x ← parseNat a; let y ← parseInt b
    pure (chk (sreprToStr W (ibigMul W ⟨false, ofNat W x⟩ (.ofInt W y))) (intToHex (x * y)))
  | "iu.add", [a, b] => do
    let x ← parseInt a; let y ← parseNat b
    let m := forms3 fun f => sreprToStr W (ibigAdd W (.ofInt W x) ⟨false, ofNat W y⟩ f)
    pure (chk m (intToHex (x + y)))
  | "iu.sub", [a, b] => do
    let x ← parseInt a; let y ← parseNat b
    let m := forms3 fun f => sreprToStr W (ibigSub W (.ofInt W x) ⟨false, ofNat W y⟩ f)
    pure (chk m (intToHex (x - y)))
  | "iu.mul", [a, b] => do
    let x ← parseInt a; let y ← parseNat b
    pure (chk (sreprToStr W (ibigMul W (.ofInt W x) ⟨false, ofNat W y⟩)) (intToHex (x * y)))
  | _, _ => none

end Dashu.Driver.Int
