import Dashu.Driver.Loop
import Dashu.Model.Float.Repr
import Dashu.Gen.FloatNorm
import Dashu.Model.Int.FloatConst
import Dashu.Driver.CmpFrom
/-
  C05 driver ops that need the float ARITHMETIC model of C03 (`Dashu.Model.Float`): values rounded through the
  borrowing / owning rounding routes of `Context` (`f.ctx`).  Linked into the `bits` group driver
  (`Driver/Bits.lean` falls through to `dispatchCtx`).
-/
namespace Dashu.Driver.CmpCtx
open Dashu.IO Dashu.Driver Dashu.Model.Float

/-- `<base><mode letter>`: the (const generic, rounding mode) pair of the harness type -/
def parseTag (t : String) : Option (Nat × Mode) := do
  let B ← (t.takeWhile Char.isDigit).toNat?
  let m ← match (t.dropWhile Char.isDigit).toString with
    | "Z" => some Mode.zero | "A" => some .away | "U" => some .up | "D" => some .down
    | "E" => some .halfEven | "H" => some .halfAway | _ => none
  if B < 2 then none else pure (B, m)

/-- decidable form of "the representation is normalised": zero is `0·B^0`, otherwise the significand is
    not divisible by the base -/
def isNorm (B : Nat) (r : FRepr) : Bool :=
  if r.signif = 0 then r.exp == 0 else r.signif.natAbs % B != 0

/-- `Repr::<B>::new` = `Repr::normalize` AS REGENERATED from float/src/repr.rs (`Gen/FloatNorm.lean`; the `UBig::remove`
    arm runs C12's mirrored squaring-tower algorithm).  `Props/GenFloatNorm.normalize_is_repr_new` proves it equal to the
    hand model `FRepr.new` for every base and input. -/
def reprNewGen (B : Nat) (s e : Int) : FRepr :=
  let g := Dashu.Gen.Repr_normalize ⟨(B : Int)⟩ ⟨s, e⟩
  ⟨g.significand, g.exponent⟩

/-- `isize` range of the host (64-bit): exponents outside cannot be passed to the harness -/
def isizeOk (e : Int) : Bool := decide (-(2 : Int) ^ 63 ≤ e ∧ e < (2 : Int) ^ 63)

/-- bit length of a natural number -/
def bitLenN (n : Nat) : Nat := if n = 0 then 0 else Nat.log2 n + 1

def dispatchCtx : Dispatch := fun W op args =>
  match op, args with
  | "c.ext", [xa, na] => do
    -- E1: the producers with a `usize` count at ANY count.  Spec level (the mirrored kernels and their canonical-form
    -- theorems for every Nat count are C09's / `producers_canonical`): for `n > bit_len |x|` the closed forms, else `2^n`
    let x ← parseInt xa; let n ← parseDecNat na
    if n > 18446744073709551615 then none
    let u := x.natAbs
    let big := decide (n > bitLenN u)
    if !big && n > 1048576 then none
    let shrI : Int := if big then (if x < 0 then -1 else 0) else x / (2 : Int) ^ n
    let shrU : Nat := if big then 0 else u / 2 ^ n
    let lo : Nat := if big then u else u % 2 ^ n
    let cb : Nat := if big then u else (if (u / 2 ^ n) % 2 = 1 then u - 2 ^ n else u)
    let root : String := if n ≥ 1 ∧ n ≥ bitLenN u then (if u = 0 then "0" else "1") else "-"
    pure ("ok " ++ intToHex shrI ++ " " ++ natToHex shrU ++ " " ++ natToHex lo ++ " " ++ natToHex lo ++ " " ++ natToHex shrU
      ++ " " ++ natToHex cb ++ " " ++ root ++ " canon")
  | "f.norm", [b, sa, ea] => do
    -- the regenerated normaliser alone; the spec side is its contract: the same value `s·B^e`, significand not
    -- divisible by the base, zero as `0·B^0` (and the hand model `FRepr.new` must agree)
    let B ← parseDecNat b
    if B < 2 then none
    let s ← parseInt sa; let e ← parseDec ea
    let r := reprNewGen B s e
    if !(isizeOk e && isizeOk r.exp) then none          -- `exponent += shift` would overflow isize: not a case
    let h := FRepr.new B s e
    let okv := if s = 0 then r.signif == 0 && r.exp == 0
               else isNorm B r && decide (e ≤ r.exp) && decide (s = r.signif * (B : Int) ^ (r.exp - e).toNat)
    let bad := (if okv then "" else " !model-spec-mismatch contract") ++
      (if h.signif == r.signif && h.exp == r.exp then "" else " !model-spec-mismatch hand-model=" ++ intToHex h.signif ++ "e" ++ toString h.exp)
    -- `FBig::from_parts_const` (its own normaliser and precision loop, mirrored in Model/Int/FloatConst.lean) when the
    -- magnitude fits a double word: the same representation (theorem `from_parts_const_normalized`), digits ≤ precision + 1
    let (pc, bad2) :=
      if s.natAbs < 2 ^ (2 * W) then
        let c := Dashu.Model.fromPartsConst W B (decide (s < 0)) s.natAbs e none
        ("pc:" ++ toString c.2,
         (if c.1.signif == r.signif && c.1.exp == r.exp then "" else " !model-spec-mismatch const-repr") ++
         (if Dashu.Model.digitsNat B c.1.signif.natAbs ≤ c.2 + 1 then "" else " !model-spec-mismatch const-digits"))
      else ("pc:-", "")
    pure ("ok " ++ intToHex r.signif ++ " " ++ decStr r.exp ++ " " ++ pc ++ " routes-agree" ++ bad ++ bad2)
  | "f.ctx", [tag, sa, ea, pa, sb, eb] => do
    -- `x = s·B^e` rounded ONCE to `p` digits: `Context::repr_round` and its borrowing twin
    -- `repr_round_ref` are the same function of the value (`reprRound`); every route of the harness must
    -- return this representation.  (`Repr::new` first: the harness builds the operand with it.)
    let (B, m) ← parseTag tag
    let s ← parseInt sa; let e ← parseDec ea; let p ← parseDecNat pa
    let _ ← parseInt sb; let _ ← parseDec eb
    let x := reprNewGen B s e                    -- the regenerated `Repr::new` (round 5)
    let r := (reprRound B m coarseNone p x).1
    let bad := (if isNorm B r then "" else " !model-noncanon")
      ++ (if p ≠ 0 ∧ r.digits B > p then " !model-digits" else "")
    pure ("ok " ++ intToHex r.signif ++ " " ++ decStr r.exp ++ " routes-agree" ++ bad)
  | _, _ => Dashu.Driver.CmpFrom.dispatchFrom W op args   -- round 6: `f.from` (TryFrom<f32/f64> as a producer)

end Dashu.Driver.CmpCtx
