import Dashu.Driver.Loop
import Dashu.Model.Float.Repr
/-
  C05 driver ops that need the float ARITHMETIC model of C03 (`Dashu.Model.Float`): values rounded through the
  borrowing / owning rounding routes of `Context` (`f.ctx`).  Linked into the `bits` group driver
  (`Driver/Bits.lean` falls through to `dispatchCtx`).
-/
namespace Dashu.Driver.CmpCtx
open Dashu.IO Dashu.Driver Dashu.Model.Float

/-- `<base><mode letter>`: the (const generic, rounding mode) pair of the harness type -/
def parseTag (t : String) : Option (Nat × Mode) := do
  let B ← (t.takeWhile Char.isDigit).toNat?
  let m ← match (t.dropWhile Char.isDigit).toString with
    | "Z" => some Mode.zero | "A" => some .away | "U" => some .up | "D" => some .down
    | "E" => some .halfEven | "H" => some .halfAway | _ => none
  if B < 2 then none else pure (B, m)

/-- decidable form of "the representation is normalised": zero is `0·B^0`, otherwise the significand is
    not divisible by the base -/
def isNorm (B : Nat) (r : FRepr) : Bool :=
  if r.signif = 0 then r.exp == 0 else r.signif.natAbs % B != 0

def dispatchCtx : Dispatch := fun _ op args =>
  match op, args with
  | "f.ctx", [tag, sa, ea, pa, sb, eb] => do
    -- `x = s·B^e` rounded ONCE to `p` digits: `Context::repr_round` and its borrowing twin
    -- `repr_round_ref` are the same function of the value (`reprRound`); every route of the harness must
    -- return this representation.  (`Repr::new` first: the harness builds the operand with it.)
    let (B, m) ← parseTag tag
    let s ← parseInt sa; let e ← parseDec ea; let p ← parseDecNat pa
    let _ ← parseInt sb; let _ ← parseDec eb
    let x := FRepr.new B s e
    let r := (reprRound B m coarseNone p x).1
    let bad := (if isNorm B r then "" else " !model-noncanon")
      ++ (if p ≠ 0 ∧ r.digits B > p then " !model-digits" else "")
    pure ("ok " ++ intToHex r.signif ++ " " ++ decStr r.exp ++ " routes-agree" ++ bad)
  | _, _ => none

end Dashu.Driver.CmpCtx
